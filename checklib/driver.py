"""Generic check driver: regenerate -> lake build -> axiom audit -> go build -> streams -> evidence.

See DESIGN.md sections 1-3.  Property-specific data lives in props/Cxx.py (dict PROP).
"""
import fcntl
import glob
import importlib.util
import json
import os
import re
import shutil
import subprocess
import sys
import time

ROOT = os.path.dirname(os.path.dirname(os.path.abspath(__file__)))
HARNESS = os.path.join(ROOT, "harness")
# VERIF_REPO=<dir> points the whole machinery at another checkout of onflow/cadence (used to try
# seeded changes in a scratch worktree without touching /repo).  Everything such a run writes
# (binaries, regenerated Lean files, build output, evidence, replays) goes to .build/alt-<tag>/.
REPO = os.path.abspath(os.environ.get("VERIF_REPO", "/repo"))
ALT = REPO != "/repo"
_TAG = re.sub(r"[^A-Za-z0-9]+", "_", REPO).strip("_")
BUILD = os.path.join(ROOT, ".build", "alt-" + _TAG) if ALT else os.path.join(ROOT, ".build")
LEAN = os.path.join(BUILD, "lean") if ALT else os.path.join(ROOT, "lean")
WORK = os.path.join(BUILD, "work") if ALT else os.path.join(ROOT, ".work")
OUT = BUILD if ALT else ROOT          # evidence/ and replays/ live here
ALLOWED_AXIOMS = {"propext", "Classical.choice", "Quot.sound"}
FORBIDDEN = re.compile(
    r"\bsorry\b|\badmit\b|^\s*axiom\s|native_decide|bv_decide|implemented_by|\bunsafe\s|maxHeartbeats\s+0\b|"
    r"@\[extern|ofReduceBool|trustCompiler", re.M)


def log(*a):
    print(*a, flush=True)


def go_env():
    e = dict(os.environ)
    e["VERIF_REPO"] = REPO
    e["VERIF_ROOT"] = ROOT
    e["VERIF_LEAN"] = LEAN
    e["GOFLAGS"] = "-mod=mod"
    e["GOPROXY"] = "off"
    e.pop("GOTOOLCHAIN", None) if e.get("GOTOOLCHAIN") == "local" else None
    e.pop("GOSUMDB", None) if e.get("GOSUMDB") == "off" else None
    return e


def run(cmd, cwd=None, env=None, timeout=None, stdin=None, stdout=None):
    t0 = time.time()
    try:
        p = subprocess.run(cmd, cwd=cwd, env=env, timeout=timeout, stdin=stdin,
                           stdout=stdout if stdout is not None else subprocess.PIPE,
                           stderr=subprocess.PIPE if stdout is None else subprocess.PIPE, text=True)
        return p.returncode, (p.stdout or ""), (p.stderr or ""), time.time() - t0
    except subprocess.TimeoutExpired as ex:
        def s(x):
            return x.decode() if isinstance(x, bytes) else (x or "")
        return 124, s(ex.stdout), s(ex.stderr) + "\nTIMEOUT", time.time() - t0


class LakeLock:
    """Serialises lake invocations between concurrently running checks."""

    def __enter__(self):
        os.makedirs(BUILD, exist_ok=True)
        self.f = open(os.path.join(BUILD, "lake.lock"), "w")
        fcntl.flock(self.f, fcntl.LOCK_EX)
        return self

    def __exit__(self, *a):
        fcntl.flock(self.f, fcntl.LOCK_UN)
        self.f.close()


def load_props():
    props = {}
    for path in sorted(glob.glob(os.path.join(ROOT, "props", "C*.py"))):
        try:
            spec = importlib.util.spec_from_file_location(os.path.basename(path)[:-3], path)
            mod = importlib.util.module_from_spec(spec)
            spec.loader.exec_module(mod)
            p = mod.PROP
        except Exception as ex:  # a broken props file of one property must not take the others down
            print(f"warning: cannot load {path}: {ex!r}", file=sys.stderr)
            continue
        p["_module"] = mod
        props[p["id"]] = p
    return props


def gen_lakefile():
    """lakefile.toml is derived: one lean_exe per Drv/*.lean."""
    lines = ['name = "Verif"', 'version = "0.1.0"', 'defaultTargets = ["Verif", "Drv"]', "",
             "[[lean_lib]]", 'name = "Verif"', 'globs = ["Verif.+"]', "",
             "[[lean_lib]]", 'name = "Drv"', 'globs = ["Drv.+"]', ""]
    for f in sorted(glob.glob(os.path.join(LEAN, "Drv", "*.lean"))):
        base = os.path.basename(f)[:-5]
        lines += ["[[lean_exe]]", f'name = "drv_{base.lower()}"', f'root = "Drv.{base}"', ""]
    content = "\n".join(lines)
    path = os.path.join(LEAN, "lakefile.toml")
    old = open(path).read() if os.path.exists(path) else ""
    if old != content:
        with open(path, "w") as f:
            f.write(content)


def lake_build(targets, timeout=1800):
    with LakeLock():
        return run(["lake", "build"] + targets, cwd=LEAN, timeout=timeout)


def prepare_alt():
    """scratch copy of the Lean project for a run against another checkout"""
    if not ALT:
        return
    os.makedirs(BUILD, exist_ok=True)
    run(["rsync", "-a", "--delete", os.path.join(ROOT, "lean") + "/", LEAN + "/"], timeout=900)


def build_go(prop=None, which=("vharness", "vtool")):
    """Builds the Go tools.  With a property, the binaries are private to that property
    (.build/vharness-Cxx, .build/vtool-Cxx) and are compiled from cmd/<tool>/main.go plus only the files
    that property needs (stream_<name>.go for its streams, prop["harness_files"], prop["tool_files"]),
    so that builders working on other properties cannot break or clobber them."""
    os.makedirs(BUILD, exist_ok=True)
    # the module file is derived: same requirements as harness/go.mod, replace -> REPO, go.sum from REPO
    modfile = os.path.join(BUILD, "go.mod")
    src = open(os.path.join(HARNESS, "go.mod")).read()
    src = re.sub(r"replace github.com/onflow/cadence => \S+", "replace github.com/onflow/cadence => " + REPO, src)
    if not os.path.exists(modfile) or open(modfile).read() != src:
        with open(modfile, "w") as f:
            f.write(src)
    try:
        shutil.copy(os.path.join(REPO, "go.sum"), os.path.join(BUILD, "go.sum"))
    except OSError:
        pass
    out = []
    for w in which:
        d = os.path.join(HARNESS, "cmd", w)
        if not glob.glob(os.path.join(d, "*.go")):
            continue
        if prop is None:
            target, outname = ["./cmd/" + w], w
        else:
            if w == "vharness":
                files = ["stream_" + s_["name"].replace("-", "_") + ".go" for s_ in prop.get("streams", [])]
                files += prop.get("harness_files", [])
                if not prop.get("streams"):
                    continue
            else:
                files = prop.get("tool_files", [])
                if not prop.get("gen"):
                    continue
                if not files:
                    files = [os.path.basename(f) for f in glob.glob(os.path.join(d, "tool_*.go"))]
            files = ["main.go"] + sorted(set(files))
            missing = [f for f in files if not os.path.exists(os.path.join(d, f))]
            if missing:
                out.append((w, 1, f"missing harness files in cmd/{w}: {missing}", 0.0))
                continue
            target, outname = [os.path.join("cmd", w, f) for f in files], f"{w}-{prop['id']}"
        rc, so, se, dt = run(["go", "build", "-modfile=" + modfile, "-tags", "verif", "-o", os.path.join(BUILD, outname)]
                             + target, cwd=HARNESS, env=go_env(), timeout=1500)
        out.append((w, rc, so + se, dt))
    return out


def tool_path(prop, name):
    return os.path.join(BUILD, f"{name}-{prop['id']}")


def strip_lean_comments(src):
    src = re.sub(r"/-.*?-/", "", src, flags=re.S)
    src = re.sub(r"--[^\n]*", "", src)
    return src


def import_closure(modules):
    """Lean source files (of this project) transitively imported by the given modules."""
    seen, todo = set(), list(modules)
    while todo:
        m = todo.pop()
        if m in seen:
            continue
        path = os.path.join(LEAN, *m.split(".")) + ".lean"
        if not os.path.exists(path):
            continue
        seen.add(m)
        for ln in open(path):
            mm = re.match(r"\s*(?:public\s+)?import\s+(.+)", ln)
            if mm:
                for name in mm.group(1).split():
                    if name.startswith("Verif.") or name.startswith("Drv."):
                        todo.append(name)
    return sorted(seen)


def source_audit(modules):
    """grep the sources this property depends on (theorem modules, drivers and everything they import)
    for constructs that would put something outside the kernel into the trusted base."""
    hits = []
    for m in import_closure(modules):
        path = os.path.join(LEAN, *m.split(".")) + ".lean"
        src = strip_lean_comments(open(path).read())
        for mt in FORBIDDEN.finditer(src):
            hits.append(f"{os.path.relpath(path, LEAN)}: {mt.group(0).strip()}")
    return hits


def axiom_audit(modules):
    """returns (theorems: {name: [axioms]}, error text)"""
    if not modules:
        return {}, ""
    with LakeLock():
        rc, so, se, dt = run(["lake", "env", "lean", "--run", "Audit.lean"] + modules, cwd=LEAN, timeout=900)
    thms = {}
    for line in so.splitlines():
        if line.startswith("THEOREM "):
            parts = line.split()
            thms[parts[1]] = parts[2:]
    return thms, ("" if rc == 0 else so + se)


def load_known():
    path = os.path.join(ROOT, "known_findings.json")
    if not os.path.exists(path):
        return []
    return json.load(open(path)).get("findings", [])


def run_stream(prop, stream, tier, seed, n, workdir, replay=None):
    """returns dict with counts, violations, modeldiffs, samples ..."""
    name = stream["name"]
    drv = os.path.join(LEAN, ".lake", "build", "bin", stream["driver"])
    ops_path = os.path.join(workdir, f"{name}-{seed}.ops")
    res_path = os.path.join(workdir, f"{name}-{seed}.res")
    cmd = [tool_path(prop, "vharness"), name, "--seed", str(seed), "--n", str(n), "--tier", tier]
    corpus = os.path.join(ROOT, "corpus", name)
    if replay:
        cmd += ["--replay", replay]
    elif os.path.isdir(corpus):
        cmd += ["--corpus", corpus]
    cmd += stream.get("extra_args", [])
    tmo = stream.get("timeout", {}).get(tier, 600 if tier == "quick" else 3600)
    with open(ops_path, "w") as f:
        rc, _, se, dt_h = run(cmd, cwd=ROOT, env=go_env(), timeout=tmo, stdout=f)
    r = {"stream": name, "seed": seed, "n": n, "harness_rc": rc, "harness_err": se[-2000:], "harness_s": round(dt_h, 2),
         "lines": 0, "ok": 0, "skip": 0, "modeldiff": [], "violations": [], "tags": {}, "nontrivial": set(),
         "samples": [], "skip_reasons": {}}
    if rc != 0:
        return r
    with open(ops_path) as fin, open(res_path, "w") as fout:
        rc2, _, se2, dt_d = run([drv], cwd=ROOT, stdin=fin, stdout=fout, timeout=tmo)
    r["driver_rc"] = rc2
    r["driver_err"] = se2[-2000:]
    r["driver_s"] = round(dt_d, 2)
    if rc2 != 0:
        return r
    with open(ops_path) as fo, open(res_path) as fr:
        for op, res in zip(fo, fr):
            op = op.rstrip("\n")
            res = res.rstrip("\n")
            r["lines"] += 1
            parts = res.split("\t")
            st = parts[0]
            tags = parts[-1].split(",") if len(parts) > 1 and parts[-1] else []
            if st == "OK":
                r["ok"] += 1
                if len(r["samples"]) < 3 or (r["lines"] % 9973 == 0 and len(r["samples"]) < 8):
                    r["samples"].append(op)
            elif st == "MODELDIFF":
                r["modeldiff"].append({"op": op, "model": parts[1] if len(parts) > 1 else ""})
            elif st == "VIOLATION":
                r["violations"].append({"op": op, "class": parts[1] if len(parts) > 1 else "",
                                        "spec": parts[2] if len(parts) > 2 else ""})
            elif st == "SKIP":
                r["skip"] += 1
                reason = parts[1] if len(parts) > 1 else ""
                r["skip_reasons"][reason] = r["skip_reasons"].get(reason, 0) + 1
                tags = []
            else:
                r["modeldiff"].append({"op": op, "model": "unparsable driver line: " + res})
            for t in tags:
                if not t:
                    continue
                r["tags"][t] = r["tags"].get(t, 0) + 1
            if any(t.startswith("!") for t in tags):
                r["nontrivial"].add(op.split("\t=>\t")[0])
        # line count mismatch between harness and driver
    n_ops = sum(1 for _ in open(ops_path))
    n_res = sum(1 for _ in open(res_path))
    if n_ops != n_res:
        r["modeldiff"].append({"op": f"<line count {n_ops} vs {n_res}>", "model": "driver produced a different number of lines"})
    return r


def write_replay(prop_id, seed, idx, header, lines):
    d = os.path.join(OUT, "replays")
    os.makedirs(d, exist_ok=True)
    path = os.path.join(d, f"{prop_id}-{seed}-{idx}.txt")
    with open(path, "w") as f:
        for h in header:
            f.write("# " + h + "\n")
        for ln in lines:
            f.write(ln + "\n")
    return path


def match_known(prop_id, viol, known):
    for k in known:
        if k.get("property") != prop_id or k.get("status") != "known":
            continue
        if k.get("class") and k["class"] == viol["class"]:
            if k.get("stream") and not viol["op"].startswith(k["stream"] + "\t"):
                continue
            return k
    return None


def check_property(prop, tier, seed, replay=None):
    t0 = time.time()
    pid = prop["id"]
    workdir = os.path.join(WORK, f"{pid}-{os.getpid()}")   # private to this run (builders run checks concurrently)
    shutil.rmtree(workdir, ignore_errors=True)
    os.makedirs(workdir, exist_ok=True)
    os.makedirs(os.path.join(OUT, "evidence"), exist_ok=True)
    prepare_alt()
    known = load_known()
    broken = []      # (what, detail) ties / obligations that no longer check
    notes = []
    gen_changed = []

    # 1. Go tools (the translators are needed before the Lean build)
    for w, rc, out, dt in build_go(prop):
        if rc != 0:
            broken.append((f"go-build:{w}", out[-3000:]))
    # 2. regenerate Gen/*
    for g in prop.get("gen", []):
        cmd = [tool_path(prop, g[0])] + g[1:]
        rc, so, se, dt = run(cmd, cwd=ROOT, env=go_env(), timeout=600)
        if rc != 0:
            broken.append(("translator:" + " ".join(g), (so + se)[-3000:]))
    if prop.get("gen"):
        if ALT:
            rc, so, se, _ = run(["diff", "-rq", os.path.join(ROOT, "lean", "Verif", "Gen"), os.path.join(LEAN, "Verif", "Gen")])
            gen_changed = so.splitlines()
        else:
            rc, so, se, _ = run(["git", "status", "--porcelain", "--", "lean/Verif/Gen"], cwd=ROOT)
            gen_changed = [ln[3:] for ln in so.splitlines()]
    # 3. Lean: drivers first (model/spec only), then the property theorems
    gen_lakefile()
    drivers = sorted({s["driver"] for s in prop.get("streams", [])})
    if drivers:
        rc, so, se, dt = lake_build(drivers)
        if rc != 0:
            broken.append(("lake-build:drivers", (so + se)[-4000:]))
    theorem_modules = prop.get("theorem_modules", [])
    rc, so, se, dt = lake_build(theorem_modules) if theorem_modules else (0, "", "", 0)
    proofs_built = rc == 0
    if rc != 0:
        errs = [ln for ln in (so + se).splitlines() if ln.startswith("error:")]
        broken.append(("lake-build:" + ",".join(theorem_modules), "\n".join(errs[:20]) + "\n" + (so + se)[-3000:]))
    # 4. audits
    thms, audit_err = (axiom_audit(theorem_modules) if proofs_built else ({}, ""))
    if audit_err:
        broken.append(("axiom-audit", audit_err[-2000:]))
    bad_axioms = {n: [a for a in ax if a not in ALLOWED_AXIOMS] for n, ax in thms.items()}
    bad_axioms = {n: a for n, a in bad_axioms.items() if a}
    for n, a in bad_axioms.items():
        broken.append((f"axioms:{n}", " ".join(a)))
    drv_modules = []
    for d in drivers:
        for f in glob.glob(os.path.join(LEAN, 'Drv', '*.lean')):
            if 'drv_' + os.path.basename(f)[:-5].lower() == d:
                drv_modules.append('Drv.' + os.path.basename(f)[:-5])
    src_hits = source_audit(theorem_modules + drv_modules)
    for h in src_hits:
        broken.append(("source-audit", h))
    expected = prop.get("min_theorems", 1)
    if proofs_built and len(thms) < expected:
        broken.append(("theorem-count", f"{len(thms)} theorems found in {theorem_modules}, expected at least {expected}"))
    required = prop.get("required_theorems", [])
    for rt in required:
        if proofs_built and rt not in thms:
            broken.append(("missing-theorem", rt))
    obligations = max(len(thms), expected) + 1  # + source audit
    discharged = (len([n for n in thms if n not in bad_axioms]) if proofs_built else 0) + (0 if src_hits else 1)
    if tier == "thorough" and proofs_built and theorem_modules:
        with LakeLock():
            rc, so, se, dt = run(["lake", "env", "leanchecker"] + theorem_modules, cwd=LEAN, timeout=3000)
        obligations += 1
        if rc == 0:
            discharged += 1
            notes.append(f"leanchecker re-checked {theorem_modules} in {dt:.0f}s")
        else:
            broken.append(("leanchecker", (so + se)[-2000:]))
    # property-specific extra step (e.g. diffing generated Go files)
    extra = getattr(prop["_module"], "extra_check", None)
    extra_cov = {}
    if extra:
        res = extra(tier=tier, seed=seed, workdir=workdir, helpers=sys.modules[__name__])
        for b in res.get("broken", []):
            broken.append(b)
        obligations += res.get("obligations", 0)
        discharged += res.get("discharged", 0)
        extra_cov = res.get("coverage", {})

    # 5. correspondence streams
    stream_results = []
    can_run = not any(b[0].startswith("go-build:vharness") or b[0] == "lake-build:drivers" for b in broken)

    def run_all(mode, seeds_override=None):
        out = []
        for s in prop.get("streams", []):
            cfg = s.get(mode, s.get("quick", {}))
            n = cfg.get("n", 1000)
            seeds = seeds_override or [seed + i for i in range(cfg.get("seeds", 1))]
            for sd in seeds:
                out.append(run_stream(prop, s, "thorough" if mode != "quick" else "quick", sd, n, workdir, replay=replay))
        return out

    if can_run:
        stream_results = run_all(tier)
        for r in stream_results:
            if r["harness_rc"] != 0:
                broken.append((f"harness:{r['stream']}", f"rc={r['harness_rc']} {r['harness_err']}"))
            elif r.get("driver_rc", 0) != 0:
                broken.append((f"driver:{r['stream']}", f"rc={r.get('driver_rc')} {r.get('driver_err')}"))
            if r["modeldiff"]:
                first = r["modeldiff"][:5]
                broken.append((f"cc:{pid}/{r['stream']}",
                               f"{len(r['modeldiff'])} lines differ from the model; first: " +
                               " || ".join(f"{d['op']}  model={d['model']}" for d in first)))
        # failing-input search: when a tie or proof broke and nothing concrete was found yet, look wider
        have_viol = any(match_known(pid, v, known) is None for r in stream_results for v in r["violations"])
        if broken and not have_viol and tier == "quick" and not replay:
            notes.append("tie or proof broken: running the failing-input search (thorough-size streams, spec oracle)")
            stream_results += run_all("thorough", seeds_override=[seed + 1000])

    # 6. verdict
    violations = []
    known_hits = {}
    for r in stream_results:
        for v in r["violations"]:
            k = match_known(pid, v, known)
            if k:
                known_hits.setdefault(k["id"], (k, v))
            else:
                violations.append((r, v))
    exit_code = 0
    for kid, (k, v) in sorted(known_hits.items()):
        log(f"KNOWN-FINDING: property={pid} {kid}: {k.get('what', '')} (e.g. {v['op']})")
    if violations:
        # one replay per class, first witness (shortest op line first)
        by_class = {}
        for r, v in violations:
            by_class.setdefault(v["class"], []).append((r, v))
        for i, (cls, lst) in enumerate(sorted(by_class.items())):
            lst.sort(key=lambda rv: len(rv[1]["op"]))
            r, v = lst[0]
            path = write_replay(pid, seed, i, [
                f"property={pid} stream={r['stream']} seed={r['seed']} class={cls}",
                f"the spec requires: {v['spec']}",
                f"{len(lst)} failing operations of this class in this run; shortest first",
                f"re-run: ./check {pid} --replay <this file>"],
                list(dict.fromkeys(x[1]["op"] for x in lst))[:20])
            log(f"VIOLATION property={pid} replay={path}")
        exit_code = 1
    elif broken:
        path = write_replay(pid, seed, 0,
                            [f"property={pid}: no longer shown to hold; no failing input was found by the search",
                             "the following obligations / ties no longer check:"] +
                            [f"{w}: {d[:1500]}".replace("\n", "\n#   ") for w, d in broken], [])
        log(f"VIOLATION property={pid} replay={path} no-failing-input-found")
        exit_code = 1

    # 7. evidence
    evaluations = sum(r["lines"] for r in stream_results)
    nontrivial = set()
    for r in stream_results:
        nontrivial |= r["nontrivial"]
    tags = {}
    for r in stream_results:
        for t, c in r["tags"].items():
            tags[t] = tags.get(t, 0) + c
    samples = []
    for r in stream_results:
        samples += r["samples"][:3]
    samples = samples[:12] + [f"theorem {n} axioms={','.join(a) or 'none'}" for n, a in list(thms.items())[:40]]
    trusted = sorted({a for ax in thms.values() for a in ax})
    coverage = {
        "obligations": obligations,
        "discharged": discharged,
        "checker_cmd": "lake build " + " ".join(theorem_modules) + " && lake env lean --run Audit.lean " +
                       " ".join(theorem_modules) + (" && lake env leanchecker ..." if tier == "thorough" else ""),
        "trusted_base": ["Lean 4 kernel"] + ["axiom " + a for a in trusted] + prop.get("trusted_base", []),
        "theorems": {n: a for n, a in thms.items()},
        "evaluations": evaluations,
        "distinct_nontrivial": len(nontrivial),
        "rule": prop.get("rule", "operations are generated by the stream generators from VERIF_SEED (corpus first); "
                                 "a case counts as non-trivial when the driver tags it '!nt' "
                                 "(it exercises a non-default model branch); distinct = distinct operation lines"),
        "samples": samples or ["(no stream ran)"],
        "exhaustive": bool(prop.get("exhaustive", False)),
        "model_branch_hits": dict(sorted(tags.items())),
        "streams": [{k: (len(v) if isinstance(v, (list, set)) else v) for k, v in r.items()
                     if k in ("stream", "seed", "n", "lines", "ok", "skip", "modeldiff", "violations", "harness_s",
                              "driver_s", "skip_reasons")} for r in stream_results],
        "gen_changed_vs_committed": gen_changed,
        "broken": [w for w, _ in broken],
        "known_findings_hit": sorted(known_hits),
        "known_findings_not_reproduced": sorted(k["id"] for k in known if k.get("property") == pid and
                                                k.get("status") == "known" and k["id"] not in known_hits and
                                                k.get("class")),
        "notes": notes,
    }
    coverage.update(extra_cov)
    ev = {
        "property_id": pid, "tier": tier, "seed": seed, "level": "proof",
        "coverage": coverage,
        "assumptions": prop.get("assumptions", []),
        "wall_s": round(time.time() - t0, 2),
        "violations": len(violations) + (1 if (broken and not violations) else 0),
    }
    with open(os.path.join(OUT, "evidence", pid + ".json"), "w") as f:
        json.dump(ev, f, indent=1, default=str)
    shutil.rmtree(workdir, ignore_errors=True)
    log(f"[{pid}] tier={tier} seed={seed} theorems={len(thms)} discharged={discharged}/{obligations} "
        f"evaluations={evaluations} nontrivial={len(nontrivial)} modeldiff={sum(len(r['modeldiff']) for r in stream_results)} "
        f"violations={len(violations)} known={len(known_hits)} broken={len(broken)} wall={time.time() - t0:.1f}s")
    if broken and os.environ.get("VERIF_DEBUG"):
        for w, d in broken:
            log("BROKEN", w, d[:3000])
    return exit_code


def setup():
    t0 = time.time()
    gen_lakefile()
    props = load_props()
    for w, rc, out, dt in build_go():          # whole binaries (by-hand use); per-property ones below
        log(f"go build {w}: rc={rc} {dt:.0f}s")
        if rc != 0:
            log(out[-3000:])
    failed = False
    for p in props.values():
        for w, rc, out, dt in build_go(p):
            log(f"go build {w}-{p['id']}: rc={rc} {dt:.0f}s")
            if rc != 0:
                log(out[-3000:])
                failed = True
    # run all translators so that Gen/* exists before the Lean build
    seen = set()
    for p in props.values():
        for g in p.get("gen", []):
            key = tuple(g)
            if key in seen:
                continue
            seen.add(key)
            rc, so, se, dt = run([tool_path(p, g[0])] + g[1:], cwd=ROOT, env=go_env(), timeout=900)
            log(f"gen {' '.join(g)}: rc={rc} {dt:.1f}s")
            if rc != 0:
                log((so + se)[-3000:])
    # Build what the claimed properties need (not the whole library: work in progress of properties that
    # are not claimed yet must not break the setup).  A failure here is reported but does not fail the
    # setup: the affected property's own check will rebuild and report it.
    targets = []
    for p in props.values():
        for t in sorted({s_["driver"] for s_ in p.get("streams", [])}) + p.get("theorem_modules", []):
            if t not in targets:
                targets.append(t)
    rc, so, se, dt = lake_build(targets, timeout=7200)
    log(f"lake build ({len(targets)} targets): rc={rc} {dt:.0f}s")
    if rc != 0:
        log((so + se)[-3000:])
        for p in props.values():
            ts = sorted({s_["driver"] for s_ in p.get("streams", [])}) + p.get("theorem_modules", [])
            rc2, so2, se2, dt2 = lake_build(ts, timeout=3600)
            log(f"lake build {p['id']}: rc={rc2} {dt2:.0f}s")
    # warm the audit tool (first `import Lean` is slow on a cold machine)
    with LakeLock():
        run(["lake", "env", "lean", "--run", "Audit.lean"], cwd=LEAN, timeout=900)
    log(f"setup done in {time.time() - t0:.0f}s")
    return 0


def merge_known():
    """known_findings.json is the concatenation of known_findings.d/*.json (done by hand via --manifest,
    never at check time)."""
    findings = []
    for path in sorted(glob.glob(os.path.join(ROOT, "known_findings.d", "*.json"))):
        findings += json.load(open(path))
    with open(os.path.join(ROOT, "known_findings.json"), "w") as f:
        json.dump({"_comment": "Committed; never written at run time (regenerated by hand with ./check --manifest from "
                               "known_findings.d/). status=known entries print KNOWN-FINDING and do not fail the run; "
                               "status=fixed entries suppress nothing (their witnesses are in corpus/ and must pass).",
                   "findings": findings}, f, indent=1)


def manifest():
    merge_known()
    props = load_props()
    all_ids = [json.loads(l)["id"] for l in open(os.path.join(ROOT, "properties.jsonl"))]
    checks = []
    for pid in all_ids:
        if pid not in props or props[pid].get("not_applicable"):
            continue
        p = props[pid]
        checks.append({
            "property_id": pid,
            "quick_cmd": f"./check {pid} --tier quick",
            "thorough_cmd": f"./check {pid} --tier thorough",
            "evidence_file": f"/verif/evidence/{pid}.json",
            "replay_cmd_template": f"./check {pid} --replay {{path}}",
            "engine": "lean4+cc",
            "level_claimed": {"category": "proof", "text": p["level_text"], "design_ref": p.get("design_ref", f"DESIGN.md §6 {pid}")},
            "level_note": p["level_note"],
            "technique": p["technique"],
        })
    na_path = os.path.join(ROOT, "props", "not_applicable.json")
    na = json.load(open(na_path)) if os.path.exists(na_path) else {}
    not_applicable = []
    for pid in all_ids:
        if pid in props and not props[pid].get("not_applicable"):
            continue
        reason = na.get(pid) or (props.get(pid, {}).get("not_applicable")) or \
            "not yet decided by the Lean machinery in this round (model and correspondence stream not built); see DESIGN.md §6 for the plan"
        not_applicable.append({"property_id": pid, "reason": reason})
    hooks_path = os.path.join(ROOT, "props", "hooks.json")
    hooks = json.load(open(hooks_path)) if os.path.exists(hooks_path) else {}
    base_cmd = json.load(open("/root/.vp/BASELINE.json"))["cmd"] if os.path.exists("/root/.vp/BASELINE.json") else ""
    m = {
        "version": 1,
        "setup_cmd": "./check --setup",
        "hooks": {
            "guard": "verif",
            "enable": "go build -tags verif (the harness module /verif/harness replaces github.com/onflow/cadence by /repo)",
            "baseline_off_cmd": hooks.get("baseline_off_cmd", base_cmd),
            "source_commits": hooks.get("source_commits", []),
            "add_only": True,
        },
        "engines": [
            {"name": "lean4+cc", "path": "/verif/lean", "serves_properties": [c["property_id"] for c in checks],
             "kind_free_text": "Lean 4 models and theorems (lake project Verif), tied to /repo by translators (vtool), "
                               "fact extraction and correspondence streams (vharness | drv_*), driven by ./check"}],
        "checks": checks,
        "notes": "All checks: ./check Cxx --tier quick|thorough; VERIF_SEED seeds the generators. See DESIGN.md.",
        "not_applicable": not_applicable,
    }
    with open(os.path.join(ROOT, "MANIFEST.json"), "w") as f:
        json.dump(m, f, indent=1)
    log(f"MANIFEST.json: {len(checks)} checks, {len(not_applicable)} not_applicable")
    return 0


def main(argv):
    if not argv:
        print(__doc__)
        return 2
    tier = os.environ.get("VERIF_TIER", "quick")
    seed = int(os.environ.get("VERIF_SEED", "1") or 1)
    replay = None
    args = []
    i = 0
    while i < len(argv):
        a = argv[i]
        if a == "--tier":
            tier = argv[i + 1]
            i += 2
        elif a == "--seed":
            seed = int(argv[i + 1])
            i += 2
        elif a == "--replay":
            replay = os.path.abspath(argv[i + 1])
            i += 2
        else:
            args.append(a)
            i += 1
    if "--setup" in args:
        return setup()
    if "--manifest" in args:
        return manifest()
    if "--merge-known" in args:
        merge_known()
        return 0
    props = load_props()
    if "--all" in args:
        rc = 0
        for pid, p in props.items():
            if p.get("not_applicable"):
                continue
            rc |= check_property(p, tier, seed)
        return rc
    pid = args[0]
    if pid not in props:
        log(f"unknown property {pid}")
        return 2
    if replay and replay.startswith("/") and open(replay).read().count("\t") == 0:
        # a no-failing-input-found replay: nothing to execute, re-run the full check instead
        log(open(replay).read())
        return check_property(props[pid], tier, seed)
    return check_property(props[pid], tier, seed, replay=replay)
