// Package declsx serialises what the contract update validator looks at in a *parsed* program
// (ast.Program from /repo/parser) into the S-expression format read by
// lean/Verif/Model/UpdateRead.lean:
//
//	prog  ::= (prog (imports imp*) (root decl)) | (prog (imports imp*) (noroot))
//	imp   ::= (imp ADDR|- (n IDENT ALIAS|-)*)                 ADDR: hex of a common.AddressLocation
//	decl  ::= (decl SHAPE KIND NAME (fields (f NAME ty)*) (confs nom*) (cases NAME*) (pragmas prag*)
//	                (base nom|-) (comps decl*) (atts decl*) (ifaces decl*))
//	SHAPE ::= composite | interface | attachment             (Go type of the declaration node)
//	KIND  ::= contract | contractInterface | structure | structureInterface | resource |
//	          resourceInterface | enum | event | attachment | (other NAME)
//	nom   ::= (nom ID NESTED*)
//	ty    ::= nom | (opt ty) | (arr ty) | (carr ty SIZE BASE) | (dict ty ty) | (fun PURITY (params ty*) ty)
//	        | (ref auth ty) | (inter nom*) | (inst ty ty*)
//	auth  ::= - | (conj nom*) | (disj nom*) | (map nom)
//	prag  ::= (notinv) | (inv IDENT|- NARGS ARG0IDENT|-)
//
// Identifiers are printed as they are (the generators use [A-Za-z0-9_] only).
package declsx

import (
	"fmt"
	"strings"

	"github.com/onflow/cadence/ast"
	"github.com/onflow/cadence/common"
)

func list(head string, items ...string) string {
	if len(items) == 0 {
		return "(" + head + ")"
	}
	return "(" + head + " " + strings.Join(items, " ") + ")"
}

// Program serialises a parsed program.
func Program(p *ast.Program) string {
	var imps []string
	for _, imp := range p.ImportDeclarations() {
		addr := "-"
		if al, ok := imp.Location.(common.AddressLocation); ok {
			addr = al.Address.Hex()
		}
		items := []string{addr}
		for _, n := range imp.Imports {
			alias := "-"
			if n.Alias.Identifier != "" {
				alias = n.Alias.Identifier
			}
			items = append(items, list("n", n.Identifier.Identifier, alias))
		}
		imps = append(imps, list("imp", items...))
	}
	root := "(noroot)"
	if d := p.SoleContractDeclaration(); d != nil {
		root = list("root", Decl(d))
	} else if d := p.SoleContractInterfaceDeclaration(); d != nil {
		root = list("root", Decl(d))
	}
	return list("prog", list("imports", imps...), root)
}

func kind(k common.DeclarationKind) string {
	switch k {
	case common.DeclarationKindContract:
		return "contract"
	case common.DeclarationKindContractInterface:
		return "contractInterface"
	case common.DeclarationKindStructure:
		return "structure"
	case common.DeclarationKindStructureInterface:
		return "structureInterface"
	case common.DeclarationKindResource:
		return "resource"
	case common.DeclarationKindResourceInterface:
		return "resourceInterface"
	case common.DeclarationKindEnum:
		return "enum"
	case common.DeclarationKindEvent:
		return "event"
	case common.DeclarationKindAttachment:
		return "attachment"
	}
	return list("other", strings.ReplaceAll(k.Name(), " ", "_"))
}

// Decl serialises a composite, interface or attachment declaration.
func Decl(d ast.Declaration) string {
	shape := "?"
	var confs []*ast.NominalType
	base := "-"
	switch d := d.(type) {
	case *ast.CompositeDeclaration:
		shape = "composite"
		confs = d.Conformances
	case *ast.InterfaceDeclaration:
		shape = "interface"
		confs = d.Conformances
	case *ast.AttachmentDeclaration:
		shape = "attachment"
		confs = d.Conformances
		if d.BaseType != nil {
			base = Nominal(d.BaseType)
		}
	default:
		panic(fmt.Sprintf("declsx: unsupported declaration %T", d))
	}
	m := d.DeclarationMembers()
	var fields, cs, cases, prags, comps, atts, ifaces []string
	for _, f := range m.Fields() {
		fields = append(fields, list("f", f.Identifier.Identifier, Type(f.TypeAnnotation.Type)))
	}
	for _, c := range confs {
		cs = append(cs, Nominal(c))
	}
	for _, c := range m.EnumCases() {
		cases = append(cases, c.Identifier.Identifier)
	}
	for _, p := range m.Pragmas() {
		prags = append(prags, Pragma(p))
	}
	for _, x := range m.Composites() {
		comps = append(comps, Decl(x))
	}
	for _, x := range m.Attachments() {
		atts = append(atts, Decl(x))
	}
	for _, x := range m.Interfaces() {
		ifaces = append(ifaces, Decl(x))
	}
	return list("decl", shape, kind(d.DeclarationKind()), d.DeclarationIdentifier().Identifier,
		list("fields", fields...), list("confs", cs...), list("cases", cases...), list("pragmas", prags...),
		list("base", base), list("comps", comps...), list("atts", atts...), list("ifaces", ifaces...))
}

// Pragma keeps what collectRemovedTypePragmas inspects.
func Pragma(p *ast.PragmaDeclaration) string {
	inv, ok := p.Expression.(*ast.InvocationExpression)
	if !ok {
		return "(notinv)"
	}
	name := "-"
	if id, ok := inv.InvokedExpression.(*ast.IdentifierExpression); ok {
		name = id.Identifier.Identifier
	}
	arg0 := "-"
	if len(inv.Arguments) > 0 {
		if id, ok := inv.Arguments[0].Expression.(*ast.IdentifierExpression); ok {
			arg0 = id.Identifier.Identifier
		}
	}
	return list("inv", name, fmt.Sprint(len(inv.Arguments)), arg0)
}

func Nominal(n *ast.NominalType) string {
	items := []string{n.Identifier.Identifier}
	for _, x := range n.NestedIdentifiers {
		items = append(items, x.Identifier)
	}
	return list("nom", items...)
}

func nominals(ns []*ast.NominalType) []string {
	out := make([]string, len(ns))
	for i, n := range ns {
		out[i] = Nominal(n)
	}
	return out
}

func Auth(a ast.Authorization) string {
	switch a := a.(type) {
	case nil:
		return "-"
	case *ast.ConjunctiveEntitlementSet:
		return list("conj", nominals(a.Elements)...)
	case *ast.DisjunctiveEntitlementSet:
		return list("disj", nominals(a.Elements)...)
	case *ast.MappedAccess:
		return list("map", Nominal(a.EntitlementMap))
	}
	panic(fmt.Sprintf("declsx: unsupported authorization %T", a))
}

func Type(t ast.Type) string {
	switch t := t.(type) {
	case *ast.NominalType:
		return Nominal(t)
	case *ast.OptionalType:
		return list("opt", Type(t.Type))
	case *ast.VariableSizedType:
		return list("arr", Type(t.Type))
	case *ast.ConstantSizedType:
		return list("carr", Type(t.Type), t.Size.Value.String(), fmt.Sprint(t.Size.Base))
	case *ast.DictionaryType:
		return list("dict", Type(t.KeyType), Type(t.ValueType))
	case *ast.FunctionType:
		var ps []string
		for _, p := range t.ParameterTypeAnnotations {
			ps = append(ps, Type(p.Type))
		}
		return list("fun", fmt.Sprint(int(t.PurityAnnotation)), list("params", ps...), Type(t.ReturnTypeAnnotation.Type))
	case *ast.ReferenceType:
		return list("ref", Auth(t.Authorization), Type(t.Type))
	case *ast.IntersectionType:
		return list("inter", nominals(t.Types)...)
	case *ast.InstantiationType:
		items := []string{Type(t.Type)}
		for _, a := range t.TypeArguments {
			items = append(items, Type(a.Type))
		}
		return list("inst", items...)
	}
	panic(fmt.Sprintf("declsx: unsupported type %T", t))
}
