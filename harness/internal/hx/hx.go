// Package hx is the shared frame of the correspondence harness: stream registry, seeded PRNG,
// line output, panic capture.  One operation per line: fields separated by tabs, then "=>", then the
// canonical result produced by the real code.
package hx

import (
	"bufio"
	"encoding/hex"
	"flag"
	"fmt"
	"os"
	"path/filepath"
	"sort"
	"strings"
	"sync"
	"time"
)

// Rng is SplitMix64; every random choice of a run derives from one seed.
type Rng struct{ s uint64 }

func NewRng(seed uint64) *Rng {
	// Scramble the seed first: with a plain affine start, seed s+1 would just be seed s shifted by
	// one draw and consecutive VERIF_SEEDs would explore the same cases.
	z := seed + 0x632BE59BD9B4E019
	z = (z ^ (z >> 30)) * 0xBF58476D1CE4E5B9
	z = (z ^ (z >> 27)) * 0x94D049BB133111EB
	z = z ^ (z >> 31)
	return &Rng{s: z*0xD1342543DE82EF95 + 0x1234567}
}

func (r *Rng) U64() uint64 {
	r.s += 0x9E3779B97F4A7C15
	z := r.s
	z = (z ^ (z >> 30)) * 0xBF58476D1CE4E5B9
	z = (z ^ (z >> 27)) * 0x94D049BB133111EB
	return z ^ (z >> 31)
}
func (r *Rng) Intn(n int) int {
	if n <= 0 {
		return 0
	}
	return int(r.U64() % uint64(n))
}
func (r *Rng) Bool() bool         { return r.U64()&1 == 1 }
func (r *Rng) Chance(p int) bool  { return r.Intn(100) < p }
func (r *Rng) Byte() byte         { return byte(r.U64()) }
func (r *Rng) Pick(xs []string) string { return xs[r.Intn(len(xs))] }
func (r *Rng) Bytes(n int) []byte {
	b := make([]byte, n)
	for i := range b {
		b[i] = r.Byte()
	}
	return b
}
// Fork derives an independent generator (for per-case sub-seeds).
func (r *Rng) Fork() *Rng { return NewRng(r.U64()) }

// Ctx is handed to a stream's generator.
type Ctx struct {
	Rng   *Rng
	N     int    // requested number of generated operations
	Tier  string // quick | thorough
	Seed  uint64
	emit  func(op []string)
	count int
}

func (c *Ctx) Emit(fields ...string) { c.count++; c.emit(fields) }
func (c *Ctx) Emitted() int          { return c.count }
func (c *Ctx) Thorough() bool        { return c.Tier == "thorough" }

// Stream is one correspondence stream.
type Stream struct {
	Name string
	// Gen emits operations (each a list of fields; the first field is conventionally the stream name).
	Gen func(c *Ctx)
	// Exec runs the real code on one operation and returns the canonical observation
	// (no tabs or newlines).  A Go panic escaping Exec is reported as "panic".
	Exec func(op []string) string
	// Parallel: Exec may be called concurrently for different operations (order of output is kept).
	Parallel bool
	// Timeout per operation (0 = 60 s); an operation exceeding it is reported as "hang".
	Timeout time.Duration
	// Setup runs once before any Exec (optional).
	Setup func()
}

var registry = map[string]*Stream{}

func Register(s *Stream) { registry[s.Name] = s }

func Hex(b []byte) string {
	if len(b) == 0 {
		return "-"
	}
	return hex.EncodeToString(b)
}
func UnHex(s string) []byte {
	if s == "-" {
		return nil
	}
	b, err := hex.DecodeString(s)
	if err != nil {
		panic("bad hex in op: " + s)
	}
	return b
}

// Clean makes a string safe as a single field.
func Clean(s string) string {
	s = strings.ReplaceAll(s, "\t", " ")
	s = strings.ReplaceAll(s, "\n", "\\n")
	s = strings.ReplaceAll(s, "\r", "\\r")
	return s
}

func safeExec(s *Stream, op []string) (res string) {
	done := make(chan string, 1)
	go func() {
		defer func() {
			if r := recover(); r != nil {
				done <- "panic"
				if os.Getenv("VERIF_DEBUG") != "" {
					fmt.Fprintf(os.Stderr, "panic in %v: %v\n", op, r)
				}
			}
		}()
		done <- s.Exec(op)
	}()
	to := s.Timeout
	if to == 0 {
		to = 60 * time.Second
	}
	select {
	case r := <-done:
		return Clean(r)
	case <-time.After(to):
		return "hang"
	}
}

// Main is the entry point of vharness.
func Main() {
	if len(os.Args) < 2 {
		names := make([]string, 0, len(registry))
		for n := range registry {
			names = append(names, n)
		}
		sort.Strings(names)
		fmt.Fprintln(os.Stderr, "usage: vharness <stream> [--seed S] [--n N] [--tier quick|thorough] [--replay file] [--corpus dir]")
		fmt.Fprintln(os.Stderr, "streams:", strings.Join(names, " "))
		os.Exit(2)
	}
	name := os.Args[1]
	s, ok := registry[name]
	if !ok {
		fmt.Fprintln(os.Stderr, "unknown stream", name)
		os.Exit(2)
	}
	fs := flag.NewFlagSet(name, flag.ExitOnError)
	seed := fs.Uint64("seed", 1, "PRNG seed")
	n := fs.Int("n", 1000, "number of generated operations")
	tier := fs.String("tier", "quick", "quick|thorough")
	replay := fs.String("replay", "", "re-run the operations of this file instead of generating")
	corpus := fs.String("corpus", "", "directory of corpus files (operation lines) that run first")
	workers := fs.Int("workers", 16, "parallel workers for Parallel streams")
	_ = fs.Parse(os.Args[2:])

	var ops [][]string
	readOps := func(path string) {
		f, err := os.Open(path)
		if err != nil {
			fmt.Fprintln(os.Stderr, "cannot read", path, err)
			os.Exit(2)
		}
		defer f.Close()
		sc := bufio.NewScanner(f)
		sc.Buffer(make([]byte, 1<<20), 1<<28)
		for sc.Scan() {
			line := sc.Text()
			if strings.TrimSpace(line) == "" || strings.HasPrefix(line, "#") {
				continue
			}
			fields := strings.Split(line, "\t")
			for i, f := range fields {
				if f == "=>" {
					fields = fields[:i]
					break
				}
			}
			ops = append(ops, fields)
		}
	}
	if *replay != "" {
		readOps(*replay)
	} else {
		if *corpus != "" {
			files, _ := filepath.Glob(filepath.Join(*corpus, "*.txt"))
			sort.Strings(files)
			for _, f := range files {
				readOps(f)
			}
		}
		ctx := &Ctx{Rng: NewRng(*seed), N: *n, Tier: *tier, Seed: *seed}
		ctx.emit = func(op []string) { ops = append(ops, op) }
		s.Gen(ctx)
	}
	if s.Setup != nil {
		s.Setup()
	}
	out := bufio.NewWriterSize(os.Stdout, 1<<20)
	defer out.Flush()
	results := make([]string, len(ops))
	if s.Parallel && *workers > 1 {
		var wg sync.WaitGroup
		ch := make(chan int)
		for w := 0; w < *workers; w++ {
			wg.Add(1)
			go func() {
				defer wg.Done()
				for i := range ch {
					results[i] = safeExec(s, ops[i])
				}
			}()
		}
		for i := range ops {
			ch <- i
		}
		close(ch)
		wg.Wait()
	} else {
		for i := range ops {
			results[i] = safeExec(s, ops[i])
		}
	}
	for i, op := range ops {
		for j := range op {
			op[j] = Clean(op[j])
		}
		fmt.Fprintf(out, "%s\t=>\t%s\n", strings.Join(op, "\t"), results[i])
	}
}
