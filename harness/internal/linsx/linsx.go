// Package linsx serialises one function of the *real* parsed program (ast.Program from
// /repo/parser) into the S-expression form of the resource-linearity fragment read by
// lean/Verif/Model/Lin/Reader.lean (property C03).  Only what the checker's resource tracking looks
// at is kept: resource variables, their declaration offsets (Variable.Pos.Offset), the offsets of
// invalidating expressions and of break/continue statements (the checker compares those offsets in
// maybeAddResourceInvalidation), and the control structure.
//
//	fn    ::= (fun (params (p NAME OFF)*) block)
//	block ::= (block stmt*)
//	stmt  ::= (let NAME OFF init) | (destroy NAME OFF) | (eat NAME OFF) | (use NAME) | (read NAME)
//	        | (nomove NAME) | (swap NAME NAME) | (skip)
//	        | (if block block?) | (iflet NAME OFF NAME OFF block block?)
//	        | (while block) | (break OFF) | (continue OFF) | (return) | (panic)
//	init  ::= create | call | (move NAME OFF)
//
// Anything else makes the function "out of fragment" (an *OutOfFragment error naming the node).
package linsx

import (
	"fmt"
	"strconv"
	"strings"

	"github.com/onflow/cadence/ast"
)

type OutOfFragment struct{ What string }

func (e *OutOfFragment) Error() string { return "out-of-fragment:" + e.What }

func oof(format string, args ...any) { panic(&OutOfFragment{What: fmt.Sprintf(format, args...)}) }

type ser struct {
	res map[string]bool // names of resource-typed variables declared so far (names are unique in generated code)
}

// Function serialises the function declaration `name` of the program.
func Function(p *ast.Program, name string) (out string, err error) {
	defer func() {
		if r := recover(); r != nil {
			if o, ok := r.(*OutOfFragment); ok {
				err = o
				return
			}
			panic(r)
		}
	}()
	for _, d := range p.FunctionDeclarations() {
		if d.Identifier.Identifier != name {
			continue
		}
		s := &ser{res: map[string]bool{}}
		var ps []string
		if d.ParameterList != nil {
			for _, par := range d.ParameterList.Parameters {
				if par.TypeAnnotation != nil && par.TypeAnnotation.IsResource {
					s.res[par.Identifier.Identifier] = true
					ps = append(ps, list("p", par.Identifier.Identifier, off(par.Identifier.Pos.Offset)))
				}
			}
		}
		if d.ReturnTypeAnnotation != nil {
			if nt, ok := d.ReturnTypeAnnotation.Type.(*ast.NominalType); !ok || nt.Identifier.Identifier != "Void" || d.ReturnTypeAnnotation.IsResource {
				oof("return-type")
			}
		}
		if d.FunctionBlock == nil || d.FunctionBlock.PreConditions != nil || d.FunctionBlock.PostConditions != nil {
			oof("function-block")
		}
		return list("fun", list("params", ps...), s.block(d.FunctionBlock.Block)), nil
	}
	return "", &OutOfFragment{What: "no-function-" + name}
}

func off(n int) string { return strconv.Itoa(n) }

func list(head string, items ...string) string {
	if len(items) == 0 {
		return "(" + head + ")"
	}
	return "(" + head + " " + strings.Join(items, " ") + ")"
}

func (s *ser) block(b *ast.Block) string {
	var parts []string
	for _, st := range b.Statements {
		parts = append(parts, s.stmt(st))
	}
	return list("block", parts...)
}

// resIdent returns the name if e is an identifier naming a resource variable.
func (s *ser) resIdent(e ast.Expression) (string, int, bool) {
	id, ok := e.(*ast.IdentifierExpression)
	if !ok {
		return "", 0, false
	}
	return id.Identifier.Identifier, id.StartPosition().Offset, s.res[id.Identifier.Identifier]
}

// plain: an expression without any resource variable (conditions, arguments of non-resource calls).
func (s *ser) plain(e ast.Expression) bool {
	switch e := e.(type) {
	case *ast.IdentifierExpression:
		return !s.res[e.Identifier.Identifier]
	case *ast.BoolExpression, *ast.IntegerExpression, *ast.StringExpression:
		return true
	}
	return false
}

func (s *ser) stmt(st ast.Statement) string {
	switch st := st.(type) {
	case *ast.VariableDeclaration:
		if st.SecondTransfer != nil {
			oof("second-transfer")
		}
		if st.Transfer == nil || st.Transfer.Operation != ast.TransferOperationMove {
			if s.plain(st.Value) && st.Transfer != nil && st.Transfer.Operation == ast.TransferOperationCopy {
				return "(skip)"
			}
			oof("non-move-declaration")
		}
		init := s.init(st.Value)
		name := st.Identifier.Identifier
		if s.res[name] {
			oof("redeclared-%s", name)
		}
		s.res[name] = true
		return list("let", name, off(st.Identifier.Pos.Offset), init)
	case *ast.ExpressionStatement:
		return s.exprStmt(st.Expression)
	case *ast.IfStatement:
		switch t := st.Test.(type) {
		case *ast.VariableDeclaration:
			if t.SecondTransfer != nil || t.Transfer == nil || t.Transfer.Operation != ast.TransferOperationMove {
				oof("iflet-transfer")
			}
			x, xoff, ok := s.resIdent(t.Value)
			if !ok {
				oof("iflet-value")
			}
			y := t.Identifier.Identifier
			if s.res[y] {
				oof("redeclared-%s", y)
			}
			s.res[y] = true
			items := []string{y, off(t.Identifier.Pos.Offset), x, off(xoff), s.block(st.Then)}
			// the else branch is serialised after the then branch (textual order)
			if st.Else != nil {
				items = append(items, s.block(st.Else))
			}
			return list("iflet", items...)
		case ast.Expression:
			if !s.plain(t) {
				oof("condition")
			}
			items := []string{s.block(st.Then)}
			if st.Else != nil {
				items = append(items, s.block(st.Else))
			}
			return list("if", items...)
		}
		oof("if-test")
	case *ast.WhileStatement:
		if !s.plain(st.Test) {
			oof("condition")
		}
		return list("while", s.block(st.Block))
	case *ast.BreakStatement:
		return list("break", off(st.StartPos.Offset))
	case *ast.ContinueStatement:
		return list("continue", off(st.StartPos.Offset))
	case *ast.ReturnStatement:
		if st.Expression != nil {
			oof("return-value")
		}
		return "(return)"
	case *ast.SwapStatement:
		x, _, okx := s.resIdent(st.Left)
		y, _, oky := s.resIdent(st.Right)
		if !okx || !oky {
			oof("swap-operands")
		}
		return list("swap", x, y)
	}
	oof("statement-%T", st)
	return ""
}

func (s *ser) init(e ast.Expression) string {
	switch e := e.(type) {
	case *ast.CreateExpression:
		if len(e.InvocationExpression.Arguments) != 0 {
			oof("create-args")
		}
		return "create"
	case *ast.InvocationExpression:
		if id, ok := e.InvokedExpression.(*ast.IdentifierExpression); ok && id.Identifier.Identifier == "mk" && len(e.Arguments) == 0 {
			return "call"
		}
		oof("init-call")
	case *ast.IdentifierExpression:
		if x, o, ok := s.resIdent(e); ok {
			return list("move", x, off(o))
		}
		oof("init-ident")
	}
	oof("init-%T", e)
	return ""
}

func (s *ser) exprStmt(e ast.Expression) string {
	switch e := e.(type) {
	case *ast.DestroyExpression:
		if x, o, ok := s.resIdent(e.Expression); ok {
			return list("destroy", x, off(o))
		}
		oof("destroy-operand")
	case *ast.InvocationExpression:
		switch f := e.InvokedExpression.(type) {
		case *ast.IdentifierExpression:
			switch f.Identifier.Identifier {
			case "panic":
				if len(e.Arguments) == 1 && s.plain(e.Arguments[0].Expression) {
					return "(panic)"
				}
			case "eat":
				if len(e.Arguments) == 1 {
					arg := e.Arguments[0].Expression
					if u, ok := arg.(*ast.UnaryExpression); ok && u.Operation == ast.OperationMove {
						if x, o, ok := s.resIdent(u.Expression); ok {
							return list("eat", x, off(o))
						}
					}
					if x, _, ok := s.resIdent(arg); ok {
						return list("nomove", x)
					}
				}
			case "check":
				if len(e.Arguments) == 1 {
					arg := e.Arguments[0].Expression
					if s.plain(arg) {
						return "(skip)"
					}
					if m, ok := arg.(*ast.MemberExpression); ok && !m.Optional && m.Identifier.Identifier == "id" {
						if x, _, ok := s.resIdent(m.Expression); ok {
							return list("read", x)
						}
					}
				}
			}
			oof("call-%s", f.Identifier.Identifier)
		case *ast.MemberExpression:
			if x, _, ok := s.resIdent(f.Expression); ok && !f.Optional && f.Identifier.Identifier == "use" && len(e.Arguments) == 0 {
				return list("use", x)
			}
			oof("member-call")
		}
	}
	oof("expression-%T", e)
	return ""
}
