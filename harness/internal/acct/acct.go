// Package acct is the host used by the account-level streams (contracts, caps, update e2e): like
// internal/cdc's Env (ledger + deployed code persisting across executions, bounded computation), plus
// what a real host does for contract code: code changes of a failed transaction are discarded with the
// rest of its writes, and the account's contract names can be listed.
package acct

import (
	"fmt"
	"sort"

	"github.com/onflow/cadence"
	"github.com/onflow/cadence/common"
	"github.com/onflow/cadence/runtime"
	. "github.com/onflow/cadence/test_utils/runtime_utils"

	"verif/harness/internal/cdc"
)

type Env struct {
	Ledger  TestLedger
	Codes   map[common.AddressLocation][]byte
	Signers []common.Address
	Limit   uint64
	nextTx  func() common.TransactionLocation
	nextScr func() common.ScriptLocation
	uuid    uint64
	// AccountIDs is the per-account id counter (GenerateAccountID); rolled back with a failed transaction
	AccountIDs map[common.Address]uint64
	// CodeWrites counts host code updates/removals per execution (including those later discarded)
	CodeWrites int
}

func NewEnv() *Env {
	return &Env{
		Ledger:     NewTestLedger(nil, nil),
		Codes:      map[common.AddressLocation][]byte{},
		Limit:      200000,
		AccountIDs: map[common.Address]uint64{},
		nextTx:     NewTransactionLocationGenerator(),
		nextScr:    NewScriptLocationGenerator(),
	}
}

func (e *Env) iface(out *cdc.Outcome) *TestRuntimeInterface {
	return &TestRuntimeInterface{
		Storage: e.Ledger,
		OnGetCode: func(l runtime.Location) ([]byte, error) {
			if al, ok := l.(common.AddressLocation); ok {
				return e.Codes[al], nil
			}
			return nil, nil
		},
		OnResolveLocation: MultipleIdentifierLocationResolver,
		OnGetAccountContractCode: func(l common.AddressLocation) ([]byte, error) {
			return e.Codes[l], nil
		},
		OnUpdateAccountContractCode: func(l common.AddressLocation, code []byte) error {
			e.CodeWrites++
			e.Codes[l] = code
			return nil
		},
		OnRemoveAccountContractCode: func(l common.AddressLocation) error {
			e.CodeWrites++
			delete(e.Codes, l)
			return nil
		},
		OnGetAccountContractNames: func(a runtime.Address) ([]string, error) {
			var names []string
			for l := range e.Codes {
				if l.Address == a {
					names = append(names, l.Name)
				}
			}
			sort.Strings(names)
			return names, nil
		},
		OnGetSigningAccounts: func() ([]runtime.Address, error) { return e.Signers, nil },
		OnProgramLog:         func(s string) { out.Logs = append(out.Logs, s) },
		OnEmitEvent: func(ev cadence.Event) error {
			out.Events = append(out.Events, ev)
			return nil
		},
		OnGenerateUUID: func() (uint64, error) { e.uuid++; return e.uuid, nil },
		OnGenerateAccountID: func(a common.Address) (uint64, error) {
			e.AccountIDs[a]++
			return e.AccountIDs[a], nil
		},
	}
}

func (e *Env) snapshot() map[common.AddressLocation][]byte {
	m := make(map[common.AddressLocation][]byte, len(e.Codes))
	for k, v := range e.Codes {
		m[k] = v
	}
	return m
}

// Tx runs a transaction; a failed transaction leaves the deployed code as it was.
func (e *Env) Tx(src string, useVM bool) (out *cdc.Outcome) {
	out = &cdc.Outcome{}
	saved := e.snapshot()
	savedIDs := map[common.Address]uint64{}
	for k, v := range e.AccountIDs {
		savedIDs[k] = v
	}
	defer func() {
		if r := recover(); r != nil {
			out.Err = fmt.Errorf("escaped panic: %v", r)
			out.Class, out.Kind = "crash", "escaped-panic"
		}
		if out.Class != "none" {
			e.Codes = saved
			e.AccountIDs = savedIDs
		}
	}()
	rt := NewTestRuntime()
	err := rt.ExecuteTransaction(
		runtime.Script{Source: []byte(src)},
		runtime.Context{
			Interface:        e.iface(out),
			Location:         e.nextTx(),
			UseVM:            useVM,
			ComputationGauge: &cdc.Gauge{Limit: e.Limit},
		},
	)
	out.Err = err
	out.Class, out.Kind = cdc.Classify(err)
	return out
}

// Script runs a script (code changes are always discarded).
func (e *Env) Script(src string, useVM bool) (out *cdc.Outcome) {
	out = &cdc.Outcome{}
	saved := e.snapshot()
	defer func() {
		if r := recover(); r != nil {
			out.Err = fmt.Errorf("escaped panic: %v", r)
			out.Class, out.Kind = "crash", "escaped-panic"
		}
		e.Codes = saved
	}()
	rt := NewTestRuntime()
	v, err := rt.ExecuteScript(
		runtime.Script{Source: []byte(src)},
		runtime.Context{
			Interface:        e.iface(out),
			Location:         e.nextScr(),
			UseVM:            useVM,
			ComputationGauge: &cdc.Gauge{Limit: e.Limit},
		},
	)
	out.Value = v
	out.Err = err
	out.Class, out.Kind = cdc.Classify(err)
	return out
}
