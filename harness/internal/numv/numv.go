// Package numv: the 24 concrete numeric types of Cadence as (type name, raw integer) pairs —
// construction of interpreter values from a raw (scaled) integer and back.  Used by the streams
// `conv` (C16) and `text` (C17).  The bounds below are computed from the type's definition
// (2^n, 10^scale), not read from /repo, so that a changed constant in /repo shows up as a difference.
package numv

import (
	"fmt"
	"math/big"
	"strings"

	fix "github.com/onflow/fixed-point"

	"github.com/onflow/cadence/interpreter"
)

var Types = []string{
	"Int", "Int8", "Int16", "Int32", "Int64", "Int128", "Int256",
	"UInt", "UInt8", "UInt16", "UInt32", "UInt64", "UInt128", "UInt256",
	"Word8", "Word16", "Word32", "Word64", "Word128", "Word256",
	"Fix64", "UFix64", "Fix128", "UFix128",
}

type Info struct {
	Name   string
	Signed bool
	Word   bool
	Fixed  bool
	Bits   int // 0 = unbounded
	Scale  int
}

func Of(ty string) Info {
	i := Info{Name: ty}
	switch {
	case strings.HasPrefix(ty, "Int"):
		i.Signed = true
		fmt.Sscanf(ty[3:], "%d", &i.Bits)
	case strings.HasPrefix(ty, "UInt"):
		fmt.Sscanf(ty[4:], "%d", &i.Bits)
	case strings.HasPrefix(ty, "Word"):
		i.Word = true
		fmt.Sscanf(ty[4:], "%d", &i.Bits)
	case strings.HasPrefix(ty, "Fix"):
		i.Signed, i.Fixed = true, true
		fmt.Sscanf(ty[3:], "%d", &i.Bits)
	case strings.HasPrefix(ty, "UFix"):
		i.Fixed = true
		fmt.Sscanf(ty[4:], "%d", &i.Bits)
	default:
		panic("numv: unknown type " + ty)
	}
	if i.Fixed {
		i.Scale = 8
		if i.Bits == 128 {
			i.Scale = 24
		}
	}
	return i
}

func pow2(n int) *big.Int { return new(big.Int).Lsh(big.NewInt(1), uint(n)) }

func Pow10(n int) *big.Int {
	return new(big.Int).Exp(big.NewInt(10), big.NewInt(int64(n)), nil)
}

// Min returns the least raw value of the type (nil: unbounded below).
func (i Info) Min() *big.Int {
	if !i.Signed {
		return big.NewInt(0)
	}
	if i.Bits == 0 {
		return nil
	}
	return new(big.Int).Neg(pow2(i.Bits - 1))
}

// Max returns the greatest raw value of the type (nil: unbounded above).
func (i Info) Max() *big.Int {
	if i.Bits == 0 {
		return nil
	}
	if i.Signed {
		return new(big.Int).Sub(pow2(i.Bits-1), big.NewInt(1))
	}
	return new(big.Int).Sub(pow2(i.Bits), big.NewInt(1))
}

func (i Info) InRange(x *big.Int) bool {
	if mn := i.Min(); mn != nil && x.Cmp(mn) < 0 {
		return false
	}
	if mx := i.Max(); mx != nil && x.Cmp(mx) > 0 {
		return false
	}
	return true
}

// ByteSize is the fixed size of the big-endian byte form (0 = unbounded).
func (i Info) ByteSize() int { return i.Bits / 8 }

// Make builds the interpreter value of type ty with raw (scaled) integer raw; raw must be in range.
func Make(ty string, raw *big.Int) interpreter.Value {
	if !Of(ty).InRange(raw) {
		panic("numv.Make: out of range " + ty + " " + raw.String())
	}
	r := new(big.Int).Set(raw)
	switch ty {
	case "Int":
		return interpreter.NewUnmeteredIntValueFromBigInt(r)
	case "Int8":
		return interpreter.NewUnmeteredInt8Value(int8(r.Int64()))
	case "Int16":
		return interpreter.NewUnmeteredInt16Value(int16(r.Int64()))
	case "Int32":
		return interpreter.NewUnmeteredInt32Value(int32(r.Int64()))
	case "Int64":
		return interpreter.NewUnmeteredInt64Value(r.Int64())
	case "Int128":
		return interpreter.NewUnmeteredInt128ValueFromBigInt(r)
	case "Int256":
		return interpreter.NewUnmeteredInt256ValueFromBigInt(r)
	case "UInt":
		return interpreter.NewUnmeteredUIntValueFromBigInt(r)
	case "UInt8":
		return interpreter.NewUnmeteredUInt8Value(uint8(r.Uint64()))
	case "UInt16":
		return interpreter.NewUnmeteredUInt16Value(uint16(r.Uint64()))
	case "UInt32":
		return interpreter.NewUnmeteredUInt32Value(uint32(r.Uint64()))
	case "UInt64":
		return interpreter.NewUnmeteredUInt64Value(r.Uint64())
	case "UInt128":
		return interpreter.NewUnmeteredUInt128ValueFromBigInt(r)
	case "UInt256":
		return interpreter.NewUnmeteredUInt256ValueFromBigInt(r)
	case "Word8":
		return interpreter.NewUnmeteredWord8Value(uint8(r.Uint64()))
	case "Word16":
		return interpreter.NewUnmeteredWord16Value(uint16(r.Uint64()))
	case "Word32":
		return interpreter.NewUnmeteredWord32Value(uint32(r.Uint64()))
	case "Word64":
		return interpreter.NewUnmeteredWord64Value(r.Uint64())
	case "Word128":
		return interpreter.NewUnmeteredWord128ValueFromBigInt(r)
	case "Word256":
		return interpreter.NewUnmeteredWord256ValueFromBigInt(r)
	case "Fix64":
		return interpreter.NewUnmeteredFix64Value(r.Int64())
	case "UFix64":
		return interpreter.NewUnmeteredUFix64Value(r.Uint64())
	case "Fix128":
		return interpreter.NewUnmeteredFix128Value(fix128FromBig(r))
	case "UFix128":
		return interpreter.NewUnmeteredUFix128Value(fix.UFix128(fix128FromBig(r)))
	}
	panic("numv.Make: unknown type " + ty)
}

// own two's-complement split (not /repo's fixedpoint.Fix128FromBigInt)
func fix128FromBig(r *big.Int) fix.Fix128 {
	v := new(big.Int).Set(r)
	if v.Sign() < 0 {
		v.Add(v, pow2(128))
	}
	lo := new(big.Int).And(v, new(big.Int).Sub(pow2(64), big.NewInt(1))).Uint64()
	hi := new(big.Int).Rsh(v, 64).Uint64()
	return fix.NewFix128(hi, lo)
}

func fix128ToBig(hi, lo uint64, signed bool) *big.Int {
	v := new(big.Int).SetUint64(hi)
	v.Lsh(v, 64)
	v.Add(v, new(big.Int).SetUint64(lo))
	if signed && hi>>63 == 1 {
		v.Sub(v, pow2(128))
	}
	return v
}

// Raw returns the type name and raw (scaled) integer of a numeric interpreter value ("" if not numeric).
func Raw(v interpreter.Value) (string, *big.Int) {
	switch x := v.(type) {
	case interpreter.IntValue:
		return "Int", new(big.Int).Set(x.BigInt)
	case interpreter.Int8Value:
		return "Int8", big.NewInt(int64(x))
	case interpreter.Int16Value:
		return "Int16", big.NewInt(int64(x))
	case interpreter.Int32Value:
		return "Int32", big.NewInt(int64(x))
	case interpreter.Int64Value:
		return "Int64", big.NewInt(int64(x))
	case interpreter.Int128Value:
		return "Int128", new(big.Int).Set(x.BigInt)
	case interpreter.Int256Value:
		return "Int256", new(big.Int).Set(x.BigInt)
	case interpreter.UIntValue:
		return "UInt", new(big.Int).Set(x.BigInt)
	case interpreter.UInt8Value:
		return "UInt8", new(big.Int).SetUint64(uint64(x))
	case interpreter.UInt16Value:
		return "UInt16", new(big.Int).SetUint64(uint64(x))
	case interpreter.UInt32Value:
		return "UInt32", new(big.Int).SetUint64(uint64(x))
	case interpreter.UInt64Value:
		return "UInt64", new(big.Int).SetUint64(uint64(x))
	case interpreter.UInt128Value:
		return "UInt128", new(big.Int).Set(x.BigInt)
	case interpreter.UInt256Value:
		return "UInt256", new(big.Int).Set(x.BigInt)
	case interpreter.Word8Value:
		return "Word8", new(big.Int).SetUint64(uint64(x))
	case interpreter.Word16Value:
		return "Word16", new(big.Int).SetUint64(uint64(x))
	case interpreter.Word32Value:
		return "Word32", new(big.Int).SetUint64(uint64(x))
	case interpreter.Word64Value:
		return "Word64", new(big.Int).SetUint64(uint64(x))
	case interpreter.Word128Value:
		return "Word128", new(big.Int).Set(x.BigInt)
	case interpreter.Word256Value:
		return "Word256", new(big.Int).Set(x.BigInt)
	case interpreter.Fix64Value:
		return "Fix64", big.NewInt(int64(x))
	case interpreter.UFix64Value:
		return "UFix64", new(big.Int).SetUint64(uint64(x.UFix64Value))
	case interpreter.Fix128Value:
		return "Fix128", fix128ToBig(uint64(x.Hi), uint64(x.Lo), true)
	case interpreter.UFix128Value:
		return "UFix128", fix128ToBig(uint64(x.Hi), uint64(x.Lo), false)
	}
	return "", nil
}

// Literal renders (ty, raw) as a Cadence literal (own formatter, independent of /repo's format package).
func Literal(ty string, raw *big.Int) string {
	i := Of(ty)
	if !i.Fixed {
		return raw.String()
	}
	neg := raw.Sign() < 0
	abs := new(big.Int).Abs(raw)
	q, r := new(big.Int).QuoRem(abs, Pow10(i.Scale), new(big.Int))
	frac := r.String()
	frac = strings.Repeat("0", i.Scale-len(frac)) + frac
	s := q.String() + "." + frac
	if neg {
		s = "-" + s
	}
	return s
}

// ParseLiteral is the inverse of Literal on its image (used on script results rendered by String()).
func ParseLiteral(ty string, s string) (*big.Int, bool) {
	i := Of(ty)
	if i.Fixed {
		dot := strings.IndexByte(s, '.')
		if dot < 0 || len(s)-dot-1 != i.Scale {
			return nil, false
		}
		s = s[:dot] + s[dot+1:]
	}
	return new(big.Int).SetString(s, 10)
}


