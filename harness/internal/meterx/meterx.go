// Package meterx is the shared Go side of the metering properties C30 / C31 / C36:
//
//   - Rec: a common.ComputationGauge + common.MemoryGauge that records EVERY MeterComputation /
//     MeterMemory call (kind, amount) in order, with optional hard limits;
//   - Exec: runs a script / transaction of the real runtime on a host.World with a Rec as both gauges
//     (the recording host of package host supplies runtime.Interface);
//   - Setup: the shared generated contracts (deployed by transactions into a World);
//   - Gen: a seeded generator of whole-language programs aimed at the metering paths
//     (see gen.go).
package meterx

import (
	"crypto/sha256"
	"encoding/hex"
	"fmt"
	"strconv"
	"strings"
	"sync"

	"github.com/onflow/cadence/common"
	"github.com/onflow/cadence/runtime"

	"verif/harness/internal/host"
)

// Entry is one gauge call.
type Entry struct {
	Mem  bool
	Kind uint32
	Amt  uint64
}

func (e Entry) String() string {
	if e.Mem {
		return "m" + strconv.FormatUint(uint64(e.Kind), 10) + ":" + strconv.FormatUint(e.Amt, 10)
	}
	return "c" + strconv.FormatUint(uint64(e.Kind), 10) + ":" + strconv.FormatUint(e.Amt, 10)
}

// Name renders an entry with the kind's Go name (for replay files; never compared).
func (e Entry) Name() string {
	if e.Mem {
		return fmt.Sprintf("mem(%s,%d)", common.MemoryKind(e.Kind).String(), e.Amt)
	}
	return fmt.Sprintf("comp(%s,%d)", common.ComputationKind(e.Kind).String(), e.Amt)
}

// LimitError is returned by the gauge when a limit is exceeded.
type LimitError struct {
	What  string
	Limit uint64
}

func (e LimitError) Error() string { return e.What + " limit " + strconv.FormatUint(e.Limit, 10) + " exceeded" }

// Rec records every gauge call.  Safe for use by one execution at a time (the mutex only protects
// against a runtime that meters from several goroutines, which would itself be a finding).
type Rec struct {
	CompLimit uint64 // 0 = none (never run a program without one)
	MemLimit  uint64 // 0 = none
	CompUsed  uint64
	MemUsed   uint64
	Seq       []Entry
	Keep      bool // keep the sequence (otherwise only the digest / counters)
	N         int
	LoopN     uint64 // number of Loop charges
	StmtN     uint64
	CallN     uint64
	mu        sync.Mutex
	h         [32]byte
	buf       []byte
}

func NewRec(compLimit, memLimit uint64, keep bool) *Rec {
	return &Rec{CompLimit: compLimit, MemLimit: memLimit, Keep: keep}
}

var _ common.ComputationGauge = &Rec{}
var _ common.MemoryGauge = &Rec{}

func (r *Rec) add(e Entry) {
	r.N++
	if r.Keep {
		r.Seq = append(r.Seq, e)
	}
	r.buf = append(r.buf, e.String()...)
	r.buf = append(r.buf, ' ')
	if len(r.buf) > 1<<16 {
		r.flush()
	}
}

func (r *Rec) flush() {
	s := sha256.New()
	s.Write(r.h[:])
	s.Write(r.buf)
	copy(r.h[:], s.Sum(nil))
	r.buf = r.buf[:0]
}

func (r *Rec) MeterComputation(u common.ComputationUsage) error {
	r.mu.Lock()
	defer r.mu.Unlock()
	r.add(Entry{false, uint32(u.Kind), u.Intensity})
	switch u.Kind {
	case common.ComputationKindLoop:
		r.LoopN++
	case common.ComputationKindStatement:
		r.StmtN++
	case common.ComputationKindFunctionInvocation:
		r.CallN++
	}
	r.CompUsed += u.Intensity
	if r.CompLimit > 0 && r.CompUsed > r.CompLimit {
		return LimitError{"computation", r.CompLimit}
	}
	return nil
}

func (r *Rec) MeterMemory(u common.MemoryUsage) error {
	r.mu.Lock()
	defer r.mu.Unlock()
	r.add(Entry{true, uint32(u.Kind), u.Amount})
	r.MemUsed += u.Amount
	if r.MemLimit > 0 && r.MemUsed > r.MemLimit {
		return LimitError{"memory", r.MemLimit}
	}
	return nil
}

// Digest of the whole call sequence so far.
func (r *Rec) Digest() string {
	r.mu.Lock()
	defer r.mu.Unlock()
	r.flush()
	return hex.EncodeToString(r.h[:8])
}

// SeqString renders the kept sequence.
func (r *Rec) SeqString() string {
	var sb strings.Builder
	for i, e := range r.Seq {
		if i > 0 {
			sb.WriteByte(' ')
		}
		sb.WriteString(e.String())
	}
	return sb.String()
}

// Prog is one generated program.
type Prog struct {
	Kind    string // script | tx
	Signers int
	Src     string
}

// Outcome is the canonical observable outcome of one execution (no messages, positions).
type Outcome struct {
	Status string // ok | err | escaped
	Class  string // none | user | internal | external | other
	Kind   string // innermost Go error type
	Value  string
	Logs   []string
	Events []string
	Ledger string
	Res    *host.Result
}

func (o *Outcome) String() string {
	return o.Status + ":" + o.Class + ":" + o.Kind + ":" + o.Value + " logs=" + host.Digest([]byte(strings.Join(o.Logs, "\x1f"))) +
		" events=" + host.Digest([]byte(strings.Join(o.Events, "\x1f"))) + " ledger=" + o.Ledger
}

// Short is the outcome without digests: status, error class and kind.
func (o *Outcome) Short() string {
	if o.Status == "ok" {
		return "ok"
	}
	return o.Status + ":" + o.Class + ":" + o.Kind
}

// Options of one execution.
type Options struct {
	UseVM           bool
	StackDepthLimit uint64 // 0 = the runtime's default
	Seq             uint64 // distinguishes locations
	// AtreeValidation enables runtime.Config.AtreeValidationEnabled (a debugging option that re-validates
	// the whole container after every mutation: quadratic; off for the limit streams)
	AtreeValidation bool
	// Wrap, when set, wraps the runtime.Interface (e.g. to share a program cache between executions).
	Wrap func(h *host.Host) runtime.Interface
}

// Exec runs p on world w with rec as computation and memory gauge.  A successful transaction is
// committed to w.
func Exec(w *host.World, p Prog, rec *Rec, opt Options) (out *Outcome) {
	w.Signers = nil
	for j := 0; j < p.Signers; j++ {
		w.Signers = append(w.Signers, common.Address{0, 0, 0, 0, 0, 0, 0, byte(j + 1)})
	}
	h := host.New(w)
	h.RecordSteps = false
	res := &host.Result{}
	out = &Outcome{Res: res}
	func() {
		defer func() {
			if r := recover(); r != nil {
				res.Escaped = true
				res.PanicVal = r
			}
		}()
		rt := runtime.NewRuntime(runtime.Config{
			AtreeValidationEnabled: opt.AtreeValidation,
			StackDepthLimit:        opt.StackDepthLimit,
		})
		var iface runtime.Interface = h
		if opt.Wrap != nil {
			iface = opt.Wrap(h)
		}
		ctx := runtime.Context{Interface: iface, UseVM: opt.UseVM}
		if rec != nil {
			ctx.ComputationGauge = rec
			ctx.MemoryGauge = rec
		}
		script := runtime.Script{Source: []byte(p.Src)}
		switch p.Kind {
		case "script":
			ctx.Location = host.ScriptLocation(opt.Seq)
			res.Value, res.Err = rt.ExecuteScript(script, ctx)
		case "tx":
			ctx.Location = host.TxLocation(opt.Seq)
			res.Err = rt.ExecuteTransaction(script, ctx)
		default:
			panic("meterx.Exec: bad kind " + p.Kind)
		}
	}()
	if res.OK() && p.Kind != "script" {
		h.Commit()
	}
	out.Status = res.Status()
	out.Class, out.Kind = host.ErrClass(res.Err)
	if res.Escaped {
		out.Class, out.Kind = "crash", fmt.Sprintf("%T", res.PanicVal)
	}
	if res.Value != nil {
		out.Value = res.Value.String()
	}
	out.Logs = h.Logs
	out.Events = h.Events
	out.Ledger = w.Snapshot()
	return out
}

// Setup deploys the shared contracts into a fresh world (account 0x1).  The deployment is itself a
// sequence of transactions of the real runtime.
func Setup(useVM bool) *host.World {
	w := host.NewWorld()
	for i, c := range SharedContracts {
		src := "transaction { prepare(a: auth(Storage, Contracts, Capabilities) &Account) { a.contracts.add(name: " +
			Quote(c.Name) + ", code: " + Quote(c.Code) + ".utf8) } }"
		out := Exec(w, Prog{Kind: "tx", Signers: 1, Src: src}, NewRec(10_000_000, 0, false), Options{UseVM: useVM, Seq: uint64(1000 + i)})
		if out.Status != "ok" {
			panic(fmt.Sprintf("meterx.Setup: deploying %s failed: %v %v", c.Name, out.Res.Err, out.Res.PanicVal))
		}
	}
	return w
}

func Quote(s string) string {
	s = strings.ReplaceAll(s, `\`, `\\`)
	s = strings.ReplaceAll(s, `"`, `\"`)
	s = strings.ReplaceAll(s, "\n", `\n`)
	return `"` + s + `"`
}

// Contract is a shared generated contract.
type Contract struct{ Name, Code string }

// SharedContracts are deployed to 0x1 in this order (K1 imports K0).
var SharedContracts = []Contract{
	{"K0", `access(all) contract K0 {
  access(all) entitlement E
  access(all) entitlement F
  access(all) entitlement G
  access(all) entitlement mapping M { E -> F  F -> G }
  access(all) event Ev(x: Int, s: String)
  access(all) var n: Int
  access(all) struct interface SI { access(all) fun id(): Int }
  access(all) struct S: SI {
    access(all) let a: Int
    access(all) var b: [String]
    init(a: Int) { self.a = a; self.b = ["x", "y"] }
    access(all) fun id(): Int { return self.a }
    access(all) fun sum(): Int { var t = self.a; for s in self.b { t = t + s.length }; return t }
  }
  access(all) resource interface RI { access(all) fun get(): Int }
  access(all) resource R: RI {
    access(all) var v: Int
    access(mapping M) var inner: @[Q]
    init(v: Int) { self.v = v; self.inner <- [] }
    access(all) fun get(): Int { return self.v }
    access(E) fun set(_ v: Int) { self.v = v }
    access(F) fun bump() { self.v = self.v + 1 }
    access(all) fun push(_ q: @Q) { self.inner.append(<- q) }
  }
  access(all) resource Q { access(all) let w: Int  init(w: Int) { self.w = w } access(G) fun g(): Int { return self.w } }
  access(all) fun mk(_ v: Int): @R { return <- create R(v: v) }
  access(all) fun mkQ(_ w: Int): @Q { return <- create Q(w: w) }
  access(all) fun inc(): Int { self.n = self.n + 1; emit Ev(x: self.n, s: "inc"); return self.n }
  access(all) view fun fib(_ k: Int): Int { if k < 2 { return k }; return self.fib(k - 1) + self.fib(k - 2) }
  access(all) fun cond(_ x: Int): Int { pre { x > 0: "neg" } post { result > 1: "small" } return x }
  init() { self.n = 0 }
}`},
	{"K1", `import K0 from 0x1
access(all) contract K1 {
  access(all) enum Color: UInt8 { access(all) case red  access(all) case green  access(all) case blue }
  access(all) struct P: K0.SI {
    access(all) let c: Color
    access(all) let s: K0.S
    init(_ i: UInt8) { self.c = Color(rawValue: i % 3)!; self.s = K0.S(a: Int(i)) }
    access(all) fun id(): Int { return Int(self.c.rawValue) + self.s.id() }
  }
  access(all) attachment A for K0.R { access(all) fun twice(): Int { return base.get() * 2 } }
  access(all) fun ids(_ xs: [{K0.SI}]): [Int] { let r: [Int] = []; for x in xs { r.append(x.id()) }; return r }
  access(all) fun total(_ k: Int): Int { var t = 0; var i = 0; while i < k { t = t + K0.fib(i % 7); i = i + 1 }; return t }
  init() {}
}`},
}
