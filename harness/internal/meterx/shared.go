package meterx

import (
	"fmt"
	"sort"
	"strings"
	"sync"

	"github.com/onflow/cadence/common"
	"github.com/onflow/cadence/runtime"

	"verif/harness/internal/host"
)

// SharedPrograms is a host-level cache of checked (and, for the VM, compiled) programs of address
// locations that outlives one execution — what a host's GetOrLoadProgram is for.
type SharedPrograms struct {
	mu    sync.Mutex
	progs map[common.Location]*runtime.Program
}

func NewSharedPrograms() *SharedPrograms {
	return &SharedPrograms{progs: map[common.Location]*runtime.Program{}}
}

func (s *SharedPrograms) Len() int { s.mu.Lock(); defer s.mu.Unlock(); return len(s.progs) }

type sharedHost struct {
	*host.Host
	shared *SharedPrograms
}

func (h *sharedHost) GetOrLoadProgram(location runtime.Location, load func() (*runtime.Program, error)) (*runtime.Program, error) {
	if _, isAddr := location.(common.AddressLocation); !isAddr {
		return h.Host.GetOrLoadProgram(location, load)
	}
	h.shared.mu.Lock()
	p, ok := h.shared.progs[location]
	h.shared.mu.Unlock()
	if ok {
		return p, nil
	}
	p, err := load() // not under the lock: loading an import re-enters GetOrLoadProgram
	if err == nil && p != nil {
		h.shared.mu.Lock()
		if q, ok := h.shared.progs[location]; ok {
			p = q
		} else {
			h.shared.progs[location] = p
		}
		h.shared.mu.Unlock()
	}
	return p, err
}

// Wrap returns the Options.Wrap function for this cache.
func (s *SharedPrograms) Wrap() func(h *host.Host) runtime.Interface {
	return func(h *host.Host) runtime.Interface { return &sharedHost{Host: h, shared: s} }
}

// MeterDiff describes the multiset difference of two gauge call sequences ("" when equal as sequences).
func MeterDiff(a, b *Rec) string {
	if a.SeqString() == b.SeqString() {
		return ""
	}
	count := map[Entry]int{}
	for _, e := range b.Seq {
		count[e]++
	}
	for _, e := range a.Seq {
		count[e]--
	}
	kinds := map[string]bool{}
	extra, missing := 0, 0
	for e, c := range count {
		if c != 0 {
			name := e.Name()
			kinds[name[:strings.Index(name, ",")]+")"] = true
			if c > 0 {
				extra += c
			} else {
				missing -= c
			}
		}
	}
	var ks []string
	for k := range kinds {
		ks = append(ks, k)
	}
	sort.Strings(ks)
	if len(ks) == 0 {
		return fmt.Sprintf("order-only calls=%d/%d", len(a.Seq), len(b.Seq))
	}
	return fmt.Sprintf("only=%s extra-second=%d extra-first=%d calls=%d/%d", strings.Join(ks, "+"), extra, missing, len(a.Seq), len(b.Seq))
}
