package meterx

// Seeded generator of whole-language Cadence programs aimed at the metering paths: every integer type
// (small and large literals), InclusiveRange (the small-integer value cache), loops, containers,
// strings, composites, resources, interfaces, entitlements and mappings (sema caches on shared types),
// run-time types, optional / failable casts, closures, recursion, imports of the shared contracts,
// storage and capabilities (transactions), built-ins with intensity metering; a fraction of the
// programs ends in a run-time error.

import (
	"fmt"
	"strings"

	"verif/harness/internal/hx"
)

var IntTypes = []string{"Int", "Int8", "Int16", "Int32", "Int64", "Int128", "Int256",
	"UInt", "UInt8", "UInt16", "UInt32", "UInt64", "UInt128", "UInt256",
	"Word8", "Word16", "Word32", "Word64", "Word128", "Word256"}

// G generates one program.
type G struct {
	R     *hx.Rng
	n     int
	decls []string // top-level declarations
	Tx    bool     // generating a transaction body (account `a` in scope)
	retry bool
}

func (g *G) id(p string) string { g.n++; return fmt.Sprintf("%s%d", p, g.n) }

func (g *G) small() int { return g.R.Intn(12) }

func (g *G) intType() string { return IntTypes[g.R.Intn(len(IntTypes))] }

// snippets: each returns statements that may update `acc: Int`.
type snippet func(g *G) string

var snippets = []snippet{
	// integer arithmetic in a random type
	func(g *G) string {
		t, x := g.intType(), g.id("a")
		return fmt.Sprintf("let %s: %s = %d; acc = acc + Int((%s * 3 + %d) %% 100);", x, t, g.small(), x, g.small())
	},
	// InclusiveRange loop (small-integer cache: step 1 of the element type)
	func(g *G) string {
		t, i := g.intType(), g.id("i")
		lo := g.small()
		return fmt.Sprintf("for %s in InclusiveRange<%s>(%d, %d) { acc = acc + Int(%s) }", i, t, lo, lo+g.R.Intn(6), i)
	},
	// InclusiveRange with step and contains (zero of the element type)
	func(g *G) string {
		t, r := g.intType(), g.id("r")
		return fmt.Sprintf("let %s = InclusiveRange<%s>(%d, %d, step: %d); if %s.contains(%d) { acc = acc + 1 }; acc = acc + Int(%s.step);",
			r, t, g.small(), 12+g.small(), 1+g.R.Intn(3), r, g.small(), r)
	},
	// while loop
	func(g *G) string {
		i := g.id("w")
		return fmt.Sprintf("var %s = 0; while %s < %d { %s = %s + 1; if %s %% 3 == 0 { continue }; acc = acc + %s }", i, i, 2+g.small(), i, i, i, i)
	},
	// arrays
	func(g *G) string {
		x := g.id("xs")
		s := fmt.Sprintf("var %s: [Int] = [%d, %d, %d]; %s.append(%d); ", x, g.small(), g.small(), g.small(), x, g.small())
		switch g.R.Intn(6) {
		case 0:
			s += fmt.Sprintf("for e in %s { acc = acc + e }", x)
		case 1:
			s += fmt.Sprintf("acc = acc + %s.map(fun (e: Int): Int { return e * 2 }).length;", x)
		case 2:
			s += fmt.Sprintf("acc = acc + %s.filter(view fun (e: Int): Bool { return e > 3 }).length;", x)
		case 3:
			s += fmt.Sprintf("acc = acc + %s.slice(from: 1, upTo: 3).length + %s.concat(%s).length;", x, x, x)
		case 4:
			s += fmt.Sprintf("if %s.contains(%d) { acc = acc + 1 }; acc = acc + %s.reverse()[0];", x, g.small(), x)
		default:
			s += fmt.Sprintf("for i, e in %s { acc = acc + i * e }; %s.remove(at: 0); acc = acc + (%s.firstIndex(of: 3) ?? 0);", x, x, x)
		}
		return s
	},
	// dictionaries
	func(g *G) string {
		d := g.id("d")
		s := fmt.Sprintf("var %s: {String: Int} = {\"a\": %d, \"b\": %d}; %s[\"c\"] = %d; ", d, g.small(), g.small(), d, g.small())
		switch g.R.Intn(4) {
		case 0:
			s += fmt.Sprintf("for k in %s.keys { acc = acc + (%s[k] ?? 0) }", d, d)
		case 1:
			s += fmt.Sprintf("acc = acc + (%s.remove(key: \"a\") ?? 0) + %s.length;", d, d)
		case 2:
			s += fmt.Sprintf("for v in %s.values { acc = acc + v }; if %s.containsKey(\"b\") { acc = acc + 1 }", d, d)
		default:
			s += fmt.Sprintf("%s.forEachKey(fun (k: String): Bool { return true }); acc = acc + (%s.insert(key: \"z\", 5) ?? 1);", d, d)
		}
		return s
	},
	// strings
	func(g *G) string {
		s := g.id("s")
		words := []string{"hello", "metering", "caf\\u{E9}", "a,b,c", "xyzzy plugh", ""}
		out := fmt.Sprintf("let %s = \"%s\".concat(\"%s\"); ", s, g.R.Pick(words), g.R.Pick(words))
		switch g.R.Intn(7) {
		case 0:
			out += fmt.Sprintf("acc = acc + %s.length + %s.utf8.length;", s, s)
		case 1:
			out += fmt.Sprintf("acc = acc + %s.split(separator: \",\").length;", s)
		case 2:
			out += fmt.Sprintf("acc = acc + %s.toLower().length + %s.replaceAll(of: \"a\", with: \"bb\").length;", s, s)
		case 3:
			out += fmt.Sprintf("acc = acc + String.join([%s, %s], separator: \"-\").length;", s, s)
		case 4:
			out += fmt.Sprintf("if %s.contains(\"b\") { acc = acc + (%s.index(of: \"b\")) }", s, s)
		case 5:
			out += fmt.Sprintf("acc = acc + String.encodeHex(%s.utf8).decodeHex().length;", s)
		default:
			out += fmt.Sprintf("acc = acc + \"\\(acc) and \\(%s)\".length;", s)
		}
		return out
	},
	// number <-> text / bytes
	func(g *G) string {
		t, x := g.intType(), g.id("n")
		return fmt.Sprintf("let %s: %s = %d; acc = acc + %s.toString().length + %s.toBigEndianBytes().length + Int(%s.fromString(\"%d\") ?? 0);",
			x, t, g.small()+g.R.Intn(100), x, x, t, g.small())
	},
	// big integers
	func(g *G) string {
		b := g.id("b")
		switch g.R.Intn(3) {
		case 0:
			return fmt.Sprintf("let %s: Int = (1 << %d) + %d; acc = acc + Int(%s %% 97) + (%s * %s).toString().length;", b, 60+g.R.Intn(200), g.small(), b, b, b)
		case 1:
			return fmt.Sprintf("let %s: UInt256 = 0x%x; acc = acc + Int((%s * 7 / 3) %% 1000);", b, g.R.U64(), b)
		default:
			return fmt.Sprintf("let %s: Int128 = -%d; acc = acc + Int((%s >> 3) & 255);", b, g.R.U64()>>1, b)
		}
	},
	// fixed point
	func(g *G) string {
		f := g.id("f")
		return fmt.Sprintf("let %s: UFix64 = %d.%d; acc = acc + Int(%s * 2.5 + 1.0) + %s.toString().length; let %s_: Fix64 = -%d.5; acc = acc + Int(%s_ * %s_);",
			f, g.small(), 1+g.small(), f, f, f, g.small(), f, f)
	},
	// local struct + method
	func(g *G) string {
		g.needDecl("struct LS { access(all) var x: Int; access(all) let t: String; init(_ x: Int) { self.x = x; self.t = \"t\" } access(all) fun dbl(): Int { return self.x * 2 } access(all) fun setX(_ v: Int) { self.x = v } }")
		v := g.id("ls")
		return fmt.Sprintf("var %s = LS(%d); %s.setX(%s.dbl()); let %s_c = %s; acc = acc + %s_c.x + [%s, %s_c].length;", v, g.small(), v, v, v, v, v, v, v)
	},
	// local resource
	func(g *G) string {
		g.needDecl("resource LR { access(all) var v: Int; init(_ v: Int) { self.v = v } access(all) fun get(): Int { return self.v } }")
		v := g.id("lr")
		switch g.R.Intn(3) {
		case 0:
			return fmt.Sprintf("let %s <- create LR(%d); acc = acc + %s.get(); destroy %s;", v, g.small(), v, v)
		case 1:
			return fmt.Sprintf("let %s: @[LR] <- [<- create LR(%d), <- create LR(%d)]; let %s_r = &%s as &[LR]; acc = acc + %s_r[1].get() + %s.length; destroy %s;",
				v, g.small(), g.small(), v, v, v, v, v)
		default:
			return fmt.Sprintf("let %s: @{String: LR} <- {\"k\": <- create LR(%d)}; let %s_o <- %s.remove(key: \"k\"); acc = acc + (%s_o?.get() ?? 0); destroy %s_o; destroy %s;",
				v, g.small(), v, v, v, v, v)
		}
	},
	// optionals, casts, run-time types
	func(g *G) string {
		v := g.id("o")
		t := g.intType()
		switch g.R.Intn(5) {
		case 0:
			return fmt.Sprintf("let %s: AnyStruct = %d as %s; if let q = %s as? %s { acc = acc + Int(q) }; if %s.isInstance(Type<%s>()) { acc = acc + 1 }", v, g.small(), t, v, t, v, g.intType())
		case 1:
			return fmt.Sprintf("let %s: Int? = %s; acc = acc + (%s ?? 7);", v, []string{"nil", "3"}[g.R.Intn(2)], v)
		case 2:
			return fmt.Sprintf("let %s = Type<[%s]>(); acc = acc + %s.identifier.length; if %s.isSubtype(of: Type<[AnyStruct]>()) { acc = acc + 1 }", v, t, v, v)
		case 3:
			return fmt.Sprintf("let %s: AnyStruct = [%d as %s]; acc = acc + %s.getType().identifier.length; let %s_a = %s as! [%s]; acc = acc + %s_a.length;", v, g.small(), t, v, v, v, t, v)
		default:
			return fmt.Sprintf("let %s = {%d as %s: \"v\"}; acc = acc + %s.keys.length + (%s[%d] ?? \"\").length;", v, g.small(), t, v, v, g.small())
		}
	},
	// closures and recursion
	func(g *G) string {
		g.needDecl("fun fact(_ n: Int): Int { if n <= 1 { return 1 }; return n * fact(n - 1) }")
		f := g.id("f")
		return fmt.Sprintf("let %s = fun (_ x: Int): Int { return x + acc }; acc = %s(%d) + fact(%d) %% 1000;", f, f, g.small(), g.small())
	},
	// shared contract K0: struct, interface, functions, events
	func(g *G) string {
		g.needImport("K0")
		v := g.id("k")
		switch g.R.Intn(4) {
		case 0:
			return fmt.Sprintf("let %s = K0.S(a: %d); acc = acc + %s.sum() + %s.id();", v, g.small(), v, v)
		case 1:
			return fmt.Sprintf("acc = acc + K0.fib(%d) + K0.cond(%d);", g.R.Intn(9), 2+g.small())
		case 2:
			return fmt.Sprintf("let %s: {K0.SI} = K0.S(a: %d); acc = acc + %s.id(); if %s.isInstance(Type<K0.S>()) { acc = acc + 1 }", v, g.small(), v, v)
		default:
			return fmt.Sprintf("acc = acc + K0.inc() + K0.n;")
		}
	},
	// shared contract K0: resources, entitlements, mapping
	func(g *G) string {
		g.needImport("K0")
		v := g.id("r")
		switch g.R.Intn(4) {
		case 0:
			return fmt.Sprintf("let %s <- K0.mk(%d); let %s_e = &%s as auth(K0.E) &K0.R; %s_e.set(%d); acc = acc + %s_e.get(); destroy %s;", v, g.small(), v, v, v, g.small(), v, v)
		case 1:
			return fmt.Sprintf("let %s <- K0.mk(%d); %s.push(<- K0.mkQ(%d)); let %s_e = &%s as auth(K0.E, K0.F) &K0.R; %s_e.bump(); acc = acc + %s_e.inner.length; let %s_q <- K0.mkQ(%d); let %s_g = &%s_q as auth(K0.G) &K0.Q; acc = acc + %s_g.g(); destroy %s_q; destroy %s;",
				v, g.small(), v, g.small(), v, v, v, v, v, g.small(), v, v, v, v, v)
		case 2:
			return fmt.Sprintf("let %s <- K0.mk(%d); let %s_u = &%s as &K0.R; if let d = %s_u as? auth(K0.E) &K0.R { acc = acc + 100 }; let %s_i: &{K0.RI} = %s_u; acc = acc + %s_i.get(); destroy %s;",
				v, g.small(), v, v, v, v, v, v, v)
		default:
			return fmt.Sprintf("let %s: @{K0.RI} <- K0.mk(%d); acc = acc + %s.get() + %s.getType().identifier.length; destroy %s;", v, g.small(), v, v, v)
		}
	},
	// shared contract K1 (imports K0): enum, conformances, attachment
	func(g *G) string {
		g.needImport("K0")
		g.needImport("K1")
		v := g.id("p")
		switch g.R.Intn(4) {
		case 0:
			return fmt.Sprintf("let %s = K1.P(%d); acc = acc + %s.id() + Int(%s.c.rawValue);", v, g.small(), v, v)
		case 1:
			return fmt.Sprintf("acc = acc + K1.ids([K1.P(%d), K0.S(a: %d)]).length + K1.total(%d);", g.small(), g.small(), g.small())
		case 2:
			return fmt.Sprintf("let %s <- attach K1.A() to <- K0.mk(%d); acc = acc + (%s[K1.A]?.twice() ?? 0); destroy %s;", v, g.small(), v, v)
		default:
			return fmt.Sprintf("let %s = K1.Color.green; acc = acc + Int(%s.rawValue) + (K1.Color(rawValue: %d) == nil ? 1 : 0);", v, v, g.R.Intn(5))
		}
	},
	// built-ins with host calls / intensity metering
	func(g *G) string {
		switch g.R.Intn(5) {
		case 0:
			return "acc = acc + Int(getCurrentBlock().height);"
		case 1:
			return fmt.Sprintf("acc = acc + Int(revertibleRandom<UInt8>(modulo: %d));", 1+g.small())
		case 2:
			return fmt.Sprintf("acc = acc + HashAlgorithm.SHA3_256.hash([%d, %d]).length;", g.small(), g.small())
		case 3:
			return "acc = acc + RLP.decodeString([0x83, 1, 2, 3]).length;"
		default:
			return fmt.Sprintf("log(acc); acc = acc + Int(getAccount(0x1).balance) + getAccount(0x%d).address.toString().length;", 1+g.R.Intn(3))
		}
	},
	// switch
	func(g *G) string {
		return fmt.Sprintf("switch acc %% 3 { case 0: acc = acc + %d  case 1: acc = acc + %d  default: acc = acc + 1 }", g.small(), g.small())
	},
}

// transaction-only snippets (account `a`)
var txSnippets = []snippet{
	func(g *G) string {
		p := fmt.Sprintf("/storage/m%d", g.R.Intn(4))
		switch g.R.Intn(4) {
		case 0:
			return fmt.Sprintf("if a.storage.type(at: %s) == nil { a.storage.save(%d, to: %s) }", p, g.small(), p)
		case 1:
			return fmt.Sprintf("acc = acc + (a.storage.copy<Int>(from: %s) ?? 0);", p)
		case 2:
			return fmt.Sprintf("if let q = a.storage.load<Int>(from: %s) { acc = acc + q }", p)
		default:
			return fmt.Sprintf("if let q = a.storage.borrow<&Int>(from: %s) { acc = acc + *q }", p)
		}
	},
	func(g *G) string {
		g.needImport("K0")
		p := fmt.Sprintf("/storage/r%d", g.R.Intn(3))
		switch g.R.Intn(3) {
		case 0:
			return fmt.Sprintf("if a.storage.type(at: %s) == nil { a.storage.save(<- K0.mk(%d), to: %s) }", p, g.small(), p)
		case 1:
			return fmt.Sprintf("if let q = a.storage.borrow<auth(K0.E) &K0.R>(from: %s) { q.set(q.get() + 1); acc = acc + q.get() }", p)
		default:
			return fmt.Sprintf("if let q <- a.storage.load<@K0.R>(from: %s) { acc = acc + q.get(); destroy q }", p)
		}
	},
	func(g *G) string {
		g.needImport("K0")
		c := g.id("cap")
		return fmt.Sprintf("let %s = a.capabilities.storage.issue<&K0.R>(/storage/r0); acc = acc + (%s.borrow()?.get() ?? 0) + Int(%s.id);", c, c, c)
	},
	func(g *G) string {
		x := g.id("arr")
		return fmt.Sprintf("var %s: [[Int]] = []; var %s_j = 0; while %s_j < %d { %s.append([%s_j, acc]); %s_j = %s_j + 1 }; a.storage.save(%s, to: /storage/big%d_%d);",
			x, x, x, 2+g.small(), x, x, x, x, x, g.R.Intn(1000), g.R.Intn(1000))
	},
}

// failing endings (run-time errors after part of the program ran)
var failures = []string{
	"if acc >= 0 - acc * acc { panic(\"boom\") }",
	"let ov: Int8 = 127; acc = acc + Int(ov + Int8(acc % 2 + 1));",
	"let em: [Int] = []; acc = acc + em[acc % 2 + 1];",
	"let no: Int? = nil; acc = acc + no!;",
	"let z = acc - acc; acc = acc / z;",
	"let an: AnyStruct = \"s\"; acc = acc + (an as! Int);",
}

func (g *G) needDecl(d string) {
	if g.Tx && !strings.HasPrefix(d, "fun ") {
		g.retry = true // composite declarations are not valid at the top level of a transaction program
		return
	}
	d = "access(all) " + d
	for _, x := range g.decls {
		if x == d {
			return
		}
	}
	g.decls = append(g.decls, d)
}

func (g *G) needImport(name string) {
	d := "import " + name + " from 0x1"
	for _, x := range g.decls {
		if x == d {
			return
		}
	}
	g.decls = append([]string{d}, g.decls...)
}

// Program generates one program with k snippets; failPct percent of the programs end in an error.
func Program(r *hx.Rng, k int, failPct int) Prog {
	g := &G{R: r}
	g.Tx = r.Chance(30)
	var body []string
	for i := 0; i < k; i++ {
		if g.Tx && r.Chance(40) {
			body = append(body, txSnippets[r.Intn(len(txSnippets))](g))
		} else {
			g.retry = false
			s := snippets[r.Intn(len(snippets))](g)
			if g.retry {
				i--
				continue
			}
			body = append(body, s)
		}
	}
	if r.Chance(failPct) {
		body = append(body, failures[r.Intn(len(failures))])
	}
	// imports first, then other declarations
	var imports, others []string
	for _, d := range g.decls {
		if strings.HasPrefix(d, "import ") {
			imports = append(imports, d)
		} else {
			others = append(others, d)
		}
	}
	head := strings.Join(append(imports, others...), "\n")
	if g.Tx {
		return Prog{Kind: "tx", Signers: 1, Src: head + "\ntransaction { prepare(a: auth(Storage, Capabilities) &Account) { var acc = 0\n" +
			strings.Join(body, "\n") + "\nlog(acc) } }"}
	}
	return Prog{Kind: "script", Src: head + "\naccess(all) fun main(): Int { var acc = 0\n" + strings.Join(body, "\n") + "\nreturn acc }"}
}

// Encode / Decode a program as three op-line fields.
func (p Prog) Fields() []string { return []string{p.Kind, fmt.Sprint(p.Signers), p.Src} }

func ProgFromFields(f []string) Prog {
	n := 0
	fmt.Sscan(f[1], &n)
	src := strings.ReplaceAll(f[2], "\\n", "\n")
	return Prog{Kind: f[0], Signers: n, Src: src}
}
