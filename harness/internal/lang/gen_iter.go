package lang

// Iteration family of stream `vmeq` (property C34): programs that iterate arrays and dictionaries
// (`for`, `for i, x`, `for` over a reference, `map`, `filter`, `forEachKey`, `for` over `keys`/`values`),
// nest iterations — mostly over the *same* container — and mutate the containers (append / insert /
// remove / index write / dictionary insert and remove / whole-variable assignment) at chosen points:
// inside the inner iteration, after the inner iteration but inside the outer one, after both.
// Both engines must raise ContainerMutatedDuringIterationError at the same point (same logs before
// it) or agree on the value.  These programs are outside the Lean model's fragment (closures, `for`):
// the driver judges them with the model-independent oracles `engines-differ` / `peephole-differs`.

import (
	"strconv"
	"strings"

	"verif/harness/internal/hx"
)

type ig struct {
	r     *hx.Rng
	sb    strings.Builder
	fresh int
	forms map[string]bool
	// containers that can be iterated / mutated in the current function:
	// array-like expressions and dictionary-like expressions
	arrs []string
	dics []string
	// mutable spellings of an array-like expression (e.g. `arr` can also be mutated through `ref`)
	alias map[string][]string
	// helper functions (closures / methods) that iterate a container themselves and leave the loop by
	// `return`: call expressions of type Int with one Int argument, e.g. "find(%s)"
	finders []string
}

func (x *ig) v(p string) string {
	x.fresh++
	return p + strconv.Itoa(x.fresh)
}

func (x *ig) form(f string) { x.forms[f] = true }

func (x *ig) line(ind int, s string) {
	x.sb.WriteString(strings.Repeat("    ", ind))
	x.sb.WriteString(s)
	x.sb.WriteByte('\n')
}

// frame describes where a statement is generated.
type iframe struct {
	ind    int
	loops  int      // enclosing `for` loops of the current function (break / continue allowed)
	ret    string   // expression of a `return` statement in the current function
	inside []string // containers under iteration right now (innermost last)
	vals   []string // Int variables in scope that hold elements
}

func (x *ig) isDic(c string) bool {
	for _, d := range x.dics {
		if d == c {
			return true
		}
	}
	return false
}

// pickContainer: biased towards a container that is already being iterated.
func (x *ig) pickContainer(f iframe, sameBias int) string {
	if len(f.inside) > 0 && x.r.Chance(sameBias) {
		return f.inside[x.r.Intn(len(f.inside))]
	}
	all := append(append([]string{}, x.arrs...), x.dics...)
	return all[x.r.Intn(len(all))]
}

func (x *ig) val(f iframe) string {
	if len(f.vals) > 0 && x.r.Chance(60) {
		return f.vals[x.r.Intn(len(f.vals))]
	}
	return strconv.Itoa(x.r.Intn(9))
}

// spelling of an array-like container for a mutation (the variable itself or a reference to it)
func (x *ig) spell(c string) string {
	if as := x.alias[c]; len(as) > 0 && x.r.Chance(35) {
		return as[x.r.Intn(len(as))]
	}
	return c
}

// mutation emits one mutating statement on container c.
func (x *ig) mutation(f iframe, c string) string {
	r := x.r
	if x.isDic(c) {
		k := strconv.Itoa(1 + r.Intn(5))
		switch r.Intn(5) {
		case 0:
			x.form("mut-dict-index")
			return c + "[" + k + "] = " + x.val(f)
		case 1:
			x.form("mut-dict-insert")
			return c + ".insert(key: " + k + ", " + x.val(f) + ")"
		case 2:
			x.form("mut-dict-remove")
			return c + ".remove(key: " + k + ")"
		case 3:
			x.form("mut-dict-nil")
			return c + "[" + k + "] = nil"
		default:
			x.form("mut-dict-index")
			return c + "[" + x.val(f) + "] = 1"
		}
	}
	s := x.spell(c)
	switch r.Intn(10) {
	case 0, 1, 2:
		x.form("mut-append")
		return s + ".append(" + x.val(f) + ")"
	case 3:
		x.form("mut-insert")
		return s + ".insert(at: 0, " + x.val(f) + ")"
	case 4:
		x.form("mut-remove")
		return s + ".remove(at: 0)"
	case 5:
		x.form("mut-remove")
		return s + "." + r.Pick([]string{"removeFirst", "removeLast"}) + "()"
	case 6, 7:
		x.form("mut-index")
		return s + "[" + strconv.Itoa(r.Intn(3)) + "] = " + x.val(f)
	case 8:
		x.form("mut-appendAll")
		return s + ".appendAll([" + x.val(f) + ", 8])"
	default:
		x.form("mut-swap")
		return s + "[0] <-> " + s + "[1]"
	}
}

// guarded mutation: `if cnt == K { … }` (a chosen point of the run) or unconditional.
func (x *ig) mutationStmt(f iframe, c string) {
	m := x.mutation(f, c)
	switch x.r.Intn(4) {
	case 0:
		x.line(f.ind, m)
	case 1:
		x.line(f.ind, "if cnt >= "+strconv.Itoa(1+x.r.Intn(8))+" { "+m+" }")
	default:
		x.line(f.ind, "if cnt == "+strconv.Itoa(1+x.r.Intn(10))+" { "+m+" }")
	}
}

func (x *ig) filler(f iframe) {
	r := x.r
	switch r.Intn(6) {
	case 0:
		x.line(f.ind, "log(cnt)")
	case 1:
		if len(f.vals) > 0 {
			x.line(f.ind, "log("+f.vals[r.Intn(len(f.vals))]+")")
		} else {
			x.line(f.ind, "log(acc)")
		}
	case 2:
		c := x.arrs[r.Intn(len(x.arrs))]
		x.line(f.ind, "acc = acc + "+c+".length")
	case 3:
		c := x.arrs[r.Intn(len(x.arrs))]
		x.line(f.ind, "if "+c+".length > 0 { acc = acc + "+c+"[0] }")
	case 4:
		d := x.dics[r.Intn(len(x.dics))]
		x.line(f.ind, "acc = acc + ("+d+"["+strconv.Itoa(1+r.Intn(4))+"] ?? 0)")
	default:
		x.line(f.ind, "acc = acc + "+x.val(f))
	}
}

// iteration emits one iteration construct over container c whose body is produced by `body`.
func (x *ig) iteration(f iframe, c string, body func(iframe)) {
	r := x.r
	nested := false
	for _, in := range f.inside {
		if in == c {
			nested = true
		}
	}
	if nested {
		x.form("nested-same")
	} else if len(f.inside) > 0 {
		x.form("nested-other")
	}
	in := iframe{ind: f.ind + 1, inside: append(append([]string{}, f.inside...), c), vals: append([]string{}, f.vals...)}
	if x.isDic(c) {
		switch r.Intn(4) {
		case 0, 1:
			x.form("forEachKey")
			k := x.v("k")
			in.ret, in.loops = r.Pick([]string{"true", "true", "false"}), 0
			in.vals = append(in.vals, k)
			x.line(f.ind, c+".forEachKey(fun ("+k+": Int): Bool {")
			x.line(in.ind, "cnt = cnt + 1")
			body(in)
			x.line(in.ind, "return "+r.Pick([]string{"true", "true", "true", "cnt < 4"}))
			x.line(f.ind, "})")
		case 2:
			x.form("for-keys")
			k := x.v("k")
			in.ret, in.loops = f.ret, f.loops+1
			in.vals = append(in.vals, k)
			// `keys` is a fresh array: the dictionary itself is not under iteration
			in.inside = append([]string{}, f.inside...)
			x.line(f.ind, "for "+k+" in "+c+".keys {")
			x.line(in.ind, "cnt = cnt + 1")
			body(in)
			x.line(f.ind, "}")
		default:
			x.form("for-values")
			k := x.v("w")
			in.ret, in.loops = f.ret, f.loops+1
			in.vals = append(in.vals, k)
			in.inside = append([]string{}, f.inside...)
			x.line(f.ind, "for "+k+" in "+c+".values {")
			x.line(in.ind, "cnt = cnt + 1")
			body(in)
			x.line(f.ind, "}")
		}
		return
	}
	e := x.v("x")
	in.vals = append(in.vals, e)
	switch r.Intn(9) {
	case 0, 1, 2:
		x.form("for")
		in.ret, in.loops = f.ret, f.loops+1
		x.line(f.ind, "for "+e+" in "+c+" {")
		x.line(in.ind, "cnt = cnt + 1")
		body(in)
		x.line(f.ind, "}")
	case 3:
		x.form("for-index")
		i := x.v("i")
		in.ret, in.loops = f.ret, f.loops+1
		in.vals = append(in.vals, i)
		x.line(f.ind, "for "+i+", "+e+" in "+c+" {")
		x.line(in.ind, "cnt = cnt + 1")
		body(in)
		x.line(f.ind, "}")
	case 4:
		in.ret, in.loops = f.ret, f.loops+1
		if as := x.alias[c]; len(as) > 0 {
			x.form("for-ref")
			x.line(f.ind, "for "+e+" in "+as[r.Intn(len(as))]+" {")
		} else {
			x.form("for")
			x.line(f.ind, "for "+e+" in "+c+" {")
		}
		x.line(in.ind, "cnt = cnt + 1")
		body(in)
		x.line(f.ind, "}")
	case 5, 6:
		x.form("map")
		in.ret, in.loops = e+" + 1", 0
		x.line(f.ind, "let "+x.v("m")+" = "+c+".map(fun ("+e+": Int): Int {")
		x.line(in.ind, "cnt = cnt + 1")
		body(in)
		x.line(in.ind, "return "+e+" * 2")
		x.line(f.ind, "})")
	default:
		// `filter` takes a view function: the body cannot mutate or log; as an inner iteration it still
		// starts and ends an iteration of the container
		x.form("filter")
		q := x.v("q")
		x.line(f.ind, "let "+q+" = "+c+".filter(view fun ("+e+": Int): Bool { return "+e+" "+r.Pick([]string{">", "<", "!="})+" "+strconv.Itoa(r.Intn(4))+" })")
		x.line(f.ind, "acc = acc + "+q+".length")
	}
}

// stmts: a list of k statements at nesting depth d (d iterations may still be opened).
func (x *ig) stmts(f iframe, k, d int) {
	for i := 0; i < k; i++ {
		if x.stmt(f, d) {
			return
		}
	}
}

// stmt returns true when the statement ends the list (break / continue / return).
func (x *ig) stmt(f iframe, d int) bool {
	r := x.r
	c := r.Intn(20)
	switch {
	case c < 6 && d > 0:
		cont := x.pickContainer(f, 65)
		x.iteration(f, cont, func(in iframe) { x.stmts(in, 1+r.Intn(3), d-1) })
	case c < 11:
		x.mutationStmt(f, x.pickContainer(f, 75))
	case c == 11 && f.loops > 0:
		x.form("break")
		x.line(f.ind, "if cnt "+r.Pick([]string{"==", ">=", ">"})+" "+strconv.Itoa(1+r.Intn(6))+" { break }")
	case c == 12 && f.loops > 0:
		x.form("continue")
		x.line(f.ind, "if cnt % 2 == "+strconv.Itoa(r.Intn(2))+" { continue }")
	case c == 13 && len(f.inside) > 0:
		x.form("early-return")
		x.line(f.ind, "if cnt == "+strconv.Itoa(2+r.Intn(6))+" { return "+f.ret+" }")
	case (c == 15 || c == 16) && len(x.finders) > 0:
		x.form("call-finder")
		x.line(f.ind, "acc = acc + "+strings.Replace(x.finders[r.Intn(len(x.finders))], "%s", x.val(f), 1))
	case c == 14:
		x.form("reassign")
		// assigning the variable replaces its value; an iteration in progress keeps the old container
		if r.Bool() || len(x.arrs) < 2 {
			x.line(f.ind, "if cnt == "+strconv.Itoa(1+r.Intn(6))+" { "+x.arrs[0]+" = [7, 8] }")
		} else {
			x.line(f.ind, "if cnt == "+strconv.Itoa(1+r.Intn(6))+" { "+x.arrs[1]+" = "+x.arrs[0]+" }")
		}
	default:
		x.filler(f)
	}
	return false
}

// nestedSame: the shape "outer iteration over c { …; inner iteration over c { … }; mutation of c; … }".
func (x *ig) nestedSame(f iframe, c string) {
	r := x.r
	x.form("nested-same-template")
	x.iteration(f, c, func(o iframe) {
		if r.Chance(30) {
			x.filler(o)
		}
		if r.Chance(25) {
			x.mutationStmt(o, c)
			x.form("mut-before-inner")
		}
		if len(x.finders) > 0 && !x.isDic(c) && r.Chance(25) {
			// the inner iteration runs in a helper and ends by `return` from inside the loop
			x.form("call-finder")
			x.line(o.ind, "acc = acc + "+strings.Replace(x.finders[0], "%s", x.val(o), 1))
		} else {
			x.innerIteration(o, c)
		}
		if r.Chance(85) {
			x.form("mut-after-inner")
			x.mutationStmt(o, c)
		}
		if r.Chance(40) {
			x.filler(o)
		}
	})
	if r.Chance(50) {
		x.form("mut-after-outer")
		x.mutationStmt(f, c)
	}
}

func (x *ig) innerIteration(o iframe, c string) {
	r := x.r
	{
		x.iteration(o, c, func(i iframe) {
			if r.Chance(70) {
				x.filler(i)
			}
			switch r.Intn(6) {
			case 0:
				x.mutationStmt(i, c)
				x.form("mut-in-inner")
			case 1:
				if i.loops > 0 {
					x.form("break")
					x.line(i.ind, "if cnt "+r.Pick([]string{"==", ">="})+" "+strconv.Itoa(1+r.Intn(5))+" { break }")
				}
			case 2:
				x.form("early-return")
				x.line(i.ind, "if cnt == "+strconv.Itoa(3+r.Intn(9))+" { return "+i.ret+" }")
			}
		})
	}
}

const iterPrelude = `access(all) struct H {
    access(all) var a: [Int]
    access(all) var d: {Int: Int}
    init() { self.a = [1, 2, 3]; self.d = {1: 1, 2: 2} }
%METHOD%}
`

// GenerateIter builds one program of the iteration family.
func GenerateIter(r *hx.Rng) *Prog {
	x := &ig{r: r, forms: map[string]bool{"iter": true}}
	method := ""
	if r.Chance(30) {
		// the containers are fields of a struct, iterated and mutated by a method
		x.form("iter-method")
		x.arrs, x.dics = []string{"self.a"}, []string{"self.d"}
		x.alias = map[string][]string{}
		// `find` leaves its loop over self.a by `return`
		x.line(1, "access(all) fun find(_ k: Int): Int {")
		x.line(2, "for e in self.a { if e >= k { return e } }")
		x.line(2, "return 0 - 1")
		x.line(1, "}")
		x.finders = []string{"self.find(%s)"}
		x.line(1, "access(all) fun walk(_ start: Int): Int {")
		x.line(2, "var cnt = start")
		x.line(2, "var acc = 0")
		f := iframe{ind: 2, ret: "acc"}
		x.body(f)
		x.line(2, "log(cnt)")
		x.line(2, "return acc")
		x.line(1, "}")
		method = x.sb.String()
		x.sb.Reset()
		x.line(0, "access(all) fun main(): Int {")
		x.line(1, "var h = H()")
		x.line(1, "let r = h.walk("+strconv.Itoa(r.Intn(3))+")")
		x.line(1, "log(h.a); log(h.d.length); log(h.d[1]); log(h.d[3])")
		x.line(1, "return r")
		x.line(0, "}")
	} else {
		x.arrs, x.dics = []string{"arr", "arr2"}, []string{"dic"}
		x.alias = map[string][]string{"arr": {"ref"}}
		x.line(0, "access(all) fun main(): Int {")
		n := 2 + r.Intn(3)
		items := make([]string, n)
		for i := range items {
			items[i] = strconv.Itoa(1 + r.Intn(5))
		}
		x.line(1, "var arr = ["+strings.Join(items, ", ")+"]")
		x.line(1, "var arr2 = "+r.Pick([]string{"[4, 5]", "[6]", "[1, 2, 3]"}))
		x.line(1, "var dic = "+r.Pick([]string{"{1: 10, 2: 20, 3: 30}", "{1: 10}", "{2: 5, 4: 6}"}))
		x.line(1, "var cnt = 0")
		x.line(1, "var acc = 0")
		x.line(1, "let ref = &arr as auth(Mutate) &[Int]")
		// helpers that iterate `arr` themselves and leave the loop by `return`
		x.line(1, "let find = fun (_ k: Int): Int {")
		x.line(2, "for e in arr { if e >= k { return e } }")
		x.line(2, "return 0 - 1")
		x.line(1, "}")
		x.line(1, "fun findRef(_ k: Int): Int {")
		x.line(2, "for i, e in ref { if e == k { return i } }")
		x.line(2, "return 0 - 1")
		x.line(1, "}")
		x.finders = []string{"find(%s)", "findRef(%s)"}
		f := iframe{ind: 1, ret: "acc"}
		x.body(f)
		x.line(1, "log(arr); log(arr2); log(dic.length); log(dic[1]); log(dic[2]); log(dic[5]); log(cnt); log(acc)")
		x.line(1, "return acc")
		x.line(0, "}")
	}
	src := strings.Replace(iterPrelude, "%METHOD%", method, 1) + x.sb.String()
	forms := make([]string, 0, len(x.forms))
	for f := range x.forms {
		forms = append(forms, f)
	}
	sortStrings(forms)
	return &Prog{Src: src, Forms: forms}
}

func (x *ig) body(f iframe) {
	r := x.r
	k := 1 + r.Intn(3)
	for i := 0; i < k; i++ {
		if r.Chance(55) {
			c := x.arrs[0]
			if r.Chance(25) {
				c = x.dics[0]
			}
			x.nestedSame(f, c)
		} else {
			x.stmts(f, 1+r.Intn(2), 3)
		}
	}
}
