package lang

// Closure wrapping and the `closure-peephole` family (property C34, "enabling or disabling peephole
// optimisation does not change the outcome").
//
// Why wrapping: in /repo the peephole pass rewrites `Program.Functions[i].Code`, but named top-level
// functions and methods are invoked through `bbq.FunctionGlobal.Function`, which `exportFunctions`
// points at a copy of the function made *before* the pass runs.  Only function expressions and inner
// functions (`opNewClosure` reads `Program.Functions[i]`) execute optimised code.  A generated program
// whose statements all sit in `main` therefore runs identical bytecode with and without the switch.
// Wrapped programs put the body of `main` into a closure / inner function.

import (
	"strconv"
	"strings"

	"verif/harness/internal/hx"
)

// WrapMode says where the generated body of `main` is placed.
type WrapMode int

const (
	WrapNone     WrapMode = iota // directly in `main`
	WrapClosure                  // declarations, body, final logs inside `let body = fun (): Int {…}`; main returns body()
	WrapInnerFun                 // the same inside an inner function `fun body(): Int {…}`
	WrapCaptured                 // declarations in `main`, body in a closure that captures them, final logs in `main`
)

func (m WrapMode) String() string {
	return [...]string{"wrap-none", "wrap-closure", "wrap-inner-fun", "wrap-captured"}[m]
}

// PickWrap: a wrapped mode with probability pct/100.
func PickWrap(r *hx.Rng, pct int) WrapMode {
	if !r.Chance(pct) {
		return WrapNone
	}
	return WrapMode(1 + r.Intn(3))
}

func wrapMain(mode WrapMode, decls, body, tail, ret string) string {
	switch mode {
	case WrapClosure:
		return "access(all) fun main(): Int {\n    let body = fun (): Int {\n" + decls + body + tail +
			"    return " + ret + "\n    }\n    return body()\n}\n"
	case WrapInnerFun:
		return "access(all) fun main(): Int {\n    fun body(): Int {\n" + decls + body + tail +
			"    return " + ret + "\n    }\n    return body()\n}\n"
	case WrapCaptured:
		return "access(all) fun main(): Int {\n" + decls + "    let body = fun (): Int {\n" + body +
			"    return 0\n    }\n    let bodyResult = body()\n" + tail + "    return " + ret + " + bodyResult\n}\n"
	}
	return "access(all) fun main(): Int {\n" + decls + body + tail + "    return " + ret + "\n}\n"
}

// ---------------------------------------------------------------- closure-peephole family

// Statements of a closure `fun (c: Bool, k: Int): Int` with locals r: Int, ob: Int?:
//
//	D  windows the peephole patterns match but decline (constant of another kind than the target:
//	   `let x: Int? = 1`, `let a: AnyStruct = "s"`, `let n: Integer = 5`; path literal to a supertype or
//	   optional: `let p: Path = /storage/foo`), assignments / arguments / returns of that shape;
//	R  windows that are rewritten (`let i: Int = 3`, `let p: StoragePath = /storage/x`, `let o: Int? = nil`,
//	   field reads of a local);
//	J  jumps behind them: conditional expression, if / else, while, for, `??`, `&&` / `||`, switch, if-let.
type pg struct {
	r     *hx.Rng
	sb    strings.Builder
	fresh int
	forms map[string]bool
	opts  []string
}

func (x *pg) v(p string) string {
	x.fresh++
	return p + strconv.Itoa(x.fresh)
}

func (x *pg) line(ind int, s string) {
	x.sb.WriteString(strings.Repeat("    ", ind))
	x.sb.WriteString(s)
	x.sb.WriteByte('\n')
}

func (x *pg) num() string { return strconv.Itoa(x.r.Intn(50)) }

func (x *pg) declined(ind int) {
	r := x.r
	x.forms["declined-window"] = true
	switch r.Intn(12) {
	case 0, 1, 2:
		v := x.v("o")
		x.line(ind, "var "+v+": Int? = "+x.num())
		x.opts = append(x.opts, v)
	case 3:
		x.line(ind, "let "+x.v("d")+": "+r.Pick([]string{"AnyStruct", "Integer", "Number", "SignedInteger", "Int??", "AnyStruct?"})+" = "+x.num())
	case 4:
		x.line(ind, "let "+x.v("d")+": "+r.Pick([]string{"AnyStruct", "String?", "AnyStruct?"})+" = \"s\"")
	case 5, 6:
		x.forms["declined-path"] = true
		dom := r.Pick([]string{"storage", "public"})
		ty := map[string][]string{
			"storage": {"Path", "StoragePath?", "AnyStruct", "Path?"},
			"public":  {"Path", "PublicPath?", "CapabilityPath", "AnyStruct"},
		}[dom]
		x.line(ind, "let "+x.v("p")+": "+r.Pick(ty)+" = /"+dom+"/"+r.Pick([]string{"foo", "bar"}))
	case 7:
		x.line(ind, "ob = "+x.num())
	case 8:
		x.line(ind, "r = r + (idOpt("+x.num()+") ?? 0)")
	case 9:
		x.line(ind, "let "+x.v("d")+": UInt8? = "+strconv.Itoa(r.Intn(200)))
	case 10:
		x.line(ind, "let "+x.v("d")+": Fix64? = 1.5")
	default:
		x.line(ind, "let "+x.v("d")+": [Int?] = ["+x.num()+", nil]")
	}
}

func (x *pg) rewritten(ind int) {
	r := x.r
	x.forms["rewritten-window"] = true
	switch r.Intn(6) {
	case 0, 1:
		x.line(ind, "let "+x.v("i")+": Int = "+x.num())
	case 2:
		x.line(ind, "let "+x.v("p")+": StoragePath = /storage/"+r.Pick([]string{"foo", "bar"}))
	case 3:
		v := x.v("o")
		x.line(ind, "var "+v+": Int? = nil")
		x.opts = append(x.opts, v)
	case 4:
		x.line(ind, "r = r + s.x")
	default:
		x.line(ind, "let "+x.v("t")+": String = \"a\"")
	}
}

func (x *pg) atom() string {
	r := x.r
	switch r.Intn(5) {
	case 0:
		return "k"
	case 1:
		return "r"
	case 2:
		if len(x.opts) > 0 {
			return "(" + r.Pick(x.opts) + " ?? " + x.num() + ")"
		}
	case 3:
		return "s.x"
	}
	return x.num()
}

func (x *pg) cond() string {
	r := x.r
	switch r.Intn(6) {
	case 0:
		return "c"
	case 1:
		return "!c"
	case 2:
		return "c && k > " + strconv.Itoa(r.Intn(3))
	case 3:
		return "k < " + strconv.Itoa(r.Intn(4)) + " || c"
	case 4:
		if len(x.opts) > 0 {
			return r.Pick(x.opts) + " == nil"
		}
	}
	return x.atom() + " " + r.Pick([]string{"<", ">", "==", "!="}) + " " + x.atom()
}

func (x *pg) window(ind int) {
	if x.r.Chance(75) {
		x.declined(ind)
	} else {
		x.rewritten(ind)
	}
}

func (x *pg) block(ind, d int) {
	no := len(x.opts)
	n := 1 + x.r.Intn(2)
	for i := 0; i < n; i++ {
		x.stmt(ind, d)
	}
	x.opts = x.opts[:no]
}

func (x *pg) stmt(ind, d int) {
	r := x.r
	c := r.Intn(16)
	if d <= 0 && c >= 7 && c <= 12 {
		c = r.Intn(7)
	}
	switch c {
	case 0, 1:
		x.window(ind)
	case 2, 3:
		x.forms["cond-expr"] = true
		x.line(ind, "r = r + ("+x.cond()+" ? "+x.atom()+" : "+x.atom()+")")
	case 4:
		x.forms["coalesce"] = true
		if len(x.opts) > 0 {
			x.line(ind, "r = r + ("+r.Pick(x.opts)+" ?? "+x.atom()+")")
		} else {
			x.line(ind, "r = r + (ob ?? "+x.atom()+")")
		}
	case 5:
		x.forms["and-or"] = true
		x.line(ind, "if "+x.cond()+" "+r.Pick([]string{"&&", "||"})+" "+x.cond()+" { r = r * 2 + 1 }")
	case 6:
		x.line(ind, "log(r)")
	case 7, 8:
		x.forms["if-else"] = true
		x.line(ind, "if "+x.cond()+" {")
		x.block(ind+1, d-1)
		if r.Chance(70) {
			x.line(ind, "} else {")
			x.block(ind+1, d-1)
		}
		x.line(ind, "}")
	case 9:
		x.forms["while"] = true
		i := x.v("w")
		x.line(ind, "var "+i+" = 0")
		x.line(ind, "while "+i+" < "+r.Pick([]string{"k", "2", "3"})+" {")
		x.line(ind+1, i+" = "+i+" + 1")
		x.block(ind+1, d-1)
		x.line(ind+1, "r = r + "+i)
		x.line(ind, "}")
	case 10:
		x.forms["for"] = true
		e := x.v("e")
		x.line(ind, "for "+e+" in ["+x.num()+", "+x.num()+"] {")
		x.block(ind+1, d-1)
		x.line(ind+1, "r = r + "+e)
		x.line(ind, "}")
	case 11:
		x.forms["switch"] = true
		x.line(ind, "switch k {")
		for j := 0; j < 1+r.Intn(2); j++ {
			x.line(ind, "case "+strconv.Itoa(j)+":")
			x.block(ind+1, d-1)
		}
		x.line(ind, "default:")
		x.block(ind+1, d-1)
		x.line(ind, "}")
	case 12:
		x.forms["if-let"] = true
		src := "ob"
		if len(x.opts) > 0 {
			src = r.Pick(x.opts)
		}
		z := x.v("z")
		x.line(ind, "if let "+z+" = "+src+" {")
		x.line(ind+1, "r = r + "+z)
		x.block(ind+1, d-1)
		x.line(ind, "} else {")
		x.block(ind+1, d-1)
		x.line(ind, "}")
	default:
		x.line(ind, "r = r + "+x.atom())
	}
}

const peepClosurePrelude = `access(all) struct S {
    access(all) var x: Int
    init(_ x: Int) { self.x = x }
}
access(all) fun idOpt(_ v: Int?): Int? { return v }
`

// GenerateClosurePeephole builds one program of the closure-peephole family.
func GenerateClosurePeephole(r *hx.Rng) *Prog {
	x := &pg{r: r, forms: map[string]bool{"closure-peephole": true}}
	inner := r.Chance(35)
	x.line(0, "access(all) fun main(): Int {")
	if inner {
		x.forms["wrap-inner-fun"] = true
		x.line(1, "fun f(_ c: Bool, _ k: Int): Int? {")
	} else {
		x.forms["wrap-closure"] = true
		x.line(1, "let f = fun (_ c: Bool, _ k: Int): Int? {")
	}
	x.line(2, "var r = 0")
	x.line(2, "var ob: Int? = nil")
	x.line(2, "let s = S(k + 1)")
	// a declined window first: every jump of the function lies behind it
	if r.Chance(80) {
		x.declined(2)
	}
	n := 2 + r.Intn(4)
	for i := 0; i < n; i++ {
		x.stmt(2, 2)
	}
	x.line(2, "log(r); log(ob)")
	// `return <Int constant>` in a function returning Int? is itself a declined window
	if r.Chance(30) {
		x.line(2, "if r > 1000 { return 7 }")
	}
	x.line(2, "return r")
	x.line(1, "}")
	x.line(1, "var total = 0")
	calls := [][2]string{{"true", "0"}, {"false", "1"}, {"true", "2"}, {"false", "3"}}
	for _, c := range calls[:2+r.Intn(3)] {
		x.line(1, "total = total * 7 + (f("+c[0]+", "+c[1]+") ?? -1)")
	}
	x.line(1, "log(total)")
	x.line(1, "return total")
	x.line(0, "}")
	forms := make([]string, 0, len(x.forms))
	for f := range x.forms {
		forms = append(forms, f)
	}
	sortStrings(forms)
	return &Prog{Src: peepClosurePrelude + x.sb.String(), Forms: forms}
}
