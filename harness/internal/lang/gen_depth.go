package lang

// Call-depth family of stream `vmeq` (property C34): recursion near a small configured
// runtime.Config.StackDepthLimit (op field `depth=<limit>`), in the shapes that make the two engines
// count differently — recursion inside an argument of another call (`id(f(n - 1))`), native calls at
// the deepest point (`log`) — and in plain shapes (no argument nesting, no native call anywhere in the
// program) where both engines must hit the limit at exactly the same recursion depth.

import (
	"strconv"
	"strings"

	"verif/harness/internal/hx"
)

// GenerateDepth builds one program of the call-depth family; Prog.Depth is the configured limit.
func GenerateDepth(r *hx.Rng) *Prog {
	limit := 4 + r.Intn(9) // 4..12
	forms := map[string]bool{"call-depth": true}
	var sb strings.Builder
	line := func(s string) { sb.WriteString(s); sb.WriteByte('\n') }
	// how deep the recursion goes: around limit/2 (argument nesting doubles the interpreter's count),
	// around the limit itself, and clearly below / above
	var n int
	switch r.Intn(6) {
	case 0:
		n = limit/2 + r.Intn(3) - 1
	case 1:
		n = limit/3 + r.Intn(2)
	case 2, 3:
		n = limit + r.Intn(5) - 3
	case 4:
		n = r.Intn(3)
	default:
		n = limit + 3 + r.Intn(4)
	}
	if n < 0 {
		n = 0
	}
	arg := strconv.Itoa(n)
	shape := r.Intn(9)
	plain := false
	switch shape {
	case 0: // recursion inside an argument
		forms["arg-nested-recursion"] = true
		line("access(all) fun id(_ x: Int): Int { return x }")
		line("access(all) fun f(_ n: Int): Int { if n == 0 { return 0 }; return id(f(n - 1)) + 1 }")
	case 1: // two levels of argument nesting per recursion step
		forms["arg-nested-recursion"] = true
		line("access(all) fun id(_ x: Int): Int { return x }")
		line("access(all) fun f(_ n: Int): Int { if n == 0 { return 0 }; return id(id(f(n - 1))) + 1 }")
	case 2: // recursion in the second argument, after a completed call in the first
		forms["arg-nested-recursion"] = true
		line("access(all) fun id(_ x: Int): Int { return x }")
		line("access(all) fun add(_ a: Int, _ b: Int): Int { return a + b }")
		line("access(all) fun f(_ n: Int): Int { if n == 0 { return 0 }; return add(id(1), f(n - 1)) }")
	case 3: // native call at the deepest point
		forms["native-at-bottom"] = true
		line("access(all) fun f(_ n: Int): Int { if n == 0 { log(\"bottom\"); return 0 }; return f(n - 1) + 1 }")
	case 4: // native call wrapping the recursion: `log(f(n - 1))`
		forms["native-around-recursion"] = true
		forms["arg-nested-recursion"] = true
		line("access(all) fun f(_ n: Int): Int { if n == 0 { return 0 }; log(f(n - 1)); return n }")
	case 5: // method recursion with argument nesting
		forms["arg-nested-recursion"] = true
		forms["method"] = true
		line("access(all) struct R {")
		line("    access(all) fun id(_ x: Int): Int { return x }")
		line("    access(all) fun f(_ n: Int): Int { if n == 0 { return 0 }; return self.id(self.f(n - 1)) + 1 }")
		line("}")
		line("access(all) fun f(_ n: Int): Int { return R().f(n) }")
	case 6: // mutual recursion, plain
		plain = true
		forms["plain-recursion"] = true
		forms["mutual"] = true
		line("access(all) fun f(_ n: Int): Int { if n == 0 { return 0 }; return g(n - 1) + 1 }")
		line("access(all) fun g(_ n: Int): Int { if n == 0 { return 0 }; return f(n - 1) + 2 }")
	default: // plain recursion
		plain = true
		forms["plain-recursion"] = true
		line("access(all) fun f(_ n: Int): Int { if n == 0 { return 0 }; return f(n - 1) + 1 }")
	}
	line("access(all) fun main(): Int {")
	if plain {
		// no native call and no argument nesting anywhere: the engines must agree exactly
		line("    let r = f(" + arg + ")")
		if r.Bool() {
			line("    let q = f(" + strconv.Itoa(n/2) + ")")
			line("    return r * 100 + q")
		} else {
			line("    return r")
		}
	} else {
		line("    log(\"start\")")
		switch r.Intn(3) {
		case 0:
			line("    let r = f(" + arg + ")")
			line("    log(r)")
			line("    return r")
		case 1:
			forms["native-around-recursion"] = true
			line("    log(f(" + arg + "))")
			line("    return 1")
		default:
			line("    let a = f(" + strconv.Itoa(n/2) + ")")
			line("    log(a)")
			line("    let r = f(" + arg + ")")
			line("    log(r)")
			line("    return a + r")
		}
	}
	line("}")
	fs := make([]string, 0, len(forms))
	for f := range forms {
		fs = append(fs, f)
	}
	sortStrings(fs)
	return &Prog{Src: sb.String(), Forms: fs, Depth: limit}
}
