package lang

// Typed program generator for the μCadence fragment (streams `evalorder` and `vmeq`).
//
// Every generated program type-checks by construction (expressions are produced from typed
// templates).  Sub-expressions are wrapped in calls to logging identity functions
// `ti(id, v)`, `tb(id, v)`, … which log a unique id and return `v`.  Ids are handed out in the order
// in which the language definition evaluates the sub-expressions (left to right; targets before
// values), so that — independently of any model — the ordered log of a run must be strictly
// increasing on the ids that are not inside a loop body, ids listed in `Once` must appear exactly
// once when the run completes normally, and no id outside a loop may appear twice.

import (
	"fmt"
	"strconv"
	"strings"

	"verif/harness/internal/hx"
)

// Prelude is prepended to every generated program.
const Prelude = `access(all) struct S {
    access(all) var x: Int
    access(all) var y: Int
    access(all) var a: [Int]
    init(_ x: Int, _ y: Int) { self.x = x; self.y = y; self.a = [x, y] }
    access(all) fun sum(_ k: Int): Int { log(k); return self.x + self.y }
    access(all) fun pick(_ i: Int, _ j: Int): Int { return self.a[i] - j }
%METHODS%}
access(all) fun ti(_ id: String, _ v: Int): Int { log(id); return v }
access(all) fun t8(_ id: String, _ v: Int8): Int8 { log(id); return v }
access(all) fun tu(_ id: String, _ v: UInt8): UInt8 { log(id); return v }
access(all) fun tb(_ id: String, _ v: Bool): Bool { log(id); return v }
access(all) fun to(_ id: String, _ v: Int?): Int? { log(id); return v }
access(all) fun ts(_ id: String, _ v: String): String { log(id); return v }
access(all) fun ta(_ id: String, _ v: [Int]): [Int] { log(id); return v }
access(all) fun td(_ id: String, _ v: {Int: Int}): {Int: Int} { log(id); return v }
access(all) fun tS(_ id: String, _ v: S): S { log(id); return v }
access(all) fun tSo(_ id: String, _ v: S?): S? { log(id); return v }
access(all) fun sub3(_ a: Int, _ b: Int, _ c: Int): Int { return a - b - c }
access(all) fun fact(_ n: Int): Int { if n <= 1 { return 1 }; return n * fact(n - 1) }
`

// Prog is one generated program with what the direct oracles need.
type Prog struct {
	Src    string
	Once   []int // ids that must be logged exactly once if the run completes normally
	MaxID  int   // ids 1..MaxID are outside loops (log must be increasing on them)
	Forms  []string
	HasErr bool // the program was built to fail (boundary arithmetic etc.)
	Depth  int  // >0: run with runtime.Config.StackDepthLimit = Depth (op field `depth=`)
}

type g struct {
	r      *hx.Rng
	next   int
	once   []int
	cond   int // >0: inside a conditionally evaluated part
	forms  map[string]bool
	values bool // vmeq profile: boundary values, errors allowed
	loop   bool // inside a loop body: ids are >= 1000 and not tracked
	loopID int
	sticky bool // after a possible early return: nothing later is unconditional
	noRet   int
	loops   int
	methods []string // generated mutator methods of struct S
}

func (x *g) id() int {
	if x.loop {
		x.loopID++
		return 1000 + x.loopID
	}
	x.next++
	if x.cond == 0 && !x.sticky {
		x.once = append(x.once, x.next)
	}
	return x.next
}

func (x *g) idS() string { return fmt.Sprintf("\"#%d\"", x.id()) }

func (x *g) form(f string) { x.forms[f] = true }

func (x *g) intLit() string {
	if x.values && x.r.Chance(30) {
		return x.r.Pick([]string{"0", "1", "2", "3", "7", "100", "255", "256", "65536", "4294967296",
			"9223372036854775807", "9223372036854775808", "18446744073709551616", "-1", "-2", "-128", "-9223372036854775808"})
	}
	return strconv.Itoa(x.r.Intn(9))
}

func (x *g) smallIdx() string { return strconv.Itoa(x.r.Intn(3)) }

// leaf of a type, wrapped in the logging function
func (x *g) leaf(ty string) string {
	switch ty {
	case "Int":
		return fmt.Sprintf("ti(%s, %s)", x.idS(), x.intLit())
	case "Idx":
		if x.values && x.r.Chance(8) {
			return fmt.Sprintf("ti(%s, %s)", x.idS(), x.r.Pick([]string{"3", "5", "-1"}))
		}
		return fmt.Sprintf("ti(%s, %s)", x.idS(), x.smallIdx())
	case "Int8":
		return fmt.Sprintf("t8(%s, %s)", x.idS(), x.r.Pick([]string{"0", "1", "2", "3", "-1", "-2", "127", "-128", "64", "-64", "100", "11"}))
	case "UInt8":
		return fmt.Sprintf("tu(%s, %s)", x.idS(), x.r.Pick([]string{"0", "1", "2", "3", "255", "254", "128", "16", "15", "100"}))
	case "Bool":
		return fmt.Sprintf("tb(%s, %s)", x.idS(), x.r.Pick([]string{"true", "false"}))
	case "Int?":
		if x.r.Chance(40) {
			return fmt.Sprintf("to(%s, nil)", x.idS())
		}
		return fmt.Sprintf("to(%s, %s)", x.idS(), x.intLit())
	case "String":
		return fmt.Sprintf("ts(%s, \"%s\")", x.idS(), x.r.Pick([]string{"a", "b", "xyz", ""}))
	case "[Int]":
		return fmt.Sprintf("ta(%s, [%d, %d, %d])", x.idS(), x.r.Intn(9), x.r.Intn(9), x.r.Intn(9))
	case "{Int: Int}":
		return fmt.Sprintf("td(%s, {0: %d, 1: %d, 2: %d})", x.idS(), x.r.Intn(9), x.r.Intn(9), x.r.Intn(9))
	case "S":
		return fmt.Sprintf("tS(%s, S(%d, %d))", x.idS(), x.r.Intn(9), x.r.Intn(9))
	case "S?":
		if x.r.Chance(40) {
			return fmt.Sprintf("tSo(%s, nil)", x.idS())
		}
		return fmt.Sprintf("tSo(%s, S(%d, %d))", x.idS(), x.r.Intn(9), x.r.Intn(9))
	}
	panic("leaf " + ty)
}

var intOps = []string{"+", "-", "*", "/", "%", "&", "|", "^"}
var cmpOps = []string{"<", "<=", ">", ">=", "==", "!="}

// expr generates an expression of the given type; sub-expression ids are allocated in evaluation order.
func (x *g) expr(ty string, d int) string {
	if d <= 0 || x.r.Chance(18) {
		return x.leaf(ty)
	}
	r := x.r
	switch ty {
	case "Idx":
		return x.leaf(ty)
	case "Int":
		switch r.Intn(16) {
		case 0, 1, 2, 3:
			op := r.Pick(intOps)
			x.form("bin" + op)
			a := x.expr("Int", d-1)
			var b string
			if !x.values && (op == "/" || op == "%") {
				// keep the order profile free of division by zero: divisor = literal-wrapped non-zero
				b = fmt.Sprintf("ti(%s, %d)", x.idS(), 1+r.Intn(5))
			} else {
				b = x.expr("Int", d-1)
			}
			return "(" + a + " " + op + " " + b + ")"
		case 4:
			x.form("shift")
			a := x.expr("Int", d-1)
			return "(" + a + " " + r.Pick([]string{"<<", ">>"}) + " " + fmt.Sprintf("ti(%s, %d)", x.idS(), r.Intn(5)) + ")"
		case 5:
			x.form("neg")
			return "(-" + x.expr("Int", d-1) + ")"
		case 6:
			x.form("cond")
			c := x.expr("Bool", d-1)
			x.cond++
			a := x.expr("Int", d-1)
			b := x.expr("Int", d-1)
			x.cond--
			return "(" + c + " ? " + a + " : " + b + ")"
		case 7:
			x.form("coalesce")
			a := x.expr("Int?", d-1)
			x.cond++
			b := x.expr("Int", d-1)
			x.cond--
			return "(" + a + " ?? " + b + ")"
		case 8:
			x.form("args")
			a, b, c := x.expr("Int", d-1), x.expr("Int", d-1), x.expr("Int", d-1)
			return "sub3(" + a + ", " + b + ", " + c + ")"
		case 9:
			x.form("index-array")
			a := x.expr("[Int]", d-1)
			i := x.expr("Idx", d-1)
			return a + "[" + i + "]"
		case 10:
			x.form("index-dict")
			a := x.expr("{Int: Int}", d-1)
			i := x.expr("Idx", d-1)
			x.cond++
			dflt := x.expr("Int", d-1)
			x.cond--
			return "(" + a + "[" + i + "] ?? " + dflt + ")"
		case 11:
			x.form("member")
			return x.expr("S", d-1) + "." + r.Pick([]string{"x", "y"})
		case 12:
			x.form("method-args")
			recv := x.expr("S", d-1)
			a := x.expr("Int", d-1)
			return recv + ".sum(" + a + ")"
		case 13:
			x.form("force")
			if x.values {
				return x.expr("Int?", d-1) + "!"
			}
			return fmt.Sprintf("to(%s, %d)!", x.idS(), r.Intn(9))
		case 14:
			x.form("method-args2")
			recv := x.expr("S", d-1)
			i := fmt.Sprintf("ti(%s, %d)", x.idS(), r.Intn(2))
			j := x.expr("Int", d-1)
			return recv + ".pick(" + i + ", " + j + ")"
		default:
			if x.values {
				x.form("recursion")
				return fmt.Sprintf("fact(%s)", fmt.Sprintf("ti(%s, %d)", x.idS(), r.Intn(6)))
			}
			return x.leaf(ty)
		}
	case "Int8", "UInt8":
		switch r.Intn(5) {
		case 0, 1, 2:
			op := r.Pick(intOps)
			x.form("sized" + op)
			if !x.values && (op == "/" || op == "%") {
				op = "&"
			}
			a := x.expr(ty, d-1)
			b := x.expr(ty, d-1)
			return "(" + a + " " + op + " " + b + ")"
		case 3:
			if ty == "Int8" {
				x.form("sized-neg")
				return "(-" + x.expr(ty, d-1) + ")"
			}
			fallthrough
		default:
			x.form("sized-shift")
			a := x.expr(ty, d-1)
			fn := "t8"
			if ty == "UInt8" {
				fn = "tu"
			}
			return "(" + a + " " + r.Pick([]string{"<<", ">>"}) + " " + fmt.Sprintf("%s(%s, %d)", fn, x.idS(), r.Intn(10)) + ")"
		}
	case "Bool":
		switch r.Intn(8) {
		case 0, 1:
			x.form("and")
			a := x.expr("Bool", d-1)
			x.cond++
			b := x.expr("Bool", d-1)
			x.cond--
			return "(" + a + " && " + b + ")"
		case 2, 3:
			x.form("or")
			a := x.expr("Bool", d-1)
			x.cond++
			b := x.expr("Bool", d-1)
			x.cond--
			return "(" + a + " || " + b + ")"
		case 4:
			x.form("not")
			return "(!" + x.expr("Bool", d-1) + ")"
		case 5, 6:
			op := r.Pick(cmpOps)
			x.form("cmp" + op)
			a := x.expr("Int", d-1)
			b := x.expr("Int", d-1)
			return "(" + a + " " + op + " " + b + ")"
		default:
			x.form("cond")
			c := x.expr("Bool", d-1)
			x.cond++
			a := x.expr("Bool", d-1)
			b := x.expr("Bool", d-1)
			x.cond--
			return "(" + c + " ? " + a + " : " + b + ")"
		}
	case "Int?":
		switch r.Intn(6) {
		case 0:
			x.form("index-dict")
			a := x.expr("{Int: Int}", d-1)
			i := x.expr("Idx", d-1)
			return a + "[" + i + "]"
		case 1:
			x.form("optional-chain-field")
			return x.expr("S?", d-1) + "?." + r.Pick([]string{"x", "y"})
		case 2, 3:
			x.form("optional-chain-call")
			recv := x.expr("S?", d-1)
			x.cond++
			a := x.expr("Int", d-1)
			x.cond--
			return recv + "?.sum(" + a + ")"
		case 4:
			x.form("cond")
			c := x.expr("Bool", d-1)
			x.cond++
			// mixed branches (`Int` and `Int?`/nil) exercise the boxing of the conditional's value;
			// used as the left operand of `??` they hit the known finding conditional-result-not-boxed
			ta, tb := "Int?", "Int?"
			if r.Chance(30) {
				ta = "Int"
			}
			a := x.expr(ta, d-1)
			b := x.expr(tb, d-1)
			if ta == "Int" && r.Chance(40) {
				b = "nil"
				x.form("cond-mixed-nil")
			}
			x.cond--
			return "(" + c + " ? " + a + " : " + b + ")"
		default:
			return x.leaf(ty)
		}
	case "[Int]":
		x.form("array-literal")
		n := r.Intn(4)
		items := make([]string, n)
		for i := range items {
			items[i] = x.expr("Int", d-1)
		}
		if n == 0 {
			return x.leaf(ty)
		}
		return "[" + strings.Join(items, ", ") + "]"
	case "{Int: Int}":
		x.form("dict-literal")
		n := 1 + r.Intn(3)
		items := make([]string, n)
		for i := range items {
			// distinct keys: key i is a wrapped literal i (duplicate keys are their own topic, C20)
			k := fmt.Sprintf("ti(%s, %d)", x.idS(), i)
			v := x.expr("Int", d-1)
			items[i] = k + ": " + v
		}
		return "{" + strings.Join(items, ", ") + "}"
	case "S":
		x.form("constructor-args")
		a, b := x.expr("Int", d-1), x.expr("Int", d-1)
		return "S(" + a + ", " + b + ")"
	case "S?", "String":
		return x.leaf(ty)
	}
	panic("expr " + ty)
}

// stmts generates a statement list operating on the locals declared by the frame
// (n, m: Int; arr: [Int]; dic: {Int: Int}; s, s2: S; ob: Int?).
func (x *g) stmts(k, d, nest int) string {
	var b strings.Builder
	for i := 0; i < k; i++ {
		st := x.stmt(d, nest)
		b.WriteString(st)
		if strings.HasPrefix(strings.TrimSpace(st), "return ") {
			break
		}
	}
	return b.String()
}

func (x *g) stmt(d, nest int) string {
	r := x.r
	ind := strings.Repeat("    ", nest+1)
	switch c := r.Intn(16); {
	case c == 0:
		x.form("assign-var")
		return ind + "n = " + x.expr("Int", d) + "\n"
	case c == 1:
		x.form("assign-index-array")
		i := x.expr("Idx", d)
		v := x.expr("Int", d)
		return ind + "arr[" + i + "] = " + v + "\n"
	case c == 2:
		x.form("assign-index-dict")
		i := x.expr("Idx", d)
		v := x.expr("Int", d)
		return ind + "dic[" + i + "] = " + v + "\n"
	case c == 3:
		x.form("assign-member")
		return x.mutator(ind, "self.x = "+x.expr("Int", d))
	case c == 4:
		x.form("assign-member-index")
		i := x.expr("Idx", d)
		v := x.expr("Int", d)
		return x.mutator(ind, "self.a["+i+"] = "+v)
	case c == 6:
		x.form("swap-index")
		i := x.expr("Idx", d)
		j := x.expr("Idx", d)
		return ind + "arr[" + i + "] <-> arr[" + j + "]\n"
	case c == 7:
		x.form("swap-mixed")
		switch r.Intn(5) {
		case 0:
			return ind + "n <-> m\n"
		case 1:
			i := x.expr("Idx", d)
			return ind + "n <-> arr[" + i + "]\n"
		case 2:
			i := x.expr("Idx", d)
			return x.mutator(ind, "self.x <-> self.a["+i+"]")
		case 3:
			return x.mutator(ind, "self.x <-> self.y")
		default:
			i := x.expr("Idx", d)
			j := x.expr("Idx", d)
			return x.mutator(ind, "self.a["+i+"] <-> self.a["+j+"]")
		}
	case c == 8:
		x.form("if")
		cnd := x.expr("Bool", d)
		x.cond++
		th := x.stmts(1+r.Intn(2), d-1, nest+1)
		el := ""
		if r.Bool() {
			x.form("if-else")
			x.noRet++
			el = " else {\n" + x.stmts(1+r.Intn(2), d-1, nest+1) + ind + "}"
			x.noRet--
		}
		x.cond--
		return ind + "if " + cnd + " {\n" + th + ind + "}" + el + "\n"
	case c == 9 && !x.loop && nest == 0:
		x.form("while")
		x.loop = true
		x.cond++
		cnd := x.expr("Bool", 1)
		body := x.stmts(1+r.Intn(2), d-1, nest+1)
		extra := ""
		switch r.Intn(4) {
		case 0:
			x.form("break")
			extra = ind + "    if " + x.expr("Bool", 1) + " { break }\n"
		case 1:
			x.form("continue")
			extra = ind + "    if " + x.expr("Bool", 1) + " { continue }\n"
		}
		x.cond--
		x.loop = false
		x.loops++
		cv := "c" + strconv.Itoa(x.loops)
		return ind + "var " + cv + " = 0\n" +
			ind + "while " + cv + " < " + strconv.Itoa(1+r.Intn(3)) + " && (" + cnd + " || true) {\n" +
			ind + "    " + cv + " = " + cv + " + 1\n" + extra + body + ind + "}\n"
	case c == 10:
		x.form("let")
		v := fmt.Sprintf("v%d", x.r.Intn(1000000))
		return ind + "let " + v + " = " + x.expr("Int", d) + "\n" + ind + "m = m + " + v + "\n"
	case c == 11:
		x.form("let-optional")
		v := fmt.Sprintf("v%d", x.r.Intn(1000000))
		return ind + "let " + v + ": Int? = " + x.expr(r.Pick([]string{"Int", "Int?"}), d) + "\n" + ind + "ob = " + v + "\n"
	case c == 12:
		x.form("expr-stmt")
		return ind + x.expr("Int", d) + "\n"
	case c == 13 && x.values:
		x.form("sized")
		ty := r.Pick([]string{"Int8", "UInt8"})
		return ind + "log(" + x.expr(ty, d) + ")\n"
	case c == 14 && x.values && r.Chance(30):
		x.form("assert-panic")
		if r.Bool() {
			return ind + "assert(" + x.expr("Bool", d) + ", message: \"m\")\n"
		}
		return ind + "if " + x.expr("Bool", d) + " { panic(\"p\") }\n"
	case c == 15 && nest > 0 && !x.loop && x.noRet == 0:
		x.form("early-return")
		defer func() { x.sticky = true }()
		return ind + "return " + x.expr("Int", d) + "\n"
	default:
		x.form("assign-var")
		return ind + "m = " + x.expr("Int", d) + "\n"
	}
}

// mutator wraps a statement over `self` into a fresh method of S and returns the call statement.
func (x *g) mutator(ind, stmt string) string {
	name := "mut" + strconv.Itoa(len(x.methods))
	x.methods = append(x.methods, "    access(all) fun "+name+"() { "+stmt+" }\n")
	return ind + x.r.Pick([]string{"s", "s2"}) + "." + name + "()\n"
}

// L0 prelude: functions only (no structs, arrays, dictionaries): programs the model compiler covers.
const PreludeL0 = `access(all) fun ti(_ id: String, _ v: Int): Int { log(id); return v }
access(all) fun t8(_ id: String, _ v: Int8): Int8 { log(id); return v }
access(all) fun tu(_ id: String, _ v: UInt8): UInt8 { log(id); return v }
access(all) fun tb(_ id: String, _ v: Bool): Bool { log(id); return v }
access(all) fun to(_ id: String, _ v: Int?): Int? { log(id); return v }
access(all) fun sub3(_ a: Int, _ b: Int, _ c: Int): Int { return a - b - c }
access(all) fun fact(_ n: Int): Int { if n <= 1 { return 1 }; return n * fact(n - 1) }
access(all) fun opt(_ n: Int): Int? { if n > 3 { return nil }; return n }
access(all) fun gcd(_ a: Int, _ b: Int): Int { var x = a; var y = b; while y != 0 { let t = y; y = x % y; x = t }; return x }
`

// exprL0 / stmtL0: the L0 sub-language (Int, Int8, UInt8, Bool, Int? locals; calls; if / while / break /
// continue / return).
func (x *g) exprL0(ty string, d int) string {
	r := x.r
	if d <= 0 || r.Chance(15) {
		if ty == "Int" && r.Chance(40) {
			return r.Pick([]string{"n", "m", "n", "m", "k"})
		}
		if ty == "Int?" && r.Chance(30) {
			return "ob"
		}
		if ty == "Bool" && r.Chance(20) {
			return "bv"
		}
		return x.leaf(ty)
	}
	switch ty {
	case "Int":
		switch r.Intn(12) {
		case 0, 1, 2, 3, 4:
			op := r.Pick(intOps)
			x.form("bin" + op)
			return "(" + x.exprL0("Int", d-1) + " " + op + " " + x.exprL0("Int", d-1) + ")"
		case 5:
			x.form("neg")
			return "(-" + x.exprL0("Int", d-1) + ")"
		case 6:
			x.form("cond")
			c := x.exprL0("Bool", d-1)
			x.cond++
			a, b := x.exprL0("Int", d-1), x.exprL0("Int", d-1)
			x.cond--
			return "(" + c + " ? " + a + " : " + b + ")"
		case 7:
			x.form("coalesce")
			a := x.exprL0("Int?", d-1)
			x.cond++
			b := x.exprL0("Int", d-1)
			x.cond--
			return "(" + a + " ?? " + b + ")"
		case 8:
			x.form("args")
			return "sub3(" + x.exprL0("Int", d-1) + ", " + x.exprL0("Int", d-1) + ", " + x.exprL0("Int", d-1) + ")"
		case 9:
			x.form("force")
			return x.exprL0("Int?", d-1) + "!"
		case 10:
			x.form("recursion")
			return "fact(" + fmt.Sprintf("ti(%s, %d)", x.idS(), r.Intn(6)) + ")"
		default:
			x.form("call-loop")
			return "gcd(" + x.exprL0("Int", d-1) + ", " + fmt.Sprintf("ti(%s, %d)", x.idS(), r.Intn(30)) + ")"
		}
	case "Int8", "UInt8":
		op := r.Pick(intOps)
		x.form("sized" + op)
		return "(" + x.exprL0(ty, d-1) + " " + op + " " + x.exprL0(ty, d-1) + ")"
	case "Bool":
		switch r.Intn(6) {
		case 0:
			x.form("and")
			a := x.exprL0("Bool", d-1)
			x.cond++
			b := x.exprL0("Bool", d-1)
			x.cond--
			return "(" + a + " && " + b + ")"
		case 1:
			x.form("or")
			a := x.exprL0("Bool", d-1)
			x.cond++
			b := x.exprL0("Bool", d-1)
			x.cond--
			return "(" + a + " || " + b + ")"
		case 2:
			x.form("not")
			return "(!" + x.exprL0("Bool", d-1) + ")"
		default:
			op := r.Pick(cmpOps)
			x.form("cmp" + op)
			return "(" + x.exprL0("Int", d-1) + " " + op + " " + x.exprL0("Int", d-1) + ")"
		}
	case "Int?":
		switch r.Intn(3) {
		case 0:
			x.form("call-optional")
			return "opt(" + x.exprL0("Int", d-1) + ")"
		case 1:
			x.form("cond")
			c := x.exprL0("Bool", d-1)
			x.cond++
			a, b := x.exprL0("Int?", d-1), x.exprL0("Int?", d-1)
			x.cond--
			return "(" + c + " ? " + a + " : " + b + ")"
		}
	}
	return x.leaf(ty)
}

func (x *g) stmtsL0(k, d, nest int, inLoop bool) string {
	var b strings.Builder
	for i := 0; i < k; i++ {
		st := x.stmtL0(d, nest, inLoop)
		b.WriteString(st)
		t := strings.TrimSpace(st)
		if strings.HasPrefix(t, "return ") || t == "break" || t == "continue" {
			break
		}
	}
	return b.String()
}

func (x *g) stmtL0(d, nest int, inLoop bool) string {
	r := x.r
	ind := strings.Repeat("    ", nest+1)
	switch c := r.Intn(12); {
	case c <= 2:
		x.form("assign-var")
		return ind + r.Pick([]string{"n", "m", "k"}) + " = " + x.exprL0("Int", d) + "\n"
	case c == 3:
		x.form("let")
		x.loops++
		v := fmt.Sprintf("v%d", x.loops)
		return ind + "let " + v + " = " + x.exprL0("Int", d) + "\n" + ind + "m = m + " + v + "\n"
	case c == 4:
		x.form("let-optional")
		return ind + "ob = " + x.exprL0(r.Pick([]string{"Int", "Int?"}), d) + "\n"
	case c == 5:
		x.form("assign-bool")
		return ind + "bv = " + x.exprL0("Bool", d) + "\n"
	case c == 6 || c == 7:
		x.form("if")
		cnd := x.exprL0("Bool", d)
		x.cond++
		th := x.stmtsL0(1+r.Intn(2), d-1, nest+1, inLoop)
		el := ""
		if r.Bool() {
			x.form("if-else")
			x.noRet++
			el = " else {\n" + x.stmtsL0(1+r.Intn(2), d-1, nest+1, inLoop) + ind + "}"
			x.noRet--
		}
		x.cond--
		return ind + "if " + cnd + " {\n" + th + ind + "}" + el + "\n"
	case c == 8 && nest < 2:
		x.form("while")
		wasLoop := x.loop
		x.loop = true
		x.cond++
		x.loops++
		cv := "c" + strconv.Itoa(x.loops)
		body := x.stmtsL0(1+r.Intn(3), d-1, nest+1, true)
		x.cond--
		x.loop = wasLoop
		return ind + "var " + cv + " = 0\n" + ind + "while " + cv + " < " + strconv.Itoa(1+r.Intn(4)) + " {\n" +
			ind + "    " + cv + " = " + cv + " + 1\n" + body + ind + "}\n"
	case c == 9 && inLoop && nest > 1:
		x.form("break")
		return ind + "break\n"
	case c == 10 && inLoop && nest > 1:
		x.form("continue")
		return ind + "continue\n"
	case c == 11 && nest > 0 && x.noRet == 0:
		x.form("early-return")
		defer func() { x.sticky = true }()
		return ind + "return " + x.exprL0("Int", d) + "\n"
	case c == 9:
		x.form("sized")
		return ind + "log(" + x.exprL0(r.Pick([]string{"Int8", "UInt8"}), d) + ")\n"
	default:
		x.form("expr-stmt")
		return ind + x.exprL0("Int", d) + "\n"
	}
}

// GenerateL0 builds a program of layer L0 (values profile).
func GenerateL0(r *hx.Rng) *Prog { return GenerateL0Wrapped(r, WrapNone) }

// GenerateL0Wrapped: like GenerateL0 with the body of `main` placed in a closure / inner function
// (see WrapMode); the same random choices give the same statements for every mode.
func GenerateL0Wrapped(r *hx.Rng, mode WrapMode) *Prog {
	x := &g{r: r, forms: map[string]bool{"L0": true}, values: true}
	body := x.stmtsL0(2+r.Intn(5), 2+r.Intn(2), 0, false)
	if mode != WrapNone {
		x.form(mode.String())
	}
	src := PreludeL0 + wrapMain(mode,
		"    var n = 0\n    var m = 1\n    var k = 7\n    var bv = false\n    var ob: Int? = nil\n",
		body, "    log(n); log(m); log(k); log(bv); log(ob)\n", "n + m")
	forms := make([]string, 0, len(x.forms))
	for f := range x.forms {
		forms = append(forms, f)
	}
	sortStrings(forms)
	return &Prog{Src: src, Once: x.once, MaxID: x.next, Forms: forms}
}

// Generate builds one program.  profile: "order" (evaluation-order profile: no deliberate errors) or
// "values" (boundary values, sized arithmetic, errors, recursion).
func Generate(r *hx.Rng, profile string) *Prog { return GenerateWrapped(r, profile, WrapNone) }

// GenerateWrapped: like Generate with the body of `main` placed in a closure / inner function.
func GenerateWrapped(r *hx.Rng, profile string, mode WrapMode) *Prog {
	x := &g{r: r, forms: map[string]bool{}, values: profile == "values"}
	if mode != WrapNone {
		x.form(mode.String())
	}
	var body string
	depth := 2 + r.Intn(2)
	if r.Chance(35) {
		// a single expression statement form
		ty := r.Pick([]string{"Int", "Int", "Bool", "Int?", "[Int]", "{Int: Int}", "S"})
		if x.values && r.Chance(30) {
			ty = r.Pick([]string{"Int8", "UInt8"})
		}
		show := map[string]string{"{Int: Int}": "r[0]", "S": "r.x"}[ty]
		if show == "" {
			show = "r"
		}
		body = "    let r = " + x.expr(ty, depth+1) + "\n    log(" + show + ")\n"
	} else {
		body = x.stmts(2+r.Intn(4), depth, 0)
	}
	src := strings.Replace(Prelude, "%METHODS%", strings.Join(x.methods, ""), 1) + wrapMain(mode,
		"    var n = 0\n    var m = 1\n    var arr = [1, 2, 3]\n    var dic = {0: 5, 1: 6}\n"+
			"    var s = S(1, 2)\n    var s2 = S(3, 4)\n    var ob: Int? = nil\n",
		body,
		"    log(n); log(m); log(arr); log(s.x); log(s.a); log(s2.y); log(ob); log(dic[0]); log(dic[2])\n",
		"n + m + arr[0] + s.x")
	forms := make([]string, 0, len(x.forms))
	for f := range x.forms {
		forms = append(forms, f)
	}
	sortStrings(forms)
	return &Prog{Src: src, Once: x.once, MaxID: x.next, Forms: forms}
}
