// Package lang runs generated Cadence scripts on the real runtime three ways — interpreter, VM,
// VM + peephole optimisation — from a fresh ledger each, with a bounded computation gauge, and renders
// the observation (ordered log, outcome value / error class and kind) canonically.
// It also produces the checked program (AST + elaboration) that internal/sx serialises.
package lang

import (
	"fmt"
	"strings"

	"github.com/onflow/cadence"
	"github.com/onflow/cadence/common"
	"github.com/onflow/cadence/interpreter"
	"github.com/onflow/cadence/runtime"
	. "github.com/onflow/cadence/test_utils/runtime_utils"

	"verif/harness/internal/cdc"
)

// Mode selects the engine.
type Mode int

const (
	Interp Mode = iota
	VM
	VMPeephole
)

func (m Mode) String() string { return [...]string{"interp", "vm", "vmopt"}[m] }

// Limit is the computation limit of every run.
var Limit uint64 = 20000

func newInterface(out *cdc.Outcome) *TestRuntimeInterface {
	return &TestRuntimeInterface{
		Storage:           NewTestLedger(nil, nil),
		OnResolveLocation: MultipleIdentifierLocationResolver,
		OnProgramLog:      func(s string) { out.Logs = append(out.Logs, s) },
		OnEmitEvent: func(ev cadence.Event) error {
			out.Events = append(out.Events, ev)
			return nil
		},
		OnGetSigningAccounts: func() ([]runtime.Address, error) { return nil, nil },
	}
}

// Run executes a script with no arguments.
func Run(src string, mode Mode) (out *cdc.Outcome) { return RunDepth(src, mode, 0) }

// RunDepth: like Run with runtime.Config.StackDepthLimit = depthLimit (0 = the runtime's default).
func RunDepth(src string, mode Mode, depthLimit uint64) (out *cdc.Outcome) {
	out = &cdc.Outcome{}
	defer func() {
		if r := recover(); r != nil {
			out.Err = fmt.Errorf("escaped panic: %v", r)
			out.Class, out.Kind = "crash", "escaped-panic"
		}
	}()
	config := DefaultTestInterpreterConfig
	config.StackDepthLimit = depthLimit
	rt := NewTestRuntimeWithConfig(config)
	ctx := runtime.Context{
		Interface:        newInterface(out),
		Location:         common.ScriptLocation{1},
		UseVM:            mode != Interp,
		ComputationGauge: &cdc.Gauge{Limit: Limit},
	}
	if mode != Interp {
		env := runtime.NewScriptVMEnvironment(rt.Config())
		if !runtime.VerifSetPeepholeOptimizations(env, mode == VMPeephole) {
			panic("not a VM environment")
		}
		ctx.Environment = env
	}
	v, err := rt.ExecuteScript(runtime.Script{Source: []byte(src)}, ctx)
	out.Value = v
	out.Err = err
	out.Class, out.Kind = cdc.Classify(err)
	return out
}

// Check parses and checks a script with the real parser and checker (script environment).
func Check(src string) (prog *interpreter.Program, err error) {
	defer func() {
		if r := recover(); r != nil {
			err = fmt.Errorf("escaped panic: %v", r)
		}
	}()
	out := &cdc.Outcome{}
	rt := NewTestRuntime()
	return rt.ParseAndCheckProgram([]byte(src), runtime.Context{
		Interface:   newInterface(out),
		Location:    common.ScriptLocation{1},
		Environment: runtime.NewScriptInterpreterEnvironment(rt.Config()),
	})
}

// Kind maps the Go error type name reported by cdc.Classify to the closed error-kind enum of the
// Lean model (Verif.Model.Lang.ErrKind).  Unknown kinds are passed through with a `go:` prefix so
// that they never compare equal to a model kind.
func Kind(goKind string) string {
	if i := strings.LastIndex(goKind, "."); i >= 0 {
		goKind = goKind[i+1:]
	}
	switch goKind {
	case "OverflowError":
		return "overflow"
	case "UnderflowError":
		return "underflow"
	case "DivisionByZeroError":
		return "div-zero"
	case "NegativeShiftError":
		return "negative-shift"
	case "ArrayIndexOutOfBoundsError":
		return "index-oob"
	case "ForceNilError":
		return "force-nil"
	case "PanicError":
		return "panic"
	case "AssertionError":
		return "assertion"
	case "LimitExceeded":
		return "computation-limit"
	case "CallStackLimitExceededError":
		return "call-depth"
	case "ForceCastTypeMismatchError":
		return "cast-failed"
	case "UseBeforeInitializationError":
		return "use-before-init"
	}
	return "go:" + goKind
}

// RenderValue renders an exported cadence.Value the way the Lean model prints its values.
func RenderValue(v cadence.Value) string {
	switch x := v.(type) {
	case nil:
		return "void"
	case cadence.Void:
		return "void"
	case cadence.Bool:
		if x {
			return "true"
		}
		return "false"
	case cadence.String:
		return fmt.Sprintf("%q", string(x))
	case cadence.Optional:
		if x.Value == nil {
			return "nil"
		}
		return "some(" + RenderValue(x.Value) + ")"
	case cadence.Array:
		parts := make([]string, len(x.Values))
		for i, e := range x.Values {
			parts[i] = RenderValue(e)
		}
		return "[" + strings.Join(parts, ",") + "]"
	case cadence.Struct:
		fields := cadence.FieldsMappedByName(x)
		names := make([]string, 0, len(fields))
		for n := range fields {
			names = append(names, n)
		}
		sortStrings(names)
		parts := make([]string, len(names))
		for i, n := range names {
			parts[i] = n + "=" + RenderValue(fields[n])
		}
		return x.StructType.QualifiedIdentifier + "{" + strings.Join(parts, ",") + "}"
	case cadence.Dictionary:
		// rendered in insertion order is not available after export; sort by rendered key
		parts := make([]string, len(x.Pairs))
		for i, p := range x.Pairs {
			parts[i] = RenderValue(p.Key) + ":" + RenderValue(p.Value)
		}
		sortStrings(parts)
		return "{" + strings.Join(parts, ",") + "}"
	}
	if n, ok := v.(interface{ String() string }); ok {
		t := v.Type()
		if t != nil {
			return t.ID() + ":" + n.String()
		}
		return n.String()
	}
	return "?"
}

func sortStrings(xs []string) {
	for i := 1; i < len(xs); i++ {
		for j := i; j > 0 && xs[j] < xs[j-1]; j-- {
			xs[j], xs[j-1] = xs[j-1], xs[j]
		}
	}
}

// Observation is the canonical rendering: `<outcome>|<log;log;...>`.
// outcome = ok:<value> | user:<kind> | internal:<kind> | external:<kind> | crash:<kind> | other:<kind>
func Observation(o *cdc.Outcome) string {
	var res string
	switch o.Class {
	case "none":
		res = "ok:" + RenderValue(o.Value)
	default:
		res = o.Class + ":" + Kind(o.Kind)
	}
	logs := make([]string, len(o.Logs))
	for i, l := range o.Logs {
		logs[i] = strings.ReplaceAll(strings.ReplaceAll(l, ";", ","), "|", "/")
	}
	ev := ""
	if len(o.Events) > 0 {
		ev = fmt.Sprintf("|events=%d", len(o.Events))
	}
	return res + "|" + strings.Join(logs, ";") + ev
}
