package cval

import (
	"encoding/hex"
	"fmt"
	"math/big"
	"strconv"

	"github.com/onflow/cadence"
	"github.com/onflow/cadence/common"
	"github.com/onflow/cadence/interpreter"
)

// node of the S-expression tree
type node struct {
	atom  string
	isStr bool // "..." or #hex string
	str   string
	kids  []*node
	list  bool
}

func parseSx(s string) (*node, error) {
	pos := 0
	var parse func() (*node, error)
	skip := func() {
		for pos < len(s) && s[pos] == ' ' {
			pos++
		}
	}
	parse = func() (*node, error) {
		skip()
		if pos >= len(s) {
			return nil, fmt.Errorf("unexpected end")
		}
		switch c := s[pos]; {
		case c == '(':
			pos++
			n := &node{list: true}
			for {
				skip()
				if pos >= len(s) {
					return nil, fmt.Errorf("unclosed list")
				}
				if s[pos] == ')' {
					pos++
					return n, nil
				}
				k, err := parse()
				if err != nil {
					return nil, err
				}
				n.kids = append(n.kids, k)
			}
		case c == ')':
			return nil, fmt.Errorf("unexpected )")
		case c == '"':
			end := pos + 1
			for end < len(s) && s[end] != '"' {
				end++
			}
			if end >= len(s) {
				return nil, fmt.Errorf("unclosed string")
			}
			n := &node{isStr: true, str: s[pos+1 : end]}
			pos = end + 1
			return n, nil
		default:
			end := pos
			for end < len(s) && s[end] != ' ' && s[end] != '(' && s[end] != ')' && s[end] != '"' {
				end++
			}
			a := s[pos:end]
			pos = end
			if a[0] == '#' {
				if a == "#-" {
					return &node{isStr: true}, nil
				}
				b, err := hex.DecodeString(a[1:])
				if err != nil {
					return nil, err
				}
				return &node{isStr: true, str: string(b)}, nil
			}
			return &node{atom: a}, nil
		}
	}
	n, err := parse()
	if err != nil {
		return nil, err
	}
	skip()
	if pos != len(s) {
		return nil, fmt.Errorf("trailing input")
	}
	return n, nil
}

func (n *node) head() string {
	if n.list && len(n.kids) > 0 && !n.kids[0].list && !n.kids[0].isStr {
		return n.kids[0].atom
	}
	return ""
}

var primByID = func() map[string]cadence.Type {
	m := map[string]cadence.Type{"Bytes": cadence.TheBytesType}
	for ty := interpreter.PrimitiveStaticType(1); ty < interpreter.PrimitiveStaticType_Count; ty++ {
		if !ty.IsDefined() || ty.IsDeprecated() { //nolint:staticcheck
			continue
		}
		m[string(ty.ID())] = cadence.PrimitiveType(ty)
	}
	return m
}()

type reader struct {
	open map[string]cadence.Type // enclosing composite types by ID (for rec)
	memo map[string]cadence.Type // printed form -> type: equal declarations inside one root share one pointer
}

func bad(format string, args ...any) { panic(fmt.Errorf(format, args...)) }

func (r *reader) str(n *node) string {
	if !n.isStr {
		bad("expected string")
	}
	return n.str
}

func (r *reader) params(ns []*node) []cadence.Parameter {
	if len(ns) == 0 {
		return nil
	}
	ps := make([]cadence.Parameter, len(ns))
	for i, n := range ns {
		if n.head() != "p" || len(n.kids) != 4 {
			bad("bad parameter")
		}
		ps[i] = cadence.Parameter{Label: r.str(n.kids[1]), Identifier: r.str(n.kids[2]), Type: r.typ(n.kids[3])}
	}
	return ps
}

func decodeLoc(id string) (common.Location, string) {
	loc, qid, err := common.DecodeTypeID(nil, id)
	if err != nil {
		bad("bad type id %s", id)
	}
	return loc, qid
}

func (r *reader) auth(n *node) cadence.Authorization {
	if !n.list {
		if n.atom == "unauth" {
			return cadence.UnauthorizedAccess
		}
		bad("bad auth")
	}
	ids := make([]common.TypeID, 0, len(n.kids))
	for _, k := range n.kids[1:] {
		ids = append(ids, common.TypeID(r.str(k)))
	}
	switch n.head() {
	case "map":
		return cadence.NewEntitlementMapAuthorization(nil, ids[0])
	case "conj":
		return cadence.NewEntitlementSetAuthorization(nil, ids, cadence.Conjunction)
	case "disj":
		return cadence.NewEntitlementSetAuthorization(nil, ids, cadence.Disjunction)
	}
	bad("bad auth")
	return nil
}

func (r *reader) typ(n *node) cadence.Type {
	if !n.list {
		if n.isStr {
			bad("string where a type is expected")
		}
		if n.atom == "nil" {
			return nil
		}
		t, ok := primByID[n.atom]
		if !ok {
			bad("unknown primitive type %s", n.atom)
		}
		return t
	}
	k := n.kids
	switch n.head() {
	case "opt":
		return cadence.NewOptionalType(r.typ(k[1]))
	case "varr":
		return cadence.NewVariableSizedArrayType(r.typ(k[1]))
	case "carr":
		sz, err := strconv.ParseUint(k[1].atom, 10, 63)
		if err != nil {
			bad("bad size")
		}
		return cadence.NewConstantSizedArrayType(uint(sz), r.typ(k[2]))
	case "dict":
		return cadence.NewDictionaryType(r.typ(k[1]), r.typ(k[2]))
	case "range":
		return cadence.NewInclusiveRangeType(r.typ(k[1]))
	case "cap":
		return cadence.NewCapabilityType(r.typ(k[1]))
	case "ref":
		return cadence.NewReferenceType(r.auth(k[1]), r.typ(k[2]))
	case "inter":
		ts := make([]cadence.Type, 0, len(k)-1)
		for _, x := range k[1:] {
			ts = append(ts, r.typ(x))
		}
		return cadence.NewIntersectionType(ts)
	case "typeid":
		return cadence.TypeID(r.str(k[1]))
	case "fun":
		purity := cadence.FunctionPurityImpure
		if k[1].atom == "view" {
			purity = cadence.FunctionPurityView
		}
		var tps []cadence.TypeParameter
		for _, x := range k[2].kids[1:] {
			tps = append(tps, cadence.TypeParameter{Name: r.str(x.kids[1]), TypeBound: r.typ(x.kids[2])})
		}
		return cadence.NewFunctionType(purity, tps, r.params(k[3].kids[1:]), r.typ(k[4]))
	case "rec":
		t, ok := r.open[r.str(k[1])]
		if !ok {
			bad("rec before its declaration")
		}
		return t
	case "comp":
		key := n.String()
		if t, ok := r.memo[key]; ok {
			return t
		}
		kind := k[1].atom
		id := r.str(k[2])
		loc, qid := decodeLoc(id)
		var ct cadence.CompositeType
		var it cadence.InterfaceType
		var res cadence.Type
		switch kind {
		case "struct":
			t := cadence.NewStructType(loc, qid, nil, nil)
			ct, res = t, t
		case "resource":
			t := cadence.NewResourceType(loc, qid, nil, nil)
			ct, res = t, t
		case "event":
			t := cadence.NewEventType(loc, qid, nil, nil)
			ct, res = t, t
		case "contract":
			t := cadence.NewContractType(loc, qid, nil, nil)
			ct, res = t, t
		case "enum":
			t := cadence.NewEnumType(loc, qid, nil, nil, nil)
			ct, res = t, t
		case "attachment":
			t := cadence.NewAttachmentType(loc, qid, nil, nil, nil)
			ct, res = t, t
		case "sinterface":
			t := cadence.NewStructInterfaceType(loc, qid, nil, nil)
			it, res = t, t
		case "rinterface":
			t := cadence.NewResourceInterfaceType(loc, qid, nil, nil)
			it, res = t, t
		case "cinterface":
			t := cadence.NewContractInterfaceType(loc, qid, nil, nil)
			it, res = t, t
		default:
			bad("bad composite kind %s", kind)
		}
		r.open[id] = res
		extra := r.typ(k[3])
		var fs []cadence.Field
		for _, x := range k[4].kids[1:] {
			fs = append(fs, cadence.Field{Identifier: r.str(x.kids[1]), Type: r.typ(x.kids[2])})
		}
		var inits [][]cadence.Parameter
		for _, x := range k[5].kids[1:] {
			inits = append(inits, r.params(x.kids[1:]))
		}
		switch t := res.(type) {
		case *cadence.StructType:
			t.Initializers = inits
		case *cadence.ResourceType:
			t.Initializers = inits
		case *cadence.EventType:
			if len(inits) == 1 {
				t.Initializer = inits[0]
			}
		case *cadence.ContractType:
			t.Initializers = inits
		case *cadence.EnumType:
			t.Initializers = inits
			t.RawType = extra
		case *cadence.AttachmentType:
			t.Initializers = inits
			t.BaseType = extra
		case *cadence.StructInterfaceType:
			t.Initializers = inits
		case *cadence.ResourceInterfaceType:
			t.Initializers = inits
		case *cadence.ContractInterfaceType:
			t.Initializers = inits
		}
		if ct != nil {
			setCompositeTypeFields(ct, fs)
		} else {
			setInterfaceTypeFields(it, fs)
		}
		delete(r.open, id)
		r.memo[key] = res
		return res
	}
	bad("bad type %s", n.head())
	return nil
}

var domains = map[string]common.PathDomain{"storage": common.PathDomainStorage, "private": common.PathDomainPrivate, "public": common.PathDomainPublic}

func addrOf(s string) cadence.Address {
	b, err := hex.DecodeString(s)
	if err != nil || len(b) != 8 {
		bad("bad address")
	}
	var a cadence.Address
	copy(a[:], b)
	return a
}

// root reads one embedded type tree
func (r *reader) root(n *node) cadence.Type {
	return (&reader{open: map[string]cadence.Type{}, memo: map[string]cadence.Type{}}).typ(n)
}

func (r *reader) val(n *node) cadence.Value {
	if !n.list {
		if n.atom == "nilv" {
			return nil
		}
		bad("bad value atom")
	}
	k := n.kids
	switch n.head() {
	case "void":
		return cadence.NewVoid()
	case "none":
		return cadence.NewOptional(nil)
	case "some":
		return cadence.NewOptional(r.val(k[1]))
	case "bool":
		return cadence.NewBool(k[1].atom == "true")
	case "str":
		return cadence.String(r.str(k[1]))
	case "char":
		return cadence.Character(r.str(k[1]))
	case "addr":
		return addrOf(k[1].atom)
	case "int", "fix":
		t, ok := primByID[k[1].atom].(cadence.PrimitiveType)
		if !ok {
			bad("bad numeric kind")
		}
		x, ok := new(big.Int).SetString(k[2].atom, 10)
		if !ok {
			bad("bad number")
		}
		return Number(t, x)
	case "arr":
		t := r.root(k[1])
		vs := make([]cadence.Value, 0, len(k)-2)
		for _, x := range k[2:] {
			vs = append(vs, r.val(x))
		}
		a := cadence.NewArray(vs)
		if t != nil {
			a = a.WithType(t.(cadence.ArrayType))
		}
		return a
	case "dictv":
		t := r.root(k[1])
		ps := make([]cadence.KeyValuePair, 0, len(k)-2)
		for _, x := range k[2:] {
			ps = append(ps, cadence.KeyValuePair{Key: r.val(x.kids[1]), Value: r.val(x.kids[2])})
		}
		d := cadence.NewDictionary(ps)
		if t != nil {
			d = d.WithType(t.(*cadence.DictionaryType))
		}
		return d
	case "compv":
		t := r.root(k[1])
		vs := make([]cadence.Value, 0, len(k)-2)
		for _, x := range k[2:] {
			vs = append(vs, r.val(x))
		}
		switch t := t.(type) {
		case *cadence.StructType:
			return cadence.NewStruct(vs).WithType(t)
		case *cadence.ResourceType:
			return cadence.NewResource(vs).WithType(t)
		case *cadence.EventType:
			return cadence.NewEvent(vs).WithType(t)
		case *cadence.ContractType:
			return cadence.NewContract(vs).WithType(t)
		case *cadence.EnumType:
			return cadence.NewEnum(vs).WithType(t)
		case *cadence.AttachmentType:
			return cadence.NewAttachment(vs).WithType(t)
		}
		bad("bad composite value type")
	case "path":
		d, ok := domains[k[1].atom]
		if !ok {
			bad("bad domain")
		}
		return cadence.Path{Domain: d, Identifier: r.str(k[2])}
	case "capv":
		id, err := strconv.ParseUint(k[1].atom, 10, 64)
		if err != nil {
			bad("bad capability id")
		}
		return cadence.NewCapability(cadence.UInt64(id), addrOf(k[2].atom), r.root(k[3]))
	case "type":
		return cadence.NewTypeValue(r.root(k[1]))
	case "rangev":
		t := r.root(k[1])
		v := cadence.NewInclusiveRange(r.val(k[2]), r.val(k[3]), r.val(k[4]))
		if t != nil {
			v = v.WithType(t.(*cadence.InclusiveRangeType))
		}
		return v
	case "funv":
		t := r.root(k[1])
		if t == nil {
			return cadence.Function{}
		}
		return cadence.NewFunction(t.(*cadence.FunctionType))
	}
	bad("bad value %s", n.head())
	return nil
}

// ParseValue reads a value printed by ValueSx.
func ParseValue(s string) (v cadence.Value, err error) {
	defer func() {
		if r := recover(); r != nil {
			err = fmt.Errorf("cval: %v", r)
		}
	}()
	n, err := parseSx(s)
	if err != nil {
		return nil, err
	}
	r := &reader{open: map[string]cadence.Type{}, memo: map[string]cadence.Type{}}
	return r.val(n), nil
}

// ParseType reads a type printed by TypeSx.
func ParseType(s string) (t cadence.Type, err error) {
	defer func() {
		if r := recover(); r != nil {
			err = fmt.Errorf("cval: %v", r)
		}
	}()
	n, err := parseSx(s)
	if err != nil {
		return nil, err
	}
	r := &reader{open: map[string]cadence.Type{}, memo: map[string]cadence.Type{}}
	return r.typ(n), nil
}

// ---- permutation of order-insensitive parts (on the S-expression tree) ----

func (n *node) String() string {
	if n.list {
		parts := make([]string, len(n.kids))
		for i, k := range n.kids {
			parts[i] = k.String()
		}
		return "(" + joinSp(parts) + ")"
	}
	if n.isStr {
		return Str(n.str)
	}
	return n.atom
}

func joinSp(parts []string) string {
	out := ""
	for i, p := range parts {
		if i > 0 {
			out += " "
		}
		out += p
	}
	return out
}

// Permute returns the S-expression of the same value with the entries of every dictionary, the
// members of every intersection type and the entitlements of every entitlement set shuffled by
// `shuffle` (which permutes indices 0..n-1 in place).  ok is false when nothing could be permuted
// or the result cannot be read back (a (rec id) moved before its declaration).
func Permute(sx string, shuffle func(n int, swap func(i, j int))) (string, bool) {
	root, err := parseSx(sx)
	if err != nil {
		return "", false
	}
	changed := false
	var walk func(n *node)
	walk = func(n *node) {
		if !n.list {
			return
		}
		from := -1
		switch n.head() {
		case "dictv":
			from = 2
		case "inter", "conj", "disj":
			from = 1
		}
		if from >= 0 && len(n.kids)-from > 1 {
			sub := n.kids[from:]
			shuffle(len(sub), func(i, j int) { sub[i], sub[j] = sub[j], sub[i] })
			changed = true
		}
		for _, k := range n.kids {
			walk(k)
		}
	}
	walk(root)
	if !changed {
		return "", false
	}
	out := root.String()
	if out == sx {
		return "", false
	}
	if _, err := ParseValue(out); err != nil {
		return "", false
	}
	return out, true
}
