package cval

import (
	"sort"

	"github.com/onflow/cadence"
)

// Erase drops from a value what JSON-Cadence does not carry (the harness-side counterpart of the
// Lean `erase`): static types of arrays and dictionaries, declared field types / initializers / raw
// and base types of the composite types of values (the field types become the run-time types of the
// erased field values), the static type of a range (it becomes the type of the erased start value).
// Types inside type values, capabilities and functions are kept.
func Erase(v cadence.Value) cadence.Value {
	switch v := v.(type) {
	case cadence.Optional:
		if v.Value == nil {
			return v
		}
		return cadence.NewOptional(Erase(v.Value))
	case cadence.Array:
		vs := make([]cadence.Value, len(v.Values))
		for i, x := range v.Values {
			vs[i] = Erase(x)
		}
		return cadence.NewArray(vs)
	case cadence.Dictionary:
		ps := make([]cadence.KeyValuePair, len(v.Pairs))
		for i, p := range v.Pairs {
			ps[i] = cadence.KeyValuePair{Key: Erase(p.Key), Value: Erase(p.Value)}
		}
		return cadence.NewDictionary(ps)
	case *cadence.InclusiveRange:
		s := Erase(v.Start)
		return cadence.NewInclusiveRange(s, Erase(v.End), Erase(v.Step)).WithType(cadence.NewInclusiveRangeType(s.Type()))
	case cadence.Composite:
		t, _ := v.Type().(cadence.CompositeType)
		if t == nil {
			return v
		}
		decl := CompositeFields(t)
		vals := CompositeValues(v)
		vs := make([]cadence.Value, len(vals))
		fs := make([]cadence.Field, len(vals))
		for i, x := range vals {
			vs[i] = Erase(x)
			name := ""
			if i < len(decl) {
				name = decl[i].Identifier
			}
			fs[i] = cadence.Field{Identifier: name, Type: vs[i].Type()}
		}
		loc, qid := t.CompositeTypeLocation(), t.CompositeTypeQualifiedIdentifier()
		switch v.(type) {
		case cadence.Struct:
			return cadence.NewStruct(vs).WithType(cadence.NewStructType(loc, qid, fs, nil))
		case cadence.Resource:
			return cadence.NewResource(vs).WithType(cadence.NewResourceType(loc, qid, fs, nil))
		case cadence.Event:
			return cadence.NewEvent(vs).WithType(cadence.NewEventType(loc, qid, fs, nil))
		case cadence.Contract:
			return cadence.NewContract(vs).WithType(cadence.NewContractType(loc, qid, fs, nil))
		case cadence.Enum:
			return cadence.NewEnum(vs).WithType(cadence.NewEnumType(loc, qid, nil, fs, nil))
		case cadence.Attachment:
			return cadence.NewAttachment(vs).WithType(cadence.NewAttachmentType(loc, qid, nil, fs, nil))
		}
	}
	return v
}

// SortDictionaries orders the entries of every dictionary by the printed form of the key
// (a dictionary is the set of its entries).
func SortDictionaries(v cadence.Value) cadence.Value {
	switch v := v.(type) {
	case cadence.Optional:
		if v.Value == nil {
			return v
		}
		return cadence.NewOptional(SortDictionaries(v.Value))
	case cadence.Array:
		vs := make([]cadence.Value, len(v.Values))
		for i, x := range v.Values {
			vs[i] = SortDictionaries(x)
		}
		out := cadence.NewArray(vs)
		if v.ArrayType != nil {
			out = out.WithType(v.ArrayType)
		}
		return out
	case cadence.Dictionary:
		ps := make([]cadence.KeyValuePair, len(v.Pairs))
		for i, p := range v.Pairs {
			ps[i] = cadence.KeyValuePair{Key: SortDictionaries(p.Key), Value: SortDictionaries(p.Value)}
		}
		sort.SliceStable(ps, func(i, j int) bool { return ValueSx(ps[i].Key) < ValueSx(ps[j].Key) })
		out := cadence.NewDictionary(ps)
		if v.DictionaryType != nil {
			out = out.WithType(v.DictionaryType)
		}
		return out
	case *cadence.InclusiveRange:
		return v
	case cadence.Struct:
		return cadence.NewStruct(sortAll(CompositeValues(v))).WithType(v.StructType)
	case cadence.Resource:
		return cadence.NewResource(sortAll(CompositeValues(v))).WithType(v.ResourceType)
	case cadence.Event:
		return cadence.NewEvent(sortAll(CompositeValues(v))).WithType(v.EventType)
	case cadence.Contract:
		return cadence.NewContract(sortAll(CompositeValues(v))).WithType(v.ContractType)
	case cadence.Attachment:
		return cadence.NewAttachment(sortAll(CompositeValues(v))).WithType(v.AttachmentType)
	}
	return v
}

func sortAll(vs []cadence.Value) []cadence.Value {
	out := make([]cadence.Value, len(vs))
	for i, x := range vs {
		out[i] = SortDictionaries(x)
	}
	return out
}

// TypeIDOf is v.Type().ID(), or "?" when the value has no (complete) type.
func TypeIDOf(v cadence.Value) (id string) {
	defer func() {
		if r := recover(); r != nil {
			id = "?"
		}
	}()
	if v == nil {
		return "?"
	}
	t := v.Type()
	if isNilType(t) {
		return "?"
	}
	return t.ID()
}
