// Package cval: the external value/type algebra of /repo (cadence.Value, cadence.Type) as seen by the
// codec properties C41-C43: a seeded generator of well-typed values with complete static types, a
// printer to the S-expression format read by lean/Verif/Model/Codec/CValueSx.lean, and a structural
// comparer.
//
// S-expression grammar (atoms: runs of characters other than space, parentheses and `"`):
//
//	STR   ::= "printable ascii without \" and \\"  |  #<hex of the UTF-8 bytes>  |  #-      (empty, non-printable)
//	TYPE  ::= nil | <primitive type ID, e.g. Int, AnyStruct, Account.Storage, Bytes>
//	        | (opt T) | (varr T) | (carr N T) | (dict K V) | (range T) | (cap T) | (ref AUTH T) | (inter T*)
//	        | (fun view|impure (tps (tp STR T)*) (ps P*) T)
//	        | (comp KIND STR T (fs (f STR T)*) (is (i P*)*))      KIND: struct resource event contract enum
//	                                                               attachment sinterface rinterface cinterface;
//	                                                               STR: type ID; T: enum raw type / attachment base type
//	        | (rec STR)                                            recursive occurrence of an enclosing composite (by type ID)
//	P     ::= (p STR STR T)                                       label identifier type
//	AUTH  ::= unauth | (map STR) | (conj STR*) | (disj STR*)
//	VALUE ::= nilv | (void) | (none) | (some V) | (bool true|false) | (str STR) | (char STR) | (addr HEX16)
//	        | (int KIND DECIMAL) | (fix KIND DECIMAL)               fix: the raw scaled integer
//	        | (arr T V*) | (dictv T (kv V V)*) | (compv T V*) | (path DOMAIN STR) | (capv DECIMAL HEX16 T)
//	        | (type T) | (rangev T V V V) | (funv T)
package cval

import (
	"encoding/hex"
	"fmt"
	"math/big"
	"strconv"
	"strings"

	"github.com/onflow/cadence"
	"github.com/onflow/cadence/common"
)

// Str renders a string field.
func Str(s string) string {
	ok := true
	for i := 0; i < len(s); i++ {
		c := s[i]
		if c < 0x20 || c > 0x7e || c == '"' || c == '\\' {
			ok = false
			break
		}
	}
	if ok {
		return `"` + s + `"`
	}
	return "#" + hex.EncodeToString([]byte(s))
}

func list(head string, items ...string) string {
	if len(items) == 0 {
		return "(" + head + ")"
	}
	return "(" + head + " " + strings.Join(items, " ") + ")"
}

// printer prints one type tree ("root").  A composite / interface type that occurs inside its own
// declaration (a recursive type: the same Go pointer is being printed) is printed as (rec ID); every
// other occurrence is printed in full (the codecs' own tables of repeated types are modelled on the
// Lean side, keyed by type ID).
type printer struct {
	seen    map[cadence.Type]bool
	capByID bool // print the borrow type of a capability value by its type ID only
}

// TypeSx renders a type (one root).
func TypeSx(t cadence.Type) string {
	p := &printer{seen: map[cadence.Type]bool{}}
	return p.typ(t)
}

// ValueSx renders a value; every type embedded in the value is its own root.
func ValueSx(v cadence.Value) string {
	p := &printer{}
	return p.val(v)
}

func (p *printer) root(t cadence.Type) string { return TypeSx(t) }

// ValueSxCapByID renders a value with the borrow types of capability values given by their type IDs
// (Go's Type.Equal identifies composite types by location and qualified identifier; CCF carries the
// borrow type as an inline type, i.e. without initializers and interface members).
func ValueSxCapByID(v cadence.Value) string {
	p := &printer{capByID: true}
	return p.val(v)
}

func isNilType(t cadence.Type) bool {
	if t == nil {
		return true
	}
	switch x := t.(type) {
	case *cadence.OptionalType:
		return x == nil
	case *cadence.VariableSizedArrayType:
		return x == nil
	case *cadence.ConstantSizedArrayType:
		return x == nil
	case *cadence.DictionaryType:
		return x == nil
	case *cadence.InclusiveRangeType:
		return x == nil
	case *cadence.StructType:
		return x == nil
	case *cadence.ResourceType:
		return x == nil
	case *cadence.EventType:
		return x == nil
	case *cadence.ContractType:
		return x == nil
	case *cadence.EnumType:
		return x == nil
	case *cadence.AttachmentType:
		return x == nil
	case *cadence.StructInterfaceType:
		return x == nil
	case *cadence.ResourceInterfaceType:
		return x == nil
	case *cadence.ContractInterfaceType:
		return x == nil
	case *cadence.FunctionType:
		return x == nil
	case *cadence.ReferenceType:
		return x == nil
	case *cadence.IntersectionType:
		return x == nil
	case *cadence.CapabilityType:
		return x == nil
	}
	return false
}

func (p *printer) params(ps []cadence.Parameter) []string {
	out := make([]string, len(ps))
	for i, q := range ps {
		out[i] = list("p", Str(q.Label), Str(q.Identifier), p.typ(q.Type))
	}
	return out
}

func (p *printer) comp(self cadence.Type, kind string, id string, extra cadence.Type, fields []cadence.Field, inits [][]cadence.Parameter) string {
	if p.seen[self] {
		return list("rec", Str(id))
	}
	p.seen[self] = true
	defer delete(p.seen, self)
	fs := make([]string, len(fields))
	for i, f := range fields {
		fs[i] = list("f", Str(f.Identifier), p.typ(f.Type))
	}
	is := make([]string, len(inits))
	for i, in := range inits {
		is[i] = list("i", p.params(in)...)
	}
	return list("comp", kind, Str(id), p.typ(extra), list("fs", fs...), list("is", is...))
}

func authSx(a cadence.Authorization) string {
	switch a := a.(type) {
	case nil:
		return "unauth"
	case cadence.Unauthorized:
		return "unauth"
	case cadence.EntitlementMapAuthorization:
		return list("map", Str(string(a.TypeID)))
	case *cadence.EntitlementSetAuthorization:
		ids := make([]string, len(a.Entitlements))
		for i, e := range a.Entitlements {
			ids[i] = Str(string(e))
		}
		if a.Kind == cadence.Disjunction {
			return list("disj", ids...)
		}
		return list("conj", ids...)
	}
	return fmt.Sprintf("(unknown-auth %T)", a)
}

func (p *printer) typ(t cadence.Type) string {
	if isNilType(t) {
		return "nil"
	}
	switch t := t.(type) {
	case cadence.BytesType:
		return "Bytes"
	case cadence.PrimitiveType:
		return t.ID()
	case cadence.TypeID:
		return list("typeid", Str(string(t)))
	case *cadence.OptionalType:
		return list("opt", p.typ(t.Type))
	case *cadence.VariableSizedArrayType:
		return list("varr", p.typ(t.ElementType))
	case *cadence.ConstantSizedArrayType:
		return list("carr", strconv.FormatUint(uint64(t.Size), 10), p.typ(t.ElementType))
	case *cadence.DictionaryType:
		return list("dict", p.typ(t.KeyType), p.typ(t.ElementType))
	case *cadence.InclusiveRangeType:
		return list("range", p.typ(t.ElementType))
	case *cadence.CapabilityType:
		return list("cap", p.typ(t.BorrowType))
	case *cadence.ReferenceType:
		return list("ref", authSx(t.Authorization), p.typ(t.Type))
	case *cadence.IntersectionType:
		ts := make([]string, len(t.Types))
		for i, x := range t.Types {
			ts[i] = p.typ(x)
		}
		return list("inter", ts...)
	case *cadence.FunctionType:
		tps := make([]string, len(t.TypeParameters))
		for i, tp := range t.TypeParameters {
			tps[i] = list("tp", Str(tp.Name), p.typ(tp.TypeBound))
		}
		purity := "impure"
		if t.Purity == cadence.FunctionPurityView {
			purity = "view"
		}
		return list("fun", purity, list("tps", tps...), list("ps", p.params(t.Parameters)...), p.typ(t.ReturnType))
	case *cadence.StructType:
		return p.comp(t, "struct", t.ID(), nil, CompositeFields(t), t.Initializers)
	case *cadence.ResourceType:
		return p.comp(t, "resource", t.ID(), nil, CompositeFields(t), t.Initializers)
	case *cadence.EventType:
		return p.comp(t, "event", t.ID(), nil, CompositeFields(t), [][]cadence.Parameter{t.Initializer})
	case *cadence.ContractType:
		return p.comp(t, "contract", t.ID(), nil, CompositeFields(t), t.Initializers)
	case *cadence.EnumType:
		return p.comp(t, "enum", t.ID(), t.RawType, CompositeFields(t), t.Initializers)
	case *cadence.AttachmentType:
		return p.comp(t, "attachment", t.ID(), t.BaseType, CompositeFields(t), t.Initializers)
	case *cadence.StructInterfaceType:
		return p.comp(t, "sinterface", t.ID(), nil, InterfaceFields(t), t.Initializers)
	case *cadence.ResourceInterfaceType:
		return p.comp(t, "rinterface", t.ID(), nil, InterfaceFields(t), t.Initializers)
	case *cadence.ContractInterfaceType:
		return p.comp(t, "cinterface", t.ID(), nil, InterfaceFields(t), t.Initializers)
	}
	return fmt.Sprintf("(unknown-type %T)", t)
}

// CompositeFields returns the declared fields of a composite type (the exported API has only
// by-name accessors; the field list is reached through a zero-field value's type-independent path).
func CompositeFields(t cadence.CompositeType) []cadence.Field {
	return compositeTypeFields(t)
}

func InterfaceFields(t cadence.InterfaceType) []cadence.Field {
	return interfaceTypeFields(t)
}

func bigOf(v cadence.Value) (string, *big.Int, bool) {
	switch v := v.(type) {
	case cadence.Int:
		return "Int", v.Big(), true
	case cadence.Int8:
		return "Int8", big.NewInt(int64(v)), true
	case cadence.Int16:
		return "Int16", big.NewInt(int64(v)), true
	case cadence.Int32:
		return "Int32", big.NewInt(int64(v)), true
	case cadence.Int64:
		return "Int64", big.NewInt(int64(v)), true
	case cadence.Int128:
		return "Int128", v.Big(), true
	case cadence.Int256:
		return "Int256", v.Big(), true
	case cadence.UInt:
		return "UInt", v.Big(), true
	case cadence.UInt8:
		return "UInt8", big.NewInt(int64(v)), true
	case cadence.UInt16:
		return "UInt16", big.NewInt(int64(v)), true
	case cadence.UInt32:
		return "UInt32", big.NewInt(int64(v)), true
	case cadence.UInt64:
		return "UInt64", new(big.Int).SetUint64(uint64(v)), true
	case cadence.UInt128:
		return "UInt128", v.Big(), true
	case cadence.UInt256:
		return "UInt256", v.Big(), true
	case cadence.Word8:
		return "Word8", big.NewInt(int64(v)), true
	case cadence.Word16:
		return "Word16", big.NewInt(int64(v)), true
	case cadence.Word32:
		return "Word32", big.NewInt(int64(v)), true
	case cadence.Word64:
		return "Word64", new(big.Int).SetUint64(uint64(v)), true
	case cadence.Word128:
		return "Word128", v.Big(), true
	case cadence.Word256:
		return "Word256", v.Big(), true
	}
	return "", nil, false
}

func (p *printer) vals(vs []cadence.Value) []string {
	out := make([]string, len(vs))
	for i, v := range vs {
		out[i] = p.val(v)
	}
	return out
}

func domainSx(d common.PathDomain) string {
	switch d {
	case common.PathDomainStorage:
		return "storage"
	case common.PathDomainPrivate:
		return "private"
	case common.PathDomainPublic:
		return "public"
	}
	return "domain" + strconv.Itoa(int(d))
}

func typeByID(t cadence.Type) (s string) {
	defer func() {
		if r := recover(); r != nil {
			s = "(typeid ?)"
		}
	}()
	if isNilType(t) {
		return "nil"
	}
	return list("typeid", Str(t.ID()))
}

// compByID: kind, type ID and fields of a composite type, the field types by their type IDs
func compByID(t cadence.Type) string {
	ct, ok := t.(cadence.CompositeType)
	if !ok || isNilType(t) {
		return typeByID(t)
	}
	fields := CompositeFields(ct)
	fs := make([]string, len(fields))
	for i, f := range fields {
		fs[i] = list("f", Str(f.Identifier), typeByID(f.Type))
	}
	return list("comp", compKindOf(ct), Str(ct.ID()), list("fs", fs...))
}

func compKindOf(c cadence.CompositeType) string {
	switch c.(type) {
	case *cadence.StructType:
		return "struct"
	case *cadence.ResourceType:
		return "resource"
	case *cadence.EventType:
		return "event"
	case *cadence.ContractType:
		return "contract"
	case *cadence.EnumType:
		return "enum"
	case *cadence.AttachmentType:
		return "attachment"
	}
	return "?"
}

func (p *printer) val(v cadence.Value) string {
	if v == nil {
		return "nilv"
	}
	if p.capByID {
		if c, ok := v.(cadence.Composite); ok {
			return list("compv", append([]string{compByID(v.Type())}, p.vals(CompositeValues(c))...)...)
		}
	}
	if k, b, ok := bigOf(v); ok {
		return list("int", k, b.String())
	}
	switch v := v.(type) {
	case cadence.Void:
		return "(void)"
	case cadence.Optional:
		if v.Value == nil {
			return "(none)"
		}
		return list("some", p.val(v.Value))
	case cadence.Bool:
		if v {
			return "(bool true)"
		}
		return "(bool false)"
	case cadence.String:
		return list("str", Str(string(v)))
	case cadence.Character:
		return list("char", Str(string(v)))
	case cadence.Address:
		return list("addr", hex.EncodeToString(v[:]))
	case cadence.Fix64:
		return list("fix", "Fix64", strconv.FormatInt(int64(v), 10))
	case cadence.UFix64:
		return list("fix", "UFix64", strconv.FormatUint(uint64(v), 10))
	case cadence.Fix128:
		// signed 128-bit raw value
		x := new(big.Int).SetUint64(uint64(v.Hi))
		x.Lsh(x, 64)
		x.Or(x, new(big.Int).SetUint64(uint64(v.Lo)))
		if x.Bit(127) == 1 {
			x.Sub(x, new(big.Int).Lsh(big.NewInt(1), 128))
		}
		return list("fix", "Fix128", x.String())
	case cadence.UFix128:
		x := new(big.Int).SetUint64(uint64(v.Hi))
		x.Lsh(x, 64)
		x.Or(x, new(big.Int).SetUint64(uint64(v.Lo)))
		return list("fix", "UFix128", x.String())
	case cadence.Array:
		var t cadence.Type
		if v.ArrayType != nil {
			t = v.ArrayType
		}
		return list("arr", append([]string{p.root(t)}, p.vals(v.Values)...)...)
	case cadence.Dictionary:
		items := []string{p.root(v.Type())}
		for _, kv := range v.Pairs {
			items = append(items, list("kv", p.val(kv.Key), p.val(kv.Value)))
		}
		return list("dictv", items...)
	case cadence.Struct:
		return list("compv", append([]string{p.root(v.Type())}, p.vals(CompositeValues(v))...)...)
	case cadence.Resource:
		return list("compv", append([]string{p.root(v.Type())}, p.vals(CompositeValues(v))...)...)
	case cadence.Event:
		return list("compv", append([]string{p.root(v.Type())}, p.vals(CompositeValues(v))...)...)
	case cadence.Contract:
		return list("compv", append([]string{p.root(v.Type())}, p.vals(CompositeValues(v))...)...)
	case cadence.Enum:
		return list("compv", append([]string{p.root(v.Type())}, p.vals(CompositeValues(v))...)...)
	case cadence.Attachment:
		return list("compv", append([]string{p.root(v.Type())}, p.vals(CompositeValues(v))...)...)
	case cadence.Path:
		return list("path", domainSx(v.Domain), Str(v.Identifier))
	case cadence.Capability:
		if v.DeprecatedPath != nil {
			return list("capv-deprecated", p.val(*v.DeprecatedPath), hex.EncodeToString(v.Address[:]), p.root(v.BorrowType))
		}
		if p.capByID && !isNilType(v.BorrowType) {
			return list("capv", strconv.FormatUint(uint64(v.ID), 10), hex.EncodeToString(v.Address[:]), list("typeid", Str(v.BorrowType.ID())))
		}
		return list("capv", strconv.FormatUint(uint64(v.ID), 10), hex.EncodeToString(v.Address[:]), p.root(v.BorrowType))
	case cadence.TypeValue:
		return list("type", p.root(v.StaticType))
	case *cadence.InclusiveRange:
		if v == nil {
			return "nilv"
		}
		return list("rangev", p.root(v.Type()), p.val(v.Start), p.val(v.End), p.val(v.Step))
	case cadence.Function:
		var t cadence.Type
		if v.FunctionType != nil {
			t = v.FunctionType
		}
		return list("funv", p.root(t))
	}
	return fmt.Sprintf("(unknown-value %T)", v)
}
