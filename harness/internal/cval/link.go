package cval

import (
	_ "unsafe"

	"github.com/onflow/cadence"
)

// The field lists of composite / interface types and the field values of composites are reachable
// only through these unexported accessors (the codecs in /repo use the same linknames).

//go:linkname compositeFieldValues github.com/onflow/cadence.getCompositeFieldValues
func compositeFieldValues(cadence.Composite) []cadence.Value

//go:linkname compositeTypeFields github.com/onflow/cadence.getCompositeTypeFields
func compositeTypeFields(cadence.CompositeType) []cadence.Field

//go:linkname interfaceTypeFields github.com/onflow/cadence.getInterfaceTypeFields
func interfaceTypeFields(cadence.InterfaceType) []cadence.Field

// CompositeValues returns the field values of a composite value.
func CompositeValues(v cadence.Composite) []cadence.Value { return compositeFieldValues(v) }

//go:linkname setCompositeTypeFields github.com/onflow/cadence.setCompositeTypeFields
func setCompositeTypeFields(cadence.CompositeType, []cadence.Field)

//go:linkname setInterfaceTypeFields github.com/onflow/cadence.setInterfaceTypeFields
func setInterfaceTypeFields(cadence.InterfaceType, []cadence.Field)
