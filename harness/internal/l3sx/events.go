package l3sx

// Calculus of Verif.Model.Lang3.Events (property C48).

import (
	"fmt"
	"strings"

	"verif/harness/internal/hx"
)

type ETy struct {
	K    string // Int UInt8 Int64 Bool String Address opt arr ref
	Elem *ETy
}

func (t *ETy) SX() string {
	switch t.K {
	case "opt", "arr", "ref":
		return "(" + t.K + " " + t.Elem.SX() + ")"
	}
	return t.K
}

func (t *ETy) Src() string {
	switch t.K {
	case "opt":
		return t.Elem.Src() + "?"
	case "arr":
		return "[" + t.Elem.Src() + "]"
	case "ref":
		return "&" + t.Elem.Src()
	}
	return t.K
}

type EVal struct {
	K    string // int bool str addr nil some arr
	Ty   string
	N    int64
	B    bool
	S    string
	V    *EVal
	Vs   []*EVal
	ElTy *ETy // for empty array literals
}

func (v *EVal) SX() string {
	switch v.K {
	case "int":
		return fmt.Sprintf("(int %s %d)", v.Ty, v.N)
	case "bool":
		return fmt.Sprintf("(bool %v)", v.B)
	case "str":
		return fmt.Sprintf("(str %q)", v.S)
	case "addr":
		return fmt.Sprintf("(addr %d)", v.N)
	case "nil":
		return "(nil)"
	case "some":
		return "(some " + v.V.SX() + ")"
	}
	parts := []string{"arr"}
	for _, e := range v.Vs {
		parts = append(parts, e.SX())
	}
	return "(" + strings.Join(parts, " ") + ")"
}

func (v *EVal) Src() string {
	switch v.K {
	case "int":
		if v.N < 0 {
			return fmt.Sprintf("(%d)", v.N)
		}
		return fmt.Sprint(v.N)
	case "bool":
		return fmt.Sprint(v.B)
	case "str":
		return fmt.Sprintf("%q", v.S)
	case "addr":
		return fmt.Sprintf("0x%x", v.N)
	case "nil":
		return "nil"
	case "some":
		return v.V.Src()
	}
	parts := []string{}
	for _, e := range v.Vs {
		parts = append(parts, e.Src())
	}
	return "[" + strings.Join(parts, ", ") + "]"
}

type EExp struct {
	K    string // lit param rfield tr | cond chain coalesce force cast castq | src
	V    *EVal
	X, F int
	ID   int
	E    *EExp
	TrFn string
	// cond: T = static type, C ? A : B;  chain: Flag, E, TrFn = constructor function;
	// coalesce: A ?? B;  force: E!;  cast: E as T;  castq: anyS(E) as? T
	T       *ETy
	C, A, B *EExp
	Flag    bool
	// src: an expression whose value the model takes as the literal V and whose source text is S
	// (a reference variable: the payload of a reference is the exported referenced value)
	S string
}

func (e *EExp) SX() string {
	switch e.K {
	case "lit":
		return "(lit " + e.V.SX() + ")"
	case "param":
		return "(param)"
	case "rfield":
		return fmt.Sprintf("(rfield %d %d)", e.X, e.F)
	case "src":
		return "(lit " + e.V.SX() + ")"
	case "cond":
		return "(cond " + e.T.SX() + " " + e.C.SX() + " " + e.A.SX() + " " + e.B.SX() + ")"
	case "chain":
		return fmt.Sprintf("(chain %v %s)", e.Flag, e.E.SX())
	case "coalesce":
		return "(coalesce " + e.A.SX() + " " + e.B.SX() + ")"
	case "force":
		return "(force " + e.E.SX() + ")"
	case "cast":
		return "(cast " + e.T.SX() + " " + e.E.SX() + ")"
	case "castq":
		return "(castq " + e.T.SX() + " " + e.E.SX() + ")"
	}
	return fmt.Sprintf("(tr %d %s)", e.ID, e.E.SX())
}

func (e *EExp) Src() string {
	switch e.K {
	case "lit":
		return e.V.Src()
	case "param":
		return "p"
	case "rfield":
		return fmt.Sprintf("r%d.f%d", e.X, e.F)
	case "src":
		return e.S
	case "cond":
		return "(" + e.C.Src() + " ? " + e.A.Src() + " : " + e.B.Src() + ")"
	case "chain":
		return fmt.Sprintf("%s(%v, %s)?.n", e.TrFn, e.Flag, e.E.Src())
	case "coalesce":
		return "(" + e.A.Src() + " ?? " + e.B.Src() + ")"
	case "force":
		return "(" + e.E.Src() + ")!"
	case "cast":
		return "(" + e.E.Src() + " as " + e.T.Src() + ")"
	case "castq":
		return "(anyS(" + e.E.Src() + ") as? " + e.T.Src() + ")"
	}
	return fmt.Sprintf("%s(%d, %s)", e.TrFn, e.ID, e.E.Src())
}

type EParam struct {
	Name string
	Ty   *ETy
}

type EEventDecl struct {
	ID     string
	Params []EParam
}

type EDParam struct {
	Name string
	Ty   *ETy
	K    string // lit field innerField
	V    *EVal
	F    int
}

type EResDecl struct {
	Fields   []EParam
	Inner    int // -1 none
	Destroy  []EDParam
	HasEv    bool
	Conforms []int
}

type EIface struct {
	Conforms []int
	Destroy  []EDParam
	HasEv    bool
}

type ERExp struct {
	Ty    int
	Args  []*EExp
	Inner *ERExp
}

type EEmit struct {
	Ev   int
	Args []*EExp
}

type EStmt struct {
	K    string // emit log create set setinner destroy call
	Emit *EEmit
	E    *EExp
	X, F int
	R    *ERExp
}

type EFun struct{ Pre, Body, Post []*EEmit }

// ERefVar is a local of `main` holding a reference: `let x<i>: T = v; let rx<i> = &x<i> as &T`, or a
// reference borrowed from storage after saving v.
type ERefVar struct {
	Ty      *ETy
	V       *EVal
	Storage bool
}

type EProgram struct {
	Refs   []ERefVar
	Events []EEventDecl
	Ifaces []EIface
	Res    []EResDecl
	Funs   []EFun
	Main   []EStmt
	Forms  map[string]bool
}

func paramsSX(head string, ps []EParam) string {
	parts := []string{head}
	for _, p := range ps {
		parts = append(parts, "(p "+p.Name+" "+p.Ty.SX()+")")
	}
	return "(" + strings.Join(parts, " ") + ")"
}

func (e *EEmit) SX() string {
	parts := []string{"emit", fmt.Sprint(e.Ev)}
	for _, a := range e.Args {
		parts = append(parts, a.SX())
	}
	return "(" + strings.Join(parts, " ") + ")"
}

func emitsSX(head string, es []*EEmit) string {
	parts := []string{head}
	for _, e := range es {
		parts = append(parts, e.SX())
	}
	return "(" + strings.Join(parts, " ") + ")"
}

func (r *ERExp) SX() string {
	parts := []string{"args"}
	for _, a := range r.Args {
		parts = append(parts, a.SX())
	}
	in := "(noinner)"
	if r.Inner != nil {
		in = "(inner " + r.Inner.SX() + ")"
	}
	return fmt.Sprintf("(new %d (%s) %s)", r.Ty, strings.Join(parts, " "), in)
}

func destroySX(has bool, ds []EDParam) string {
	if !has {
		return "(nodestroy)"
	}
	var b strings.Builder
	b.WriteString("(destroy")
	for _, d := range ds {
		var de string
		switch d.K {
		case "lit":
			de = "(lit " + d.V.SX() + ")"
		case "field":
			de = fmt.Sprintf("(field %d)", d.F)
		default:
			de = fmt.Sprintf("(innerField %d)", d.F)
		}
		b.WriteString(" (dp " + d.Name + " " + d.Ty.SX() + " " + de + ")")
	}
	b.WriteString(")")
	return b.String()
}

func (p *EProgram) SX() string {
	var b strings.Builder
	b.WriteString("(evprog (events")
	for _, e := range p.Events {
		b.WriteString(" " + paramsSX("event "+e.ID, e.Params))
	}
	b.WriteString(") (ifaces")
	for _, it := range p.Ifaces {
		b.WriteString(" (iface " + intsSX("conforms", it.Conforms) + " " + destroySX(it.HasEv, it.Destroy) + ")")
	}
	b.WriteString(") (resources")
	for _, r := range p.Res {
		b.WriteString(" (res " + paramsSX("fields", r.Fields) + " " + intsSX("conforms", r.Conforms))
		if r.Inner >= 0 {
			b.WriteString(fmt.Sprintf(" (inner %d)", r.Inner))
		} else {
			b.WriteString(" (noinner)")
		}
		b.WriteString(" " + destroySX(r.HasEv, r.Destroy) + ")")
	}
	b.WriteString(") (funs")
	for _, f := range p.Funs {
		b.WriteString(" (fun " + emitsSX("pre", f.Pre) + " " + emitsSX("body", f.Body) + " " + emitsSX("post", f.Post) + ")")
	}
	b.WriteString(") (main")
	for _, s := range p.Main {
		switch s.K {
		case "emit":
			b.WriteString(" " + s.Emit.SX())
		case "log":
			b.WriteString(" (log " + s.E.SX() + ")")
		case "create":
			b.WriteString(fmt.Sprintf(" (create %d %s)", s.X, s.R.SX()))
		case "set":
			b.WriteString(fmt.Sprintf(" (set %d %d %s)", s.X, s.F, s.E.SX()))
		case "setinner":
			b.WriteString(fmt.Sprintf(" (setinner %d %d %s)", s.X, s.F, s.E.SX()))
		case "destroy":
			b.WriteString(fmt.Sprintf(" (destroy %d)", s.X))
		case "call":
			b.WriteString(fmt.Sprintf(" (call %d %s)", s.F, s.E.SX()))
		}
	}
	b.WriteString("))")
	return b.String()
}

func (p *EProgram) emitSrc(e *EEmit) string {
	d := p.Events[e.Ev]
	parts := make([]string, len(e.Args))
	for i, a := range e.Args {
		parts[i] = d.Params[i].Name + ": " + a.Src()
	}
	return "emit " + d.ID + "(" + strings.Join(parts, ", ") + ")"
}

func (p *EProgram) rexpSrc(r *ERExp) string {
	d := p.Res[r.Ty]
	parts := []string{}
	for i, a := range r.Args {
		parts = append(parts, d.Fields[i].Name+": "+a.Src())
	}
	if r.Inner != nil {
		parts = append(parts, "inner: <- "+p.rexpSrc(r.Inner))
	}
	return fmt.Sprintf("create R%d(%s)", r.Ty, strings.Join(parts, ", "))
}

func (p *EProgram) Src() string {
	var b strings.Builder
	for _, e := range p.Events {
		parts := make([]string, len(e.Params))
		for i, q := range e.Params {
			parts[i] = q.Name + ": " + q.Ty.Src()
		}
		b.WriteString("access(all) event " + e.ID + "(" + strings.Join(parts, ", ") + ")\n")
	}
	b.WriteString("access(all) fun trI(_ id: Int, _ v: Int): Int { log(id); return v }\n")
	b.WriteString("access(all) fun trS(_ id: Int, _ v: String): String { log(id); return v }\n")
	b.WriteString("access(all) fun trB(_ id: Int, _ v: Bool): Bool { log(id); return v }\n")
	if p.Forms["chain"] {
		for _, q := range [][2]string{{"I", "Int"}, {"S", "String"}, {"B", "Bool"}} {
			b.WriteString(fmt.Sprintf("access(all) struct S%s { access(all) let n: %s; view init(_ n: %s) { self.n = n } }\n", q[0], q[1], q[1]))
			b.WriteString(fmt.Sprintf("access(all) view fun mk%s(_ present: Bool, _ v: %s): S%s? { if present { return S%s(v) }; return nil }\n", q[0], q[1], q[0], q[0]))
		}
	}
	if p.Forms["castq"] {
		b.WriteString("access(all) view fun anyS(_ v: AnyStruct): AnyStruct { return v }\n")
	}
	for i, it := range p.Ifaces {
		b.WriteString(fmt.Sprintf("access(all) resource interface I%d%s {\n  access(all) var f0: Int\n", i, confSrc(it.Conforms)))
		if it.HasEv {
			parts := make([]string, len(it.Destroy))
			for j, d := range it.Destroy {
				de := "self.f0"
				if d.K == "lit" {
					de = d.V.Src()
				}
				parts[j] = d.Name + ": " + d.Ty.Src() + " = " + de
			}
			b.WriteString("  access(all) event ResourceDestroyed(" + strings.Join(parts, ", ") + ")\n")
		}
		b.WriteString("}\n")
	}
	for i, r := range p.Res {
		b.WriteString(fmt.Sprintf("access(all) resource R%d%s {\n", i, confSrc(r.Conforms)))
		for _, f := range r.Fields {
			b.WriteString("  access(all) var " + f.Name + ": " + f.Ty.Src() + "\n")
		}
		if r.Inner >= 0 {
			b.WriteString(fmt.Sprintf("  access(all) var inner: @R%d\n", r.Inner))
		}
		if r.HasEv {
			parts := make([]string, len(r.Destroy))
			for j, d := range r.Destroy {
				var de string
				switch d.K {
				case "lit":
					de = d.V.Src()
				case "field":
					de = "self." + r.Fields[d.F].Name
				default:
					de = "self.inner." + p.Res[r.Inner].Fields[d.F].Name
				}
				parts[j] = d.Name + ": " + d.Ty.Src() + " = " + de
			}
			b.WriteString("  access(all) event ResourceDestroyed(" + strings.Join(parts, ", ") + ")\n")
		}
		ps := []string{}
		for _, f := range r.Fields {
			ps = append(ps, f.Name+": "+f.Ty.Src())
		}
		if r.Inner >= 0 {
			ps = append(ps, fmt.Sprintf("inner: @R%d", r.Inner))
		}
		b.WriteString("  init(" + strings.Join(ps, ", ") + ") {\n")
		for _, f := range r.Fields {
			b.WriteString("    self." + f.Name + " = " + f.Name + "\n")
		}
		if r.Inner >= 0 {
			b.WriteString("    self.inner <- inner\n")
		}
		b.WriteString("  }\n")
		for j, f := range r.Fields {
			b.WriteString(fmt.Sprintf("  access(all) fun set%d(_ v: %s) { self.%s = v }\n", j, f.Ty.Src(), f.Name))
		}
		if r.Inner >= 0 {
			for j, f := range p.Res[r.Inner].Fields {
				b.WriteString(fmt.Sprintf("  access(all) fun setInner%d(_ v: %s) { self.inner.set%d(v) }\n", j, f.Ty.Src(), j))
			}
		}
		b.WriteString("}\n")
	}
	for i, f := range p.Funs {
		b.WriteString(fmt.Sprintf("access(all) fun fn%d(_ p: Int) {\n", i))
		if len(f.Pre) > 0 {
			b.WriteString("  pre {\n")
			for _, e := range f.Pre {
				b.WriteString("    " + p.emitSrc(e) + "\n")
			}
			b.WriteString("  }\n")
		}
		if len(f.Post) > 0 {
			b.WriteString("  post {\n")
			for _, e := range f.Post {
				b.WriteString("    " + p.emitSrc(e) + "\n")
			}
			b.WriteString("  }\n")
		}
		for _, e := range f.Body {
			b.WriteString("  " + p.emitSrc(e) + "\n")
		}
		b.WriteString("}\n")
	}
	b.WriteString("access(all) fun main() {\n")
	acctDeclared := false
	for i, rv := range p.Refs {
		if rv.Storage {
			if !acctDeclared {
				acctDeclared = true
				b.WriteString("  let acct = getAuthAccount<auth(Storage) &Account>(0x01)\n")
			}
			b.WriteString(fmt.Sprintf("  acct.storage.save<%s>(%s, to: /storage/s%d)\n", rv.Ty.Src(), rv.V.Src(), i))
			b.WriteString(fmt.Sprintf("  let rx%d = acct.storage.borrow<&%s>(from: /storage/s%d)!\n", i, rv.Ty.Src(), i))
		} else {
			b.WriteString(fmt.Sprintf("  let x%d: %s = %s\n", i, rv.Ty.Src(), rv.V.Src()))
			b.WriteString(fmt.Sprintf("  let rx%d = &x%d as &%s\n", i, i, rv.Ty.Src()))
		}
	}
	for _, s := range p.Main {
		switch s.K {
		case "emit":
			b.WriteString("  " + p.emitSrc(s.Emit) + "\n")
		case "log":
			b.WriteString("  log(" + s.E.Src() + ")\n")
		case "create":
			b.WriteString(fmt.Sprintf("  let r%d <- %s\n", s.X, p.rexpSrc(s.R)))
		case "set":
			b.WriteString(fmt.Sprintf("  r%d.set%d(%s)\n", s.X, s.F, s.E.Src()))
		case "setinner":
			b.WriteString(fmt.Sprintf("  r%d.setInner%d(%s)\n", s.X, s.F, s.E.Src()))
		case "destroy":
			b.WriteString(fmt.Sprintf("  destroy r%d\n", s.X))
		case "call":
			b.WriteString(fmt.Sprintf("  fn%d(%s)\n", s.F, s.E.Src()))
		}
	}
	b.WriteString("}\n")
	return b.String()
}

// ---- generator ----

type evGen struct {
	r     *hx.Rng
	p     *EProgram
	id    int
	live  map[int]int // var -> resource type
	nextX int
	// while the parameters of a top-level event are generated: reference types over the referent types
	// of the program's reference variables, and doubly optional types
	evParam  bool
	allowRef bool
}

var evBaseTys = []string{"Int", "Int", "UInt8", "Int64", "Bool", "String", "Address"}

func (g *evGen) ty(depth int, allowContainers bool) *ETy {
	if g.evParam && g.allowRef && len(g.p.Refs) > 0 && depth == 2 && g.r.Chance(45) {
		// &T, &T?, [&T], [&T?], [&T]? over the referent type of one of the reference variables
		g.p.Forms["ref"] = true
		t := &ETy{K: "ref", Elem: g.p.Refs[g.r.Intn(len(g.p.Refs))].Ty}
		switch g.r.Intn(6) {
		case 0:
			return &ETy{K: "opt", Elem: t}
		case 1:
			return &ETy{K: "arr", Elem: t}
		case 2:
			return &ETy{K: "arr", Elem: &ETy{K: "opt", Elem: t}}
		case 3:
			return &ETy{K: "opt", Elem: &ETy{K: "arr", Elem: t}}
		}
		return t
	}
	if g.evParam && depth == 2 && g.r.Chance(25) {
		// optional / doubly optional parameter over a type with self-typed literals: the targets of the
		// conditional / chaining / coalescing / unwrapping / casting argument forms
		t := &ETy{K: "opt", Elem: &ETy{K: xBase[g.r.Intn(len(xBase))]}}
		g.p.Forms["opt"] = true
		if g.r.Chance(45) {
			g.p.Forms["opt2"] = true
			t = &ETy{K: "opt", Elem: t}
		}
		return t
	}
	if depth > 0 && allowContainers && g.r.Chance(30) {
		k := []string{"opt", "arr"}[g.r.Intn(2)]
		el := g.ty(depth-1, k == "arr" || true)
		if k == "opt" && el.K == "opt" { // no nested optionals
			return el
		}
		g.p.Forms[k] = true
		return &ETy{K: k, Elem: el}
	}
	return &ETy{K: evBaseTys[g.r.Intn(len(evBaseTys))]}
}

func (g *evGen) val(t *ETy) *EVal {
	r := g.r
	switch t.K {
	case "Int":
		return &EVal{K: "int", Ty: "Int", N: []int64{0, 1, -1, 7, 255, 256, -129, 100000}[r.Intn(8)]}
	case "UInt8":
		return &EVal{K: "int", Ty: "UInt8", N: []int64{0, 1, 127, 128, 255}[r.Intn(5)]}
	case "Int64":
		return &EVal{K: "int", Ty: "Int64", N: []int64{0, -1, 9223372036854775807, -9223372036854775808, 42}[r.Intn(5)]}
	case "Bool":
		return &EVal{K: "bool", B: r.Bool()}
	case "String":
		return &EVal{K: "str", S: []string{"", "a", "hello", "x y", "Z9"}[r.Intn(5)]}
	case "Address":
		return &EVal{K: "addr", N: []int64{1, 2, 255, 4096}[r.Intn(4)]}
	case "opt":
		if r.Chance(35) {
			return &EVal{K: "nil"}
		}
		v := g.val(t.Elem)
		for t.Elem.K == "opt" && v.K == "nil" { // `some(nil)` has no literal of its own
			v = g.val(t.Elem)
		}
		return &EVal{K: "some", V: v}
	}
	n := r.Intn(3)
	if t.Elem.K == "opt" || t.Elem.K == "arr" {
		n = 1 + r.Intn(2) // the element type of an empty literal would not be inferable from nothing; keep non-empty
	}
	v := &EVal{K: "arr", ElTy: t.Elem}
	for i := 0; i < n; i++ {
		v.Vs = append(v.Vs, g.val(t.Elem))
	}
	return v
}

// expression of (source) type t, to be transferred to a parameter of type t (or of its optional)
func (g *evGen) exp(t *ETy, inFun bool) *EExp {
	var e *EExp
	switch {
	case t.K == "Int" && inFun && g.r.Chance(50):
		e = &EExp{K: "param"}
	default:
		// a live resource's field of exactly this type
		type cand struct{ x, f int }
		var cs []cand
		if !inFun {
			for x, rt := range g.live {
				for f, fd := range g.p.Res[rt].Fields {
					if fd.Ty.SX() == t.SX() {
						cs = append(cs, cand{x, f})
					}
				}
			}
		}
		if len(cs) > 0 && g.r.Chance(40) {
			// deterministic choice among map-derived candidates: smallest (x,f) after sorting
			best := cs[0]
			for _, c := range cs {
				if c.x < best.x || (c.x == best.x && c.f < best.f) {
					best = c
				}
			}
			g.p.Forms["rfield"] = true
			e = &EExp{K: "rfield", X: best.x, F: best.f}
		} else {
			e = &EExp{K: "lit", V: g.val(t)}
		}
	}
	fn := map[string]string{"Int": "trI", "String": "trS", "Bool": "trB"}[t.K]
	if fn != "" && !inFun && g.r.Chance(45) {
		g.id++
		g.p.Forms["tr"] = true
		e = &EExp{K: "tr", ID: g.id, E: e, TrFn: fn}
	}
	return e
}

// argument for a parameter of type t: mostly of type t, for optionals often the unboxed element type
func (g *evGen) arg(t *ETy, inFun bool) *EExp {
	if hasRef(t) {
		v, src, _ := g.refArg(t)
		return &EExp{K: "src", V: v, S: src}
	}
	if base, d := optDepth(t); xBaseSet[base] && g.r.Chance(60) {
		return g.xarg(base, d, inFun)
	}
	if t.K == "opt" && t.Elem.K != "arr" && g.r.Chance(50) {
		g.p.Forms["boxed-arg"] = true
		return g.exp(t.Elem, inFun)
	}
	return g.exp(t, inFun)
}

// ---- argument forms whose value is produced by one of several instructions (conditional, optional
// chaining, nil-coalescing, force unwrap, casts): the transfer to the parameter type has to convert / box
// whatever the taken path produced ----

var xBase = []string{"Int", "String", "Bool"}
var xBaseSet = map[string]bool{"Int": true, "String": true, "Bool": true}

// optDepth: T -> (T, 0), T? -> (T, 1), T?? -> (T, 2); anything else -> ("", 0)
func optDepth(t *ETy) (string, int) {
	d := 0
	for t.K == "opt" {
		t = t.Elem
		d++
	}
	if t.K == "arr" || t.K == "ref" {
		return "", 0
	}
	return t.K, d
}

func optN(base string, d int) *ETy {
	t := &ETy{K: base}
	for ; d > 0; d-- {
		t = &ETy{K: "opt", Elem: t}
	}
	return t
}

func nilLit() *EExp { return &EExp{K: "lit", V: &EVal{K: "nil"}} }

// expression of the (syntactically) optional static type base?
func (g *evGen) optSrc(base string, inFun bool) *EExp {
	bt := &ETy{K: base}
	switch g.r.Intn(4) {
	case 0:
		g.p.Forms["chain"] = true
		return &EExp{K: "chain", Flag: g.r.Chance(70), E: g.exp(bt, inFun), TrFn: "mk" + base[:1]}
	case 1:
		g.p.Forms["cast"] = true
		if g.r.Chance(30) {
			return &EExp{K: "cast", T: optN(base, 1), E: nilLit()}
		}
		return &EExp{K: "cast", T: optN(base, 1), E: g.exp(bt, inFun)}
	case 2:
		g.p.Forms["castq"] = true
		from := bt
		if g.r.Chance(30) {
			from = &ETy{K: xBase[g.r.Intn(len(xBase))]}
		}
		return &EExp{K: "castq", T: bt, E: g.exp(from, inFun)}
	}
	// a live resource's optional field, when there is one
	e := g.exp(optN(base, 1), inFun)
	if e.K == "rfield" {
		return e
	}
	g.p.Forms["chain"] = true
	return &EExp{K: "chain", Flag: g.r.Chance(70), E: g.exp(bt, inFun), TrFn: "mk" + base[:1]}
}

// expression of static type base with k <= d optional levels (k returned)
func (g *evGen) xleaf(base string, d int, inFun bool) (*EExp, int) {
	if d >= 1 && g.r.Chance(40) {
		return g.optSrc(base, inFun), 1
	}
	if d >= 1 && g.r.Chance(15) {
		g.p.Forms["cast"] = true
		k := 1 + g.r.Intn(d)
		return &EExp{K: "cast", T: optN(base, k), E: g.exp(&ETy{K: base}, inFun)}, k
	}
	return g.exp(&ETy{K: base}, inFun), 0
}

// argument for a parameter of type base with d optional levels
func (g *evGen) xarg(base string, d int, inFun bool) *EExp {
	bt := &ETy{K: base}
	cond := func() *EExp { return g.exp(&ETy{K: "Bool"}, inFun) }
	switch k := g.r.Intn(10); {
	case k < 4 && d >= 1:
		// conditional with the nil literal in one branch
		a, ka := g.xleaf(base, d, inFun)
		if ka == 0 {
			ka = 1
		}
		if g.r.Bool() {
			g.p.Forms["cond-nil-else"] = true
			return &EExp{K: "cond", T: optN(base, ka), C: cond(), A: a, B: nilLit()}
		}
		g.p.Forms["cond-nil-then"] = true
		return &EExp{K: "cond", T: optN(base, ka), C: cond(), A: nilLit(), B: a}
	case k < 5:
		g.p.Forms["cond-both"] = true
		a, ka := g.xleaf(base, d, inFun)
		b, kb := g.xleaf(base, d, inFun)
		if kb > ka {
			ka = kb
		}
		return &EExp{K: "cond", T: optN(base, ka), C: cond(), A: a, B: b}
	case k < 7 && d >= 1:
		return g.optSrc(base, inFun)
	case k < 8:
		g.p.Forms["coalesce"] = true
		return &EExp{K: "coalesce", A: g.optSrc(base, inFun), B: g.exp(bt, inFun)}
	case k < 9:
		g.p.Forms["force"] = true
		a := g.optSrc(base, inFun)
		if (a.K == "chain" && !a.Flag) && g.r.Chance(85) { // mostly succeeding
			a.Flag = true
		}
		return &EExp{K: "force", E: a}
	}
	g.p.Forms["cast"] = true
	return &EExp{K: "cast", T: optN(base, g.r.Intn(d+1)), E: g.exp(bt, inFun)}
}

func hasRef(t *ETy) bool {
	for t != nil {
		if t.K == "ref" {
			return true
		}
		t = t.Elem
	}
	return false
}

// argument of a reference-carrying type: the model's value (the exported referenced value), the
// source text, and whether it is written as `nil`
func (g *evGen) refArg(t *ETy) (*EVal, string, bool) {
	switch t.K {
	case "ref":
		var cs []int
		for i, rv := range g.p.Refs {
			if rv.Ty.SX() == t.Elem.SX() {
				cs = append(cs, i)
			}
		}
		i := cs[g.r.Intn(len(cs))]
		if g.p.Refs[i].Storage {
			g.p.Forms["ref-storage"] = true
		}
		return g.p.Refs[i].V, fmt.Sprintf("rx%d", i), false
	case "opt":
		if g.r.Chance(20) {
			return &EVal{K: "nil"}, "nil", true
		}
		v, s, _ := g.refArg(t.Elem)
		return &EVal{K: "some", V: v}, s, false
	}
	n := 1 + g.r.Intn(3)
	v := &EVal{K: "arr", ElTy: t.Elem}
	parts := []string{}
	allNil := true
	for i := 0; i < n; i++ {
		ev, es, isNil := g.refArg(t.Elem)
		if i == n-1 && allNil && isNil { // `[nil]` alone gives the checker nothing to infer from
			for isNil {
				ev, es, isNil = g.refArg(t.Elem)
			}
		}
		allNil = allNil && isNil
		v.Vs = append(v.Vs, ev)
		parts = append(parts, es)
	}
	src := "[" + strings.Join(parts, ", ") + "]"
	if t.Elem.K == "opt" {
		// The checker gives an argument no expected type when the parameter type contains a reference
		// (check_invocation_expression.go: "require an explicit type annotation"): unannotated, `[r, r]` is a
		// `[&T]` value, accepted for `[&T?]` by array covariance with its elements left unboxed.
		src = "(" + src + " as " + t.Src() + ")"
	}
	return v, src, false
}

func (g *evGen) emit(inFun bool) *EEmit {
	ev := g.r.Intn(len(g.p.Events))
	if inFun { // the reference variables are locals of main
		for tries := 0; tries < 8 && g.evHasRef(ev); tries++ {
			ev = g.r.Intn(len(g.p.Events))
		}
		if g.evHasRef(ev) {
			ev = 0
		}
	}
	e := &EEmit{Ev: ev}
	for _, q := range g.p.Events[ev].Params {
		e.Args = append(e.Args, g.arg(q.Ty, inFun))
	}
	for i := range g.p.Refs { // the same reference value more than once in one event
		n := 0
		for _, a := range e.Args {
			if a.K == "src" {
				n += strings.Count(a.S+",", fmt.Sprintf("rx%d,", i)) + strings.Count(a.S, fmt.Sprintf("rx%d]", i))
			}
		}
		if n >= 2 {
			g.p.Forms["ref-shared"] = true
		}
	}
	return e
}

func (g *evGen) evHasRef(ev int) bool {
	for _, q := range g.p.Events[ev].Params {
		if hasRef(q.Ty) {
			return true
		}
	}
	return false
}

func (g *evGen) rexp(t int) *ERExp {
	d := g.p.Res[t]
	r := &ERExp{Ty: t}
	for _, f := range d.Fields {
		r.Args = append(r.Args, g.arg(f.Ty, false))
	}
	if d.Inner >= 0 {
		r.Inner = g.rexp(d.Inner)
	}
	return r
}

// GenEvents generates one program of the event calculus.
func GenEvents(r *hx.Rng) *EProgram {
	p := &EProgram{Forms: map[string]bool{}}
	g := &evGen{r: r, p: p, live: map[int]int{}}
	if r.Chance(35) {
		for k := 1 + r.Intn(2); k > 0; k-- {
			var t *ETy
			switch r.Intn(5) {
			case 0:
				t = &ETy{K: "arr", Elem: &ETy{K: "Int"}}
			case 1:
				t = &ETy{K: "String"}
			case 2:
				t = &ETy{K: "arr", Elem: &ETy{K: "String"}}
			default:
				t = &ETy{K: "Int"}
			}
			rv := ERefVar{Ty: t, V: g.val(t), Storage: r.Chance(30)}
			p.Refs = append(p.Refs, rv)
		}
	}
	nEv := 1 + r.Intn(3)
	if len(p.Refs) > 0 && nEv < 2 {
		nEv = 2
	}
	names := []string{"a", "b", "c", "d", "e"}
	for i := 0; i < nEv; i++ {
		e := EEventDecl{ID: fmt.Sprintf("E%d", i)}
		n := r.Intn(5)
		perm := []int{0, 1, 2, 3, 4}
		for k := 4; k > 0; k-- { // field names not in alphabetical order
			j := r.Intn(k + 1)
			perm[k], perm[j] = perm[j], perm[k]
		}
		g.evParam, g.allowRef = true, i > 0 // E0 stays free of references: functions emit it
		if g.allowRef && len(p.Refs) > 0 && n < 2 {
			n = 2 + r.Intn(3)
		}
		for j := 0; j < n; j++ {
			e.Params = append(e.Params, EParam{Name: names[perm[j]], Ty: g.ty(2, true)})
		}
		g.evParam, g.allowRef = false, false
		p.Events = append(p.Events, e)
	}
	nIf := 0
	if r.Chance(55) {
		nIf = 1 + r.Intn(4)
	}
	for i := 0; i < nIf; i++ {
		it := EIface{}
		for j := 0; j < i; j++ {
			if r.Chance(45) {
				it.Conforms = append(it.Conforms, j)
			}
		}
		if len(it.Conforms) > 1 && r.Bool() {
			it.Conforms[0], it.Conforms[len(it.Conforms)-1] = it.Conforms[len(it.Conforms)-1], it.Conforms[0]
		}
		if r.Chance(75) {
			it.HasEv = true
			n := r.Intn(3)
			for j := 0; j < n; j++ {
				dp := EDParam{Name: []string{"p", "q", "r"}[j]}
				if r.Chance(60) {
					dp.K, dp.F, dp.Ty = "field", 0, &ETy{K: "Int"}
				} else {
					dp.K = "lit"
					dp.Ty = &ETy{K: []string{"Int", "String", "Bool", "UInt8"}[r.Intn(4)]}
					dp.V = g.val(dp.Ty)
				}
				if r.Chance(25) {
					dp.Ty = &ETy{K: "opt", Elem: dp.Ty}
				}
				it.Destroy = append(it.Destroy, dp)
			}
			p.Forms["iface-destroy-event"] = true
		}
		p.Ifaces = append(p.Ifaces, it)
	}
	nRes := r.Intn(4)
	for i := 0; i < nRes; i++ {
		d := EResDecl{Inner: -1}
		nf := 1 + r.Intn(3)
		for j := 0; j < nf; j++ {
			d.Fields = append(d.Fields, EParam{Name: fmt.Sprintf("f%d", j), Ty: g.ty(1, true)})
		}
		if nIf > 0 && r.Chance(70) {
			for j := 0; j < nIf; j++ {
				if r.Chance(50) {
					d.Conforms = append(d.Conforms, j)
				}
			}
			if len(d.Conforms) > 1 && r.Bool() {
				d.Conforms[0], d.Conforms[len(d.Conforms)-1] = d.Conforms[len(d.Conforms)-1], d.Conforms[0]
			}
			if len(d.Conforms) > 0 {
				d.Fields[0].Ty = &ETy{K: "Int"} // the interfaces declare `var f0: Int`
				p.Forms["conforms"] = true
			}
		}
		if i > 0 && r.Chance(60) {
			d.Inner = r.Intn(i)
			p.Forms["nested"] = true
		}
		if r.Chance(75) {
			d.HasEv = true
			p.Forms["destroy-event"] = true
			n := r.Intn(4)
			perm := []int{0, 1, 2, 3, 4}
			for k := 4; k > 0; k-- {
				j := r.Intn(k + 1)
				perm[k], perm[j] = perm[j], perm[k]
			}
			for j := 0; j < n; j++ {
				dp := EDParam{Name: names[perm[j]]}
				switch {
				case d.Inner >= 0 && r.Chance(35):
					dp.K = "innerField"
					dp.F = r.Intn(len(p.Res[d.Inner].Fields))
					dp.Ty = p.Res[d.Inner].Fields[dp.F].Ty
					p.Forms["default-inner-field"] = true
				case r.Chance(65):
					dp.K = "field"
					dp.F = r.Intn(len(d.Fields))
					dp.Ty = d.Fields[dp.F].Ty
					p.Forms["default-field"] = true
				default:
					dp.K = "lit"
					dp.Ty = &ETy{K: []string{"Int", "String", "Bool", "UInt8", "Address"}[r.Intn(5)]}
					dp.V = g.val(dp.Ty)
				}
				if hasArr(dp.Ty) && !r.Chance(5) { // arrays are not valid default-destroy-event parameter types
					dp.K = "lit"
					dp.Ty = &ETy{K: []string{"Int", "String", "Bool", "UInt8", "Address"}[r.Intn(5)]}
					dp.V = g.val(dp.Ty)
				}
				if dp.Ty.K != "opt" && dp.Ty.K != "arr" && r.Chance(20) {
					dp.Ty = &ETy{K: "opt", Elem: dp.Ty}
					p.Forms["default-boxed"] = true
				}
				d.Destroy = append(d.Destroy, dp)
			}
		}
		p.Res = append(p.Res, d)
	}
	nFun := r.Intn(3)
	for i := 0; i < nFun; i++ {
		var f EFun
		for k := r.Intn(3); k > 0; k-- {
			f.Pre = append(f.Pre, g.emit(true))
		}
		for k := r.Intn(2); k > 0; k-- {
			f.Body = append(f.Body, g.emit(true))
		}
		for k := r.Intn(3); k > 0; k-- {
			f.Post = append(f.Post, g.emit(true))
		}
		if len(f.Pre)+len(f.Post) > 0 {
			p.Forms["emit-condition"] = true
		}
		p.Funs = append(p.Funs, f)
	}
	nSt := 2 + r.Intn(7)
	for i := 0; i < nSt; i++ {
		switch k := r.Intn(10); {
		case k < 3:
			p.Main = append(p.Main, EStmt{K: "emit", Emit: g.emit(false)})
		case k < 5 && nRes > 0:
			t := r.Intn(nRes)
			x := g.nextX
			g.nextX++
			p.Main = append(p.Main, EStmt{K: "create", X: x, R: g.rexp(t)})
			g.live[x] = t
		case k < 7 && len(g.live) > 0:
			x := g.pickLive()
			d := p.Res[g.live[x]]
			if d.Inner >= 0 && r.Bool() {
				f := r.Intn(len(p.Res[d.Inner].Fields))
				p.Main = append(p.Main, EStmt{K: "setinner", X: x, F: f, E: g.arg(p.Res[d.Inner].Fields[f].Ty, false)})
				p.Forms["set-inner"] = true
			} else {
				f := r.Intn(len(d.Fields))
				p.Main = append(p.Main, EStmt{K: "set", X: x, F: f, E: g.arg(d.Fields[f].Ty, false)})
				p.Forms["set"] = true
			}
		case k < 8 && len(g.live) > 0:
			x := g.pickLive()
			p.Main = append(p.Main, EStmt{K: "destroy", X: x})
			delete(g.live, x)
		case k < 9 && nFun > 0:
			p.Main = append(p.Main, EStmt{K: "call", F: r.Intn(nFun), E: g.exp(&ETy{K: "Int"}, false)})
		default:
			p.Main = append(p.Main, EStmt{K: "log", E: g.exp(&ETy{K: "Int"}, false)})
		}
	}
	for len(g.live) > 0 {
		x := g.pickLive()
		p.Main = append(p.Main, EStmt{K: "destroy", X: x})
		delete(g.live, x)
	}
	return p
}

func hasArr(t *ETy) bool {
	for t != nil {
		if t.K == "arr" {
			return true
		}
		t = t.Elem
	}
	return false
}

func (g *evGen) pickLive() int {
	xs := []int{}
	for x := range g.live {
		xs = append(xs, x)
	}
	for i := 1; i < len(xs); i++ {
		for j := i; j > 0 && xs[j] < xs[j-1]; j-- {
			xs[j], xs[j-1] = xs[j-1], xs[j]
		}
	}
	return xs[g.r.Intn(len(xs))]
}

func (p *EProgram) FormList() []string {
	return (&CProgram{Forms: p.Forms}).FormList()
}
