package l3sx

// Calculus of Verif.Model.Lang3.Purity (property C07).
//
// A program is assembled from a fixed frame and a random selection of body snippets for the method
// `S.target` (declared `view` or not).  Every snippet has a Cadence text and its encoding in the calculus.
// Function table of the model (indices fixed by the frame):
//   0 target   1 S.init (view initializer)   2 S.setN (impure)   3 S.getN (view)   4 otherView   5 otherImpure
//   6.. closures defined by snippets
// Depths: globals 0, parameters and locals of a function 1 (nested blocks 2), closure bodies 3.

import (
	"fmt"
	"strings"

	"verif/harness/internal/hx"
)

type vSnip struct {
	Name    string
	Src     string   // statements for the body of target
	SX      []string // statements of the calculus
	Closure string   // optional: model function entry `(fun view|impure D init? (stmts))` appended to the table
	Emits   int
}

const viewFrame = `access(all) event E(x: Int)
access(all) resource R {
  access(all) var n: Int
  view init() { self.n = 0 }
}
access(all) struct H {
  access(all) let ra: auth(Mutate) &[Int]
  access(all) let rs: &S
  view init(_ ra: auth(Mutate) &[Int], _ rs: &S) { self.ra = ra; self.rs = rs }
}
access(all) struct S {
  access(all) var n: Int
  access(all) var arr: [Int]
  view init() { self.n = 0; self.arr = [0, 0] }
  access(all) fun setN(_ v: Int) { self.n = v }
  access(all) view fun getN(): Int { return self.n }
  access(all) %s fun target(_ ps: S, _ prs: &S, _ pa: [Int], _ pra: auth(Mutate) &[Int], _ pi: Int, _ ph: H): Int {
    var li = 0
    var li2 = 1
    var ls = S()
    var la = [1, 2]
    let lrs = &ls as &S
%s    return li
  }
}
access(all) struct W {
  access(all) var ra: auth(Mutate) &[Int]
  access(all) var n: Int
  %s init(_ ra: auth(Mutate) &[Int]) {
    self.n = 0
    self.ra = ra
%s  }
}
access(all) view fun otherView(_ x: Int): Int { return x + 1 }
access(all) fun otherImpure(_ x: Int): Int { log(x); return x }
access(all) fun dump(_ a: S, _ b: S, _ c: [Int], _ d: [Int]): String {
  return a.n.toString().concat(",").concat(a.arr[0].toString()).concat(a.arr[1].toString()).concat(";")
    .concat(b.n.toString()).concat(",").concat(b.arr[0].toString()).concat(b.arr[1].toString()).concat(";")
    .concat(c[0].toString()).concat(c[1].toString()).concat(";").concat(d[0].toString()).concat(d[1].toString())
}
access(all) fun main(): [String] {
  var recv = S()
  var other = S()
  var arr1 = [7, 8]
  var arr2 = [5, 6]
  var arr3 = [3, 4]
  var arr4 = [1, 2]
  let h = H(&arr4 as auth(Mutate) &[Int], &other as &S)
  let before = dump(recv, other, arr1, arr2).concat(arr4[0].toString()).concat(arr4[1].toString()).concat("#").concat(arr3[0].toString())
  recv.target(other, &other as &S, arr1, &arr2 as auth(Mutate) &[Int], 3, h)
  let w = W(&arr3 as auth(Mutate) &[Int])
  let after = dump(recv, other, arr1, arr2).concat(arr4[0].toString()).concat(arr4[1].toString()).concat("#").concat(arr3[0].toString())
  return [before, after]
}
`

// tgt(root, rootKind, steps...): steps outermost first, `m:K` = member access on an expression of kind K,
// `i:K:E` = index access on an expression of kind K with element kind E
func tgt(root, rootKind string, steps ...string) string {
	parts := []string{"target", root, rootKind}
	for _, st := range steps {
		f := strings.Split(st, ":")
		if f[0] == "m" {
			parts = append(parts, "(m "+f[1]+")")
		} else {
			parts = append(parts, "(i "+f[1]+" "+f[2]+")")
		}
	}
	return "(" + strings.Join(parts, " ") + ")"
}

var vSnips = []vSnip{
	{Name: "local-int", Src: "li = 5", SX: []string{"(assign " + tgt("(var 1)", "value") + ")"}},
	{Name: "local-struct-member", Src: "ls.n = 5", SX: []string{"(assign " + tgt("(var 1)", "value", "m:value") + ")"}},
	{Name: "local-struct-array-elem", Src: "ls.arr[0] = 5", SX: []string{"(assign " + tgt("(var 1)", "value", "i:value:value", "m:value") + ")"}},
	{Name: "local-array-elem", Src: "la[0] = 5", SX: []string{"(assign " + tgt("(var 1)", "value", "i:value:value") + ")"}},
	{Name: "param-struct-member", Src: "ps.n = 5", SX: []string{"(assign " + tgt("(var 1)", "value", "m:value") + ")"}},
	{Name: "param-array-elem", Src: "pa[0] = 5", SX: []string{"(assign " + tgt("(var 1)", "value", "i:value:value") + ")"}},
	{Name: "param-ref-member", Src: "prs.n = 5", SX: []string{"(assign " + tgt("(var 1)", "reference", "m:reference") + ")"}},
	{Name: "local-ref-member", Src: "lrs.n = 5", SX: []string{"(assign " + tgt("(var 1)", "reference", "m:reference") + ")"}},
	{Name: "param-ref-array-elem", Src: "pra[0] = 5", SX: []string{"(assign " + tgt("(var 1)", "reference", "i:reference:value") + ")"}},
	{Name: "param-struct-reffield-index", Src: "ph.ra[0] = 9", SX: []string{"(assign " + tgt("(var 1)", "value", "i:reference:value", "m:value") + ")"}},
	{Name: "param-struct-reffield-member", Src: "ph.rs.n = 5", SX: []string{"(assign " + tgt("(var 1)", "value", "m:reference", "m:value") + ")"}},
	{Name: "local-copy-struct-reffield-index", Src: "var lh = ph\n    lh.ra[1] = 9", SX: []string{"(declare)", "(assign " + tgt("(var 1)", "value", "i:reference:value", "m:value") + ")"}},
	{Name: "swap-reffield-index", Src: "ph.ra[0] <-> li", SX: []string{"(swap " + tgt("(var 1)", "value", "i:reference:value", "m:value") + " " + tgt("(var 1)", "value") + ")"}},
	{Name: "self-member", Src: "self.n = 5", SX: []string{"(assign " + tgt("(self)", "value", "m:value") + ")"}},
	{Name: "self-array-elem", Src: "self.arr[1] = 5", SX: []string{"(assign " + tgt("(self)", "value", "i:value:value", "m:value") + ")"}},
	{Name: "nested-block-local", Src: "if pi > 0 { var z = 1; z = 2; li = z }", SX: []string{"(declare)", "(assign " + tgt("(var 2)", "value") + ")", "(assign " + tgt("(var 1)", "value") + ")"}},
	{Name: "swap-locals", Src: "li <-> li2", SX: []string{"(swap " + tgt("(var 1)", "value") + " " + tgt("(var 1)", "value") + ")"}},
	{Name: "swap-local-param-members", Src: "ls.n <-> ps.n", SX: []string{"(swap " + tgt("(var 1)", "value", "m:value") + " " + tgt("(var 1)", "value", "m:value") + ")"}},
	{Name: "swap-through-ref", Src: "ls.n <-> prs.n", SX: []string{"(swap " + tgt("(var 1)", "value", "m:value") + " " + tgt("(var 1)", "reference", "m:reference") + ")"}},
	{Name: "swap-array-elems-ref", Src: "pra[0] <-> pra[1]", SX: []string{"(swap " + tgt("(var 1)", "reference", "i:reference:value") + " " + tgt("(var 1)", "reference", "i:reference:value") + ")"}},
	{Name: "call-impure-method-on-local", Src: "ls.setN(5)", SX: []string{"(callFn 2)"}},
	{Name: "call-impure-method-on-ref", Src: "prs.setN(5)", SX: []string{"(callFn 2)"}},
	{Name: "call-view-method", Src: "li = prs.getN()", SX: []string{"(callFn 3)", "(assign " + tgt("(var 1)", "value") + ")"}},
	{Name: "call-view-global", Src: "li = otherView(pi)", SX: []string{"(callFn 4)", "(assign " + tgt("(var 1)", "value") + ")"}},
	{Name: "call-impure-global", Src: "li = otherImpure(pi)", SX: []string{"(callFn 5)", "(assign " + tgt("(var 1)", "value") + ")"}},
	{Name: "construct-struct", Src: "ls = S()", SX: []string{"(callFn 1)", "(assign " + tgt("(var 1)", "value") + ")"}},
	{Name: "builtin-append-local", Src: "la.append(5)", SX: []string{"(callBuiltin impure (fresh))"}},
	{Name: "builtin-append-ref", Src: "pra.append(5)", SX: []string{"(callBuiltin impure (pre))"}},
	{Name: "builtin-remove-ref", Src: "li = pra.removeFirst()", SX: []string{"(callBuiltin impure (pre))", "(assign " + tgt("(var 1)", "value") + ")"}},
	{Name: "builtin-contains", Src: "if pra.contains(5) { li = 1 }", SX: []string{"(callBuiltin view ())", "(assign " + tgt("(var 1)", "value") + ")"}},
	{Name: "builtin-length-concat", Src: "li = pa.concat(la).length", SX: []string{"(callBuiltin view ())", "(assign " + tgt("(var 1)", "value") + ")"}},
	{Name: "builtin-log", Src: "log(pi)", SX: []string{"(callBuiltin impure ())"}},
	{Name: "builtin-tostring", Src: "let str = pi.toString()", SX: []string{"(callBuiltin view ())", "(declare)"}},
	{Name: "storage-save", Src: "getAuthAccount<auth(Storage) &Account>(0x1).storage.save(pi, to: /storage/x)", SX: []string{"(callBuiltin view ())", "(callBuiltin impure (storage))"}},
	{Name: "storage-check", Src: "if getAuthAccount<auth(Storage) &Account>(0x1).storage.check<Int>(from: /storage/x) { li = 1 }", SX: []string{"(callBuiltin view ())", "(callBuiltin view ())", "(assign " + tgt("(var 1)", "value") + ")"}},
	{Name: "storage-borrow", Src: "let br = getAuthAccount<auth(Storage) &Account>(0x1).storage.borrow<&Int>(from: /storage/x)", SX: []string{"(callBuiltin view ())", "(callBuiltin view ())", "(declare)"}},
	{Name: "storage-load", Src: "let ld = getAuthAccount<auth(Storage) &Account>(0x1).storage.load<Int>(from: /storage/x)", SX: []string{"(callBuiltin view ())", "(callBuiltin impure (storage))", "(declare)"}},
	{Name: "destroy-new-resource", Src: "let tmp <- create R()\n    destroy tmp", SX: []string{"(callBuiltin view ())", "(declare)", "(destroy)"}},
	{Name: "emit", Src: "emit E(x: pi)", SX: []string{"(emit)"}, Emits: 1},
	{Name: "reference-to-local", Src: "let rl = &la as auth(Mutate) &[Int]", SX: []string{"(declare)"}},
	{Name: "reference-to-local-write", Src: "let rl2 = &la as auth(Mutate) &[Int]\n    rl2[0] = 9", SX: []string{"(declare)", "(assign " + tgt("(var 1)", "reference", "i:reference:value") + ")"}},
	{Name: "cast", Src: "let cs = (ps as AnyStruct) as? S", SX: []string{"(declare)"}},
	{Name: "view-closure-own-local", Src: "let c1 = view fun (): Int { var z = 1; z = 2; return z }\n    li = c1()",
		SX: []string{"(declare)", "(callFn %d)", "(assign " + tgt("(var 1)", "value") + ")"}, Closure: "(fun view 3 (declare) (assign " + tgt("(var 3)", "value") + "))"},
	{Name: "view-closure-captured-write", Src: "let c2 = view fun (): Int { li = 7; return 1 }\n    li2 = c2()",
		SX: []string{"(declare)", "(callFn %d)", "(assign " + tgt("(var 1)", "value") + ")"}, Closure: "(fun view 3 (assign " + tgt("(var 1)", "value") + "))"},
	{Name: "impure-closure-defined-and-called", Src: "let c3 = fun (): Int { li = 7; return 1 }\n    li2 = c3()",
		SX: []string{"(declare)", "(callFn %d)", "(assign " + tgt("(var 1)", "value") + ")"}, Closure: "(fun impure 3 (assign " + tgt("(var 1)", "value") + "))"},
	{Name: "impure-closure-only-defined", Src: "let c4 = fun (): Int { pra[0] = 7; return 1 }",
		SX: []string{"(declare)"}, Closure: "(fun impure 3 (assign " + tgt("(var 1)", "reference", "i:reference:value") + "))"},
}

// snippets for the body of the initializer of W (after `self.n = 0; self.ra = ra`)
var vInitSnips = []vSnip{
	{Name: "init-self-field", Src: "self.n = 1", SX: []string{"(assign " + tgt("(self)", "value", "m:value") + ")"}},
	{Name: "init-write-through-self-ref", Src: "self.ra[0] = 9", SX: []string{"(assign " + tgt("(self)", "value", "i:reference:value", "m:value") + ")"}},
	{Name: "init-write-through-param-ref", Src: "ra[0] = 9", SX: []string{"(assign " + tgt("(var 1)", "reference", "i:reference:value") + ")"}},
	{Name: "init-append-through-self-ref", Src: "self.ra.append(1)", SX: []string{"(callBuiltin impure (pre))"}},
}

type VProgram struct {
	Src, SXs string
	Forms    []string
	Emits    int
	View     bool
}

// GenView assembles one program.
func GenView(r *hx.Rng) *VProgram {
	view := r.Chance(88)
	initView := r.Chance(80)
	n := 1 + r.Intn(4)
	var body, initBody strings.Builder
	var stmts, closures, forms []string
	emits := 0
	nextFn := 7
	used := map[int]bool{}
	for i := 0; i < n; i++ {
		k := r.Intn(len(vSnips))
		if used[k] {
			continue
		}
		used[k] = true
		sn := vSnips[k]
		body.WriteString("    " + sn.Src + "\n")
		for _, s := range sn.SX {
			if strings.Contains(s, "%d") {
				s = fmt.Sprintf(s, nextFn)
			}
			stmts = append(stmts, s)
		}
		if sn.Closure != "" {
			closures = append(closures, sn.Closure)
			nextFn++
		}
		emits += sn.Emits
		forms = append(forms, sn.Name)
	}
	var initStmts []string
	initStmts = append(initStmts, "(assign "+tgt("(self)", "value", "m:value")+")", "(assign "+tgt("(self)", "value", "m:value")+")")
	if r.Chance(60) {
		sn := vInitSnips[r.Intn(len(vInitSnips))]
		initBody.WriteString("    " + sn.Src + "\n")
		initStmts = append(initStmts, sn.SX...)
		forms = append(forms, sn.Name)
	}
	pur := ""
	p := "impure"
	if view {
		pur, p = "view", "view"
	}
	ipur, ip := "", "impure"
	if initView {
		ipur, ip = "view", "view"
	}
	src := fmt.Sprintf(viewFrame, pur, body.String(), ipur, initBody.String())
	// frame statements of target: five local declarations (S() is a call of the view initializer), return
	frame := []string{"(declare)", "(declare)", "(callFn 1)", "(declare)", "(declare)", "(declare)"}
	sx := "(viewprog" +
		" (fun " + p + " 1 " + strings.Join(append(frame, stmts...), " ") + ")" +
		" (fun view 1 init (assign " + tgt("(self)", "value", "m:value") + ") (assign " + tgt("(self)", "value", "m:value") + "))" +
		" (fun impure 1 (assign " + tgt("(self)", "value", "m:value") + "))" +
		" (fun view 1)" +
		" (fun view 1 (callBuiltin view ()))" +
		" (fun impure 1 (callBuiltin impure ()))" +
		" (fun " + ip + " 1 init " + strings.Join(initStmts, " ") + ")"
	for _, c := range closures {
		sx += " " + c
	}
	sx += ")"
	return &VProgram{Src: src, SXs: sx, Forms: forms, Emits: emits, View: view}
}
