// Package l3sx holds, for each focused core calculus of the language layer L3 (properties C10, C48, C49,
// C07), the Go mirror of the calculus' abstract syntax, a seeded generator, the renderer to Cadence source
// (what the real engines run) and the serializer to the S-expression read by the Lean model
// (lean/Verif/Model/Lang3/*).
package l3sx

// Calculus of Verif.Model.Lang3.Conditions (property C10).

import (
	"fmt"
	"strings"

	"verif/harness/internal/hx"
)

type CIExp struct {
	Op   string // lit x y a b result before add sub mul div
	N    int64
	L, R *CIExp
}

type CBExp struct {
	Op     string // tt ff lt le eq and or not
	IL, IR *CIExp
	BL, BR *CBExp
}

type CCond struct {
	Emit *CIExp
	Test *CBExp
}

type CStmt struct {
	Op     string // skip seq setA setB log ret ite callA
	S, T   *CStmt
	E, E2  *CIExp
	C      *CBExp
	Callee string
}

type CConds struct{ Pre, Post []CCond }

type CIFun struct {
	Name  string
	Conds CConds
	Dflt  *CStmt
}

type CIface struct {
	Conforms []int
	Funs     []CIFun
}

type CCFun struct {
	Name  string
	Conds CConds
	Body  *CStmt
}

type CCall struct {
	Fn   string
	X, Y int64
}

type CProgram struct {
	Ifaces   []CIface
	Conforms []int
	A0, B0   int64
	Funs     []CCFun
	Main     []CCall
	Forms    map[string]bool
}

// ---- S-expression ----

func (e *CIExp) SX() string {
	switch e.Op {
	case "lit":
		return fmt.Sprintf("(lit %d)", e.N)
	case "x", "y", "a", "b", "result":
		return "(" + e.Op + ")"
	case "before":
		return "(before " + e.L.SX() + ")"
	}
	return "(" + e.Op + " " + e.L.SX() + " " + e.R.SX() + ")"
}

func (e *CBExp) SX() string {
	switch e.Op {
	case "tt", "ff":
		return "(" + e.Op + ")"
	case "lt", "le", "eq":
		return "(" + e.Op + " " + e.IL.SX() + " " + e.IR.SX() + ")"
	case "not":
		return "(not " + e.BL.SX() + ")"
	}
	return "(" + e.Op + " " + e.BL.SX() + " " + e.BR.SX() + ")"
}

func condsSX(head string, cs []CCond) string {
	parts := []string{head}
	for _, c := range cs {
		if c.Emit != nil {
			parts = append(parts, "(emit "+c.Emit.SX()+")")
		} else {
			parts = append(parts, "(test "+c.Test.SX()+")")
		}
	}
	return "(" + strings.Join(parts, " ") + ")"
}

func (s *CStmt) SX() string {
	switch s.Op {
	case "skip":
		return "(skip)"
	case "seq":
		return "(seq " + s.S.SX() + " " + s.T.SX() + ")"
	case "setA", "setB", "log", "ret":
		return "(" + s.Op + " " + s.E.SX() + ")"
	case "ite":
		return "(ite " + s.C.SX() + " " + s.S.SX() + " " + s.T.SX() + ")"
	case "callA":
		return "(callA " + s.Callee + " " + s.E.SX() + " " + s.E2.SX() + ")"
	}
	panic("stmt op " + s.Op)
}

func intsSX(head string, xs []int) string {
	parts := []string{head}
	for _, x := range xs {
		parts = append(parts, fmt.Sprint(x))
	}
	return "(" + strings.Join(parts, " ") + ")"
}

func (p *CProgram) SX() string {
	var b strings.Builder
	b.WriteString("(condprog")
	for _, it := range p.Ifaces {
		b.WriteString(" (iface " + intsSX("conforms", it.Conforms))
		for _, f := range it.Funs {
			b.WriteString(" (ifun " + f.Name + " " + condsSX("pre", f.Conds.Pre) + " " + condsSX("post", f.Conds.Post))
			if f.Dflt != nil {
				b.WriteString(" (default " + f.Dflt.SX() + ")")
			}
			b.WriteString(")")
		}
		b.WriteString(")")
	}
	b.WriteString(" (comp " + intsSX("conforms", p.Conforms) + fmt.Sprintf(" %d %d", p.A0, p.B0))
	for _, f := range p.Funs {
		b.WriteString(" (cfun " + f.Name + " " + condsSX("pre", f.Conds.Pre) + " " + condsSX("post", f.Conds.Post) + " " + f.Body.SX() + ")")
	}
	b.WriteString(") (main")
	for _, c := range p.Main {
		b.WriteString(fmt.Sprintf(" (call %s %d %d)", c.Fn, c.X, c.Y))
	}
	b.WriteString("))")
	return b.String()
}

// ---- Cadence source ----

func (e *CIExp) Src() string {
	switch e.Op {
	case "lit":
		if e.N < 0 {
			return fmt.Sprintf("(%d)", e.N)
		}
		return fmt.Sprint(e.N)
	case "x", "y", "result":
		return e.Op
	case "a", "b":
		return "self." + e.Op
	case "before":
		return "before(" + e.L.Src() + ")"
	}
	op := map[string]string{"add": "+", "sub": "-", "mul": "*", "div": "/"}[e.Op]
	return "(" + e.L.Src() + " " + op + " " + e.R.Src() + ")"
}

func (e *CBExp) Src() string {
	switch e.Op {
	case "tt":
		return "true"
	case "ff":
		return "false"
	case "lt", "le", "eq":
		op := map[string]string{"lt": "<", "le": "<=", "eq": "=="}[e.Op]
		return "(" + e.IL.Src() + " " + op + " " + e.IR.Src() + ")"
	case "not":
		return "(!" + e.BL.Src() + ")"
	case "and":
		return "(" + e.BL.Src() + " && " + e.BR.Src() + ")"
	}
	return "(" + e.BL.Src() + " || " + e.BR.Src() + ")"
}

func condsSrc(ind, kw string, cs []CCond) string {
	if len(cs) == 0 {
		return ""
	}
	var b strings.Builder
	b.WriteString(ind + kw + " {\n")
	for _, c := range cs {
		if c.Emit != nil {
			b.WriteString(ind + "  emit E(id: " + c.Emit.Src() + ")\n")
		} else {
			b.WriteString(ind + "  " + c.Test.Src() + "\n")
		}
	}
	b.WriteString(ind + "}\n")
	return b.String()
}

func (s *CStmt) Src(ind string, b *strings.Builder) {
	switch s.Op {
	case "skip":
	case "seq":
		s.S.Src(ind, b)
		s.T.Src(ind, b)
	case "setA":
		b.WriteString(ind + "self.a = " + s.E.Src() + "\n")
	case "setB":
		b.WriteString(ind + "self.b = " + s.E.Src() + "\n")
	case "log":
		b.WriteString(ind + "log(" + s.E.Src() + ")\n")
	case "ret":
		b.WriteString(ind + "return " + s.E.Src() + "\n")
	case "ite":
		b.WriteString(ind + "if " + s.C.Src() + " {\n")
		s.S.Src(ind+"  ", b)
		b.WriteString(ind + "} else {\n")
		s.T.Src(ind+"  ", b)
		b.WriteString(ind + "}\n")
	case "callA":
		b.WriteString(ind + "self.a = self." + s.Callee + "(" + s.E.Src() + ", " + s.E2.Src() + ")\n")
	}
}

func funSrc(name string, c CConds, body *CStmt) string {
	var b strings.Builder
	b.WriteString("  access(all) fun " + name + "(_ x: Int, _ y: Int): Int")
	if len(c.Pre) == 0 && len(c.Post) == 0 && body == nil {
		b.WriteString("\n")
		return b.String()
	}
	b.WriteString(" {\n")
	b.WriteString(condsSrc("    ", "pre", c.Pre))
	b.WriteString(condsSrc("    ", "post", c.Post))
	if body != nil {
		body.Src("    ", &b)
	}
	b.WriteString("  }\n")
	return b.String()
}

func confSrc(cs []int) string {
	if len(cs) == 0 {
		return ""
	}
	parts := make([]string, len(cs))
	for i, c := range cs {
		parts[i] = fmt.Sprintf("I%d", c)
	}
	return ": " + strings.Join(parts, ", ")
}

func (p *CProgram) Src() string {
	var b strings.Builder
	b.WriteString("access(all) event E(id: Int)\n")
	for i, it := range p.Ifaces {
		b.WriteString(fmt.Sprintf("access(all) struct interface I%d%s {\n", i, confSrc(it.Conforms)))
		b.WriteString("  access(all) var a: Int\n  access(all) var b: Int\n")
		for _, f := range it.Funs {
			b.WriteString(funSrc(f.Name, f.Conds, f.Dflt))
		}
		b.WriteString("}\n")
	}
	b.WriteString("access(all) struct S" + confSrc(p.Conforms) + " {\n")
	b.WriteString("  access(all) var a: Int\n  access(all) var b: Int\n")
	b.WriteString(fmt.Sprintf("  init() { self.a = %s; self.b = %s }\n", (&CIExp{Op: "lit", N: p.A0}).Src(), (&CIExp{Op: "lit", N: p.B0}).Src()))
	for _, f := range p.Funs {
		b.WriteString(funSrc(f.Name, f.Conds, f.Body))
	}
	b.WriteString("}\naccess(all) fun main() {\n  var s = S()\n")
	for _, c := range p.Main {
		b.WriteString(fmt.Sprintf("  log(s.%s(%s, %s))\n", c.Fn, (&CIExp{Op: "lit", N: c.X}).Src(), (&CIExp{Op: "lit", N: c.Y}).Src()))
	}
	b.WriteString("}\n")
	return b.String()
}

// ---- generator ----

type condGen struct {
	r     *hx.Rng
	forms map[string]bool
	id    int64
}

func (g *condGen) lit() *CIExp {
	return &CIExp{Op: "lit", N: []int64{0, 1, 2, 3, 5, -1, -2, 7}[g.r.Intn(8)]}
}

// integer expression; post = result/before allowed; inBefore = inside a before(...)
func (g *condGen) iexp(depth int, post, inBefore bool) *CIExp {
	if depth <= 0 || g.r.Chance(35) {
		switch g.r.Intn(7) {
		case 0:
			return &CIExp{Op: "x"}
		case 1:
			return &CIExp{Op: "y"}
		case 2:
			return &CIExp{Op: "a"}
		case 3:
			return &CIExp{Op: "b"}
		case 4:
			if post && !inBefore {
				g.forms["result"] = true
				return &CIExp{Op: "result"}
			}
		}
		return g.lit()
	}
	if post && g.r.Chance(30) && (!inBefore || g.r.Chance(15)) {
		g.forms["before"] = true
		if inBefore {
			g.forms["before-nested"] = true
		}
		return &CIExp{Op: "before", L: g.iexp(depth-1, post, true)}
	}
	op := []string{"add", "sub", "mul", "add", "sub", "div"}[g.r.Intn(6)]
	if op == "div" {
		g.forms["div"] = true
	}
	return &CIExp{Op: op, L: g.iexp(depth-1, post, inBefore), R: g.iexp(depth-1, post, inBefore)}
}

func (g *condGen) bexp(depth int, post bool) *CBExp {
	if depth <= 0 || g.r.Chance(55) {
		switch g.r.Intn(10) {
		case 0:
			return &CBExp{Op: "tt"}
		case 1:
			g.forms["const-false"] = true
			return &CBExp{Op: "ff"}
		}
		op := []string{"lt", "le", "eq"}[g.r.Intn(3)]
		return &CBExp{Op: op, IL: g.iexp(2, post, false), IR: g.iexp(2, post, false)}
	}
	switch g.r.Intn(3) {
	case 0:
		return &CBExp{Op: "not", BL: g.bexp(depth-1, post)}
	case 1:
		return &CBExp{Op: "and", BL: g.bexp(depth-1, post), BR: g.bexp(depth-1, post)}
	}
	return &CBExp{Op: "or", BL: g.bexp(depth-1, post), BR: g.bexp(depth-1, post)}
}

// a test that is very likely true (so that runs get past it): tautology shapes over the state
func (g *condGen) likelyTrue(post bool) *CBExp {
	e := g.iexp(1, post, false)
	switch g.r.Intn(4) {
	case 0:
		return &CBExp{Op: "le", IL: e, IR: e}
	case 1:
		return &CBExp{Op: "eq", IL: e, IR: e}
	case 2:
		return &CBExp{Op: "or", BL: &CBExp{Op: "tt"}, BR: g.bexp(1, post)}
	}
	if post {
		g.forms["before"] = true
		v := []string{"x", "y"}[g.r.Intn(2)]
		return &CBExp{Op: "eq", IL: &CIExp{Op: "before", L: &CIExp{Op: v}}, IR: &CIExp{Op: v}}
	}
	return &CBExp{Op: "tt"}
}

func (g *condGen) conds(post bool, strict int) []CCond {
	n := g.r.Intn(3)
	if n == 0 && g.r.Bool() {
		return nil
	}
	var cs []CCond
	// always announce the block by an emit with a fresh id
	g.id++
	cs = append(cs, CCond{Emit: &CIExp{Op: "lit", N: g.id}})
	for i := 0; i < n; i++ {
		switch {
		case g.r.Chance(20):
			cs = append(cs, CCond{Emit: g.iexp(1, post, false)})
		case g.r.Chance(strict):
			cs = append(cs, CCond{Test: g.bexp(2, post)})
		default:
			cs = append(cs, CCond{Test: g.likelyTrue(post)})
		}
	}
	return cs
}

func (g *condGen) stmt(depth int, names []string, self string) *CStmt {
	switch g.r.Intn(8) {
	case 0:
		return &CStmt{Op: "setA", E: g.iexp(2, false, false)}
	case 1:
		return &CStmt{Op: "setB", E: g.iexp(2, false, false)}
	case 2:
		return &CStmt{Op: "log", E: g.iexp(1, false, false)}
	case 3:
		if depth > 0 {
			g.forms["if"] = true
			return &CStmt{Op: "ite", C: g.bexp(1, false), S: g.block(depth-1, names, self, false), T: g.block(depth-1, names, self, false)}
		}
	case 4:
		// nested call to a function declared earlier (no recursion cycles; bounded depth)
		var cands []string
		for _, n := range names {
			if n < self {
				cands = append(cands, n)
			}
		}
		if len(cands) > 0 {
			g.forms["nested-call"] = true
			return &CStmt{Op: "callA", Callee: cands[g.r.Intn(len(cands))], E: g.iexp(1, false, false), E2: g.iexp(1, false, false)}
		}
	case 5:
		if depth > 0 && g.r.Chance(30) {
			g.forms["early-return"] = true
			return &CStmt{Op: "ite", C: g.bexp(1, false), S: &CStmt{Op: "ret", E: g.iexp(2, false, false)}, T: &CStmt{Op: "skip"}}
		}
	}
	return &CStmt{Op: "setA", E: &CIExp{Op: "add", L: &CIExp{Op: "a"}, R: g.lit()}}
}

func (g *condGen) block(depth int, names []string, self string, mustReturn bool) *CStmt {
	n := 1 + g.r.Intn(3)
	var s *CStmt
	for i := 0; i < n; i++ {
		t := g.stmt(depth, names, self)
		if s == nil {
			s = t
		} else {
			s = &CStmt{Op: "seq", S: s, T: t}
		}
	}
	if mustReturn {
		s = &CStmt{Op: "seq", S: s, T: &CStmt{Op: "ret", E: g.iexp(2, false, false)}}
	}
	return s
}

// GenCond generates one program: a DAG of up to 5 struct interfaces (diamonds likely), a composite
// conforming to some of them, functions f,g,h with conditions at several levels, defaults, overrides.
// The shape is chosen first (who declares what, where the defaults are) following the checker's rules
// (at most one default per function among related interfaces; a declaration below a default needs
// conditions; the composite implements what has no default), with a small rate of deliberate breaches.
func GenCond(r *hx.Rng) *CProgram {
	g := &condGen{r: r, forms: map[string]bool{}}
	p := &CProgram{Forms: g.forms}
	names := []string{"f", "g", "h"}[:1+r.Intn(3)]
	strict := []int{0, 10, 40}[r.Intn(3)]
	breach := r.Chance(8)
	nIf := r.Intn(6)
	closure := make([]map[int]bool, nIf) // transitive conformances of each interface
	type decl struct{ declared, dflt bool }
	shape := make([]map[string]*decl, nIf)
	hasDefault := map[string]bool{}
	for i := 0; i < nIf; i++ {
		var it CIface
		closure[i] = map[int]bool{}
		for j := 0; j < i; j++ {
			if r.Chance(45) {
				it.Conforms = append(it.Conforms, j)
				closure[i][j] = true
				for k := range closure[j] {
					closure[i][k] = true
				}
			}
		}
		if len(it.Conforms) > 1 && r.Bool() { // not always ascending
			it.Conforms[0], it.Conforms[len(it.Conforms)-1] = it.Conforms[len(it.Conforms)-1], it.Conforms[0]
		}
		shape[i] = map[string]*decl{}
		for _, n := range names {
			if !r.Chance(65) {
				continue
			}
			d := &decl{declared: true}
			if r.Chance(30) && (!hasDefault[n] || breach) {
				d.dflt = true
				hasDefault[n] = true
				g.forms["default"] = true
			}
			shape[i][n] = d
		}
		p.Ifaces = append(p.Ifaces, it)
	}
	sClosure := map[int]bool{}
	for j := 0; j < nIf; j++ {
		if r.Chance(50) {
			p.Conforms = append(p.Conforms, j)
			sClosure[j] = true
			for k := range closure[j] {
				sClosure[k] = true
			}
		}
	}
	if len(p.Conforms) > 1 && r.Bool() {
		p.Conforms[0], p.Conforms[len(p.Conforms)-1] = p.Conforms[len(p.Conforms)-1], p.Conforms[0]
	}
	// the composite's functions
	own := map[string]bool{}
	avail := []string{}
	for _, n := range names {
		declared, dflt := false, false
		for i := range sClosure {
			if d := shape[i][n]; d != nil {
				declared = true
				dflt = dflt || d.dflt
			}
		}
		switch {
		case dflt && r.Chance(60):
			g.forms["uses-default"] = true
			avail = append(avail, n)
		case declared || r.Chance(70) || (len(avail) == 0 && n == names[len(names)-1]):
			if dflt {
				g.forms["override-default"] = true
			}
			own[n] = true
			avail = append(avail, n)
		}
	}
	// bodies and conditions
	for i := range p.Ifaces {
		var declaredHere []string
		for _, n := range names {
			if shape[i][n] != nil {
				declaredHere = append(declaredHere, n)
			}
		}
		for _, n := range names {
			d := shape[i][n]
			if d == nil {
				continue
			}
			f := CIFun{Name: n}
			below := false // a default exists above this declaration
			for k := range closure[i] {
				if dd := shape[k][n]; dd != nil && dd.dflt {
					below = true
				}
			}
			if r.Chance(80) || (below && !breach) {
				f.Conds.Pre = g.conds(false, strict)
				f.Conds.Post = g.conds(true, strict)
				if below && len(f.Conds.Pre) == 0 && len(f.Conds.Post) == 0 {
					g.id++
					f.Conds.Pre = []CCond{{Emit: &CIExp{Op: "lit", N: g.id}}}
				}
			}
			if d.dflt {
				f.Dflt = g.block(1, declaredHere, n, true)
			}
			p.Ifaces[i].Funs = append(p.Ifaces[i].Funs, f)
		}
	}
	p.A0, p.B0 = g.lit().N, g.lit().N
	for _, n := range names {
		if !own[n] {
			continue
		}
		f := CCFun{Name: n, Body: g.block(2, avail, n, true)}
		if r.Chance(70) {
			f.Conds.Pre = g.conds(false, strict)
			f.Conds.Post = g.conds(true, strict)
		}
		p.Funs = append(p.Funs, f)
	}
	nCalls := 1 + r.Intn(3)
	for i := 0; i < nCalls; i++ {
		p.Main = append(p.Main, CCall{Fn: avail[r.Intn(len(avail))], X: g.lit().N, Y: g.lit().N})
	}
	if len(sClosure) >= 3 {
		g.forms["conf>=3"] = true
	}
	return p
}


// ---- multi-program rendering (interfaces and composite in different contracts) ----

func confSrcQ(cs []int, split int, inB bool) string {
	if len(cs) == 0 {
		return ""
	}
	parts := make([]string, len(cs))
	for i, c := range cs {
		if inB && c < split {
			parts[i] = fmt.Sprintf("CA.I%d", c)
		} else {
			parts[i] = fmt.Sprintf("I%d", c)
		}
	}
	return ": " + strings.Join(parts, ", ")
}

func (p *CProgram) ifaceSrc(b *strings.Builder, i int, split int, inB bool) {
	it := p.Ifaces[i]
	b.WriteString(fmt.Sprintf("access(all) struct interface I%d%s {\n", i, confSrcQ(it.Conforms, split, inB)))
	b.WriteString("  access(all) var a: Int\n  access(all) var b: Int\n")
	for _, f := range it.Funs {
		b.WriteString(funSrc(f.Name, f.Conds, f.Dflt))
	}
	b.WriteString("}\n")
}

// SrcMulti renders the program as two contracts and a script: contract CA (at address addrA) declares
// the interfaces I0..I(split-1), contract CB imports CA and declares the remaining interfaces and the
// composite S; the script imports CB (from addrB) and runs the calls of main.  Each contract has its own
// event E (an imported event cannot be emitted).  The program (and so its S-expression) is the same.
func (p *CProgram) SrcMulti(split int, addrA, addrB string) (srcA, srcB, script string) {
	if split > len(p.Ifaces) {
		split = len(p.Ifaces)
	}
	var a, b, m strings.Builder
	a.WriteString("access(all) contract CA {\naccess(all) event E(id: Int)\n")
	for i := 0; i < split; i++ {
		p.ifaceSrc(&a, i, split, false)
	}
	a.WriteString("}\n")
	b.WriteString("import CA from " + addrA + "\naccess(all) contract CB {\naccess(all) event E(id: Int)\n")
	for i := split; i < len(p.Ifaces); i++ {
		p.ifaceSrc(&b, i, split, true)
	}
	b.WriteString("access(all) struct S" + confSrcQ(p.Conforms, split, true) + " {\n")
	b.WriteString("  access(all) var a: Int\n  access(all) var b: Int\n")
	b.WriteString(fmt.Sprintf("  init() { self.a = %s; self.b = %s }\n", (&CIExp{Op: "lit", N: p.A0}).Src(), (&CIExp{Op: "lit", N: p.B0}).Src()))
	for _, f := range p.Funs {
		b.WriteString(funSrc(f.Name, f.Conds, f.Body))
	}
	b.WriteString("}\n}\n")
	m.WriteString("import CB from " + addrB + "\naccess(all) fun main() {\n  var s = CB.S()\n")
	for _, c := range p.Main {
		m.WriteString(fmt.Sprintf("  log(s.%s(%s, %s))\n", c.Fn, (&CIExp{Op: "lit", N: c.X}).Src(), (&CIExp{Op: "lit", N: c.Y}).Src()))
	}
	m.WriteString("}\n")
	return a.String(), b.String(), m.String()
}

// ---- directed family: inherited and own post-conditions both capture `before` values ----

func (g *condGen) beforeSub() *CIExp {
	switch g.r.Intn(7) {
	case 0, 1:
		return &CIExp{Op: "a"}
	case 2, 3:
		return &CIExp{Op: "b"}
	case 4:
		return &CIExp{Op: "add", L: &CIExp{Op: "a"}, R: &CIExp{Op: "b"}}
	case 5:
		return &CIExp{Op: "sub", L: &CIExp{Op: "b"}, R: &CIExp{Op: "x"}}
	}
	return &CIExp{Op: "mul", L: &CIExp{Op: "a"}, R: &CIExp{Op: "lit", N: 2}}
}

func cBefore(e *CIExp) *CIExp { return &CIExp{Op: "before", L: e} }

// one post-condition that reads a captured value; `own` allows the always-false shape
func (g *condGen) beforeCond(own bool) CCond {
	v := &CIExp{Op: []string{"a", "b"}[g.r.Intn(2)]}
	d := &CIExp{Op: []string{"x", "y"}[g.r.Intn(2)]}
	switch g.r.Intn(8) {
	case 0, 1:
		return CCond{Emit: cBefore(g.beforeSub())}
	case 2:
		return CCond{Emit: &CIExp{Op: "sub", L: v, R: cBefore(v)}}
	case 3: // holds when the body adds the argument to the field
		return CCond{Test: &CBExp{Op: "eq", IL: v, IR: &CIExp{Op: "add", L: cBefore(v), R: d}}}
	case 4:
		return CCond{Test: &CBExp{Op: "le", IL: cBefore(g.beforeSub()), IR: &CIExp{Op: "add", L: g.beforeSub(), R: g.lit()}}}
	case 5:
		return CCond{Test: &CBExp{Op: "lt", IL: cBefore(&CIExp{Op: "a"}), IR: cBefore(&CIExp{Op: "b"})}}
	case 6:
		if own { // false in every state: e < e
			g.forms["const-false"] = true
			g.forms["const-false-before"] = true
			e := g.beforeSub()
			return CCond{Test: &CBExp{Op: "lt", IL: cBefore(e), IR: cBefore(e)}}
		}
		return CCond{Test: &CBExp{Op: "le", IL: cBefore(&CIExp{Op: "a"}), IR: cBefore(&CIExp{Op: "b"})}}
	}
	return CCond{Test: &CBExp{Op: "eq", IL: cBefore(v), IR: &CIExp{Op: "sub", L: v, R: d}}}
}

func (g *condGen) beforePost(own bool) []CCond {
	g.id++
	cs := []CCond{{Emit: &CIExp{Op: "lit", N: g.id}}}
	n := 1 + g.r.Intn(2)
	for i := 0; i < n; i++ {
		cs = append(cs, g.beforeCond(own))
	}
	return cs
}

func (g *condGen) beforeBody() *CStmt {
	var s *CStmt
	n := 1 + g.r.Intn(2)
	for i := 0; i < n; i++ {
		var t *CStmt
		switch g.r.Intn(4) {
		case 0:
			t = &CStmt{Op: "setA", E: &CIExp{Op: "add", L: &CIExp{Op: "a"}, R: &CIExp{Op: "x"}}}
		case 1:
			t = &CStmt{Op: "setB", E: &CIExp{Op: "add", L: &CIExp{Op: "b"}, R: &CIExp{Op: "y"}}}
		case 2:
			t = &CStmt{Op: "setA", E: &CIExp{Op: "add", L: &CIExp{Op: "a"}, R: g.lit()}}
		default:
			t = &CStmt{Op: "setB", E: &CIExp{Op: "sub", L: &CIExp{Op: "b"}, R: &CIExp{Op: "x"}}}
		}
		if s == nil {
			s = t
		} else {
			s = &CStmt{Op: "seq", S: s, T: t}
		}
	}
	return &CStmt{Op: "seq", S: s, T: &CStmt{Op: "ret", E: &CIExp{Op: "add", L: &CIExp{Op: "a"}, R: &CIExp{Op: "b"}}}}
}

// GenCondBefore generates a program in which every interface (a chain or a diamond of one to three)
// declares the functions with post-conditions that capture `before` values, the composite implements
// them with own post-conditions capturing other `before` values, and the two fields start different.
func GenCondBefore(r *hx.Rng) *CProgram {
	g := &condGen{r: r, forms: map[string]bool{"before": true, "before-own-and-inherited": true}}
	p := &CProgram{Forms: g.forms}
	names := []string{"f", "g"}[:1+r.Intn(2)]
	nIf := 1 + r.Intn(3)
	// oracle shape: every inherited post-condition block starts with `before(a) < before(b)` (true for
	// the start values), every own one with `before(e) < before(e)` (false in every state); one call
	oracle := r.Chance(25)
	aLtB := CCond{Test: &CBExp{Op: "lt", IL: cBefore(&CIExp{Op: "a"}), IR: cBefore(&CIExp{Op: "b"})}}
	for i := 0; i < nIf; i++ {
		var it CIface
		for j := 0; j < i; j++ {
			if r.Chance(60) {
				it.Conforms = append(it.Conforms, j)
			}
		}
		for _, n := range names {
			if i > 0 && !r.Chance(70) {
				continue
			}
			f := CIFun{Name: n}
			if r.Chance(30) {
				g.id++
				f.Conds.Pre = []CCond{{Emit: &CIExp{Op: "lit", N: g.id}}}
			}
			f.Conds.Post = g.beforePost(false)
			if oracle {
				f.Conds.Post = []CCond{f.Conds.Post[0], aLtB, {Emit: cBefore(g.beforeSub())}}
			}
			it.Funs = append(it.Funs, f)
		}
		p.Ifaces = append(p.Ifaces, it)
	}
	p.Conforms = []int{nIf - 1}
	for j := nIf - 2; j >= 0; j-- {
		if r.Chance(40) {
			p.Conforms = append(p.Conforms, j)
		}
	}
	vals := []int64{0, 1, 2, 3, 5, 6, 7, -1, -2}
	p.A0 = vals[r.Intn(len(vals))]
	p.B0 = vals[r.Intn(len(vals))]
	if p.A0 == p.B0 {
		p.B0 = p.A0 + 1
	}
	if oracle && p.A0 > p.B0 {
		p.A0, p.B0 = p.B0, p.A0
	}
	for _, n := range names {
		f := CCFun{Name: n, Body: g.beforeBody()}
		f.Conds.Post = g.beforePost(true)
		if oracle {
			g.forms["const-false"] = true
			g.forms["const-false-before"] = true
			e := g.beforeSub()
			f.Conds.Post = []CCond{f.Conds.Post[0], {Test: &CBExp{Op: "lt", IL: cBefore(e), IR: cBefore(e)}}}
		}
		if r.Chance(30) {
			g.id++
			f.Conds.Pre = []CCond{{Emit: &CIExp{Op: "lit", N: g.id}}}
		}
		p.Funs = append(p.Funs, f)
	}
	nCalls := 1 + r.Intn(2)
	if oracle {
		nCalls = 1
	}
	for i := 0; i < nCalls; i++ {
		p.Main = append(p.Main, CCall{Fn: names[r.Intn(len(names))], X: g.lit().N, Y: g.lit().N})
	}
	return p
}

// FormList returns the sorted form tags of the program.
func (p *CProgram) FormList() []string {
	var fs []string
	for f := range p.Forms {
		fs = append(fs, f)
	}
	for i := 1; i < len(fs); i++ {
		for j := i; j > 0 && fs[j] < fs[j-1]; j-- {
			fs[j], fs[j-1] = fs[j-1], fs[j]
		}
	}
	return fs
}
