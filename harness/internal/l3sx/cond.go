// Package l3sx holds, for each focused core calculus of the language layer L3 (properties C10, C48, C49,
// C07), the Go mirror of the calculus' abstract syntax, a seeded generator, the renderer to Cadence source
// (what the real engines run) and the serializer to the S-expression read by the Lean model
// (lean/Verif/Model/Lang3/*).
package l3sx

// Calculus of Verif.Model.Lang3.Conditions (property C10).

import (
	"fmt"
	"strings"

	"verif/harness/internal/hx"
)

// Besides the forms of the calculus, an expression may use *source-level forms* that the Lean calculus does
// not have: they are rendered as such in the Cadence source, and as an equivalent calculus expression in
// the S-expression (same value, same faults, same evaluation order of the faulting parts):
//
//	neg e            (-e)                 = (sub (lit 0) e)
//	conv e           Int(e)               = e         (invocation)
//	forceopt e       ((e as Int?)!)       = e         (cast + force)
//	fcast e          (e as! Int)          = e         (force cast)
//	idx0 e           [e, 7][0]            = e         (array literal + index)
//	idx1 e           [7, e][1]            = e
//	kite C l r       (C ? l : r)          = l or r    C has a statically known truth value (Known) and no
//	                                                  faulting part: tt, ff, e<e, e<=e, e==e, negations
//	dite C l r       (C ? l : r)          only as the left operand of a comparison:
//	                                      cmp (dite C l r) z = (or (and C (cmp l z)) (and (not C) (cmp r z)))
//	(BExp) ite C p q (C ? p : q)          = (or (and C p) (and (not C) q))
type CIExp struct {
	Op    string // lit x y a b result before add sub mul div | neg conv forceopt fcast idx0 idx1 kite dite
	N     int64
	L, R  *CIExp
	C     *CBExp // kite, dite
	Known bool   // kite: the truth value of C
}

type CBExp struct {
	Op     string // tt ff lt le eq and or not | ite
	IL, IR *CIExp
	BL, BR *CBExp
	BC     *CBExp // ite: the test
}

type CCond struct {
	Emit *CIExp
	Test *CBExp
}

type CStmt struct {
	Op     string // skip seq setA setB log ret ite callA
	S, T   *CStmt
	E, E2  *CIExp
	C      *CBExp
	Callee string
}

type CConds struct{ Pre, Post []CCond }

type CIFun struct {
	Name  string
	Conds CConds
	Dflt  *CStmt
}

type CIface struct {
	Conforms []int
	Funs     []CIFun
}

type CCFun struct {
	Name  string
	Conds CConds
	Body  *CStmt
}

type CCall struct {
	Fn   string
	X, Y int64
}

type CProgram struct {
	Ifaces   []CIface
	Conforms []int
	A0, B0   int64
	Funs     []CCFun
	Main     []CCall
	Forms    map[string]bool
}

// ---- S-expression ----

func (e *CIExp) SX() string {
	switch e.Op {
	case "lit":
		return fmt.Sprintf("(lit %d)", e.N)
	case "x", "y", "a", "b", "result":
		return "(" + e.Op + ")"
	case "before":
		return "(before " + e.L.SX() + ")"
	case "neg":
		return "(sub (lit 0) " + e.L.SX() + ")"
	case "conv", "forceopt", "fcast", "idx0", "idx1":
		return e.L.SX()
	case "kite":
		if e.Known {
			return e.L.SX()
		}
		return e.R.SX()
	case "dite":
		panic("dite outside a comparison")
	}
	return "(" + e.Op + " " + e.L.SX() + " " + e.R.SX() + ")"
}

func iteSX(c, p, q string) string {
	return "(or (and " + c + " " + p + ") (and (not " + c + ") " + q + "))"
}

func (e *CBExp) SX() string {
	switch e.Op {
	case "tt", "ff":
		return "(" + e.Op + ")"
	case "lt", "le", "eq":
		if e.IL.Op == "dite" {
			r := e.IR.SX()
			return iteSX(e.IL.C.SX(), "("+e.Op+" "+e.IL.L.SX()+" "+r+")", "("+e.Op+" "+e.IL.R.SX()+" "+r+")")
		}
		return "(" + e.Op + " " + e.IL.SX() + " " + e.IR.SX() + ")"
	case "not":
		return "(not " + e.BL.SX() + ")"
	case "ite":
		return iteSX(e.BC.SX(), e.BL.SX(), e.BR.SX())
	}
	return "(" + e.Op + " " + e.BL.SX() + " " + e.BR.SX() + ")"
}

func condsSX(head string, cs []CCond) string {
	parts := []string{head}
	for _, c := range cs {
		if c.Emit != nil {
			parts = append(parts, "(emit "+c.Emit.SX()+")")
		} else {
			parts = append(parts, "(test "+c.Test.SX()+")")
		}
	}
	return "(" + strings.Join(parts, " ") + ")"
}

func (s *CStmt) SX() string {
	switch s.Op {
	case "skip":
		return "(skip)"
	case "seq":
		return "(seq " + s.S.SX() + " " + s.T.SX() + ")"
	case "setA", "setB", "log", "ret":
		return "(" + s.Op + " " + s.E.SX() + ")"
	case "ite":
		return "(ite " + s.C.SX() + " " + s.S.SX() + " " + s.T.SX() + ")"
	case "callA":
		return "(callA " + s.Callee + " " + s.E.SX() + " " + s.E2.SX() + ")"
	}
	panic("stmt op " + s.Op)
}

func intsSX(head string, xs []int) string {
	parts := []string{head}
	for _, x := range xs {
		parts = append(parts, fmt.Sprint(x))
	}
	return "(" + strings.Join(parts, " ") + ")"
}

func (p *CProgram) SX() string {
	var b strings.Builder
	b.WriteString("(condprog")
	for _, it := range p.Ifaces {
		b.WriteString(" (iface " + intsSX("conforms", it.Conforms))
		for _, f := range it.Funs {
			b.WriteString(" (ifun " + f.Name + " " + condsSX("pre", f.Conds.Pre) + " " + condsSX("post", f.Conds.Post))
			if f.Dflt != nil {
				b.WriteString(" (default " + f.Dflt.SX() + ")")
			}
			b.WriteString(")")
		}
		b.WriteString(")")
	}
	b.WriteString(" (comp " + intsSX("conforms", p.Conforms) + fmt.Sprintf(" %d %d", p.A0, p.B0))
	for _, f := range p.Funs {
		b.WriteString(" (cfun " + f.Name + " " + condsSX("pre", f.Conds.Pre) + " " + condsSX("post", f.Conds.Post) + " " + f.Body.SX() + ")")
	}
	b.WriteString(") (main")
	for _, c := range p.Main {
		b.WriteString(fmt.Sprintf(" (call %s %d %d)", c.Fn, c.X, c.Y))
	}
	b.WriteString("))")
	return b.String()
}

// ---- Cadence source ----

func (e *CIExp) Src() string {
	switch e.Op {
	case "lit":
		if e.N < 0 {
			return fmt.Sprintf("(%d)", e.N)
		}
		return fmt.Sprint(e.N)
	case "x", "y", "result":
		return e.Op
	case "a", "b":
		return "self." + e.Op
	case "before":
		return "before(" + e.L.Src() + ")"
	case "neg":
		return "(-" + e.L.Src() + ")"
	case "conv":
		return "Int(" + e.L.Src() + ")"
	case "forceopt":
		return "((" + e.L.Src() + " as Int?)!)"
	case "fcast":
		return "(" + e.L.Src() + " as! Int)"
	case "idx0":
		return "[" + e.L.Src() + ", 7][0]"
	case "idx1":
		return "[7, " + e.L.Src() + "][1]"
	case "kite", "dite":
		return "(" + e.C.Src() + " ? " + e.L.Src() + " : " + e.R.Src() + ")"
	}
	op := map[string]string{"add": "+", "sub": "-", "mul": "*", "div": "/"}[e.Op]
	return "(" + e.L.Src() + " " + op + " " + e.R.Src() + ")"
}

func (e *CBExp) Src() string {
	switch e.Op {
	case "tt":
		return "true"
	case "ff":
		return "false"
	case "lt", "le", "eq":
		op := map[string]string{"lt": "<", "le": "<=", "eq": "=="}[e.Op]
		return "(" + e.IL.Src() + " " + op + " " + e.IR.Src() + ")"
	case "not":
		return "(!" + e.BL.Src() + ")"
	case "ite":
		return "(" + e.BC.Src() + " ? " + e.BL.Src() + " : " + e.BR.Src() + ")"
	case "and":
		return "(" + e.BL.Src() + " && " + e.BR.Src() + ")"
	}
	return "(" + e.BL.Src() + " || " + e.BR.Src() + ")"
}

func condsSrc(ind, kw string, cs []CCond) string {
	if len(cs) == 0 {
		return ""
	}
	var b strings.Builder
	b.WriteString(ind + kw + " {\n")
	for _, c := range cs {
		if c.Emit != nil {
			b.WriteString(ind + "  emit E(id: " + c.Emit.Src() + ")\n")
		} else {
			b.WriteString(ind + "  " + c.Test.Src() + "\n")
		}
	}
	b.WriteString(ind + "}\n")
	return b.String()
}

func (s *CStmt) Src(ind string, b *strings.Builder) {
	switch s.Op {
	case "skip":
	case "seq":
		s.S.Src(ind, b)
		s.T.Src(ind, b)
	case "setA":
		b.WriteString(ind + "self.a = " + s.E.Src() + "\n")
	case "setB":
		b.WriteString(ind + "self.b = " + s.E.Src() + "\n")
	case "log":
		b.WriteString(ind + "log(" + s.E.Src() + ")\n")
	case "ret":
		b.WriteString(ind + "return " + s.E.Src() + "\n")
	case "ite":
		b.WriteString(ind + "if " + s.C.Src() + " {\n")
		s.S.Src(ind+"  ", b)
		b.WriteString(ind + "} else {\n")
		s.T.Src(ind+"  ", b)
		b.WriteString(ind + "}\n")
	case "callA":
		b.WriteString(ind + "self.a = self." + s.Callee + "(" + s.E.Src() + ", " + s.E2.Src() + ")\n")
	}
}

func funSrc(name string, c CConds, body *CStmt) string {
	var b strings.Builder
	b.WriteString("  access(all) fun " + name + "(_ x: Int, _ y: Int): Int")
	if len(c.Pre) == 0 && len(c.Post) == 0 && body == nil {
		b.WriteString("\n")
		return b.String()
	}
	b.WriteString(" {\n")
	b.WriteString(condsSrc("    ", "pre", c.Pre))
	b.WriteString(condsSrc("    ", "post", c.Post))
	if body != nil {
		body.Src("    ", &b)
	}
	b.WriteString("  }\n")
	return b.String()
}

func confSrc(cs []int) string {
	if len(cs) == 0 {
		return ""
	}
	parts := make([]string, len(cs))
	for i, c := range cs {
		parts[i] = fmt.Sprintf("I%d", c)
	}
	return ": " + strings.Join(parts, ", ")
}

func (p *CProgram) Src() string {
	var b strings.Builder
	b.WriteString("access(all) event E(id: Int)\n")
	for i, it := range p.Ifaces {
		b.WriteString(fmt.Sprintf("access(all) struct interface I%d%s {\n", i, confSrc(it.Conforms)))
		b.WriteString("  access(all) var a: Int\n  access(all) var b: Int\n")
		for _, f := range it.Funs {
			b.WriteString(funSrc(f.Name, f.Conds, f.Dflt))
		}
		b.WriteString("}\n")
	}
	b.WriteString("access(all) struct S" + confSrc(p.Conforms) + " {\n")
	b.WriteString("  access(all) var a: Int\n  access(all) var b: Int\n")
	b.WriteString(fmt.Sprintf("  init() { self.a = %s; self.b = %s }\n", (&CIExp{Op: "lit", N: p.A0}).Src(), (&CIExp{Op: "lit", N: p.B0}).Src()))
	for _, f := range p.Funs {
		b.WriteString(funSrc(f.Name, f.Conds, f.Body))
	}
	b.WriteString("}\naccess(all) fun main() {\n  var s = S()\n")
	for _, c := range p.Main {
		b.WriteString(fmt.Sprintf("  log(s.%s(%s, %s))\n", c.Fn, (&CIExp{Op: "lit", N: c.X}).Src(), (&CIExp{Op: "lit", N: c.Y}).Src()))
	}
	b.WriteString("}\n")
	return b.String()
}

// ---- generator ----

type condGen struct {
	r     *hx.Rng
	forms map[string]bool
	id    int64
}

func (g *condGen) lit() *CIExp {
	return &CIExp{Op: "lit", N: []int64{0, 1, 2, 3, 5, -1, -2, 7}[g.r.Intn(8)]}
}

// integer expression; post = result/before allowed; inBefore = inside a before(...)
func (g *condGen) iexp(depth int, post, inBefore bool) *CIExp {
	if depth <= 0 || g.r.Chance(35) {
		switch g.r.Intn(7) {
		case 0:
			return &CIExp{Op: "x"}
		case 1:
			return &CIExp{Op: "y"}
		case 2:
			return &CIExp{Op: "a"}
		case 3:
			return &CIExp{Op: "b"}
		case 4:
			if post && !inBefore {
				g.forms["result"] = true
				return &CIExp{Op: "result"}
			}
		}
		return g.lit()
	}
	if post && g.r.Chance(30) && (!inBefore || g.r.Chance(15)) {
		g.forms["before"] = true
		if inBefore {
			g.forms["before-nested"] = true
		}
		return &CIExp{Op: "before", L: g.iexp(depth-1, post, true)}
	}
	op := []string{"add", "sub", "mul", "add", "sub", "div"}[g.r.Intn(6)]
	if op == "div" {
		g.forms["div"] = true
	}
	return &CIExp{Op: op, L: g.iexp(depth-1, post, inBefore), R: g.iexp(depth-1, post, inBefore)}
}

func (g *condGen) bexp(depth int, post bool) *CBExp {
	if depth <= 0 || g.r.Chance(55) {
		switch g.r.Intn(10) {
		case 0:
			return &CBExp{Op: "tt"}
		case 1:
			g.forms["const-false"] = true
			return &CBExp{Op: "ff"}
		}
		op := []string{"lt", "le", "eq"}[g.r.Intn(3)]
		return &CBExp{Op: op, IL: g.iexp(2, post, false), IR: g.iexp(2, post, false)}
	}
	switch g.r.Intn(3) {
	case 0:
		return &CBExp{Op: "not", BL: g.bexp(depth-1, post)}
	case 1:
		return &CBExp{Op: "and", BL: g.bexp(depth-1, post), BR: g.bexp(depth-1, post)}
	}
	return &CBExp{Op: "or", BL: g.bexp(depth-1, post), BR: g.bexp(depth-1, post)}
}

// a test that is very likely true (so that runs get past it): tautology shapes over the state
func (g *condGen) likelyTrue(post bool) *CBExp {
	e := g.iexp(1, post, false)
	switch g.r.Intn(4) {
	case 0:
		return &CBExp{Op: "le", IL: e, IR: e}
	case 1:
		return &CBExp{Op: "eq", IL: e, IR: e}
	case 2:
		return &CBExp{Op: "or", BL: &CBExp{Op: "tt"}, BR: g.bexp(1, post)}
	}
	if post {
		g.forms["before"] = true
		v := []string{"x", "y"}[g.r.Intn(2)]
		return &CBExp{Op: "eq", IL: &CIExp{Op: "before", L: &CIExp{Op: v}}, IR: &CIExp{Op: v}}
	}
	return &CBExp{Op: "tt"}
}

func (g *condGen) conds(post bool, strict int) []CCond {
	n := g.r.Intn(3)
	if n == 0 && g.r.Bool() {
		return nil
	}
	var cs []CCond
	// always announce the block by an emit with a fresh id
	g.id++
	cs = append(cs, CCond{Emit: &CIExp{Op: "lit", N: g.id}})
	for i := 0; i < n; i++ {
		switch {
		case g.r.Chance(20):
			cs = append(cs, CCond{Emit: g.iexp(1, post, false)})
		case g.r.Chance(strict):
			cs = append(cs, CCond{Test: g.bexp(2, post)})
		default:
			cs = append(cs, CCond{Test: g.likelyTrue(post)})
		}
	}
	return cs
}

func (g *condGen) stmt(depth int, names []string, self string) *CStmt {
	switch g.r.Intn(8) {
	case 0:
		return &CStmt{Op: "setA", E: g.iexp(2, false, false)}
	case 1:
		return &CStmt{Op: "setB", E: g.iexp(2, false, false)}
	case 2:
		return &CStmt{Op: "log", E: g.iexp(1, false, false)}
	case 3:
		if depth > 0 {
			g.forms["if"] = true
			return &CStmt{Op: "ite", C: g.bexp(1, false), S: g.block(depth-1, names, self, false), T: g.block(depth-1, names, self, false)}
		}
	case 4:
		// nested call to a function declared earlier (no recursion cycles; bounded depth)
		var cands []string
		for _, n := range names {
			if n < self {
				cands = append(cands, n)
			}
		}
		if len(cands) > 0 {
			g.forms["nested-call"] = true
			return &CStmt{Op: "callA", Callee: cands[g.r.Intn(len(cands))], E: g.iexp(1, false, false), E2: g.iexp(1, false, false)}
		}
	case 5:
		if depth > 0 && g.r.Chance(30) {
			g.forms["early-return"] = true
			return &CStmt{Op: "ite", C: g.bexp(1, false), S: &CStmt{Op: "ret", E: g.iexp(2, false, false)}, T: &CStmt{Op: "skip"}}
		}
	}
	return &CStmt{Op: "setA", E: &CIExp{Op: "add", L: &CIExp{Op: "a"}, R: g.lit()}}
}

func (g *condGen) block(depth int, names []string, self string, mustReturn bool) *CStmt {
	n := 1 + g.r.Intn(3)
	var s *CStmt
	for i := 0; i < n; i++ {
		t := g.stmt(depth, names, self)
		if s == nil {
			s = t
		} else {
			s = &CStmt{Op: "seq", S: s, T: t}
		}
	}
	if mustReturn {
		s = &CStmt{Op: "seq", S: s, T: &CStmt{Op: "ret", E: g.iexp(2, false, false)}}
	}
	return s
}

// GenCond generates one program: a DAG of up to 5 struct interfaces (diamonds likely), a composite
// conforming to some of them, functions f,g,h with conditions at several levels, defaults, overrides.
// The shape is chosen first (who declares what, where the defaults are) following the checker's rules
// (at most one default per function among related interfaces; a declaration below a default needs
// conditions; the composite implements what has no default), with a small rate of deliberate breaches.
func GenCond(r *hx.Rng) *CProgram {
	g := &condGen{r: r, forms: map[string]bool{}}
	p := &CProgram{Forms: g.forms}
	names := []string{"f", "g", "h"}[:1+r.Intn(3)]
	strict := []int{0, 10, 40}[r.Intn(3)]
	breach := r.Chance(8)
	nIf := r.Intn(6)
	closure := make([]map[int]bool, nIf) // transitive conformances of each interface
	type decl struct{ declared, dflt bool }
	shape := make([]map[string]*decl, nIf)
	hasDefault := map[string]bool{}
	for i := 0; i < nIf; i++ {
		var it CIface
		closure[i] = map[int]bool{}
		for j := 0; j < i; j++ {
			if r.Chance(45) {
				it.Conforms = append(it.Conforms, j)
				closure[i][j] = true
				for k := range closure[j] {
					closure[i][k] = true
				}
			}
		}
		if len(it.Conforms) > 1 && r.Bool() { // not always ascending
			it.Conforms[0], it.Conforms[len(it.Conforms)-1] = it.Conforms[len(it.Conforms)-1], it.Conforms[0]
		}
		shape[i] = map[string]*decl{}
		for _, n := range names {
			if !r.Chance(65) {
				continue
			}
			d := &decl{declared: true}
			if r.Chance(30) && (!hasDefault[n] || breach) {
				d.dflt = true
				hasDefault[n] = true
				g.forms["default"] = true
			}
			shape[i][n] = d
		}
		p.Ifaces = append(p.Ifaces, it)
	}
	sClosure := map[int]bool{}
	for j := 0; j < nIf; j++ {
		if r.Chance(50) {
			p.Conforms = append(p.Conforms, j)
			sClosure[j] = true
			for k := range closure[j] {
				sClosure[k] = true
			}
		}
	}
	if len(p.Conforms) > 1 && r.Bool() {
		p.Conforms[0], p.Conforms[len(p.Conforms)-1] = p.Conforms[len(p.Conforms)-1], p.Conforms[0]
	}
	// the composite's functions
	own := map[string]bool{}
	avail := []string{}
	for _, n := range names {
		declared, dflt := false, false
		for i := range sClosure {
			if d := shape[i][n]; d != nil {
				declared = true
				dflt = dflt || d.dflt
			}
		}
		switch {
		case dflt && r.Chance(60):
			g.forms["uses-default"] = true
			avail = append(avail, n)
		case declared || r.Chance(70) || (len(avail) == 0 && n == names[len(names)-1]):
			if dflt {
				g.forms["override-default"] = true
			}
			own[n] = true
			avail = append(avail, n)
		}
	}
	// bodies and conditions
	for i := range p.Ifaces {
		var declaredHere []string
		for _, n := range names {
			if shape[i][n] != nil {
				declaredHere = append(declaredHere, n)
			}
		}
		for _, n := range names {
			d := shape[i][n]
			if d == nil {
				continue
			}
			f := CIFun{Name: n}
			below := false // a default exists above this declaration
			for k := range closure[i] {
				if dd := shape[k][n]; dd != nil && dd.dflt {
					below = true
				}
			}
			if r.Chance(80) || (below && !breach) {
				f.Conds.Pre = g.conds(false, strict)
				f.Conds.Post = g.conds(true, strict)
				if below && len(f.Conds.Pre) == 0 && len(f.Conds.Post) == 0 {
					g.id++
					f.Conds.Pre = []CCond{{Emit: &CIExp{Op: "lit", N: g.id}}}
				}
			}
			if d.dflt {
				f.Dflt = g.block(1, declaredHere, n, true)
			}
			p.Ifaces[i].Funs = append(p.Ifaces[i].Funs, f)
		}
	}
	p.A0, p.B0 = g.lit().N, g.lit().N
	for _, n := range names {
		if !own[n] {
			continue
		}
		f := CCFun{Name: n, Body: g.block(2, avail, n, true)}
		if r.Chance(70) {
			f.Conds.Pre = g.conds(false, strict)
			f.Conds.Post = g.conds(true, strict)
		}
		p.Funs = append(p.Funs, f)
	}
	nCalls := 1 + r.Intn(3)
	for i := 0; i < nCalls; i++ {
		p.Main = append(p.Main, CCall{Fn: avail[r.Intn(len(avail))], X: g.lit().N, Y: g.lit().N})
	}
	if len(sClosure) >= 3 {
		g.forms["conf>=3"] = true
	}
	return p
}


// ---- multi-program rendering (interfaces and composite in different contracts) ----

func confSrcQ(cs []int, split int, inB bool) string {
	if len(cs) == 0 {
		return ""
	}
	parts := make([]string, len(cs))
	for i, c := range cs {
		if inB && c < split {
			parts[i] = fmt.Sprintf("CA.I%d", c)
		} else {
			parts[i] = fmt.Sprintf("I%d", c)
		}
	}
	return ": " + strings.Join(parts, ", ")
}

func (p *CProgram) ifaceSrc(b *strings.Builder, i int, split int, inB bool) {
	it := p.Ifaces[i]
	b.WriteString(fmt.Sprintf("access(all) struct interface I%d%s {\n", i, confSrcQ(it.Conforms, split, inB)))
	b.WriteString("  access(all) var a: Int\n  access(all) var b: Int\n")
	for _, f := range it.Funs {
		b.WriteString(funSrc(f.Name, f.Conds, f.Dflt))
	}
	b.WriteString("}\n")
}

// SrcMulti renders the program as two contracts and a script: contract CA (at address addrA) declares
// the interfaces I0..I(split-1), contract CB imports CA and declares the remaining interfaces and the
// composite S; the script imports CB (from addrB) and runs the calls of main.  Each contract has its own
// event E (an imported event cannot be emitted).  The program (and so its S-expression) is the same.
func (p *CProgram) SrcMulti(split int, addrA, addrB string) (srcA, srcB, script string) {
	if split > len(p.Ifaces) {
		split = len(p.Ifaces)
	}
	var a, b, m strings.Builder
	a.WriteString("access(all) contract CA {\naccess(all) event E(id: Int)\n")
	for i := 0; i < split; i++ {
		p.ifaceSrc(&a, i, split, false)
	}
	a.WriteString("}\n")
	b.WriteString("import CA from " + addrA + "\naccess(all) contract CB {\naccess(all) event E(id: Int)\n")
	for i := split; i < len(p.Ifaces); i++ {
		p.ifaceSrc(&b, i, split, true)
	}
	b.WriteString("access(all) struct S" + confSrcQ(p.Conforms, split, true) + " {\n")
	b.WriteString("  access(all) var a: Int\n  access(all) var b: Int\n")
	b.WriteString(fmt.Sprintf("  init() { self.a = %s; self.b = %s }\n", (&CIExp{Op: "lit", N: p.A0}).Src(), (&CIExp{Op: "lit", N: p.B0}).Src()))
	for _, f := range p.Funs {
		b.WriteString(funSrc(f.Name, f.Conds, f.Body))
	}
	b.WriteString("}\n}\n")
	m.WriteString("import CB from " + addrB + "\naccess(all) fun main() {\n  var s = CB.S()\n")
	for _, c := range p.Main {
		m.WriteString(fmt.Sprintf("  log(s.%s(%s, %s))\n", c.Fn, (&CIExp{Op: "lit", N: c.X}).Src(), (&CIExp{Op: "lit", N: c.Y}).Src()))
	}
	m.WriteString("}\n")
	return a.String(), b.String(), m.String()
}

// ---- directed family: inherited and own post-conditions both capture `before` values ----

func (g *condGen) beforeSub() *CIExp {
	switch g.r.Intn(7) {
	case 0, 1:
		return &CIExp{Op: "a"}
	case 2, 3:
		return &CIExp{Op: "b"}
	case 4:
		return &CIExp{Op: "add", L: &CIExp{Op: "a"}, R: &CIExp{Op: "b"}}
	case 5:
		return &CIExp{Op: "sub", L: &CIExp{Op: "b"}, R: &CIExp{Op: "x"}}
	}
	return &CIExp{Op: "mul", L: &CIExp{Op: "a"}, R: &CIExp{Op: "lit", N: 2}}
}

func cBefore(e *CIExp) *CIExp { return &CIExp{Op: "before", L: e} }

// one post-condition that reads a captured value; `own` allows the always-false shape
func (g *condGen) beforeCond(own bool) CCond {
	v := &CIExp{Op: []string{"a", "b"}[g.r.Intn(2)]}
	d := &CIExp{Op: []string{"x", "y"}[g.r.Intn(2)]}
	switch g.r.Intn(8) {
	case 0, 1:
		return CCond{Emit: cBefore(g.beforeSub())}
	case 2:
		return CCond{Emit: &CIExp{Op: "sub", L: v, R: cBefore(v)}}
	case 3: // holds when the body adds the argument to the field
		return CCond{Test: &CBExp{Op: "eq", IL: v, IR: &CIExp{Op: "add", L: cBefore(v), R: d}}}
	case 4:
		return CCond{Test: &CBExp{Op: "le", IL: cBefore(g.beforeSub()), IR: &CIExp{Op: "add", L: g.beforeSub(), R: g.lit()}}}
	case 5:
		return CCond{Test: &CBExp{Op: "lt", IL: cBefore(&CIExp{Op: "a"}), IR: cBefore(&CIExp{Op: "b"})}}
	case 6:
		if own { // false in every state: e < e
			g.forms["const-false"] = true
			g.forms["const-false-before"] = true
			e := g.beforeSub()
			return CCond{Test: &CBExp{Op: "lt", IL: cBefore(e), IR: cBefore(e)}}
		}
		return CCond{Test: &CBExp{Op: "le", IL: cBefore(&CIExp{Op: "a"}), IR: cBefore(&CIExp{Op: "b"})}}
	}
	return CCond{Test: &CBExp{Op: "eq", IL: cBefore(v), IR: &CIExp{Op: "sub", L: v, R: d}}}
}

func (g *condGen) beforePost(own bool) []CCond {
	g.id++
	cs := []CCond{{Emit: &CIExp{Op: "lit", N: g.id}}}
	n := 1 + g.r.Intn(2)
	for i := 0; i < n; i++ {
		cs = append(cs, g.beforeCond(own))
	}
	return cs
}

func (g *condGen) beforeBody() *CStmt {
	var s *CStmt
	n := 1 + g.r.Intn(2)
	for i := 0; i < n; i++ {
		var t *CStmt
		switch g.r.Intn(4) {
		case 0:
			t = &CStmt{Op: "setA", E: &CIExp{Op: "add", L: &CIExp{Op: "a"}, R: &CIExp{Op: "x"}}}
		case 1:
			t = &CStmt{Op: "setB", E: &CIExp{Op: "add", L: &CIExp{Op: "b"}, R: &CIExp{Op: "y"}}}
		case 2:
			t = &CStmt{Op: "setA", E: &CIExp{Op: "add", L: &CIExp{Op: "a"}, R: g.lit()}}
		default:
			t = &CStmt{Op: "setB", E: &CIExp{Op: "sub", L: &CIExp{Op: "b"}, R: &CIExp{Op: "x"}}}
		}
		if s == nil {
			s = t
		} else {
			s = &CStmt{Op: "seq", S: s, T: t}
		}
	}
	return &CStmt{Op: "seq", S: s, T: &CStmt{Op: "ret", E: &CIExp{Op: "add", L: &CIExp{Op: "a"}, R: &CIExp{Op: "b"}}}}
}

// GenCondBefore generates a program in which every interface (a chain or a diamond of one to three)
// declares the functions with post-conditions that capture `before` values, the composite implements
// them with own post-conditions capturing other `before` values, and the two fields start different.
func GenCondBefore(r *hx.Rng) *CProgram {
	g := &condGen{r: r, forms: map[string]bool{"before": true, "before-own-and-inherited": true}}
	p := &CProgram{Forms: g.forms}
	names := []string{"f", "g"}[:1+r.Intn(2)]
	nIf := 1 + r.Intn(3)
	// oracle shape: every inherited post-condition block starts with `before(a) < before(b)` (true for
	// the start values), every own one with `before(e) < before(e)` (false in every state); one call
	oracle := r.Chance(25)
	aLtB := CCond{Test: &CBExp{Op: "lt", IL: cBefore(&CIExp{Op: "a"}), IR: cBefore(&CIExp{Op: "b"})}}
	for i := 0; i < nIf; i++ {
		var it CIface
		for j := 0; j < i; j++ {
			if r.Chance(60) {
				it.Conforms = append(it.Conforms, j)
			}
		}
		for _, n := range names {
			if i > 0 && !r.Chance(70) {
				continue
			}
			f := CIFun{Name: n}
			if r.Chance(30) {
				g.id++
				f.Conds.Pre = []CCond{{Emit: &CIExp{Op: "lit", N: g.id}}}
			}
			f.Conds.Post = g.beforePost(false)
			if oracle {
				f.Conds.Post = []CCond{f.Conds.Post[0], aLtB, {Emit: cBefore(g.beforeSub())}}
			}
			it.Funs = append(it.Funs, f)
		}
		p.Ifaces = append(p.Ifaces, it)
	}
	p.Conforms = []int{nIf - 1}
	for j := nIf - 2; j >= 0; j-- {
		if r.Chance(40) {
			p.Conforms = append(p.Conforms, j)
		}
	}
	vals := []int64{0, 1, 2, 3, 5, 6, 7, -1, -2}
	p.A0 = vals[r.Intn(len(vals))]
	p.B0 = vals[r.Intn(len(vals))]
	if p.A0 == p.B0 {
		p.B0 = p.A0 + 1
	}
	if oracle && p.A0 > p.B0 {
		p.A0, p.B0 = p.B0, p.A0
	}
	for _, n := range names {
		f := CCFun{Name: n, Body: g.beforeBody()}
		f.Conds.Post = g.beforePost(true)
		if oracle {
			g.forms["const-false"] = true
			g.forms["const-false-before"] = true
			e := g.beforeSub()
			f.Conds.Post = []CCond{f.Conds.Post[0], {Test: &CBExp{Op: "lt", IL: cBefore(e), IR: cBefore(e)}}}
		}
		if r.Chance(30) {
			g.id++
			f.Conds.Pre = []CCond{{Emit: &CIExp{Op: "lit", N: g.id}}}
		}
		p.Funs = append(p.Funs, f)
	}
	nCalls := 1 + r.Intn(2)
	if oracle {
		nCalls = 1
	}
	for i := 0; i < nCalls; i++ {
		p.Main = append(p.Main, CCall{Fn: names[r.Intn(len(names))], X: g.lit().N, Y: g.lit().N})
	}
	return p
}


// ---- directed family: post-conditions built from the forms the before-extractor rewrites ----

// a small expression without faulting parts; post: may capture a before value
func (g *condGen) calm(post bool) *CIExp {
	var e *CIExp
	switch g.r.Intn(6) {
	case 0:
		e = &CIExp{Op: "a"}
	case 1:
		e = &CIExp{Op: "b"}
	case 2:
		e = &CIExp{Op: "x"}
	case 3:
		e = &CIExp{Op: "add", L: &CIExp{Op: "a"}, R: &CIExp{Op: "y"}}
	case 4:
		e = &CIExp{Op: "sub", L: &CIExp{Op: "b"}, R: g.lit()}
	default:
		e = g.lit()
	}
	if post && g.r.Chance(50) {
		g.forms["before"] = true
		e = cBefore(e)
	}
	return e
}

// one of the source-level integer forms around e
func (g *condGen) sugarI(e *CIExp, post bool) *CIExp {
	switch g.r.Intn(8) {
	case 0:
		g.forms["sx-unary"] = true
		return &CIExp{Op: "neg", L: &CIExp{Op: "neg", L: e}}
	case 1:
		g.forms["sx-invocation"] = true
		return &CIExp{Op: "conv", L: e}
	case 2:
		g.forms["sx-force"] = true
		return &CIExp{Op: "forceopt", L: e}
	case 3:
		g.forms["sx-cast"] = true
		return &CIExp{Op: "fcast", L: e}
	case 4:
		g.forms["sx-index"] = true
		return &CIExp{Op: "idx0", L: e}
	case 5:
		g.forms["sx-index"] = true
		return &CIExp{Op: "idx1", L: e}
	}
	g.forms["sx-conditional"] = true
	k := g.r.Bool()
	other := g.calm(post)
	if k {
		return &CIExp{Op: "kite", C: g.knownB(true, post), Known: true, L: e, R: other}
	}
	return &CIExp{Op: "kite", C: g.knownB(false, post), Known: false, L: other, R: e}
}

// a test with the given truth value in every state, without faulting parts
func (g *condGen) knownB(val bool, post bool) *CBExp {
	e := g.calm(post)
	if g.r.Chance(20) {
		return &CBExp{Op: "not", BL: g.knownB(!val, post)}
	}
	if val {
		switch g.r.Intn(3) {
		case 0:
			return &CBExp{Op: "tt"}
		case 1:
			return &CBExp{Op: "le", IL: e, IR: e}
		}
		return &CBExp{Op: "eq", IL: e, IR: e}
	}
	if g.r.Bool() {
		return &CBExp{Op: "ff"}
	}
	return &CBExp{Op: "lt", IL: e, IR: e}
}

// a comparison over calm operands (truth value depends on the state)
func (g *condGen) calmCmp(post bool) *CBExp {
	op := []string{"lt", "le", "eq"}[g.r.Intn(3)]
	l, r := g.calm(post), g.calm(post)
	if g.r.Chance(50) {
		l = g.sugarI(l, post)
	}
	if g.r.Chance(30) {
		r = g.sugarI(r, post)
	}
	return &CBExp{Op: op, IL: l, IR: r}
}

// a test of known truth value that contains a conditional expression whose test is false / true
func (g *condGen) knownIte(val bool, post bool) *CBExp {
	g.forms["sx-conditional"] = true
	switch g.r.Intn(3) {
	case 0: // test false: the else branch decides
		return &CBExp{Op: "ite", BC: g.knownB(false, post), BL: g.knownB(!val, post), BR: g.knownB(val, post)}
	case 1: // test true: the then branch decides
		return &CBExp{Op: "ite", BC: g.knownB(true, post), BL: g.knownB(val, post), BR: g.knownB(!val, post)}
	}
	// integer conditional under a comparison: (C ? e : e+1) == e  with C true / false
	e := g.calm(post)
	e1 := &CIExp{Op: "add", L: e, R: &CIExp{Op: "lit", N: 1}}
	c := g.knownB(val, post)
	return &CBExp{Op: "eq", IL: &CIExp{Op: "dite", C: c, L: e, R: e1}, IR: e}
}

func (g *condGen) sugarCond(post bool) CCond {
	switch g.r.Intn(7) {
	case 0:
		return CCond{Emit: g.sugarI(g.calm(post), post)}
	case 1:
		return CCond{Test: g.calmCmp(post)}
	case 2: // conditional with a state-dependent test
		g.forms["sx-conditional"] = true
		return CCond{Test: &CBExp{Op: "ite", BC: g.calmCmp(post), BL: g.calmCmp(post), BR: g.calmCmp(post)}}
	case 3:
		g.forms["sx-conditional"] = true
		return CCond{Test: &CBExp{Op: []string{"lt", "le", "eq"}[g.r.Intn(3)],
			IL: &CIExp{Op: "dite", C: g.calmCmp(post), L: g.calm(post), R: g.calm(post)}, IR: g.calm(post)}}
	case 4:
		g.forms["sx-conditional"] = true
		return CCond{Emit: &CIExp{Op: "kite", C: g.knownB(false, post), Known: false, L: g.calm(post), R: g.calm(post)}}
	}
	return CCond{Test: g.knownIte(true, post)}
}

// GenCondSugar generates a program whose conditions are built from the expression forms the
// before-extractor rewrites (conditional, unary, invocation, cast, force, index), with before(..) nested
// inside.  `oracle` shapes: every condition holds in every state except one post-condition (own, or of
// one interface; the function may be the interface's default implementation) that is false in every
// state because of the branch its conditional expression takes; one call.
func GenCondSugar(r *hx.Rng) *CProgram {
	g := &condGen{r: r, forms: map[string]bool{"sx-forms": true}}
	p := &CProgram{Forms: g.forms}
	names := []string{"f", "g"}[:1+r.Intn(2)]
	nIf := 1 + r.Intn(3)
	oracle := r.Chance(45)
	falseAt := -1 // index of the interface holding the false condition; nIf = the composite
	if oracle {
		falseAt = r.Intn(nIf + 1)
		g.forms["const-false"] = true
		g.forms["const-false-conditional"] = true
	}
	dflt := map[string]bool{}
	for _, n := range names {
		if r.Chance(30) {
			dflt[n] = true // implemented by the default function of the last interface
			g.forms["default"] = true
			g.forms["uses-default"] = true
		}
	}
	block := func(post bool, holder int) []CCond {
		g.id++
		cs := []CCond{{Emit: &CIExp{Op: "lit", N: g.id}}}
		n := 1 + g.r.Intn(2)
		for i := 0; i < n; i++ {
			if oracle {
				cs = append(cs, CCond{Test: g.knownIte(true, post)})
			} else {
				cs = append(cs, g.sugarCond(post))
			}
		}
		if post && holder == falseAt {
			k := 1 + g.r.Intn(len(cs))
			f := CCond{Test: g.knownIte(false, true)}
			cs = append(cs[:k:k], append([]CCond{f}, cs[k:]...)...)
		}
		return cs
	}
	for i := 0; i < nIf; i++ {
		var it CIface
		for j := 0; j < i; j++ {
			if r.Chance(60) {
				it.Conforms = append(it.Conforms, j)
			}
		}
		for _, n := range names {
			last := i == nIf-1
			if !last && !r.Chance(70) {
				continue
			}
			f := CIFun{Name: n}
			if r.Chance(50) {
				f.Conds.Pre = block(false, i)
			}
			f.Conds.Post = block(true, i)
			if last && dflt[n] {
				f.Dflt = g.beforeBody()
			}
			it.Funs = append(it.Funs, f)
		}
		p.Ifaces = append(p.Ifaces, it)
	}
	p.Conforms = []int{nIf - 1}
	for j := nIf - 2; j >= 0; j-- {
		if r.Chance(40) {
			p.Conforms = append(p.Conforms, j)
		}
	}
	p.A0, p.B0 = g.lit().N, g.lit().N
	for _, n := range names {
		if dflt[n] {
			continue
		}
		f := CCFun{Name: n, Body: g.beforeBody()}
		if r.Chance(50) {
			f.Conds.Pre = block(false, nIf)
		}
		f.Conds.Post = block(true, nIf)
		p.Funs = append(p.Funs, f)
	}
	if falseAt == nIf && len(p.Funs) == 0 { // every function is a default: move the false condition
		k := &p.Ifaces[nIf-1].Funs[0].Conds
		k.Post = append(k.Post, CCond{Test: g.knownIte(false, true)})
	}
	nCalls := 1 + r.Intn(2)
	if oracle {
		nCalls = 1
	}
	for i := 0; i < nCalls; i++ {
		p.Main = append(p.Main, CCall{Fn: names[r.Intn(len(names))], X: g.lit().N, Y: g.lit().N})
	}
	return p
}

// FormList returns the sorted form tags of the program.
func (p *CProgram) FormList() []string {
	var fs []string
	for f := range p.Forms {
		fs = append(fs, f)
	}
	for i := 1; i < len(fs); i++ {
		for j := i; j > 0 && fs[j] < fs[j-1]; j-- {
			fs[j], fs[j-1] = fs[j-1], fs[j]
		}
	}
	return fs
}
