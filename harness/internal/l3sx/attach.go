package l3sx

// Calculus of Verif.Model.Lang3.Attach (property C49).

import (
	"fmt"
	"strings"

	"verif/harness/internal/hx"
)

type AStmt struct {
	Op      string // create attach remove move push pop setN sum setK viaRef has destroy
	X, X2   int
	A       int
	IsRes   bool
	ID, N   int64
	K, V    int64
}

type AProgram struct {
	Stmts []AStmt
	Kind  map[int]bool // variable -> isRes (for rendering)
	Forms map[string]bool
}

func (s AStmt) SX() string {
	switch s.Op {
	case "create":
		k := "struct"
		if s.IsRes {
			k = "res"
		}
		return fmt.Sprintf("(create %d %s %d %d)", s.X, k, s.ID, s.N)
	case "attach":
		return fmt.Sprintf("(attach %d %d %d %d)", s.X2, s.A, s.K, s.X)
	case "remove":
		return fmt.Sprintf("(remove %d %d)", s.A, s.X)
	case "move":
		return fmt.Sprintf("(move %d %d)", s.X2, s.X)
	case "push", "destroy":
		return fmt.Sprintf("(%s %d)", s.Op, s.X)
	case "pop":
		return fmt.Sprintf("(pop %d)", s.X2)
	case "setN":
		return fmt.Sprintf("(setN %d %d)", s.X, s.V)
	case "sum", "viaRef", "has":
		return fmt.Sprintf("(%s %d %d)", s.Op, s.X, s.A)
	case "setK":
		return fmt.Sprintf("(setK %d %d %d)", s.X, s.A, s.V)
	}
	panic(s.Op)
}

func (p *AProgram) SX() string {
	parts := []string{"attprog"}
	for _, s := range p.Stmts {
		parts = append(parts, s.SX())
	}
	return "(" + strings.Join(parts, " ") + ")"
}

func attTy(isRes bool, a int) string {
	n := []string{"A", "B"}[a]
	if !isRes {
		n = "S" + n
	}
	return n
}

func lit(n int64) string {
	if n < 0 {
		return fmt.Sprintf("(%d)", n)
	}
	return fmt.Sprint(n)
}

const attachPrelude = `access(all) resource R {
  access(all) let id: Int
  access(all) var n: Int
  access(all) event ResourceDestroyed(id: Int = self.id, n: Int = self.n)
  init(_ id: Int, _ n: Int) { self.id = id; self.n = n }
  access(all) fun setN(_ v: Int) { self.n = v }
}
access(all) struct S {
  access(all) let id: Int
  access(all) var n: Int
  init(_ id: Int, _ n: Int) { self.id = id; self.n = n }
  access(all) fun setN(_ v: Int) { self.n = v }
}
`

func attDecl(name, base string, isRes bool) string {
	ev := ""
	if isRes {
		ev = "  access(all) event ResourceDestroyed(id: Int = base.id, k: Int = self.k, n: Int = base.n)\n"
	}
	return "access(all) attachment " + name + " for " + base + " {\n  access(all) var k: Int\n" + ev +
		"  init(_ k: Int) { self.k = k + base.n }\n" +
		"  access(all) fun sum(): Int { return self.k + base.n }\n" +
		"  access(all) fun setK(_ v: Int) { self.k = v }\n}\n"
}

func (p *AProgram) Src() string {
	var b strings.Builder
	b.WriteString(attachPrelude)
	b.WriteString(attDecl("A", "R", true) + attDecl("B", "R", true) + attDecl("SA", "S", false) + attDecl("SB", "S", false))
	b.WriteString("access(all) fun main() {\n  var stash: @[R] <- []\n")
	for _, s := range p.Stmts {
		isRes := p.Kind[s.X]
		if s.Op == "create" {
			isRes = s.IsRes
		}
		if s.Op == "pop" {
			isRes = true
		}
		at := attTy(isRes, s.A)
		base := "S"
		if isRes {
			base = "R"
		}
		switch s.Op {
		case "create":
			if isRes {
				b.WriteString(fmt.Sprintf("  let x%d <- create R(%s, %s)\n", s.X, lit(s.ID), lit(s.N)))
			} else {
				b.WriteString(fmt.Sprintf("  var x%d = S(%s, %s)\n", s.X, lit(s.ID), lit(s.N)))
			}
		case "attach":
			if isRes {
				b.WriteString(fmt.Sprintf("  let x%d <- attach %s(%s) to <- x%d\n", s.X2, at, lit(s.K), s.X))
			} else {
				b.WriteString(fmt.Sprintf("  var x%d = attach %s(%s) to x%d\n", s.X2, at, lit(s.K), s.X))
			}
		case "remove":
			b.WriteString(fmt.Sprintf("  remove %s from x%d\n", at, s.X))
		case "move":
			if isRes {
				b.WriteString(fmt.Sprintf("  let x%d <- x%d\n", s.X2, s.X))
			} else {
				b.WriteString(fmt.Sprintf("  var x%d = x%d\n", s.X2, s.X))
			}
		case "push":
			b.WriteString(fmt.Sprintf("  stash.append(<- x%d)\n", s.X))
		case "pop":
			b.WriteString(fmt.Sprintf("  let x%d <- stash.removeFirst()\n", s.X2))
		case "setN":
			b.WriteString(fmt.Sprintf("  x%d.setN(%s)\n", s.X, lit(s.V)))
		case "sum":
			b.WriteString(fmt.Sprintf("  log(x%d[%s]?.sum())\n", s.X, at))
		case "setK":
			b.WriteString(fmt.Sprintf("  x%d[%s]?.setK(%s)\n", s.X, at, lit(s.V)))
		case "viaRef":
			b.WriteString(fmt.Sprintf("  log((&x%d as &%s)[%s]?.sum())\n", s.X, base, at))
		case "has":
			b.WriteString(fmt.Sprintf("  log(x%d[%s] != nil)\n", s.X, at))
		case "destroy":
			b.WriteString(fmt.Sprintf("  destroy x%d\n", s.X))
		}
	}
	b.WriteString("  destroy stash\n}\n")
	return b.String()
}

// GenAttach generates one program: live variables are tracked so that resources are used linearly and
// destroyed at the end; double attaches occur with a small probability (the run then fails).
func GenAttach(r *hx.Rng) *AProgram {
	p := &AProgram{Kind: map[int]bool{}, Forms: map[string]bool{}}
	live := []int{}
	atts := map[int]map[int]bool{}
	next := 0
	stash := [][2]int{} // (original var for kind, atts snapshot index) — only count needed
	stashAtts := []map[int]bool{}
	nid := int64(0)
	small := func() int64 { return []int64{0, 1, 2, 3, 5, 10, -1, 7}[r.Intn(8)] }
	newVar := func(isRes bool, a map[int]bool) int {
		x := next
		next++
		p.Kind[x] = isRes
		live = append(live, x)
		atts[x] = a
		return x
	}
	kill := func(x int) {
		for i, y := range live {
			if y == x {
				live = append(live[:i], live[i+1:]...)
				return
			}
		}
	}
	copyAtts := func(m map[int]bool) map[int]bool {
		c := map[int]bool{}
		for k, v := range m {
			c[k] = v
		}
		return c
	}
	n := 4 + r.Intn(14)
	allowDup := r.Chance(12)
	for i := 0; i < n; i++ {
		if len(live) == 0 || r.Chance(15) {
			isRes := r.Chance(60)
			nid++
			s := AStmt{Op: "create", IsRes: isRes, ID: nid, N: small()}
			s.X = newVar(isRes, map[int]bool{})
			p.Stmts = append(p.Stmts, s)
			continue
		}
		x := live[r.Intn(len(live))]
		isRes := p.Kind[x]
		a := r.Intn(2)
		switch k := r.Intn(20); {
		case k < 5:
			if atts[x][a] && !allowDup {
				a = 1 - a
				if atts[x][a] {
					continue
				}
			}
			if atts[x][a] {
				p.Forms["double-attach"] = true
			}
			s := AStmt{Op: "attach", X: x, A: a, K: small()}
			na := copyAtts(atts[x])
			na[a] = true
			if isRes {
				kill(x)
			}
			s.X2 = newVar(isRes, na)
			p.Stmts = append(p.Stmts, s)
			if isRes {
				p.Forms["attach-res"] = true
			} else {
				p.Forms["attach-struct"] = true
			}
		case k < 7:
			p.Stmts = append(p.Stmts, AStmt{Op: "remove", X: x, A: a})
			if atts[x][a] {
				p.Forms["remove-present"] = true
			} else {
				p.Forms["remove-absent"] = true
			}
			delete(atts[x], a)
		case k < 9:
			s := AStmt{Op: "move", X: x}
			na := copyAtts(atts[x])
			if isRes {
				kill(x)
			}
			s.X2 = newVar(isRes, na)
			p.Stmts = append(p.Stmts, s)
			if len(na) > 0 {
				p.Forms["move-with-attachment"] = true
			}
		case k < 10 && isRes:
			p.Stmts = append(p.Stmts, AStmt{Op: "push", X: x})
			kill(x)
			stash = append(stash, [2]int{x, 0})
			stashAtts = append(stashAtts, atts[x])
			p.Forms["array-roundtrip"] = true
		case k < 11 && len(stash) > 0:
			s := AStmt{Op: "pop"}
			s.X2 = newVar(true, stashAtts[0])
			stash, stashAtts = stash[1:], stashAtts[1:]
			p.Stmts = append(p.Stmts, s)
		case k < 13:
			p.Stmts = append(p.Stmts, AStmt{Op: "setN", X: x, V: small()})
		case k < 15:
			p.Stmts = append(p.Stmts, AStmt{Op: "sum", X: x, A: a})
		case k < 16:
			p.Stmts = append(p.Stmts, AStmt{Op: "setK", X: x, A: a, V: small()})
			p.Forms["setK"] = true
		case k < 18:
			p.Stmts = append(p.Stmts, AStmt{Op: "viaRef", X: x, A: a})
			p.Forms["via-ref"] = true
		case k < 19:
			p.Stmts = append(p.Stmts, AStmt{Op: "has", X: x, A: a})
		default:
			if isRes {
				p.Stmts = append(p.Stmts, AStmt{Op: "destroy", X: x})
				if len(atts[x]) > 0 {
					p.Forms["destroy-with-attachments"] = true
				}
				if len(atts[x]) > 1 {
					p.Forms["destroy-with-2"] = true
				}
				kill(x)
			}
		}
	}
	for len(stash) > 0 {
		s := AStmt{Op: "pop"}
		s.X2 = newVar(true, stashAtts[0])
		stash, stashAtts = stash[1:], stashAtts[1:]
		p.Stmts = append(p.Stmts, s)
	}
	for _, x := range append([]int{}, live...) {
		if p.Kind[x] {
			// observe, then destroy
			p.Stmts = append(p.Stmts, AStmt{Op: "sum", X: x, A: r.Intn(2)})
			p.Stmts = append(p.Stmts, AStmt{Op: "destroy", X: x})
			if len(atts[x]) > 0 {
				p.Forms["destroy-with-attachments"] = true
			}
			if len(atts[x]) > 1 {
				p.Forms["destroy-with-2"] = true
			}
		} else {
			p.Stmts = append(p.Stmts, AStmt{Op: "sum", X: x, A: 0}, AStmt{Op: "sum", X: x, A: 1})
		}
	}
	return p
}

func (p *AProgram) FormList() []string { return (&CProgram{Forms: p.Forms}).FormList() }
