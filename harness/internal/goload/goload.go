// Package goload loads packages of the checkout under verification with full type information
// (golang.org/x/tools/go/packages, export data of dependencies), for the fact extractors of
// C24 / C28 / C33.
package goload

import (
	"fmt"
	"go/ast"
	"go/token"
	"os"
	"path/filepath"
	"strings"

	"golang.org/x/tools/go/packages"
)

// Load type-checks the non-test files of the given package patterns (relative to repo, e.g. "./runtime").
func Load(repo string, patterns ...string) ([]*packages.Package, error) {
	env := os.Environ()
	env = append(env, "GOFLAGS=-mod=mod", "GOPROXY=off")
	cfg := &packages.Config{
		Mode: packages.NeedName | packages.NeedFiles | packages.NeedCompiledGoFiles | packages.NeedSyntax |
			packages.NeedTypes | packages.NeedTypesInfo | packages.NeedImports,
		Dir:   repo,
		Env:   env,
		Tests: false,
	}
	pkgs, err := packages.Load(cfg, patterns...)
	if err != nil {
		return nil, err
	}
	for _, p := range pkgs {
		for _, e := range p.Errors {
			return nil, fmt.Errorf("package %s: %v", p.PkgPath, e)
		}
	}
	return pkgs, nil
}

// Rel returns the path of pos's file relative to repo.
func Rel(repo string, fset *token.FileSet, pos token.Pos) string {
	f := fset.Position(pos).Filename
	if r, err := filepath.Rel(repo, f); err == nil {
		return filepath.ToSlash(r)
	}
	return f
}

// FuncName renders a FuncDecl as `Recv.Name` or `Name`.
func FuncName(fd *ast.FuncDecl) string {
	if fd.Recv != nil && len(fd.Recv.List) > 0 {
		t := fd.Recv.List[0].Type
		for {
			switch x := t.(type) {
			case *ast.StarExpr:
				t = x.X
				continue
			case *ast.IndexExpr:
				t = x.X
				continue
			case *ast.IndexListExpr:
				t = x.X
				continue
			}
			break
		}
		if id, ok := t.(*ast.Ident); ok {
			return id.Name + "." + fd.Name.Name
		}
	}
	return fd.Name.Name
}

// LeanString quotes s as a Lean string literal.
func LeanString(s string) string {
	s = strings.ReplaceAll(s, `\`, `\\`)
	s = strings.ReplaceAll(s, `"`, `\"`)
	s = strings.ReplaceAll(s, "\n", `\n`)
	return `"` + s + `"`
}

// IsTestFile reports files that are not part of the shipped code.
func IsTestFile(rel string) bool {
	return strings.HasSuffix(rel, "_test.go") || strings.Contains(rel, "/test/") || strings.HasPrefix(rel, "test_utils/") ||
		strings.HasPrefix(rel, "tools/") || strings.HasPrefix(rel, "cmd/") || strings.Contains(rel, "/testdata/")
}
