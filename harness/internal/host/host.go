// Package host is a recording and fault-injecting implementation of runtime.Interface (plus
// runtime.Metrics and common.ComputationGauge), used by the spec-machine properties C24, C28, C33.
//
// A World is the persistent state of the host (ledger registers, slab indices, contract code, uuid
// and account counters); a Host is a view onto a World for ONE execution: it records, in order, the
// host-visible event alphabet
//
//	s            program step (computation metering of kind Statement / Loop / FunctionInvocation;
//	             consecutive steps are collapsed into one event)
//	r:K  x:K     GetValue / ValueExists of register K            a:O   AllocateSlabIndex for owner O
//	w:K:H        SetValue of register K, H = length.hash of the value
//	e:T:H        EmitEvent (type id, hash of the JSON-free rendering)   l:H   ProgramLog
//	pi           Metrics.ProgramInterpreted (interpreter only: the program has finished running)
//	c:<Method>   any other callback
//	!<Method>#i:err|panic    the injected failure fired here
//
// and can make the i-th call of a given callback fail by returning an error or by panicking.
// Markers `pp` (Preprocess returned) and `end:ok|err` are appended by the caller (see Run*).
package host

import (
	"crypto/sha256"
	"encoding/binary"
	"encoding/hex"
	"fmt"
	"sort"
	"strings"
	"time"

	"github.com/onflow/atree"
	"go.opentelemetry.io/otel/attribute"

	"github.com/onflow/cadence"
	"github.com/onflow/cadence/ast"
	"github.com/onflow/cadence/common"
	"github.com/onflow/cadence/encoding/json"
	"github.com/onflow/cadence/interpreter"
	"github.com/onflow/cadence/runtime"
	"github.com/onflow/cadence/sema"
	"github.com/onflow/cadence/stdlib"
)

// World is the persistent host state shared by the executions of one history.
type World struct {
	Stored     map[string][]byte // register key (owner 0x1f key) -> value
	Indices    map[string]uint64
	Codes      map[common.Location][]byte
	UUID       uint64
	Accounts   uint64 // number of accounts created so far
	AccountIDs map[common.Address]uint64
	Keys       map[common.Address][]*stdlib.AccountKey
	Signers    []common.Address
}

func NewWorld() *World {
	return &World{
		Stored:     map[string][]byte{},
		Indices:    map[string]uint64{},
		Codes:      map[common.Location][]byte{},
		AccountIDs: map[common.Address]uint64{},
		Keys:       map[common.Address][]*stdlib.AccountKey{},
		Accounts:   16,
	}
}

// Clone makes a deep copy (register values and code are treated as immutable).
func (w *World) Clone() *World {
	c := &World{
		Stored: make(map[string][]byte, len(w.Stored)), Indices: make(map[string]uint64, len(w.Indices)),
		Codes: make(map[common.Location][]byte, len(w.Codes)), AccountIDs: make(map[common.Address]uint64, len(w.AccountIDs)),
		Keys: make(map[common.Address][]*stdlib.AccountKey, len(w.Keys)),
		UUID: w.UUID, Accounts: w.Accounts, Signers: append([]common.Address(nil), w.Signers...),
	}
	for k, v := range w.Stored {
		c.Stored[k] = v
	}
	for k, v := range w.Indices {
		c.Indices[k] = v
	}
	for k, v := range w.Codes {
		c.Codes[k] = v
	}
	for k, v := range w.AccountIDs {
		c.AccountIDs[k] = v
	}
	for k, v := range w.Keys {
		c.Keys[k] = append([]*stdlib.AccountKey(nil), v...)
	}
	return c
}

// Snapshot renders the whole ledger canonically (sorted), for comparisons.
func (w *World) Snapshot() string {
	keys := make([]string, 0, len(w.Stored))
	for k := range w.Stored {
		if len(w.Stored[k]) > 0 {
			keys = append(keys, k)
		}
	}
	sort.Strings(keys)
	h := sha256.New()
	for _, k := range keys {
		h.Write([]byte(k))
		h.Write([]byte{0})
		h.Write(w.Stored[k])
		h.Write([]byte{1})
	}
	return fmt.Sprintf("%d.%s", len(keys), hex.EncodeToString(h.Sum(nil))[:12])
}

// InjectedError is the sentinel carried by an injected failure.
type InjectedError struct {
	Method string
	Index  int
	Mode   string
}

func (e *InjectedError) Error() string {
	return fmt.Sprintf("injected host failure %s#%d (%s)", e.Method, e.Index, e.Mode)
}

// Fault makes the Index-th (0-based) call of Method fail.  Mode: "err" (return the sentinel) or
// "panic" (panic with the sentinel).  Methods without an error result only support "panic".
type Fault struct {
	Method   string
	Index    int
	Mode     string
	Fired    bool
	Sentinel *InjectedError
}

func NewFault(method string, index int, mode string) *Fault {
	return &Fault{Method: method, Index: index, Mode: mode,
		Sentinel: &InjectedError{Method: method, Index: index, Mode: mode}}
}

// LimitExceeded is returned by MeterComputation when the limit is reached.
type LimitExceeded struct{ Limit uint64 }

func (e LimitExceeded) Error() string { return fmt.Sprintf("computation limit %d exceeded", e.Limit) }

// Host records one execution.  Like a real host (the FVM), it is a transactional view: all state
// changes of the execution go to a private copy W of the world Base and are made permanent by Commit
// (called by Run for a successful transaction / contract call); a failed execution and every script
// leave Base untouched.
type Host struct {
	W      *World
	Base   *World
	Trace  []string
	Faults []*Fault
	Counts map[string]int // calls per method so far
	Limit  uint64         // computation limit (0 = none; always set one)
	Used   uint64
	Logs   []string
	Events []string
	// Memory gauge (only installed by Run when MemLimit > 0 or RecordMem): MemLimit = hard limit on the
	// accumulated amount (0 = none); MemTotals = the accumulated amount after every MeterMemory call.
	MemLimit  uint64
	MemUsed   uint64
	RecordMem bool
	MemTotals []uint64
	// RecordSteps: record `s` events (needed by the exec stream; off for fault enumeration noise)
	RecordSteps bool
	// RecordAll: also record the callbacks that are pure queries (c:...) — default true
	Quiet    bool
	programs map[runtime.Location]*runtime.Program
	// OnCreateAccountHook, when set, is invoked inside CreateAccount (after the address is chosen).
	OnCreateAccountHook func(address common.Address, context interpreter.InvocationContext)
}

func New(w *World) *Host {
	return &Host{W: w.Clone(), Base: w, Counts: map[string]int{}, Limit: 100000, RecordSteps: true,
		programs: map[runtime.Location]*runtime.Program{}}
}

// Commit makes the execution's state changes permanent in Base.
func (h *Host) Commit() {
	signers := h.Base.Signers
	*h.Base = *h.W.Clone()
	h.Base.Signers = signers
}

var _ runtime.Interface = &Host{}
var _ runtime.Metrics = &Host{}
var _ common.ComputationGauge = &Host{}

func (h *Host) rec(ev string) { h.Trace = append(h.Trace, ev) }

// enter counts the call, fires a matching fault, and records nothing else.
func (h *Host) enter(method string, canErr bool) error {
	i := h.Counts[method]
	h.Counts[method] = i + 1
	for _, f := range h.Faults {
		if f.Fired || f.Method != method || f.Index != i {
			continue
		}
		if !canErr && f.Mode == "err" {
			continue
		}
		f.Fired = true
		h.rec(fmt.Sprintf("!%s#%d:%s", method, i, f.Mode))
		if f.Mode == "panic" {
			panic(f.Sentinel)
		}
		return f.Sentinel
	}
	return nil
}

func short(b []byte) string {
	// strip leading zero bytes; registers of slabs are `$` + 8-byte index
	i := 0
	for i < len(b)-1 && b[i] == 0 {
		i++
	}
	return hex.EncodeToString(b[i:])
}

// RegKey renders a register key compactly: owner (hex without leading zeros) / key.
func RegKey(owner, key []byte) string {
	o := "-"
	if len(owner) > 0 {
		o = short(owner)
	}
	k := ""
	switch {
	case len(key) == 9 && key[0] == '$':
		k = fmt.Sprintf("$%d", binary.BigEndian.Uint64(key[1:]))
	default:
		printable := len(key) > 0
		for _, c := range key {
			if c < 0x21 || c > 0x7e || c == ':' || c == '/' {
				printable = false
			}
		}
		if printable {
			k = string(key)
		} else {
			k = "0x" + hex.EncodeToString(key)
		}
	}
	return o + "/" + k
}

// Digest is length.hash of a byte string.
func Digest(b []byte) string {
	s := sha256.Sum256(b)
	return fmt.Sprintf("%d.%s", len(b), hex.EncodeToString(s[:5]))
}

func storeKey(owner, key []byte) string { return string(owner) + "\x1f" + string(key) }

// ---- computation gauge

func (h *Host) MeterComputation(usage common.ComputationUsage) error {
	switch usage.Kind {
	case common.ComputationKindStatement, common.ComputationKindLoop, common.ComputationKindFunctionInvocation:
		if h.RecordSteps && (len(h.Trace) == 0 || h.Trace[len(h.Trace)-1] != "s") {
			h.rec("s")
		}
		if err := h.enter("MeterComputation", true); err != nil {
			return err
		}
	}
	h.Used += usage.Intensity
	if h.Limit > 0 && h.Used > h.Limit {
		return LimitExceeded{Limit: h.Limit}
	}
	return nil
}

// MemLimitExceeded is returned by MeterMemory when the memory limit is reached.
type MemLimitExceeded struct{ Limit uint64 }

func (e MemLimitExceeded) Error() string { return fmt.Sprintf("memory limit %d exceeded", e.Limit) }

// MeterMemory: the memory gauge (common.MemoryGauge).
func (h *Host) MeterMemory(usage common.MemoryUsage) error {
	h.MemUsed += usage.Amount
	if h.RecordMem {
		h.MemTotals = append(h.MemTotals, h.MemUsed)
	}
	if h.MemLimit > 0 && h.MemUsed > h.MemLimit {
		return MemLimitExceeded{Limit: h.MemLimit}
	}
	return nil
}

// ---- ledger

func (h *Host) GetValue(owner, key []byte) ([]byte, error) {
	h.rec("r:" + RegKey(owner, key))
	if err := h.enter("GetValue", true); err != nil {
		return nil, err
	}
	return h.W.Stored[storeKey(owner, key)], nil
}

func (h *Host) SetValue(owner, key, value []byte) error {
	if err := h.enter("SetValue", true); err != nil {
		return err
	}
	h.rec("w:" + RegKey(owner, key) + ":" + Digest(value))
	h.W.Stored[storeKey(owner, key)] = append([]byte(nil), value...)
	return nil
}

func (h *Host) ValueExists(owner, key []byte) (bool, error) {
	h.rec("x:" + RegKey(owner, key))
	if err := h.enter("ValueExists", true); err != nil {
		return false, err
	}
	return len(h.W.Stored[storeKey(owner, key)]) > 0, nil
}

func (h *Host) AllocateSlabIndex(owner []byte) (res atree.SlabIndex, err error) {
	h.rec("a:" + short(owner))
	if err := h.enter("AllocateSlabIndex", true); err != nil {
		return res, err
	}
	i := h.W.Indices[string(owner)] + 1
	h.W.Indices[string(owner)] = i
	binary.BigEndian.PutUint64(res[:], i)
	return res, nil
}

// ---- code and programs

func (h *Host) ResolveLocation(identifiers []runtime.Identifier, location runtime.Location) ([]runtime.ResolvedLocation, error) {
	h.rec("c:ResolveLocation")
	if err := h.enter("ResolveLocation", true); err != nil {
		return nil, err
	}
	// one resolved location per identifier for address locations (the usual host behaviour)
	addressLocation, isAddress := location.(common.AddressLocation)
	if !isAddress || len(identifiers) == 0 {
		return []runtime.ResolvedLocation{{Location: location, Identifiers: identifiers}}, nil
	}
	out := make([]runtime.ResolvedLocation, len(identifiers))
	for i := range identifiers {
		out[i] = runtime.ResolvedLocation{
			Location:    common.AddressLocation{Address: addressLocation.Address, Name: identifiers[i].Identifier},
			Identifiers: []runtime.Identifier{identifiers[i]},
		}
	}
	return out, nil
}

func (h *Host) GetCode(location runtime.Location) ([]byte, error) {
	h.rec("c:GetCode")
	if err := h.enter("GetCode", true); err != nil {
		return nil, err
	}
	return h.W.Codes[location], nil
}

func (h *Host) GetOrLoadProgram(location runtime.Location, load func() (*runtime.Program, error)) (*runtime.Program, error) {
	h.rec("c:GetOrLoadProgram")
	if err := h.enter("GetOrLoadProgram", true); err != nil {
		return nil, err
	}
	if p, ok := h.programs[location]; ok {
		return p, nil
	}
	p, err := load()
	h.programs[location] = p
	return p, err
}

func (h *Host) GetAccountContractCode(location common.AddressLocation) ([]byte, error) {
	h.rec("c:GetAccountContractCode")
	if err := h.enter("GetAccountContractCode", true); err != nil {
		return nil, err
	}
	return h.W.Codes[location], nil
}

func (h *Host) UpdateAccountContractCode(location common.AddressLocation, code []byte) error {
	if err := h.enter("UpdateAccountContractCode", true); err != nil {
		return err
	}
	h.rec("c:UpdateAccountContractCode:" + location.Name + ":" + Digest(code))
	h.W.Codes[location] = append([]byte(nil), code...)
	// a changed contract invalidates the loaded programs of this execution's view
	delete(h.programs, location)
	return nil
}

func (h *Host) RemoveAccountContractCode(location common.AddressLocation) error {
	if err := h.enter("RemoveAccountContractCode", true); err != nil {
		return err
	}
	h.rec("c:RemoveAccountContractCode:" + location.Name)
	delete(h.W.Codes, location)
	delete(h.programs, location)
	return nil
}

func (h *Host) GetAccountContractNames(address runtime.Address) ([]string, error) {
	h.rec("c:GetAccountContractNames")
	if err := h.enter("GetAccountContractNames", true); err != nil {
		return nil, err
	}
	var names []string
	for l := range h.W.Codes {
		if al, ok := l.(common.AddressLocation); ok && al.Address == address {
			names = append(names, al.Name)
		}
	}
	sort.Strings(names)
	return names, nil
}

func (h *Host) RecoverProgram(program *ast.Program, location common.Location) ([]byte, error) {
	h.rec("c:RecoverProgram")
	if err := h.enter("RecoverProgram", true); err != nil {
		return nil, err
	}
	return nil, nil
}

// ---- accounts and keys

func (h *Host) CreateAccount(payer runtime.Address, context interpreter.InvocationContext) (runtime.Address, error) {
	h.rec("c:CreateAccount")
	if err := h.enter("CreateAccount", true); err != nil {
		return runtime.Address{}, err
	}
	h.W.Accounts++
	var a common.Address
	binary.BigEndian.PutUint64(a[:], h.W.Accounts)
	if h.OnCreateAccountHook != nil {
		h.OnCreateAccountHook(a, context)
	}
	return a, nil
}

func (h *Host) AddAccountKey(address runtime.Address, publicKey *runtime.PublicKey, hashAlgo runtime.HashAlgorithm, weight int) (*runtime.AccountKey, error) {
	h.rec("c:AddAccountKey")
	if err := h.enter("AddAccountKey", true); err != nil {
		return nil, err
	}
	k := &stdlib.AccountKey{KeyIndex: uint32(len(h.W.Keys[address])), PublicKey: publicKey, HashAlgo: hashAlgo, Weight: weight}
	h.W.Keys[address] = append(h.W.Keys[address], k)
	return k, nil
}

func (h *Host) GetAccountKey(address runtime.Address, index uint32) (*runtime.AccountKey, error) {
	h.rec("c:GetAccountKey")
	if err := h.enter("GetAccountKey", true); err != nil {
		return nil, err
	}
	ks := h.W.Keys[address]
	if int(index) >= len(ks) {
		return nil, nil
	}
	return ks[index], nil
}

func (h *Host) AccountKeysCount(address runtime.Address) (uint32, error) {
	h.rec("c:AccountKeysCount")
	if err := h.enter("AccountKeysCount", true); err != nil {
		return 0, err
	}
	return uint32(len(h.W.Keys[address])), nil
}

func (h *Host) RevokeAccountKey(address runtime.Address, index uint32) (*runtime.AccountKey, error) {
	h.rec("c:RevokeAccountKey")
	if err := h.enter("RevokeAccountKey", true); err != nil {
		return nil, err
	}
	ks := h.W.Keys[address]
	if int(index) >= len(ks) {
		return nil, nil
	}
	k := *ks[index]
	k.IsRevoked = true
	ks[index] = &k
	return &k, nil
}

func (h *Host) GetSigningAccounts() ([]runtime.Address, error) {
	h.rec("c:GetSigningAccounts")
	if err := h.enter("GetSigningAccounts", true); err != nil {
		return nil, err
	}
	return h.W.Signers, nil
}

func (h *Host) GenerateAccountID(address common.Address) (uint64, error) {
	h.rec("c:GenerateAccountID")
	if err := h.enter("GenerateAccountID", true); err != nil {
		return 0, err
	}
	h.W.AccountIDs[address]++
	return h.W.AccountIDs[address], nil
}

func (h *Host) GetAccountBalance(address common.Address) (uint64, error) {
	h.rec("c:GetAccountBalance")
	if err := h.enter("GetAccountBalance", true); err != nil {
		return 0, err
	}
	return 1000, nil
}

func (h *Host) GetAccountAvailableBalance(address common.Address) (uint64, error) {
	h.rec("c:GetAccountAvailableBalance")
	if err := h.enter("GetAccountAvailableBalance", true); err != nil {
		return 0, err
	}
	return 900, nil
}

func (h *Host) GetStorageUsed(address runtime.Address) (uint64, error) {
	h.rec("c:GetStorageUsed")
	if err := h.enter("GetStorageUsed", true); err != nil {
		return 0, err
	}
	var n uint64
	for k, v := range h.W.Stored {
		if strings.HasPrefix(k, string(address[:])+"\x1f") {
			n += uint64(len(v))
		}
	}
	return n, nil
}

func (h *Host) GetStorageCapacity(address runtime.Address) (uint64, error) {
	h.rec("c:GetStorageCapacity")
	if err := h.enter("GetStorageCapacity", true); err != nil {
		return 0, err
	}
	return 1 << 20, nil
}

// ---- logs, events, uuids, randomness, blocks

func (h *Host) ProgramLog(message string) error {
	if err := h.enter("ProgramLog", true); err != nil {
		return err
	}
	h.Logs = append(h.Logs, message)
	// a state probe of the exec stream: `["@<phase><channel>", <what the program read of the channel>]`
	// is recorded with its marker: l:@<phase><channel>:<digest of the rest>
	if strings.HasPrefix(message, `["@`) {
		if i := strings.Index(message[3:], `"`); i > 0 {
			h.rec("l:@" + message[3:3+i] + ":" + Digest([]byte(message[3+i:])))
			return nil
		}
	}
	h.rec("l:" + Digest([]byte(message)))
	return nil
}

func (h *Host) ImplementationDebugLog(message string) error {
	h.rec("c:ImplementationDebugLog")
	return h.enter("ImplementationDebugLog", true)
}

func (h *Host) EmitEvent(event cadence.Event) error {
	if err := h.enter("EmitEvent", true); err != nil {
		return err
	}
	s := event.String()
	if b, err := json.Encode(event); err == nil {
		s = string(b)
	}
	h.Events = append(h.Events, s)
	id := ""
	if event.EventType != nil {
		id = event.EventType.QualifiedIdentifier
	}
	h.rec("e:" + id + ":" + Digest([]byte(s)))
	return nil
}

func (h *Host) GenerateUUID() (uint64, error) {
	h.rec("c:GenerateUUID")
	if err := h.enter("GenerateUUID", true); err != nil {
		return 0, err
	}
	h.W.UUID++
	return h.W.UUID, nil
}

func (h *Host) ReadRandom(buffer []byte) error {
	h.rec("c:ReadRandom")
	if err := h.enter("ReadRandom", true); err != nil {
		return err
	}
	for i := range buffer {
		buffer[i] = byte(17 * (i + 1))
	}
	return nil
}

func (h *Host) GetCurrentBlockHeight() (uint64, error) {
	h.rec("c:GetCurrentBlockHeight")
	if err := h.enter("GetCurrentBlockHeight", true); err != nil {
		return 0, err
	}
	return 7, nil
}

func (h *Host) GetBlockAtHeight(height uint64) (stdlib.Block, bool, error) {
	h.rec("c:GetBlockAtHeight")
	if err := h.enter("GetBlockAtHeight", true); err != nil {
		return stdlib.Block{}, false, err
	}
	var hash stdlib.BlockHash
	binary.BigEndian.PutUint64(hash[len(hash)-8:], height)
	return stdlib.Block{Height: height, View: height, Hash: hash, Timestamp: time.Unix(int64(height), 0).UnixNano()}, height <= 7, nil
}

func (h *Host) DecodeArgument(argument []byte, argumentType cadence.Type) (cadence.Value, error) {
	h.rec("c:DecodeArgument")
	if err := h.enter("DecodeArgument", true); err != nil {
		return nil, err
	}
	return json.Decode(nil, argument)
}

// ---- crypto

func (h *Host) VerifySignature(signature []byte, tag string, signedData []byte, publicKey []byte,
	signatureAlgorithm runtime.SignatureAlgorithm, hashAlgorithm runtime.HashAlgorithm) (bool, error) {
	h.rec("c:VerifySignature")
	if err := h.enter("VerifySignature", true); err != nil {
		return false, err
	}
	return len(signature) > 0 && signature[0] == 1, nil
}

func (h *Host) Hash(data []byte, tag string, hashAlgorithm runtime.HashAlgorithm) ([]byte, error) {
	h.rec("c:Hash")
	if err := h.enter("Hash", true); err != nil {
		return nil, err
	}
	s := sha256.Sum256(append([]byte(tag), data...))
	return s[:], nil
}

func (h *Host) ValidatePublicKey(key *runtime.PublicKey) error {
	h.rec("c:ValidatePublicKey")
	if err := h.enter("ValidatePublicKey", true); err != nil {
		return err
	}
	return nil
}

func (h *Host) BLSVerifyPOP(publicKey *runtime.PublicKey, signature []byte) (bool, error) {
	h.rec("c:BLSVerifyPOP")
	if err := h.enter("BLSVerifyPOP", true); err != nil {
		return false, err
	}
	return true, nil
}

func (h *Host) BLSAggregateSignatures(signatures [][]byte) ([]byte, error) {
	h.rec("c:BLSAggregateSignatures")
	if err := h.enter("BLSAggregateSignatures", true); err != nil {
		return nil, err
	}
	var out []byte
	for _, s := range signatures {
		out = append(out, s...)
	}
	return out, nil
}

func (h *Host) BLSAggregatePublicKeys(publicKeys []*runtime.PublicKey) (*runtime.PublicKey, error) {
	h.rec("c:BLSAggregatePublicKeys")
	if err := h.enter("BLSAggregatePublicKeys", true); err != nil {
		return nil, err
	}
	if len(publicKeys) == 0 {
		return nil, nil
	}
	return publicKeys[0], nil
}

// ---- misc

func (h *Host) RecordTrace(operation string, duration time.Duration, attrs []attribute.KeyValue) {
	_ = h.enter("RecordTrace", false)
}

func (h *Host) ResourceOwnerChanged(_ *interpreter.Interpreter, _ *interpreter.CompositeValue, _ common.Address, _ common.Address) {
	h.rec("c:ResourceOwnerChanged")
	_ = h.enter("ResourceOwnerChanged", false)
}

func (h *Host) ValidateAccountCapabilitiesGet(_ interpreter.AccountCapabilityGetValidationContext, _ interpreter.AddressValue,
	_ interpreter.PathValue, _ *sema.ReferenceType, _ *sema.ReferenceType) (bool, error) {
	h.rec("c:ValidateAccountCapabilitiesGet")
	if err := h.enter("ValidateAccountCapabilitiesGet", true); err != nil {
		return false, err
	}
	return true, nil
}

func (h *Host) ValidateAccountCapabilitiesPublish(_ interpreter.AccountCapabilityPublishValidationContext, _ interpreter.AddressValue,
	_ interpreter.PathValue, _ *interpreter.ReferenceStaticType) (bool, error) {
	h.rec("c:ValidateAccountCapabilitiesPublish")
	if err := h.enter("ValidateAccountCapabilitiesPublish", true); err != nil {
		return false, err
	}
	return true, nil
}

func (h *Host) MinimumRequiredVersion() (string, error) {
	h.rec("c:MinimumRequiredVersion")
	if err := h.enter("MinimumRequiredVersion", true); err != nil {
		return "", err
	}
	return "", nil
}

// ---- metrics

func (h *Host) ProgramParsed(location runtime.Location, duration time.Duration) {
	h.rec("c:ProgramParsed")
	_ = h.enter("ProgramParsed", false)
}

func (h *Host) ProgramChecked(location runtime.Location, duration time.Duration) {
	h.rec("c:ProgramChecked")
	_ = h.enter("ProgramChecked", false)
}

func (h *Host) ProgramInterpreted(location runtime.Location, duration time.Duration) {
	h.rec("pi")
	_ = h.enter("ProgramInterpreted", false)
}

// AllMethods lists every callback kind that can be made to fail, with whether it has an error result.
var AllMethods = []struct {
	Name   string
	CanErr bool
}{
	{"ResolveLocation", true}, {"GetCode", true}, {"GetOrLoadProgram", true}, {"GetValue", true}, {"SetValue", true},
	{"ValueExists", true}, {"AllocateSlabIndex", true}, {"CreateAccount", true}, {"AddAccountKey", true},
	{"GetAccountKey", true}, {"AccountKeysCount", true}, {"RevokeAccountKey", true}, {"UpdateAccountContractCode", true},
	{"GetAccountContractCode", true}, {"RemoveAccountContractCode", true}, {"GetSigningAccounts", true},
	{"ProgramLog", true}, {"EmitEvent", true}, {"GenerateUUID", true}, {"DecodeArgument", true},
	{"GetCurrentBlockHeight", true}, {"GetBlockAtHeight", true}, {"ReadRandom", true}, {"VerifySignature", true},
	{"Hash", true}, {"GetAccountBalance", true}, {"GetAccountAvailableBalance", true}, {"GetStorageUsed", true},
	{"GetStorageCapacity", true}, {"ImplementationDebugLog", true}, {"ValidatePublicKey", true},
	{"GetAccountContractNames", true}, {"RecordTrace", false}, {"BLSVerifyPOP", true}, {"BLSAggregateSignatures", true},
	{"BLSAggregatePublicKeys", true}, {"ResourceOwnerChanged", false}, {"GenerateAccountID", true},
	{"RecoverProgram", true}, {"ValidateAccountCapabilitiesGet", true}, {"ValidateAccountCapabilitiesPublish", true},
	{"MinimumRequiredVersion", true}, {"ProgramParsed", false}, {"ProgramChecked", false}, {"ProgramInterpreted", false},
}
