package host

import (
	"errors"
	"fmt"
	"strings"

	"github.com/onflow/cadence"
	"github.com/onflow/cadence/common"
	cerrors "github.com/onflow/cadence/errors"
	"github.com/onflow/cadence/runtime"
)

// Result of one execution on a Host.
type Result struct {
	Value    cadence.Value
	Err      error
	Escaped  bool // a Go panic escaped the runtime's entry point
	PanicVal any
}

func (r *Result) OK() bool { return r.Err == nil && !r.Escaped }

// Status is ok | err | escaped.
func (r *Result) Status() string {
	switch {
	case r.Escaped:
		return "escaped"
	case r.Err != nil:
		return "err"
	}
	return "ok"
}

var txCounter, scriptCounter uint64

// Location makes a deterministic location from a counter value.
func TxLocation(n uint64) common.TransactionLocation {
	var l common.TransactionLocation
	for i := 0; i < 8; i++ {
		l[len(l)-1-i] = byte(n >> (8 * i))
	}
	return l
}
func ScriptLocation(n uint64) common.ScriptLocation {
	var l common.ScriptLocation
	for i := 0; i < 8; i++ {
		l[len(l)-1-i] = byte(n >> (8 * i))
	}
	return l
}

// Run executes a script ("script") or transaction ("tx") through the executor API of the real
// runtime (the same code path as ExecuteScript / ExecuteTransaction, split so that the marker `pp`
// can be recorded between Preprocess and Execute) and appends `end:ok|err|escaped`.
// seq distinguishes locations within one history.
func Run(h *Host, kind string, src string, args [][]byte, useVM bool, seq uint64) (res *Result) {
	res = &Result{}
	defer func() {
		if r := recover(); r != nil {
			res.Escaped = true
			res.PanicVal = r
		}
		h.rec("end:" + res.Status())
		if res.OK() && kind != "script" {
			h.Commit()
		}
	}()
	rt := runtime.NewRuntime(runtime.Config{
		AtreeValidationEnabled:            true,
		ResourceOwnerChangeHandlerEnabled: true,
	})
	ctx := runtime.Context{
		Interface:        h,
		UseVM:            useVM,
		ComputationGauge: h,
	}
	if h.MemLimit > 0 || h.RecordMem {
		ctx.MemoryGauge = h
	}
	script := runtime.Script{Source: []byte(src), Arguments: args}
	var ex runtime.Executor
	switch kind {
	case "script":
		ctx.Location = ScriptLocation(seq)
		ex = rt.NewScriptExecutor(script, ctx)
	case "tx":
		ctx.Location = TxLocation(seq)
		ex = rt.NewTransactionExecutor(script, ctx)
	case "call":
		// src = "<address>.<Contract>.<function>", no arguments
		parts := strings.Split(src, ".")
		if len(parts) != 3 {
			panic("host.Run: bad call target " + src)
		}
		addr, aerr := common.HexToAddress(parts[0])
		if aerr != nil {
			panic("host.Run: bad address " + parts[0])
		}
		ctx.Location = TxLocation(seq)
		ex = rt.NewContractFunctionExecutor(common.AddressLocation{Address: addr, Name: parts[1]}, parts[2], nil, nil, ctx)
	default:
		panic("host.Run: bad kind " + kind)
	}
	err := ex.Preprocess()
	h.rec("pp")
	if err != nil {
		res.Err = err
		return res
	}
	res.Value, res.Err = ex.Result()
	return res
}

// RunDirect executes through ExecuteScript / ExecuteTransaction (no `pp` marker).
func RunDirect(h *Host, kind string, src string, args [][]byte, useVM bool, seq uint64) (res *Result) {
	res = &Result{}
	defer func() {
		if r := recover(); r != nil {
			res.Escaped = true
			res.PanicVal = r
		}
		h.rec("end:" + res.Status())
		if res.OK() && kind != "script" {
			h.Commit()
		}
	}()
	rt := runtime.NewRuntime(runtime.Config{
		AtreeValidationEnabled:            true,
		ResourceOwnerChangeHandlerEnabled: true,
	})
	ctx := runtime.Context{Interface: h, UseVM: useVM, ComputationGauge: h}
	script := runtime.Script{Source: []byte(src), Arguments: args}
	switch kind {
	case "script":
		ctx.Location = ScriptLocation(seq)
		res.Value, res.Err = rt.ExecuteScript(script, ctx)
	case "tx":
		ctx.Location = TxLocation(seq)
		res.Err = rt.ExecuteTransaction(script, ctx)
	default:
		panic("host.RunDirect: bad kind " + kind)
	}
	return res
}

// ErrClass: none | user | internal | external | other, plus the deepest interesting Go type name.
func ErrClass(err error) (class, kind string) {
	if err == nil {
		return "none", ""
	}
	kind = innerKind(err)
	switch {
	case cerrors.IsInternalError(err):
		return "internal", kind
	case func() bool { _, ok := cerrors.GetExternalError(err); return ok }():
		return "external", kind
	case cerrors.IsUserError(err):
		return "user", kind
	}
	return "other", kind
}

func innerKind(err error) string {
	last := ""
	for err != nil {
		name := strings.TrimPrefix(fmt.Sprintf("%T", err), "*")
		switch name {
		case "runtime.Error", "interpreter.Error", "errors.errorString", "fmt.wrapError", "interpreter.PositionedError":
		default:
			last = name
		}
		u, ok := err.(interface{ Unwrap() error })
		if !ok {
			break
		}
		err = u.Unwrap()
	}
	return last
}

// CarriesSentinel reports whether the injected failure is in the error chain.
func CarriesSentinel(err error, f *Fault) bool {
	return err != nil && errors.Is(err, error(f.Sentinel))
}

// HasExternal: errors.As ExternalError anywhere in the chain.
func HasExternal(err error) bool {
	var ee cerrors.ExternalError
	return errors.As(err, &ee)
}
