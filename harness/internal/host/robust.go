package host

import (
	"fmt"
	"os"
	"sync"
	"time"
)

// solo: every operation runs under the read lock; the re-confirmation of a hang verdict takes the
// write lock (it waits for the operations of the other workers to end, then runs alone).
var solo sync.RWMutex

// RobustTimeout is the per-operation timeout to give to hx for a stream wrapped by Robust (hx must
// never cut an operation itself: the wall-clock bounds are Robust's).
const RobustTimeout = 3 * time.Hour

// Robust makes a stream's Exec robust against machine load: an operation that does not end within
// `first` is not reported as `hang` right away — it is run again ALONE (no other operation of this
// process in flight) with the bound `generous`, and `hang` is reported only when that run does not end
// either.  Otherwise the observation of the second run is reported unchanged (observations carry no
// timings).  A Go panic of the operation is reported as `panic`, as hx does.
func Robust(exec func(op []string) string, first, generous time.Duration) func(op []string) string {
	return func(op []string) string {
		solo.RLock()
		r, ok := runTimed(exec, op, first)
		solo.RUnlock()
		if ok {
			return r
		}
		solo.Lock()
		r, ok = runTimed(exec, op, generous)
		solo.Unlock()
		if os.Getenv("VERIF_DEBUG") != "" {
			fmt.Fprintf(os.Stderr, "robust: no end within %v; alone with bound %v: ended=%v\n", first, generous, ok)
		}
		if ok {
			return r
		}
		return "hang"
	}
}

func runTimed(exec func(op []string) string, op []string, bound time.Duration) (string, bool) {
	done := make(chan string, 1)
	cp := append([]string(nil), op...)
	go func() {
		defer func() {
			if r := recover(); r != nil {
				if os.Getenv("VERIF_DEBUG") != "" {
					fmt.Fprintf(os.Stderr, "panic in %v: %v\n", cp, r)
				}
				done <- "panic"
			}
		}()
		done <- exec(cp)
	}()
	t := time.NewTimer(bound)
	defer t.Stop()
	select {
	case r := <-done:
		return r, true
	case <-t.C:
		return "", false
	}
}
