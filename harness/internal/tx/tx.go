// Package tx is the frame of vtool: translators (TR) and fact extractors (FX) that read /repo's
// current sources and write Lean files under lean/Verif/Gen.  Each tool lives in its own tool_*.go
// file of cmd/vtool and registers itself in init().
package tx

import (
	"fmt"
	"os"
	"path/filepath"
	"sort"
	"strings"
)

type Tool struct {
	Name string
	Help string
	Run  func(args []string) error
}

var registry = map[string]*Tool{}

func Register(t *Tool) { registry[t.Name] = t }

// Repo is the checkout being verified (VERIF_REPO, default /repo).
func Repo() string {
	if r := os.Getenv("VERIF_REPO"); r != "" {
		return r
	}
	return "/repo"
}

// LeanDir is the Lean project that receives generated files (VERIF_LEAN, default /verif/lean).
func LeanDir() string {
	if r := os.Getenv("VERIF_LEAN"); r != "" {
		return r
	}
	return "/verif/lean"
}

// WriteGen writes lean/Verif/Gen/<name>.lean only when the content changed (keeps lake's traces stable).
func WriteGen(name string, content string) error {
	path := filepath.Join(LeanDir(), "Verif", "Gen", name+".lean")
	if old, err := os.ReadFile(path); err == nil && string(old) == content {
		return nil
	}
	if err := os.MkdirAll(filepath.Dir(path), 0o755); err != nil {
		return err
	}
	return os.WriteFile(path, []byte(content), 0o644)
}

func Main() {
	if len(os.Args) < 2 {
		names := make([]string, 0, len(registry))
		for n := range registry {
			names = append(names, n)
		}
		sort.Strings(names)
		fmt.Fprintln(os.Stderr, "usage: vtool <tool> [args]; tools:", strings.Join(names, " "))
		os.Exit(2)
	}
	t, ok := registry[os.Args[1]]
	if !ok {
		fmt.Fprintln(os.Stderr, "unknown tool", os.Args[1])
		os.Exit(2)
	}
	if err := t.Run(os.Args[2:]); err != nil {
		fmt.Fprintln(os.Stderr, "vtool", t.Name+":", err)
		os.Exit(1)
	}
}
