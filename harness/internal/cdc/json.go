package cdc

import (
	"github.com/onflow/cadence"
	"github.com/onflow/cadence/encoding/json"
)

func jsonDecode(b []byte) (cadence.Value, error) { return json.Decode(nil, b) }

// JSONArg encodes a value as a JSON-CDC argument.
func JSONArg(v cadence.Value) []byte { return json.MustEncode(v) }
