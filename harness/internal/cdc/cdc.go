// Package cdc runs Cadence scripts and transactions on the real runtime (/repo working tree) in
// either engine, with bounded computation, and classifies the outcome.
package cdc

import (
	"errors"
	"fmt"
	"reflect"
	"strings"

	"github.com/onflow/cadence"
	"github.com/onflow/cadence/common"
	cerrors "github.com/onflow/cadence/errors"
	"github.com/onflow/cadence/runtime"
	. "github.com/onflow/cadence/test_utils/runtime_utils"
)

// Outcome of one execution.
type Outcome struct {
	Value  cadence.Value
	Err    error
	Class  string // none | user | internal | external | other
	Kind   string // Go type name of the innermost interesting error ("" when none)
	Logs   []string
	Events []cadence.Event
}

// LimitExceeded is returned by Gauge when the computation limit is reached.
type LimitExceeded struct{ Limit uint64 }

func (e LimitExceeded) Error() string { return fmt.Sprintf("computation limit %d exceeded", e.Limit) }

// Gauge is a computation gauge with a hard limit.
type Gauge struct {
	Limit uint64
	Used  uint64
}

func (g *Gauge) MeterComputation(usage common.ComputationUsage) error {
	g.Used += usage.Intensity
	if g.Limit > 0 && g.Used > g.Limit {
		return LimitExceeded{Limit: g.Limit}
	}
	return nil
}

// Env is a ledger plus deployed code that persists across executions.
type Env struct {
	Ledger   TestLedger
	Codes    map[common.Location][]byte
	Signers  []common.Address
	Limit    uint64 // computation limit per execution (default 100000)
	nextTx   func() common.TransactionLocation
	nextScr  func() common.ScriptLocation
	Random   func([]byte) error
	uuid     uint64
}

func NewEnv() *Env {
	return &Env{
		Ledger:  NewTestLedger(nil, nil),
		Codes:   map[common.Location][]byte{},
		Limit:   100000,
		nextTx:  NewTransactionLocationGenerator(),
		nextScr: NewScriptLocationGenerator(),
	}
}

func (e *Env) iface(out *Outcome) *TestRuntimeInterface {
	return &TestRuntimeInterface{
		Storage: e.Ledger,
		OnGetCode: func(l runtime.Location) ([]byte, error) {
			return e.Codes[l], nil
		},
		OnResolveLocation: MultipleIdentifierLocationResolver,
		OnGetAccountContractCode: func(l common.AddressLocation) ([]byte, error) {
			return e.Codes[l], nil
		},
		OnUpdateAccountContractCode: func(l common.AddressLocation, code []byte) error {
			e.Codes[l] = code
			return nil
		},
		OnRemoveAccountContractCode: func(l common.AddressLocation) error {
			delete(e.Codes, l)
			return nil
		},
		OnGetSigningAccounts: func() ([]runtime.Address, error) { return e.Signers, nil },
		OnProgramLog:         func(s string) { out.Logs = append(out.Logs, s) },
		OnEmitEvent: func(ev cadence.Event) error {
			out.Events = append(out.Events, ev)
			return nil
		},
		OnGenerateUUID: func() (uint64, error) { e.uuid++; return e.uuid, nil },
		OnReadRandom:   e.Random,
		OnDecodeArgument: func(b []byte, t cadence.Type) (cadence.Value, error) {
			return jsonDecode(b)
		},
	}
}

// Classify maps an error returned by the runtime to (class, kind).
func Classify(err error) (class, kind string) {
	if err == nil {
		return "none", ""
	}
	kind = InnerKind(err)
	switch {
	case cerrors.IsInternalError(err):
		return "internal", kind
	case func() bool { _, ok := cerrors.GetExternalError(err); return ok }():
		return "external", kind
	case cerrors.IsUserError(err):
		return "user", kind
	}
	return "other", kind
}

// InnerKind returns the type name of the deepest error in the Unwrap chain that is not a generic wrapper.
func InnerKind(err error) string {
	last := ""
	for err != nil {
		t := reflect.TypeOf(err)
		name := t.String()
		name = strings.TrimPrefix(name, "*")
		switch name {
		case "runtime.Error", "interpreter.Error", "errors.errorString", "fmt.wrapError", "interpreter.PositionedError":
		default:
			last = name
		}
		var next error
		switch x := err.(type) {
		case interface{ Unwrap() error }:
			next = x.Unwrap()
		}
		err = next
	}
	return last
}

func (e *Env) finish(out *Outcome, v cadence.Value, err error) *Outcome {
	out.Value = v
	out.Err = err
	out.Class, out.Kind = Classify(err)
	return out
}

// Script runs a script.
func (e *Env) Script(src string, args [][]byte, useVM bool) (out *Outcome) {
	out = &Outcome{}
	defer func() {
		if r := recover(); r != nil {
			out.Err = fmt.Errorf("escaped panic: %v", r)
			out.Class, out.Kind = "crash", "escaped-panic"
		}
	}()
	rt := NewTestRuntime()
	v, err := rt.ExecuteScript(
		runtime.Script{Source: []byte(src), Arguments: args},
		runtime.Context{
			Interface:        e.iface(out),
			Location:         e.nextScr(),
			UseVM:            useVM,
			ComputationGauge: &Gauge{Limit: e.Limit},
		},
	)
	return e.finish(out, v, err)
}

// Tx runs a transaction.
func (e *Env) Tx(src string, args [][]byte, useVM bool) (out *Outcome) {
	out = &Outcome{}
	defer func() {
		if r := recover(); r != nil {
			out.Err = fmt.Errorf("escaped panic: %v", r)
			out.Class, out.Kind = "crash", "escaped-panic"
		}
	}()
	rt := NewTestRuntime()
	err := rt.ExecuteTransaction(
		runtime.Script{Source: []byte(src), Arguments: args},
		runtime.Context{
			Interface:        e.iface(out),
			Location:         e.nextTx(),
			UseVM:            useVM,
			ComputationGauge: &Gauge{Limit: e.Limit},
		},
	)
	return e.finish(out, nil, err)
}

// ErrString is a short rendering for debugging (never compared).
func ErrString(err error) string {
	if err == nil {
		return ""
	}
	var re runtime.Error
	if errors.As(err, &re) {
		return re.Err.Error()
	}
	return err.Error()
}
