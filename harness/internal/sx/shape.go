package sx

import (
	"github.com/onflow/cadence/ast"
	"github.com/onflow/cadence/interpreter"
)

// HasUnboxedCond is the Go-side twin of `programHasUnboxedCond` in lean/Drv/Lang.lean, for programs
// that cannot be serialised (out of the model's fragment): the shape of the known finding
// `conditional-result-not-boxed` — a conditional expression that is the left operand of `??` or the
// target of optional chaining (`?.`), anywhere in the program (function expressions and inner
// functions included).
func HasUnboxedCond(p *interpreter.Program) (found bool) {
	defer func() {
		if r := recover(); r != nil {
			found = false
		}
	}()
	ast.Inspect(p.Program, func(e ast.Element) bool {
		switch x := e.(type) {
		case *ast.BinaryExpression:
			if x.Operation == ast.OperationNilCoalesce {
				if _, ok := x.Left.(*ast.ConditionalExpression); ok {
					found = true
				}
			}
		case *ast.MemberExpression:
			if x.Optional {
				if _, ok := x.Expression.(*ast.ConditionalExpression); ok {
					found = true
				}
			}
		}
		return !found
	})
	return found
}
