package sx

import (
	"github.com/onflow/cadence/ast"
	"github.com/onflow/cadence/interpreter"
)

// HasUnboxedCond is the Go-side twin of `programHasUnboxedCond` in lean/Drv/Lang.lean, for programs
// that cannot be serialised (out of the model's fragment): the shape of the known finding
// `conditional-result-not-boxed` — a conditional expression that is the left operand of `??` or the
// target of optional chaining (`?.`), anywhere in the program (function expressions and inner
// functions included).
func HasUnboxedCond(p *interpreter.Program) (found bool) {
	defer func() {
		if r := recover(); r != nil {
			found = false
		}
	}()
	ast.Inspect(p.Program, func(e ast.Element) bool {
		switch x := e.(type) {
		case *ast.BinaryExpression:
			if x.Operation == ast.OperationNilCoalesce {
				if _, ok := x.Left.(*ast.ConditionalExpression); ok {
					found = true
				}
			}
		case *ast.MemberExpression:
			if x.Optional {
				if _, ok := x.Expression.(*ast.ConditionalExpression); ok {
					found = true
				}
			}
		}
		return !found
	})
	return found
}

// DepthShapes reports the program shapes behind the known finding `call-depth-counts-argument-nesting`
// (the interpreter's stack-depth limiter counts every invocation expression from *before* its arguments
// are evaluated, native functions included; the VM counts call frames of compiled functions only):
//
//	arg-nested-call  an invocation occurs inside an argument of an invocation (`id(f(n - 1))`)
//	native-call      an invocation whose callee is not declared in the program (`log(…)`, `panic(…)`,
//	                 `arr.append(…)`): it has no VM call frame
func DepthShapes(p *interpreter.Program) (shapes []string) {
	defer func() {
		if r := recover(); r != nil {
			shapes = nil
		}
	}()
	declared := map[string]bool{}
	ast.Inspect(p.Program, func(e ast.Element) bool {
		switch x := e.(type) {
		case *ast.FunctionDeclaration:
			declared[x.Identifier.Identifier] = true
			if x.ParameterList != nil {
				for _, prm := range x.ParameterList.Parameters {
					declared[prm.Identifier.Identifier] = true
				}
			}
		case *ast.FunctionExpression:
			if x.ParameterList != nil {
				for _, prm := range x.ParameterList.Parameters {
					declared[prm.Identifier.Identifier] = true
				}
			}
		case *ast.VariableDeclaration:
			declared[x.Identifier.Identifier] = true
		case *ast.CompositeDeclaration:
			declared[x.Identifier.Identifier] = true
		}
		return true
	})
	argNested, native := false, false
	ast.Inspect(p.Program, func(e ast.Element) bool {
		inv, ok := e.(*ast.InvocationExpression)
		if !ok {
			return true
		}
		switch callee := inv.InvokedExpression.(type) {
		case *ast.IdentifierExpression:
			if !declared[callee.Identifier.Identifier] {
				native = true
			}
		case *ast.MemberExpression:
			if !declared[callee.Identifier.Identifier] {
				native = true
			}
		}
		for _, arg := range inv.Arguments {
			ast.Inspect(arg.Expression, func(a ast.Element) bool {
				if _, ok := a.(*ast.InvocationExpression); ok {
					argNested = true
				}
				return !argNested
			})
		}
		return true
	})
	if argNested {
		shapes = append(shapes, "arg-nested-call")
	}
	if native {
		shapes = append(shapes, "native-call")
	}
	return shapes
}
