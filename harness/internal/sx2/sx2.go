// Package sx2 is the layer-L2 bridge (resources, moves, references, storage primitives): the extension
// of package sx for lean/Verif/Model/Lang2/Syntax.lean (grammar documented there).
//
// Package sx serialises the *real* checked program (ast.Program from /repo/parser plus the few type
// facts of the checker's Elaboration that the run-time semantics depends on) into the S-expression
// format read by lean/Verif/Model/Lang/SExpr.lean (the grammar is documented there).
//
// Any node outside the μCadence fragment (DESIGN §4.1, layers L0 and the start of L1) makes the
// program "out of fragment": Program returns an *OutOfFragment error naming the first such node.
package sx2

import (
	"fmt"
	"strings"

	"github.com/onflow/cadence/ast"
	"github.com/onflow/cadence/common"
	"github.com/onflow/cadence/interpreter"
	"github.com/onflow/cadence/sema"
)

// OutOfFragment is returned for programs the model does not cover.
type OutOfFragment struct{ What string }

func (e *OutOfFragment) Error() string { return "out-of-fragment:" + e.What }

type ser struct {
	elab    *sema.Elaboration
	funcs   map[string]bool // top-level functions
	structs map[string]bool
	resources map[string]bool
	// inMethod: serialising the body of a struct method / initialiser
	inInit   bool
	inMethod bool
}

func oof(format string, args ...any) {
	panic(&OutOfFragment{What: fmt.Sprintf(format, args...)})
}

// Program serialises a checked program.
func Program(p *interpreter.Program) (out string, err error) {
	defer func() {
		if r := recover(); r != nil {
			if o, ok := r.(*OutOfFragment); ok {
				err = o
				return
			}
			panic(r)
		}
	}()
	s := &ser{elab: p.Elaboration, funcs: map[string]bool{}, structs: map[string]bool{}, resources: map[string]bool{}}
	prog := p.Program
	for _, d := range prog.Declarations() {
		switch d := d.(type) {
		case *ast.FunctionDeclaration:
			s.funcs[d.Identifier.Identifier] = true
		case *ast.CompositeDeclaration:
			switch d.CompositeKind {
			case common.CompositeKindStructure:
				s.structs[d.Identifier.Identifier] = true
			case common.CompositeKindResource:
				s.resources[d.Identifier.Identifier] = true
			default:
				oof("composite-kind-%s", d.CompositeKind.Name())
			}
		default:
			oof("declaration-%T", d)
		}
	}
	var parts []string
	for _, d := range prog.Declarations() {
		switch d := d.(type) {
		case *ast.FunctionDeclaration:
			parts = append(parts, s.fun("fun", d))
		case *ast.CompositeDeclaration:
			parts = append(parts, s.composite(d))
		}
	}
	return "(program " + strings.Join(parts, " ") + ")", nil
}

func list(head string, items ...string) string {
	if len(items) == 0 {
		return "(" + head + ")"
	}
	return "(" + head + " " + strings.Join(items, " ") + ")"
}

var intKinds = map[string]bool{
	"Int": true, "UInt": true,
	"Int8": true, "Int16": true, "Int32": true, "Int64": true,
	"UInt8": true, "UInt16": true, "UInt32": true, "UInt64": true,
	"Word8": true, "Word16": true, "Word32": true, "Word64": true,
}

func (s *ser) semaType(t sema.Type) string {
	switch t := t.(type) {
	case *sema.OptionalType:
		return list("opt", s.semaType(t.Type))
	case *sema.VariableSizedType:
		return list("arr", s.semaType(t.Type))
	case *sema.DictionaryType:
		return list("dict", s.semaType(t.KeyType), s.semaType(t.ValueType))
	case *sema.CompositeType:
		if t.Kind == common.CompositeKindStructure && s.structs[t.Identifier] {
			return list("nom", t.Identifier)
		}
		if t.Kind == common.CompositeKindResource && s.resources[t.Identifier] {
			return list("res", t.Identifier)
		}
	case *sema.ReferenceType:
		if t.Type == sema.AccountType {
			return "Account"
		}
		return list("ref", s.semaType(t.Type))
	}
	switch t {
	case sema.BoolType:
		return "Bool"
	case sema.StringType:
		return "String"
	case sema.VoidType:
		return "Void"
	case sema.NeverType:
		return "Never"
	case sema.AnyStructType:
		return "AnyStruct"
	case sema.AnyResourceType:
		return "AnyResource"
	}
	if t != nil {
		name := t.QualifiedString()
		if intKinds[name] {
			return name
		}
		oof("type-%s", strings.ReplaceAll(name, " ", ""))
	}
	oof("type-nil")
	return ""
}

func (s *ser) astType(t ast.Type) string {
	switch t := t.(type) {
	case *ast.NominalType:
		if len(t.NestedIdentifiers) > 0 {
			oof("nested-nominal-type")
		}
		name := t.Identifier.Identifier
		switch name {
		case "Bool", "String", "Void", "Never", "AnyStruct", "AnyResource":
			return name
		}
		if s.resources[name] {
			return list("res", name)
		}
		if intKinds[name] {
			return name
		}
		if s.structs[name] {
			return list("nom", name)
		}
		oof("type-%s", name)
	case *ast.OptionalType:
		return list("opt", s.astType(t.Type))
	case *ast.VariableSizedType:
		return list("arr", s.astType(t.Type))
	case *ast.DictionaryType:
		return list("dict", s.astType(t.KeyType), s.astType(t.ValueType))
	case *ast.ReferenceType:
		if n, ok := t.Type.(*ast.NominalType); ok && n.Identifier.Identifier == "Account" {
			return "Account"
		}
		return list("ref", s.astType(t.Type))
	}
	oof("type-%T", t)
	return ""
}

func (s *ser) params(pl *ast.ParameterList) string {
	var ps []string
	if pl != nil {
		for _, p := range pl.Parameters {
			if p.DefaultArgument != nil {
				oof("default-argument")
			}
			ps = append(ps, list("param", p.Identifier.Identifier, s.astType(p.TypeAnnotation.Type)))
		}
	}
	return list("params", ps...)
}

func (s *ser) fun(head string, d *ast.FunctionDeclaration) string {
	if d.TypeParameterList != nil && len(d.TypeParameterList.TypeParameters) > 0 {
		oof("type-parameters")
	}
	if d.FunctionBlock == nil {
		oof("function-without-body")
	}
	if !d.FunctionBlock.PreConditions.IsEmpty() || !d.FunctionBlock.PostConditions.IsEmpty() {
		oof("conditions")
	}
	ret := "Void"
	if d.ReturnTypeAnnotation != nil {
		ret = s.astType(d.ReturnTypeAnnotation.Type)
	}
	return list(head, d.Identifier.Identifier, s.params(d.ParameterList), ret, s.block(d.FunctionBlock.Block))
}

func (s *ser) composite(d *ast.CompositeDeclaration) string {
	if len(d.Conformances) > 0 {
		oof("conformances")
	}
	var fields, rest []string
	inits := 0
	for _, m := range d.Members.Declarations() {
		switch m := m.(type) {
		case *ast.FieldDeclaration:
			kind := "var"
			if m.VariableKind == ast.VariableKindConstant {
				kind = "let"
			}
			fields = append(fields, list("field", kind, m.Identifier.Identifier, s.astType(m.TypeAnnotation.Type)))
		case *ast.SpecialFunctionDeclaration:
			if m.Kind != common.DeclarationKindInitializer {
				oof("special-function-%s", m.Kind.Name())
			}
			inits++
			s.inInit = true
			fd := m.FunctionDeclaration
			if !fd.FunctionBlock.PreConditions.IsEmpty() || !fd.FunctionBlock.PostConditions.IsEmpty() {
				oof("conditions")
			}
			rest = append(rest, list("init", s.params(fd.ParameterList), s.block(fd.FunctionBlock.Block)))
			s.inInit = false
		case *ast.FunctionDeclaration:
			s.inMethod = true
			rest = append(rest, s.fun("method", m))
			s.inMethod = false
		case *ast.CompositeDeclaration:
			// the default destruction event: `event ResourceDestroyed(name: T = default, ...)`
			if m.CompositeKind != common.CompositeKindEvent || m.Identifier.Identifier != "ResourceDestroyed" ||
				d.CompositeKind != common.CompositeKindResource {
				oof("nested-composite")
			}
			var evs []string
			for _, sf := range m.Members.SpecialFunctions() {
				pl := sf.FunctionDeclaration.ParameterList
				if pl == nil {
					continue
				}
				for _, p := range pl.Parameters {
					if p.DefaultArgument == nil {
						oof("event-parameter-without-default")
					}
					evs = append(evs, list("evparam", p.Identifier.Identifier, s.expr(p.DefaultArgument)))
				}
			}
			rest = append(rest, list("destroyevent", evs...))
		default:
			oof("member-%T", m)
		}
	}
	if inits > 1 {
		oof("several-initialisers")
	}
	head := "struct"
	if d.CompositeKind == common.CompositeKindResource {
		head = "resource"
	}
	return list(head, append([]string{d.Identifier.Identifier, list("fields", fields...)}, rest...)...)
}

func (s *ser) block(b *ast.Block) string {
	items := make([]string, len(b.Statements))
	for i, st := range b.Statements {
		items[i] = s.stmt(st)
	}
	return list("block", items...)
}


func (s *ser) target(e ast.Expression) string {
	switch x := e.(type) {
	case *ast.IdentifierExpression:
		return s.expr(e)
	case *ast.MemberExpression:
		if x.Optional {
			oof("optional-chaining-target")
		}
		return s.expr(e)
	case *ast.IndexExpression:
		return s.expr(e)
	}
	oof("assignment-target-%T", e)
	return ""
}

func (s *ser) stmt(st ast.Statement) string {
	switch st := st.(type) {
	case *ast.VariableDeclaration:
		if st.Transfer == nil || st.Transfer.Operation == ast.TransferOperationMoveForced {
			oof("transfer-operation")
		}
		kind := "var"
		if st.IsConstant {
			kind = "let"
		}
		types := s.elab.VariableDeclarationTypes(st)
		if st.SecondValue != nil {
			// let x <- target <- value: x : TargetType gets the old content of target, target : ValueType
			return list("let2", st.Identifier.Identifier, s.semaType(types.TargetType), s.semaType(types.ValueType),
				s.target(st.Value), s.expr(st.SecondValue))
		}
		return list(kind, st.Identifier.Identifier, s.semaType(types.TargetType), s.expr(st.Value))
	case *ast.AssignmentStatement:
		if st.Transfer == nil {
			oof("transfer-operation")
		}
		types := s.elab.AssignmentStatementTypes(st)
		head := "assign"
		if st.Transfer.Operation == ast.TransferOperationMoveForced {
			head = "fassign"
		}
		return list(head, s.target(st.Target), s.semaType(types.TargetType), s.expr(st.Value))
	case *ast.SwapStatement:
		types := s.elab.SwapStatementTypes(st)
		return list("swap", s.target(st.Left), s.semaType(types.LeftType), s.target(st.Right), s.semaType(types.RightType))
	case *ast.IfStatement:
		test, ok := st.Test.(ast.Expression)
		if !ok {
			vd, ok := st.Test.(*ast.VariableDeclaration)
			if !ok || vd.SecondValue != nil {
				oof("if-test-%T", st.Test)
			}
			types := s.elab.VariableDeclarationTypes(vd)
			items := []string{vd.Identifier.Identifier, s.semaType(types.TargetType), s.expr(vd.Value), s.block(st.Then)}
			if st.Else != nil {
				items = append(items, s.block(st.Else))
			}
			return list("iflet", items...)
		}
		items := []string{s.expr(test), s.block(st.Then)}
		if st.Else != nil {
			items = append(items, s.block(st.Else))
		}
		return list("if", items...)
	case *ast.WhileStatement:
		return list("while", s.expr(st.Test), s.block(st.Block))
	case *ast.BreakStatement:
		return "(break)"
	case *ast.ContinueStatement:
		return "(continue)"
	case *ast.ReturnStatement:
		if st.Expression == nil {
			return "(return)"
		}
		return list("return", s.expr(st.Expression))
	case *ast.ExpressionStatement:
		return list("expr", s.expr(st.Expression))
	}
	oof("statement-%T", st)
	return ""
}

var binOps = map[ast.Operation]string{
	ast.OperationPlus: "+", ast.OperationMinus: "-", ast.OperationMul: "*", ast.OperationDiv: "/",
	ast.OperationMod: "%", ast.OperationBitwiseAnd: "&", ast.OperationBitwiseOr: "|",
	ast.OperationBitwiseXor: "^", ast.OperationBitwiseLeftShift: "<<", ast.OperationBitwiseRightShift: ">>",
	ast.OperationEqual: "==", ast.OperationNotEqual: "!=", ast.OperationLess: "<",
	ast.OperationLessEqual: "<=", ast.OperationGreater: ">", ast.OperationGreaterEqual: ">=",
	ast.OperationAnd: "&&", ast.OperationOr: "||",
}

func quote(str string) string {
	for _, c := range str {
		if c < 0x20 || c > 0x7e || c == '"' || c == '\\' {
			oof("string-literal-character")
		}
	}
	return "\"" + str + "\""
}

func (s *ser) args(as ast.Arguments) []string {
	out := make([]string, len(as))
	for i, a := range as {
		out[i] = s.expr(a.Expression)
	}
	return out
}

func (s *ser) expr(e ast.Expression) string {
	switch e := e.(type) {
	case *ast.IntegerExpression:
		t := s.elab.IntegerExpressionType(e)
		name := t.QualifiedString()
		if name == "Integer" || name == "SignedInteger" {
			// literals typed by the supertypes Integer / SignedInteger are created as Int values by both
			// engines (NewIntegerValueFromBigInt, constant.FromSemaType)
			name = "Int"
		}
		if !intKinds[name] {
			oof("integer-literal-type-%s", strings.ReplaceAll(name, " ", ""))
		}
		return list("int", name, e.Value.String())
	case *ast.BoolExpression:
		if e.Value {
			return "(bool true)"
		}
		return "(bool false)"
	case *ast.StringExpression:
		return list("str", quote(e.Value))
	case *ast.VoidExpression:
		return "(void)"
	case *ast.NilExpression:
		return "(nil)"
	case *ast.IdentifierExpression:
		return list("var", e.Identifier.Identifier)
	case *ast.UnaryExpression:
		switch e.Operation {
		case ast.OperationMinus:
			return list("un", "-", s.expr(e.Expression))
		case ast.OperationNegate:
			return list("un", "!", s.expr(e.Expression))
		case ast.OperationMove:
			return list("move", s.expr(e.Expression))
		}
		oof("unary-%s", e.Operation.Symbol())
	case *ast.BinaryExpression:
		if e.Operation == ast.OperationNilCoalesce {
			types := s.elab.BinaryExpressionTypes(e)
			return list("coalesce", s.semaType(types.ResultType), s.expr(e.Left), s.expr(e.Right))
		}
		op, ok := binOps[e.Operation]
		if !ok {
			oof("binary-%s", e.Operation.Symbol())
		}
		return list("bin", op, s.expr(e.Left), s.expr(e.Right))
	case *ast.ConditionalExpression:
		return list("cond", s.expr(e.Test), s.expr(e.Then), s.expr(e.Else))
	case *ast.InvocationExpression:
		switch inv := e.InvokedExpression.(type) {
		case *ast.IdentifierExpression:
			name := inv.Identifier.Identifier
			if name == "getAuthAccount" && len(e.Arguments) == 1 {
				if ie, ok := e.Arguments[0].Expression.(*ast.IntegerExpression); ok && ie.Value.Int64() == 1 {
					return "(account)"
				}
			}
			if len(e.TypeArguments) > 0 {
				oof("type-arguments")
			}
			if !(s.funcs[name] || s.structs[name] || name == "log" || name == "panic" || name == "assert") {
				oof("callee-%s", name)
			}
			return list("call", append([]string{name}, s.args(e.Arguments)...)...)
		case *ast.MemberExpression:
			info, ok := s.elab.MemberExpressionMemberAccessInfo(inv)
			if !ok || info.Member == nil || info.Member.DeclarationKind != common.DeclarationKindFunction {
				oof("invoked-member-kind")
			}
			accessed := info.AccessedType
			if info.IsOptional {
				accessed = sema.UnwrapOptionalType(accessed)
			}
			if rt, ok := accessed.(*sema.ReferenceType); ok {
				accessed = rt.Type
			}
			name := inv.Identifier.Identifier
			switch at := accessed.(type) {
			case *sema.CompositeType:
				if at == sema.Account_StorageType {
					return s.storageCall(e, inv, name)
				}
				if !(s.structs[at.Identifier] || s.resources[at.Identifier]) {
					oof("method-of-%s", strings.ReplaceAll(accessed.QualifiedString(), " ", ""))
				}
				head := "mcall"
				if inv.Optional {
					head = "omcall"
				}
				return list(head, append([]string{s.expr(inv.Expression), name}, s.args(e.Arguments)...)...)
			case *sema.VariableSizedType:
				switch name {
				case "append", "insert", "remove", "removeFirst", "removeLast":
				default:
					oof("array-function-%s", name)
				}
				if inv.Optional {
					oof("optional-builtin-call")
				}
				return list("bcall", append([]string{s.expr(inv.Expression), name}, s.args(e.Arguments)...)...)
			case *sema.DictionaryType:
				switch name {
				case "insert", "remove", "containsKey":
				default:
					oof("dictionary-function-%s", name)
				}
				if inv.Optional {
					oof("optional-builtin-call")
				}
				return list("bcall", append([]string{s.expr(inv.Expression), name}, s.args(e.Arguments)...)...)
			}
			oof("method-of-%s", strings.ReplaceAll(accessed.QualifiedString(), " ", ""))
		}
		oof("invoked-expression-%T", e.InvokedExpression)
	case *ast.ArrayExpression:
		types := s.elab.ArrayExpressionTypes(e)
		if _, ok := types.ArrayType.(*sema.VariableSizedType); !ok {
			oof("constant-sized-array")
		}
		return list("array", append([]string{s.semaType(types.ArrayType.ElementType(false))}, exprs(s, e.Values)...)...)
	case *ast.DictionaryExpression:
		types := s.elab.DictionaryExpressionTypes(e)
		items := []string{s.semaType(types.DictionaryType.KeyType), s.semaType(types.DictionaryType.ValueType)}
		for _, en := range e.Entries {
			items = append(items, list("entry", s.expr(en.Key), s.expr(en.Value)))
		}
		return list("dict", items...)
	case *ast.IndexExpression:
		types, ok := s.elab.IndexExpressionTypes(e)
		if !ok {
			oof("type-index")
		}
		var indexed sema.Type = types.IndexedType
		if rt, ok := indexed.(*sema.ReferenceType); ok {
			indexed = rt.Type
		}
		switch indexed.(type) {
		case *sema.VariableSizedType, *sema.DictionaryType:
		default:
			oof("indexed-type-%T", indexed)
		}
		head := "index"
		if types.ReturnReference {
			head = "rindex"
		}
		return list(head, s.expr(e.TargetExpression), s.expr(e.IndexingExpression))
	case *ast.MemberExpression:
		info, ok := s.elab.MemberExpressionMemberAccessInfo(e)
		if !ok || info.Member == nil || info.Member.DeclarationKind != common.DeclarationKindField {
			oof("member-kind")
		}
		accessed := info.AccessedType
		if info.IsOptional {
			accessed = sema.UnwrapOptionalType(accessed)
		}
		if rt, ok := accessed.(*sema.ReferenceType); ok {
			accessed = rt.Type
		}
		switch at := accessed.(type) {
		case *sema.CompositeType:
			if !(s.structs[at.Identifier] || s.resources[at.Identifier]) {
				oof("member-of-%s", strings.ReplaceAll(accessed.QualifiedString(), " ", ""))
			}
		case *sema.VariableSizedType, *sema.DictionaryType:
			if e.Identifier.Identifier != "length" || e.Optional {
				oof("container-member-%s", e.Identifier.Identifier)
			}
			return list("bcall", s.expr(e.Expression), "length")
		default:
			oof("member-of-%s", strings.ReplaceAll(accessed.QualifiedString(), " ", ""))
		}
		head := "member"
		if e.Optional {
			head = "omember"
		}
		if info.ReturnReference {
			head = "r" + head
		}
		return list(head, s.expr(e.Expression), e.Identifier.Identifier)
	case *ast.ForceExpression:
		return list("force", s.expr(e.Expression))
	case *ast.CreateExpression:
		inv := e.InvocationExpression
		id, ok := inv.InvokedExpression.(*ast.IdentifierExpression)
		if !ok || !s.resources[id.Identifier.Identifier] || len(inv.TypeArguments) > 0 {
			oof("create-of-%T", inv.InvokedExpression)
		}
		return list("create", append([]string{id.Identifier.Identifier}, s.args(inv.Arguments)...)...)
	case *ast.DestroyExpression:
		return list("destroy", s.expr(e.Expression))
	case *ast.ReferenceExpression:
		return list("ref", s.semaType(s.elab.ReferenceExpressionBorrowType(e)), s.expr(e.Expression))
	case *ast.CastingExpression:
		if e.Operation != ast.OperationCast {
			oof("dynamic-cast")
		}
		if _, ok := e.Expression.(*ast.ReferenceExpression); ok {
			// `&e as &T`: the cast is the identity on the reference
			return s.expr(e.Expression)
		}
		types := s.elab.CastingExpressionTypes(e)
		return list("cast", s.semaType(types.TargetType), s.expr(e.Expression))
	}
	oof("expression-%T", e)
	return ""
}

func exprs(s *ser, es []ast.Expression) []string {
	out := make([]string, len(es))
	for i, e := range es {
		out[i] = s.expr(e)
	}
	return out
}

// storageCall serialises `acct.storage.save(v, to: /storage/p)`, `.load<T>(from: p)`, `.copy<T>(from: p)`,
// `.borrow<&T>(from: p)`, `.check<T>(from: p)`; the account expression must be an identifier (no effects).
func (s *ser) storageCall(e *ast.InvocationExpression, inv *ast.MemberExpression, name string) string {
	base, ok := inv.Expression.(*ast.MemberExpression)
	if !ok || base.Identifier.Identifier != "storage" {
		oof("storage-receiver")
	}
	if _, ok := base.Expression.(*ast.IdentifierExpression); !ok {
		oof("storage-receiver")
	}
	path := func(a *ast.Argument) string {
		pe, ok := a.Expression.(*ast.PathExpression)
		if !ok || pe.Domain.Identifier != "storage" {
			oof("storage-path")
		}
		return pe.Identifier.Identifier
	}
	switch name {
	case "save":
		if len(e.Arguments) != 2 {
			oof("storage-save-arity")
		}
		return list("save", path(e.Arguments[1]), s.expr(e.Arguments[0].Expression))
	case "load", "copy", "borrow", "check":
		if len(e.Arguments) != 1 || len(e.TypeArguments) != 1 {
			oof("storage-%s-arity", name)
		}
		return list(name, s.astType(e.TypeArguments[0].Type), path(e.Arguments[0]))
	}
	oof("storage-function-%s", name)
	return ""
}
