package lang2

// Generator of stream `copysem` (C05): a nested non-resource value `a` (structs, arrays, dictionaries,
// optionals, up to depth 5), a second value obtained from it by one *transfer form*, a dump of both,
// a random mutation script applied to one side only (directly along owned paths, through struct
// methods, through references), a dump of both again.  The log is
//   =A0 <dump a> =B0 <dump b> =M =A1 <dump a> =B1 <dump b> =E
// The direct oracle (independent of the model): the dump of the untouched side is the same before and
// after the mutations.

import (
	"fmt"
	"strings"

	"verif/harness/internal/hx"
)

// CopyPrelude declares the struct universe, its mutators and the dump functions.
const CopyPrelude = `access(all) struct P {
    access(all) var v: Int
    access(all) var xs: [Int]
    init(_ v: Int) { self.v = v; self.xs = [v, v + 1] }
    access(all) fun setV(_ k: Int) { self.v = k }
    access(all) fun bump(_ k: Int) { self.v = self.v + k; self.xs.append(k) }
}
access(all) struct Q {
    access(all) var p: P
    access(all) var ps: [P]
    access(all) var m: {String: P}
    access(all) var o: P?
    init(_ n: Int) { self.p = P(n); self.ps = [P(n + 10), P(n + 11)]; self.m = {"a": P(n + 20)}; self.o = P(n + 30) }
    access(all) fun setP(_ p: P) { self.p = p }
    access(all) fun addP(_ p: P) { self.ps.append(p) }
    access(all) fun putM(_ k: String, _ p: P) { self.m[k] = p }
    access(all) fun setO(_ o: P?) { self.o = o }
    access(all) fun deep(_ k: Int) { self.ps[0].bump(k); self.p.xs[0] = k }
}
access(all) struct W {
    access(all) var q: Q
    access(all) var qs: [Q]
    access(all) var g: [[Int]]
    access(all) var d: {String: [P]}
    init(_ n: Int) { self.q = Q(n); self.qs = [Q(n + 100)]; self.g = [[n], [n, n]]; self.d = {"a": [P(n + 40)]} }
    access(all) fun setQ(_ q: Q) { self.q = q }
    access(all) fun addQ(_ q: Q) { self.qs.append(q) }
    access(all) fun deep(_ k: Int) { self.qs[0].ps[0].xs[0] = k; self.g[1][0] = k }
}
access(all) struct HP { access(all) var f: P; init(_ f: P) { self.f = f }; access(all) fun set(_ f: P) { self.f = f } }
access(all) struct HQ { access(all) var f: Q; init(_ f: Q) { self.f = f }; access(all) fun set(_ f: Q) { self.f = f } }
access(all) struct HW { access(all) var f: W; init(_ f: W) { self.f = f }; access(all) fun set(_ f: W) { self.f = f } }
access(all) struct HAP { access(all) var f: [P]; init(_ f: [P]) { self.f = f }; access(all) fun set(_ f: [P]) { self.f = f } }
access(all) struct HDQ { access(all) var f: {String: Q}; init(_ f: {String: Q}) { self.f = f }; access(all) fun set(_ f: {String: Q}) { self.f = f } }
access(all) struct HG { access(all) var f: [[Int]]; init(_ f: [[Int]]) { self.f = f }; access(all) fun set(_ f: [[Int]]) { self.f = f } }
access(all) fun dP(_ x: P) { log(x.v); log(x.xs) }
access(all) fun dOP(_ x: P?) { if let y = x { dP(y) } else { log("nil") } }
access(all) fun dAP(_ x: [P]) { log(x.length); var i = 0; while i < x.length { dP(x[i]); i = i + 1 } }
access(all) fun dDP(_ x: {String: P}) { log(x.length); dOP(x["a"]); dOP(x["b"]); dOP(x["c"]) }
access(all) fun dQ(_ x: Q) { dP(x.p); dAP(x.ps); dDP(x.m); dOP(x.o) }
access(all) fun dOQ(_ x: Q?) { if let y = x { dQ(y) } else { log("nil") } }
access(all) fun dAQ(_ x: [Q]) { log(x.length); var i = 0; while i < x.length { dQ(x[i]); i = i + 1 } }
access(all) fun dDQ(_ x: {String: Q}) { log(x.length); dOQ(x["a"]); dOQ(x["b"]) }
access(all) fun dG(_ x: [[Int]]) { log(x.length); var i = 0; while i < x.length { log(x[i]); i = i + 1 } }
access(all) fun dOAP(_ x: [P]?) { if let y = x { dAP(y) } else { log("nil") } }
access(all) fun dDAP(_ x: {String: [P]}) { log(x.length); dOAP(x["a"]); dOAP(x["b"]) }
access(all) fun dW(_ x: W) { dQ(x.q); dAQ(x.qs); dG(x.g); dDAP(x.d) }
access(all) fun idP(_ x: P): P { return x }
access(all) fun idQ(_ x: Q): Q { return x }
access(all) fun idW(_ x: W): W { return x }
access(all) fun idAP(_ x: [P]): [P] { return x }
access(all) fun idDQ(_ x: {String: Q}): {String: Q} { return x }
access(all) fun idG(_ x: [[Int]]): [[Int]] { return x }
`

// ctype describes one of the copied value types.
type ctype struct {
	name   string // P Q W AP DQ G
	src    string // Cadence type
	holder string
}

var ctypes = []ctype{
	{"P", "P", "HP"}, {"Q", "Q", "HQ"}, {"W", "W", "HW"},
	{"AP", "[P]", "HAP"}, {"DQ", "{String: Q}", "HDQ"}, {"G", "[[Int]]", "HG"},
}

type cg struct {
	r     *hx.Rng
	nref  int
	forms map[string]bool
}

func (g *cg) k() int { return g.r.Intn(90) + 1 }

func (g *cg) ctor(t string) string {
	switch t {
	case "P":
		return fmt.Sprintf("P(%d)", g.k())
	case "Q":
		return fmt.Sprintf("Q(%d)", g.k())
	case "W":
		return fmt.Sprintf("W(%d)", g.k())
	case "AP":
		n := g.r.Intn(3) + 1
		var xs []string
		for i := 0; i < n; i++ {
			xs = append(xs, g.ctor("P"))
		}
		return "[" + strings.Join(xs, ", ") + "]"
	case "DQ":
		if g.r.Bool() {
			return fmt.Sprintf(`{"a": %s}`, g.ctor("Q"))
		}
		return fmt.Sprintf(`{"a": %s, "b": %s}`, g.ctor("Q"), g.ctor("Q"))
	case "G":
		return fmt.Sprintf("[[%d], [%d, %d], [%d]]", g.k(), g.k(), g.k(), g.k())
	}
	panic(t)
}

// mutate returns statements mutating the value of type t at the owned path `path`.
func (g *cg) mutate(path, t string, depth int) []string {
	g.forms["mut-"+t] = true
	viaRef := func(ty string) (string, string) {
		g.nref++
		name := fmt.Sprintf("r%d", g.nref)
		g.forms["via-ref"] = true
		return name, fmt.Sprintf("let %s = &%s as %s", name, path, ty)
	}
	switch t {
	case "P":
		switch g.r.Intn(5) {
		case 0:
			return []string{fmt.Sprintf("%s.setV(%d)", path, g.k())}
		case 1:
			return []string{fmt.Sprintf("%s.bump(%d)", path, g.k())}
		case 2:
			n, decl := viaRef("&P")
			return []string{decl, fmt.Sprintf("%s.bump(%d)", n, g.k())}
		case 3:
			return g.mutate(path+".xs", "AI", depth+1)
		default:
			n, decl := viaRef("&P")
			return []string{decl, fmt.Sprintf("%s.setV(%d)", n, g.k())}
		}
	case "AI":
		switch g.r.Intn(5) {
		case 0:
			return []string{fmt.Sprintf("%s.append(%d)", path, g.k())}
		case 1:
			return []string{fmt.Sprintf("if %s.length > 0 { %s[0] = %d }", path, path, g.k())}
		case 2:
			return []string{fmt.Sprintf("if %s.length > 0 { %s.remove(at: 0) }", path, path)}
		case 3:
			n, decl := viaRef("auth(Mutate) &[Int]")
			return []string{decl, fmt.Sprintf("%s.append(%d)", n, g.k())}
		default:
			return []string{fmt.Sprintf("%s.insert(at: 0, %d)", path, g.k())}
		}
	case "AP":
		switch g.r.Intn(6) {
		case 0:
			return []string{fmt.Sprintf("%s.append(%s)", path, g.ctor("P"))}
		case 1:
			return []string{fmt.Sprintf("if %s.length > 0 { %s[0] = %s }", path, path, g.ctor("P"))}
		case 2:
			return []string{fmt.Sprintf("if %s.length > 0 { %s.remove(at: 0) }", path, path)}
		case 3:
			n, decl := viaRef("auth(Mutate) &[P]")
			return []string{decl, fmt.Sprintf("%s.append(%s)", n, g.ctor("P"))}
		default:
			inner := g.mutate(path+"[0]", "P", depth+1)
			return []string{fmt.Sprintf("if %s.length > 0 { %s }", path, strings.Join(inner, "; "))}
		}
	case "DP":
		key := g.r.Pick([]string{"a", "b", "c"})
		switch g.r.Intn(5) {
		case 0:
			return []string{fmt.Sprintf(`%s["%s"] = %s`, path, key, g.ctor("P"))}
		case 1:
			return []string{fmt.Sprintf(`%s.remove(key: "%s")`, path, key)}
		case 2:
			return []string{fmt.Sprintf(`%s.insert(key: "%s", %s)`, path, key, g.ctor("P"))}
		case 3:
			return []string{fmt.Sprintf(`%s["%s"]?.bump(%d)`, path, key, g.k())}
		default:
			return []string{fmt.Sprintf(`%s["%s"] = nil`, path, key)}
		}
	case "Q":
		switch g.r.Intn(9) {
		case 0:
			return []string{fmt.Sprintf("%s.setP(%s)", path, g.ctor("P"))}
		case 1:
			return []string{fmt.Sprintf("%s.addP(%s)", path, g.ctor("P"))}
		case 2:
			return []string{fmt.Sprintf(`%s.putM("%s", %s)`, path, g.r.Pick([]string{"a", "b"}), g.ctor("P"))}
		case 3:
			if g.r.Bool() {
				return []string{fmt.Sprintf("%s.setO(nil)", path)}
			}
			return []string{fmt.Sprintf("%s.setO(%s)", path, g.ctor("P"))}
		case 4:
			return g.mutate(path+".p", "P", depth+1)
		case 5:
			return g.mutate(path+".ps", "AP", depth+1)
		case 6:
			return g.mutate(path+".m", "DP", depth+1)
		case 7:
			n, decl := viaRef("&Q")
			return []string{decl, fmt.Sprintf("%s.deep(%d)", n, g.k())}
		default:
			return []string{fmt.Sprintf("%s.o?.bump(%d)", path, g.k())}
		}
	case "AQ":
		switch g.r.Intn(4) {
		case 0:
			return []string{fmt.Sprintf("%s.append(%s)", path, g.ctor("Q"))}
		case 1:
			return []string{fmt.Sprintf("if %s.length > 1 { %s.remove(at: 1) }", path, path)}
		default:
			inner := g.mutate(path+"[0]", "Q", depth+1)
			return []string{fmt.Sprintf("if %s.length > 0 { %s }", path, strings.Join(inner, "; "))}
		}
	case "DQ":
		key := g.r.Pick([]string{"a", "b"})
		switch g.r.Intn(5) {
		case 0:
			return []string{fmt.Sprintf(`%s["%s"] = %s`, path, key, g.ctor("Q"))}
		case 1:
			return []string{fmt.Sprintf(`%s.remove(key: "%s")`, path, key)}
		case 2:
			return []string{fmt.Sprintf(`%s["%s"]?.deep(%d)`, path, key, g.k())}
		default:
			inner := g.mutate(path+`["a"]!`, "Q", depth+1)
			return []string{fmt.Sprintf(`if %s.containsKey("a") { %s }`, path, strings.Join(inner, "; "))}
		}
	case "G":
		switch g.r.Intn(4) {
		case 0:
			return []string{fmt.Sprintf("%s.append([%d])", path, g.k())}
		case 1:
			return []string{fmt.Sprintf("if %s.length > 0 { %s[0].append(%d) }", path, path, g.k())}
		case 2:
			return []string{fmt.Sprintf("if %s.length > 1 { %s[1] = [%d, %d] }", path, path, g.k(), g.k())}
		default:
			inner := g.mutate(path+"[0]", "AI", depth+1)
			return []string{fmt.Sprintf("if %s.length > 0 { %s }", path, strings.Join(inner, "; "))}
		}
	case "DAP":
		switch g.r.Intn(3) {
		case 0:
			return []string{fmt.Sprintf(`%s["b"] = [%s]`, path, g.ctor("P"))}
		case 1:
			return []string{fmt.Sprintf(`%s["a"]?.append(%s)`, path, g.ctor("P"))}
		default:
			inner := g.mutate(path+`["a"]!`, "AP", depth+1)
			return []string{fmt.Sprintf(`if %s.containsKey("a") { %s }`, path, strings.Join(inner, "; "))}
		}
	case "W":
		switch g.r.Intn(8) {
		case 0:
			return []string{fmt.Sprintf("%s.setQ(%s)", path, g.ctor("Q"))}
		case 1:
			return []string{fmt.Sprintf("%s.addQ(%s)", path, g.ctor("Q"))}
		case 2:
			return []string{fmt.Sprintf("%s.deep(%d)", path, g.k())}
		case 3:
			return g.mutate(path+".q", "Q", depth+1)
		case 4:
			return g.mutate(path+".qs", "AQ", depth+1)
		case 5:
			return g.mutate(path+".g", "G", depth+1)
		case 6:
			return g.mutate(path+".d", "DAP", depth+1)
		default:
			n, decl := viaRef("&W")
			return []string{decl, fmt.Sprintf("%s.deep(%d)", n, g.k())}
		}
	}
	panic("mutate " + t)
}

// CopyProg is one generated copysem program.
type CopyProg struct {
	Src       string
	Untouched string // A or B
	Forms     []string
}

// GenerateCopy builds one program.
func GenerateCopy(r *hx.Rng) *CopyProg {
	g := &cg{r: r, forms: map[string]bool{}}
	t := ctypes[r.Intn(len(ctypes))]
	g.forms["type-"+t.name] = true
	var b strings.Builder
	w := func(f string, a ...any) { fmt.Fprintf(&b, "    "+f+"\n", a...) }
	b.WriteString(CopyPrelude)
	b.WriteString("access(all) fun main(): Int {\n")
	w("var a = %s", g.ctor(t.name))
	// pre-mutation of the source so that the copied graph is not just a literal
	if r.Chance(50) {
		for _, s := range g.mutate("a", t.name, 0) {
			w("%s", s)
		}
	}
	bpath := "b"
	form := r.Intn(10)
	switch form {
	case 0:
		g.forms["xfer-let"] = true
		w("var b = a")
	case 1:
		g.forms["xfer-assign"] = true
		w("var b = %s", g.ctor(t.name))
		w("b = a")
	case 2:
		g.forms["xfer-arg-return"] = true
		w("var b = id%s(a)", t.name)
	case 3:
		g.forms["xfer-field-init"] = true
		w("var h = %s(a)", t.holder)
		bpath = "h.f"
	case 4:
		g.forms["xfer-field-set"] = true
		w("var h = %s(%s)", t.holder, g.ctor(t.name))
		w("h.set(a)")
		bpath = "h.f"
	case 5:
		g.forms["xfer-array-append"] = true
		w("var arr: [%s] = []", t.src)
		w("arr.append(a)")
		bpath = "arr[0]"
	case 6:
		g.forms["xfer-dict-literal"] = true
		w(`var dd: {String: %s} = {"k": a}`, t.src)
		bpath = `dd["k"]!`
	case 7:
		g.forms["xfer-storage-save-load"] = true
		w("let acct = getAuthAccount<auth(Storage) &Account>(0x1)")
		w("acct.storage.save(a, to: /storage/s)")
		w("var b = acct.storage.load<%s>(from: /storage/s)!", t.src)
	case 8:
		g.forms["xfer-storage-save-copy"] = true
		w("let acct = getAuthAccount<auth(Storage) &Account>(0x1)")
		w("acct.storage.save(a, to: /storage/s)")
		w("var b = acct.storage.copy<%s>(from: /storage/s)!", t.src)
	default:
		g.forms["xfer-closure-capture"] = true
		w("let f = fun (): %s { return a }", t.src)
		w("var b = f()")
	}
	dump := func(tag, path string) {
		w(`log("=%s")`, tag)
		w("d%s(%s)", t.name, path)
	}
	dump("A0", "a")
	dump("B0", bpath)
	w(`log("=M")`)
	side, path := "A", "a"
	untouched := "B"
	if r.Bool() {
		side, path, untouched = "B", bpath, "A"
	}
	g.forms["mutate-"+side] = true
	n := r.Intn(4) + 1
	for i := 0; i < n; i++ {
		for _, s := range g.mutate(path, t.name, 0) {
			w("%s", s)
		}
	}
	dump("A1", "a")
	dump("B1", bpath)
	w(`log("=E")`)
	w("return 0")
	b.WriteString("}\n")
	forms := make([]string, 0, len(g.forms))
	for f := range g.forms {
		forms = append(forms, f)
	}
	sortStrings(forms)
	return &CopyProg{Src: b.String(), Untouched: untouched, Forms: forms}
}

func sortStrings(xs []string) {
	for i := 1; i < len(xs); i++ {
		for j := i; j > 0 && xs[j] < xs[j-1]; j-- {
			xs[j], xs[j-1] = xs[j-1], xs[j]
		}
	}
}
