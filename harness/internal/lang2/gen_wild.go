package lang2

// The "wild" generator of stream `nointernal` (C01): Cadence snippets harvested from the raw string
// literals of the repository's own `*_test.go` sources (all language features), normalised into scripts
// (access modifiers added where the strict runtime checker requires them, a `main` entry point added
// that calls `test()` when the snippet has one) and mutated (literal, operator, type, line-level
// mutations).  Most mutants are rejected by the checker and skipped; the accepted ones are run in both
// engines under the direct oracle "no internal error, no crash, no timeout".

import (
	"os"
	"path/filepath"
	"regexp"
	"sort"
	"strings"
	"sync"

	"verif/harness/internal/hx"
)

var (
	wildOnce     sync.Once
	wildSnippets []string
)

var rawString = regexp.MustCompile("`([^`]*)`")

func repoDir() string {
	if d := os.Getenv("VERIF_REPO"); d != "" {
		return d
	}
	return "/repo"
}

// harvest collects candidate snippets (deterministic order).
func harvest() {
	var files []string
	for _, dir := range []string{"interpreter", "runtime", "sema", "bbq"} {
		_ = filepath.Walk(filepath.Join(repoDir(), dir), func(p string, info os.FileInfo, err error) error {
			if err == nil && !info.IsDir() && strings.HasSuffix(p, "_test.go") {
				files = append(files, p)
			}
			return nil
		})
	}
	sort.Strings(files)
	seen := map[string]bool{}
	for _, f := range files {
		b, err := os.ReadFile(f)
		if err != nil {
			continue
		}
		for _, m := range rawString.FindAllSubmatch(b, -1) {
			s := string(m[1])
			if len(s) < 20 || len(s) > 2500 {
				continue
			}
			if strings.Contains(s, "%") || strings.Contains(s, "import ") || strings.Contains(s, "transaction") ||
				strings.Contains(s, "contract ") || strings.Contains(s, "#") {
				continue
			}
			if !(strings.Contains(s, "fun main()") || strings.Contains(s, "fun test()")) {
				continue
			}
			if seen[s] {
				continue
			}
			seen[s] = true
			wildSnippets = append(wildSnippets, s)
		}
	}
}

var declStart = regexp.MustCompile(`^(fun|let|var|struct|resource|event|enum|attachment|entitlement|view fun|init\b)`)
var compositeStart = regexp.MustCompile(`^(access\([a-zA-Z, ()|]*\)\s+)?(struct|resource|attachment|enum)\b`)

// Normalise adds `access(all)` to declarations at the top level and directly inside composite bodies,
// and a `main` that calls `test()` when there is no `main`.
func Normalise(src string) string {
	lines := strings.Split(src, "\n")
	var stack []bool // true = composite body, false = code
	var out []string
	for _, line := range lines {
		trimmed := strings.TrimSpace(line)
		declPos := len(stack) == 0 || stack[len(stack)-1]
		isComposite := compositeStart.MatchString(trimmed)
		if declPos && declStart.MatchString(trimmed) && !strings.HasPrefix(trimmed, "init") {
			indent := line[:len(line)-len(strings.TrimLeft(line, " \t"))]
			line = indent + "access(all) " + trimmed
		}
		out = append(out, line)
		// brace tracking (strings and comments are ignored: a heuristic)
		for _, c := range trimmed {
			switch c {
			case '{':
				stack = append(stack, isComposite)
				isComposite = false
			case '}':
				if len(stack) > 0 {
					stack = stack[:len(stack)-1]
				}
			}
		}
	}
	res := strings.Join(out, "\n")
	if !strings.Contains(res, "fun main()") && strings.Contains(res, "fun test()") {
		res += "\naccess(all) fun main() { test() }\n"
	}
	return res
}

var intLit = regexp.MustCompile(`\b[0-9]+\b`)

var opSwaps = [][2]string{
	{" == ", " != "}, {" + ", " - "}, {" < ", " <= "}, {" > ", " >= "}, {" as! ", " as? "}, {" as? ", " as! "},
	{" && ", " || "}, {" * ", " / "}, {" / ", " % "}, {" ?? ", " ?? nil ?? "}, {"<-!", "<-"},
	{": Int ", ": Int8 "}, {": Int ", ": Int? "}, {"Int8", "Int16"}, {"UInt8", "Int8"}, {"&", "&"},
}

var boundary = []string{"0", "1", "2", "127", "128", "255", "256", "32767", "9223372036854775807", "18446744073709551616"}

// Mutate applies k random mutations.
func Mutate(r *hx.Rng, src string, k int) (string, []string) {
	var forms []string
	for i := 0; i < k; i++ {
		switch r.Intn(6) {
		case 0: // integer literal → boundary value
			locs := intLit.FindAllStringIndex(src, -1)
			if len(locs) > 0 {
				l := locs[r.Intn(len(locs))]
				src = src[:l[0]] + boundary[r.Intn(len(boundary))] + src[l[1]:]
				forms = append(forms, "mut-literal")
			}
		case 1: // operator / type swap
			sw := opSwaps[r.Intn(len(opSwaps))]
			if idx := strings.Index(src, sw[0]); idx >= 0 {
				src = src[:idx] + sw[1] + src[idx+len(sw[0]):]
				forms = append(forms, "mut-operator")
			}
		case 2: // delete a line
			lines := strings.Split(src, "\n")
			if len(lines) > 3 {
				j := r.Intn(len(lines))
				lines = append(lines[:j], lines[j+1:]...)
				src = strings.Join(lines, "\n")
				forms = append(forms, "mut-delete-line")
			}
		case 3: // duplicate a line
			lines := strings.Split(src, "\n")
			if len(lines) > 1 {
				j := r.Intn(len(lines))
				lines = append(lines[:j+1], lines[j:]...)
				src = strings.Join(lines, "\n")
				forms = append(forms, "mut-duplicate-line")
			}
		case 4: // swap two adjacent lines
			lines := strings.Split(src, "\n")
			if len(lines) > 2 {
				j := r.Intn(len(lines) - 1)
				lines[j], lines[j+1] = lines[j+1], lines[j]
				src = strings.Join(lines, "\n")
				forms = append(forms, "mut-swap-lines")
			}
		default: // call test() twice
			if strings.Contains(src, "{ test() }") {
				src = strings.Replace(src, "{ test() }", "{ test(); test() }", 1)
				forms = append(forms, "mut-call-twice")
			}
		}
	}
	return src, forms
}

// WildCount is the number of harvested snippets.
func WildCount() int {
	wildOnce.Do(harvest)
	return len(wildSnippets)
}

// GenerateWild returns snippet number idx (mod the corpus size), normalised, with k mutations.
func GenerateWild(r *hx.Rng, idx int, k int) (string, []string) {
	wildOnce.Do(harvest)
	if len(wildSnippets) == 0 {
		return "access(all) fun main() {}", []string{"wild-empty-corpus"}
	}
	src := Normalise(wildSnippets[idx%len(wildSnippets)])
	forms := []string{"wild"}
	if k == 0 {
		return src, append(forms, "wild-unmutated")
	}
	src, fs := Mutate(r, src, k)
	return src, append(forms, fs...)
}
