package lang2

// Generator of stream `refinv` (C04): a resource tree (nesting through an optional field, an array and a
// dictionary, depth ≤ 3), ephemeral references to the root and to nested members taken in every form
// (`&x`, `&x.inner`, `&x.items[k]`, `&x.m["a"]`, member / index access through another reference, all
// laundered through identity functions so that the checker cannot track them statically), then a
// sequence of actions on an ancestor (move by declaration / function call / swap / save+load, child
// taken out by a method, destroy, non-moving mutations), then uses of the references: first all that
// the specification says are still valid (each logs the tag of its referent), then at most one that the
// specification says is invalidated.
//
// The specification is computed here, independently of the Lean model: a reference is invalidated iff
// its referent or one of the referent's ancestors (at that time) was moved or destroyed after the
// reference was taken.  The op line carries `expect=ok|invalidated|dereference` and the tags
// the valid uses must log.

import (
	"fmt"
	"strconv"
	"strings"

	"verif/harness/internal/hx"
)

type rnode struct {
	tag    int
	inner  *rnode
	items  []*rnode
	m      map[string]*rnode
	epoch  int // step of the last move / destroy of this node (or an ancestor)
	dead   bool
}

type rref struct {
	name    string
	target  *rnode
	created int
}

type fg struct {
	r       *hx.Rng
	b       strings.Builder
	nextTag int
	nt      int
	step    int
	forms   map[string]bool
	refs    []*rref
	root    string // variable currently holding the root
	tree    *rnode
	extra   []string // locals holding detached children that must be destroyed at the end
	rootGone bool
}

func (g *fg) w(f string, a ...any) { fmt.Fprintf(&g.b, "    "+f+"\n", a...) }
func (g *fg) tmp(p string) string  { g.nt++; return fmt.Sprintf("%s%d", p, g.nt) }
func (g *fg) form(f string)        { g.forms[f] = true }

// build emits code constructing a random tree and returns the local holding it.
func (g *fg) build(depth int) (string, *rnode) {
	g.nextTag++
	n := &rnode{tag: g.nextTag, m: map[string]*rnode{}}
	t := g.tmp("b")
	g.w("let %s <- mk(%d)", t, n.tag)
	if depth > 0 {
		if g.r.Chance(65) {
			c, cn := g.build(depth - 1)
			n.inner = cn
			g.w("%s.setInner(<- %s)", t, c)
		}
		k := g.r.Intn(3)
		for i := 0; i < k; i++ {
			c, cn := g.build(depth - 1)
			n.items = append(n.items, cn)
			g.w("%s.push(<- %s)", t, c)
		}
		for _, key := range []string{"a", "b"} {
			if g.r.Chance(40) {
				c, cn := g.build(depth - 1)
				n.m[key] = cn
				g.w(`destroy %s.put("%s", <- %s)`, t, key, c)
			}
		}
	}
	return t, n
}

func (g *fg) touch(n *rnode, dead bool) {
	if n == nil {
		return
	}
	n.epoch = g.step
	if dead {
		n.dead = true
	}
	g.touch(n.inner, dead)
	for _, c := range n.items {
		g.touch(c, dead)
	}
	for _, c := range n.m {
		g.touch(c, dead)
	}
}

// child picks a random child access of node n: returns the selector suffix for an owned path, the suffix
// for a path through a reference, and the child.
func (g *fg) child(n *rnode) (owned string, viaRef string, c *rnode, kind string) {
	var opts []func() (string, string, *rnode, string)
	if n.inner != nil {
		opts = append(opts, func() (string, string, *rnode, string) { return ".inner", ".inner!", n.inner, "inner" })
	}
	for i := range n.items {
		i := i
		opts = append(opts, func() (string, string, *rnode, string) {
			return fmt.Sprintf(".items[%d]", i), fmt.Sprintf(".items[%d]", i), n.items[i], "items"
		})
	}
	for _, key := range []string{"a", "b"} {
		key := key
		if n.m[key] != nil {
			opts = append(opts, func() (string, string, *rnode, string) {
				return fmt.Sprintf(`.m["%s"]`, key), fmt.Sprintf(`.m["%s"]!`, key), n.m[key], "m"
			})
		}
	}
	if len(opts) == 0 {
		return "", "", nil, ""
	}
	return opts[g.r.Intn(len(opts))]()
}

func (g *fg) addRef(expr string, target *rnode, form string) {
	name := g.tmp("r")
	g.form(form)
	g.w("let %s = %s", name, expr)
	g.refs = append(g.refs, &rref{name: name, target: target, created: g.step})
}

// takeRefs creates a few references into the current tree.
func (g *fg) takeRefs(k int) {
	for i := 0; i < k; i++ {
		switch g.r.Intn(4) {
		case 0:
			g.addRef(fmt.Sprintf("idr(&%s as &R)", g.root), g.tree, "ref-root")
		case 1: // direct reference to a nested member of the owned root
			owned, _, c, kind := g.child(g.tree)
			if c == nil {
				continue
			}
			switch kind {
			case "inner", "m":
				g.addRef(fmt.Sprintf("idro(&%s%s as &R?)!", g.root, owned), c, "ref-nested-"+kind)
			default:
				g.addRef(fmt.Sprintf("idr(&%s%s as &R)", g.root, owned), c, "ref-nested-"+kind)
			}
		case 2: // through an existing valid reference
			var cands []*rref
			for _, rf := range g.refs {
				if rf.target.epoch <= rf.created && !rf.target.dead {
					cands = append(cands, rf)
				}
			}
			if len(cands) == 0 {
				continue
			}
			base := cands[g.r.Intn(len(cands))]
			_, via, c, kind := g.child(base.target)
			if c == nil {
				continue
			}
			g.addRef(base.name+via, c, "ref-via-ref-"+kind)
		default: // two levels down from the root, owned path
			o1, _, c1, _ := g.child(g.tree)
			if c1 == nil {
				continue
			}
			if strings.HasSuffix(o1, ".inner") || strings.Contains(o1, ".m[") {
				// optional step in the middle of an owned path: go through a reference instead
				_, via, c2, kind := g.child(c1)
				if c2 == nil {
					continue
				}
				g.addRef("idro(&"+g.root+o1+" as &R?)!", c1, "ref-nested-opt")
				g.addRef(g.refs[len(g.refs)-1].name+via, c2, "ref-depth2-"+kind)
				continue
			}
			o2, _, c2, kind := g.child(c1)
			if c2 == nil {
				continue
			}
			switch kind {
			case "inner", "m":
				g.addRef(fmt.Sprintf("idro(&%s%s%s as &R?)!", g.root, o1, o2), c2, "ref-depth2-"+kind)
			default:
				g.addRef(fmt.Sprintf("idr(&%s%s%s as &R)", g.root, o1, o2), c2, "ref-depth2-"+kind)
			}
		}
	}
}

// action performs one action on the tree.
func (g *fg) action() {
	g.step++
	switch g.r.Intn(12) {
	case 0: // move the root by declaration
		g.form("act-move-let")
		y := g.tmp("y")
		g.w("var %s <- %s", y, g.root)
		g.root = y
		g.touch(g.tree, false)
	case 1: // through a function (argument + return)
		g.form("act-move-call")
		y := g.tmp("y")
		g.w("var %s <- pass(<- %s)!", y, g.root)
		g.root = y
		g.touch(g.tree, false)
	case 2: // swap with a fresh resource
		g.form("act-swap")
		y := g.tmp("y")
		g.nextTag++
		g.w("var %s <- mk(%d)", y, g.nextTag)
		g.w("%s <-> %s", g.root, y)
		g.extra = append(g.extra, g.root)
		g.root = y
		g.touch(g.tree, false)
	case 3: // re-store
		g.form("act-save-load")
		y := g.tmp("y")
		g.w("acct.storage.save(<- %s, to: /storage/s1)", g.root)
		g.w("var %s <- acct.storage.load<@R>(from: /storage/s1)!", y)
		g.root = y
		g.touch(g.tree, false)
	case 4: // destroy the root
		g.form("act-destroy-root")
		g.w("destroy %s", g.root)
		g.touch(g.tree, true)
		g.rootGone = true
	case 5: // take inner out
		if g.tree.inner != nil {
			c := g.tmp("c")
			n := g.tree.inner
			g.tree.inner = nil
			g.touch(n, false)
			g.w("let %s <- %s.takeInner()!", c, g.root)
			g.childOut(c, n)
		}
	case 6: // pop / shift
		if len(g.tree.items) > 0 {
			c := g.tmp("c")
			var n *rnode
			if g.r.Bool() {
				g.form("act-pop")
				n = g.tree.items[len(g.tree.items)-1]
				g.tree.items = g.tree.items[:len(g.tree.items)-1]
				g.w("let %s <- %s.pop()", c, g.root)
			} else {
				g.form("act-shift")
				n = g.tree.items[0]
				g.tree.items = g.tree.items[1:]
				g.w("let %s <- %s.shift()", c, g.root)
			}
			g.touch(n, false)
			g.childOut(c, n)
		}
	case 7: // take from the dictionary
		key := g.r.Pick([]string{"a", "b"})
		if n := g.tree.m[key]; n != nil {
			g.form("act-dict-take")
			c := g.tmp("c")
			delete(g.tree.m, key)
			g.touch(n, false)
			g.w(`let %s <- %s.take("%s")!`, c, g.root, key)
			g.childOut(c, n)
		}
	case 8: // swap the inner against a fresh one
		if g.tree.inner != nil {
			g.form("act-swap-inner")
			c := g.tmp("c")
			n := g.tree.inner
			g.nextTag++
			g.tree.inner = &rnode{tag: g.nextTag, m: map[string]*rnode{}, epoch: g.step}
			g.touch(n, false)
			g.w("let %s <- %s.swapInner(<- mk(%d))!", c, g.root, g.nextTag)
			g.childOut(c, n)
		}
	case 9: // non-moving mutation: push a fresh element
		g.form("act-push-fresh")
		g.nextTag++
		g.tree.items = append(g.tree.items, &rnode{tag: g.nextTag, m: map[string]*rnode{}, epoch: g.step})
		g.w("%s.push(<- mk(%d))", g.root, g.nextTag)
	case 10: // grandchild taken out through a reference to the child (method call through a reference)
		if g.tree.inner != nil && len(g.tree.inner.items) > 0 {
			g.form("act-grandchild-pop-via-ref")
			c := g.tmp("c")
			n := g.tree.inner.items[len(g.tree.inner.items)-1]
			g.tree.inner.items = g.tree.inner.items[:len(g.tree.inner.items)-1]
			g.touch(n, false)
			g.w("let %s <- idro(&%s.inner as &R?)!.pop()", c, g.root)
			g.childOut(c, n)
		}
	default: // swap the first element against a fresh one
		if len(g.tree.items) > 0 {
			g.form("act-swap-item")
			c := g.tmp("c")
			n := g.tree.items[0]
			g.nextTag++
			g.tree.items[0] = &rnode{tag: g.nextTag, m: map[string]*rnode{}, epoch: g.step}
			g.touch(n, false)
			g.w("let %s <- %s.swapItem(<- mk(%d))", c, g.root, g.nextTag)
			g.childOut(c, n)
		}
	}
}

// childOut decides what happens to a detached child held in local c.
func (g *fg) childOut(c string, n *rnode) {
	switch g.r.Intn(3) {
	case 0:
		g.form("child-destroyed")
		g.w("destroy %s", c)
		g.touch(n, true)
	case 1:
		g.form("child-pushed-back")
		g.step++
		g.tree.items = append(g.tree.items, n)
		g.touch(n, false)
		g.w("%s.push(<- %s)", g.root, c)
	default:
		g.form("child-kept")
		g.extra = append(g.extra, c)
	}
}

// RefProg is one generated refinv program.
type RefProg struct {
	Src    string
	Expect string // ok | invalidated | dereference
	Tags   []int  // tags the valid uses log, in order
	Forms  []string
}

// GenerateRef builds one refinv program.
func GenerateRef(r *hx.Rng) *RefProg {
	g := &fg{r: r, forms: map[string]bool{}}
	g.b.WriteString(ResPrelude)
	g.b.WriteString("access(all) fun main(): Int {\n")
	g.w("let acct = getAuthAccount<auth(Storage) &Account>(0x1)")
	if r.Chance(18) {
		return g.storageRefProg()
	}
	if r.Chance(6) {
		return g.structRefProg()
	}
	if r.Chance(16) {
		return attachRefProg(r)
	}
	if r.Chance(20) {
		return derivedRefProg(r)
	}
	t, n := g.build(r.Intn(2) + 1)
	g.tree = n
	g.root = g.tmp("x")
	g.w("var %s <- %s", g.root, t)
	g.takeRefs(r.Intn(4) + 2)
	nact := r.Intn(3) + 1
	for i := 0; i < nact && !g.rootGone; i++ {
		g.action()
		if !g.rootGone && r.Chance(40) {
			g.takeRefs(r.Intn(2) + 1)
		}
	}
	g.w(`log("=use")`)
	var tags []int
	var invalid []*rref
	for _, rf := range g.refs {
		if rf.target.epoch > rf.created || rf.target.dead {
			invalid = append(invalid, rf)
		} else {
			tags = append(tags, rf.target.tag)
			g.w("log(%s.tag)", rf.name)
		}
	}
	expect := "ok"
	if len(invalid) > 0 && r.Chance(75) {
		rf := invalid[r.Intn(len(invalid))]
		expect = "invalidated"
		g.form("use-stale")
		switch r.Intn(3) {
		case 0:
			g.w("log(%s.tag)", rf.name)
		case 1:
			g.w("log(%s.items.length)", rf.name)
		default:
			g.w("log(%s.uuid)", rf.name)
		}
	}
	g.w(`log("=end")`)
	if !g.rootGone {
		g.w("destroy %s", g.root)
	}
	for _, c := range g.extra {
		g.w("destroy %s", c)
	}
	g.w("return 0")
	g.b.WriteString("}\n")
	return &RefProg{Src: g.b.String(), Expect: expect, Tags: tags, Forms: g.formList()}
}

func (g *fg) formList() []string {
	forms := make([]string, 0, len(g.forms))
	for f := range g.forms {
		forms = append(forms, f)
	}
	sortStrings(forms)
	return forms
}

// storageRefProg: a storage reference reaches the value currently at its path, subject to its type.
func (g *fg) storageRefProg() *RefProg {
	t, n := g.build(1)
	g.w("acct.storage.save(<- %s, to: /storage/s0)", t)
	g.w("let sr = acct.storage.borrow<&R>(from: /storage/s0)!")
	expect := "ok"
	var tags []int
	use := "log(sr.tag)"
	switch g.r.Intn(5) {
	case 0:
		g.form("sref-unchanged")
		tags = []int{n.tag}
	case 1:
		g.form("sref-replaced")
		g.nextTag++
		g.w("let old <- acct.storage.load<@R>(from: /storage/s0)!")
		g.w("acct.storage.save(<- mk(%d), to: /storage/s0)", g.nextTag)
		g.w("destroy old")
		tags = []int{g.nextTag}
	case 2:
		g.form("sref-emptied")
		g.w("let old <- acct.storage.load<@R>(from: /storage/s0)!")
		g.w("destroy old")
		expect = "dereference"
	case 3:
		g.form("sref-other-type")
		g.w("let old <- acct.storage.load<@R>(from: /storage/s0)!")
		g.w("acct.storage.save(<- [<- old], to: /storage/s0)")
		expect = "dereference" // StoredValueTypeMismatchError surfaces as DereferenceError
	default:
		g.form("sref-nested-mutated")
		g.nextTag++
		g.w("sr.push(<- mk(%d))", g.nextTag)
		use = fmt.Sprintf("log(sr.items[%d].tag)", len(n.items))
		tags = []int{g.nextTag}
	}
	g.w(`log("=use")`)
	g.w("%s", use)
	g.w(`log("=end")`)
	g.w("return 0")
	g.b.WriteString("}\n")
	return &RefProg{Src: g.b.String(), Expect: expect, Tags: tags, Forms: g.formList()}
}

// structRefProg: references to *non-resource* values (a struct, an array of structs) nested in a resource,
// then a move of the resource, then one use.  The property requires the invalidated-reference error
// ("any value nested inside it"); the unchanged tree does not invalidate such references (known finding
// `nested-non-resource-reference-not-invalidated`).
func (g *fg) structRefProg() *RefProg {
	g.b.Reset()
	g.b.WriteString(`access(all) struct S { access(all) var x: Int; init(_ x: Int) { self.x = x } }
access(all) resource R2 {
    access(all) var s: S
    access(all) var arr: [S]
    init() { self.s = S(1); self.arr = [S(2)] }
}
access(all) fun ids(_ r: &S): &S { return r }
access(all) fun ida(_ r: &[S]): &[S] { return r }
access(all) fun pass2(_ r: @R2): @R2 { return <- r }
access(all) fun main(): Int {
`)
	g.form("ref-nested-struct")
	g.w("let acct = getAuthAccount<auth(Storage) &Account>(0x1)")
	g.w("let a <- create R2()")
	g.w("let rs = ids(&a.s as &S)")
	g.w("let ra = ida(&a.arr as &[S])")
	switch g.r.Intn(3) {
	case 0:
		g.form("act-move-let")
		g.w("let b <- a")
	case 1:
		g.form("act-move-call")
		g.w("let b <- pass2(<- a)")
	default:
		g.form("act-save-load")
		g.w("acct.storage.save(<- a, to: /storage/s2)")
		g.w("let b <- acct.storage.load<@R2>(from: /storage/s2)!")
	}
	g.w(`log("=use")`)
	if g.r.Bool() {
		g.w("log(rs.x)")
	} else {
		g.w("log(ra.length)")
	}
	g.w(`log("=end")`)
	g.w("destroy b")
	g.w("return 0")
	g.b.WriteString("}\n")
	return &RefProg{Src: g.b.String(), Expect: "invalidated", Tags: nil, Forms: g.formList()}
}

// TagList renders the expected tags.
func TagList(tags []int) string {
	parts := make([]string, len(tags))
	for i, t := range tags {
		parts[i] = strconv.Itoa(t)
	}
	return strings.Join(parts, ",")
}
