package lang2

// Generator of stream `resown` (C02) and the shared resource universe of `refinv` (C04).
//
// A program creates tagged resources (every creation logs "C", tag), moves them between optional
// variables, nested fields (inner / items / m of another resource), local arrays and dictionaries,
// account storage (save / load) by every move form of the language — `<-` in declarations, arguments,
// returns, `<-!`, swap, second-value declarations, optional binding, container built-ins — and destroys
// some.  At the end every variable is either saved or destroyed, and the program walks account storage
// through references and logs "W", tag, uuid for every resource found (nested ones included).
// Destruction is observed through the default `ResourceDestroyed(tag:)` events.
//
// The generator simulates the ownership tree, so the generated program is accepted by the checker and
// (except for deliberately failing variants) runs to completion.
//
// Direct oracle (driver, on the Go observations alone): no uuid twice in the walk; every created tag is
// found exactly once in (walked tags + destroyed tags).
//
// Probes (`probe-*` forms, about a third of the programs, at most one per program): a resource held in a
// *non-optional* local, array element or field is moved by one move form (declaration, argument +
// return, `<-!` into an optional variable / dictionary entry, field, append, swap, second-value, remove,
// save, destroy) — the path through `(*CompositeValue).Transfer` itself, which `SomeValue.Transfer`
// shadows for optional variables — and then its *old location* is used once more.  The checker forbids
// naming a moved variable, so the old location is reached through a reference taken before the move and
// laundered through an identity function.  The use must fail (InvalidatedResourceReferenceError) and the
// run ends there; if it succeeds the program logs "=stale" and carries on to the census.  Direct oracle:
// a "=stale" line in the log is the violation `moved-resource-still-usable`.

import (
	"fmt"
	"strings"

	"verif/harness/internal/hx"
)

// ResPrelude declares the resource universe.
const ResPrelude = `access(all) resource R {
    access(all) let tag: Int
    access(all) var inner: @R?
    access(all) var items: @[R]
    access(all) var m: @{String: R}
    access(all) event ResourceDestroyed(tag: Int = self.tag)
    init(_ tag: Int) { self.tag = tag; self.inner <- nil; self.items <- []; self.m <- {} }
    access(all) fun setInner(_ r: @R) { self.inner <-! r }
    access(all) fun swapInner(_ r: @R?): @R? { let old <- self.inner <- r; return <- old }
    access(all) fun takeInner(): @R? { let old <- self.inner <- nil; return <- old }
    access(all) fun push(_ r: @R) { self.items.append(<- r) }
    access(all) fun pop(): @R { return <- self.items.removeLast() }
    access(all) fun shift(): @R { return <- self.items.remove(at: 0) }
    access(all) fun put(_ k: String, _ r: @R): @R? { return <- self.m.insert(key: k, <- r) }
    access(all) fun take(_ k: String): @R? { return <- self.m.remove(key: k) }
    access(all) fun swapItem(_ r: @R): @R { let old <- self.items[0] <- r; return <- old }
    access(all) fun swapEntry(_ k: String, _ r: @R?): @R? { let old <- self.m[k] <- r; return <- old }
}
access(all) fun mk(_ tag: Int): @R { log("C"); log(tag); return <- create R(tag) }
access(all) fun pass(_ r: @R?): @R? { return <- r }
access(all) fun passR(_ r: @R): @R { return <- r }
access(all) fun idr(_ r: &R): &R { return r }
access(all) fun idro(_ r: &R?): &R? { return r }
access(all) fun walk(_ r: &R) {
    log("W"); log(r.tag); log(r.uuid)
    if let i = r.inner { walk(i) }
    var k = 0
    while k < r.items.length { walk(r.items[k]); k = k + 1 }
    if let a = r.m["a"] { walk(a) }
    if let b = r.m["b"] { walk(b) }
}
access(all) fun walkAll(_ rs: &[R]) { var k = 0; while k < rs.length { walk(rs[k]); k = k + 1 } }
`

type node struct {
	tag   int
	inner *node
	items []*node
	m     map[string]*node
}

func (n *node) size() int {
	if n == nil {
		return 0
	}
	s := 1 + n.inner.size()
	for _, c := range n.items {
		s += c.size()
	}
	for _, c := range n.m {
		s += c.size()
	}
	return s
}

type rg struct {
	r       *hx.Rng
	b       strings.Builder
	vars    []*node // optional variables v0..v3
	arr     []*node // local array `arr`
	dd      map[string]*node
	stored  map[string]*node // storage paths s0..s3
	nextTag int
	nt      int
	forms   map[string]bool
	created int
	fail    bool // the program is meant to fail at some point
}

func (g *rg) w(f string, a ...any) { fmt.Fprintf(&g.b, "    "+f+"\n", a...) }

func (g *rg) tag() int { g.nextTag++; g.created++; return g.nextTag }

func (g *rg) tmp() string { g.nt++; return fmt.Sprintf("t%d", g.nt) }

func (g *rg) form(f string) { g.forms[f] = true }

func (g *rg) pickVar(nonNil bool) int {
	var c []int
	for i, v := range g.vars {
		if (v != nil) == nonNil {
			c = append(c, i)
		}
	}
	if len(c) == 0 {
		return -1
	}
	return c[g.r.Intn(len(c))]
}

// take moves the content of a non-nil variable into a fresh local `tN: @R` and returns its name.
func (g *rg) take(i int) (string, *node) {
	t := g.tmp()
	n := g.vars[i]
	g.vars[i] = nil
	switch g.r.Intn(3) {
	case 0:
		g.form("second-value-nil")
		g.w("let %so <- v%d <- nil", t, i)
		g.w("let %s <- %so!", t, t)
	case 1:
		g.form("swap-var")
		g.w("var %so: @R? <- nil", t)
		g.w("%so <-> v%d", t, i)
		g.w("let %s <- %so!", t, t)
	default:
		g.form("arg-return")
		g.w("let %so <- v%d <- nil", t, i)
		g.w("let %s <- pass(<- %so)!", t, t)
	}
	return t, n
}

// put moves the local resource `t` into the nil variable i.
func (g *rg) put(i int, t string, n *node) {
	g.vars[i] = n
	if g.r.Bool() {
		g.form("force-assign")
		g.w("v%d <-! %s", i, t)
	} else {
		g.form("second-value-var")
		g.w("let %sz <- v%d <- %s", t, i, t)
		g.w("destroy %sz", t)
	}
}

func (g *rg) step() {
	switch g.r.Intn(18) {
	case 0, 1, 16, 17: // create
		if i := g.pickVar(false); i >= 0 {
			g.form("create")
			n := &node{tag: g.tag(), m: map[string]*node{}}
			g.vars[i] = n
			g.w("v%d <-! mk(%d)", i, n.tag)
		}
	case 2: // swap two variables
		i, j := g.r.Intn(len(g.vars)), g.r.Intn(len(g.vars))
		if i != j {
			g.form("swap-var")
			g.vars[i], g.vars[j] = g.vars[j], g.vars[i]
			g.w("v%d <-> v%d", i, j)
		}
	case 3: // nest: v_j into v_i.inner
		i, j := g.pickVar(true), g.pickVar(true)
		if i >= 0 && j >= 0 && i != j {
			t, n := g.take(j)
			host := g.vars[i]
			if host.inner != nil && g.r.Chance(8) {
				// deliberately failing: force-assignment to a non-nil field (user error; the run aborts)
				g.form("fail-force-assign-non-nil")
				host.inner = n
				g.w("(&v%d as &R?)!.setInner(<- %s)", i, t)
			} else if host.inner == nil && g.r.Bool() {
				g.form("field-force-assign")
				host.inner = n
				g.w("(&v%d as &R?)!.setInner(<- %s)", i, t)
			} else {
				g.form("field-second-value")
				old := host.inner
				host.inner = n
				g.w("let %sx <- (&v%d as &R?)!.swapInner(<- %s)", t, i, t)
				g.disposeOpt(t+"x", old)
			}
		}
	case 4: // unnest inner
		i := g.pickVar(true)
		j := g.pickVar(false)
		if i >= 0 && j >= 0 && g.vars[i].inner != nil {
			g.form("field-take")
			t := g.tmp()
			n := g.vars[i].inner
			g.vars[i].inner = nil
			g.w("let %s <- (&v%d as &R?)!.takeInner()!", t, i)
			g.put(j, t, n)
		}
	case 5: // push into items
		i, j := g.pickVar(true), g.pickVar(true)
		if i >= 0 && j >= 0 && i != j {
			g.form("array-append")
			t, n := g.take(j)
			g.vars[i].items = append(g.vars[i].items, n)
			g.w("(&v%d as &R?)!.push(<- %s)", i, t)
		}
	case 6: // pop / shift / swapItem
		i := g.pickVar(true)
		j := g.pickVar(false)
		if i >= 0 && j >= 0 && len(g.vars[i].items) > 0 {
			host := g.vars[i]
			t := g.tmp()
			var n *node
			switch g.r.Intn(3) {
			case 0:
				g.form("array-remove-last")
				n = host.items[len(host.items)-1]
				host.items = host.items[:len(host.items)-1]
				g.w("let %s <- (&v%d as &R?)!.pop()", t, i)
			case 1:
				g.form("array-remove-at")
				n = host.items[0]
				host.items = host.items[1:]
				g.w("let %s <- (&v%d as &R?)!.shift()", t, i)
			default:
				g.form("array-second-value")
				n = host.items[0]
				fresh := &node{tag: g.tag(), m: map[string]*node{}}
				host.items[0] = fresh
				g.w("let %s <- (&v%d as &R?)!.swapItem(<- mk(%d))", t, i, fresh.tag)
			}
			g.put(j, t, n)
		}
	case 7: // dictionary put
		i, j := g.pickVar(true), g.pickVar(true)
		if i >= 0 && j >= 0 && i != j {
			t, n := g.take(j)
			key := g.r.Pick([]string{"a", "b"})
			host := g.vars[i]
			old := host.m[key]
			host.m[key] = n
			if g.r.Bool() {
				g.form("dict-insert")
				g.w(`let %sx <- (&v%d as &R?)!.put("%s", <- %s)`, t, i, key, t)
			} else {
				g.form("dict-second-value")
				g.w(`let %sx <- (&v%d as &R?)!.swapEntry("%s", <- %s)`, t, i, key, t)
			}
			g.disposeOpt(t+"x", old)
		}
	case 8: // dictionary take
		i := g.pickVar(true)
		j := g.pickVar(false)
		if i >= 0 && j >= 0 {
			key := g.r.Pick([]string{"a", "b"})
			host := g.vars[i]
			if n := host.m[key]; n != nil {
				g.form("dict-remove")
				delete(host.m, key)
				t := g.tmp()
				g.w(`let %s <- (&v%d as &R?)!.take("%s")!`, t, i, key)
				g.put(j, t, n)
			}
		}
	case 9: // destroy
		if i := g.pickVar(true); i >= 0 && g.r.Chance(60) {
			g.form("destroy")
			t, _ := g.take(i)
			g.w("destroy %s", t)
		}
	case 10: // save
		if i := g.pickVar(true); i >= 0 {
			p := fmt.Sprintf("s%d", g.r.Intn(4))
			if g.stored[p] == nil {
				g.form("save")
				t, n := g.take(i)
				g.stored[p] = n
				g.w("acct.storage.save(<- %s, to: /storage/%s)", t, p)
			}
		}
	case 11: // load
		if j := g.pickVar(false); j >= 0 {
			p := fmt.Sprintf("s%d", g.r.Intn(4))
			if n := g.stored[p]; n != nil {
				g.form("load")
				delete(g.stored, p)
				t := g.tmp()
				g.w("let %s <- acct.storage.load<@R>(from: /storage/%s)!", t, p)
				g.put(j, t, n)
			}
		}
	case 12: // local array in
		if i := g.pickVar(true); i >= 0 {
			t, n := g.take(i)
			if len(g.arr) > 0 && g.r.Chance(30) {
				g.form("array-insert")
				g.arr = append([]*node{n}, g.arr...)
				g.w("arr.insert(at: 0, <- %s)", t)
			} else {
				g.form("array-append")
				g.arr = append(g.arr, n)
				g.w("arr.append(<- %s)", t)
			}
		}
	case 13: // local array out
		if j := g.pickVar(false); j >= 0 && len(g.arr) > 0 {
			t := g.tmp()
			var n *node
			switch g.r.Intn(3) {
			case 0:
				g.form("array-remove-first")
				n = g.arr[0]
				g.arr = g.arr[1:]
				g.w("let %s <- arr.removeFirst()", t)
			case 1:
				g.form("array-remove-at")
				k := g.r.Intn(len(g.arr))
				n = g.arr[k]
				g.arr = append(append([]*node{}, g.arr[:k]...), g.arr[k+1:]...)
				g.w("let %s <- arr.remove(at: %d)", t, k)
			default:
				g.form("array-second-value")
				k := g.r.Intn(len(g.arr))
				n = g.arr[k]
				fresh := &node{tag: g.tag(), m: map[string]*node{}}
				g.arr[k] = fresh
				g.w("let %s <- arr[%d] <- mk(%d)", t, k, fresh.tag)
			}
			g.put(j, t, n)
		}
	case 14: // local dictionary in
		if i := g.pickVar(true); i >= 0 {
			t, n := g.take(i)
			key := g.r.Pick([]string{"a", "b", "c"})
			old := g.dd[key]
			g.dd[key] = n
			switch g.r.Intn(3) {
			case 0:
				g.form("dict-insert")
				g.w(`let %sx <- dd.insert(key: "%s", <- %s)`, t, key, t)
				g.disposeOpt(t+"x", old)
			case 1:
				g.form("dict-second-value")
				g.w(`let %sx <- dd["%s"] <- %s`, t, key, t)
				g.disposeOpt(t+"x", old)
			default:
				if old == nil {
					g.form("dict-force-assign")
					g.w(`dd["%s"] <-! %s`, key, t)
				} else {
					g.form("dict-swap")
					g.w(`var %sx: @R? <- %s`, t, t)
					g.w(`dd["%s"] <-> %sx`, key, t)
					g.disposeOpt(t+"x", old)
				}
			}
		}
	default: // local dictionary out
		if j := g.pickVar(false); j >= 0 {
			key := g.r.Pick([]string{"a", "b", "c"})
			if n := g.dd[key]; n != nil {
				g.form("dict-remove")
				delete(g.dd, key)
				t := g.tmp()
				g.w(`let %s <- dd.remove(key: "%s")!`, t, key)
				g.put(j, t, n)
			}
		}
	}
}

// dispose consumes a non-optional local `name: @R` holding n.
func (g *rg) dispose(name string, n *node) {
	if j := g.pickVar(false); j >= 0 && g.r.Bool() {
		g.put(j, name, n)
		return
	}
	g.form("destroy")
	g.w("destroy %s", name)
}

// staleUse uses the reference `pr` to the old location of a moved resource.
func (g *rg) staleUse(pr string) {
	g.w("let %sq = %s.tag", pr, pr)
	g.w(`log("=stale")`)
	g.w("log(%sq)", pr)
	g.fail = true
}

// probe: one move of a resource out of a non-optional location followed by a use of the old location
// through a laundered reference taken before the move (see the file comment).
func (g *rg) probe() {
	pr := g.tmp() + "r"
	fresh := func() *node { return &node{tag: g.tag(), m: map[string]*node{}} }
	kind := g.r.Intn(12)
	// probes on an element of the local array / on a field of a variable's resource
	if kind == 8 && len(g.arr) > 0 {
		k := g.r.Intn(len(g.arr))
		n := g.arr[k]
		u := g.tmp()
		g.w("let %s = idr(&arr[%d] as &R)", pr, k)
		switch g.r.Intn(3) {
		case 0:
			g.form("probe-array-remove")
			g.arr = append(append([]*node{}, g.arr[:k]...), g.arr[k+1:]...)
			g.w("let %s <- arr.remove(at: %d)", u, k)
		case 1:
			g.form("probe-array-second-value")
			f := fresh()
			g.arr[k] = f
			g.w("let %s <- arr[%d] <- mk(%d)", u, k, f.tag)
		default:
			g.form("probe-array-swap")
			f := fresh()
			g.arr[k] = f
			g.w("var %s <- mk(%d)", u, f.tag)
			g.w("arr[%d] <-> %s", k, u)
		}
		g.staleUse(pr)
		g.dispose(u, n)
		return
	}
	if kind == 9 {
		if i := g.pickVar(true); i >= 0 && g.vars[i].inner != nil {
			g.form("probe-field-take")
			host := g.vars[i]
			n := host.inner
			host.inner = nil
			u := g.tmp()
			g.w("let %s = idr((&v%d as &R?)!.inner!)", pr, i)
			g.w("let %s <- (&v%d as &R?)!.takeInner()!", u, i)
			g.staleUse(pr)
			g.dispose(u, n)
			return
		}
	}
	// probes on a non-optional local variable `t`
	var t string
	var n *node
	if i := g.pickVar(true); i >= 0 && g.r.Bool() {
		t, n = g.take(i)
	} else {
		n = fresh()
		t = g.tmp()
		g.w("let %s <- mk(%d)", t, n.tag)
	}
	ref := func(v string) { g.w("let %s = idr(&%s as &R)", pr, v) }
	u := g.tmp()
	switch kind {
	case 1:
		g.form("probe-arg-return")
		ref(t)
		g.w("let %s <- passR(<- %s)", u, t)
		g.staleUse(pr)
		g.dispose(u, n)
	case 2:
		if j := g.pickVar(false); j >= 0 {
			g.form("probe-force-assign-var")
			ref(t)
			g.vars[j] = n
			g.w("v%d <-! %s", j, t)
			g.staleUse(pr)
			return
		}
		fallthrough
	case 3:
		if i := g.pickVar(true); i >= 0 && g.vars[i].inner == nil {
			g.form("probe-field")
			ref(t)
			g.vars[i].inner = n
			g.w("(&v%d as &R?)!.setInner(<- %s)", i, t)
			g.staleUse(pr)
			return
		}
		fallthrough
	case 4:
		g.form("probe-array-append")
		ref(t)
		g.arr = append(g.arr, n)
		g.w("arr.append(<- %s)", t)
		g.staleUse(pr)
	case 5:
		key := g.r.Pick([]string{"a", "b", "c"})
		old := g.dd[key]
		g.dd[key] = n
		ref(t)
		if old == nil && g.r.Bool() {
			g.form("probe-dict-force-assign")
			g.w(`dd["%s"] <-! %s`, key, t)
			g.staleUse(pr)
		} else {
			g.form("probe-dict-insert")
			g.w(`let %sx <- dd.insert(key: "%s", <- %s)`, u, key, t)
			g.staleUse(pr)
			g.disposeOpt(u+"x", old)
		}
	case 6:
		g.form("probe-swap-nonopt")
		f := fresh()
		g.w("var %sb <- %s", t, t)
		ref(t + "b")
		g.w("var %s <- mk(%d)", u, f.tag)
		g.w("%sb <-> %s", t, u)
		g.staleUse(pr)
		g.dispose(u, n)
		g.dispose(t+"b", f)
	case 7:
		g.form("probe-second-value-nonopt")
		f := fresh()
		g.w("var %sb <- %s", t, t)
		ref(t + "b")
		g.w("let %s <- %sb <- mk(%d)", u, t, f.tag)
		g.staleUse(pr)
		g.dispose(u, n)
		g.dispose(t+"b", f)
	case 10:
		p := fmt.Sprintf("s%d", g.r.Intn(4))
		if g.stored[p] == nil {
			g.form("probe-save")
			ref(t)
			g.stored[p] = n
			g.w("acct.storage.save(<- %s, to: /storage/%s)", t, p)
			g.staleUse(pr)
			return
		}
		fallthrough
	case 11:
		g.form("probe-destroy")
		ref(t)
		g.w("destroy %s", t)
		g.staleUse(pr)
	default:
		g.form("probe-decl")
		ref(t)
		g.w("let %s <- %s", u, t)
		g.staleUse(pr)
		g.dispose(u, n)
	}
}

// disposeOpt consumes a local `name: @R?` holding `old` (possibly nil): destroys it or, when possible,
// moves it into a free variable through optional binding.
func (g *rg) disposeOpt(name string, old *node) {
	if j := g.pickVar(false); old != nil && j >= 0 && g.r.Bool() {
		g.form("optional-binding")
		g.vars[j] = old
		g.w("if let %sy <- %s { v%d <-! %sy } else { log(\"none\") }", name, name, j, name)
		return
	}
	g.form("destroy-optional")
	g.w("destroy %s", name)
}

// ResProg is one generated resown program.
type ResProg struct {
	Src     string
	Created int
	Forms   []string
}

func (g *rg) begin() {
	g.b.WriteString(ResPrelude)
	g.b.WriteString("access(all) fun main(): Int {\n")
	g.w("let acct = getAuthAccount<auth(Storage) &Account>(0x1)")
	for i := range g.vars {
		g.w("var v%d: @R? <- nil", i)
	}
	g.w("var arr: @[R] <- []")
	g.w("var dd: @{String: R} <- {}")
}

// finish consumes every variable (save or destroy) and walks storage.
func (g *rg) finish() {
	for i, v := range g.vars {
		p := fmt.Sprintf("s%d", i)
		if v != nil && g.stored[p] == nil && g.r.Chance(70) {
			g.form("save")
			g.stored[p] = v
			g.w("acct.storage.save(<- v%d!, to: /storage/%s)", i, p)
		} else {
			g.w("destroy v%d", i)
		}
	}
	if g.r.Bool() {
		g.form("save-array")
		g.w("acct.storage.save(<- arr, to: /storage/arr)")
		g.w("destroy dd")
	} else {
		g.w("destroy arr")
		g.w("destroy dd")
	}
	g.w(`log("=walk")`)
	for i := 0; i < 4; i++ {
		g.w("if let r%d = acct.storage.borrow<&R>(from: /storage/s%d) { walk(r%d) }", i, i, i)
	}
	g.w("if let ra = acct.storage.borrow<&[R]>(from: /storage/arr) { walkAll(ra) }")
	g.w(`log("=end")`)
	g.w("return 0")
	g.b.WriteString("}\n")
}

func (g *rg) formList() []string {
	forms := make([]string, 0, len(g.forms))
	for f := range g.forms {
		forms = append(forms, f)
	}
	sortStrings(forms)
	return forms
}

// GenerateRes builds one resown program.
func GenerateRes(r *hx.Rng) *ResProg {
	g := &rg{r: r, vars: make([]*node, 4), dd: map[string]*node{}, stored: map[string]*node{}, forms: map[string]bool{}}
	g.begin()
	n := r.Intn(40) + 8
	probeAt := -1
	if r.Chance(35) {
		probeAt = r.Intn(n)
	}
	for i := 0; i < n; i++ {
		if i == probeAt {
			g.probe()
		}
		g.step()
	}
	g.finish()
	return &ResProg{Src: g.b.String(), Created: g.created, Forms: g.formList()}
}
