package lang2

// Typed generator "casts" of stream `nointernal` (C01): values of optional / AnyStruct / struct /
// reference static types, dynamic casts `as?` / `as!` and static casts `as` to related target types,
// results transferred on (declaration with an annotated type, argument, return, field, container) — the
// places where the interpreter's defensive transfer check (`ConvertAndBoxWithValidation`) sits.
// Outside the model's fragment (dynamic casts): direct oracle only.

import (
	"fmt"
	"strings"

	"verif/harness/internal/hx"
)

const castPrelude = `access(all) struct S { access(all) let x: Int; init(_ x: Int) { self.x = x } }
access(all) struct T { access(all) let y: String; init(_ y: String) { self.y = y } }
access(all) struct H { access(all) var f: AnyStruct?; access(all) var g: Int??; init() { self.f = nil; self.g = nil }
  access(all) fun setF(_ v: AnyStruct?) { self.f = v }
  access(all) fun setG(_ v: Int??) { self.g = v } }
access(all) fun idAny(_ v: AnyStruct): AnyStruct { return v }
access(all) fun idAnyO(_ v: AnyStruct?): AnyStruct? { return v }
access(all) fun idIntO(_ v: Int?): Int? { return v }
access(all) fun idIntOO(_ v: Int??): Int?? { return v }
access(all) fun idSO(_ v: S?): S? { return v }
`

type castVal struct{ ty, expr string }

var castVals = []castVal{
	{"Int", "3"}, {"Int?", "4"}, {"Int?", "nil"}, {"Int??", "5"}, {"Int??", "nil"},
	{"AnyStruct", "6"}, {"AnyStruct", "S(1)"}, {"AnyStruct", `"s"`}, {"AnyStruct?", "7"}, {"AnyStruct?", "nil"},
	{"AnyStruct", "[1, 2]"}, {"AnyStruct", `{"a": 1}`}, {"AnyStruct?", "T(\"t\")"},
	{"S", "S(2)"}, {"S?", "S(3)"}, {"S?", "nil"}, {"[Int?]", "[1, nil]"}, {"{String: Int?}", `{"a": nil, "b": 2}`},
	{"[AnyStruct]", `[1, "a", S(4)]`}, {"UInt8", "8"}, {"Int8?", "9"},
}

var castTargets = []string{
	"Int", "Int?", "Int??", "AnyStruct", "AnyStruct?", "S", "S?", "T", "String", "String?", "[Int]", "[Int?]",
	"[AnyStruct]", "{String: Int}", "{String: Int?}", "{String: AnyStruct}", "UInt8", "Int8", "Int8?", "&Int", "&S", "&AnyStruct",
}

// GenerateCasts builds one program.
func GenerateCasts(r *hx.Rng) (string, []string) {
	var b strings.Builder
	b.WriteString(castPrelude)
	b.WriteString("access(all) fun main() {\n    let h = H()\n")
	n := r.Intn(5) + 2
	forms := map[string]bool{"casts": true}
	for i := 0; i < n; i++ {
		v := castVals[r.Intn(len(castVals))]
		t := castTargets[r.Intn(len(castTargets))]
		src := fmt.Sprintf("v%d", i)
		fmt.Fprintf(&b, "    let v%d: %s = %s\n", i, v.ty, v.expr)
		if r.Chance(25) {
			forms["cast-of-reference"] = true
			fmt.Fprintf(&b, "    let q%d = &v%d as &%s\n", i, i, strings.TrimSuffix(v.ty, "?"))
			if strings.HasSuffix(v.ty, "?") {
				// reference to an optional is an optional reference
				b.Reset()
				b.WriteString(castPrelude)
				b.WriteString("access(all) fun main() {\n    let h = H()\n")
				forms = map[string]bool{"casts": true}
				continue
			}
			src = fmt.Sprintf("q%d", i)
		}
		switch r.Intn(7) {
		case 0:
			forms["as?"] = true
			fmt.Fprintf(&b, "    let c%d = %s as? %s\n    log(c%d)\n", i, src, t, i)
		case 1:
			forms["as!"] = true
			fmt.Fprintf(&b, "    if (%s as? %s) != nil { let c%d = %s as! %s\n    log(c%d) }\n", src, t, i, src, t, i)
		case 2:
			forms["as?-annotated"] = true
			fmt.Fprintf(&b, "    let c%d: %s? = %s as? %s\n    log(c%d)\n", i, t, src, t, i)
		case 3:
			forms["as?-field"] = true
			fmt.Fprintf(&b, "    h.setF(%s as? %s)\n    log(h.f)\n", src, t)
		case 4:
			forms["as?-call"] = true
			fmt.Fprintf(&b, "    log(idAnyO(%s as? %s))\n", src, t)
		case 5:
			forms["as?-container"] = true
			fmt.Fprintf(&b, "    let c%d: [AnyStruct?] = [%s as? %s, nil]\n    log(c%d)\n", i, src, t, i)
		default:
			forms["as?-coalesce"] = true
			fmt.Fprintf(&b, "    log((%s as? %s) ?? (%s as? %s))\n", src, t, src, t)
		}
	}
	b.WriteString("}\n")
	fl := make([]string, 0, len(forms))
	for f := range forms {
		fl = append(fl, f)
	}
	sortStrings(fl)
	return b.String(), fl
}
