// Package lang2 runs generated layer-L2 Cadence programs (resources, moves, references, storage) on the
// real runtime in both engines (interpreter, VM), from a fresh ledger each, with a bounded computation
// gauge, and renders the observation canonically: outcome, ordered log, destruction events, uuids.
// It also holds the typed generators of the streams copysem (C05), resown (C02), refinv (C04) and
// nointernal (C01).
package lang2

import (
	"fmt"
	"regexp"
	"sort"
	"strings"

	"github.com/onflow/cadence"
	"github.com/onflow/cadence/interpreter"

	"verif/harness/internal/cdc"
	"verif/harness/internal/lang"
)

// Limit is the computation limit of every run.
var Limit uint64 = 50000

// Run executes a script (no arguments) on a fresh environment.
func Run(src string, useVM bool) *cdc.Outcome {
	e := cdc.NewEnv()
	e.Limit = Limit
	return e.Script(src, nil, useVM)
}

// Check parses and checks a script with the real parser and checker.
func Check(src string) (*interpreter.Program, error) { return lang.Check(src) }

// Kind maps Go error type names to the model's error-kind enum (Verif.Model.Lang2.ErrKind.name).
func Kind(goKind string) string {
	k := goKind
	if i := strings.LastIndex(k, "."); i >= 0 {
		k = k[i+1:]
	}
	switch k {
	case "InvalidatedResourceReferenceError":
		return "invalidated-reference"
	case "ResourceLossError":
		return "resource-loss"
	case "DestroyedResourceError":
		return "destroyed-resource"
	case "ForceAssignmentToNonNilResourceError":
		return "force-assign-non-nil"
	case "OverwriteError":
		return "overwrite"
	case "ForceCastTypeMismatchError":
		return "load-type"
	case "DereferenceError":
		return "dereference"
	case "InvalidatedResourceError":
		return "invalidated-resource"
	case "MemberAccessTypeError":
		return "member-type"
	case "ValueTransferTypeError":
		return "transfer-type"
	}
	return lang.Kind(goKind)
}

var locPrefix = regexp.MustCompile(`\b[sSAt]\.[0-9a-f]{16,64}\.`)

// RenderEvent renders an emitted event as `Type(name: value, ...)` with the fields sorted by name.
func RenderEvent(ev cadence.Event) string {
	name := "?"
	var parts []string
	if ev.EventType != nil {
		name = ev.EventType.QualifiedIdentifier
		vals := cadence.FieldsMappedByName(ev)
		names := make([]string, 0, len(vals))
		for n := range vals {
			names = append(names, n)
		}
		sort.Strings(names)
		for _, n := range names {
			parts = append(parts, n+": "+renderEventValue(vals[n]))
		}
	}
	return name + "(" + strings.Join(parts, ", ") + ")"
}

func renderEventValue(v cadence.Value) string {
	switch x := v.(type) {
	case nil:
		return "nil"
	case cadence.Optional:
		if x.Value == nil {
			return "nil"
		}
		return renderEventValue(x.Value)
	case cadence.String:
		return fmt.Sprintf("%q", string(x))
	}
	return v.String()
}

func clean(s string) string {
	s = locPrefix.ReplaceAllString(s, "")
	return strings.NewReplacer(";", ",", "|", "/", "\n", " ", "\t", " ").Replace(s)
}

// Observation is `<outcome>|<log;log;…>|<event;event;…>` (events sorted: sibling resources are
// destroyed in the iteration order of an atree map, which is not modelled).
// outcome = ok:<value> | user:<kind> | internal:<kind> | external:<kind> | crash:<kind> | other:<kind>
func Observation(o *cdc.Outcome) string {
	var res string
	switch o.Class {
	case "none":
		res = "ok:" + lang.RenderValue(o.Value)
	default:
		class := o.Class
		if strings.HasSuffix(o.Kind, "ExternalNonError") {
			// a non-error panic raised inside a host (runtime.Interface) callback — here: a callback the
			// test host does not implement.  That is a host failure, not an internal error of Cadence.
			class = "external"
		}
		res = class + ":" + Kind(o.Kind)
	}
	logs := make([]string, len(o.Logs))
	for i, l := range o.Logs {
		logs[i] = clean(l)
	}
	evs := make([]string, len(o.Events))
	for i, ev := range o.Events {
		evs[i] = clean(RenderEvent(ev))
	}
	sort.Strings(evs)
	return res + "|" + strings.Join(logs, ";") + "|" + strings.Join(evs, ";")
}
