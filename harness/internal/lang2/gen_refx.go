package lang2

// Two further program families of stream `refinv` (C04), both judged by the generator's ownership
// simulation (the op line's `expect=` / `tags=`) and by engines-agree; both lie outside the Lean model's
// fragment (attachments; reference-typed fields and containers of references).
//
//   attachRefProg   a resource with attachments (`A`, optionally `B` which itself owns a resource), held in
//                   a variable, in a field or in an array of an outer resource.  References to the
//                   attachments (`x[A]!`, through a reference to the base, `self` / `base` returned by an
//                   attachment method, collected by forEachAttachment), to the base and to the resource
//                   owned by an attachment; then moves that stay on the stack (variable to variable, into a
//                   function, into an array, into a field, swap, attaching another attachment), moves
//                   through storage, destroy, removal of the attachment, non-moving mutations; then uses.
//
//   derivedRefProg  references kept in struct fields / arrays / dictionaries / optional fields / nested
//                   structs / a resource's field, read back *through a reference to the holder* (member or
//                   index access on a reference yields a new, derived reference value), to targets nested
//                   one or two levels inside the resource that is then moved / destroyed (or that are
//                   themselves taken out); then uses.
//
// Specification (as in gen_ref.go): a reference is invalidated iff its referent or one of the referent's
// ancestors at that time was moved or destroyed after the reference was taken; a derived reference counts
// as taken when it was derived.

import (
	"fmt"
	"strings"

	"verif/harness/internal/hx"
)

type xnode struct {
	tag   int // the value a use of a reference to this node logs
	kids  []*xnode
	epoch int
	dead  bool
}

type xref struct {
	name    string
	target  *xnode
	created int
	use     string // field logged by a use: "id" or "tag"
	useFmt  string // if set: the logged expression, with %[1]s = the reference, %[2]d = the expected value
}

type xg struct {
	r     *hx.Rng
	b     strings.Builder
	next  int
	nt    int
	step  int
	forms map[string]bool
	refs  []*xref
	lates []*xref  // name = the read-back expression, evaluated only in the use section
	owned []string // resource variables to destroy at the end
}

func (g *xg) w(f string, a ...any) { fmt.Fprintf(&g.b, "    "+f+"\n", a...) }
func (g *xg) tmp(p string) string  { g.nt++; return fmt.Sprintf("%s%d", p, g.nt) }
func (g *xg) form(f string)        { g.forms[f] = true }
func (g *xg) fresh() int           { g.next++; return g.next }

func (g *xg) touch(n *xnode, dead bool) {
	if n == nil {
		return
	}
	n.epoch = g.step
	if dead {
		n.dead = true
	}
	for _, c := range n.kids {
		g.touch(c, dead)
	}
}

func (rf *xref) valid() bool { return rf.target.epoch <= rf.created && !rf.target.dead }

func (g *xg) addRef(expr string, target *xnode, use string, form string) *xref {
	name := g.tmp("r")
	g.form(form)
	g.w("let %s = %s", name, expr)
	rf := &xref{name: name, target: target, created: g.step, use: use}
	g.refs = append(g.refs, rf)
	return rf
}

func (g *xg) drop(v string) {
	for i, o := range g.owned {
		if o == v {
			g.owned = append(g.owned[:i], g.owned[i+1:]...)
			return
		}
	}
}

func (g *xg) formList() []string {
	forms := make([]string, 0, len(g.forms))
	for f := range g.forms {
		forms = append(forms, f)
	}
	sortStrings(forms)
	return forms
}

// finish emits the uses (all valid references, then at most one stale one) and the clean-up.
func (rf *xref) useExpr() string {
	if rf.useFmt != "" {
		return fmt.Sprintf(rf.useFmt, rf.name, rf.target.tag)
	}
	return rf.name + "." + rf.use
}

func (g *xg) finish(staleChance int) *RefProg {
	g.w(`log("=use")`)
	var tags []int
	var invalid []*xref
	for _, rf := range g.refs {
		if rf.valid() {
			tags = append(tags, rf.target.tag)
			g.w("log(%s)", rf.useExpr())
		} else {
			invalid = append(invalid, rf)
		}
	}
	// references derived only now from a stored reference: valid ones are used, a stale one fails
	// (when it is derived or when it is used)
	for _, rf := range g.lates {
		if rf.valid() {
			tags = append(tags, rf.target.tag)
			g.w("log(%s)", rf.useExpr())
		} else {
			invalid = append(invalid, rf)
		}
	}
	expect := "ok"
	if len(invalid) > 0 && g.r.Chance(staleChance) {
		rf := invalid[g.r.Intn(len(invalid))]
		expect = "invalidated"
		g.form("use-stale")
		g.w("log(%s)", rf.useExpr())
	}
	g.w(`log("=end")`)
	for _, c := range g.owned {
		g.w("destroy %s", c)
	}
	g.w("return 0")
	g.b.WriteString("}\n")
	return &RefProg{Src: g.b.String(), Expect: expect, Tags: tags, Forms: g.formList()}
}

// ---------------------------------------------------------------------------------------------------
// attachments

const AttPrelude = `access(all) resource R {
    access(all) let tag: Int
    access(all) var sub: @R?
    init(_ tag: Int) { self.tag = tag; self.sub <- nil }
    access(all) fun setSub(_ r: @R) { self.sub <-! r }
}
access(all) attachment A for R {
    access(all) var id: Int
    init(_ id: Int) { self.id = id }
    access(all) fun setID(_ id: Int) { self.id = id }
    access(all) fun me(): &A { return self }
    access(all) fun host(): &R { return base }
}
access(all) attachment B for R {
    access(all) var id: Int
    access(all) var kept: @R
    init(_ id: Int, _ k: @R) { self.id = id; self.kept <- k }
    access(all) fun setID(_ id: Int) { self.id = id }
}
access(all) resource Outer {
    access(all) var r: @R
    access(all) var rs: @[R]
    init(_ r: @R) { self.r <- r; self.rs <- [] }
    access(all) fun push(_ r: @R) { self.rs.append(<- r) }
    access(all) fun swapR(_ r: @R): @R { let old <- self.r <- r; return <- old }
    access(all) fun shift(): @R { return <- self.rs.remove(at: 0) }
}
access(all) fun ida(_ r: &A): &A { return r }
access(all) fun idb(_ r: &B): &B { return r }
access(all) fun idr(_ r: &R): &R { return r }
access(all) fun idro(_ r: &R?): &R? { return r }
access(all) fun passR(_ r: @R): @R { return <- r }
access(all) fun passO(_ r: @Outer): @Outer { return <- r }
access(all) fun passRs(_ r: @[R]): @[R] { return <- r }
access(all) fun passOs(_ r: @[Outer]): @[Outer] { return <- r }
`

type attState struct {
	g        *xg
	root     string // variable holding the root
	kind     string // R | Outer | arrR | arrOuter
	path     string // from the root variable to the base resource
	nOuter   *xnode
	nR       *xnode
	nA, nB   *xnode
	nKept    *xnode
	nSub     *xnode
	nSubA    *xnode
	rootGone bool
}

func (s *attState) top() *xnode {
	if s.nOuter != nil {
		return s.nOuter
	}
	return s.nR
}

func (s *attState) base() string { return s.root + s.path }

func (s *attState) takeRefs(k int) {
	g := s.g
	alive := func(n *xnode) bool { return n != nil && !n.dead }
	for i := 0; i < k; i++ {
		switch g.r.Intn(9) {
		case 0, 1:
			if alive(s.nA) {
				g.addRef(fmt.Sprintf("ida(%s[A]!)", s.base()), s.nA, "id", "att-index")
			}
		case 2:
			if alive(s.nA) {
				rb := g.addRef(fmt.Sprintf("idr(&%s as &R)", s.base()), s.nR, "tag", "att-base-ref")
				g.addRef(fmt.Sprintf("ida(%s[A]!)", rb.name), s.nA, "id", "att-index-via-base-ref")
			}
		case 3:
			if alive(s.nA) {
				g.addRef(fmt.Sprintf("%s[A]!.me()", s.base()), s.nA, "id", "att-self")
			}
		case 4:
			if alive(s.nA) {
				g.addRef(fmt.Sprintf("%s[A]!.host()", s.base()), s.nR, "tag", "att-base")
			}
		case 5:
			if alive(s.nB) {
				g.addRef(fmt.Sprintf("idb(%s[B]!)", s.base()), s.nB, "id", "att-index-b")
			}
		case 6:
			if alive(s.nB) {
				g.addRef(fmt.Sprintf("idr(%s[B]!.kept)", s.base()), s.nKept, "tag", "att-owned-resource")
			}
		case 7:
			if alive(s.nSubA) {
				sr := g.addRef(fmt.Sprintf("idro(&%s.sub as &R?)!", s.base()), s.nSub, "tag", "att-sub-ref")
				g.addRef(fmt.Sprintf("ida(%s[A]!)", sr.name), s.nSubA, "id", "att-index-sub")
			}
		default:
			if alive(s.nA) && !alive(s.nB) {
				fa := g.tmp("fa")
				g.w("var %s: [&AnyResourceAttachment] = []", fa)
				g.w("%s.forEachAttachment(fun (a: &AnyResourceAttachment) { %s.append(a) })", s.base(), fa)
				if g.r.Bool() {
					g.addRef(fmt.Sprintf("%s[0] as! &A", fa), s.nA, "id", "att-foreach")
				} else {
					// used as handed out by the iteration (a cast makes a new reference value)
					rf := g.addRef(fa+"[0]", s.nA, "id", "att-foreach-uncast")
					rf.useFmt = "%[1]s.getType().identifier.length > 0 ? %[2]d : -1"
				}
			}
		}
	}
}

func (s *attState) action() {
	g := s.g
	g.step++
	alive := func(n *xnode) bool { return n != nil && !n.dead }
	switch g.r.Intn(14) {
	case 0, 1: // variable to variable
		g.form("act-move-let")
		y := g.tmp("y")
		g.w("var %s <- %s", y, s.root)
		g.drop(s.root)
		g.owned = append(g.owned, y)
		s.root = y
		g.touch(s.top(), false)
	case 2, 3: // into a function and back
		g.form("act-move-call")
		y := g.tmp("y")
		fn := map[string]string{"R": "passR", "Outer": "passO", "arrR": "passRs", "arrOuter": "passOs"}[s.kind]
		g.w("var %s <- %s(<- %s)", y, fn, s.root)
		g.drop(s.root)
		g.owned = append(g.owned, y)
		s.root = y
		g.touch(s.top(), false)
	case 4: // into an array that stays on the stack
		if s.kind == "R" || s.kind == "Outer" {
			g.form("act-move-into-array")
			y := g.tmp("y")
			g.w("var %s <- [<- %s]", y, s.root)
			g.drop(s.root)
			g.owned = append(g.owned, y)
			s.root = y
			s.path = "[0]" + s.path
			s.kind = "arr" + s.kind
			g.touch(s.top(), false)
		}
	case 5: // into a field of a new outer resource
		if s.kind == "R" {
			g.form("act-move-into-field")
			y := g.tmp("y")
			g.w("var %s <- create Outer(<- %s)", y, s.root)
			g.drop(s.root)
			g.owned = append(g.owned, y)
			s.root = y
			s.path = ".r"
			s.kind = "Outer"
			s.nOuter = &xnode{tag: 0, kids: []*xnode{s.nR}}
			g.touch(s.top(), false)
		}
	case 6: // swap
		if s.kind == "R" {
			g.form("act-swap")
			y := g.tmp("y")
			g.w("var %s <- create R(%d)", y, g.fresh())
			g.w("%s <-> %s", s.root, y)
			g.owned = append(g.owned, y)
			s.root = y
			g.touch(s.top(), false)
		}
	case 7: // through storage
		if s.kind == "R" || s.kind == "Outer" {
			g.form("act-save-load")
			y := g.tmp("y")
			g.w("acct.storage.save(<- %s, to: /storage/s1)", s.root)
			g.w("var %s <- acct.storage.load<@%s>(from: /storage/s1)!", y, s.kind)
			g.drop(s.root)
			g.owned = append(g.owned, y)
			s.root = y
			g.touch(s.top(), false)
		}
	case 8: // destroy
		g.form("act-destroy-root")
		g.w("destroy %s", s.root)
		g.drop(s.root)
		g.touch(s.top(), true)
		s.rootGone = true
	case 9: // attaching another attachment moves the base
		if s.kind == "R" && s.nB == nil {
			g.form("act-attach-more")
			y := g.tmp("y")
			s.nKept = &xnode{tag: g.fresh()}
			s.nB = &xnode{tag: g.fresh(), kids: []*xnode{s.nKept}}
			g.w("var %s <- attach B(%d, <- create R(%d)) to <- %s", y, s.nB.tag, s.nKept.tag, s.root)
			g.drop(s.root)
			g.owned = append(g.owned, y)
			s.root = y
			g.touch(s.top(), false)
			s.nR.kids = append(s.nR.kids, s.nB)
			s.nB.epoch, s.nKept.epoch = g.step, g.step
		}
	case 10: // removal destroys the attachment
		if alive(s.nA) && (s.kind == "R" || s.kind == "Outer") && s.path != ".rs[0]" {
			g.form("act-remove-attachment")
			g.w("remove A from %s", s.base())
			g.touch(s.nA, true)
		}
	case 11: // the base is taken out of the outer resource
		if s.kind == "Outer" {
			y := g.tmp("y")
			if s.path == ".r" {
				g.form("act-take-field")
				g.w("var %s <- %s.swapR(<- create R(%d))", y, s.root, g.fresh())
			} else {
				g.form("act-take-element")
				g.w("var %s <- %s.shift()", y, s.root)
			}
			g.owned = append(g.owned, y)
			s.nOuter = nil
			s.root, s.kind, s.path = y, "R", ""
			g.touch(s.nR, false)
		}
	default: // non-moving mutation: the valid references see the new value
		if alive(s.nA) {
			g.form("act-set-id")
			s.nA.tag = g.fresh()
			g.w("%s[A]!.setID(%d)", s.base(), s.nA.tag)
		} else if alive(s.nB) {
			g.form("act-set-id")
			s.nB.tag = g.fresh()
			g.w("%s[B]!.setID(%d)", s.base(), s.nB.tag)
		}
	}
}

func attachRefProg(r *hx.Rng) *RefProg {
	g := &xg{r: r, forms: map[string]bool{}, next: 10}
	g.b.WriteString(AttPrelude)
	g.b.WriteString("access(all) fun main(): Int {\n")
	g.w("let acct = getAuthAccount<auth(Storage) &Account>(0x1)")
	s := &attState{g: g}
	s.nA = &xnode{tag: g.fresh()}
	s.nR = &xnode{tag: g.fresh(), kids: []*xnode{s.nA}}
	x := g.tmp("x")
	g.w("var %s <- attach A(%d) to <- create R(%d)", x, s.nA.tag, s.nR.tag)
	if r.Chance(35) {
		g.form("att-two")
		s.nKept = &xnode{tag: g.fresh()}
		s.nB = &xnode{tag: g.fresh(), kids: []*xnode{s.nKept}}
		s.nR.kids = append(s.nR.kids, s.nB)
		x2 := g.tmp("x")
		g.w("var %s <- attach B(%d, <- create R(%d)) to <- %s", x2, s.nB.tag, s.nKept.tag, x)
		x = x2
	}
	if r.Chance(25) {
		g.form("att-on-nested")
		s.nSubA = &xnode{tag: g.fresh()}
		s.nSub = &xnode{tag: g.fresh(), kids: []*xnode{s.nSubA}}
		s.nR.kids = append(s.nR.kids, s.nSub)
		g.w("%s.setSub(<- attach A(%d) to <- create R(%d))", x, s.nSubA.tag, s.nSub.tag)
	}
	s.root, s.kind, s.path = x, "R", ""
	switch r.Intn(4) {
	case 0:
		g.form("base-in-field")
		o := g.tmp("x")
		g.w("var %s <- create Outer(<- %s)", o, x)
		s.root, s.kind, s.path = o, "Outer", ".r"
		s.nOuter = &xnode{kids: []*xnode{s.nR}}
	case 1:
		g.form("base-in-array-field")
		o := g.tmp("x")
		g.w("var %s <- create Outer(<- create R(%d))", o, g.fresh())
		g.w("%s.push(<- %s)", o, x)
		s.root, s.kind, s.path = o, "Outer", ".rs[0]"
		s.nOuter = &xnode{kids: []*xnode{s.nR}}
	}
	g.owned = append(g.owned, s.root)
	s.takeRefs(r.Intn(3) + 2)
	nact := r.Intn(2) + 1
	for i := 0; i < nact && !s.rootGone; i++ {
		s.action()
		if !s.rootGone && r.Chance(30) {
			s.takeRefs(1)
		}
	}
	return g.finish(85)
}

// ---------------------------------------------------------------------------------------------------
// references read back through a reference to their holder

const DerPrelude = `access(all) resource Inner {
    access(all) var id: Int
    init(_ id: Int) { self.id = id }
    access(all) fun setID(_ id: Int) { self.id = id }
}
access(all) resource Mid {
    access(all) var inner: @Inner
    access(all) var inners: @[Inner]
    init(_ a: @Inner, _ b: @Inner) { self.inner <- a; self.inners <- [<- b] }
    access(all) fun swapInner(_ r: @Inner): @Inner { let old <- self.inner <- r; return <- old }
}
access(all) resource Outer {
    access(all) var inner: @Inner
    access(all) var mid: @Mid
    access(all) var arr: @[Inner]
    access(all) var d: @{String: Inner}
    init(_ a: @Inner, _ m: @Mid, _ b: @Inner, _ c: @Inner) {
        self.inner <- a; self.mid <- m; self.arr <- [<- b]; self.d <- {"a": <- c}
    }
    access(all) fun swapInner(_ r: @Inner): @Inner { let old <- self.inner <- r; return <- old }
    access(all) fun swapMid(_ m: @Mid): @Mid { let old <- self.mid <- m; return <- old }
    access(all) fun swapArr(_ r: @Inner): @Inner { let old <- self.arr[0] <- r; return <- old }
}
access(all) resource Box {
    access(all) var o: @Outer
    init(_ o: @Outer) { self.o <- o }
}
access(all) struct Holder {
    access(all) let ref: &Inner
    access(all) var refs: [&Inner]
    access(all) var opt: &Inner?
    access(all) var d: {String: &Inner}
    init(_ r: &Inner) { self.ref = r; self.refs = [r]; self.opt = r; self.d = {"k": r} }
}
access(all) struct Holder2 {
    access(all) let h: Holder
    init(_ h: Holder) { self.h = h }
}
access(all) resource RHolder {
    access(all) let ref: &Inner
    init(_ r: &Inner) { self.ref = r }
}
access(all) fun getRef(_ h: &Holder): &Inner { return h.ref }
access(all) fun idh(_ h: &RHolder): &RHolder { return h }
access(all) fun passO(_ r: @Outer): @Outer { return <- r }
access(all) fun passOs(_ r: @[Outer]): @[Outer] { return <- r }
access(all) fun passB(_ r: @Box): @Box { return <- r }
access(all) fun consume(_ o: @Outer, _ r: &Inner): @Outer { log(r.id); return <- o }
`

type derState struct {
	g        *xg
	root     string
	kind     string // Outer | arrOuter | Box
	path     string
	nOuter   *xnode
	nInner   *xnode // outer.inner
	nMid     *xnode
	nMidIn   *xnode // outer.mid.inner
	nMidArr  *xnode // outer.mid.inners[0]
	nArr     *xnode // outer.arr[0]
	nDict    *xnode // outer.d["a"]
	top      *xnode
	rootGone bool
}

type derTarget struct {
	n    *xnode
	expr string // reference-taking expression
	form string
}

func (s *derState) targets() []derTarget {
	o := s.root + s.path
	var ts []derTarget
	add := func(n *xnode, e, f string) {
		if n != nil && !n.dead {
			ts = append(ts, derTarget{n, e, f})
		}
	}
	add(s.nInner, fmt.Sprintf("&%s.inner as &Inner", o), "target-depth1-field")
	add(s.nMidIn, fmt.Sprintf("&%s.mid.inner as &Inner", o), "target-depth2-field")
	add(s.nMidArr, fmt.Sprintf("&%s.mid.inners[0] as &Inner", o), "target-depth2-element")
	add(s.nArr, fmt.Sprintf("&%s.arr[0] as &Inner", o), "target-depth1-element")
	add(s.nDict, fmt.Sprintf("(&%s.d[\"a\"] as &Inner?)!", o), "target-depth1-entry")
	return ts
}

// takeRefs stores references in holders and reads them back.
func (s *derState) takeRefs(k int) {
	g := s.g
	for i := 0; i < k; i++ {
		ts := s.targets()
		if len(ts) == 0 {
			return
		}
		// nested-two-levels targets are what distinguishes the derived references: weight them
		t := ts[g.r.Intn(len(ts))]
		g.form(t.form)
		var read, form string // read-back expression, form
		direct := false
		switch g.r.Intn(11) {
		case 0:
			h, hr := g.tmp("h"), g.tmp("hr")
			g.w("let %s = Holder(%s)", h, t.expr)
			g.w("let %s = &%s as &Holder", hr, h)
			read, form = hr+".ref", "derived-struct-field"
		case 1:
			h, hr := g.tmp("h"), g.tmp("hr")
			g.w("let %s: [&Inner] = [%s]", h, t.expr)
			g.w("let %s = &%s as &[&Inner]", hr, h)
			read, form = hr+"[0]", "derived-array-element"
		case 2:
			h, hr := g.tmp("h"), g.tmp("hr")
			g.w("let %s: {String: &Inner} = {\"k\": %s}", h, t.expr)
			g.w("let %s = &%s as &{String: &Inner}", hr, h)
			read, form = hr+"[\"k\"]!", "derived-dictionary-entry"
		case 3:
			h, hr := g.tmp("h"), g.tmp("hr")
			g.w("let %s = Holder(%s)", h, t.expr)
			g.w("let %s = &%s as &Holder", hr, h)
			read, form = hr+".opt!", "derived-optional-field"
		case 4:
			h, hr := g.tmp("h"), g.tmp("hr")
			g.w("let %s = Holder(%s)", h, t.expr)
			g.w("let %s = &%s as &Holder", hr, h)
			if g.r.Bool() {
				read, form = hr+".refs[0]", "derived-array-in-struct"
			} else {
				read, form = hr+".d[\"k\"]!", "derived-dictionary-in-struct"
			}
		case 5:
			h, hr := g.tmp("h"), g.tmp("hr")
			g.w("let %s = Holder2(Holder(%s))", h, t.expr)
			g.w("let %s = &%s as &Holder2", hr, h)
			read, form = hr+".h.ref", "derived-nested-struct"
		case 6:
			h, hr := g.tmp("h"), g.tmp("hr")
			// (a resource holding a stale reference in a field can be neither moved nor destroyed: the
			// holder is destroyed as soon as the reference has been read back)
			g.w("let %s <- create RHolder(%s)", h, t.expr)
			g.w("let %s = idh(&%s as &RHolder)", hr, h)
			g.addRef(hr+".ref", t.n, "id", "derived-resource-field")
			g.w("destroy %s", h)
			continue
		case 7:
			h, hr := g.tmp("h"), g.tmp("hr")
			g.w("let %s = Holder(%s)", h, t.expr)
			g.w("let %s = &%s as &Holder", hr, h)
			read, form = "getRef("+hr+")", "derived-in-function"
		case 8:
			h, hr := g.tmp("h"), g.tmp("hr")
			g.w("let %s: [&Inner] = [%s]", h, t.expr)
			g.w("let %s = &%s as &[&Inner]", hr, h)
			l := g.tmp("l")
			g.w("var %s: [&Inner] = []", l)
			g.w("for e in %s { %s.append(e) }", hr, l)
			read, form = l+"[0]", "derived-by-loop"
		case 9: // control: read directly from the holder (the original reference value)
			h := g.tmp("h")
			g.w("let %s = Holder(%s)", h, t.expr)
			read, form = h+".ref", "direct-struct-field"
			direct = true
		default:
			h := g.tmp("h")
			g.w("let %s: [&Inner] = [%s]", h, t.expr)
			read, form = h+"[0]", "direct-array-element"
			direct = true
		}
		if !direct && g.r.Chance(12) {
			// derive only after the actions: the stored reference is stale by then
			g.form(form)
			g.form("derived-late")
			g.lates = append(g.lates, &xref{name: read, target: t.n, created: g.step, use: "id"})
			continue
		}
		g.addRef(read, t.n, "id", form)
	}
}

func (s *derState) action() {
	g := s.g
	g.step++
	o := s.root + s.path
	switch g.r.Intn(14) {
	case 0, 1:
		g.form("act-move-let")
		y := g.tmp("y")
		g.w("var %s <- %s", y, s.root)
		g.drop(s.root)
		g.owned = append(g.owned, y)
		s.root = y
		g.touch(s.top, false)
	case 2, 3:
		g.form("act-move-call")
		y := g.tmp("y")
		fn := map[string]string{"Outer": "passO", "arrOuter": "passOs", "Box": "passB"}[s.kind]
		g.w("var %s <- %s(<- %s)", y, fn, s.root)
		g.drop(s.root)
		g.owned = append(g.owned, y)
		s.root = y
		g.touch(s.top, false)
	case 4:
		if s.kind == "Outer" {
			g.form("act-move-into-array")
			y := g.tmp("y")
			g.w("var %s <- [<- %s]", y, s.root)
			g.drop(s.root)
			g.owned = append(g.owned, y)
			s.root, s.kind, s.path = y, "arrOuter", "[0]"
			g.touch(s.top, false)
		}
	case 5:
		if s.kind == "Outer" {
			g.form("act-move-into-field")
			y := g.tmp("y")
			g.w("var %s <- create Box(<- %s)", y, s.root)
			g.drop(s.root)
			g.owned = append(g.owned, y)
			s.root, s.kind, s.path = y, "Box", ".o"
			g.touch(s.top, false)
		}
	case 6:
		if s.kind == "Outer" {
			g.form("act-save-load")
			y := g.tmp("y")
			g.w("acct.storage.save(<- %s, to: /storage/s1)", s.root)
			g.w("var %s <- acct.storage.load<@Outer>(from: /storage/s1)!", y)
			g.drop(s.root)
			g.owned = append(g.owned, y)
			s.root = y
			g.touch(s.top, false)
		}
	case 7:
		g.form("act-destroy-root")
		g.w("destroy %s", s.root)
		g.drop(s.root)
		g.touch(s.top, true)
		s.rootGone = true
	case 8: // the middle resource is taken out: only the targets below it move
		if s.nMid != nil {
			g.form("act-take-mid")
			y := g.tmp("y")
			g.w("let %s <- %s.swapMid(<- create Mid(<- create Inner(%d), <- create Inner(%d)))", y, o, g.fresh(), g.fresh())
			g.owned = append(g.owned, y)
			g.touch(s.nMid, false)
			s.detach(s.nMid)
			s.nMid, s.nMidIn, s.nMidArr = nil, nil, nil
		}
	case 9: // a target itself is taken out
		if s.nInner != nil {
			g.form("act-take-inner")
			y := g.tmp("y")
			g.w("let %s <- %s.swapInner(<- create Inner(%d))", y, o, g.fresh())
			g.owned = append(g.owned, y)
			g.touch(s.nInner, false)
			s.detach(s.nInner)
			s.nInner = nil
		}
	case 10:
		if s.nArr != nil {
			g.form("act-take-element")
			y := g.tmp("y")
			g.w("let %s <- %s.swapArr(<- create Inner(%d))", y, o, g.fresh())
			g.owned = append(g.owned, y)
			g.touch(s.nArr, false)
			s.detach(s.nArr)
			s.nArr = nil
		}
	case 11:
		if s.nMidIn != nil {
			g.form("act-take-depth2")
			y := g.tmp("y")
			g.w("let %s <- %s.mid.swapInner(<- create Inner(%d))", y, o, g.fresh())
			g.owned = append(g.owned, y)
			g.touch(s.nMidIn, false)
			s.detachFrom(s.nMid, s.nMidIn)
			s.nMidIn = nil
		}
	default: // non-moving mutation
		ts := s.targets()
		if len(ts) > 0 {
			t := ts[g.r.Intn(len(ts))]
			var acc string
			switch t.n {
			case s.nInner:
				acc = ".inner"
			case s.nMidIn:
				acc = ".mid.inner"
			case s.nMidArr:
				acc = ".mid.inners[0]"
			case s.nArr:
				acc = ".arr[0]"
			default:
				return
			}
			g.form("act-set-id")
			t.n.tag = g.fresh()
			g.w("%s%s.setID(%d)", o, acc, t.n.tag)
		}
	}
}

func (s *derState) detach(n *xnode) { s.detachFrom(s.nOuter, n) }

func (s *derState) detachFrom(p, n *xnode) {
	for i, c := range p.kids {
		if c == n {
			p.kids = append(p.kids[:i:i], p.kids[i+1:]...)
			return
		}
	}
}

func derivedRefProg(r *hx.Rng) *RefProg {
	g := &xg{r: r, forms: map[string]bool{}, next: 10}
	g.b.WriteString(DerPrelude)
	g.b.WriteString("access(all) fun main(): Int {\n")
	g.w("let acct = getAuthAccount<auth(Storage) &Account>(0x1)")
	s := &derState{g: g}
	s.nInner = &xnode{tag: g.fresh()}
	s.nMidIn = &xnode{tag: g.fresh()}
	s.nMidArr = &xnode{tag: g.fresh()}
	s.nMid = &xnode{kids: []*xnode{s.nMidIn, s.nMidArr}}
	s.nArr = &xnode{tag: g.fresh()}
	s.nDict = &xnode{tag: g.fresh()}
	s.nOuter = &xnode{kids: []*xnode{s.nInner, s.nMid, s.nArr, s.nDict}}
	s.top = s.nOuter
	x := g.tmp("x")
	g.w("var %s <- create Outer(<- create Inner(%d), <- create Mid(<- create Inner(%d), <- create Inner(%d)), <- create Inner(%d), <- create Inner(%d))",
		x, s.nInner.tag, s.nMidIn.tag, s.nMidArr.tag, s.nArr.tag, s.nDict.tag)
	s.root, s.kind, s.path = x, "Outer", ""
	if r.Chance(20) {
		g.form("outer-in-field")
		y := g.tmp("x")
		g.w("var %s <- create Box(<- %s)", y, x)
		s.root, s.kind, s.path = y, "Box", ".o"
	}
	g.owned = append(g.owned, s.root)
	s.takeRefs(r.Intn(3) + 2)
	nact := r.Intn(2) + 1
	for i := 0; i < nact && !s.rootGone; i++ {
		s.action()
		if !s.rootGone && r.Chance(30) {
			s.takeRefs(1)
		}
	}
	return g.finish(85)
}
