package lang2

// Directed multi-account family of stream `resown` (property C02: "destroying a resource that declares a
// destruction event emits that event exactly once, including for nested resources").
//
// Every scenario deploys two or three contracts to different accounts such that a resource and the
// interfaces it conforms to (directly or transitively) have the SAME qualified identifier (`Foo.R`) —
// or the same nested type names — but different locations, each declaring its own `ResourceDestroyed`
// event with a default argument reading a field.  A transaction then creates N resources (ids 1..N) in
// some container shape and destroys them (directly, or after a save / load round trip through account
// storage in a second transaction).  The expected multiset of events is computed here from the
// scenario alone (one event per destroyed resource and declared event: own + each inherited); the
// driver compares it with the events each engine emitted (class `destroy-event-count-wrong`).
//
// source encoding (last op field): parts, each starting with a header line
//     //! deploy <address> <name>        contract code follows
//     //! tx <signer address>            transaction code follows

import (
	"fmt"
	"sort"
	"strconv"
	"strings"

	"github.com/onflow/cadence"
	"github.com/onflow/cadence/common"
	. "github.com/onflow/cadence/test_utils/runtime_utils"

	"verif/harness/internal/cdc"
)

// MultiScenario is one directed multi-account program with its expected events.
type MultiScenario struct {
	Label  string
	Forms  []string
	N      int
	Expect []string // sorted, rendered like the observation's events
	Src    string
}

var multiShapes = []string{"iface-res", "two-ifaces", "chain", "nested-names", "control"}
var multiConts = []string{"direct", "array", "dict", "field", "opt-chain", "array-of-fields"}

// MultiScenarios enumerates the whole family (shape x container x N x stored).
func MultiScenarios() []*MultiScenario {
	var out []*MultiScenario
	for _, shape := range multiShapes {
		for _, cont := range multiConts {
			for n := 1; n <= 3; n++ {
				for _, stored := range []bool{false, true} {
					out = append(out, buildMulti(shape, cont, n, stored))
				}
			}
		}
	}
	return out
}

func addr(a int) string { return fmt.Sprintf("A.%016x", a) }

const multiIfaceBody = `        access(all) let id: Int
        access(all) event ResourceDestroyed(id: Int = self.id)
`

func buildMulti(shape, cont string, n int, stored bool) *MultiScenario {
	var b strings.Builder
	deploy := func(a int, name, code string) {
		fmt.Fprintf(&b, "//! deploy %d %s\n%s", a, name, code)
	}
	// main contract: name, imports, conformances of R, conformance of Collection
	main := "Foo"
	var imports, rConf []string
	collConf := ""
	// event types emitted per destroyed R / per destroyed Collection
	var rTypes, cTypes []string
	switch shape {
	case "iface-res":
		deploy(2, "Foo", "access(all) contract Foo {\n    access(all) resource interface R {\n"+multiIfaceBody+"    }\n}\n")
		imports = []string{"import Foo as OtherFoo from 0x2"}
		rConf = []string{"OtherFoo.R"}
		rTypes = []string{addr(1) + ".Foo.R", addr(2) + ".Foo.R"}
		cTypes = []string{addr(1) + ".Foo.Collection"}
	case "two-ifaces":
		main = "Main"
		for _, a := range []int{2, 3} {
			deploy(a, "Foo", "access(all) contract Foo {\n    access(all) resource interface I {\n"+multiIfaceBody+"    }\n}\n")
		}
		imports = []string{"import Foo as FooA from 0x2", "import Foo as FooB from 0x3"}
		rConf = []string{"FooA.I", "FooB.I"}
		rTypes = []string{addr(1) + ".Main.R", addr(2) + ".Foo.I", addr(3) + ".Foo.I"}
		cTypes = []string{addr(1) + ".Main.Collection"}
	case "chain":
		deploy(3, "Foo", "access(all) contract Foo {\n    access(all) resource interface R {\n"+multiIfaceBody+"    }\n}\n")
		deploy(2, "Foo", "import Foo as Base from 0x3\naccess(all) contract Foo {\n    access(all) resource interface R: Base.R {\n"+multiIfaceBody+"    }\n}\n")
		imports = []string{"import Foo as Mid from 0x2"}
		rConf = []string{"Mid.R"}
		rTypes = []string{addr(1) + ".Foo.R", addr(2) + ".Foo.R", addr(3) + ".Foo.R"}
		cTypes = []string{addr(1) + ".Foo.Collection"}
	case "nested-names":
		// the same nested type names (R, Collection) in contract Foo at two addresses
		deploy(2, "Foo", "access(all) contract Foo {\n    access(all) resource interface R {\n"+multiIfaceBody+
			"    }\n    access(all) resource interface Collection {\n"+multiIfaceBody+"    }\n}\n")
		imports = []string{"import Foo as OtherFoo from 0x2"}
		rConf = []string{"OtherFoo.R"}
		collConf = "OtherFoo.Collection"
		rTypes = []string{addr(1) + ".Foo.R", addr(2) + ".Foo.R"}
		cTypes = []string{addr(1) + ".Foo.Collection", addr(2) + ".Foo.Collection"}
	case "control":
		// distinct contract names: nothing shares a qualified identifier
		deploy(2, "Foo2", "access(all) contract Foo2 {\n    access(all) resource interface R {\n"+multiIfaceBody+"    }\n}\n")
		imports = []string{"import Foo2 from 0x2"}
		rConf = []string{"Foo2.R"}
		rTypes = []string{addr(1) + ".Foo.R", addr(2) + ".Foo2.R"}
		cTypes = []string{addr(1) + ".Foo.Collection"}
	}
	var c strings.Builder
	for _, im := range imports {
		c.WriteString(im + "\n")
	}
	cc := ""
	if collConf != "" {
		cc = ": " + collConf
	}
	fmt.Fprintf(&c, `access(all) contract %s {
    access(all) resource R: %s {
        access(all) let id: Int
        access(all) var inner: @R?
        access(all) event ResourceDestroyed(id: Int = self.id)
        init(id: Int, inner: @R?) {
            self.id = id
            self.inner <- inner
        }
    }
    access(all) resource Collection%s {
        access(all) let id: Int
        access(all) var rs: @{Int: R}
        access(all) event ResourceDestroyed(id: Int = self.id)
        init(id: Int, from: Int, to: Int) {
            self.id = id
            self.rs <- {}
            var k = from
            while k <= to {
                self.rs[k] <-! create R(id: k, inner: nil)
                k = k + 1
            }
        }
    }
    access(all) fun make(id: Int): @R {
        return <- create R(id: id, inner: nil)
    }
    access(all) fun wrap(id: Int, inner: @R): @R {
        return <- create R(id: id, inner: <- inner)
    }
    access(all) fun makeCollection(id: Int, from: Int, to: Int): @Collection {
        return <- create Collection(id: id, from: from, to: to)
    }
}
`, main, strings.Join(rConf, ", "), cc)
	deploy(1, main, c.String())

	// the transaction(s): build the containers; `keep` is saved and never destroyed
	var expect []string
	expR := func(id int) {
		for _, t := range rTypes {
			expect = append(expect, fmt.Sprintf("%s.ResourceDestroyed(id: %d)", t, id))
		}
	}
	expC := func(id int) {
		for _, t := range cTypes {
			expect = append(expect, fmt.Sprintf("%s.ResourceDestroyed(id: %d)", t, id))
		}
	}
	for k := 1; k <= n; k++ {
		expR(k)
	}
	// values to destroy: (type, building statements, expression)
	type item struct{ ty, path string; build []string; expr string }
	var items []item
	M := main
	switch cont {
	case "direct":
		for k := 1; k <= n; k++ {
			items = append(items, item{ty: "@" + M + ".R", path: "r" + strconv.Itoa(k), expr: fmt.Sprintf("%s.make(id: %d)", M, k)})
		}
	case "array":
		bl := []string{fmt.Sprintf("let a: @[%s.R] <- []", M)}
		for k := 1; k <= n; k++ {
			bl = append(bl, fmt.Sprintf("a.append(<- %s.make(id: %d))", M, k))
		}
		items = append(items, item{ty: "@[" + M + ".R]", path: "a", build: bl, expr: "a"})
	case "dict":
		bl := []string{fmt.Sprintf("let d: @{Int: %s.R} <- {}", M)}
		for k := 1; k <= n; k++ {
			bl = append(bl, fmt.Sprintf("d[%d] <-! %s.make(id: %d)", k*7, M, k))
		}
		items = append(items, item{ty: "@{Int: " + M + ".R}", path: "d", build: bl, expr: "d"})
	case "field":
		items = append(items, item{ty: "@" + M + ".Collection", path: "c", expr: fmt.Sprintf("%s.makeCollection(id: 100, from: 1, to: %d)", M, n)})
		expC(100)
	case "opt-chain":
		e := fmt.Sprintf("%s.make(id: %d)", M, n)
		for k := n - 1; k >= 1; k-- {
			e = fmt.Sprintf("%s.wrap(id: %d, inner: <- %s)", M, k, e)
		}
		items = append(items, item{ty: "@" + M + ".R", path: "o", expr: e})
	case "array-of-fields":
		// one collection per resource, held in an array
		bl := []string{fmt.Sprintf("let cs: @[%s.Collection] <- []", M)}
		for k := 1; k <= n; k++ {
			bl = append(bl, fmt.Sprintf("cs.append(<- %s.makeCollection(id: %d, from: %d, to: %d))", M, 100+k, k, k))
			expC(100 + k)
		}
		items = append(items, item{ty: "@[" + M + ".Collection]", path: "cs", build: bl, expr: "cs"})
	}
	tx := func(body []string) {
		fmt.Fprintf(&b, "//! tx 1\nimport %s from 0x1\ntransaction {\n    prepare(acct: auth(Storage) &Account) {\n", M)
		for _, l := range body {
			b.WriteString("        " + l + "\n")
		}
		b.WriteString("    }\n}\n")
	}
	if !stored {
		var body []string
		for _, it := range items {
			body = append(body, it.build...)
			body = append(body, "destroy "+it.expr)
		}
		tx(body)
	} else {
		var body []string
		for _, it := range items {
			body = append(body, it.build...)
			body = append(body, fmt.Sprintf("acct.storage.save(<- %s, to: /storage/%s)", it.expr, it.path))
		}
		body = append(body, fmt.Sprintf("acct.storage.save(<- %s.make(id: 9), to: /storage/keep)", M))
		tx(body)
		body = nil
		for i, it := range items {
			if i%2 == 0 {
				body = append(body, fmt.Sprintf("destroy acct.storage.load<%s>(from: /storage/%s)!", it.ty, it.path))
			} else {
				body = append(body, fmt.Sprintf("let v%d <- acct.storage.load<%s>(from: /storage/%s)!", i, it.ty, it.path), fmt.Sprintf("destroy v%d", i))
			}
		}
		tx(body)
	}
	sort.Strings(expect)
	forms := []string{"shape-" + shape, "cont-" + cont, "n-" + strconv.Itoa(n)}
	label := "ma-" + shape + "-" + cont + "-" + strconv.Itoa(n)
	if stored {
		forms = append(forms, "via-storage")
		label += "-stored"
	}
	return &MultiScenario{Label: label, Forms: forms, N: n, Expect: expect, Src: b.String()}
}

// RenderEventID renders an event as `<type id>(name: value, ...)` (location kept), fields sorted by name.
func RenderEventID(ev cadence.Event) string {
	if ev.EventType == nil {
		return "?()"
	}
	s := RenderEvent(ev)
	return string(ev.EventType.Location.TypeID(nil, ev.EventType.QualifiedIdentifier)) + s[strings.Index(s, "("):]
}

// Debug prints the error of a failing part (scratch probes only).
var Debug bool

// RunMulti executes the parts of a multi-account scenario in one environment with one engine and returns
// `<outcome>|<log;…>|<event;…>`: outcome `ok`, or `<class>:<kind>` of the first failing part; the events
// are those of the transactions (not of the deployments), with full type ids, sorted.
func RunMulti(src string, useVM bool) string {
	e := cdc.NewEnv()
	e.Limit = Limit
	res := "ok"
	var logs, evs []string
	var hdr []string
	var body strings.Builder
	flush := func() {
		if hdr == nil || res != "ok" {
			return
		}
		a, _ := strconv.Atoi(hdr[1])
		e.Signers = []common.Address{common.Address{0, 0, 0, 0, 0, 0, 0, byte(a)}}
		var o *cdc.Outcome
		if hdr[0] == "deploy" {
			o = e.Tx(string(DeploymentTransaction(hdr[2], []byte(body.String()))), nil, useVM)
		} else {
			o = e.Tx(body.String(), nil, useVM)
			for _, l := range o.Logs {
				logs = append(logs, clean(l))
			}
			for _, ev := range o.Events {
				evs = append(evs, strings.NewReplacer(";", ",", "|", "/", "\n", " ", "\t", " ").Replace(RenderEventID(ev)))
			}
		}
		if o.Class != "none" {
			if Debug {
				fmt.Println("DEBUG", hdr, cdc.ErrString(o.Err))
			}
			res = o.Class + ":" + Kind(o.Kind)
			if hdr[0] == "deploy" {
				res += "@deploy-" + hdr[1]
			}
		}
	}
	for _, line := range strings.Split(src, "\n") {
		if strings.HasPrefix(line, "//! ") {
			flush()
			hdr = strings.Fields(line[4:])
			body.Reset()
			continue
		}
		body.WriteString(line + "\n")
	}
	flush()
	sort.Strings(evs)
	return res + "|" + strings.Join(logs, ";") + "|" + strings.Join(evs, ";")
}
