// Package l3run renders the observation of one run of a generated L3 program (properties C10, C48, C49,
// C07): outcome, ordered program log, ordered host EmitEvent payloads.
package l3run

import (
	"encoding/json"
	"errors"
	"fmt"
	"sort"
	"strings"

	"github.com/onflow/cadence"
	"github.com/onflow/cadence/ast"
	jsoncdc "github.com/onflow/cadence/encoding/json"
	"github.com/onflow/cadence/interpreter"

	"verif/harness/internal/cdc"
	"verif/harness/internal/lang"
)

// Outcome renders ok:<value> | <class>:<kind>; condition errors carry their kind (pre / post).
func Outcome(o *cdc.Outcome) string {
	if o.Class == "none" {
		return "ok:" + lang.RenderValue(o.Value)
	}
	var ce *interpreter.ConditionError
	if errors.As(o.Err, &ce) {
		if ce.ConditionKind == ast.ConditionKindPost {
			return o.Class + ":cond-post"
		}
		return o.Class + ":cond-pre"
	}
	return o.Class + ":" + lang.Kind(o.Kind)
}

// ShortType strips the location prefix of a type id: `s.<hex>.E` -> `E`, `A.<addr>.C.E` -> `C.E`.
func ShortType(id string) string {
	parts := strings.Split(id, ".")
	if len(parts) >= 3 && (parts[0] == "s" || parts[0] == "A" || parts[0] == "t") {
		return strings.Join(parts[2:], ".")
	}
	return id
}

// Value renders an exported value: like lang.RenderValue, but with short type ids for composites and
// fields in declaration order.
func Value(v cadence.Value) string {
	switch x := v.(type) {
	case nil:
		return "void"
	case cadence.Optional:
		if x.Value == nil {
			return "nil"
		}
		return "some(" + Value(x.Value) + ")"
	case cadence.Array:
		parts := make([]string, len(x.Values))
		for i, e := range x.Values {
			parts[i] = Value(e)
		}
		return "[" + strings.Join(parts, ",") + "]"
	case cadence.Dictionary:
		parts := make([]string, len(x.Pairs))
		for i, p := range x.Pairs {
			parts[i] = Value(p.Key) + ":" + Value(p.Value)
		}
		sort.Strings(parts)
		return "{" + strings.Join(parts, ",") + "}"
	case cadence.Struct:
		return composite(x.StructType.ID(), x)
	case cadence.Resource:
		return composite(x.ResourceType.ID(), x)
	case cadence.Event:
		return composite(x.EventType.ID(), x)
	case cadence.Address:
		return "addr:" + x.String()
	case cadence.Path:
		return "path:" + x.String()
	case cadence.Character:
		return fmt.Sprintf("chr:%q", string(x))
	}
	return lang.RenderValue(v)
}

// FieldNames returns the field names of a composite value in the order of the exported payload (the
// cadence package has no exported ordered accessor; the JSON-Cadence encoding lists name/value pairs in
// payload order).
func FieldNames(v cadence.Value) []string {
	b, err := jsoncdc.Encode(v)
	if err != nil {
		return []string{"!unencodable"}
	}
	var doc struct {
		Value struct {
			Fields []struct {
				Name string `json:"name"`
			} `json:"fields"`
		} `json:"value"`
	}
	if err := json.Unmarshal(b, &doc); err != nil {
		return []string{"!unparsable"}
	}
	names := make([]string, len(doc.Value.Fields))
	for i, f := range doc.Value.Fields {
		names[i] = f.Name
	}
	return names
}

func composite(id string, v cadence.Composite) string {
	names := FieldNames(v)
	vals := cadence.FieldsMappedByName(v)
	parts := make([]string, len(names))
	for i, n := range names {
		parts[i] = n + "=" + Value(vals[n])
	}
	return ShortType(id) + "{" + strings.Join(parts, ",") + "}"
}

// Event renders one host EmitEvent payload: short type id, then the payload's field names in payload
// order with the values *in payload order* (cadence.Event.FieldsMappedByName is not used: the order is
// the observation).
func Event(e cadence.Event) string {
	names := FieldNames(e)
	vals := cadence.FieldsMappedByName(e)
	parts := make([]string, len(names))
	for i, n := range names {
		parts[i] = n + "=" + Value(vals[n])
	}
	id := ""
	if e.EventType != nil {
		id = ShortType(e.EventType.ID())
	}
	return id + "(" + strings.Join(parts, ",") + ")"
}

func clean(s string) string {
	return strings.NewReplacer(";", ",", "|", "/", "\t", " ", "\n", " ").Replace(s)
}

// Obs = <outcome>|<log;log>|<event;event>
func Obs(o *cdc.Outcome) string {
	logs := make([]string, len(o.Logs))
	for i, l := range o.Logs {
		logs[i] = clean(l)
	}
	evs := make([]string, len(o.Events))
	for i, e := range o.Events {
		evs[i] = clean(Event(e))
	}
	return Outcome(o) + "|" + strings.Join(logs, ";") + "|" + strings.Join(evs, ";")
}

// RunAll runs a script on the three engines and joins the observations by " @@ ".
func RunAll(src string) string {
	parts := []string{}
	for _, m := range []lang.Mode{lang.Interp, lang.VM, lang.VMPeephole} {
		parts = append(parts, Obs(lang.Run(src, m)))
	}
	return strings.Join(parts, " @@ ")
}

// FirstKind is a short single-token rendering of a checker error.
func FirstKind(err error) string {
	s := err.Error()
	if i := strings.Index(s, "error: "); i >= 0 {
		s = s[i+7:]
	}
	if i := strings.Index(s, "\n"); i >= 0 {
		s = s[:i]
	}
	if len(s) > 80 {
		s = s[:80]
	}
	return strings.ReplaceAll(clean(s), " ", "_")
}
