package main

import (
	"fmt"
	"os"
	"verif/harness/internal/lang"
)

func main() {
	b, _ := os.ReadFile(os.Args[1])
	src := string(b)
	_, err := lang.Check(src)
	if err != nil {
		fmt.Println("CHECK ERR:", err)
	}
	for _, m := range []lang.Mode{lang.Interp, lang.VM, lang.VMPeephole} {
		o := lang.Run(src, m)
		fmt.Println(m, lang.Observation(o))
		if o.Err != nil { fmt.Println("   ", o.Err) }
		for _, e := range o.Events { fmt.Println("   ev:", e.String()) }
	}
}
