package main

import (
	"fmt"
	"os"

	"github.com/onflow/cadence/encoding/ccf"
	jsoncdc "github.com/onflow/cadence/encoding/json"

	"verif/harness/internal/l3run"
	"verif/harness/internal/lang"
)

func main() {
	b, _ := os.ReadFile(os.Args[1])
	src := string(b)
	_, err := lang.Check(src)
	if err != nil {
		fmt.Println("CHECK ERR:", err)
	}
	for _, m := range []lang.Mode{lang.Interp, lang.VM, lang.VMPeephole} {
		o := lang.Run(src, m)
		fmt.Println(m, l3run.Obs(o))
		if o.Err != nil {
			fmt.Println("   ", o.Err)
		}
		for _, e := range o.Events {
			j, jerr := jsoncdc.Encode(e)
			c, cerr := ccf.Encode(e)
			fmt.Printf("   json=%s err=%v\n   ccf=%x err=%v\n", j, jerr, c, cerr)
			if cerr == nil {
				v, derr := ccf.Decode(nil, c)
				fmt.Printf("   ccf-decoded=%v err=%v\n", v, derr)
			}
		}
	}
}
