package main

import (
	"fmt"
	"os"
	"strconv"
	"time"

	"verif/harness/internal/hx"
	"verif/harness/internal/meterx"
)

func main() {
	t0 := time.Now()
	n, _ := strconv.Atoi(os.Args[1])
	seed, _ := strconv.Atoi(os.Args[2])
	r := hx.NewRng(uint64(seed))
	kinds := map[string]int{}
	for _, vm := range []bool{false, true} {
		w := meterx.Setup(vm)
		fmt.Println("setup", vm, time.Since(t0))
		rr := hx.NewRng(uint64(seed))
		_ = r
		for i := 0; i < n; i++ {
			p := meterx.Program(rr.Fork(), 1+rr.Intn(6), 15)
			rec := meterx.NewRec(200000, 0, false)
			out := meterx.Exec(w.Clone(), p, rec, meterx.Options{UseVM: vm, Seq: 7})
			kinds[fmt.Sprint(vm)+" "+out.Short()]++
			if out.Status != "ok" && (out.Kind == "sema.CheckerError" || out.Kind == "ParsingCheckingError" || out.Class != "user" || len(os.Args) > 3) {
				fmt.Println("-----", out.Short())
				fmt.Println(p.Src)
				fmt.Println(out.Res.Err, out.Res.PanicVal)
			}
		}
	}
	for k, v := range kinds {
		fmt.Println(k, v)
	}
	fmt.Println(time.Since(t0))
}
