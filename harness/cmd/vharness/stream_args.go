package main

// Stream `args` (property C29): entry-point argument import and validation.
//
//	args  arg   <engine>  <param type, Polish>  <JSON-CDC argument>  <sx of the decoded argument>
//	args  count <engine>  <number of parameters>  <number of arguments>
//	args  decl  <type ID>
//
// `arg`: the script `fun main(a: T): [AnyStruct] { let copy = a; return [a.getType(), a.getType().isSubtype(of: Type<T>()), a] }`
// runs on the real runtime with the JSON-CDC argument; struct / enum / resource types come from the
// contract C deployed at 0x1 first.  Observation:
//
//	accept <run-time type, Polish> <isSubtype 0|1> <sx of the exported argument>
//	reject <class> <stage>            class: user|internal|external|other|crash,
//	                                  stage: count|decode|import|notimportable|type|malformed|other
//	static-reject                     parameter type refused by the checker / not an importable type
//	sx-mismatch                       the op's sx field is not the decoding of its JSON field
//
// The sx field is derived (the decoding of the JSON field, printed at generation time); Exec
// re-derives it and refuses an op line whose two fields disagree.
//
// Polish type notation: that of stream_types.go (p NAME | o T | va T | ca N T | d K V | r u T |
// comp ID KIND CONFS 0 | in N (if ID KIND CONFS)* | cap T | capany | f impure 0 T).
// Value sx: void | nil | (some V) | (bool 0|1) | (str HEX) | (char HEX) | (addr HEX) | (num KIND DEC)
// | (path DOMAIN ID) | (arr T|_ V*) | (dict T|_ (K V)*) | (comp KIND ID (NAME V)*) | (type T|!) |
// (cap DEC HEX T) | fn | contract ; `!decode` when the JSON does not decode, `!oof` outside the fragment.

import (
	"errors"
	"fmt"
	"math/big"
	"sort"
	"strconv"
	"strings"
	"sync"
	"unicode/utf8"
	_ "unsafe"

	"github.com/onflow/cadence"
	"github.com/onflow/cadence/common"
	"github.com/onflow/cadence/encoding/json"
	"github.com/onflow/cadence/runtime"

	"verif/harness/internal/cdc"
	"verif/harness/internal/hx"
)

//go:linkname argsCompositeFieldValues github.com/onflow/cadence.getCompositeFieldValues
func argsCompositeFieldValues(cadence.Composite) []cadence.Value

//go:linkname argsCompositeTypeFields github.com/onflow/cadence.getCompositeTypeFields
func argsCompositeTypeFields(cadence.CompositeType) []cadence.Field

func init() {
	hx.Register(&hx.Stream{Name: "args", Gen: genArgs, Exec: execArgs, Parallel: true})
}

// ---- the declared universe (contract C at 0x1) ----

const argsPfx = "A.0000000000000001.C."

type argsDecl struct {
	name, kind, confs string
	fields            [][2]string // name, Polish type
}

func argsComp(name string) string {
	for _, d := range argsDecls {
		if d.name == name {
			confs := "-"
			if d.confs != "" {
				confs = argsPfx + d.confs
			}
			return "comp " + argsPfx + d.name + " " + d.kind + " " + confs + " 0"
		}
	}
	panic("unknown " + name)
}

const argsIfaceI = "if " + argsPfx + "I struct -"

var argsDecls []argsDecl

func init() {
	argsDecls = []argsDecl{
		{name: "S", kind: "struct", confs: "I", fields: [][2]string{{"x", "p Int"}, {"y", "p String"}}},
		{name: "Empty", kind: "struct"},
		{name: "E", kind: "enum", fields: [][2]string{{"rawValue", "p UInt8"}}},
		{name: "F", kind: "enum", fields: [][2]string{{"rawValue", "p Int"}}},
		{name: "R", kind: "resource", fields: [][2]string{{"uuid", "p UInt64"}, {"id", "p Int"}}},
		{name: "Ev", kind: "event", fields: [][2]string{{"x", "p Int"}}},
		{name: "U", kind: "struct", fields: [][2]string{{"any", "p AnyStruct"}}},
		{name: "Fn", kind: "struct", fields: [][2]string{{"f", "o f impure 0 p Void"}}},
	}
	// declarations whose field types mention earlier declarations
	argsDecls = append(argsDecls,
		argsDecl{name: "T", kind: "struct", fields: [][2]string{{"s", argsComp("S")}, {"o", "o p Int"}, {"a", "va p UInt8"}, {"d", "d p String p Int"}}},
		argsDecl{name: "W", kind: "struct", fields: [][2]string{{"e", argsComp("E")}, {"i", "in 1 " + argsIfaceI}, {"p", "p StoragePath"}, {"t", "p MetaType"}, {"os", "o " + argsComp("S")}}},
	)
}

func argsDeclByID(id string) *argsDecl {
	for i := range argsDecls {
		if argsPfx+argsDecls[i].name == id {
			return &argsDecls[i]
		}
	}
	return nil
}

// ---- Polish types ----

type argsTy struct {
	k    string // p o va ca d comp in cap capany r f
	name string
	n    int
	a, b *argsTy
	src  string // the Polish text of this node
}

type argsTyParser struct {
	toks []string
	pos  int
}

func (p *argsTyParser) next() string {
	if p.pos >= len(p.toks) {
		panic("short type")
	}
	t := p.toks[p.pos]
	p.pos++
	return t
}

func (p *argsTyParser) ty() *argsTy {
	start := p.pos
	t := &argsTy{}
	switch tok := p.next(); tok {
	case "p":
		t.k, t.name = "p", p.next()
	case "o", "va", "cap":
		t.k = tok
		t.a = p.ty()
	case "ca":
		t.k = "ca"
		t.n, _ = strconv.Atoi(p.next())
		t.a = p.ty()
	case "d":
		t.k = "d"
		t.a = p.ty()
		t.b = p.ty()
	case "r":
		t.k = "r"
		p.next()
		t.a = p.ty()
	case "comp":
		t.k, t.name = "comp", p.next()
		p.next()
		p.next()
		p.next()
	case "in":
		t.k = "in"
		n, _ := strconv.Atoi(p.next())
		for i := 0; i < n; i++ {
			p.next()
			t.name = p.next()
			p.next()
			p.next()
		}
	case "capany":
		t.k = "capany"
	case "f":
		t.k = "f"
		p.next()
		p.next()
		t.a = p.ty()
	default:
		panic("bad type token " + tok)
	}
	t.src = strings.Join(p.toks[start:p.pos], " ")
	return t
}

func argsParseTy(s string) *argsTy {
	p := &argsTyParser{toks: strings.Fields(s)}
	t := p.ty()
	if p.pos != len(p.toks) {
		panic("trailing tokens in type")
	}
	return t
}

func argsShort(id string) string { return "C." + strings.TrimPrefix(id, argsPfx) }

// Cadence source syntax of a type
func (t *argsTy) cadence() string {
	switch t.k {
	case "p":
		if t.name == "MetaType" {
			return "Type"
		}
		return t.name
	case "o":
		if t.a.k == "f" {
			return "(" + t.a.cadence() + ")?"
		}
		return t.a.cadence() + "?"
	case "va":
		return "[" + t.a.cadence() + "]"
	case "ca":
		return "[" + t.a.cadence() + "; " + strconv.Itoa(t.n) + "]"
	case "d":
		return "{" + t.a.cadence() + ": " + t.b.cadence() + "}"
	case "comp":
		return argsShort(t.name)
	case "in":
		return "{" + argsShort(t.name) + "}"
	case "cap":
		return "Capability<" + t.a.cadence() + ">"
	case "capany":
		return "Capability"
	case "r":
		return "&" + t.a.cadence()
	case "f":
		return "fun(): " + t.a.cadence()
	}
	panic("cadence: " + t.k)
}

func argsContractSource() string {
	var b strings.Builder
	b.WriteString("access(all) contract C {\n  access(all) struct interface I {}\n")
	for _, d := range argsDecls {
		switch d.kind {
		case "enum":
			fmt.Fprintf(&b, "  access(all) enum %s: %s { access(all) case a; access(all) case b }\n", d.name, argsParseTy(d.fields[0][1]).cadence())
		case "event":
			fmt.Fprintf(&b, "  access(all) event %s(x: Int)\n", d.name)
		default:
			conf := ""
			if d.confs != "" {
				conf = ": " + d.confs
			}
			fmt.Fprintf(&b, "  access(all) %s %s%s {\n", map[string]string{"struct": "struct", "resource": "resource"}[d.kind], d.name, conf)
			var ps, as []string
			for _, f := range d.fields {
				if f[0] == "uuid" {
					continue // implicit
				}
				ty := argsParseTy(f[1]).cadence()
				fmt.Fprintf(&b, "    access(all) let %s: %s\n", f[0], ty)
				ps = append(ps, f[0]+": "+ty)
				as = append(as, "self."+f[0]+" = "+f[0])
			}
			fmt.Fprintf(&b, "    init(%s) { %s }\n  }\n", strings.Join(ps, ", "), strings.Join(as, "; "))
		}
	}
	b.WriteString("}\n")
	return b.String()
}

// ---- Polish of an external type (exported values, type values); "" when outside the fragment ----

func argsPolish(t cadence.Type) string {
	switch t := t.(type) {
	case nil:
		return ""
	case cadence.PrimitiveType:
		id := t.ID()
		if id == "Type" {
			return "p MetaType"
		}
		if strings.ContainsAny(id, ". <") {
			return ""
		}
		return "p " + id
	case *cadence.OptionalType:
		if s := argsPolish(t.Type); s != "" {
			return "o " + s
		}
	case *cadence.VariableSizedArrayType:
		if s := argsPolish(t.ElementType); s != "" {
			return "va " + s
		}
	case *cadence.ConstantSizedArrayType:
		if s := argsPolish(t.ElementType); s != "" {
			return "ca " + strconv.Itoa(int(t.Size)) + " " + s
		}
	case *cadence.DictionaryType:
		k, v := argsPolish(t.KeyType), argsPolish(t.ElementType)
		if k != "" && v != "" {
			return "d " + k + " " + v
		}
	case *cadence.ReferenceType:
		if t.Authorization == cadence.UnauthorizedAccess {
			if s := argsPolish(t.Type); s != "" {
				return "r u " + s
			}
		}
	case *cadence.CapabilityType:
		if t.BorrowType == nil {
			return "capany"
		}
		if s := argsPolish(t.BorrowType); s != "" {
			return "cap " + s
		}
	case *cadence.IntersectionType:
		if len(t.Types) == 1 && t.Types[0].ID() == argsPfx+"I" {
			return "in 1 " + argsIfaceI
		}
	case *cadence.StructInterfaceType:
		if t.ID() == argsPfx+"I" {
			return argsIfaceI
		}
	case cadence.CompositeType:
		if d := argsDeclByID(t.ID()); d != nil {
			return argsComp(d.name)
		}
		return "!"
	}
	return ""
}

// ---- sx of external values ----

func argsKind(v cadence.Value) string {
	switch v.(type) {
	case cadence.Struct:
		return "struct"
	case cadence.Resource:
		return "resource"
	case cadence.Event:
		return "event"
	case cadence.Enum:
		return "enum"
	}
	return ""
}

func argsNum(v cadence.Value) (string, string, bool) {
	switch x := v.(type) {
	case cadence.Int:
		return "Int", x.Big().String(), true
	case cadence.Int8:
		return "Int8", strconv.FormatInt(int64(x), 10), true
	case cadence.Int16:
		return "Int16", strconv.FormatInt(int64(x), 10), true
	case cadence.Int32:
		return "Int32", strconv.FormatInt(int64(x), 10), true
	case cadence.Int64:
		return "Int64", strconv.FormatInt(int64(x), 10), true
	case cadence.Int128:
		return "Int128", x.Big().String(), true
	case cadence.Int256:
		return "Int256", x.Big().String(), true
	case cadence.UInt:
		return "UInt", x.Big().String(), true
	case cadence.UInt8:
		return "UInt8", strconv.FormatUint(uint64(x), 10), true
	case cadence.UInt16:
		return "UInt16", strconv.FormatUint(uint64(x), 10), true
	case cadence.UInt32:
		return "UInt32", strconv.FormatUint(uint64(x), 10), true
	case cadence.UInt64:
		return "UInt64", strconv.FormatUint(uint64(x), 10), true
	case cadence.UInt128:
		return "UInt128", x.Big().String(), true
	case cadence.UInt256:
		return "UInt256", x.Big().String(), true
	case cadence.Word8:
		return "Word8", strconv.FormatUint(uint64(x), 10), true
	case cadence.Word16:
		return "Word16", strconv.FormatUint(uint64(x), 10), true
	case cadence.Word32:
		return "Word32", strconv.FormatUint(uint64(x), 10), true
	case cadence.Word64:
		return "Word64", strconv.FormatUint(uint64(x), 10), true
	case cadence.Word128:
		return "Word128", x.Big().String(), true
	case cadence.Word256:
		return "Word256", x.Big().String(), true
	case cadence.Fix64:
		return "Fix64", strconv.FormatInt(int64(x), 10), true
	case cadence.UFix64:
		return "UFix64", strconv.FormatUint(uint64(x), 10), true
	}
	return "", "", false
}

type argsOOF struct{}

// a composite whose type ID has a string / identifier / … location: the location resolver of the
// test host (test_utils/runtime_utils.MultipleIdentifierLocationResolver) asserts an address
// location and panics otherwise — a limit of the host, not of the importer; such arguments are not run
type argsNonAddress struct{}

// argsSx prints a value; typed = exported value (arrays / dictionaries carry their static type).
func argsSx(v cadence.Value, typed bool) (s string) {
	defer func() {
		if r := recover(); r != nil {
			if _, ok := r.(argsOOF); ok {
				s = "!oof"
				return
			}
			if _, ok := r.(argsNonAddress); ok {
				s = "!oof-location"
				return
			}
			panic(r)
		}
	}()
	return argsSxRec(v, typed)
}

func argsTyField(t cadence.Type, typed bool) string {
	if !typed {
		return "_"
	}
	s := argsPolish(t)
	if s == "" || strings.Contains(s, "!") {
		panic(argsOOF{})
	}
	return s
}

func argsSxRec(v cadence.Value, typed bool) string {
	if k, n, ok := argsNum(v); ok {
		return "(num " + k + " " + n + ")"
	}
	switch v := v.(type) {
	case cadence.Void:
		return "void"
	case cadence.Optional:
		if v.Value == nil {
			return "nil"
		}
		return "(some " + argsSxRec(v.Value, typed) + ")"
	case cadence.Bool:
		if v {
			return "(bool 1)"
		}
		return "(bool 0)"
	case cadence.String:
		return "(str " + hx.Hex([]byte(string(v))) + ")"
	case cadence.Character:
		return "(char " + hx.Hex([]byte(string(v))) + ")"
	case cadence.Address:
		return "(addr " + hx.Hex(v[:]) + ")"
	case cadence.Path:
		for _, c := range v.Identifier {
			if !(c == '_' || c >= '0' && c <= '9' || c >= 'a' && c <= 'z' || c >= 'A' && c <= 'Z') {
				panic(argsOOF{})
			}
		}
		if v.Identifier == "" {
			panic(argsOOF{})
		}
		return "(path " + v.Domain.Identifier() + " " + v.Identifier + ")"
	case cadence.Array:
		parts := []string{"arr", argsTyField(v.ArrayType, typed)}
		for _, e := range v.Values {
			parts = append(parts, argsSxRec(e, typed))
		}
		return "(" + strings.Join(parts, " ") + ")"
	case cadence.Dictionary:
		var ps []string
		for _, p := range v.Pairs {
			ps = append(ps, "("+argsSxRec(p.Key, typed)+" "+argsSxRec(p.Value, typed)+")")
		}
		if typed {
			sort.Strings(ps) // map order
		}
		var dt cadence.Type
		if v.DictionaryType != nil {
			dt = v.DictionaryType
		}
		return "(" + strings.Join(append([]string{"dict", argsTyField(dt, typed)}, ps...), " ") + ")"
	case cadence.Struct, cadence.Resource, cadence.Event, cadence.Enum:
		comp := v.(cadence.Composite)
		ct := comp.Type().(cadence.CompositeType)
		id := ct.ID()
		if !strings.HasPrefix(id, "A.") {
			if strings.Contains(id, ".") {
				panic(argsNonAddress{})
			}
			panic(argsOOF{}) // built-in composites (PublicKey, …)
		}
		fields := argsCompositeTypeFields(ct)
		values := argsCompositeFieldValues(comp)
		var fs []string
		for i := 0; i < len(fields) && i < len(values); i++ {
			fs = append(fs, "("+fields[i].Identifier+" "+argsSxRec(values[i], typed)+")")
		}
		if typed {
			sort.Strings(fs)
		}
		return "(" + strings.Join(append([]string{"comp", argsKind(v), id}, fs...), " ") + ")"
	case cadence.TypeValue:
		s := argsPolish(v.StaticType)
		if s == "" {
			panic(argsOOF{})
		}
		if strings.Contains(s, "!") {
			s = "!"
		}
		return "(type " + s + ")"
	case cadence.Capability:
		s := argsPolish(v.BorrowType)
		if s == "" || strings.Contains(s, "!") {
			panic(argsOOF{})
		}
		return "(cap " + strconv.FormatUint(uint64(v.ID), 10) + " " + hx.Hex(v.Address[:]) + " " + s + ")"
	case cadence.Function:
		return "fn"
	case cadence.Contract:
		return "contract"
	}
	panic(argsOOF{})
}

// ---- generators ----

type argsGen struct {
	r   *hx.Rng
	mut int // remaining mutations to inject
}

var argsLoc = common.AddressLocation{Address: common.Address{0, 0, 0, 0, 0, 0, 0, 1}, Name: "C"}

var argsLeafTypes = []string{
	"p Int", "p Int", "p Int8", "p UInt8", "p UInt64", "p Word16", "p Int256", "p UFix64", "p Fix64", "p String", "p String", "p Bool",
	"p Address", "p Character", "p StoragePath", "p PublicPath", "p Path", "p MetaType", "p AnyStruct", "p AnyStruct", "p HashableStruct",
	"p Number", "p Integer", "p SignedInteger",
}
var argsKeyTypes = []string{"p String", "p Int", "p Address", "p Bool", "p UInt8", "p HashableStruct", "p StoragePath"}

func (g *argsGen) compType() string {
	n := []string{"S", "S", "T", "U", "Empty", "W", "E", "F", "Fn"}[g.r.Intn(9)]
	return argsComp(n)
}

func (g *argsGen) ty(depth int) string {
	if depth <= 0 || g.r.Chance(30) {
		if g.r.Chance(25) {
			return g.compType()
		}
		return argsLeafTypes[g.r.Intn(len(argsLeafTypes))]
	}
	switch g.r.Intn(12) {
	case 0, 1, 2:
		return "o " + g.ty(depth-1)
	case 3, 4, 5:
		return "va " + g.ty(depth-1)
	case 6:
		return "ca " + strconv.Itoa(g.r.Intn(4)) + " " + g.ty(depth-1)
	case 7, 8:
		k := argsKeyTypes[g.r.Intn(len(argsKeyTypes))]
		if g.r.Chance(15) {
			k = argsComp("E")
		}
		return "d " + k + " " + g.ty(depth-1)
	case 9:
		return "in 1 " + argsIfaceI
	case 10:
		if g.r.Chance(30) {
			return []string{"cap r u p Int", "capany"}[g.r.Intn(2)]
		}
	}
	return g.compType()
}

var argsIntKinds = []string{"Int", "Int8", "Int16", "Int32", "Int64", "Int128", "Int256", "UInt", "UInt8", "UInt16", "UInt32", "UInt64", "UInt128", "UInt256",
	"Word8", "Word16", "Word32", "Word64", "Word128", "Word256"}
var argsSignedKinds = argsIntKinds[:7]

func argsRange(kind string) (lo, hi *big.Int) {
	p := func(k uint) *big.Int { return new(big.Int).Lsh(big.NewInt(1), k) }
	s := func(k uint) (*big.Int, *big.Int) { return new(big.Int).Neg(p(k - 1)), new(big.Int).Sub(p(k-1), big.NewInt(1)) }
	u := func(k uint) (*big.Int, *big.Int) { return big.NewInt(0), new(big.Int).Sub(p(k), big.NewInt(1)) }
	switch kind {
	case "Int":
		return new(big.Int).Neg(p(100)), p(100)
	case "UInt":
		return big.NewInt(0), p(100)
	case "Int8":
		return s(8)
	case "Int16":
		return s(16)
	case "Int32":
		return s(32)
	case "Int64", "Fix64":
		return s(64)
	case "Int128":
		return s(128)
	case "Int256":
		return s(256)
	case "UInt8", "Word8":
		return u(8)
	case "UInt16", "Word16":
		return u(16)
	case "UInt32", "Word32":
		return u(32)
	case "UInt64", "Word64", "UFix64":
		return u(64)
	case "UInt128", "Word128":
		return u(128)
	case "UInt256", "Word256":
		return u(256)
	}
	panic("range " + kind)
}

func argsMust[T any](v T, err error) T {
	if err != nil {
		panic(err)
	}
	return v
}

func argsNumber(kind string, x *big.Int) cadence.Value {
	switch kind {
	case "Int":
		return cadence.NewIntFromBig(x)
	case "Int8":
		return cadence.NewInt8(int8(x.Int64()))
	case "Int16":
		return cadence.NewInt16(int16(x.Int64()))
	case "Int32":
		return cadence.NewInt32(int32(x.Int64()))
	case "Int64":
		return cadence.NewInt64(x.Int64())
	case "Int128":
		return argsMust(cadence.NewInt128FromBig(x))
	case "Int256":
		return argsMust(cadence.NewInt256FromBig(x))
	case "UInt":
		return argsMust(cadence.NewUIntFromBig(x))
	case "UInt8":
		return cadence.NewUInt8(uint8(x.Uint64()))
	case "UInt16":
		return cadence.NewUInt16(uint16(x.Uint64()))
	case "UInt32":
		return cadence.NewUInt32(uint32(x.Uint64()))
	case "UInt64":
		return cadence.NewUInt64(x.Uint64())
	case "UInt128":
		return argsMust(cadence.NewUInt128FromBig(x))
	case "UInt256":
		return argsMust(cadence.NewUInt256FromBig(x))
	case "Word8":
		return cadence.NewWord8(uint8(x.Uint64()))
	case "Word16":
		return cadence.NewWord16(uint16(x.Uint64()))
	case "Word32":
		return cadence.NewWord32(uint32(x.Uint64()))
	case "Word64":
		return cadence.NewWord64(x.Uint64())
	case "Word128":
		return argsMust(cadence.NewWord128FromBig(x))
	case "Word256":
		return argsMust(cadence.NewWord256FromBig(x))
	case "Fix64":
		return cadence.Fix64(x.Int64())
	case "UFix64":
		return cadence.UFix64(x.Uint64())
	}
	panic("number " + kind)
}

func (g *argsGen) number(kind string) cadence.Value {
	lo, hi := argsRange(kind)
	var x *big.Int
	switch g.r.Intn(5) {
	case 0:
		x = lo
	case 1:
		x = hi
	case 2:
		x = big.NewInt(int64(g.r.Intn(5)))
		if x.Cmp(hi) > 0 {
			x = hi
		}
	default:
		span := new(big.Int).Sub(hi, lo)
		x = new(big.Int).SetBytes(g.r.Bytes(span.BitLen()/8 + 1))
		x.Mod(x, new(big.Int).Add(span, big.NewInt(1)))
		x.Add(x, lo)
	}
	return argsNumber(kind, x)
}

var argsStrings = []string{"", "a", "hello", "x y", "日本", "\"q\"", "A.0000000000000001.C.S"}

func (g *argsGen) address() cadence.Address {
	var a cadence.Address
	if g.r.Bool() {
		a[7] = byte(g.r.Intn(3))
	} else {
		copy(a[:], g.r.Bytes(8))
	}
	return a
}

func (g *argsGen) path(domains ...common.PathDomain) cadence.Path {
	return cadence.Path{Domain: domains[g.r.Intn(len(domains))], Identifier: []string{"foo", "bar", "x_1"}[g.r.Intn(3)]}
}

// composite value with an explicit field list (what the JSON form carries)
func argsComposite(kind string, addr byte, contract, name string, names []string, values []cadence.Value) cadence.Value {
	loc := common.AddressLocation{Address: common.Address{0, 0, 0, 0, 0, 0, 0, addr}, Name: contract}
	qid := contract + "." + name
	fields := make([]cadence.Field, len(names))
	for i, n := range names {
		fields[i] = cadence.Field{Identifier: n, Type: cadence.AnyStructType}
	}
	switch kind {
	case "struct":
		return cadence.NewStruct(values).WithType(cadence.NewStructType(loc, qid, fields, nil))
	case "resource":
		return cadence.NewResource(values).WithType(cadence.NewResourceType(loc, qid, fields, nil))
	case "event":
		return cadence.NewEvent(values).WithType(cadence.NewEventType(loc, qid, fields, nil))
	case "enum":
		return cadence.NewEnum(values).WithType(cadence.NewEnumType(loc, qid, nil, fields, nil))
	case "contract":
		return cadence.NewContract(values).WithType(cadence.NewContractType(loc, qid, fields, nil))
	case "attachment":
		return cadence.NewAttachment(values).WithType(cadence.NewAttachmentType(loc, qid, cadence.AnyStructType, fields, nil))
	}
	panic("composite kind " + kind)
}

// external type for type values / borrow types
func (g *argsGen) extType(depth int) cadence.Type {
	if depth > 0 {
		switch g.r.Intn(8) {
		case 0:
			return cadence.NewOptionalType(g.extType(depth - 1))
		case 1:
			return cadence.NewVariableSizedArrayType(g.extType(depth - 1))
		case 2:
			return cadence.NewDictionaryType(cadence.StringType, g.extType(depth-1))
		case 3:
			return cadence.NewReferenceType(cadence.UnauthorizedAccess, g.extType(depth-1))
		}
	}
	switch g.r.Intn(8) {
	case 0:
		d := argsDecls[g.r.Intn(len(argsDecls))]
		switch d.kind {
		case "struct":
			return cadence.NewStructType(argsLoc, "C."+d.name, nil, nil)
		case "resource":
			return cadence.NewResourceType(argsLoc, "C."+d.name, nil, nil)
		case "enum":
			return cadence.NewEnumType(argsLoc, "C."+d.name, nil, nil, nil)
		case "event":
			return cadence.NewEventType(argsLoc, "C."+d.name, nil, nil)
		}
	case 1:
		if g.r.Chance(50) {
			return cadence.NewStructType(argsLoc, "C.Nope", nil, nil) // not declared
		}
	}
	return []cadence.Type{cadence.IntType, cadence.StringType, cadence.AnyStructType, cadence.BoolType, cadence.UInt8Type, cadence.AddressType, cadence.MetaType, cadence.NeverType}[g.r.Intn(8)]
}

func (g *argsGen) capability(borrow cadence.Type) cadence.Value {
	return cadence.NewCapability(cadence.UInt64(g.r.Intn(5)), g.address(), borrow)
}

// a value no parameter type admits
func (g *argsGen) nonImportable() cadence.Value {
	switch g.r.Intn(6) {
	case 0:
		return argsComposite("resource", 1, "C", "R", []string{"id"}, []cadence.Value{cadence.NewInt(g.r.Intn(9))})
	case 1:
		return cadence.NewFunction(cadence.NewFunctionType(cadence.FunctionPurityImpure, nil, nil, cadence.VoidType))
	case 2:
		return g.capability(cadence.NewReferenceType(cadence.UnauthorizedAccess, cadence.IntType))
	case 3:
		return argsComposite("contract", 1, "C", "C", nil, nil)
	case 4:
		return argsComposite("event", 1, "C", "Ev", []string{"x"}, []cadence.Value{cadence.NewInt(1)})
	}
	return g.capability(cadence.IntType) // not a reference: the importer refuses it
}

// a value of some type other than t (mostly)
func (g *argsGen) other(depth int) cadence.Value {
	if g.r.Chance(25) {
		return g.nonImportable()
	}
	d := depth
	if d > 1 {
		d = 1
	}
	return g.val(argsParseTy(g.ty(d)), depth)
}

func (g *argsGen) concrete(name string, depth int) string {
	switch name {
	case "AnyStruct":
		if depth > 0 && g.r.Chance(50) {
			return g.ty(depth - 1)
		}
		return g.concrete("HashableStruct", depth)
	case "HashableStruct":
		switch g.r.Intn(6) {
		case 0:
			return "p String"
		case 1:
			return "p Bool"
		case 2:
			return "p Address"
		case 3:
			return "p StoragePath"
		case 4:
			return argsComp("E")
		}
		return "p " + argsIntKinds[g.r.Intn(len(argsIntKinds))]
	case "Number":
		if g.r.Chance(30) {
			return []string{"p Fix64", "p UFix64"}[g.r.Intn(2)]
		}
		return "p " + argsIntKinds[g.r.Intn(len(argsIntKinds))]
	case "Integer":
		return "p " + argsIntKinds[g.r.Intn(len(argsIntKinds))]
	case "SignedInteger":
		return "p " + argsSignedKinds[g.r.Intn(len(argsSignedKinds))]
	case "Path":
		return []string{"p StoragePath", "p PublicPath", "p PrivatePath"}[g.r.Intn(3)]
	}
	return ""
}

// val generates a value of type t, injecting a mutation at this node while the budget lasts.
func (g *argsGen) val(t *argsTy, depth int) cadence.Value {
	if g.mut > 0 && g.r.Chance(35) {
		g.mut--
		switch g.r.Intn(4) {
		case 0:
			return g.other(depth - 1)
		case 1:
			return cadence.NewOptional(g.val(t, depth)) // one optional level too many
		case 2:
			if t.k == "o" { // one optional level too few
				return g.val(t.a, depth)
			}
			return g.other(depth - 1)
		default:
			if t.k == "comp" {
				return g.badComposite(t, depth)
			}
			return g.other(depth - 1)
		}
	}
	switch t.k {
	case "p":
		switch t.name {
		case "Void":
			return cadence.NewVoid()
		case "Bool":
			return cadence.NewBool(g.r.Bool())
		case "String":
			return cadence.String(argsStrings[g.r.Intn(len(argsStrings))])
		case "Character":
			return cadence.Character([]string{"a", "Z", "é", "日"}[g.r.Intn(4)])
		case "Address":
			return g.address()
		case "StoragePath":
			return g.path(common.PathDomainStorage)
		case "PublicPath":
			return g.path(common.PathDomainPublic)
		case "PrivatePath":
			return g.path(common.PathDomainPrivate)
		case "MetaType":
			return cadence.NewTypeValue(g.extType(2))
		case "Never":
			return cadence.NewOptional(nil)
		}
		if c := g.concrete(t.name, depth); c != "" {
			return g.val(argsParseTy(c), depth-1)
		}
		return g.number(t.name)
	case "o":
		if g.r.Chance(35) {
			return cadence.NewOptional(nil)
		}
		return cadence.NewOptional(g.val(t.a, depth))
	case "va":
		n := g.r.Intn(4)
		vs := make([]cadence.Value, n)
		for i := range vs {
			vs[i] = g.val(t.a, depth-1)
		}
		return cadence.NewArray(vs)
	case "ca":
		n := t.n
		if g.mut > 0 && g.r.Chance(30) {
			g.mut--
			n = g.r.Intn(5)
		}
		vs := make([]cadence.Value, n)
		for i := range vs {
			vs[i] = g.val(t.a, depth-1)
		}
		return cadence.NewArray(vs)
	case "d":
		n := g.r.Intn(4)
		var pairs []cadence.KeyValuePair
		for i := 0; i < n; i++ {
			pairs = append(pairs, cadence.KeyValuePair{Key: g.val(t.a, 0), Value: g.val(t.b, depth-1)})
		}
		if n > 0 && g.r.Chance(15) { // a repeated key
			pairs = append(pairs, cadence.KeyValuePair{Key: pairs[0].Key, Value: g.val(t.b, depth-1)})
		}
		return cadence.NewDictionary(pairs)
	case "comp":
		d := argsDeclByID(t.name)
		var names []string
		var vals []cadence.Value
		for _, f := range d.fields {
			names = append(names, f[0])
			vals = append(vals, g.val(argsParseTy(f[1]), depth-1))
		}
		if len(names) > 1 && g.r.Chance(20) { // field order is free
			i, j := g.r.Intn(len(names)), g.r.Intn(len(names))
			names[i], names[j] = names[j], names[i]
			vals[i], vals[j] = vals[j], vals[i]
		}
		return argsComposite(d.kind, 1, "C", d.name, names, vals)
	case "in":
		return g.val(argsParseTy(argsComp("S")), depth)
	case "cap", "capany":
		return g.capability(cadence.NewReferenceType(cadence.UnauthorizedAccess, cadence.IntType))
	case "f":
		return cadence.NewFunction(cadence.NewFunctionType(cadence.FunctionPurityImpure, nil, nil, cadence.VoidType))
	case "r":
		return g.val(t.a, depth)
	}
	panic("val: " + t.k)
}

// a composite that is wrong in one respect
func (g *argsGen) badComposite(t *argsTy, depth int) cadence.Value {
	d := argsDeclByID(t.name)
	var names []string
	var vals []cadence.Value
	for _, f := range d.fields {
		names = append(names, f[0])
		vals = append(vals, g.val(argsParseTy(f[1]), depth-1))
	}
	kind, addr, contract, name := d.kind, byte(1), "C", d.name
	switch g.r.Intn(9) {
	case 0: // missing field
		if len(names) > 0 {
			i := g.r.Intn(len(names))
			names = append(names[:i:i], names[i+1:]...)
			vals = append(vals[:i:i], vals[i+1:]...)
		} else {
			names, vals = append(names, "zz"), append(vals, cadence.NewInt(1))
		}
	case 1: // extra field
		names, vals = append(names, "zz"), append(vals, g.other(0))
	case 2: // wrong field type
		if len(names) > 0 {
			vals[g.r.Intn(len(names))] = g.other(depth - 1)
		} else {
			kind = "resource"
		}
	case 3: // renamed field
		if len(names) > 0 {
			names[g.r.Intn(len(names))] = "zz"
		} else {
			kind = "event"
		}
	case 4: // repeated field (the later one wins)
		if len(names) > 0 {
			i := g.r.Intn(len(names))
			names = append(names, names[i])
			if g.r.Bool() {
				vals = append(vals, vals[i])
			} else {
				vals = append(vals, g.other(0))
			}
		} else {
			name = "Nope"
		}
	case 5: // wrong composite kind
		kind = []string{"struct", "resource", "event", "enum"}[g.r.Intn(4)]
	case 6: // wrong type ID: another declared type
		name = argsDecls[g.r.Intn(len(argsDecls))].name
	case 7: // wrong type ID: not declared
		switch g.r.Intn(3) {
		case 0:
			name = "Nope"
		case 1:
			addr = 2
		default:
			contract = "D"
		}
	case 8: // enum with a raw value of another integer type
		if d.kind == "enum" {
			vals[0] = g.number(argsIntKinds[g.r.Intn(len(argsIntKinds))])
		} else {
			kind = "enum"
		}
	}
	return argsComposite(kind, addr, contract, name, names, vals)
}


// ---- directed families ----

// a composite of the declared type `d` with exactly the declared fields, correctly typed, but with
// the given JSON kind tag
func (g *argsGen) taggedComposite(d *argsDecl, kind string) cadence.Value {
	g.mut = 0
	var names []string
	var vals []cadence.Value
	for _, f := range d.fields {
		names = append(names, f[0])
		vals = append(vals, g.val(argsParseTy(f[1]), 1))
	}
	return argsComposite(kind, 1, "C", d.name, names, vals)
}

type argsShape struct {
	ty   string
	wrap func(cadence.Value) cadence.Value
}

func argsStrKey(v cadence.Value) cadence.Value {
	return cadence.NewDictionary([]cadence.KeyValuePair{{Key: cadence.String("k"), Value: v}})
}

// kindFamily: every JSON composite kind tag x every declared composite type; type ID and fields
// are right, only the kind tag varies (the matching tag is the control).  Top level and nested in
// optional / array / dictionary / AnyStruct / struct-field positions.
func (g *argsGen) kindFamily(c *hx.Ctx) {
	id := func(v cadence.Value) cadence.Value { return v }
	n := 0
	for i := range argsDecls {
		d := &argsDecls[i]
		self := argsComp(d.name)
		shapes := []argsShape{
			{"p AnyStruct", id},
			{"va p AnyStruct", func(v cadence.Value) cadence.Value { return cadence.NewArray([]cadence.Value{cadence.NewInt(1), v}) }},
			{"d p String p AnyStruct", argsStrKey},
			{argsComp("U"), func(v cadence.Value) cadence.Value {
				return argsComposite("struct", 1, "C", "U", []string{"any"}, []cadence.Value{v})
			}},
		}
		if (d.kind == "struct" || d.kind == "enum") && d.name != "Fn" { // Fn is not an importable parameter type
			shapes = append(shapes,
				argsShape{self, id},
				argsShape{"o " + self, func(v cadence.Value) cadence.Value { return cadence.NewOptional(v) }},
				argsShape{"va " + self, func(v cadence.Value) cadence.Value { return cadence.NewArray([]cadence.Value{v}) }},
				argsShape{"d p String " + self, argsStrKey},
			)
		}
		for _, kind := range []string{"struct", "resource", "event", "enum", "contract", "attachment"} {
			for si, sh := range shapes {
				if (kind == "contract" || kind == "attachment") && si != 0 && si != 4 { // top level only
					continue
				}
				n++
				g.emitArgEng(c, sh.ty, sh.wrap(g.taggedComposite(d, kind)), n%2)
			}
		}
	}
}

// arrayFamily: arrays of two or three elements in which exactly one (or the first two) is not
// importable — first / middle / last — and the others are; for parameter types that admit the
// array statically ([AnyStruct], AnyStruct, constant-sized, optional elements, nested arrays,
// struct fields, dictionary values).
func (g *argsGen) arrayFamily(c *hx.Ctx) {
	ref := cadence.NewReferenceType(cadence.UnauthorizedAccess, cadence.IntType)
	bads := []func() cadence.Value{
		func() cadence.Value { return cadence.NewCapability(1, cadence.Address{0, 0, 0, 0, 0, 0, 0, 1}, ref) },
		func() cadence.Value {
			return argsComposite("struct", 1, "C", "Fn", []string{"f"}, []cadence.Value{cadence.NewOptional(nil)})
		},
		func() cadence.Value {
			return argsComposite("event", 1, "C", "Ev", []string{"x"}, []cadence.Value{cadence.NewInt(1)})
		},
		func() cadence.Value {
			return argsComposite("resource", 1, "C", "R", []string{"uuid", "id"}, []cadence.Value{cadence.NewUInt64(1), cadence.NewInt(2)})
		},
		func() cadence.Value {
			return cadence.NewFunction(cadence.NewFunctionType(cadence.FunctionPurityImpure, nil, nil, cadence.VoidType))
		},
		func() cadence.Value { return argsComposite("contract", 1, "C", "C", nil, nil) },
	}
	good := func(i int) cadence.Value {
		switch i % 3 {
		case 0:
			return cadence.NewInt(1)
		case 1:
			return cadence.String("a")
		}
		return argsComposite("struct", 1, "C", "S", []string{"x", "y"}, []cadence.Value{cadence.NewInt(3), cadence.String("b")})
	}
	layouts := []string{"bg", "gb", "gbg", "bgg", "bbg", "ggb"}
	id := func(v cadence.Value) cadence.Value { return v }
	arr1 := func(v cadence.Value) cadence.Value { return cadence.NewArray([]cadence.Value{v}) }
	arr2 := func(v cadence.Value) cadence.Value {
		return cadence.NewArray([]cadence.Value{v, cadence.NewArray([]cadence.Value{cadence.NewInt(1)})})
	}
	n := 0
	for bi, bad := range bads {
		for li, lay := range layouts {
			vs := make([]cadence.Value, len(lay))
			for i, ch := range lay {
				if ch == 'b' {
					vs[i] = bad()
				} else {
					vs[i] = good(i + li)
				}
			}
			mk := func() cadence.Value { return cadence.NewArray(append([]cadence.Value{}, vs...)) }
			shapes := []argsShape{
				{"va p AnyStruct", id},
				{"p AnyStruct", id},
			}
			if bi < 3 && (lay == "bg" || lay == "gbg" || lay == "bbg") {
				shapes = append(shapes,
					argsShape{"ca " + strconv.Itoa(len(lay)) + " p AnyStruct", id},
					argsShape{"va o p AnyStruct", id},
					argsShape{"va va p AnyStruct", arr1},
					argsShape{"va va p AnyStruct", arr2},
					argsShape{"o va p AnyStruct", func(v cadence.Value) cadence.Value { return cadence.NewOptional(v) }},
					argsShape{argsComp("U"), func(v cadence.Value) cadence.Value {
						return argsComposite("struct", 1, "C", "U", []string{"any"}, []cadence.Value{v})
					}},
					argsShape{"d p String p AnyStruct", argsStrKey},
					argsShape{"d p String va p AnyStruct", argsStrKey},
				)
			}
			for _, sh := range shapes {
				n++
				g.emitArgEng(c, sh.ty, sh.wrap(mk()), n%2)
			}
		}
	}
}

func argsEncode(v cadence.Value) (b []byte, ok bool) {
	defer func() {
		if r := recover(); r != nil {
			ok = false
		}
	}()
	b, err := json.Encode(v)
	return b, err == nil
}

func argsDecodeSx(b []byte) string {
	v, err := json.Decode(nil, b)
	if err != nil {
		return "!decode"
	}
	return argsSx(v, false)
}

func (g *argsGen) emitArg(c *hx.Ctx, ty string, v cadence.Value) {
	b, ok := argsEncode(v)
	if !ok {
		return
	}
	b = []byte(strings.TrimSpace(string(b)))
	if g.r.Chance(3) { // malformed JSON
		switch g.r.Intn(3) {
		case 0:
			b = b[:g.r.Intn(len(b))]
		case 1:
			b[g.r.Intn(len(b))] ^= byte(1 << g.r.Intn(7))
		default:
			b = []byte(strings.Replace(string(b), `"type"`, `"typ"`, 1))
		}
	}
	if strings.ContainsAny(string(b), "\t\n\r") || !utf8.Valid(b) {
		return
	}
	eng := []string{"interp", "vm"}[g.r.Intn(2)]
	c.Emit("args", "arg", eng, ty, string(b), argsDecodeSx(b))
}

// emitArgEng emits the argument as it is (no JSON damage) for the given engine
func (g *argsGen) emitArgEng(c *hx.Ctx, ty string, v cadence.Value, eng int) {
	b, ok := argsEncode(v)
	if !ok {
		return
	}
	b = []byte(strings.TrimSpace(string(b)))
	if strings.ContainsAny(string(b), "\t\n\r") || !utf8.Valid(b) {
		return
	}
	c.Emit("args", "arg", []string{"interp", "vm"}[eng%2], ty, string(b), argsDecodeSx(b))
}

func genArgs(c *hx.Ctx) {
	g := &argsGen{r: c.Rng}
	for _, d := range argsDecls {
		c.Emit("args", "decl", argsPfx+d.name)
	}
	for np := 0; np <= 2; np++ {
		for na := 0; na <= 3; na++ {
			c.Emit("args", "count", []string{"interp", "vm"}[(np+na)%2], strconv.Itoa(np), strconv.Itoa(na))
		}
	}
	// every declared type, every leaf type: one correct value each
	var basics []string
	basics = append(basics, argsLeafTypes...)
	for _, d := range argsDecls {
		basics = append(basics, argsComp(d.name))
	}
	basics = append(basics, "in 1 "+argsIfaceI, "cap r u p Int", "capany")
	for _, ty := range basics {
		g.mut = 0
		g.emitArg(c, ty, g.val(argsParseTy(ty), 2))
	}
	g.kindFamily(c)
	g.arrayFamily(c)
	for c.Emitted() < c.N {
		depth := 1 + g.r.Intn(3)
		ty := g.ty(depth)
		t := argsParseTy(ty)
		switch g.r.Intn(10) {
		case 0, 1, 2, 3: // correctly typed
			g.mut = 0
			g.emitArg(c, ty, g.val(t, depth))
		case 4: // wrongly typed at the top
			g.mut = 0
			g.emitArg(c, ty, g.other(depth))
		case 5: // not importable at the top
			g.mut = 0
			g.emitArg(c, ty, g.nonImportable())
		default: // partially wrong: one or two mutations somewhere inside
			g.mut = 1 + g.r.Intn(2)
			g.emitArg(c, ty, g.val(t, depth))
		}
	}
}

// ---- execution ----

var (
	argsEnvMu   sync.Mutex
	argsEnvPool []*cdc.Env
)

func argsGetEnv() *cdc.Env {
	argsEnvMu.Lock()
	if n := len(argsEnvPool); n > 0 {
		e := argsEnvPool[n-1]
		argsEnvPool = argsEnvPool[:n-1]
		argsEnvMu.Unlock()
		return e
	}
	argsEnvMu.Unlock()
	env := cdc.NewEnv()
	env.Signers = []common.Address{common.MustBytesToAddress([]byte{1})}
	dep := env.Tx(fmt.Sprintf(`transaction { prepare(signer: auth(Contracts) &Account) { signer.contracts.add(name: "C", code: "%x".decodeHex()) } }`, argsContractSource()), nil, false)
	if dep.Err != nil {
		panic("args: contract deployment failed: " + dep.Err.Error())
	}
	env.Signers = nil
	return env
}

func argsPutEnv(e *cdc.Env) {
	argsEnvMu.Lock()
	argsEnvPool = append(argsEnvPool, e)
	argsEnvMu.Unlock()
}

func argsReject(out *cdc.Outcome, decodeFails bool) string {
	var pce *runtime.ParsingCheckingError
	var notImp *runtime.ScriptParameterTypeNotImportableError
	if errors.As(out.Err, &pce) || errors.As(out.Err, &notImp) {
		return "static-reject"
	}
	stage := "other"
	var cnt runtime.InvalidEntryPointParameterCountError
	var arg *runtime.InvalidEntryPointArgumentError
	var ni *runtime.ArgumentNotImportableError
	switch {
	case errors.As(out.Err, &cnt):
		stage = "count"
	case errors.As(out.Err, &ni):
		stage = "notimportable"
	case errors.As(out.Err, &arg):
		var ivt *runtime.InvalidValueTypeError
		var mal *runtime.MalformedValueError
		switch {
		case errors.As(arg.Err, &ivt):
			stage = "type"
		case errors.As(arg.Err, &mal):
			stage = "malformed"
		case decodeFails:
			stage = "decode"
		default:
			stage = "import"
		}
	}
	return "reject " + out.Class + " " + stage
}

func execArgs(op []string) string {
	if len(op) < 3 {
		return "bad-op"
	}
	switch op[1] {
	case "decl":
		// the declared fields of the type, as the running checker sees them (exported type)
		d := argsDeclByID(op[2])
		if d == nil {
			return "bad-op"
		}
		env := argsGetEnv()
		defer argsPutEnv(env)
		ref := "Type<" + argsShort(op[2]) + ">()"
		if d.kind == "resource" {
			ref = "Type<@" + argsShort(op[2]) + ">()"
		}
		out := env.Script("import C from 0x1\naccess(all) fun main(): Type { return "+ref+" }", nil, false)
		if out.Err != nil {
			return "err " + out.Class
		}
		tv, ok := out.Value.(cadence.TypeValue)
		if !ok {
			return "err not-a-type"
		}
		ct, ok := tv.StaticType.(cadence.CompositeType)
		if !ok {
			return "err not-composite"
		}
		kind := map[string]string{"*cadence.StructType": "struct", "*cadence.ResourceType": "resource", "*cadence.EnumType": "enum", "*cadence.EventType": "event"}[fmt.Sprintf("%T", ct)]
		var fs []string
		for _, f := range argsCompositeTypeFields(ct) {
			p := argsPolish(f.Type)
			if fn, ok := f.Type.(*cadence.OptionalType); ok && p == "" {
				if _, isFn := fn.Type.(*cadence.FunctionType); isFn {
					p = "o f impure 0 p Void"
				}
			}
			fs = append(fs, f.Identifier+"="+p)
		}
		return "decl " + kind + " " + strings.Join(fs, ";")
	case "count":
		if len(op) != 5 {
			return "bad-op"
		}
		np, _ := strconv.Atoi(op[3])
		na, _ := strconv.Atoi(op[4])
		var ps []string
		for i := 0; i < np; i++ {
			ps = append(ps, fmt.Sprintf("a%d: Int", i))
		}
		var as [][]byte
		for i := 0; i < na; i++ {
			as = append(as, cdc.JSONArg(cadence.NewInt(i)))
		}
		env := argsGetEnv()
		defer argsPutEnv(env)
		out := env.Script("access(all) fun main("+strings.Join(ps, ", ")+"): Int { return 1 }", as, op[2] == "vm")
		if out.Err != nil {
			return argsReject(out, false)
		}
		return "accept"
	case "arg":
		if len(op) != 6 {
			return "bad-op"
		}
		sx := argsDecodeSx([]byte(op[4]))
		if sx != op[5] {
			return "sx-mismatch"
		}
		if sx == "!oof-location" {
			return "skip-non-address-location"
		}
		t := argsParseTy(op[3])
		ts := t.cadence()
		src := "import C from 0x1\naccess(all) fun main(a: " + ts + "): [AnyStruct] { let copy = a; return [a.getType(), a.getType().isSubtype(of: Type<" + ts + ">()), a] }"
		env := argsGetEnv()
		defer argsPutEnv(env)
		out := env.Script(src, [][]byte{[]byte(op[4])}, op[2] == "vm")
		if out.Err != nil {
			return argsReject(out, sx == "!decode")
		}
		arr, ok := out.Value.(cadence.Array)
		if !ok || len(arr.Values) != 3 {
			return "accept-bad-result"
		}
		tv, ok := arr.Values[0].(cadence.TypeValue)
		if !ok {
			return "accept-bad-result"
		}
		rt := argsPolish(tv.StaticType)
		if rt == "" || strings.Contains(rt, "!") {
			rt = "?"
		}
		sub := "0"
		if b, ok := arr.Values[1].(cadence.Bool); ok && bool(b) {
			sub = "1"
		}
		return "accept " + strings.ReplaceAll(rt, " ", "_") + " " + sub + " " + argsSx(arr.Values[2], true)
	}
	return "bad-op"
}
