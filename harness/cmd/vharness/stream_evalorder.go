package main

// Stream `evalorder` (property C52); generator, Exec and the line format are in stream_lang.go.

import "verif/harness/internal/hx"

func init() {
	hx.Register(&hx.Stream{Name: "evalorder", Gen: func(c *hx.Ctx) { genLang(c, "evalorder", "order") }, Exec: execLang, Parallel: true})
}
