package main

// Stream `attach` (property C49).
//
//   attach  prog  <label>  forms=<..>  <sx>  <source>
//      => `<obs interp> @@ <obs vm> @@ <obs vmopt>` | `reject:<first checker error>`

import (
	"strconv"
	"strings"

	"verif/harness/internal/hx"
	"verif/harness/internal/l3run"
	"verif/harness/internal/l3sx"
	"verif/harness/internal/lang"
)

func init() {
	hx.Register(&hx.Stream{Name: "attach", Gen: genAttach, Exec: execAttach, Parallel: true})
}

func genAttach(c *hx.Ctx) {
	for i := 0; i < c.N; i++ {
		p := l3sx.GenAttach(c.Rng.Fork())
		c.Emit("attach", "prog", "g"+strconv.Itoa(i), "forms="+strings.Join(p.FormList(), ","), p.SX(),
			strings.ReplaceAll(p.Src(), "\n", "\\n"))
	}
}

func execAttach(op []string) string {
	src := strings.ReplaceAll(op[len(op)-1], "\\n", "\n")
	if _, err := lang.Check(src); err != nil {
		return "reject:" + l3run.FirstKind(err)
	}
	return l3run.RunAll(src)
}
