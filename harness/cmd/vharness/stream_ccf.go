package main

// Stream `ccf` (property C42): CCF encoding and decoding of generated values.
//
//	ccf enc <default|det> <value sx> => ok:<hex> | err | panic
//	ccf rt <value sx>                => ok:<same|diff>:<hex>:<sx of ccf.Decode> | encerr | decerr:<hex> | panic
//	ccf perm <value sx> <value sx'>  => same:<hex> | diff:<hex>:<hex'> | err      (deterministic mode, sx' a permutation of sx)
//	ccf strict <default|det> <sx>    => ok:<sx of strict decode of the encoding in that mode> | err | encerr
//	ccf mutb <hex>                   => ok | err | panic | hang                    (byte / CBOR-head level mutations)

import (
	"bytes"
	"fmt"
	"os"
	"time"

	"github.com/onflow/cadence"
	"github.com/onflow/cadence/encoding/ccf"

	"verif/harness/internal/cval"
	"verif/harness/internal/hx"
)

func init() {
	hx.Register(&hx.Stream{Name: "ccf", Gen: genCCF, Exec: execCCF, Parallel: true, Timeout: 20 * time.Second})
}

var ccfDetEnc = func() ccf.EncMode {
	m, err := ccf.EncOptions{
		SortCompositeFields:   ccf.SortBytewiseLexical,
		SortIntersectionTypes: ccf.SortBytewiseLexical,
		SortEntitlementTypes:  ccf.SortBytewiseLexical,
	}.EncMode()
	if err != nil {
		panic(err)
	}
	return m
}()

var ccfStrictDec = func() ccf.DecMode {
	m, err := ccf.DecOptions{
		EnforceSortCompositeFields:   ccf.EnforceSortBytewiseLexical,
		EnforceSortIntersectionTypes: ccf.EnforceSortBytewiseLexical,
		EnforceSortEntitlementTypes:  ccf.EnforceSortBytewiseLexical,
	}.DecMode()
	if err != nil {
		panic(err)
	}
	return m
}()

func ccfEncode(mode string, v cadence.Value) ([]byte, error) {
	if mode == "det" {
		return ccfDetEnc.Encode(v)
	}
	return ccf.Encode(v)
}

func ccfProfile() cval.Profile {
	p := cval.Full
	p.Functions = false // function values / function types in type positions: see genCCF
	return p
}

func mutateCBOR(r *hx.Rng, b []byte) []byte {
	b = append([]byte{}, b...)
	if len(b) == 0 {
		return b
	}
	switch r.Intn(4) {
	case 0: // change a tag number
		var pos []int
		for i := 0; i+1 < len(b); i++ {
			if b[i] == 0xd8 {
				pos = append(pos, i+1)
			}
		}
		if len(pos) > 0 {
			b[pos[r.Intn(len(pos))]] = byte(128 + r.Intn(100))
			return b
		}
	case 1: // change a small array / string head
		var pos []int
		for i := range b {
			if b[i] >= 0x80 && b[i] <= 0x97 || b[i] >= 0x40 && b[i] <= 0x57 || b[i] >= 0x60 && b[i] <= 0x77 {
				pos = append(pos, i)
			}
		}
		if len(pos) > 0 {
			i := pos[r.Intn(len(pos))]
			b[i] = b[i]&0xe0 | byte(r.Intn(24))
			return b
		}
	case 2: // replace a byte by a CBOR head of another major type / nil
		b[r.Intn(len(b))] = []byte{0xf6, 0xf5, 0xf4, 0x00, 0x20, 0x40, 0x60, 0x80, 0xa0, 0xc2, 0xc3, 0xd8, 0x18, 0x1b, 0x3b, 0x5f, 0x9f, 0xff, 0xf7, 0xfb}[r.Intn(20)]
		return b
	}
	return mutateBytes(r, b)
}

func genCCF(c *hx.Ctx) {
	r := decorrelate(c)
	g := cval.NewGen(r, ccfProfile())
	gf := cval.NewGen(r, cval.Full)
	for i := 0; i < c.N; i++ {
		gen := g
		if r.Chance(10) {
			gen = gf // with function values / types
		}
		v := gen.Top()
		sx := cval.ValueSx(v)
		if len(sx) > 40000 {
			continue
		}
		c.Emit("ccf", "rt", sx)
		c.Emit("ccf", "enc", "det", sx)
		if psx, ok := cval.Permute(sx, func(n int, swap func(i, j int)) {
			for k := n - 1; k > 0; k-- {
				swap(k, r.Intn(k+1))
			}
		}); ok {
			c.Emit("ccf", "perm", sx, psx)
			c.Emit("ccf", "strict", "default", psx)
			c.Emit("ccf", "strict", "det", psx)
		} else if r.Chance(40) {
			c.Emit("ccf", "strict", "default", sx)
			c.Emit("ccf", "strict", "det", sx)
		}
		if r.Chance(50) {
			if enc, err, p := encodeGuardCCF(func() ([]byte, error) { return ccf.Encode(v) }); err == nil && !p {
				for k, n := 0, 1+r.Intn(3); k < n; k++ {
					c.Emit("ccf", "mutb", hx.Hex(mutateCBOR(r, enc)))
				}
			}
		}
	}
}

func encodeGuardCCF(f func() ([]byte, error)) (b []byte, err error, panicked bool) {
	defer func() {
		if r := recover(); r != nil {
			panicked = true
		}
	}()
	b, err = f()
	return
}

func execCCF(op []string) (res string) {
	defer func() {
		if r := recover(); r != nil {
			res = "panic"
		}
	}()
	switch op[1] {
	case "enc":
		v, err := cval.ParseValue(op[3])
		if err != nil {
			return "bad-op"
		}
		b, err := ccfEncode(op[2], v)
		if err != nil {
			return "err"
		}
		return "ok:" + hx.Hex(b)
	case "rt":
		v, err := cval.ParseValue(op[2])
		if err != nil {
			return "bad-op"
		}
		enc, err := ccf.Encode(v)
		if err != nil {
			return "encerr"
		}
		dec, err := ccf.Decode(nil, enc)
		if err != nil {
			if os.Getenv("VERIF_DEBUG") != "" {
				fmt.Fprintln(os.Stderr, "ccf decode error:", err)
			}
			return "decerr:" + hx.Hex(enc)
		}
		same := "diff"
		if re, err := ccf.Encode(dec); err == nil && bytes.Equal(re, enc) {
			same = "same"
		}
		return "ok:" + same + ":" + hx.Hex(enc) + ":" + cval.ValueSx(dec)
	case "perm":
		v1, err1 := cval.ParseValue(op[2])
		v2, err2 := cval.ParseValue(op[3])
		if err1 != nil || err2 != nil {
			return "bad-op"
		}
		b1, err1 := ccfDetEnc.Encode(v1)
		b2, err2 := ccfDetEnc.Encode(v2)
		if err1 != nil || err2 != nil {
			return "err"
		}
		if bytes.Equal(b1, b2) {
			return "same:" + hx.Hex(b1)
		}
		return "diff:" + hx.Hex(b1) + ":" + hx.Hex(b2)
	case "strict":
		v, err := cval.ParseValue(op[3])
		if err != nil {
			return "bad-op"
		}
		b, err := ccfEncode(op[2], v)
		if err != nil {
			return "encerr"
		}
		dec, err := ccfStrictDec.Decode(nil, b)
		if err != nil {
			return "err"
		}
		return "ok:" + cval.ValueSx(dec)
	case "mutb":
		_, err := ccf.Decode(nil, hx.UnHex(op[2]))
		if err != nil {
			return "err"
		}
		return "ok"
	}
	return "bad-op"
}
