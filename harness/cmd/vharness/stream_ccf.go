package main

// Stream `ccf` (property C42): CCF encoding and decoding of generated values.
//
//	ccf enc <default|det> <value sx> => ok:<hex> | err | panic
//	ccf rt <value sx>                => ok:<same|diff>:<hex>:<sx of ccf.Decode> | encerr | decerr:<hex> | panic
//	ccf perm <value sx> <value sx'>  => same:<hex> | diff:<hex>:<hex'> | err      (deterministic mode, sx' a permutation of sx)
//	ccf strict <default|det> <sx>    => ok:<sx of strict decode of the encoding in that mode> | err | encerr
//	ccf mutb <hex>                   => ok:<sx> | err | panic | hang               (byte / CBOR-head level mutations)
//	ccf hand <sorted|unsorted|dup> <hex> => d:<ok:<sx>|err>;s:<ok:<sx>|err>        (hand-built dictionary encodings:
//	                                    default decoder ; strict decoder)

import (
	"bytes"
	"fmt"
	"os"
	"time"

	"github.com/onflow/cadence"
	"github.com/onflow/cadence/encoding/ccf"

	"verif/harness/internal/cval"
	"verif/harness/internal/hx"
)

func init() {
	hx.Register(&hx.Stream{Name: "ccf", Gen: genCCF, Exec: execCCF, Parallel: true, Timeout: 20 * time.Second})
}

var ccfDetEnc = func() ccf.EncMode {
	m, err := ccf.EncOptions{
		SortCompositeFields:   ccf.SortBytewiseLexical,
		SortIntersectionTypes: ccf.SortBytewiseLexical,
		SortEntitlementTypes:  ccf.SortBytewiseLexical,
	}.EncMode()
	if err != nil {
		panic(err)
	}
	return m
}()

var ccfStrictDec = func() ccf.DecMode {
	m, err := ccf.DecOptions{
		EnforceSortCompositeFields:   ccf.EnforceSortBytewiseLexical,
		EnforceSortIntersectionTypes: ccf.EnforceSortBytewiseLexical,
		EnforceSortEntitlementTypes:  ccf.EnforceSortBytewiseLexical,
	}.DecMode()
	if err != nil {
		panic(err)
	}
	return m
}()

func ccfEncode(mode string, v cadence.Value) ([]byte, error) {
	if mode == "det" {
		return ccfDetEnc.Encode(v)
	}
	return ccf.Encode(v)
}

func ccfProfile() cval.Profile {
	p := cval.Full
	p.Functions = false // function values / function types in type positions: see genCCF
	return p
}

func mutateCBOR(r *hx.Rng, b []byte) []byte {
	b = append([]byte{}, b...)
	if len(b) == 0 {
		return b
	}
	switch r.Intn(4) {
	case 0: // change a tag number
		var pos []int
		for i := 0; i+1 < len(b); i++ {
			if b[i] == 0xd8 {
				pos = append(pos, i+1)
			}
		}
		if len(pos) > 0 {
			b[pos[r.Intn(len(pos))]] = byte(128 + r.Intn(100))
			return b
		}
	case 1: // change a small array / string head
		var pos []int
		for i := range b {
			if b[i] >= 0x80 && b[i] <= 0x97 || b[i] >= 0x40 && b[i] <= 0x57 || b[i] >= 0x60 && b[i] <= 0x77 {
				pos = append(pos, i)
			}
		}
		if len(pos) > 0 {
			i := pos[r.Intn(len(pos))]
			b[i] = b[i]&0xe0 | byte(r.Intn(24))
			return b
		}
	case 2: // replace a byte by a CBOR head of another major type / nil
		b[r.Intn(len(b))] = []byte{0xf6, 0xf5, 0xf4, 0x00, 0x20, 0x40, 0x60, 0x80, 0xa0, 0xc2, 0xc3, 0xd8, 0x18, 0x1b, 0x3b, 0x5f, 0x9f, 0xff, 0xf7, 0xfb}[r.Intn(20)]
		return b
	}
	return mutateBytes(r, b)
}

func genCCF(c *hx.Ctx) {
	r := decorrelate(c)
	g := cval.NewGen(r, ccfProfile())
	gf := cval.NewGen(r, cval.Full)
	for i := 0; i < c.N; i++ {
		gen := g
		if r.Chance(10) {
			gen = gf // with function values / types
		}
		v := gen.Top()
		sx := cval.ValueSx(v)
		if len(sx) > 40000 {
			continue
		}
		c.Emit("ccf", "rt", sx)
		c.Emit("ccf", "enc", "det", sx)
		if psx, ok := cval.Permute(sx, func(n int, swap func(i, j int)) {
			for k := n - 1; k > 0; k-- {
				swap(k, r.Intn(k+1))
			}
		}); ok {
			c.Emit("ccf", "perm", sx, psx)
			c.Emit("ccf", "strict", "default", psx)
			c.Emit("ccf", "strict", "det", psx)
		} else if r.Chance(40) {
			c.Emit("ccf", "strict", "default", sx)
			c.Emit("ccf", "strict", "det", sx)
		}
		if r.Chance(25) {
			genHand(c, r)
		}
		if r.Chance(50) {
			if enc, err, p := encodeGuardCCF(func() ([]byte, error) { return ccf.Encode(v) }); err == nil && !p {
				for k, n := 0, 1+r.Intn(3); k < n; k++ {
					c.Emit("ccf", "mutb", hx.Hex(mutateCBOR(r, enc)))
				}
			}
		}
	}
}

// safeValueSx prints a decoded value; a value the printer cannot handle is not a decoder crash.
func safeValueSx(v cadence.Value) (s string) {
	defer func() {
		if r := recover(); r != nil {
			s = "(unprintable)"
		}
	}()
	return cval.ValueSx(v)
}

// ---- hand-built encodings of dictionaries (shortest-form CBOR) ----

func cborHead(major byte, n uint64) []byte {
	m := major << 5
	switch {
	case n < 24:
		return []byte{m | byte(n)}
	case n < 1<<8:
		return []byte{m | 24, byte(n)}
	case n < 1<<16:
		return []byte{m | 25, byte(n >> 8), byte(n)}
	case n < 1<<32:
		return []byte{m | 26, byte(n >> 24), byte(n >> 16), byte(n >> 8), byte(n)}
	}
	return []byte{m | 27, byte(n >> 56), byte(n >> 48), byte(n >> 40), byte(n >> 32), byte(n >> 24), byte(n >> 16), byte(n >> 8), byte(n)}
}

func cborTag(n uint64, content []byte) []byte { return append(cborHead(6, n), content...) }

func cborArr(items ...[]byte) []byte {
	out := cborHead(4, uint64(len(items)))
	for _, it := range items {
		out = append(out, it...)
	}
	return out
}

func cborSimpleType(id uint64) []byte { return cborTag(137, cborHead(0, id)) }

// handKey: a random key of one of a few simple key types, as (simple type id, encoded key).
func handKey(r *hx.Rng, kind int) []byte {
	switch kind {
	case 0: // String (1)
		n := r.Intn(4)
		b := make([]byte, n)
		for i := range b {
			b[i] = byte('a' + r.Intn(4))
		}
		return append(cborHead(3, uint64(n)), b...)
	case 1: // UInt8 (12)
		return cborHead(0, uint64(r.Intn(256)))
	case 2: // Int16 (6)
		x := r.Intn(600) - 300
		if x < 0 {
			return cborHead(1, uint64(-1-x))
		}
		return cborHead(0, uint64(x))
	case 3: // Bool (0)
		if r.Chance(50) {
			return []byte{0xf5}
		}
		return []byte{0xf4}
	case 4: // Address (3)
		b := make([]byte, 8)
		b[7] = byte(r.Intn(4))
		b[6] = byte(r.Intn(2))
		return append(cborHead(2, 8), b...)
	default: // Int (4): bignum
		x := r.Intn(70000) - 35000
		if x < 0 {
			return cborTag(3, bigBytes(uint64(-1-x)))
		}
		return cborTag(2, bigBytes(uint64(x)))
	}
}

func bigBytes(n uint64) []byte {
	var b []byte
	for n > 0 {
		b = append([]byte{byte(n)}, b...)
		n >>= 8
	}
	return append(cborHead(2, uint64(len(b))), b...)
}

var handKeyTypeIDs = []uint64{1, 12, 6, 0, 3, 4}

// genHand emits one hand-built message: a dictionary {K: UInt8} (possibly wrapped in an array, an
// optional or as the value of an outer one-entry dictionary) whose entries are strictly sorted by the
// encoded key, have one adjacent pair out of order, or have one key twice in a row.
func genHand(c *hx.Ctx, r *hx.Rng) {
	kind := r.Intn(len(handKeyTypeIDs))
	want := 2 + r.Intn(4)
	if kind == 3 {
		want = 2
	}
	seen := map[string]bool{}
	var keys [][]byte
	for tries := 0; len(keys) < want && tries < 100; tries++ {
		k := handKey(r, kind)
		if !seen[string(k)] {
			seen[string(k)] = true
			keys = append(keys, k)
		}
	}
	if len(keys) < 2 {
		return
	}
	// sort by encoded bytes
	for i := 1; i < len(keys); i++ {
		for j := i; j > 0 && bytes.Compare(keys[j-1], keys[j]) > 0; j-- {
			keys[j-1], keys[j] = keys[j], keys[j-1]
		}
	}
	what := []string{"sorted", "unsorted", "dup"}[r.Intn(3)]
	i := r.Intn(len(keys) - 1)
	switch what {
	case "unsorted":
		if r.Chance(50) {
			keys[i], keys[i+1] = keys[i+1], keys[i]
		} else { // move the last key to the front
			keys = append([][]byte{keys[len(keys)-1]}, keys[:len(keys)-1]...)
		}
	case "dup":
		keys = append(keys[:i+1], append([][]byte{keys[i]}, keys[i+1:]...)...)
	}
	var items [][]byte
	for j, k := range keys {
		items = append(items, k, cborHead(0, uint64(j)))
	}
	typ := cborTag(141, cborArr(cborSimpleType(handKeyTypeIDs[kind]), cborSimpleType(12)))
	val := cborArr(items...)
	switch r.Intn(4) {
	case 1: // [{K: UInt8}]
		typ, val = cborTag(139, typ), cborArr(val)
	case 2: // {K: UInt8}?
		typ = cborTag(138, typ)
	case 3: // {Bool: {K: UInt8}}
		typ, val = cborTag(141, cborArr(cborSimpleType(0), typ)), cborArr([]byte{0xf5}, val)
	}
	c.Emit("ccf", "hand", what, hx.Hex(cborTag(130, cborArr(typ, val))))
}

func encodeGuardCCF(f func() ([]byte, error)) (b []byte, err error, panicked bool) {
	defer func() {
		if r := recover(); r != nil {
			panicked = true
		}
	}()
	b, err = f()
	return
}

func execCCF(op []string) (res string) {
	defer func() {
		if r := recover(); r != nil {
			res = "panic"
		}
	}()
	switch op[1] {
	case "enc":
		v, err := cval.ParseValue(op[3])
		if err != nil {
			return "bad-op"
		}
		b, err := ccfEncode(op[2], v)
		if err != nil {
			return "err"
		}
		return "ok:" + hx.Hex(b)
	case "rt":
		v, err := cval.ParseValue(op[2])
		if err != nil {
			return "bad-op"
		}
		enc, err := ccf.Encode(v)
		if err != nil {
			return "encerr"
		}
		dec, err := ccf.Decode(nil, enc)
		if err != nil {
			if os.Getenv("VERIF_DEBUG") != "" {
				fmt.Fprintln(os.Stderr, "ccf decode error:", err)
			}
			return "decerr:" + hx.Hex(enc)
		}
		same := "diff"
		if re, err := ccf.Encode(dec); err == nil && bytes.Equal(re, enc) {
			same = "same"
		}
		return "ok:" + same + ":" + hx.Hex(enc) + ":" + cval.ValueSx(dec)
	case "perm":
		v1, err1 := cval.ParseValue(op[2])
		v2, err2 := cval.ParseValue(op[3])
		if err1 != nil || err2 != nil {
			return "bad-op"
		}
		b1, err1 := ccfDetEnc.Encode(v1)
		b2, err2 := ccfDetEnc.Encode(v2)
		if err1 != nil || err2 != nil {
			return "err"
		}
		if bytes.Equal(b1, b2) {
			return "same:" + hx.Hex(b1)
		}
		return "diff:" + hx.Hex(b1) + ":" + hx.Hex(b2)
	case "strict":
		v, err := cval.ParseValue(op[3])
		if err != nil {
			return "bad-op"
		}
		b, err := ccfEncode(op[2], v)
		if err != nil {
			return "encerr"
		}
		dec, err := ccfStrictDec.Decode(nil, b)
		if err != nil {
			return "err"
		}
		return "ok:" + cval.ValueSx(dec)
	case "mutb":
		v, err := ccf.Decode(nil, hx.UnHex(op[2]))
		if err != nil {
			return "err"
		}
		return "ok:" + safeValueSx(v)
	case "hand":
		b := hx.UnHex(op[3])
		res := "d:"
		if v, err := ccf.Decode(nil, b); err != nil {
			res += "err"
		} else {
			res += "ok:" + safeValueSx(v)
		}
		res += ";s:"
		if v, err := ccfStrictDec.Decode(nil, b); err != nil {
			res += "err"
		} else {
			res += "ok:" + safeValueSx(v)
		}
		return res
	}
	return "bad-op"
}
