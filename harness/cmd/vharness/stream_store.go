package main

// Stream `store` (property C22): histories of account-storage operations, grouped into transactions,
// run on the real runtime (one fresh ledger per history and engine, persisting between the
// transactions of the history).  One line = one history:
//
//	store <engine> <history>   =>   <obs tx1>|<obs tx2>|...
//
// history  = tx ("|" tx)*            tx = op (";" op)*          op = comma separated tokens:
//
//	sv,a,p,VAL,T   save VAL (passed under static type T) to /storage/p<p> of account a
//	ld,a,p,T       load<T>        cp,a,p,T  copy<T>       bw,a,p,T  borrow<&T> + read through it
//	ck,a,p,T       check<T>       ty,a,p    type(at:)     ps,a      storagePaths
//	fe,a           forEachStored (path=type pairs)        pn        panic
//
// VAL: I<int> S<ascii> B0|B1 A<i.i.i> ([Int]) Y<i.i.i> ([AnyStruct] holding Ints) s<int> (C.S) t<int> (C.S2)
// r<int> (C.R) q<int> (C.R2); O<VAL> = VAL wrapped in an optional (stored static type <type of VAL>?: OI5 is
// an Int?, OOI5 an Int??, Or6 a @C.R?); N = nil (stored static type Never?).
// T: Int String Bool Integer ArrInt ArrAny S S2 I R R2 RI AnyStruct AnyResource, each optionally followed by one
// or more `?` (Int? S? R? RI? AnyStruct? AnyResource? Int?? ...).
// Every operation logs exactly one line; the observation of a transaction is
// `ok[log;log;...]` or `err:<kind>[logs before the abort]`.

import (
	"fmt"
	"os"
	"sort"
	"strconv"
	"strings"
	"time"

	"github.com/onflow/cadence/common"

	"verif/harness/internal/cdc"
	"verif/harness/internal/hx"
)

func init() {
	hx.Register(&hx.Stream{Name: "store", Gen: genStore, Exec: execStore, Parallel: true, Timeout: 120 * time.Second})
}

const storeContract = `
access(all) contract C {
    access(all) struct S { access(all) let x: Int; init(x: Int) { self.x = x } }
    access(all) struct interface I { access(all) fun get(): Int }
    access(all) struct S2: I { access(all) let x: Int; init(x: Int) { self.x = x }
        access(all) fun get(): Int { return self.x } }
    access(all) resource R { access(all) let x: Int; init(x: Int) { self.x = x } }
    access(all) resource interface RI { access(all) fun get(): Int }
    access(all) resource R2: RI { access(all) let x: Int; init(x: Int) { self.x = x }
        access(all) fun get(): Int { return self.x } }
    access(all) fun mkR(_ x: Int): @R { return <- create R(x: x) }
    access(all) fun mkR2(_ x: Int): @R2 { return <- create R2(x: x) }
    access(all) fun mkOR(_ x: Int): @R? { return <- create R(x: x) }
    access(all) fun mkOR2(_ x: Int): @R2? { return <- create R2(x: x) }
    // renders a loaded resource; optional layers are not shown (how many there are depends on the static
    // types the value passed through, not on what was stored: the stored type is observed by type(at:))
    access(all) fun eat1(_ x: @AnyResource): String {
        if x.isInstance(Type<@R>()) {
            let y <- x as! @R
            let s = "C.R(x: ".concat(y.x.toString()).concat(")")
            destroy y
            return s
        }
        if x.isInstance(Type<@R2>()) {
            let y <- x as! @R2
            let s = "C.R2(x: ".concat(y.x.toString()).concat(")")
            destroy y
            return s
        }
        if x.isInstance(Type<@AnyResource?>()) {
            let o <- x as! @AnyResource?
            if let y <- o {
                return C.eat1(<- y)
            }
            return "nil"
        }
        destroy x
        return "?"
    }
}
`

var storeBaseSyntax = map[string]string{
	"Int": "Int", "String": "String", "Bool": "Bool", "Integer": "Integer", "ArrInt": "[Int]", "ArrAny": "[AnyStruct]",
	"S": "C.S", "S2": "C.S2", "I": "{C.I}", "AnyStruct": "AnyStruct",
	"R": "@C.R", "R2": "@C.R2", "RI": "@{C.RI}", "AnyResource": "@AnyResource",
}

// Cadence syntax of a type token (base token followed by any number of `?`)
func storeTypeSyntax(t string) string {
	base := strings.TrimRight(t, "?")
	syn, ok := storeBaseSyntax[base]
	if !ok {
		return "BAD_TYPE"
	}
	return syn + t[len(base):]
}

var storeStructTypes = []string{"Int", "String", "Bool", "Integer", "ArrInt", "ArrAny", "S", "S2", "I", "AnyStruct",
	"Int?", "S?", "AnyStruct?", "Int??"}
var storeResTypes = []string{"R", "R2", "RI", "AnyResource", "R?", "RI?", "AnyResource?"}
var storeAllTypes = append(append([]string{}, storeStructTypes...), storeResTypes...)

// borrow<&T>: the checker rejects references to optional types
var storeBorrowTypes = []string{"Int", "String", "Bool", "Integer", "ArrInt", "ArrAny", "S", "S2", "I", "AnyStruct",
	"R", "R2", "RI", "AnyResource"}

func storeIsRes(t string) bool {
	switch strings.TrimRight(t, "?") {
	case "R", "R2", "RI", "AnyResource":
		return true
	}
	return false
}

func storeIsOpt(t string) bool { return strings.HasSuffix(t, "?") }

// static types under which a value may be passed to save
func storeSupers(v string) []string {
	switch v[0] {
	case 'I':
		return []string{"Int", "Integer", "AnyStruct"}
	case 'S':
		return []string{"String", "AnyStruct"}
	case 'B':
		return []string{"Bool", "AnyStruct"}
	case 'A':
		return []string{"ArrInt", "AnyStruct"}
	case 'Y':
		return []string{"ArrAny", "AnyStruct"}
	case 's':
		return []string{"S", "AnyStruct"}
	case 't':
		return []string{"S2", "I", "AnyStruct"}
	case 'r':
		return []string{"R", "AnyResource"}
	case 'q':
		return []string{"R2", "RI", "AnyResource"}
	case 'O':
		// T? for every static type T of the wrapped value, and the top type of its kind without the `?`
		inner := storeSupers(v[1:])
		out := make([]string, 0, len(inner)+1)
		for _, t := range inner {
			out = append(out, t+"?")
		}
		return append(out, strings.TrimRight(inner[len(inner)-1], "?"))
	case 'N':
		// (not `@AnyResource`: the checker does not take `Never?` for a resource type)
		return []string{"Int?", "S?", "AnyStruct", "AnyStruct?", "Int??", "R?", "AnyResource?"}
	}
	return nil
}

// the value token cut down to its kind (`O`s and the kind letter), enough for storeSupers
func storeKindOf(v string) string { return v[:len(v)-len(strings.TrimLeft(v, "O"))+1] }

// the dynamic type (token) of a value
func storeDynType(v string) string {
	switch v[0] {
	case 'O':
		return storeDynType(v[1:]) + "?"
	case 'N':
		return "Never?"
	}
	return storeSupers(v)[0]
}

func storeValExpr(v string) string {
	body := v[1:]
	switch v[0] {
	case 'I':
		return body
	case 'S':
		return strconv.Quote(body)
	case 'B':
		if body == "1" {
			return "true"
		}
		return "false"
	case 'A', 'Y':
		ty := "[Int]"
		if v[0] == 'Y' {
			ty = "[AnyStruct]"
		}
		return "([" + strings.ReplaceAll(body, ".", ", ") + "] as " + ty + ")"
	case 's':
		return "C.S(x: " + body + ")"
	case 't':
		return "C.S2(x: " + body + ")"
	case 'r':
		return "C.mkR(" + body + ")"
	case 'q':
		return "C.mkR2(" + body + ")"
	case 'O':
		switch body[0] {
		case 'r':
			return "C.mkOR(" + body[1:] + ")"
		case 'q':
			return "C.mkOR2(" + body[1:] + ")"
		}
		return "(" + storeValExpr(body) + " as " + storeTypeSyntax(storeDynType(v)) + ")"
	case 'N':
		return "nil"
	}
	return "BAD"
}

// the expression that reads through a borrowed reference `r` of type &T
func storeBorrowRead(t string) string {
	switch t {
	case "Int", "Integer":
		return "r.toString()"
	case "String":
		return "r.concat(\"!\")"
	case "Bool":
		return "*r"
	case "ArrInt", "ArrAny":
		return "r.length"
	case "S", "S2", "R", "R2":
		return "r.x"
	case "I", "RI":
		return "r.get()"
	default: // AnyStruct, AnyResource
		return "r.getType().identifier"
	}
}

func storeTxSource(tx string) string {
	var b strings.Builder
	b.WriteString("import C from 0x1\ntransaction {\n prepare(a0: auth(Storage) &Account, a1: auth(Storage) &Account, a2: auth(Storage) &Account) {\n")
	for k, op := range strings.Split(tx, ";") {
		f := strings.Split(op, ",")
		acct := func() string { return "a" + f[1] + ".storage" }
		path := func() string { return "/storage/p" + f[2] }
		switch f[0] {
		case "sv":
			t := f[4]
			if storeIsRes(t) {
				fmt.Fprintf(&b, "  let v%d: %s <- %s\n  %s.save(<-v%d, to: %s)\n", k, storeTypeSyntax(t), storeValExpr(f[3]), acct(), k, path())
			} else {
				fmt.Fprintf(&b, "  let v%d: %s = %s\n  %s.save(v%d, to: %s)\n", k, storeTypeSyntax(t), storeValExpr(f[3]), acct(), k, path())
			}
			b.WriteString("  log(\"sv\")\n")
		case "ld":
			if storeIsRes(f[3]) {
				fmt.Fprintf(&b, "  let l%d <- %s.load<%s>(from: %s)\n  if let x%d <- l%d { log(C.eat1(<- x%d)) } else { log(\"nil\") }\n", k, acct(), storeTypeSyntax(f[3]), path(), k, k, k)
			} else {
				fmt.Fprintf(&b, "  log(%s.load<%s>(from: %s))\n", acct(), storeTypeSyntax(f[3]), path())
			}
		case "cp":
			fmt.Fprintf(&b, "  log(%s.copy<%s>(from: %s))\n", acct(), storeTypeSyntax(f[3]), path())
		case "bw":
			ts := strings.TrimPrefix(storeTypeSyntax(f[3]), "@")
			fmt.Fprintf(&b, "  if let r = %s.borrow<&%s>(from: %s) { log(%s) } else { log(\"none\") }\n", acct(), ts, path(), storeBorrowRead(f[3]))
		case "ck":
			fmt.Fprintf(&b, "  log(%s.check<%s>(from: %s))\n", acct(), storeTypeSyntax(f[3]), path())
		case "ty":
			fmt.Fprintf(&b, "  log(%s.type(at: %s)?.identifier)\n", acct(), path())
		case "ps":
			fmt.Fprintf(&b, "  log(%s.storagePaths)\n", acct())
		case "fe":
			fmt.Fprintf(&b, "  let fe%d: [String] = []\n  %s.forEachStored(fun (path: StoragePath, type: Type): Bool { fe%d.append(path.toString().concat(\"=\").concat(type.identifier)); return true })\n  log(fe%d)\n", k, acct(), k, k)
		case "pn":
			b.WriteString("  if a0.address == 0x1 { panic(\"abort\") }\n")
		default:
			b.WriteString("  BAD OP\n")
		}
	}
	b.WriteString(" }\n}\n")
	return b.String()
}

var storeAddrPrefix = "A.0000000000000001."

// canonical form of one log line, by the kind of the operation that produced it
func storeCanonLog(opKind string, s string) string {
	s = strings.ReplaceAll(s, storeAddrPrefix, "")
	switch opKind {
	case "ps", "fe":
		// "[a, b, c]" coming out of a map iteration: sort the elements
		inner := strings.TrimSuffix(strings.TrimPrefix(s, "["), "]")
		if inner == "" {
			return "[]"
		}
		parts := strings.Split(inner, ", ")
		for i := range parts {
			parts[i] = strings.Trim(parts[i], "\"")
		}
		sort.Strings(parts)
		return "[" + strings.Join(parts, " ") + "]"
	}
	return strings.ReplaceAll(strings.ReplaceAll(s, ";", "?"), "|", "?")
}

func storeErrKind(out *cdc.Outcome) string {
	switch out.Kind {
	case "interpreter.OverwriteError":
		return "overwrite"
	case "interpreter.StoredValueTypeMismatchError":
		return "mismatch"
	case "stdlib.PanicError":
		return "panic"
	}
	return out.Class + ":" + out.Kind
}

func execStore(op []string) string {
	useVM := op[1] == "vm"
	env := cdc.NewEnv()
	env.Limit = 200000
	a1 := common.MustBytesToAddress([]byte{1})
	env.Signers = []common.Address{a1}
	dep := env.Tx(fmt.Sprintf(`transaction { prepare(signer: auth(Contracts) &Account) { signer.contracts.add(name: "C", code: "%x".decodeHex()) } }`, storeContract), nil, useVM)
	if dep.Class != "none" {
		if debugStore() {
			fmt.Fprintln(os.Stderr, "DEPLOY FAILED:", cdc.ErrString(dep.Err))
		}
		return "deploy-failed:" + dep.Class + ":" + dep.Kind
	}
	env.Signers = []common.Address{a1, common.MustBytesToAddress([]byte{2}), common.MustBytesToAddress([]byte{3})}
	var obs []string
	for _, tx := range strings.Split(op[2], "|") {
		src := storeTxSource(tx)
		out := env.Tx(src, nil, useVM)
		ops := strings.Split(tx, ";")
		logs := make([]string, len(out.Logs))
		for i, l := range out.Logs {
			kind := "?"
			if i < len(ops) {
				kind = strings.SplitN(ops[i], ",", 2)[0]
			}
			logs[i] = storeCanonLog(kind, l)
		}
		head := "ok"
		if out.Class != "none" {
			head = "err:" + storeErrKind(out)
			if debugStore() {
				fmt.Fprintln(os.Stderr, "TX ERROR:", cdc.ErrString(out.Err), "\n", src)
			}
		}
		obs = append(obs, head+"["+strings.Join(logs, ";")+"]")
	}
	return strings.Join(obs, "|")
}

func debugStore() bool { return os.Getenv("VERIF_DEBUG") != "" }

// ---------------------------------------------------------------------------------------------
// generator

type storeGenState struct {
	r   *hx.Rng
	occ map[[2]int]string // generator's own guess of what is stored (only to bias choices)
	np  int               // number of paths per account (6; 40 in "wide" histories whose domain maps span several slabs)
}

func storeRandVal(r *hx.Rng) string {
	ints := []string{"0", "1", "-1", "7", "42", "-300", "123456789012345678901234567890"}
	if r.Chance(6) {
		// values too large to be inlined into the storage map's slab (they live in slabs of their own,
		// which a later transaction has not loaded yet)
		if r.Bool() {
			n := 300 + r.Intn(300)
			xs := make([]string, n)
			for i := range xs {
				xs[i] = strconv.Itoa(i % 97)
			}
			return "A" + strings.Join(xs, ".")
		}
		return "S" + strings.Repeat("abcdefghij", 120+r.Intn(100))
	}
	if r.Chance(22) {
		// optional-typed stored values: some(v) (also of resources), some(some(v)), nil
		switch r.Intn(8) {
		case 0:
			return "N"
		case 1:
			return "OO" + r.Pick([]string{"I", "s", "t"}) + r.Pick(ints[:6])
		case 2, 3, 4:
			return "O" + r.Pick([]string{"r", "q"}) + r.Pick(ints[:6])
		default:
			return "O" + r.Pick([]string{"I", "s", "t"}) + r.Pick(ints[:6])
		}
	}
	switch r.Intn(9) {
	case 0:
		return "I" + r.Pick(ints)
	case 1:
		return "S" + r.Pick([]string{"", "a", "hello", "Zz9"})
	case 2:
		return "B" + r.Pick([]string{"0", "1"})
	case 3, 4:
		k := byte('A')
		if r.Bool() {
			k = 'Y'
		}
		n := r.Intn(4)
		xs := make([]string, n)
		for i := range xs {
			xs[i] = r.Pick(ints[:6])
		}
		return string(k) + strings.Join(xs, ".")
	case 5:
		return "s" + r.Pick(ints[:6])
	case 6:
		return "t" + r.Pick(ints[:6])
	case 7:
		return "r" + r.Pick(ints[:6])
	default:
		return "q" + r.Pick(ints[:6])
	}
}

func (g *storeGenState) key(preferOccupied bool) (int, int) {
	r := g.r
	if preferOccupied && len(g.occ) > 0 && r.Chance(75) {
		keys := make([][2]int, 0, len(g.occ))
		for k := range g.occ {
			keys = append(keys, k)
		}
		sort.Slice(keys, func(i, j int) bool { return keys[i][0]*100+keys[i][1] < keys[j][0]*100+keys[j][1] })
		k := keys[r.Intn(len(keys))]
		return k[0], k[1]
	}
	if g.np > 6 && r.Chance(80) {
		return 0, r.Intn(g.np)
	}
	return r.Intn(3), r.Intn(g.np)
}

func (g *storeGenState) op() string {
	r := g.r
	x := r.Intn(100)
	if g.np > 6 && r.Chance(35) {
		x = 0
	}
	switch {
	case x < 28:
		a, p := g.key(false)
		if _, o := g.occ[[2]int{a, p}]; o && r.Chance(70) { // mostly avoid the overwrite abort
			a, p = r.Intn(3), r.Intn(g.np)
		}
		for try := 0; g.np > 6 && try < 20; try++ { // wide histories: fill the account, avoid aborts
			if _, o := g.occ[[2]int{a, p}]; !o {
				break
			}
			a, p = 0, r.Intn(g.np)
		}
		v := storeRandVal(r)
		t := r.Pick(storeSupers(v))
		if _, o := g.occ[[2]int{a, p}]; !o {
			g.occ[[2]int{a, p}] = storeKindOf(v)
		}
		return fmt.Sprintf("sv,%d,%d,%s,%s", a, p, v, t)
	case x < 42:
		a, p := g.key(true)
		t := g.typeFor(a, p, storeAllTypes)
		delete(g.occ, [2]int{a, p})
		return fmt.Sprintf("ld,%d,%d,%s", a, p, t)
	case x < 54:
		a, p := g.key(true)
		return fmt.Sprintf("cp,%d,%d,%s", a, p, g.typeFor(a, p, storeStructTypes))
	case x < 66:
		a, p := g.key(true)
		return fmt.Sprintf("bw,%d,%d,%s", a, p, g.typeFor(a, p, storeBorrowTypes))
	case x < 78:
		a, p := g.key(true)
		return fmt.Sprintf("ck,%d,%d,%s", a, p, r.Pick(storeAllTypes))
	case x < 86:
		a, p := g.key(true)
		return fmt.Sprintf("ty,%d,%d", a, p)
	case x < 92:
		return fmt.Sprintf("ps,%d", r.Intn(3))
	case x < 98:
		return fmt.Sprintf("fe,%d", r.Intn(3))
	default:
		if g.np > 6 {
			return "ps,0"
		}
		return "pn"
	}
}

// a type argument that is mostly a supertype of what the generator believes is stored
func (g *storeGenState) typeFor(a, p int, universe []string) string {
	r := g.r
	if k, ok := g.occ[[2]int{a, p}]; ok && (r.Chance(70) || g.np > 6) {
		sup := storeSupers(k)
		t := r.Pick(sup)
		for _, u := range universe {
			if u == t {
				return t
			}
		}
	}
	return r.Pick(universe)
}

func genStore(c *hx.Ctx) {
	r := c.Rng
	engines := []string{"interp", "vm"}
	emit := func(h string) {
		for _, e := range engines {
			c.Emit("store", e, h)
		}
	}
	// exhaustive: every value kind against every type argument, each operation in its own transaction
	// (borrow, which takes non-optional types only, in a history of its own per value kind;
	// AnyResource last there: see known finding borrow-stored-nil-as-anyresource)
	vals := []string{"I5", "Sab", "B1", "A1.2", "Y1.2", "s3", "t4", "r6", "q8", "OI5", "Os3", "Ot4", "Or6", "Oq8", "OOI5", "N"}
	for _, v := range vals {
		sup := storeSupers(v)
		for _, t := range storeAllTypes {
			txs := []string{fmt.Sprintf("sv,1,2,%s,%s", v, sup[len(t)%len(sup)])}
			txs = append(txs, "ck,1,2,"+t+";ty,1,2")
			if !storeIsRes(t) {
				txs = append(txs, "cp,1,2,"+t)
			}
			txs = append(txs, "ps,1;ld,1,2,"+t+";ps,1", "ty,1,2;fe,1")
			emit(strings.Join(txs, "|"))
		}
		for i, s := range sup {
			txs := []string{fmt.Sprintf("sv,1,2,%s,%s", v, s)}
			if i == 0 {
				for _, t := range storeBorrowTypes {
					txs = append(txs, "bw,1,2,"+t)
				}
			}
			txs = append(txs, "ty,1,2;fe,1")
			emit(strings.Join(txs, "|"))
		}
	}
	// directed: large values and many paths, enumerated by a LATER transaction (fresh slab cache)
	{
		big := make([]string, 400)
		for i := range big {
			big[i] = strconv.Itoa(i)
		}
		bigArr := "A" + strings.Join(big, ".")
		longStr := "S" + strings.Repeat("x", 3000)
		emit("sv,0,0," + bigArr + ",ArrInt;sv,0,1,I7,Int|ps,0;fe,0|ty,0,0;ck,0,0,ArrInt;ps,0|ld,0,0,ArrInt;ps,0|ps,0;fe,0")
		emit("sv,1,3," + longStr + ",String;sv,1,4,B1,Bool;sv,1,5," + bigArr + ",ArrAny|ps,1|fe,1;ps,1|cp,1,3,String;ps,1")
		var many []string
		for i := 0; i < 300; i++ {
			many = append(many, "sv,2,"+strconv.Itoa(i)+",I"+strconv.Itoa(i)+",Int")
		}
		emit(strings.Join(many[:150], ";") + "|" + strings.Join(many[150:], ";") + "|ps,2|ld,2,17,Int;ps,2|ps,2") // (no forEachStored here: 300 callbacks exceed the computation limit)
	}
	for i := 0; i < c.N; i++ {
		g := &storeGenState{r: r, occ: map[[2]int]string{}, np: 6}
		ntx := 2 + r.Intn(8)
		wide := r.Chance(8)
		if wide {
			g.np = 40
			ntx = 6 + r.Intn(6)
		}
		if c.Thorough() && r.Chance(20) {
			ntx = 10 + r.Intn(30)
		}
		txs := make([]string, ntx)
		for j := range txs {
			nops := 1 + r.Intn(7)
			if wide {
				nops = 8 + r.Intn(25)
			}
			ops := make([]string, nops)
			for k := range ops {
				ops[k] = g.op()
			}
			txs[j] = strings.Join(ops, ";")
		}
		emit(strings.Join(txs, "|"))
	}
}
