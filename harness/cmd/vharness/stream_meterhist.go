package main

// Stream `meterhist` (property C31).
//
//  1. meterhist <engine> <kind> <signers> <src> { <kind> <signers> <src> }*
//     The first program is the target, the others are the history.  The target is run
//     (a) alone in a FRESH process (this binary re-executed with VERIF_METERX_CHILD=1: shared contracts
//     deployed, then the target), and (b) in this long-lived process — in which all earlier operations of
//     the stream have already run — after the history programs (each on its own copy of the state, so
//     that the target starts from the identical state), and (c) once more after itself.  Every
//     MeterComputation / MeterMemory call (kind, amount) is recorded in order by meterx.Rec, from
//     parsing and checking to the end of execution; the three sequences must be identical.
//     obs: same|diff:<which>@<index> ;; n=<calls> ;; comp=<sum> mem=<sum> ;; <outcome> ;; <detail>
//
//  2. smallint <static type> <int8 value>          (exhaustive: 20 types x 256 values)
//     interpreter.GetSmallIntegerValue read twice; obs: <value> <value> <same object?>
//     compared with the pure initialiser of the cache model.

import (
	"bufio"
	"fmt"
	"os"
	"os/exec"
	"strconv"
	"strings"
	"sync"
	"time"

	"github.com/onflow/cadence/interpreter"

	"verif/harness/internal/host"
	"verif/harness/internal/hx"
	"verif/harness/internal/meterx"
)

func init() {
	if os.Getenv("VERIF_METERX_CHILD") == "1" {
		mhChild()
		os.Exit(0)
	}
	hx.Register(&hx.Stream{Name: "meterhist", Gen: mhGen, Exec: host.Robust(mhExec, 120*time.Second, 900*time.Second), Parallel: false, Timeout: host.RobustTimeout})
}

const mhCompLimit = 200_000
const mhMemLimit = 0

var mhSmallTypes = []struct {
	name string
	t    interpreter.StaticType
}{
	{"Int", interpreter.PrimitiveStaticTypeInt}, {"Int8", interpreter.PrimitiveStaticTypeInt8},
	{"Int16", interpreter.PrimitiveStaticTypeInt16}, {"Int32", interpreter.PrimitiveStaticTypeInt32},
	{"Int64", interpreter.PrimitiveStaticTypeInt64}, {"Int128", interpreter.PrimitiveStaticTypeInt128},
	{"Int256", interpreter.PrimitiveStaticTypeInt256},
	{"UInt", interpreter.PrimitiveStaticTypeUInt}, {"UInt8", interpreter.PrimitiveStaticTypeUInt8},
	{"UInt16", interpreter.PrimitiveStaticTypeUInt16}, {"UInt32", interpreter.PrimitiveStaticTypeUInt32},
	{"UInt64", interpreter.PrimitiveStaticTypeUInt64}, {"UInt128", interpreter.PrimitiveStaticTypeUInt128},
	{"UInt256", interpreter.PrimitiveStaticTypeUInt256},
	{"Word8", interpreter.PrimitiveStaticTypeWord8}, {"Word16", interpreter.PrimitiveStaticTypeWord16},
	{"Word32", interpreter.PrimitiveStaticTypeWord32}, {"Word64", interpreter.PrimitiveStaticTypeWord64},
	{"Word128", interpreter.PrimitiveStaticTypeWord128}, {"Word256", interpreter.PrimitiveStaticTypeWord256},
}

func mhGen(c *hx.Ctx) {
	// exhaustive small-integer cache reads (quick: every 5th value plus the boundaries)
	for _, ty := range mhSmallTypes {
		for v := -128; v <= 127; v++ {
			if c.Thorough() || v%5 == 0 || v == -128 || v == 127 || v == -1 || v == 1 {
				c.Emit("smallint", ty.name, strconv.Itoa(v))
			}
		}
	}
	// directed at the cache keys of the model: for every integer type, a program that reads the small-integer
	// cache (step 1 and zero of the element type) after a history that has already filled those keys
	for ti, ty := range mhSmallTypes {
		for ei, engine := range []string{"interp", "vm"} {
			if !c.Thorough() && (ti+ei)%2 == 1 {
				continue
			}
			src := fmt.Sprintf("access(all) fun main(): Int { var acc = 0\nfor i in InclusiveRange<%s>(1, 3) { acc = acc + Int(i) }\nif InclusiveRange<%s>(0, 9, step: 2).contains(4) { acc = acc + 1 }\nreturn acc }", ty.name, ty.name)
			p := meterx.Prog{Kind: "script", Src: src}
			op := append([]string{"meterhist", engine}, p.Fields()...)
			op = append(op, p.Fields()...)
			c.Emit(op...)
			mhPlanned = append(mhPlanned, mhPlan{engine, p})
		}
	}
	for i := 0; i < c.N; i++ {
		r := c.Rng.Fork()
		engine := []string{"interp", "vm"}[i%2]
		op := []string{"meterhist", engine}
		op = append(op, meterx.Program(r, 2+r.Intn(6), 15).Fields()...)
		for k := r.Intn(4); k > 0; k-- {
			op = append(op, meterx.Program(r, 1+r.Intn(6), 15).Fields()...)
		}
		c.Emit(op...)
		mhPlanned = append(mhPlanned, mhPlan{op[1], meterx.ProgFromFields(op[2:5])})
		c.Emit(append([]string{"sharedprog", engine}, op[2:5]...)...)
	}
}

// The fresh-process runs are independent of everything else, so those of the generated operations
// are started ahead of time by a small worker pool (a fresh process costs ~0.7 s of start-up).
type mhPlan struct {
	engine string
	target meterx.Prog
}
type mhFreshRes struct {
	outcome, seq string
	err          error
	done         chan struct{}
}

var (
	mhPlanned  []mhPlan
	mhPrefetch = map[string]*mhFreshRes{}
	mhOnce     sync.Once
)

func mhKey(engine string, p meterx.Prog) string {
	return engine + "\x00" + strings.Join(p.Fields(), "\x00")
}

func mhFreshCached(engine string, target meterx.Prog) (string, string, error) {
	mhOnce.Do(func() {
		var order []*mhFreshRes
		var plans []mhPlan
		for _, pl := range mhPlanned {
			k := mhKey(pl.engine, pl.target)
			if _, ok := mhPrefetch[k]; ok {
				continue
			}
			r := &mhFreshRes{done: make(chan struct{})}
			mhPrefetch[k] = r
			order = append(order, r)
			plans = append(plans, pl)
		}
		ch := make(chan int)
		for w := 0; w < 8; w++ {
			go func() {
				for i := range ch {
					order[i].outcome, order[i].seq, order[i].err = mhFresh(plans[i].engine, plans[i].target)
					close(order[i].done)
				}
			}()
		}
		go func() {
			for i := range order {
				ch <- i
			}
			close(ch)
		}()
	})
	if r, ok := mhPrefetch[mhKey(engine, target)]; ok {
		<-r.done
		return r.outcome, r.seq, r.err
	}
	return mhFresh(engine, target)
}

type mhRun struct {
	rec *meterx.Rec
	out *meterx.Outcome
}

func mhTarget(useVM bool, target meterx.Prog, history []meterx.Prog) (first, second mhRun) {
	w0 := meterx.Setup(useVM)
	for i, p := range history {
		meterx.Exec(w0.Clone(), p, meterx.NewRec(mhCompLimit, mhMemLimit, false), meterx.Options{UseVM: useVM, Seq: uint64(100 + i)})
	}
	w1 := w0.Clone()
	first.rec = meterx.NewRec(mhCompLimit, mhMemLimit, true)
	first.out = meterx.Exec(w0, target, first.rec, meterx.Options{UseVM: useVM, Seq: 7})
	second.rec = meterx.NewRec(mhCompLimit, mhMemLimit, true)
	second.out = meterx.Exec(w1, target, second.rec, meterx.Options{UseVM: useVM, Seq: 7})
	return
}

// child: one line on stdin: engine \t kind \t signers \t src ; prints outcome line and sequence line
func mhChild() {
	in := bufio.NewReaderSize(os.Stdin, 1<<20)
	line, _ := in.ReadString('\n')
	f := strings.Split(strings.TrimRight(line, "\n"), "\t")
	if len(f) != 4 {
		fmt.Println("bad-request")
		return
	}
	first, _ := func() (a, b mhRun) {
		defer func() {
			if r := recover(); r != nil {
				fmt.Println("child-panic", r)
				os.Exit(3)
			}
		}()
		w0 := meterx.Setup(f[0] == "vm")
		a.rec = meterx.NewRec(mhCompLimit, mhMemLimit, true)
		a.out = meterx.Exec(w0, meterx.ProgFromFields(f[1:]), a.rec, meterx.Options{UseVM: f[0] == "vm", Seq: 7})
		return
	}()
	fmt.Println(hx.Clean(first.out.String()))
	fmt.Println(first.rec.SeqString())
}

func mhFresh(engine string, target meterx.Prog) (outcome, seq string, err error) {
	exe, err := os.Executable()
	if err != nil {
		return "", "", err
	}
	cmd := exec.Command(exe)
	cmd.Env = append(os.Environ(), "VERIF_METERX_CHILD=1")
	fields := append([]string{engine}, target.Fields()...)
	for i := range fields {
		fields[i] = hx.Clean(fields[i])
	}
	cmd.Stdin = strings.NewReader(strings.Join(fields, "\t") + "\n")
	b, err := cmd.Output()
	if err != nil {
		return "", "", fmt.Errorf("child: %v %s", err, string(b))
	}
	lines := strings.SplitN(string(b), "\n", 3)
	if len(lines) < 2 {
		return "", "", fmt.Errorf("child: short output %q", string(b))
	}
	return lines[0], lines[1], nil
}

func mhDiff(which string, a []string, b []meterx.Entry) string {
	n := len(a)
	if len(b) < n {
		n = len(b)
	}
	i := 0
	for i < n && a[i] == b[i].String() {
		i++
	}
	if i == len(a) && i == len(b) {
		return ""
	}
	ctx := func(xs []string, i int) string {
		lo, hi := i-2, i+3
		if lo < 0 {
			lo = 0
		}
		if hi > len(xs) {
			hi = len(xs)
		}
		return strings.Join(xs[lo:hi], ",")
	}
	bs := make([]string, len(b))
	for j, e := range b {
		bs[j] = e.String()
	}
	name := "end"
	if i < len(b) {
		name = b[i].Name()
	}
	return fmt.Sprintf("diff:%s@%d ;; lens=%d/%d ;; fresh=[%s] other=[%s] other-kind=%s", which, i, len(a), len(b), ctx(a, i), ctx(bs, i), name)
}

func mhExec(op []string) string {
	switch op[0] {
	case "smallint":
		v, err := strconv.Atoi(op[2])
		if err != nil || v < -128 || v > 127 {
			return "bad-op"
		}
		for _, ty := range mhSmallTypes {
			if ty.name == op[1] {
				a := interpreter.GetSmallIntegerValue(int8(v), ty.t)
				b := interpreter.GetSmallIntegerValue(int8(v), ty.t)
				return fmt.Sprintf("%s %s %s %v", a.String(), b.String(), a.StaticType(nil).String(), a == b)
			}
		}
		return "bad-op"
	case "sharedprog":
		// the host keeps checked / compiled contract programs across executions (GetOrLoadProgram cache):
		// warm-up import, then the target twice from the same ledger state; first vs second run
		if len(op) != 5 {
			return "bad-op"
		}
		useVM := op[1] == "vm"
		target := meterx.ProgFromFields(op[2:5])
		w := meterx.Setup(useVM)
		shared := meterx.NewSharedPrograms()
		warm := meterx.Exec(w.Clone(), meterx.Prog{Kind: "script", Src: "import K0 from 0x1\nimport K1 from 0x1\naccess(all) fun main() {}"},
			meterx.NewRec(mhCompLimit, 0, false), meterx.Options{UseVM: useVM, Seq: 5, Wrap: shared.Wrap()})
		if warm.Status != "ok" || shared.Len() < 2 {
			return "warmup-failed"
		}
		r1 := meterx.NewRec(mhCompLimit, mhMemLimit, true)
		o1 := meterx.Exec(w.Clone(), target, r1, meterx.Options{UseVM: useVM, Seq: 7, Wrap: shared.Wrap()})
		r2 := meterx.NewRec(mhCompLimit, mhMemLimit, true)
		o2 := meterx.Exec(w.Clone(), target, r2, meterx.Options{UseVM: useVM, Seq: 7, Wrap: shared.Wrap()})
		verdict := "same"
		if o1.String() != o2.String() {
			verdict = "diff:outcome first=" + o1.String() + " second=" + o2.String()
		} else if d := meterx.MeterDiff(r1, r2); d != "" {
			verdict = "meterdiff " + d
		}
		return fmt.Sprintf("%s ;; n=%d ;; %s", verdict, r1.N, o1.Short())
	case "meterhist":
		if len(op) < 5 || (len(op)-2)%3 != 0 {
			return "bad-op"
		}
		useVM := op[1] == "vm"
		target := meterx.ProgFromFields(op[2:5])
		var hist []meterx.Prog
		for i := 5; i+2 < len(op); i += 3 {
			hist = append(hist, meterx.ProgFromFields(op[i:i+3]))
		}
		fo, fseq, err := mhFreshCached(op[1], target)
		if err != nil {
			return "child-failed " + hx.Clean(err.Error())
		}
		first, second := mhTarget(useVM, target, hist)
		var fs []string
		if fseq != "" {
			fs = strings.Split(fseq, " ")
		}
		verdict := "same"
		detail := ""
		if d := mhDiff("shared", fs, first.rec.Seq); d != "" {
			verdict, detail = strings.SplitN(d, " ;; ", 2)[0], d
		} else if d := mhDiff("again", fs, second.rec.Seq); d != "" {
			verdict, detail = strings.SplitN(d, " ;; ", 2)[0], d
		} else if fo != hx.Clean(first.out.String()) || fo != hx.Clean(second.out.String()) {
			verdict, detail = "diff:outcome", "fresh="+fo+" shared="+first.out.String()+" again="+second.out.String()
		}
		return fmt.Sprintf("%s ;; n=%d ;; comp=%d mem=%d ;; %s ;; loops=%d stmts=%d calls=%d hist=%d ;; %s",
			verdict, first.rec.N, first.rec.CompUsed, first.rec.MemUsed, first.out.Short(), first.rec.LoopN, first.rec.StmtN, first.rec.CallN, len(hist), detail)
	}
	return "bad-op"
}
