package main

// Stream `lit` (property C40): numeric and string literals through the real lexer + parser + checker
// + evaluation (script `fun main(): T { return <literal> }`, either engine).
//   lit int <T> <text> <engine>   => ok:<value> | perr:<kinds> | cerr:<kinds>
//   lit fix <T> <text> <engine>   => ok:<value scaled by 10^scale(T)> | perr:… | cerr:…
//   lit str <hex of the UTF-8 source between the quotes> <engine>  => ok:<hex of the UTF-8 result> | perr:…

import (
	"errors"
	"math/big"
	"sort"
	"strings"

	"github.com/onflow/cadence"
	"github.com/onflow/cadence/ast"
	"github.com/onflow/cadence/parser"
	"github.com/onflow/cadence/sema"

	"verif/harness/internal/cdc"
	"verif/harness/internal/hx"
)

func init() {
	hx.Register(&hx.Stream{Name: "lit", Gen: genLit, Exec: execLit, Parallel: true})
}

var litIntTypes = []string{"Int", "UInt",
	"Int8", "Int16", "Int32", "Int64", "Int128", "Int256",
	"UInt8", "UInt16", "UInt32", "UInt64", "UInt128", "UInt256",
	"Word8", "Word16", "Word32", "Word64", "Word128", "Word256"}

var litFixTypes = []string{"Fix64", "UFix64", "Fix128", "UFix128"}

func litSemaType(name string) sema.Type {
	for _, t := range sema.AllNumberTypes {
		if t.String() == name {
			return t
		}
	}
	panic("unknown type " + name)
}

func litErrKinds(err error) (stage string, kinds []string) {
	set := map[string]bool{}
	var pe parser.Error
	var ce *sema.CheckerError
	switch {
	case errors.As(err, &pe):
		stage = "perr"
		for _, e := range pe.Errors {
			var ie *parser.InvalidIntegerLiteralError
			if errors.As(e, &ie) {
				switch ie.InvalidIntegerLiteralKind {
				case parser.InvalidNumberLiteralKindLeadingUnderscore:
					set["lead"] = true
				case parser.InvalidNumberLiteralKindTrailingUnderscore:
					set["trail"] = true
				case parser.InvalidNumberLiteralKindUnknownPrefix:
					set["prefix"] = true
				case parser.InvalidNumberLiteralKindMissingDigits:
					set["missing"] = true
				default:
					set["unknown"] = true
				}
			} else {
				set["syntax"] = true
			}
		}
	case errors.As(err, &ce):
		stage = "cerr"
		for _, e := range ce.Errors {
			switch e.(type) {
			case *sema.InvalidIntegerLiteralRangeError, *sema.InvalidFixedPointLiteralRangeError:
				set["range"] = true
			case *sema.InvalidFixedPointLiteralScaleError:
				set["scale"] = true
			default:
				set["other"] = true
			}
		}
	default:
		return "err", []string{"unclassified"}
	}
	for k := range set {
		kinds = append(kinds, k)
	}
	sort.Strings(kinds)
	return
}

func execLit(op []string) string {
	var ty, lit string
	var eng string
	switch op[1] {
	case "int", "fix":
		ty, lit, eng = op[2], op[3], op[4]
	case "str":
		ty, lit, eng = "String", "\""+string(hx.UnHex(op[2]))+"\"", op[3]
	default:
		return "bad-op"
	}
	if eng == "parse" {
		// the parser's own result, before the string value is NFC-normalised
		expr, errs := parser.ParseExpression(nil, []byte(lit), parser.Config{})
		if len(errs) > 0 {
			return "perr:syntax"
		}
		se, ok := expr.(*ast.StringExpression)
		if !ok {
			return "err-not-a-string-expression"
		}
		return "ok:" + hx.Hex([]byte(se.Value))
	}
	src := "access(all) fun main(): " + ty + " { return " + lit + "\n}"
	env := cdc.NewEnv()
	out := env.Script(src, nil, eng == "vm")
	switch out.Class {
	case "none":
		switch op[1] {
		case "int":
			return "ok:" + out.Value.String()
		case "fix":
			s := strings.Replace(out.Value.String(), ".", "", 1)
			n, ok := new(big.Int).SetString(s, 10)
			if !ok {
				return "err-render"
			}
			if n.Sign() == 0 {
				return "ok:0"
			}
			return "ok:" + n.String()
		default:
			return "ok:" + hx.Hex([]byte(string(out.Value.(cadence.String))))
		}
	case "user":
		stage, kinds := litErrKinds(out.Err)
		return stage + ":" + strings.Join(kinds, ",")
	default:
		return "err-" + out.Class
	}
}

// ---- generators ----

const litDigits = "0123456789abcdefghijklmnopqrstuvwxyz"

// render |v| in the base with random underscores, leading zeros and letter case
func litRender(r *hx.Rng, v *big.Int, base int, noise bool) string {
	s := new(big.Int).Abs(v).Text(base)
	if noise {
		if r.Chance(30) {
			s = strings.Repeat("0", 1+r.Intn(4)) + s
		}
		if r.Chance(3) {
			s = strings.Repeat("0", 100+r.Intn(300)) + s
		}
		var b strings.Builder
		for i, c := range s {
			if i > 0 && r.Chance(15) {
				b.WriteString(strings.Repeat("_", 1+r.Intn(2)))
			}
			if base == 16 && r.Bool() {
				b.WriteString(strings.ToUpper(string(c)))
			} else {
				b.WriteRune(c)
			}
		}
		s = b.String()
	}
	return s
}

func litPrefix(base int) string {
	switch base {
	case 2:
		return "0b"
	case 8:
		return "0o"
	case 16:
		return "0x"
	}
	return ""
}

// boundary-biased integer for a type (nil bounds = unbounded side)
func litBoundaryInt(r *hx.Rng, min, max *big.Int) *big.Int {
	pick := func(b *big.Int) *big.Int {
		return new(big.Int).Add(b, big.NewInt(int64(r.Intn(5)-2)))
	}
	switch r.Intn(8) {
	case 0:
		if min != nil {
			return pick(min)
		}
		return new(big.Int).Neg(new(big.Int).Lsh(big.NewInt(1), uint(r.Intn(600))))
	case 1, 2:
		if max != nil {
			return pick(max)
		}
		return new(big.Int).Lsh(big.NewInt(1), uint(r.Intn(900)))
	case 3:
		return big.NewInt(int64(r.Intn(5) - 2))
	case 4: // powers of two and neighbours
		v := new(big.Int).Lsh(big.NewInt(1), uint(r.Intn(260)))
		v.Add(v, big.NewInt(int64(r.Intn(3)-1)))
		if r.Bool() {
			v.Neg(v)
		}
		return v
	default:
		v := new(big.Int).SetBytes(r.Bytes(1 + r.Intn(34)))
		if r.Chance(30) {
			v.Neg(v)
		}
		return v
	}
}

func genLitInt(c *hx.Ctx, r *hx.Rng, eng string) {
	ty := litIntTypes[r.Intn(len(litIntTypes))]
	st := litSemaType(ty).(sema.IntegerRangedType)
	v := litBoundaryInt(r, st.MinInt(), st.MaxInt())
	base := []int{2, 8, 10, 16}[r.Intn(4)]
	digits := litRender(r, v, base, r.Chance(70))
	text := litPrefix(base) + digits
	// invalid forms
	switch r.Intn(24) {
	case 0: // leading underscore (after the prefix; a decimal literal cannot start with one)
		if base != 10 {
			text = litPrefix(base) + "_" + digits
		}
	case 1: // trailing underscore
		text += "_"
	case 2: // missing digits
		if base != 10 {
			text = litPrefix(base)
			if r.Bool() {
				text += "_"
			}
		}
	case 3: // unknown prefix
		text = "0" + string("zXBOqg"[r.Intn(6)]) + litRender(r, v, 10, false)
	case 4: // digit outside the base: the token ends early
		if base == 2 {
			text += "2"
		} else if base == 8 {
			text += "9"
		}
	}
	if v.Sign() < 0 || r.Chance(3) {
		text = "-" + text
	}
	c.Emit("lit", "int", ty, text, eng)
}

func litFixParams(ty string) (scale int, st sema.FractionalRangedType) {
	st = litSemaType(ty).(sema.FractionalRangedType)
	return int(st.Scale()), st
}

func genLitFix(c *hx.Ctx, r *hx.Rng, eng string) {
	ty := litFixTypes[r.Intn(len(litFixTypes))]
	scale, st := litFixParams(ty)
	var ip *big.Int
	neg := false
	atBound := 0
	switch r.Intn(6) {
	case 0, 1: // integer part at / next to the maximum
		ip = new(big.Int).Add(st.MaxInt(), big.NewInt(int64(r.Intn(3)-1)))
		atBound = 1
	case 2: // at / next to the minimum
		ip = new(big.Int).Add(new(big.Int).Abs(st.MinInt()), big.NewInt(int64(r.Intn(3)-1)))
		neg = true
		atBound = -1
	case 3:
		ip = big.NewInt(int64(r.Intn(3)))
	default:
		ip = new(big.Int).SetBytes(r.Bytes(1 + r.Intn(10)))
	}
	if ip.Sign() < 0 {
		ip.SetInt64(0)
	}
	if !neg && r.Chance(15) {
		neg = true
	}
	// fractional digits
	nd := []int{0, 1, 1, 2, 3, scale - 1, scale, scale, scale + 1, scale + 3}[r.Intn(10)]
	if nd < 0 {
		nd = 0
	}
	var fd string
	if atBound != 0 && nd > 0 && r.Chance(70) {
		// the first nd digits of the bound's fractional part, possibly one above / below
		bf := st.MaxFractional()
		if atBound < 0 {
			bf = st.MinFractional()
		}
		full := bf.Text(10)
		for len(full) < scale {
			full = "0" + full
		}
		for len(full) < nd {
			full += "0"
		}
		pre, _ := new(big.Int).SetString(full[:nd], 10)
		pre.Add(pre, big.NewInt(int64(r.Intn(3)-1)))
		if pre.Sign() < 0 {
			pre.SetInt64(0)
		}
		fd = pre.Text(10)
		for len(fd) < nd {
			fd = "0" + fd
		}
	} else {
		for i := 0; i < nd; i++ {
			fd += string(rune('0' + r.Intn(10)))
		}
	}
	is := ip.Text(10)
	if r.Chance(25) {
		is = strings.Repeat("0", 1+r.Intn(3)) + is
	}
	under := func(s string) string {
		var b strings.Builder
		for i, ch := range s {
			if i > 0 && r.Chance(12) {
				b.WriteByte('_')
			}
			b.WriteRune(ch)
		}
		return b.String()
	}
	if r.Chance(30) {
		is = under(is)
		fd = under(fd)
	}
	switch r.Intn(30) {
	case 0:
		fd += "_"
	case 1:
		fd = "_" + fd
	case 2:
		is += "_"
	}
	if fd == "" {
		if r.Bool() {
			fd = "_" // `1._` : lexes as a fixed-point literal without fractional digits
		} else {
			fd = "0"
		}
	}
	text := is + "." + fd
	if neg {
		text = "-" + text
	}
	c.Emit("lit", "fix", ty, text, eng)
}

func genLitStr(c *hx.Ctx, r *hx.Rng, eng string) {
	var b strings.Builder
	n := r.Intn(8)
	for i := 0; i < n; i++ {
		switch r.Intn(12) {
		case 0, 1:
			b.WriteByte(byte(' ' + r.Intn(95)))
		case 2:
			b.WriteRune([]rune{0xe9, 0x3b1, 0x65e5, 0x1f600, 0x301, 0x7f, 0xa0, 0xfffd, 0x10ffff}[r.Intn(9)])
		case 3, 4:
			b.WriteString([]string{`\0`, `\\`, `\t`, `\n`, `\r`, `\"`, `\'`}[r.Intn(7)])
		case 5, 6, 7: // unicode escapes: valid scalars, surrogates, beyond the range, many digits
			var v uint64
			switch r.Intn(6) {
			case 0:
				v = uint64(r.Intn(0x80))
			case 1:
				v = uint64([]int{0xd7ff, 0xd800, 0xdfff, 0xe000, 0xfffd, 0xffff, 0x10000, 0x10ffff, 0x110000, 0x7fffffff, 0x80000000, 0xffffffff}[r.Intn(12)])
			case 2:
				v = uint64(r.Intn(0x110000))
			default:
				v = r.U64() >> uint(32+r.Intn(32))
			}
			h := new(big.Int).SetUint64(v).Text(16)
			if r.Chance(30) {
				h = strings.ToUpper(h)
			}
			if r.Chance(20) && len(h) < 8 {
				h = strings.Repeat("0", r.Intn(9-len(h))) + h
			}
			b.WriteString(`\u{` + h + `}`)
		case 8: // malformed escapes
			b.WriteString([]string{`\x`, `\a`, `\u`, `\u{}`, `\u{zz}`, `\u{12`, `\u{123456789}`, `\u41`, `\u{1g}`, `\e`, `\U{41}`, `\ `}[r.Intn(12)])
		default:
			b.WriteByte(byte('a' + r.Intn(26)))
		}
	}
	s := b.String()
	s = strings.ReplaceAll(s, `\(`, `\\(`)
	// a raw quote or a raw backslash produced by the printable-ASCII case would end / escape: neutralise
	var o strings.Builder
	rs := []rune(s)
	for i := 0; i < len(rs); i++ {
		if rs[i] == '\\' && i+1 < len(rs) { // an escape: keep both runes
			o.WriteRune(rs[i])
			o.WriteRune(rs[i+1])
			i++
			continue
		}
		if rs[i] == '"' {
			o.WriteString(`\"`)
			continue
		}
		o.WriteRune(rs[i])
	}
	s = o.String()
	if r.Chance(2) {
		s += `\`
	}
	c.Emit("lit", "str", hx.Hex([]byte(s)), eng)
}

func genLit(c *hx.Ctx) {
	r := c.Rng
	// fixed cases: every type's bounds in every base
	for _, ty := range litIntTypes {
		st := litSemaType(ty).(sema.IntegerRangedType)
		for _, b := range []*big.Int{st.MinInt(), st.MaxInt()} {
			if b == nil {
				continue
			}
			for _, base := range []int{2, 8, 10, 16} {
				for d := -1; d <= 1; d++ {
					v := new(big.Int).Add(b, big.NewInt(int64(d)))
					text := litPrefix(base) + litRender(r, v, base, false)
					if v.Sign() < 0 {
						text = "-" + text
					}
					c.Emit("lit", "int", ty, text, []string{"interp", "vm"}[r.Intn(2)])
				}
			}
		}
	}
	for _, text := range []string{"0", "-0", "00", "0_0", "0b0", "0b101", "0o17", "0xff", "0XFF", "0b", "0o_", "0x_1", "1_", "0z1", "0b12", "1__2", "-0x80"} {
		c.Emit("lit", "int", "Int8", text, "interp")
		c.Emit("lit", "int", "UInt8", text, "vm")
	}
	for i := 0; i < c.N; i++ {
		eng := []string{"interp", "vm"}[r.Intn(2)]
		switch r.Intn(10) {
		case 0, 1, 2, 3, 4:
			genLitInt(c, r, eng)
		case 5, 6, 7:
			genLitFix(c, r, eng)
		default:
			if r.Chance(70) {
				eng = "parse"
			}
			genLitStr(c, r, eng)
		}
	}
}
