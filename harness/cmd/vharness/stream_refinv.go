package main

// Stream `refinv` (property C04): see internal/lang2/gen_ref.go; Exec and line format in stream_lang2.go.

import (
	"strconv"
	"strings"

	"verif/harness/internal/hx"
	"verif/harness/internal/lang2"
)

func init() {
	hx.Register(&hx.Stream{Name: "refinv", Parallel: true, Exec: execLang2, Gen: func(c *hx.Ctx) {
		for i := 0; i < c.N; i++ {
			p := lang2.GenerateRef(c.Rng.Fork())
			c.Emit("refinv", "g"+strconv.Itoa(i), "expect="+p.Expect, "tags="+lang2.TagList(p.Tags),
				"forms="+strings.Join(p.Forms, ","), l2Src(p.Src))
		}
	}})
}
