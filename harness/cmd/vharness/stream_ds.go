package main

// Stream `ds` (property C51): operation sequences on the internal ordered collections of /repo/common.
// One line = one whole sequence for one structure:
//
//	ds <kind> <init> <op>|<op>|...   =>   <obs>;<obs>;...
//
// kinds: om (orderedmap.OrderedMap[int,int], three registers; init = one letter per register,
// n = orderedmap.New, z = zero value &OrderedMap{}), bm (bimap.BiMap[int,int]; init n = NewBiMap,
// z = zero value), ps (persistent.OrderedSet[int], four registers holding pointers, initially nil),
// ist (intervalst.IntervalST[int]; zero value).  Every observation is what the real code returned or
// the sequence of callback invocations it made.  A Go panic inside one operation is the observation
// `panic` and the sequence continues.

import (
	"fmt"
	"strconv"
	"strings"

	"github.com/onflow/cadence/common/bimap"
	"github.com/onflow/cadence/common/intervalst"
	"github.com/onflow/cadence/common/orderedmap"
	"github.com/onflow/cadence/common/persistent"

	"verif/harness/internal/hx"
)

func init() {
	hx.Register(&hx.Stream{Name: "ds", Gen: genDs, Exec: execDs, Parallel: true})
}

// ---------------------------------------------------------------------------------------------
// execution

type omT = orderedmap.OrderedMap[int, int]

func dsAtoi(s string) int {
	n, err := strconv.Atoi(s)
	if err != nil {
		panic("bad int in op: " + s)
	}
	return n
}

func dsPred(p string) func(int) bool {
	switch {
	case p == "t":
		return func(int) bool { return true }
	case p == "f":
		return func(int) bool { return false }
	case p == "ev":
		return func(k int) bool { return k%2 == 0 }
	case strings.HasPrefix(p, "lt"):
		n := dsAtoi(p[2:])
		return func(k int) bool { return k < n }
	case strings.HasPrefix(p, "ge"):
		n := dsAtoi(p[2:])
		return func(k int) bool { return k >= n }
	case strings.HasPrefix(p, "eq"):
		n := dsAtoi(p[2:])
		return func(k int) bool { return k == n }
	}
	panic("bad predicate " + p)
}

func dsB(b bool) string {
	if b {
		return "1"
	}
	return "0"
}

func dsOpt(v int, present bool) string { return strconv.Itoa(v) + ":" + dsB(present) }

func dsPair(p *orderedmap.Pair[int, int]) string {
	if p == nil {
		return "nil"
	}
	return strconv.Itoa(p.Key) + "=" + strconv.Itoa(p.Value)
}

func dsInts(xs []int) string {
	parts := make([]string, len(xs))
	for i, x := range xs {
		parts[i] = strconv.Itoa(x)
	}
	return "[" + strings.Join(parts, ",") + "]"
}

// one operation, with panic capture
func dsGuard(f func() string) (res string) {
	defer func() {
		if r := recover(); r != nil {
			res = "panic"
		}
	}()
	return f()
}

type dsStop struct{}

func (dsStop) Error() string { return "stop" }

func execDs(op []string) string {
	if len(op) < 4 {
		return "bad-op"
	}
	var ops []string
	if op[3] != "" && op[3] != "-" {
		ops = strings.Split(op[3], "|")
	}
	var step func(a []string) string
	switch op[1] {
	case "om":
		step = dsOmMachine(op[2])
	case "bm":
		step = dsBmMachine(op[2])
	case "ps":
		step = dsPsMachine()
	case "ist":
		step = dsIstMachine()
	default:
		return "bad-op"
	}
	obs := make([]string, len(ops))
	for i, o := range ops {
		a := strings.Split(o, ":")
		obs[i] = dsGuard(func() string { return step(a) })
	}
	if len(obs) == 0 {
		return "-"
	}
	return strings.Join(obs, ";")
}

func dsOmMachine(init string) func(a []string) string {
	regs := make([]*omT, 3)
	for i := range regs {
		if i < len(init) && init[i] == 'z' {
			regs[i] = &omT{}
		} else {
			regs[i] = orderedmap.New[omT](0)
		}
	}
	reg := func(s string) *omT { return regs[dsAtoi(s)%3] }
	return func(a []string) string {
		switch a[0] {
		case "set":
			return dsOpt(reg(a[1]).Set(dsAtoi(a[2]), dsAtoi(a[3])))
		case "get":
			return dsOpt(reg(a[1]).Get(dsAtoi(a[2])))
		case "has":
			return dsB(reg(a[1]).Contains(dsAtoi(a[2])))
		case "pair":
			return dsPair(reg(a[1]).GetPair(dsAtoi(a[2])))
		case "del":
			return dsOpt(reg(a[1]).Delete(dsAtoi(a[2])))
		case "len":
			return strconv.Itoa(reg(a[1]).Len())
		case "old":
			return dsPair(reg(a[1]).Oldest())
		case "new":
			return dsPair(reg(a[1]).Newest())
		case "nxt", "prv":
			p := reg(a[1]).GetPair(dsAtoi(a[2]))
			if p == nil {
				return "nopair"
			}
			if a[0] == "nxt" {
				return dsPair(p.Next())
			}
			return dsPair(p.Prev())
		case "each":
			var parts []string
			reg(a[1]).Foreach(func(k, v int) { parts = append(parts, fmt.Sprintf("%d=%d", k, v)) })
			return "[" + strings.Join(parts, ",") + "]"
		case "eachi":
			var parts []string
			reg(a[1]).ForeachWithIndex(func(i, k, v int) { parts = append(parts, fmt.Sprintf("%d:%d=%d", i, k, v)) })
			return "[" + strings.Join(parts, ",") + "]"
		case "eache":
			stop := dsAtoi(a[2])
			var parts []string
			err := reg(a[1]).ForeachWithError(func(k, v int) error {
				parts = append(parts, fmt.Sprintf("%d=%d", k, v))
				if k == stop {
					return dsStop{}
				}
				return nil
			})
			return "[" + strings.Join(parts, ",") + "]" + map[bool]string{true: "!", false: "ok"}[err != nil]
		case "all", "any":
			p := dsPred(a[2])
			var visited []int
			q := func(k int) bool { visited = append(visited, k); return p(k) }
			var b bool
			if a[0] == "all" {
				b = reg(a[1]).ForAllKeys(q)
			} else {
				b = reg(a[1]).ForAnyKey(q)
			}
			return dsB(b) + dsInts(visited)
		case "disj":
			return dsB(reg(a[1]).KeySetIsDisjointFrom(reg(a[2])))
		case "inter":
			regs[dsAtoi(a[3])%3] = orderedmap.KeySetIntersection(reg(a[1]), reg(a[2]))
			return "ok"
		case "union":
			regs[dsAtoi(a[3])%3] = orderedmap.KeySetUnion(reg(a[1]), reg(a[2]))
			return "ok"
		case "setall":
			if a[2] == "nil" {
				reg(a[1]).SetAll(nil)
			} else {
				reg(a[1]).SetAll(reg(a[2]))
			}
			return "ok"
		case "clear":
			reg(a[1]).Clear()
			return "ok"
		}
		return "bad-op"
	}
}

func dsBmMachine(init string) func(a []string) string {
	var b *bimap.BiMap[int, int]
	if init == "z" {
		b = &bimap.BiMap[int, int]{}
	} else {
		b = bimap.NewBiMap[int, int]()
	}
	return func(a []string) string {
		switch a[0] {
		case "ins":
			b.Insert(dsAtoi(a[1]), dsAtoi(a[2]))
			return "ok"
		case "ex":
			return dsB(b.Exists(dsAtoi(a[1])))
		case "exi":
			return dsB(b.ExistsInverse(dsAtoi(a[1])))
		case "get":
			return dsOpt(b.Get(dsAtoi(a[1])))
		case "geti":
			return dsOpt(b.GetInverse(dsAtoi(a[1])))
		case "del":
			b.Delete(dsAtoi(a[1]))
			return "ok"
		case "deli":
			b.DeleteInverse(dsAtoi(a[1]))
			return "ok"
		case "size":
			return strconv.Itoa(b.Size())
		case "probe": // Get and GetInverse for 0..n-1
			n := dsAtoi(a[1])
			var parts []string
			for i := 0; i < n; i++ {
				parts = append(parts, dsOpt(b.Get(i))+"/"+dsOpt(b.GetInverse(i)))
			}
			return "[" + strings.Join(parts, ",") + "]"
		}
		return "bad-op"
	}
}

func dsPsMachine() func(a []string) string {
	regs := make([]*persistent.OrderedSet[int], 4)
	reg := func(s string) *persistent.OrderedSet[int] {
		if s == "nil" {
			return nil
		}
		return regs[dsAtoi(s)%4]
	}
	return func(a []string) string {
		switch a[0] {
		case "mk":
			regs[dsAtoi(a[1])%4] = persistent.NewOrderedSet(reg(a[2]))
			return "ok"
		case "clone":
			regs[dsAtoi(a[1])%4] = reg(a[2]).Clone()
			return "ok"
		case "add":
			reg(a[1]).Add(dsAtoi(a[2]))
			return "ok"
		case "has":
			return dsB(reg(a[1]).Contains(dsAtoi(a[2])))
		case "each":
			var xs []int
			_ = reg(a[1]).ForEach(func(x int) error { xs = append(xs, x); return nil })
			return dsInts(xs)
		case "eache":
			stop := dsAtoi(a[2])
			var xs []int
			err := reg(a[1]).ForEach(func(x int) error {
				xs = append(xs, x)
				if x == stop {
					return dsStop{}
				}
				return nil
			})
			return dsInts(xs) + map[bool]string{true: "!", false: "ok"}[err != nil]
		case "addint":
			reg(a[1]).AddIntersection(reg(a[2]), reg(a[3]))
			return "ok"
		case "empty":
			return dsB(reg(a[1]).IsEmpty())
		}
		return "bad-op"
	}
}

// dsPos is the Position used by the harness: a plain integer that also handles MinPosition.
type dsPos int

func (p dsPos) Compare(other intervalst.Position) int {
	if _, ok := other.(intervalst.MinPosition); ok {
		return 1
	}
	o := other.(dsPos)
	switch {
	case p < o:
		return -1
	case p > o:
		return 1
	}
	return 0
}

func dsPosStr(p intervalst.Position) string {
	if q, ok := p.(dsPos); ok {
		return strconv.Itoa(int(q))
	}
	return "min"
}

func dsIvStr(i intervalst.Interval) string { return dsPosStr(i.Min) + "-" + dsPosStr(i.Max) }

func dsIstMachine() func(a []string) string {
	t := &intervalst.IntervalST[int]{}
	found := func(i *intervalst.Interval, v int, ok bool) string {
		if !ok {
			if i != nil || v != 0 {
				return "nil-with-data"
			}
			return "nil"
		}
		return dsIvStr(*i) + "=" + strconv.Itoa(v)
	}
	return func(a []string) string {
		switch a[0] {
		case "put":
			iv := intervalst.NewInterval(dsPos(dsAtoi(a[1])), dsPos(dsAtoi(a[2])))
			t.Put(iv, dsAtoi(a[3]))
			return "ok"
		case "putraw": // interval literal without the NewInterval check
			t.Put(intervalst.Interval{Min: dsPos(dsAtoi(a[1])), Max: dsPos(dsAtoi(a[2]))}, dsAtoi(a[3]))
			return "ok"
		case "get":
			return dsOpt(t.Get(intervalst.Interval{Min: dsPos(dsAtoi(a[1])), Max: dsPos(dsAtoi(a[2]))}))
		case "has":
			return dsB(t.Contains(intervalst.Interval{Min: dsPos(dsAtoi(a[1])), Max: dsPos(dsAtoi(a[2]))}))
		case "s":
			return found(t.Search(dsPos(dsAtoi(a[1]))))
		case "si":
			return found(t.SearchInterval(intervalst.Interval{Min: dsPos(dsAtoi(a[1])), Max: dsPos(dsAtoi(a[2]))}))
		case "sa":
			es := t.SearchAll(dsPos(dsAtoi(a[1])))
			parts := make([]string, len(es))
			for i, e := range es {
				parts[i] = dsIvStr(e.Interval) + "=" + strconv.Itoa(e.Value)
			}
			return "[" + strings.Join(parts, ",") + "]"
		case "vals":
			return dsInts(t.Values())
		case "chk":
			return dsB(t.VerifCheck())
		case "dump":
			var sb strings.Builder
			t.VerifWalk(
				func(iv intervalst.Interval, v int, max intervalst.Position, size int) {
					fmt.Fprintf(&sb, "(%s=%d^%s#%d", dsIvStr(iv), v, dsPosStr(max), size)
				},
				func() { sb.WriteString(".") },
			)
			return sb.String()
		}
		return "bad-op"
	}
}

// ---------------------------------------------------------------------------------------------
// generation

func genDs(c *hx.Ctx) {
	r := c.Rng
	// fixed small sequences: every receiver kind with every read-only operation first
	for _, init := range []string{"nnn", "zzz", "znz"} {
		c.Emit("ds", "om", init, "any:0:t|all:0:t|any:0:f|all:0:f|len:0|old:0|new:0|each:0|eachi:0|eache:0:1|get:0:1|has:0:1|pair:0:1|del:0:1|nxt:0:1|disj:0:1|disj:1:0|clear:0|setall:0:nil|setall:0:1|inter:0:1:2|union:0:1:2|len:2|any:2:t|set:0:1:2|any:0:t|any:0:f|each:0")
	}
	c.Emit("ds", "bm", "n", "size|ex:1|exi:1|get:1|geti:1|del:1|deli:1|ins:1:2|ins:1:3|ins:4:3|probe:6|size")
	c.Emit("ds", "bm", "z", "size|ex:1|exi:1|get:1|geti:1|del:1|deli:1|ins:1:2|probe:3|size")
	c.Emit("ds", "ps", "-", "has:0:1|each:0|empty:0|add:0:1|clone:1:0|empty:1|mk:0:nil|empty:0|add:0:1|add:0:1|clone:1:0|add:1:2|add:0:2|add:0:3|each:1|each:0|has:1:3|addint:2:0:1|mk:2:nil|addint:2:0:1|each:2")
	c.Emit("ds", "ist", "-", "s:1|sa:1|vals|chk|dump|get:1:2|put:3:1:0|put:1:3:7|dump|put:1:3:8|dump|s:2|sa:2|get:1:3|vals|chk")
	for i := 0; i < c.N; i++ {
		q := r.Fork()
		// size profile: mostly short, some long (a few thousand operations in the thorough tier)
		n := 1 + q.Intn(24)
		switch q.Intn(20) {
		case 0:
			n = 100 + q.Intn(300)
		case 1:
			if c.Thorough() {
				n = 1000 + q.Intn(3000)
			} else {
				n = 300 + q.Intn(500)
			}
		}
		switch q.Intn(8) {
		case 0, 1, 2:
			c.Emit("ds", "om", string([]byte{"nz"[q.Intn(2)], "nz"[q.Intn(2)], "nz"[q.Intn(2)]}), genOmOps(q, n))
		case 3, 4:
			c.Emit("ds", "bm", []string{"n", "n", "n", "n", "n", "n", "n", "z"}[q.Intn(8)], genBmOps(q, n))
		case 5:
			c.Emit("ds", "ps", "-", genPsOps(q, n))
		default:
			c.Emit("ds", "ist", "-", genIstOps(q, n))
		}
	}
}

func dsJoin(parts ...any) string {
	ss := make([]string, len(parts))
	for i, p := range parts {
		ss[i] = fmt.Sprint(p)
	}
	return strings.Join(ss, ":")
}

func genOmOps(r *hx.Rng, n int) string {
	keys := 2 + r.Intn(9) // small key universe: re-insertion and deletion of present keys are frequent
	if n > 100 {
		keys = 8 + r.Intn(60)
	}
	k := func() int { return r.Intn(keys) }
	reg := func() int { return r.Intn(3) }
	pred := func() string {
		switch r.Intn(6) {
		case 0:
			return "t"
		case 1:
			return "f"
		case 2:
			return "ev"
		case 3:
			return "lt" + strconv.Itoa(k())
		case 4:
			return "ge" + strconv.Itoa(k())
		}
		return "eq" + strconv.Itoa(k())
	}
	ops := make([]string, 0, n)
	for i := 0; i < n; i++ {
		var o string
		switch x := r.Intn(100); {
		case x < 30:
			o = dsJoin("set", reg(), k(), r.Intn(100))
		case x < 42:
			o = dsJoin("del", reg(), k())
		case x < 47:
			o = dsJoin("get", reg(), k())
		case x < 50:
			o = dsJoin("has", reg(), k())
		case x < 53:
			o = dsJoin("pair", reg(), k())
		case x < 56:
			o = dsJoin("len", reg())
		case x < 59:
			o = dsJoin("old", reg())
		case x < 62:
			o = dsJoin("new", reg())
		case x < 66:
			o = dsJoin([]string{"nxt", "prv"}[r.Intn(2)], reg(), k())
		case x < 72:
			o = dsJoin("each", reg())
		case x < 74:
			o = dsJoin("eachi", reg())
		case x < 77:
			o = dsJoin("eache", reg(), k())
		case x < 82:
			o = dsJoin("all", reg(), pred())
		case x < 88:
			o = dsJoin("any", reg(), pred())
		case x < 91:
			o = dsJoin("disj", reg(), reg())
		case x < 93:
			o = dsJoin("inter", reg(), reg(), reg())
		case x < 95:
			o = dsJoin("union", reg(), reg(), reg())
		case x < 98:
			if r.Chance(15) {
				o = dsJoin("setall", reg(), "nil")
			} else {
				o = dsJoin("setall", reg(), reg())
			}
		default:
			o = dsJoin("clear", reg())
		}
		ops = append(ops, o)
	}
	ops = append(ops, "each:0", "each:1", "each:2", "len:0", "len:1", "len:2")
	return strings.Join(ops, "|")
}

func genBmOps(r *hx.Rng, n int) string {
	u := 2 + r.Intn(7)
	if n > 100 {
		u = 6 + r.Intn(40)
	}
	k := func() int { return r.Intn(u) }
	ops := make([]string, 0, n)
	for i := 0; i < n; i++ {
		var o string
		switch x := r.Intn(100); {
		case x < 40:
			o = dsJoin("ins", k(), k())
		case x < 50:
			o = dsJoin("del", k())
		case x < 60:
			o = dsJoin("deli", k())
		case x < 68:
			o = dsJoin("get", k())
		case x < 76:
			o = dsJoin("geti", k())
		case x < 81:
			o = dsJoin("ex", k())
		case x < 86:
			o = dsJoin("exi", k())
		case x < 93:
			o = "size"
		default:
			o = dsJoin("probe", u)
		}
		ops = append(ops, o)
	}
	ops = append(ops, dsJoin("probe", u), "size")
	return strings.Join(ops, "|")
}

func genPsOps(r *hx.Rng, n int) string {
	u := 2 + r.Intn(8)
	x := func() int { return r.Intn(u) }
	reg := func() string { return strconv.Itoa(r.Intn(4)) }
	regOrNil := func() string {
		if r.Chance(12) {
			return "nil"
		}
		return reg()
	}
	ops := make([]string, 0, n+2)
	if r.Chance(85) {
		ops = append(ops, "mk:0:nil")
	}
	for i := 0; i < n; i++ {
		var o string
		switch y := r.Intn(100); {
		case y < 8:
			o = dsJoin("mk", reg(), regOrNil())
		case y < 20:
			o = dsJoin("clone", reg(), reg())
		case y < 55:
			o = dsJoin("add", reg(), x())
		case y < 68:
			o = dsJoin("has", reg(), x())
		case y < 80:
			o = dsJoin("each", reg())
		case y < 85:
			o = dsJoin("eache", reg(), x())
		case y < 92:
			o = dsJoin("addint", reg(), regOrNil(), regOrNil())
		default:
			o = dsJoin("empty", reg())
		}
		ops = append(ops, o)
	}
	ops = append(ops, "each:0", "each:1", "each:2", "each:3")
	return strings.Join(ops, "|")
}

func genIstOps(r *hx.Rng, n int) string {
	u := 4 + r.Intn(28) // coordinate universe: small => many overlapping and duplicate intervals
	if n > 100 {
		u = 20 + r.Intn(400)
	}
	p := func() int { return r.Intn(u) }
	dumpEvery := n <= 60
	ops := make([]string, 0, n+4)
	val := 0
	var put [][2]int // intervals inserted so far (Get/Contains aim at them half of the time)
	for i := 0; i < n; i++ {
		var o string
		switch y := r.Intn(100); {
		case y < 40:
			a, b := p(), p()
			switch r.Intn(10) {
			case 0: // point interval
				b = a
			case 1: // long interval
				a, b = r.Intn(1+u/4), u-1-r.Intn(1+u/4)
			}
			if a > b && !r.Chance(4) { // a > b: NewInterval panics, nothing is inserted
				a, b = b, a
			}
			if a <= b {
				put = append(put, [2]int{a, b})
			}
			val++
			v := val
			if r.Chance(10) {
				v = r.Intn(3)
			}
			o = dsJoin("put", a, b, v)
			if r.Chance(2) {
				o = dsJoin("putraw", a, b, v)
			}
			if dumpEvery || r.Chance(3) {
				o += "|dump"
			}
		case y < 55:
			o = dsJoin("s", p())
		case y < 68:
			o = dsJoin("sa", p())
		case y < 76:
			a, b := p(), p()
			if a > b {
				a, b = b, a
			}
			o = dsJoin("si", a, b)
		case y < 84:
			a, b := p(), p()
			if a > b && r.Chance(90) {
				a, b = b, a
			}
			if len(put) > 0 && r.Bool() {
				iv := put[r.Intn(len(put))]
				a, b = iv[0], iv[1]
			}
			o = dsJoin("get", a, b)
		case y < 88:
			a, b := p(), p()
			if a > b {
				a, b = b, a
			}
			if len(put) > 0 && r.Bool() {
				iv := put[r.Intn(len(put))]
				a, b = iv[0], iv[1]
			}
			o = dsJoin("has", a, b)
		case y < 93:
			o = "vals"
		case y < 97:
			o = "chk"
		default:
			o = "dump"
		}
		ops = append(ops, o)
	}
	ops = append(ops, "chk", "vals", "dump")
	for i := 0; i < 3; i++ {
		ops = append(ops, dsJoin("s", p()), dsJoin("sa", p()))
	}
	return strings.Join(ops, "|")
}
