package main

// Stream `lin` (property C03): generated functions of the resource fragment, linear by construction
// and then (for about half of them) damaged by violation injectors; each is parsed by the real
// parser and checked by the real sema checker.
//
// op line:   lin \t <label> \t <mutations> \t <source>
// go result: <sx> @@ <errors>
//   sx     = S-expression of function `f` of the *parsed* program (internal/linsx), or `oof:<reason>`
//   errors = `ok`, or the sorted multiset of checker error kinds `Kind*count;...`, or `parse-error`

import (
	"errors"
	"fmt"
	"sort"
	"strconv"
	"strings"

	"github.com/onflow/cadence/common"
	"github.com/onflow/cadence/parser"
	"github.com/onflow/cadence/sema"
	"github.com/onflow/cadence/stdlib"

	"verif/harness/internal/hx"
	"verif/harness/internal/linsx"
)

func init() {
	hx.Register(&hx.Stream{Name: "lin", Gen: genLin, Exec: execLin, Parallel: true})
}

const linPrelude = "resource R { let id: Int; init() { self.id = 1 }; fun use() {} }\n" +
	"fun eat(_ r: @R?) { destroy r }\n" +
	"fun mk(): @R { return <- create R() }\n" +
	"fun check(_ n: Int) {}\n"

// ---------------------------------------------------------------------------------------------
// program trees

type linNode struct {
	k    string // let destroy eat use read nomove swap skip if iflet while break continue return panic
	x, y string // variable names (let: x new, y source or "" ; iflet: x new, y source)
	init string // let: create | call | move
	opt  bool   // let: declared with type @R?
	a, b []*linNode
	els  bool // if / iflet: has an else block
}

func (n *linNode) render(sb *strings.Builder, ind string) {
	w := func(s string) { sb.WriteString(ind + s + "\n") }
	blk := func(ns []*linNode) {
		for _, c := range ns {
			c.render(sb, ind+"  ")
		}
	}
	switch n.k {
	case "let":
		ty := ""
		if n.opt {
			ty = ": @R?"
		}
		rhs := map[string]string{"create": "create R()", "call": "mk()", "move": n.y}[n.init]
		w("var " + n.x + ty + " <- " + rhs)
	case "destroy":
		w("destroy " + n.x)
	case "eat":
		w("eat(<-" + n.x + ")")
	case "nomove":
		w("eat(" + n.x + ")")
	case "use":
		w(n.x + ".use()")
	case "read":
		w("check(" + n.x + ".id)")
	case "swap":
		w(n.x + " <-> " + n.y)
	case "skip":
		w("check(1)")
	case "break", "continue", "return":
		w(n.k)
	case "panic":
		w("panic(\"\")")
	case "if", "iflet":
		if n.k == "if" {
			w("if c {")
		} else {
			w("if let " + n.x + " <- " + n.y + " {")
		}
		blk(n.a)
		if n.els {
			w("} else {")
			blk(n.b)
		}
		w("}")
	case "while":
		w("while c {")
		blk(n.a)
		w("}")
	}
}

// ---------------------------------------------------------------------------------------------
// generator of linear functions

type linVar struct {
	name      string
	opt       bool
	live      bool
	loopDepth int // number of enclosing loops at the declaration
}

type linGen struct {
	r       *hx.Rng
	next    int
	frames  [][]*linVar // innermost last
	loops   int
	budget  int
	maxDeep int
}

func (g *linGen) fresh(prefix string) string {
	g.next++
	return prefix + strconv.Itoa(g.next)
}

func (g *linGen) freshFor(opt bool) string {
	if opt {
		return g.fresh("o")
	}
	return g.fresh("r")
}

func (g *linGen) vars(pred func(*linVar) bool) []*linVar {
	var out []*linVar
	for _, f := range g.frames {
		for _, v := range f {
			if pred(v) {
				out = append(out, v)
			}
		}
	}
	return out
}

// killable: live and not declared outside the innermost enclosing loop
func (g *linGen) killable(v *linVar) bool { return v.live && v.loopDepth == g.loops }

func (g *linGen) kill(v *linVar) *linNode {
	v.live = false
	if g.r.Bool() {
		return &linNode{k: "destroy", x: v.name}
	}
	return &linNode{k: "eat", x: v.name}
}

func (g *linGen) snapshot() map[*linVar]bool {
	m := map[*linVar]bool{}
	for _, f := range g.frames {
		for _, v := range f {
			m[v] = v.live
		}
	}
	return m
}
func (g *linGen) restore(m map[*linVar]bool) {
	for v, l := range m {
		v.live = l
	}
}

// block generates a scoped block; pre = variables declared by the construct itself (iflet).
// Returns the statements and whether control can fall through.
func (g *linGen) block(depth int, pre []*linVar) ([]*linNode, bool) {
	g.frames = append(g.frames, append([]*linVar{}, pre...))
	out, falls := g.stmts(depth)
	if falls {
		top := g.frames[len(g.frames)-1]
		for _, v := range top {
			if v.live {
				out = append(out, g.kill(v))
			}
		}
	}
	g.frames = g.frames[:len(g.frames)-1]
	return out, falls
}

func (g *linGen) stmts(depth int) ([]*linNode, bool) {
	var out []*linNode
	n := 1 + g.r.Intn(5)
	for i := 0; i < n && g.budget > 0; i++ {
		g.budget--
		top := len(g.frames) - 1
		switch c := g.r.Intn(100); {
		case c < 24:
			v := &linVar{opt: g.r.Chance(25), live: true, loopDepth: g.loops}
			v.name = g.freshFor(v.opt)
			init := "create"
			if g.r.Chance(30) {
				init = "call"
			}
			out = append(out, &linNode{k: "let", x: v.name, init: init, opt: v.opt})
			g.frames[top] = append(g.frames[top], v)
		case c < 32:
			src := g.vars(g.killable)
			if len(src) == 0 {
				continue
			}
			s := src[g.r.Intn(len(src))]
			s.live = false
			v := &linVar{opt: s.opt || g.r.Chance(20), live: true, loopDepth: g.loops}
			v.name = g.freshFor(v.opt)
			out = append(out, &linNode{k: "let", x: v.name, y: s.name, init: "move", opt: v.opt})
			g.frames[top] = append(g.frames[top], v)
		case c < 48:
			src := g.vars(g.killable)
			if len(src) == 0 {
				continue
			}
			out = append(out, g.kill(src[g.r.Intn(len(src))]))
		case c < 62:
			src := g.vars(func(v *linVar) bool { return v.live && !v.opt })
			if len(src) == 0 {
				continue
			}
			k := "use"
			if g.r.Chance(30) {
				k = "read"
			}
			out = append(out, &linNode{k: k, x: src[g.r.Intn(len(src))].name})
		case c < 76 && depth < g.maxDeep:
			node := &linNode{k: "if", els: g.r.Chance(70)}
			var pre []*linVar
			if g.r.Chance(25) {
				src := g.vars(func(v *linVar) bool { return g.killable(v) && v.opt })
				if len(src) > 0 {
					s := src[g.r.Intn(len(src))]
					s.live = false
					y := &linVar{name: g.fresh("b"), live: true, loopDepth: g.loops}
					node.k, node.x, node.y = "iflet", y.name, s.name
					pre = []*linVar{y}
				}
			}
			before := g.snapshot()
			a, fa := g.block(depth+1, pre)
			afterA := g.snapshot()
			g.restore(before)
			var b []*linNode
			fb := true
			if node.els {
				b, fb = g.block(depth+1, nil)
			}
			afterB := g.snapshot()
			// equalise the outer variables killed by the branches that fall through
			var outer []*linVar
			for _, f := range g.frames {
				outer = append(outer, f...)
			}
			for _, v := range outer {
				if !before[v] {
					continue
				}
				la, lb := afterA[v], afterB[v]
				if fa && fb && la != lb {
					kn := &linNode{k: "destroy", x: v.name}
					if la {
						a = append(a, kn)
					} else {
						if !node.els {
							node.els = true
						}
						b = append(b, kn)
					}
					v.live = false
				} else if fa && !fb {
					v.live = la
				} else {
					v.live = lb
				}
			}
			node.a, node.b = a, b
			out = append(out, node)
			if !fa && !fb {
				return out, false
			}
		case c < 84 && depth < g.maxDeep:
			g.loops++
			a, _ := g.block(depth+1, nil)
			g.loops--
			out = append(out, &linNode{k: "while", a: a})
		case c < 89 && g.loops > 0 && depth > 0:
			for _, v := range g.vars(g.killable) {
				out = append(out, g.kill(v))
			}
			k := "break"
			if g.r.Bool() {
				k = "continue"
			}
			out = append(out, &linNode{k: k})
			return out, false
		case c < 93 && depth > 0:
			for _, v := range g.vars(func(v *linVar) bool { return v.live }) {
				out = append(out, g.kill(v))
			}
			out = append(out, &linNode{k: "return"})
			return out, false
		case c < 96 && depth > 0:
			out = append(out, &linNode{k: "panic"})
			return out, false
		case c < 98:
			src := g.vars(func(v *linVar) bool { return v.live && strings.HasPrefix(v.name, "r") })
			if len(src) >= 2 {
				i, j := g.r.Intn(len(src)), g.r.Intn(len(src))
				if i != j {
					out = append(out, &linNode{k: "swap", x: src[i].name, y: src[j].name})
				}
			}
		default:
			out = append(out, &linNode{k: "skip"})
		}
	}
	return out, true
}

// ---------------------------------------------------------------------------------------------
// violation injectors

type linSlot struct {
	list  *[]*linNode
	idx   int      // insertion point / statement index
	scope []string // resource variables in scope at this point
	loops int
}

func linSlots(body *[]*linNode, scope []string, loops int, out *[]linSlot) {
	sc := append([]string{}, scope...)
	for i, n := range *body {
		*out = append(*out, linSlot{body, i, append([]string{}, sc...), loops})
		switch n.k {
		case "let":
			sc = append(sc, n.x)
		case "if":
			linSlots(&n.a, sc, loops, out)
			linSlots(&n.b, sc, loops, out)
		case "iflet":
			linSlots(&n.a, append(append([]string{}, sc...), n.x), loops, out)
			linSlots(&n.b, sc, loops, out)
		case "while":
			linSlots(&n.a, sc, loops+1, out)
		}
	}
	*out = append(*out, linSlot{body, len(*body), sc, loops})
}

func linInsert(l *[]*linNode, i int, n *linNode) {
	*l = append(*l, nil)
	copy((*l)[i+1:], (*l)[i:])
	(*l)[i] = n
}

func linMutate(r *hx.Rng, body *[]*linNode, params []string) string {
	var slots []linSlot
	linSlots(body, params, 0, &slots)
	var stmtSlots []linSlot
	for _, s := range slots {
		if s.idx < len(*s.list) {
			stmtSlots = append(stmtSlots, s)
		}
	}
	pickStmt := func(pred func(*linNode) bool) (linSlot, bool) {
		var c []linSlot
		for _, s := range stmtSlots {
			if pred((*s.list)[s.idx]) {
				c = append(c, s)
			}
		}
		if len(c) == 0 {
			return linSlot{}, false
		}
		return c[r.Intn(len(c))], true
	}
	atom := func(n *linNode) bool {
		switch n.k {
		case "destroy", "eat", "use", "read":
			return true
		}
		return false
	}
	switch r.Intn(9) {
	case 0: // drop a statement (a destroy, a move, a declaration is never dropped)
		if s, ok := pickStmt(func(n *linNode) bool { return n.k != "let" && n.k != "iflet" }); ok {
			k := (*s.list)[s.idx].k
			*s.list = append((*s.list)[:s.idx:s.idx], (*s.list)[s.idx+1:]...)
			return "drop-" + k
		}
	case 1: // duplicate an invalidation or a use
		if s, ok := pickStmt(atom); ok {
			n := *(*s.list)[s.idx]
			linInsert(s.list, s.idx, &n)
			return "dup-" + n.k
		}
	case 2: // insert a use / invalidation of a variable in scope
		s := slots[r.Intn(len(slots))]
		if len(s.scope) > 0 {
			k := []string{"use", "destroy", "eat", "read", "nomove"}[r.Intn(5)]
			x := s.scope[r.Intn(len(s.scope))]
			if strings.HasPrefix(x, "o") && (k == "use" || k == "read") {
				k = "destroy"
			}
			linInsert(s.list, s.idx, &linNode{k: k, x: x})
			return "ins-" + k
		}
	case 3: // insert a jump / return / halt
		s := slots[r.Intn(len(slots))]
		k := []string{"break", "continue", "return", "panic"}[r.Intn(4)]
		if (k == "break" || k == "continue") && s.loops == 0 && r.Chance(90) {
			k = "return"
		}
		linInsert(s.list, s.idx, &linNode{k: k})
		return "ins-" + k
	case 4: // wrap a statement in a conditional (invalidation in one branch only)
		if s, ok := pickStmt(func(n *linNode) bool { return n.k != "let" && n.k != "iflet" }); ok {
			n := (*s.list)[s.idx]
			(*s.list)[s.idx] = &linNode{k: "if", a: []*linNode{n}, els: r.Chance(30)}
			return "wrap-if-" + n.k
		}
	case 5: // wrap a statement in a loop (invalidation inside a loop)
		if s, ok := pickStmt(func(n *linNode) bool { return n.k != "let" && n.k != "iflet" }); ok {
			n := (*s.list)[s.idx]
			(*s.list)[s.idx] = &linNode{k: "while", a: []*linNode{n}}
			return "wrap-while-" + n.k
		}
	case 6: // move an invalidation earlier in its list (use after move)
		if s, ok := pickStmt(func(n *linNode) bool { return n.k == "destroy" || n.k == "eat" }); ok && s.idx > 0 {
			n := (*s.list)[s.idx]
			j := r.Intn(s.idx)
			if (*s.list)[j].k == "let" && (*s.list)[j].x == n.x {
				return "none"
			}
			copy((*s.list)[j+1:s.idx+1], (*s.list)[j:s.idx])
			(*s.list)[j] = n
			return "hoist-" + n.k
		}
	case 7: // forget the move operator
		if s, ok := pickStmt(func(n *linNode) bool { return n.k == "eat" }); ok {
			(*s.list)[s.idx].k = "nomove"
			return "nomove"
		}
	case 8: // move an invalidation into the loop that follows it / out of a branch: swap with its successor
		if s, ok := pickStmt(atom); ok && s.idx+1 < len(*s.list) {
			l := *s.list
			if l[s.idx+1].k != "let" {
				l[s.idx], l[s.idx+1] = l[s.idx+1], l[s.idx]
				return "swap-next"
			}
		}
	}
	return "none"
}

func linProgram(r *hx.Rng) (string, string) {
	g := &linGen{r: r, budget: 6 + r.Intn(14), maxDeep: 1 + r.Intn(3)}
	var params []*linVar
	var pnames []string
	sig := "c: Bool"
	for i, np := 0, r.Intn(3); i < np; i++ {
		v := &linVar{name: "p" + strconv.Itoa(i), live: true}
		ty := "@R"
		if r.Chance(30) {
			v.opt = true
			v.name = "o" + strconv.Itoa(i) + "p"
			ty = "@R?"
		}
		params = append(params, v)
		pnames = append(pnames, v.name)
		sig += ", " + v.name + ": " + ty
	}
	g.frames = [][]*linVar{params}
	body, falls := g.block(0, nil)
	if falls {
		for _, v := range params {
			if v.live {
				body = append(body, g.kill(v))
			}
		}
	}
	var muts []string
	if r.Chance(60) {
		for i, k := 0, 1+r.Intn(2); i < k; i++ {
			muts = append(muts, linMutate(r, &body, pnames))
		}
	} else {
		muts = []string{"linear"}
	}
	var sb strings.Builder
	sb.WriteString("fun f(" + sig + ") {\n")
	for _, n := range body {
		n.render(&sb, "  ")
	}
	sb.WriteString("}\n")
	return sb.String(), strings.Join(muts, ",")
}

func genLin(c *hx.Ctx) {
	for i := 0; i < c.N; i++ {
		src, muts := linProgram(c.Rng.Fork())
		c.Emit("lin", "g"+strconv.Itoa(i), muts, strings.ReplaceAll(src, "\n", "\\n"))
	}
}

// ---------------------------------------------------------------------------------------------
// the real parser and checker

var linBase = func() *sema.VariableActivation {
	a := sema.NewVariableActivation(sema.BaseValueActivation)
	a.DeclareValue(stdlib.InterpreterPanicFunction)
	return a
}()

func linCheck(src string) (sx string, errs string) {
	program, err := parser.ParseProgram(nil, []byte(src), parser.Config{})
	if err != nil {
		return "oof:parse", "parse-error"
	}
	if s, err := linsx.Function(program, "f"); err != nil {
		sx = "oof:" + strings.TrimPrefix(err.Error(), "out-of-fragment:")
	} else {
		sx = s
	}
	checker, err := sema.NewChecker(program, common.StringLocation("lin"), nil, &sema.Config{
		AccessCheckMode:            sema.AccessCheckModeNotSpecifiedUnrestricted,
		BaseValueActivationHandler: func(common.Location) *sema.VariableActivation { return linBase },
	})
	if err != nil {
		return sx, "checker-construction-error"
	}
	err = checker.Check()
	if err == nil {
		return sx, "ok"
	}
	var ce *sema.CheckerError
	if !errors.As(err, &ce) {
		return sx, "err-other"
	}
	counts := map[string]int{}
	for _, e := range ce.Errors {
		counts[strings.TrimPrefix(fmt.Sprintf("%T", e), "*sema.")]++
	}
	var ks []string
	for k, n := range counts {
		ks = append(ks, k+"*"+strconv.Itoa(n))
	}
	sort.Strings(ks)
	return sx, strings.Join(ks, ";")
}

func execLin(op []string) string {
	src := linPrelude + strings.ReplaceAll(op[len(op)-1], "\\n", "\n")
	sx, errs := linCheck(src)
	return sx + " @@ " + errs
}
