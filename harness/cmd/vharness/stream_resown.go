package main

// Stream `resown` (property C02): see internal/lang2/gen_res.go; Exec and line format in stream_lang2.go.
// Plus the directed multi-account family (internal/lang2/multi.go): op lines with `gen=multiacct`, whose
// go result is `multi @@ <obs interp> @@ <obs vm>` with full event type ids; the driver judges them with
// the expected event multiset carried in the op line (`expect=`), no model run.

import (
	"strconv"
	"strings"

	"verif/harness/internal/hx"
	"verif/harness/internal/lang2"
)

func execResown(op []string) string {
	for _, f := range op {
		if f == "gen=multiacct" {
			src := strings.ReplaceAll(op[len(op)-1], "\\n", "\n")
			return "multi @@ " + lang2.RunMulti(src, false) + " @@ " + lang2.RunMulti(src, true)
		}
	}
	return execLang2(op)
}

func init() {
	hx.Register(&hx.Stream{Name: "resown", Parallel: true, Exec: execResown, Gen: func(c *hx.Ctx) {
		// the directed multi-account family is small: all of it, every run
		for _, m := range lang2.MultiScenarios() {
			c.Emit("resown", m.Label, "gen=multiacct", "n="+strconv.Itoa(m.N), "expect="+strings.Join(m.Expect, ";"),
				"forms="+strings.Join(m.Forms, ","), l2Src(m.Src))
		}
		for i := 0; i < c.N; i++ {
			p := lang2.GenerateRes(c.Rng.Fork())
			c.Emit("resown", "g"+strconv.Itoa(i), "created="+strconv.Itoa(p.Created), "forms="+strings.Join(p.Forms, ","), l2Src(p.Src))
		}
	}})
}
