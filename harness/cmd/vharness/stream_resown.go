package main

// Stream `resown` (property C02): see internal/lang2/gen_res.go; Exec and line format in stream_lang2.go.

import (
	"strconv"
	"strings"

	"verif/harness/internal/hx"
	"verif/harness/internal/lang2"
)

func init() {
	hx.Register(&hx.Stream{Name: "resown", Parallel: true, Exec: execLang2, Gen: func(c *hx.Ctx) {
		for i := 0; i < c.N; i++ {
			p := lang2.GenerateRes(c.Rng.Fork())
			c.Emit("resown", "g"+strconv.Itoa(i), "created="+strconv.Itoa(p.Created), "forms="+strings.Join(p.Forms, ","), l2Src(p.Src))
		}
	}})
}
