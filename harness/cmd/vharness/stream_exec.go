package main

// Stream `exec` (property C24): short histories of transactions, scripts and contract-function
// invocations run through the real runtime's executors on the recording host
// (internal/host).  The observation is the host-visible trace of every step; the Lean driver runs the
// executor-protocol acceptor (Verif.Model.Exec) on each trace.
//
// op:  exec <engine> { <kind> <nsigners> <limit> <source> }*          (limit = computation limit)
//      memsweep <engine> <nsigners> <setup | -> <source>               (memory-limit sweep, see c24MemSweep)
//      kind = tx | script | call (source = "<address>.<Contract>.<function>")
// obs: trace of step 1 | trace of step 2 | ...      (events separated by single spaces)
//
// State probes (oracle `stale-read-after-commit`, theorem commit_complete): every generated transaction
// and script logs, when it starts, what it reads of each *channel* of the state — the storage paths of
// account 0x1 (`01`) and of 0x2 (`02`), the resources stored there (`r01`, `r02`), the fields of contract 0x1.C (`c01`) — as
// `["@b<channel>", …]`, and every transaction logs the same after its last change of the channel as
// `["@e<channel>", …]`; the host records such a log as `l:@b01:<digest>`.  The driver compares what a
// step reads at its start with what the last committed step had in memory at its end (dictionaries and
// composites are rendered order-independently: their iteration order is not part of the state).

import (
	"fmt"
	"os"
	"strconv"
	"strings"
	"time"

	"github.com/onflow/cadence/common"

	"verif/harness/internal/host"
	"verif/harness/internal/hx"
)

func init() {
	hx.Register(&hx.Stream{Name: "exec", Gen: c24GenStream, Exec: host.Robust(c24Exec, 120*time.Second, 900*time.Second), Parallel: true, Timeout: host.RobustTimeout})
}

// ---- the contract used by the generated histories (single line; statements separated by `;`)

const c24ContractC = `access(all) contract C { ` +
	`access(all) var n: Int  access(all) var d: {String: Int}  access(all) event E(x: Int) ` +
	`access(all) resource R { access(all) var v: Int  init(v: Int) { self.v = v } } ` +
	`access(all) struct S { access(all) let a: Int  access(all) let b: [String]  init(a: Int) { self.a = a; self.b = ["x", "y"] } } ` +
	`access(all) fun mk(_ v: Int): @R { return <- create R(v: v) } ` +
	`access(all) fun inc() { self.n = self.n + 1; emit E(x: self.n) } ` +
	`access(all) fun put(_ k: String, _ v: Int) { self.d[k] = v } ` +
	`access(all) fun boom() { self.n = self.n + 100; panic("boom") } ` +
	`access(all) fun cond(_ x: Int): Int { pre { x > 0: "neg" } post { result > 1: "small" } return x } ` +
	`init() { self.n = 0; self.d = {} } }`

const c24ContractC2 = `access(all) contract C { ` +
	`access(all) var n: Int  access(all) var d: {String: Int}  access(all) event E(x: Int) ` +
	`access(all) resource R { access(all) var v: Int  init(v: Int) { self.v = v } } ` +
	`access(all) struct S { access(all) let a: Int  access(all) let b: [String]  init(a: Int) { self.a = a; self.b = ["x", "y"] } } ` +
	`access(all) fun mk(_ v: Int): @R { return <- create R(v: v + 1) } ` +
	`access(all) fun inc() { self.n = self.n + 2; emit E(x: self.n) } ` +
	`access(all) fun put(_ k: String, _ v: Int) { self.d[k] = v } ` +
	`access(all) fun boom() { panic("boom2") } ` +
	`access(all) fun cond(_ x: Int): Int { pre { x > 0: "neg" } post { result > 1: "small" } return x } ` +
	`init() { self.n = 0; self.d = {} } }`

func c24Quote(s string) string {
	s = strings.ReplaceAll(s, `\`, `\\`)
	s = strings.ReplaceAll(s, `"`, `\"`)
	return `"` + s + `"`
}

type c24Gen struct {
	r        *hx.Rng
	deployed bool
	n        int
}

var c24Paths = []string{"p0", "p1", "p2", "p3"}

func (g *c24Gen) lit() (string, string) {
	switch g.r.Intn(7) {
	case 0:
		return strconv.Itoa(g.r.Intn(1000) - 500), "Int"
	case 1:
		return c24Quote(g.r.Pick([]string{"", "a", "hello", "päth"})), "String"
	case 2:
		k := g.r.Intn(5)
		xs := make([]string, k)
		for i := range xs {
			xs[i] = strconv.Itoa(g.r.Intn(100))
		}
		return "[" + strings.Join(xs, ", ") + "] as [Int]", "[Int]"
	case 3:
		return `{"a": 1, "b": ` + strconv.Itoa(g.r.Intn(9)) + `}`, "{String: Int}"
	case 4:
		// a large array: several slabs
		k := 40 + g.r.Intn(200)
		xs := make([]string, k)
		for i := range xs {
			xs[i] = strconv.Itoa(i * 1000003)
		}
		return "[" + strings.Join(xs, ", ") + "] as [Int]", "[Int]"
	case 5:
		if g.deployed {
			return "C.S(a: " + strconv.Itoa(g.r.Intn(50)) + ")", "C.S"
		}
		return "true", "Bool"
	default:
		return "[[1, 2], [3]] as [[Int]]", "[[Int]]"
	}
}

func (g *c24Gen) ty() string {
	ts := []string{"Int", "String", "[Int]", "{String: Int}", "Bool", "[[Int]]"}
	return g.r.Pick(ts)
}

// one storage / contract statement acting through account reference `acct`
func (g *c24Gen) stmt(acct string, inScript bool) string {
	g.n++
	p := "/storage/" + g.r.Pick(c24Paths)
	id := strconv.Itoa(g.n)
	switch c := g.r.Intn(100); {
	case c < 28:
		l, _ := g.lit()
		return fmt.Sprintf("%s.storage.save(%s, to: %s)", acct, l, p)
	case c < 40:
		return fmt.Sprintf("let v%s = %s.storage.load<%s>(from: %s)", id, acct, g.ty(), p)
	case c < 46:
		return fmt.Sprintf("let v%s = %s.storage.copy<%s>(from: %s)", id, acct, g.ty(), p)
	case c < 54:
		return fmt.Sprintf("if let r%s = %s.storage.borrow<auth(Mutate) &[Int]>(from: %s) { r%s.append(%d) }", id, acct, p, id, g.r.Intn(99))
	case c < 60:
		return fmt.Sprintf("log(%s.storage.type(at: %s))", acct, p)
	case c < 66:
		// overwrite-safe save: remove first
		l, t := g.lit()
		_ = t
		return fmt.Sprintf("let o%s = %s.storage.load<AnyStruct>(from: %s); %s.storage.save(%s, to: %s)", id, acct, p, acct, l, p)
	case c < 72:
		return fmt.Sprintf("log(%d)", g.r.Intn(10))
	case c < 76:
		// the temporary commit (flush) before asking the host for storage figures
		return fmt.Sprintf("let u%s = %s.storage.%s", id, acct, g.r.Pick([]string{"used", "capacity"}))
	case c < 92:
		if !g.deployed {
			return fmt.Sprintf("log(%d)", g.r.Intn(10))
		}
		switch g.r.Intn(6) {
		case 0:
			return "C.inc()"
		case 1:
			return fmt.Sprintf("C.put(%s, %d)", c24Quote(g.r.Pick([]string{"k", "l", "m"})), g.r.Intn(9))
		case 2:
			return fmt.Sprintf("%s.storage.save(<- C.mk(%d), to: /storage/r%d)", acct, g.r.Intn(9), g.r.Intn(2))
		case 3:
			return fmt.Sprintf("if let x%s <- %s.storage.load<@C.R>(from: /storage/r%d) { destroy x%s }", id, acct, g.r.Intn(2), id)
		case 4:
			return fmt.Sprintf("let y%s = C.cond(%d)", id, g.r.Intn(4)-1)
		default:
			return "log(C.n)"
		}
	default:
		if inScript {
			return "log(1)"
		}
		// capability: issue and publish (touches the capability domains)
		return fmt.Sprintf("let cap%s = %s.capabilities.storage.issue<&Int>(%s)", id, acct, p)
	}
}

// c24ProbeFn renders a stored value independently of container iteration order.
const c24ProbeFn = `let pr = fun (_ x: AnyStruct?): AnyStruct? { if let y = x { ` +
	`if let d = y as? {String: Int} { return [d["a"], d["b"], d.length] as [Int?] }; ` +
	`if let i = y as? Int { return i }; if let s = y as? String { return s }; if let t = y as? Bool { return t }; ` +
	`if let xs = y as? [Int] { return xs }; if let xss = y as? [[Int]] { return xss }; ` +
	`return y.getType().identifier }; return nil }`

// probePaths: log what the program reads of the storage paths of `acct` (channel = the account, 01 / 02)
func (g *c24Gen) probePaths(phase, acct, channel string) string {
	var xs []string
	for _, p := range c24Paths {
		xs = append(xs, "pr("+acct+".storage.copy<AnyStruct>(from: /storage/"+p+"))")
	}
	out := `log(["@` + phase + channel + `", ` + strings.Join(xs, ", ") + `] as [AnyStruct?])`
	if g.deployed {
		// the resources stored by the account: their own channel r01 / r02 (the program can only read
		// them while C is imported; the format of a channel never changes within a history)
		var rs []string
		for _, r := range []string{"r0", "r1"} {
			rs = append(rs, acct+".storage.borrow<&C.R>(from: /storage/"+r+")?.v")
		}
		out += `; log(["@` + phase + "r" + channel + `", ` + strings.Join(rs, ", ") + `] as [AnyStruct?])`
	}
	return out
}

// probeContract: log the fields of contract 0x1.C (channel c01)
func (g *c24Gen) probeContract(phase string) string {
	return `log(["@` + phase + `c01", C.n, C.d["k"], C.d["l"], C.d["m"], C.d["e"], C.d.length] as [AnyStruct?])`
}

func (g *c24Gen) failure() string {
	g.n++
	id := strconv.Itoa(g.n)
	switch g.r.Intn(9) {
	case 0:
		return `if 1 > 0 { panic("x") }` // (a bare panic makes the statements after it unreachable: checker error)
	case 1:
		return `assert(false, message: "m")`
	case 2:
		return "let z" + id + " = [1][5]"
	case 3:
		return "let n" + id + ": Int? = nil; let m" + id + " = n" + id + "!"
	case 4:
		return "var i" + id + " = 0; while i" + id + " < 1000000 { i" + id + " = i" + id + " + 1 }"
	case 5:
		return "let q" + id + " = UInt8(255) + UInt8(1)"
	case 6:
		if g.deployed {
			return "C.boom()"
		}
		return `if 1 > 0 { panic("y") }`
	case 7:
		return "let w" + id + " = 1 as AnyStruct as! String"
	default:
		return "let d" + id + " = 1 / (1 - 1)"
	}
}

func (g *c24Gen) block(acct string, inScript bool, k int) []string {
	var out []string
	for i := 0; i < k; i++ {
		out = append(out, g.stmt(acct, inScript))
	}
	return out
}

func c24InsertAt(xs []string, i int, s string) []string {
	out := append([]string{}, xs[:i]...)
	out = append(out, s)
	return append(out, xs[i:]...)
}

const c24AcctAuth = "auth(Storage, Contracts, Capabilities) &Account"

// tx returns (nsigners, source)
func (g *c24Gen) tx(fail bool) (int, string) {
	ns := 1
	if g.r.Chance(25) {
		ns = 2
	}
	imp := ""
	if g.deployed {
		imp = "import C from 0x1  "
	}
	prep := g.block("a", false, 1+g.r.Intn(4))
	if ns == 2 {
		prep = append(prep, g.block("b", false, 1+g.r.Intn(3))...)
	}
	var exe []string
	for i := g.r.Intn(3); i > 0; i-- {
		if g.deployed && g.r.Bool() {
			exe = append(exe, g.r.Pick([]string{"C.inc()", `C.put("e", 3)`, "log(C.n)"}))
		} else {
			exe = append(exe, fmt.Sprintf("log(%d)", g.r.Intn(5)))
		}
	}
	pre, post := "", ""
	if g.r.Chance(30) {
		pre = "true"
	}
	if g.r.Chance(30) {
		post = "true"
	}
	if fail {
		switch g.r.Intn(6) {
		case 0:
			pre = `1 > 2: "pre fails"`
		case 1:
			post = `1 > 2: "post fails"`
		case 2:
			exe = c24InsertAt(exe, g.r.Intn(len(exe)+1), g.failure())
		default:
			prep = c24InsertAt(prep, g.r.Intn(len(prep)+1), g.failure())
		}
	}
	params := "a: " + c24AcctAuth
	if ns == 2 {
		params += ", b: " + c24AcctAuth
	}
	// state probes: at the start of prepare, and after the last change of each channel (the storage
	// paths can only change in prepare, the contract's fields also in execute)
	begin := []string{c24ProbeFn, g.probePaths("b", "a", "01")}
	end := []string{g.probePaths("e", "a", "01")}
	if ns == 2 {
		begin = append(begin, g.probePaths("b", "b", "02"))
		end = append(end, g.probePaths("e", "b", "02"))
	}
	if g.deployed {
		begin = append(begin, g.probeContract("b"))
		exe = append(exe, g.probeContract("e"))
	}
	prep = append(append(begin, prep...), end...)
	src := imp + "transaction { prepare(" + params + ") { " + strings.Join(prep, "; ") + " } "
	if pre != "" {
		src += "pre { " + pre + " } "
	}
	if len(exe) > 0 || g.r.Bool() {
		src += "execute { " + strings.Join(exe, "; ") + " } "
	}
	if post != "" {
		src += "post { " + post + " } "
	}
	return ns, src + "}"
}

func (g *c24Gen) script(fail bool) string {
	imp := ""
	if g.deployed {
		imp = "import C from 0x1  "
	}
	body := []string{"let a = getAuthAccount<" + c24AcctAuth + ">(0x1)"}
	body = append(body, g.block("a", true, 1+g.r.Intn(4))...)
	if fail {
		body = c24InsertAt(body, 1+g.r.Intn(len(body)), g.failure())
	}
	// state probes at the start (a script commits nothing: no end probes)
	probes := []string{"let b = getAuthAccount<" + c24AcctAuth + ">(0x2)", c24ProbeFn, g.probePaths("b", "a", "01"), g.probePaths("b", "b", "02")}
	if g.deployed {
		probes = append(probes, g.probeContract("b"))
	}
	body = append(append([]string{body[0]}, probes...), body[1:]...)
	body = append(body, "return 1")
	return imp + "access(all) fun main(): Int { " + strings.Join(body, "; ") + " }"
}

func (g *c24Gen) limit() string {
	if g.r.Chance(22) {
		return strconv.Itoa(1 + g.r.Intn(160)) // (the state probes at the start take about 60)
	}
	return "100000"
}

func c24GenStream(c *hx.Ctx) {
	c24GenSweeps(c)
	for i := 0; i < c.N; i++ {
		g := &c24Gen{r: c.Rng.Fork()}
		engine := []string{"interp", "vm"}[i%2]
		op := []string{"exec", engine}
		steps := 2 + g.r.Intn(5)
		for s := 0; s < steps; s++ {
			fail := g.r.Chance(40)
			switch {
			case !g.deployed && (s == 0 && g.r.Chance(70) || g.r.Chance(10)):
				// deploy C (possibly failing afterwards: the code update and the deferred contract value write must vanish)
				src := "transaction { prepare(a: " + c24AcctAuth + ") { a.contracts.add(name: \"C\", code: @C1@.utf8)"
				if fail && g.r.Chance(50) {
					src += "; " + g.failure()
				} else {
					fail = false
					g.deployed = true
				}
				src += " } }"
				_ = fail
				op = append(op, "tx", "1", "100000", src)
			case g.deployed && g.r.Chance(8):
				which := g.r.Intn(2)
				var stmt string
				if which == 0 {
					stmt = "a.contracts.update(name: \"C\", code: @C2@.utf8)"
				} else {
					stmt = "let rm = a.contracts.remove(name: \"C\")"
				}
				src := "transaction { prepare(a: " + c24AcctAuth + ") { " + stmt
				if fail {
					src += "; " + g.failure()
				} else if which == 1 {
					g.deployed = false
				}
				src += " } }"
				op = append(op, "tx", "1", "100000", src)
			case g.deployed && g.r.Chance(12):
				fn := g.r.Pick([]string{"inc", "inc", "boom"})
				op = append(op, "call", "0", g.limit(), "0x1.C."+fn)
			case g.r.Chance(30):
				op = append(op, "script", "0", g.limit(), g.script(fail))
			default:
				ns, src := g.tx(fail)
				op = append(op, "tx", strconv.Itoa(ns), g.limit(), src)
			}
		}
		c.Emit(op...)
	}
}

// ---- memory-limit sweeps
//
// op:  memsweep <engine> <nsigners> <setup transaction | -> <transaction>
// The setup transaction (if any) runs without limits and is committed.  The transaction is run once with a
// recording memory gauge (the accumulated amount after every MeterMemory call of the run, the commit's own
// metering included), then again — each time on the same starting state — under a memory limit that is
// crossed exactly at one metering call: at every one of the last 80 calls (the commit window) and at 30
// calls spread over the rest.
// obs: the traces of the limited runs, separated by ` | ` (each judged as one transaction)

var c24SweepFixed = [][3]string{
	{"1", "-", `transaction { prepare(signer: auth(Storage) &Account) { signer.storage.save([[1, 2, 3], [4, 5, 6]], to: /storage/xs); signer.storage.save("hello", to: /storage/s) } }`},
	{"1", `transaction { prepare(signer: auth(Storage) &Account) { signer.storage.save([[1, 2, 3], [4, 5, 6]], to: /storage/xs); signer.storage.save("hello", to: /storage/s) } }`,
		`transaction { prepare(signer: auth(Storage) &Account) { let xs = signer.storage.borrow<auth(Mutate) &[[Int]]>(from: /storage/xs)!; xs.append([7, 8, 9]); let s = signer.storage.load<String>(from: /storage/s)!; signer.storage.save(s.concat(" world"), to: /storage/s2) } }`},
	{"2", "-", `transaction { prepare(a: auth(Storage) &Account, b: auth(Storage) &Account) { a.storage.save({"k": [1, 2]}, to: /storage/d); b.storage.save(5, to: /storage/n) } }`},
	{"1", "-", `transaction { prepare(a: ` + c24AcctAuth + `) { a.contracts.add(name: "C", code: @C1@.utf8) } }`},
	{"1", `transaction { prepare(a: ` + c24AcctAuth + `) { a.contracts.add(name: "C", code: @C1@.utf8) } }`,
		`import C from 0x1  transaction { prepare(a: ` + c24AcctAuth + `) { C.inc(); C.put("k", 3); a.storage.save(<- C.mk(4), to: /storage/r0) } execute { C.inc() } }`},
}

func c24GenSweeps(c *hx.Ctx) {
	for _, engine := range []string{"interp", "vm"} {
		for _, f := range c24SweepFixed {
			c.Emit("memsweep", engine, f[0], f[1], f[2])
		}
	}
	k := 6
	if c.Thorough() {
		k = 60
	}
	for i := 0; i < k; i++ {
		g := &c24Gen{r: c.Rng.Fork()}
		// (without the temporary commit of storage.used / storage.capacity: that is the known finding of the
		// exec operations, not the subject of the sweep)
		noFlush := func() (int, string) {
			for {
				ns, src := g.tx(false)
				if !strings.Contains(src, ".storage.used") && !strings.Contains(src, ".storage.capacity") {
					return ns, src
				}
			}
		}
		_, setup := noFlush()
		ns, src := noFlush()
		if g.r.Bool() {
			setup = "-"
		}
		c.Emit("memsweep", []string{"interp", "vm"}[i%2], strconv.Itoa(max(ns, 1)), setup, src)
	}
}

func c24SweepRun(w *host.World, ns int, src string, useVM bool, memLimit uint64, record bool) (*host.Host, *host.Result) {
	wc := w.Clone()
	wc.Signers = nil
	for j := 0; j < ns; j++ {
		wc.Signers = append(wc.Signers, common.Address{0, 0, 0, 0, 0, 0, 0, byte(j + 1)})
	}
	h := host.New(wc)
	h.MemLimit, h.RecordMem = memLimit, record
	src = strings.ReplaceAll(src, "@C1@", c24Quote(c24ContractC))
	return h, host.Run(h, "tx", src, nil, useVM, 9)
}

func c24MemSweep(op []string) string {
	if len(op) != 5 {
		return "bad-op"
	}
	useVM := op[1] == "vm"
	ns, _ := strconv.Atoi(op[2])
	w := host.NewWorld()
	if op[3] != "-" {
		// as many signers as the setup's prepare block has parameters
		setupSigners := 1
		if i := strings.Index(op[3], "prepare("); i >= 0 {
			if j := strings.Index(op[3][i:], ") {"); j >= 0 {
				setupSigners = strings.Count(op[3][i:i+j], "&Account")
			}
		}
		h, res := c24SweepRun(w, setupSigners, op[3], useVM, 0, false)
		if !res.OK() {
			return "setup-failed"
		}
		w = h.Base // (Run committed the successful setup into the clone)
	}
	clean, res := c24SweepRun(w, ns, op[4], useVM, 0, true)
	if !res.OK() {
		return "clean-failed"
	}
	totals := clean.MemTotals
	pick := map[int]bool{}
	for i := len(totals) - 80; i < len(totals); i++ {
		if i >= 0 {
			pick[i] = true
		}
	}
	for j := 0; j < 30; j++ {
		pick[j*len(totals)/30] = true
	}
	seen := map[uint64]bool{}
	var out []string
	for i := 0; i < len(totals); i++ {
		if !pick[i] || totals[i] == 0 || seen[totals[i]-1] {
			continue
		}
		limit := totals[i] - 1 // the i-th metering call is the first to exceed it
		if limit == 0 {
			continue
		}
		seen[limit] = true
		h, _ := c24SweepRun(w, ns, op[4], useVM, limit, false)
		out = append(out, strings.Join(h.Trace, " "))
	}
	if len(out) == 0 {
		return "no-metering"
	}
	return strings.Join(out, " | ")
}

func c24Exec(op []string) string {
	if len(op) > 0 && op[0] == "memsweep" {
		return c24MemSweep(op)
	}
	if len(op) < 2 || op[0] != "exec" || (len(op)-2)%4 != 0 {
		return "bad-op"
	}
	useVM := op[1] == "vm"
	w := host.NewWorld()
	var out []string
	for i := 2; i+3 < len(op); i += 4 {
		kind, src := op[i], op[i+3]
		src = strings.ReplaceAll(src, "@C1@", c24Quote(c24ContractC))
		src = strings.ReplaceAll(src, "@C2@", c24Quote(c24ContractC2))
		ns, _ := strconv.Atoi(op[i+1])
		limit, _ := strconv.ParseUint(op[i+2], 10, 64)
		if limit == 0 {
			limit = 100000
		}
		w.Signers = nil
		for j := 0; j < ns; j++ {
			w.Signers = append(w.Signers, common.Address{0, 0, 0, 0, 0, 0, 0, byte(j + 1)})
		}
		h := host.New(w)
		h.Limit = limit
		res := host.Run(h, kind, src, nil, useVM, uint64(i))
		if os.Getenv("VERIF_DEBUG") != "" && res.Err != nil {
			cl, k := host.ErrClass(res.Err)
			fmt.Fprintln(os.Stderr, "step", (i-2)/4, cl, k, op[1], kind)
			if cl != "user" || k == "sema.CheckerError" || k == "errors.DefaultUserError" {
				fmt.Fprintln(os.Stderr, "   SRC", src[:min(len(src), 400)], "\n   ERR", res.Err)
			}
		}
		out = append(out, strings.Join(h.Trace, " "))
	}
	return strings.Join(out, " | ")
}
