package main

// Stream `contracts` (property C26): histories of contract lifecycle calls, grouped into
// transactions, run on the real runtime (fresh ledger + code store per history and engine, persisting
// between the transactions of the history; code changes of a failed transaction are discarded by the
// host, as a real host does).  One line = one history:
//
//	contracts <engine> <bits> <history>   =>   <obs tx1>|<obs tx2>|...
//
// history = tx ("|" tx)*      tx = op (";" op)*      op = comma separated tokens:
//
//	ad,a,N,s   contracts.add(name: N, code: source s renamed to N) on account a (0..2)
//	up,a,N,s   contracts.update        tu,a,N,s   contracts.tryUpdate
//	rm,a,N     contracts.remove        gt,a,N     contracts.get (logs the source id of the code)
//	bw,a,N     contracts.borrow<&{V}>(name: N)?.v()           nm,a   contracts.names (sorted)
//	pn         panic
//
// Sources (by id, see ctSources): valid / compatible / incompatible / ill-typed / wrongly named / with an
// enum / contract interface / unparsable / failing initializer / without the field / an enum before, between
// or after other nested declarations (struct, resource, event, struct interface) / nested declarations
// without an enum.  <bits> are facts
// about the sources computed with the real parser, checker and update validator (valid, declared name
// matches, declares enums, is an interface, initializer fails, compatibility matrix); Exec recomputes
// them and answers `bits-mismatch` when the line's bits are stale.
// Every operation logs exactly one line; observation of a transaction = `ok[log;...]` or
// `err:<kind>[logs before the abort]`.

import (
	"fmt"
	"os"
	"sort"
	"strings"
	"sync"
	"time"

	"github.com/onflow/cadence/ast"
	"github.com/onflow/cadence/common"
	"github.com/onflow/cadence/parser"
	"github.com/onflow/cadence/stdlib"

	"verif/harness/internal/acct"
	"verif/harness/internal/cdc"
	"verif/harness/internal/hx"
)

func init() {
	hx.Register(&hx.Stream{Name: "contracts", Gen: genContracts, Exec: execContracts, Parallel: true, Timeout: 120 * time.Second})
}

const ctInterfaceV = `access(all) contract interface V { access(all) fun v(): Int }`

// %[1]s = contract name
var ctSources = []string{
	/*0 v1*/ `/*s0*/ import V from 0x4
access(all) contract %[1]s: V { access(all) let x: Int; init() { self.x = 1 } access(all) fun v(): Int { return 10 } }`,
	/*1 v2*/ `/*s1*/ import V from 0x4
access(all) contract %[1]s: V { access(all) let x: Int; init() { self.x = 2 } access(all) fun v(): Int { return 11 } access(all) fun extra() {} }`,
	/*2 field+*/ `/*s2*/ import V from 0x4
access(all) contract %[1]s: V { access(all) let x: Int; access(all) let y: Int; init() { self.x = 3; self.y = 3 } access(all) fun v(): Int { return 12 } }`,
	/*3 typeerr*/ `/*s3*/ import V from 0x4
access(all) contract %[1]s: V { access(all) let x: Int; init() { self.x = 1 } access(all) fun v(): Int { return "no" } }`,
	/*4 wrongname*/ `/*s4*/ import V from 0x4
access(all) contract Z%[1]s: V { access(all) let x: Int; init() { self.x = 1 } access(all) fun v(): Int { return 14 } }`,
	/*5 enum*/ `/*s5*/ import V from 0x4
access(all) contract %[1]s: V { access(all) enum E: UInt8 { access(all) case a } access(all) let x: Int; init() { self.x = 5 } access(all) fun v(): Int { return 15 } }`,
	/*6 iface*/ `/*s6*/ access(all) contract interface %[1]s { access(all) fun w(): Int }`,
	/*7 parseerr*/ `/*s7*/ access(all) contract %[1]s { `,
	/*8 initpanic*/ `/*s8*/ import V from 0x4
access(all) contract %[1]s: V { access(all) let x: Int; init() { self.x = 8; panic("init") } access(all) fun v(): Int { return 18 } }`,
	/*9 nofield*/ `/*s9*/ import V from 0x4
access(all) contract %[1]s: V { init() {} access(all) fun v(): Int { return 19 } }`,
	// several nested declarations, the enum first / in the middle / last / absent (ids from 10 are written as
	// letters so that the marker keeps its length)
	/*10 enum, struct*/ `/*sa*/ import V from 0x4
access(all) contract %[1]s: V { access(all) enum E: UInt8 { access(all) case a } access(all) struct P {} access(all) let x: Int; init() { self.x = 10 } access(all) fun v(): Int { return 20 } }`,
	/*11 enum, event*/ `/*sb*/ import V from 0x4
access(all) contract %[1]s: V { access(all) enum E: UInt8 { access(all) case a } access(all) event Ev(n: Int) access(all) let x: Int; init() { self.x = 11 } access(all) fun v(): Int { return 21 } }`,
	/*12 resource, enum, resource, struct*/ `/*sc*/ import V from 0x4
access(all) contract %[1]s: V { access(all) resource Q {} access(all) enum E: UInt8 { access(all) case a } access(all) resource Q2 {} access(all) struct P {} access(all) let x: Int; init() { self.x = 12 } access(all) fun v(): Int { return 22 } }`,
	/*13 struct, event, enum*/ `/*sd*/ import V from 0x4
access(all) contract %[1]s: V { access(all) struct P {} access(all) event Ev(n: Int) access(all) enum E: UInt8 { access(all) case a } access(all) let x: Int; init() { self.x = 13 } access(all) fun v(): Int { return 23 } }`,
	/*14 struct, resource, event, no enum*/ `/*se*/ import V from 0x4
access(all) contract %[1]s: V { access(all) struct P {} access(all) resource Q {} access(all) event Ev(n: Int) access(all) let x: Int; init() { self.x = 14 } access(all) fun v(): Int { return 24 } }`,
	/*15 two enums around a struct interface and a struct*/ `/*sf*/ import V from 0x4
access(all) contract %[1]s: V { access(all) enum E: UInt8 { access(all) case a } access(all) struct interface PI {} access(all) enum F: UInt8 { access(all) case b } access(all) struct P: PI {} access(all) let x: Int; init() { self.x = 15 } access(all) fun v(): Int { return 25 } }`,
}

var ctNames = []string{"A", "B", "C"}

func ctSource(s int, name string) string { return fmt.Sprintf(ctSources[s], name) }

func ctContainsEnums(d ast.Declaration) bool {
	if d.DeclarationKind() == common.DeclarationKindEnum {
		return true
	}
	for _, n := range d.DeclarationMembers().Composites() {
		if ctContainsEnums(n) {
			return true
		}
	}
	return false
}

func ctNewEnv(useVM bool) (*acct.Env, string) {
	env := acct.NewEnv()
	a4 := common.MustBytesToAddress([]byte{4})
	env.Signers = []common.Address{a4}
	dep := env.Tx(fmt.Sprintf(`transaction { prepare(signer: auth(Contracts) &Account) { signer.contracts.add(name: "V", code: "%x".decodeHex()) } }`, ctInterfaceV), useVM)
	if dep.Class != "none" {
		return nil, "deploy-failed:" + dep.Class + ":" + dep.Kind
	}
	env.Signers = []common.Address{common.MustBytesToAddress([]byte{1}), common.MustBytesToAddress([]byte{2}), common.MustBytesToAddress([]byte{3})}
	return env, ""
}

var ctBitsOnce sync.Once
var ctBitsVal string

// facts about the sources, from the real parser / checker / validator / a scratch deployment
func ctBits() string {
	ctBitsOnce.Do(func() {
		n := len(ctSources)
		valid, nameOk, enum, iface, initFail := make([]byte, n), make([]byte, n), make([]byte, n), make([]byte, n), make([]byte, n)
		progs := make([]*ast.Program, n)
		b := func(x bool) byte {
			if x {
				return '1'
			}
			return '0'
		}
		for s := 0; s < n; s++ {
			src := ctSource(s, "A")
			p, err := parser.ParseProgram(nil, []byte(src), parser.Config{})
			if err != nil {
				p = nil
			}
			progs[s] = p
			var root ast.Declaration
			if p != nil {
				if d := p.SoleContractDeclaration(); d != nil {
					root = d
				} else if d := p.SoleContractInterfaceDeclaration(); d != nil {
					root = d
					iface[s] = '1'
				}
			}
			if iface[s] == 0 {
				iface[s] = '0'
			}
			nameOk[s] = b(root != nil && root.DeclarationIdentifier().Identifier == "A")
			enum[s] = b(root != nil && ctContainsEnums(root))
			// valid: accepted by the real checker (through a scratch deployment under the declared name)
			env, _ := ctNewEnv(false)
			env.Signers = env.Signers[:1]
			declared := "A"
			if root != nil {
				declared = root.DeclarationIdentifier().Identifier
			}
			out := env.Tx(fmt.Sprintf(`transaction { prepare(a: auth(Contracts) &Account) { a.contracts.add(name: "%s", code: "%x".decodeHex()) } }`, declared, src), false)
			switch {
			case out.Class == "none":
				valid[s], initFail[s] = '1', '0'
			case out.Kind == "stdlib.PanicError":
				valid[s], initFail[s] = '1', '1'
			default:
				valid[s], initFail[s] = '0', '0'
			}
		}
		rows := make([]string, n)
		for i := 0; i < n; i++ {
			row := make([]byte, n)
			for j := 0; j < n; j++ {
				row[j] = '0'
				if progs[i] != nil && progs[j] != nil {
					v := stdlib.NewContractUpdateValidator(
						common.AddressLocation{Address: common.MustBytesToAddress([]byte{1}), Name: "A"}, "A",
						ctNamesProvider{}, progs[i], progs[j])
					if v.Validate() == nil {
						row[j] = '1'
					}
				}
			}
			rows[i] = string(row)
		}
		ctBitsVal = fmt.Sprintf("valid:%s;name:%s;enum:%s;iface:%s;initfail:%s;compat:%s",
			valid, nameOk, enum, iface, initFail, strings.Join(rows, "/"))
	})
	return ctBitsVal
}

type ctNamesProvider struct{}

func (ctNamesProvider) GetAccountContractNames(common.Address) ([]string, error) {
	return []string{"V"}, nil
}

func ctTxSource(tx string) string {
	var b strings.Builder
	b.WriteString("import V from 0x4\ntransaction {\n prepare(a0: auth(Contracts) &Account, a1: auth(Contracts) &Account, a2: auth(Contracts) &Account) {\n")
	for _, op := range strings.Split(tx, ";") {
		f := strings.Split(op, ",")
		acc := func() string { return "a" + f[1] + ".contracts" }
		code := func() string {
			var s int
			fmt.Sscan(f[3], &s)
			return fmt.Sprintf(`"%x".decodeHex()`, ctSource(s, f[2]))
		}
		switch f[0] {
		case "ad":
			fmt.Fprintf(&b, "  %s.add(name: \"%s\", code: %s)\n  log(\"ad\")\n", acc(), f[2], code())
		case "up":
			fmt.Fprintf(&b, "  %s.update(name: \"%s\", code: %s)\n  log(\"up\")\n", acc(), f[2], code())
		case "tu":
			fmt.Fprintf(&b, "  log(%s.tryUpdate(name: \"%s\", code: %s).deployedContract != nil)\n", acc(), f[2], code())
		case "rm":
			fmt.Fprintf(&b, "  log(%s.remove(name: \"%s\") != nil)\n", acc(), f[2])
		case "gt":
			fmt.Fprintf(&b, "  if let c = %s.get(name: \"%s\") { log(String.fromUTF8(c.code.slice(from: 0, upTo: 6))!) } else { log(\"none\") }\n", acc(), f[2])
		case "bw":
			fmt.Fprintf(&b, "  log(%s.borrow<&{V}>(name: \"%s\")?.v())\n", acc(), f[2])
		case "nm":
			fmt.Fprintf(&b, "  log(%s.names)\n", acc())
		case "pn":
			b.WriteString("  if a0.address == 0x1 { panic(\"abort\") }\n")
		default:
			b.WriteString("  BAD OP\n")
		}
	}
	b.WriteString(" }\n}\n")
	return b.String()
}

func ctErrKind(out *cdc.Outcome) string {
	switch out.Kind {
	case "stdlib.PanicError":
		return "panic"
	case "stdlib.ContractRemovalError":
		return "removal"
	case "errors.DefaultUserError":
		return "default"
	}
	if out.Class == "user" {
		// everything the checker / parser / validator says about a deployed source
		return "invalid"
	}
	return out.Class + ":" + out.Kind
}

func execContracts(op []string) string {
	if len(op) != 4 {
		return "bad-op"
	}
	if op[2] != ctBits() {
		return "bits-mismatch:" + ctBits()
	}
	useVM := op[1] == "vm"
	env, msg := ctNewEnv(useVM)
	if env == nil {
		return msg
	}
	var obs []string
	for _, tx := range strings.Split(op[3], "|") {
		src := ctTxSource(tx)
		out := env.Tx(src, useVM)
		logs := make([]string, len(out.Logs))
		for i, l := range out.Logs {
			logs[i] = strings.NewReplacer(";", "?", "|", "?", "\"", "").Replace(l)
		}
		head := "ok"
		if out.Class != "none" {
			head = "err:" + ctErrKind(out)
			if os.Getenv("VERIF_DEBUG") != "" {
				fmt.Fprintln(os.Stderr, "TX ERROR:", out.Kind, cdc.ErrString(out.Err))
			}
		}
		obs = append(obs, head+"["+strings.Join(logs, ";")+"]")
	}
	return strings.Join(obs, "|")
}

// ---------------------------------------------------------------------------------------------

type ctGen struct {
	r    *hx.Rng
	code map[[2]int]int // generator's guess of deployed source (bias only); -1 = none
}

func (g *ctGen) key(preferDeployed bool) (int, int) {
	r := g.r
	if preferDeployed && len(g.code) > 0 && r.Chance(75) {
		keys := make([][2]int, 0, len(g.code))
		for k := range g.code {
			keys = append(keys, k)
		}
		sort.Slice(keys, func(i, j int) bool { return keys[i][0]*10+keys[i][1] < keys[j][0]*10+keys[j][1] })
		k := keys[r.Intn(len(keys))]
		return k[0], k[1]
	}
	return r.Intn(3), r.Intn(3)
}

func (g *ctGen) src(goodBias int) int {
	r := g.r
	if r.Chance(goodBias) {
		return []int{0, 1, 5, 9, 0, 1, 10, 11, 12, 13, 14, 15}[r.Intn(12)]
	}
	return r.Intn(len(ctSources))
}

func (g *ctGen) op(mutating *bool) string {
	r := g.r
	switch x := r.Intn(100); {
	case x < 22:
		a, n := g.key(false)
		if _, ok := g.code[[2]int{a, n}]; ok && r.Chance(70) {
			a, n = r.Intn(3), r.Intn(3)
		}
		s := g.src(65)
		if _, ok := g.code[[2]int{a, n}]; !ok && (s == 0 || s == 1 || s == 2 || s == 5 || s == 6 || s >= 9) {
			g.code[[2]int{a, n}] = s
		}
		*mutating = true
		return fmt.Sprintf("ad,%d,%s,%d", a, ctNames[n], s)
	case x < 36:
		a, n := g.key(true)
		*mutating = true
		return fmt.Sprintf("up,%d,%s,%d", a, ctNames[n], g.src(60))
	case x < 50:
		a, n := g.key(true)
		*mutating = true
		return fmt.Sprintf("tu,%d,%s,%d", a, ctNames[n], g.src(45))
	case x < 60:
		a, n := g.key(true)
		delete(g.code, [2]int{a, n})
		*mutating = true
		return fmt.Sprintf("rm,%d,%s", a, ctNames[n])
	case x < 74:
		a, n := g.key(true)
		return fmt.Sprintf("gt,%d,%s", a, ctNames[n])
	case x < 86:
		a, n := g.key(true)
		if *mutating { // borrow is observed in transactions that do not change contracts (see the machine)
			return fmt.Sprintf("gt,%d,%s", a, ctNames[n])
		}
		return fmt.Sprintf("bw,%d,%s", a, ctNames[n])
	case x < 97:
		return fmt.Sprintf("nm,%d", r.Intn(3))
	default:
		return "pn"
	}
}

func genContracts(c *hx.Ctx) {
	r := c.Rng
	bits := ctBits()
	emit := func(h string) {
		for _, e := range []string{"interp", "vm"} {
			c.Emit("contracts", e, bits, h)
		}
	}
	// every source: add, observe, update with every source, observe, remove, observe
	for s := range ctSources {
		emit(fmt.Sprintf("ad,0,A,%d|gt,0,A;bw,0,A;nm,0|rm,0,A;nm,0|gt,0,A;bw,0,A", s))
	}
	for s := range ctSources {
		for t := range ctSources {
			if c.Thorough() || (s+t)%2 == 0 || s == 0 {
				emit(fmt.Sprintf("ad,1,B,%d|tu,1,B,%d;gt,1,B|bw,1,B|up,1,B,%d;gt,1,B|gt,1,B;bw,1,B;nm,1", s, t, t))
			}
		}
	}
	for i := 0; i < c.N; i++ {
		g := &ctGen{r: r, code: map[[2]int]int{}}
		ntx := 2 + r.Intn(7)
		txs := make([]string, ntx)
		for j := range txs {
			nops := 1 + r.Intn(5)
			ops := make([]string, nops)
			mutating := false
			for k := range ops {
				ops[k] = g.op(&mutating)
			}
			txs[j] = strings.Join(ops, ";")
		}
		emit(strings.Join(txs, "|"))
	}
}
