package main

// Generator of small, well-typed Cadence programs for the C35 streams (compilation determinism and
// instruction sequences of compiled code).  The shapes are aimed at the places where the compiler
// builds tables from maps or sets: interfaces with several default functions inherited by several
// composites, many globals / constants / types, closures with upvalues, nested composites.

import (
	"fmt"
	"strings"

	"verif/harness/internal/hx"
)

func shuffle(r *hx.Rng, xs []string) []string {
	out := append([]string{}, xs...)
	for i := len(out) - 1; i > 0; i-- {
		j := r.Intn(i + 1)
		out[i], out[j] = out[j], out[i]
	}
	return out
}

func genCdcProgram(r *hx.Rng) string {
	var sb strings.Builder
	w := func(format string, a ...any) { fmt.Fprintf(&sb, format+"\n", a...) }
	names := shuffle(r, []string{"alpha", "beta", "gamma", "delta", "eps", "zeta", "eta", "theta", "iota", "kappa", "lam", "mu"})

	// interfaces with default functions
	nIface := 1 + r.Intn(3)
	var ifaces []string
	fnIdx := 0
	for i := 0; i < nIface; i++ {
		in := fmt.Sprintf("I%d", i)
		ifaces = append(ifaces, in)
		w("struct interface %s {", in)
		nf := 1 + r.Intn(5)
		for j := 0; j < nf && fnIdx < len(names); j++ {
			if r.Chance(25) {
				w("    fun %s(): Int", names[fnIdx]+"Req")
			}
			w("    fun %s(): Int { return %d }", names[fnIdx], r.Intn(100000))
			fnIdx++
		}
		if r.Chance(40) {
			w("    fun cond%d(_ x: Int): Int { pre { x >= 0: \"neg\" } post { result >= x } return x + %d }", i, r.Intn(5))
		}
		w("}")
	}
	// structs conforming to random subsets
	nStruct := 1 + r.Intn(3)
	var structs []string
	for i := 0; i < nStruct; i++ {
		sn := fmt.Sprintf("S%d", i)
		structs = append(structs, sn)
		conf := shuffle(r, ifaces)[:1+r.Intn(len(ifaces))]
		w("struct %s: %s {", sn, strings.Join(conf, ", "))
		w("    var f: Int")
		w("    let g: String")
		w("    init(_ f: Int) { self.f = f; self.g = \"g%d\" }", i)
		// required functions of the interfaces it conforms to
		for k := 0; k < fnIdx; k++ {
			// a requirement `<name>Req` may or may not exist; declaring an extra function is harmless
			if r.Chance(100) {
				w("    fun %sReq(): Int { return self.f + %d }", names[k], k)
			}
		}
		if r.Chance(50) {
			w("    fun bump(_ d: Int): Int { self.f = self.f + d; return self.f }")
		}
		w("}")
	}
	// a resource with nested resource field
	if r.Chance(70) {
		w("resource R { var n: Int; init(_ n: Int) { self.n = n }  fun inc() { self.n = self.n + 1 } }")
		w("resource Box { var r: @R; var rs: @[R]; init() { self.r <- create R(%d); self.rs <- [] }", r.Intn(9))
		w("    fun add() { self.rs.append(<- create R(self.rs.length)) }")
		w("    fun total(): Int { var t = self.r.n; for i in [0, 1, 2] { if i < self.rs.length { t = t + self.rs[i].n } }; return t } }")
		w("fun useBox(): Int { let b <- create Box(); b.add(); b.add(); b.r.inc(); let t = b.total(); destroy b; return t }")
	}
	if r.Chance(50) {
		w("enum Color: UInt8 { case red; case green; case blue }")
		w("fun colorName(_ c: Color): String { switch c { case Color.red: return \"r\"; case Color.green: return \"g\"; default: return \"b\" } }")
	}
	// globals
	nGlob := r.Intn(4)
	for i := 0; i < nGlob; i++ {
		w("let glob%d: Int = %d", i, r.Intn(1000))
	}
	// closures with upvalues
	if r.Chance(70) {
		w("fun makeCounter(_ start: Int): fun(): Int { var c = start; var d = %d; return fun(): Int { c = c + d; return c } }", 1+r.Intn(3))
		w("fun twice(_ f: fun(): Int): Int { f(); return f() }")
	}
	// arithmetic / control flow
	ops := []string{"+", "-", "*", "/", "%", "&", "|", "^", "<<", ">>"}
	nFun := 1 + r.Intn(4)
	for i := 0; i < nFun; i++ {
		w("fun calc%d(_ a: Int, _ b: Int): Int {", i)
		w("    var acc = a %s (b + 1)", ops[r.Intn(5)])
		w("    var i = 0")
		w("    while i < %d { acc = acc %s (i + %d); i = i + 1; if acc > 100000 { break }; if acc < -100000 { continue } }", 1+r.Intn(5), ops[r.Intn(len(ops)-2)], 1+r.Intn(9))
		if r.Chance(50) {
			w("    let xs: [Int] = [a, b, acc]")
			w("    for x in xs { acc = acc + x }")
			w("    let d: {String: Int} = {\"a\": a, \"b\": b}")
			w("    acc = acc + (d[\"a\"] ?? %d)", r.Intn(7))
		}
		if r.Chance(50) {
			w("    let o: Int? = a > b ? a : nil")
			w("    if let v = o { acc = acc + v } else { acc = acc - 1 }")
			w("    let anyv: AnyStruct = acc")
			w("    acc = (anyv as? Int) ?? 0")
		}
		if r.Chance(40) {
			w("    let s = \"v=\\(acc) and \\(a)\"")
			w("    acc = acc + s.length")
		}
		w("    return acc")
		w("}")
	}
	// main, referring to the declarations in random order
	w("fun main(): Int {")
	w("    var total = 0")
	var stmts []string
	for i, sn := range structs {
		v := fmt.Sprintf("s%d", i)
		stmts = append(stmts, fmt.Sprintf("let %s = %s(%d); total = total + %s.f + %s.g.length", v, sn, r.Intn(50), v, v))
		stmts = append(stmts, fmt.Sprintf("let r%d = &%s(%d) as &%s; total = total + r%d.f", i, sn, i, sn, i))
	}
	for i := 0; i < nFun; i++ {
		stmts = append(stmts, fmt.Sprintf("total = total + calc%d(%d, %d)", i, r.Intn(20), r.Intn(20)))
	}
	for i := 0; i < nGlob; i++ {
		stmts = append(stmts, fmt.Sprintf("total = total + glob%d", i))
	}
	if strings.Contains(sb.String(), "fun makeCounter") {
		stmts = append(stmts, "total = total + twice(makeCounter(total))")
	}
	if strings.Contains(sb.String(), "fun useBox") {
		stmts = append(stmts, "total = total + useBox()")
	}
	if strings.Contains(sb.String(), "enum Color") {
		stmts = append(stmts, "total = total + colorName(Color.green).length")
	}
	for _, s := range shuffle(r, stmts) {
		w("    %s", s)
	}
	w("    return total")
	w("}")
	return sb.String()
}

// genCdcMulti generates a multi-program scenario for `compiledet multi`: (name, source) pairs in
// dependency order, all at address 0x1.  Leaf contracts (most with an enum, i.e. global variables,
// and a view function), one or two interface programs that import several leaves — mostly by separate
// import statements, in random order — and whose interface functions carry pre / post conditions
// using the imported contracts, and a target program (last) whose concrete types inherit those
// conditions while importing only the interface programs (so the leaves become transitive imports
// of the target).  `directed` = exactly the minimal shape: two enum contracts, one interface program,
// separate imports, a contract as target.
func genCdcMulti(r *hx.Rng, directed bool) []string {
	var out []string
	src := func(name string, lines []string) { out = append(out, name, strings.Join(lines, "\n")) }

	type leaf struct {
		name, enum string
		cases      int
		hasEnum    bool
	}
	names := shuffle(r, []string{"A", "B", "K", "M", "Q", "Z"})
	enums := shuffle(r, []string{"Color", "Direction", "Mode", "Level", "Kind", "Phase"})
	nLeaf := 2
	if !directed {
		nLeaf = 2 + r.Intn(3)
	}
	var leaves []leaf
	for i := 0; i < nLeaf; i++ {
		l := leaf{name: names[i], enum: enums[i], cases: 2 + r.Intn(3), hasEnum: directed || r.Chance(80)}
		leaves = append(leaves, l)
		lines := []string{"contract " + l.name + " {"}
		if l.hasEnum {
			lines = append(lines, "    enum "+l.enum+": UInt8 {")
			for c := 0; c < l.cases; c++ {
				lines = append(lines, fmt.Sprintf("        case c%d", c))
			}
			lines = append(lines, "    }")
			if r.Chance(50) {
				lines = append(lines, fmt.Sprintf("    view fun pick(): %s { return %s.c%d }", l.enum, l.enum, r.Intn(l.cases)))
			}
		}
		lines = append(lines, fmt.Sprintf("    view fun check(_ n: Int): Bool { return n >= %d }", r.Intn(9)-4))
		if r.Chance(40) {
			lines = append(lines, fmt.Sprintf("    struct Box { let v: Int; init() { self.v = %d } }", r.Intn(100)))
		}
		lines = append(lines, "}")
		src(l.name, lines)
	}

	// conditions over a set of leaves
	conds := func(ls []leaf, arg string) []string {
		var cs []string
		for _, l := range ls {
			if r.Chance(80) {
				cs = append(cs, fmt.Sprintf("%s.check(%s)", l.name, arg))
			}
			if l.hasEnum && r.Chance(80) {
				cs = append(cs, fmt.Sprintf("%s.%s.c%d.rawValue < 200", l.name, l.enum, r.Intn(l.cases)))
			}
		}
		for i := 0; i+1 < len(ls); i++ {
			a, b := ls[i], ls[i+1]
			if a.hasEnum && b.hasEnum && r.Chance(70) {
				cs = append(cs, fmt.Sprintf("%s.%s.c1.rawValue == %s.%s.c1.rawValue", a.name, a.enum, b.name, b.enum))
			}
		}
		if len(cs) == 0 {
			cs = append(cs, fmt.Sprintf("%s.check(%s)", ls[0].name, arg))
		}
		return shuffle(r, cs)
	}

	nIface := 1
	if !directed && r.Chance(40) {
		nIface = 2
	}
	type iface struct {
		name     string
		hasVault bool
	}
	var ifaces []iface
	for i := 0; i < nIface; i++ {
		in := iface{name: fmt.Sprintf("I%d", i)}
		// the leaves this interface program imports (at least two)
		var used []leaf
		for _, idx := range shuffle(r, []string{"0", "1", "2", "3"}[:nLeaf]) {
			l := leaves[int(idx[0]-'0')]
			if directed || len(used) < 2 || r.Chance(60) {
				used = append(used, l)
			}
		}
		var lines []string
		if !directed && r.Chance(20) {
			var ns []string
			for _, l := range used {
				ns = append(ns, l.name)
			}
			lines = append(lines, "import "+strings.Join(ns, ", ")+" from 0x1")
		} else {
			for _, l := range used {
				lines = append(lines, "import "+l.name+" from 0x1")
			}
		}
		lines = append(lines, "contract interface "+in.name+" {")
		lines = append(lines, "    struct interface Checked {")
		lines = append(lines, "        fun get(_ n: Int): Int {")
		lines = append(lines, "            pre {")
		for _, c := range conds(used, "n") {
			lines = append(lines, "                "+c)
		}
		lines = append(lines, "            }")
		if !directed && r.Chance(50) {
			lines = append(lines, "            post {")
			for _, c := range conds(used, "result") {
				lines = append(lines, "                "+c)
			}
			lines = append(lines, "            }")
		}
		lines = append(lines, "        }")
		lines = append(lines, "    }")
		if !directed && r.Chance(50) {
			in.hasVault = true
			lines = append(lines, "    resource interface Vault {")
			lines = append(lines, "        fun take(_ n: Int): Int {")
			lines = append(lines, "            post {")
			for _, c := range conds(used, "n") {
				lines = append(lines, "                "+c)
			}
			lines = append(lines, "            }")
			lines = append(lines, "        }")
			lines = append(lines, "    }")
		}
		lines = append(lines, "}")
		src(in.name, lines)
		ifaces = append(ifaces, in)
	}

	// the target
	var lines []string
	for _, in := range shuffle(r, []string{"I0", "I1"}[:nIface]) {
		lines = append(lines, "import "+in+" from 0x1")
	}
	if !directed && r.Chance(30) {
		// an own import of one leaf: own imports are registered first
		lines = append(lines, "import "+leaves[r.Intn(nLeaf)].name+" from 0x1")
	}
	var confs []string
	for _, in := range ifaces {
		confs = append(confs, in.name+".Checked")
	}
	asScript := !directed && r.Chance(25)
	indent := "    "
	if asScript {
		indent = ""
	} else {
		lines = append(lines, "contract D {")
	}
	lines = append(lines, indent+"struct Impl: "+strings.Join(shuffle(r, confs), ", ")+" {")
	lines = append(lines, indent+fmt.Sprintf("    fun get(_ n: Int): Int { return n + %d }", 1+r.Intn(9)))
	lines = append(lines, indent+"}")
	for _, in := range ifaces {
		if in.hasVault {
			lines = append(lines, indent+"resource V"+in.name+": "+in.name+".Vault {")
			lines = append(lines, indent+"    fun take(_ n: Int): Int { return n }")
			lines = append(lines, indent+"}")
		}
	}
	if asScript {
		lines = append(lines, "fun main(): Int { return Impl().get(3) }")
	} else {
		lines = append(lines, "    fun run(): Int { return Impl().get(3) }")
		lines = append(lines, "}")
	}
	src("D", lines)
	return out
}
