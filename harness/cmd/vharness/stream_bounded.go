package main

// Stream `bounded` (property C30).  Every operation runs in a fresh child process (crash isolation,
// address-space rlimit) under a wall-clock bound enforced by the parent.
//
//	run <engine> <comp limit> <mem limit> <family> <kind> <signers> <src>
//	    one program under a computation limit and a memory limit (recording gauges of meterx);
//	    obs: <status:class:kind> ;; comp=<used> mem=<used> loops=<n> calls=<n>
//	depth <configured limit> <D> [<shape>]
//	    `f(D)` recursing D deep under runtime.Config.StackDepthLimit (0 = default), both engines;
//	    shape = fun (default) | method | closure | mutual | tx (closure recursion inside prepare)
//	    | sinit (struct initializer constructing the struct) | rinit (resource initializer creating the
//	    resource) | rnest (the same, each level keeps its child; the chain is destroyed at the end)
//	    | initm (initializer -> method -> initializer) | rinitev (rinit with a ResourceDestroyed event);
//	    obs: interp=<outcome> vm=<outcome>
//	seq <configured limit> <K> <form> <base>
//	    no recursion in the loop: K *sequential* invocations of one form (bdSeqForms), made by a loop that runs
//	    `base` Cadence invocations below the entry point (base 0 = in the entry point itself), under
//	    runtime.Config.StackDepthLimit, both engines; obs: interp=<outcome> vm=<outcome>
//	hang           the child exceeded the wall-clock bound without any limit error, and did so again when
//	               the operation was re-run alone with 3x the bound (see bdExec)
//	crash:<line>   the child died (Go stack overflow, out of memory, fatal error)

import (
	"bufio"
	"bytes"
	"context"
	"fmt"
	"os"
	"os/exec"
	"strconv"
	"strings"
	"sync"
	"syscall"
	"time"

	"verif/harness/internal/hx"
	"verif/harness/internal/meterx"
)

func init() {
	if os.Getenv("VERIF_BOUNDED_CHILD") == "1" {
		bdChild()
		os.Exit(0)
	}
	hx.Register(&hx.Stream{Name: "bounded", Gen: bdGen, Exec: bdExec, Parallel: true, Timeout: 6 * time.Hour, Setup: bdCalibrate}) // the wall-clock bounds are bdExec's own
}

// bdWallBound is the wall-clock bound of one child.  It is calibrated against the current load of the
// machine: a reference run (endless loop under computation limit 100000) is timed first, and the bound is
// 40x the time that reference would need for the largest computation limit in use, at least 240 s.
var bdRef = 6 * time.Second // time of the reference run (calibrated in Setup)
var bdCalibrating bool

func bdCalibrate() {
	ref := []string{"run", "interp", "100000", "100000000", "calibration", "script", "0",
		"access(all) fun main(): Int { var acc = 0\nwhile true { acc = acc + 1 }\nreturn acc }"}
	t0 := time.Now()
	bdCalibrating = true
	_ = bdExec(ref)
	bdCalibrating = false
	bdRef = time.Since(t0)
}

// bdBound: the wall-clock bound for an operation with computation limit `comp`.
func bdBound(comp uint64) time.Duration {
	if bdCalibrating {
		return 900 * time.Second
	}
	if ms, err := strconv.Atoi(os.Getenv("VERIF_BOUNDED_FIRST_BOUND_MS")); err == nil && ms > 0 {
		// test hook for the re-confirmation path: an artificially small first bound
		return time.Duration(ms) * time.Millisecond
	}
	if comp < 100_000 {
		comp = 100_000
	}
	b := time.Duration(float64(bdRef) * float64(comp) / 100000.0 * 40)
	if b < 240*time.Second {
		b = 240 * time.Second
	}
	if b > 2700*time.Second {
		b = 2700 * time.Second
	}
	return b
}

var bdMaxComp uint64 = 300_000

type bdFamily struct {
	name string
	gen  func(r *hx.Rng) meterx.Prog
}

func bdScript(decls, body string) meterx.Prog {
	return meterx.Prog{Kind: "script", Src: decls + "\naccess(all) fun main(): Int { var acc = 0\n" + body + "\nreturn acc }"}
}

var bdFamilies = []bdFamily{
	{"while-true-empty", func(r *hx.Rng) meterx.Prog { return bdScript("", "while true { }") }},
	{"while-true-body", func(r *hx.Rng) meterx.Prog { return bdScript("", "while true { acc = acc + 1 }") }},
	{"while-continue", func(r *hx.Rng) meterx.Prog { return bdScript("", "while acc >= 0 { continue }") }},
	{"nested-while", func(r *hx.Rng) meterx.Prog {
		return bdScript("", "while true { var j = 0; while j < 10 { j = j + 1 } }")
	}},
	{"for-range-huge", func(r *hx.Rng) meterx.Prog {
		return bdScript("", fmt.Sprintf("for i in InclusiveRange<%s>(0, 100) { var k = 0; while true { k = k + 1 } }", meterx.IntTypes[r.Intn(len(meterx.IntTypes))]))
	}},
	{"for-range-bigint", func(r *hx.Rng) meterx.Prog {
		return bdScript("", "for i in InclusiveRange<UInt256>(0, 1 << 200) { acc = acc + 1 }")
	}},
	{"growing-array", func(r *hx.Rng) meterx.Prog {
		return bdScript("", "var xs: [Int] = []; while true { xs.append(xs.length) }")
	}},
	{"doubling-array", func(r *hx.Rng) meterx.Prog {
		return bdScript("", "var xs: [Int] = [1, 2]; while true { xs = xs.concat(xs) }")
	}},
	{"for-over-array-inner-loop", func(r *hx.Rng) meterx.Prog {
		return bdScript("", "var xs: [Int] = [1, 2, 3]; while true { for x in xs { acc = acc + x }; xs.append(acc) }")
	}},
	{"growing-dictionary", func(r *hx.Rng) meterx.Prog {
		return bdScript("", "var d: {Int: Int} = {}; while true { d[d.length] = acc; acc = acc + 1 }")
	}},
	{"growing-string", func(r *hx.Rng) meterx.Prog {
		return bdScript("", "var s = \"ab\"; while true { s = s.concat(\"c\"); acc = acc + s.length }")
	}},
	{"doubling-string", func(r *hx.Rng) meterx.Prog {
		return bdScript("", "var s = \"ab\"; while true { s = s.concat(s) }")
	}},
	{"string-builtins-growing", func(r *hx.Rng) meterx.Prog {
		return bdScript("", "var s = \"a,b\"; while true { s = String.join(s.split(separator: \",\"), separator: \",x,\"); acc = acc + s.toLower().utf8.length }")
	}},
	{"squaring-int", func(r *hx.Rng) meterx.Prog {
		return bdScript("", "var x: Int = 3; while true { x = x * x + 1 }")
	}},
	{"shifting-int-tostring", func(r *hx.Rng) meterx.Prog {
		return bdScript("", "var x: Int = 1; while true { x = x << 4096; acc = acc + x.toString().length }")
	}},
	{"unbounded-recursion", func(r *hx.Rng) meterx.Prog {
		return bdScript("access(all) fun f(_ n: Int): Int { return f(n + 1) + 1 }", "acc = f(0)")
	}},
	{"mutual-recursion", func(r *hx.Rng) meterx.Prog {
		return bdScript("access(all) fun a(_ n: Int): Int { return b(n + 1) }\naccess(all) fun b(_ n: Int): Int { return a(n + 1) }", "acc = a(0)")
	}},
	{"recursion-in-loop", func(r *hx.Rng) meterx.Prog {
		return bdScript("access(all) fun g(_ n: Int): Int { if n <= 0 { return 0 }; return 1 + g(n - 1) }", "while true { acc = acc + g(100) }")
	}},
	{"closure-recursion", func(r *hx.Rng) meterx.Prog {
		return bdScript("", "var h: fun(Int): Int = fun (_ n: Int): Int { return n }; let h0 = h; h = fun (_ n: Int): Int { return h(n + 1) }; acc = h(0)")
	}},
	{"method-recursion", func(r *hx.Rng) meterx.Prog {
		return bdScript("access(all) struct T { access(all) fun m(_ n: Int): Int { return self.m(n + 1) } }", "acc = T().m(0)")
	}},
	{"init-recursion", func(r *hx.Rng) meterx.Prog {
		return bdScript("access(all) struct S { access(all) let d: Int\n init(_ n: Int) { let s = S(n + 1); self.d = s.d + 1 } }", "let s = S(0); acc = s.d")
	}},
	{"resource-init-recursion", func(r *hx.Rng) meterx.Prog {
		return bdScript("access(all) resource R { access(all) var child: @R?\n init(_ n: Int) { self.child <- create R(n + 1) } }", "let r <- create R(0); destroy r")
	}},
	{"deep-array-tostring", func(r *hx.Rng) meterx.Prog {
		n := bdDeepSizes[r.Intn(len(bdDeepSizes))]
		return bdScript("", fmt.Sprintf("var v: AnyStruct = 0; var i = 0; while i < %d { v = [v]; i = i + 1 }; log(v); acc = i", n))
	}},
	{"deep-array-export", func(r *hx.Rng) meterx.Prog {
		n := bdDeepSizes[r.Intn(len(bdDeepSizes))]
		return meterx.Prog{Kind: "script", Src: fmt.Sprintf("access(all) fun main(): AnyStruct { var v: AnyStruct = 0; var i = 0; while i < %d { v = [v]; i = i + 1 }; return v }", n)}
	}},
	{"deep-optional-equality", func(r *hx.Rng) meterx.Prog {
		n := bdDeepSizes[r.Intn(len(bdDeepSizes))]
		return bdScript("", fmt.Sprintf("var v: AnyStruct? = 0; var w: AnyStruct? = 0; var i = 0; while i < %d { v = [v] as [AnyStruct?]; w = [w] as [AnyStruct?]; i = i + 1 }; let t = v.getType(); if t == w.getType() { acc = 1 }", n))
	}},
	{"deep-dictionary-storage", func(r *hx.Rng) meterx.Prog {
		n := bdDeepSizes[r.Intn(3)]
		return meterx.Prog{Kind: "tx", Signers: 1, Src: fmt.Sprintf("transaction { prepare(a: auth(Storage) &Account) { var v: AnyStruct = 0; var i = 0; while i < %d { v = {\"k\": v}; i = i + 1 }; a.storage.save(v as! {String: AnyStruct}, to: /storage/deep); let c = a.storage.copy<{String: AnyStruct}>(from: /storage/deep); log(c == nil) } }", n)}
	}},
	{"deep-struct-chain", func(r *hx.Rng) meterx.Prog {
		n := bdDeepSizes[r.Intn(3)]
		return bdScript("access(all) struct N { access(all) let next: AnyStruct; init(_ n: AnyStruct) { self.next = n } }",
			fmt.Sprintf("var v: AnyStruct = 0; var i = 0; while i < %d { v = N(v); i = i + 1 }; let c = v; log(c); acc = i", n))
	}},
	{"resource-growing", func(r *hx.Rng) meterx.Prog {
		return bdScript("access(all) resource R { access(all) var rs: @[R]; init() { self.rs <- [] } access(all) fun add() { self.rs.append(<- create R()) } }",
			"let r <- create R(); var k = 0; while k >= 0 { r.add(); k = k + 1 }; destroy r")
	}},
}

var bdCompLimits = []uint64{1000, 100_000, 3_000_000}
var bdDeepSizes = []int{100, 5000, 100000, 700000}
var bdMemLimits = []uint64{50_000, 2_000_000, 100_000_000}

func bdGen(c *hx.Ctx) {
	// quick tier: the largest computation limit is 300000 (deep values up to 60000 levels); thorough: 3000000
	if c.Thorough() {
		bdMaxComp = 3_000_000
	} else {
		bdCompLimits = []uint64{1000, 100_000, 300_000}
		bdDeepSizes = []int{100, 5000, 60000}
	}
	// call depth at the boundary, default and configured limits
	limits := []int{0, 50, 300}
	for _, lim := range limits {
		eff := lim
		if eff == 0 {
			eff = 2000
		}
		for _, d := range []int{eff - 3, eff - 2, eff - 1, eff, eff + 1, eff + 5} {
			c.Emit("depth", strconv.Itoa(lim), strconv.Itoa(d))
		}
	}
	// the other forms of recursion (method, closure, mutual, closure inside a transaction) at the boundary
	for _, shape := range bdDepthShapes[1:] {
		for _, lim := range []int{0, 50} {
			eff := lim
			if eff == 0 {
				eff = 2000
			}
			for _, d := range []int{eff - 2, eff - 1, eff} {
				c.Emit("depth", strconv.Itoa(lim), strconv.Itoa(d), shape)
			}
		}
	}
	if c.Thorough() {
		for _, d := range []int{10, 1000, 1990, 2500, 10000} {
			c.Emit("depth", "0", strconv.Itoa(d))
		}
	}
	// recursion through initializers (composite constructors), far beyond the limit too
	for _, shape := range bdInitShapes {
		for _, lim := range []int{0, 10, 50} {
			eff := lim
			if eff == 0 {
				eff = 2000
			}
			ds := []int{eff - 2, eff - 1, eff, eff + 4, 5*eff + 1}
			if lim == 0 && !c.Thorough() {
				// (a failure at the default limit takes 10-40 s: unwinding 2000 levels; rnest moves the
				// whole chain at every level)
				if shape == "rnest" {
					continue
				}
				ds = []int{eff - 1, eff}
			}
			for _, d := range ds {
				c.Emit("depth", strconv.Itoa(lim), strconv.Itoa(d), shape)
			}
		}
	}
	// sequential invocations do not accumulate depth: 3x the limit calls of every invocation form, made
	// directly in the entry point and made at depth limit - 1 (each call then reaches exactly the limit);
	// for the forms that invoke a Cadence function also at depth = limit (every call is one too deep)
	for _, f := range bdSeqForms {
		for _, lim := range []int{0, 10, 50} {
			eff := lim
			if eff == 0 {
				eff = 2000
			}
			k := strconv.Itoa(3 * eff)
			c.Emit("seq", strconv.Itoa(lim), k, f.name, "0")
			if lim != 0 || c.Thorough() || f.kind == "opt" {
				c.Emit("seq", strconv.Itoa(lim), k, f.name, strconv.Itoa(eff-1))
			}
			if lim == 10 && f.kind != "native" {
				c.Emit("seq", strconv.Itoa(lim), k, f.name, strconv.Itoa(eff))
			}
		}
	}
	for i := 0; i < c.N; i++ {
		r := c.Rng.Fork()
		f := bdFamilies[i%len(bdFamilies)]
		p := f.gen(r)
		engine := []string{"interp", "vm"}[(i/len(bdFamilies)+i)%2]
		comp := bdCompLimits[r.Intn(len(bdCompLimits))]
		mem := bdMemLimits[r.Intn(len(bdMemLimits))]
		if strings.HasPrefix(f.name, "deep-") {
			// the deep value has to be built before it is used: the largest limits
			comp, mem = bdCompLimits[len(bdCompLimits)-1], bdMemLimits[len(bdMemLimits)-1]
		}
		c.Emit(append([]string{"run", engine, strconv.FormatUint(comp, 10), strconv.FormatUint(mem, 10), f.name}, p.Fields()...)...)
		// the same program in the other engine
		other := "vm"
		if engine == "vm" {
			other = "interp"
		}
		c.Emit(append([]string{"run", other, strconv.FormatUint(comp, 10), strconv.FormatUint(mem, 10), f.name}, p.Fields()...)...)
	}
}

// bdDepthShapes: the forms of recursion of the depth operations.  Each nests exactly D + 1 invocations
// made by the program below the entry point (the entry point itself is invoked by the host).
var bdDepthShapes = []string{"fun", "method", "closure", "mutual", "tx"}

func bdDepthProgram(d int, shape string) meterx.Prog {
	if p, ok := bdInitProgram(d, shape); ok {
		return p
	}
	switch shape {
	case "method":
		return meterx.Prog{Kind: "script", Src: fmt.Sprintf("access(all) struct T { access(all) fun m(_ n: Int): Int { if n <= 0 { return 0 }; return 1 + self.m(n - 1) } }\naccess(all) fun main(): Int { let t = T(); return t.m(%d) }", d)}
	case "closure":
		return meterx.Prog{Kind: "script", Src: fmt.Sprintf("access(all) fun main(): Int { var h: fun(Int): Int = fun (_ n: Int): Int { return n }; h = fun (_ n: Int): Int { if n <= 0 { return 0 }; return 1 + h(n - 1) }; return h(%d) }", d)}
	case "mutual":
		return meterx.Prog{Kind: "script", Src: fmt.Sprintf("access(all) fun a(_ n: Int): Int { if n <= 0 { return 0 }; return 1 + b(n - 1) }\naccess(all) fun b(_ n: Int): Int { if n <= 0 { return 0 }; return 1 + a(n - 1) }\naccess(all) fun main(): Int { return a(%d) }", d)}
	case "tx":
		return meterx.Prog{Kind: "tx", Signers: 1, Src: fmt.Sprintf("transaction { prepare(a: &Account) { var h: fun(Int): Int = fun (_ n: Int): Int { return n }; h = fun (_ n: Int): Int { if n <= 0 { return 0 }; return 1 + h(n - 1) }; let r = h(%d) } }", d)}
	}
	return meterx.Prog{Kind: "script", Src: fmt.Sprintf("access(all) fun f(_ n: Int): Int { if n <= 0 { return 0 }; return 1 + f(n - 1) }\naccess(all) fun main(): Int { return f(%d) }", d)}
}

// bdInitShapes: recursion whose cycle passes through a composite initializer.  A constructor call is one
// invocation in both engines (interpreter: the constructor is a host function that runs the user's `init`;
// VM: the constructor is one compiled function containing the initializer).  As with the other shapes the
// recursive call has no call among its arguments and is not itself an argument.
var bdInitShapes = []string{"sinit", "rinit", "rnest", "initm", "rinitev"}

func bdInitProgram(d int, shape string) (meterx.Prog, bool) {
	script := func(decls, body string) (meterx.Prog, bool) {
		return meterx.Prog{Kind: "script", Src: decls + fmt.Sprintf("\naccess(all) fun main(): Int { %s }", fmt.Sprintf(body, d))}, true
	}
	switch shape {
	case "sinit":
		return script("access(all) struct S { access(all) let depth: Int\n init(_ n: Int) { if n <= 0 { self.depth = 0 } else { let s = S(n - 1); self.depth = s.depth + 1 } } }",
			"let s = S(%d); return s.depth")
	case "rinit", "rinitev":
		ev := ""
		if shape == "rinitev" {
			ev = "access(all) event ResourceDestroyed(depth: Int = self.depth)\n "
		}
		return script("access(all) resource R { "+ev+"access(all) var depth: Int\n init(_ n: Int) { self.depth = 0; if n > 0 { let r <- create R(n - 1); self.depth = r.depth + 1; destroy r } } }",
			"let r <- create R(%d); let x = r.depth; destroy r; return x")
	case "rnest":
		return script("access(all) resource R { access(all) var child: @R?\n access(all) let depth: Int\n init(_ n: Int) { self.depth = n; if n <= 0 { self.child <- nil } else { self.child <- create R(n - 1) } } }",
			"let r <- create R(%d); let x = r.depth; destroy r; return x")
	case "initm":
		return script("access(all) struct S { access(all) var depth: Int\n init(_ n: Int) { self.depth = 0; if n > 0 { let k = self.step(n - 1); self.depth = k + 1 } }\n access(all) fun step(_ n: Int): Int { if n <= 0 { return 0 }; let s = S(n - 1); return s.depth + 1 } }",
			"let s = S(%d); return s.depth")
	}
	return meterx.Prog{}, false
}

// bdSeqForms: the forms of invocation of the `seq` operations.  `call` is one loop iteration's statement
// (it may use and must not decrease `acc`), `setup` runs once before the loop.  kind: "cadence" = each
// iteration invokes one Cadence function (counted alike by both engines), "opt" = the same through optional
// chaining, "nil" = optional chaining on nil (nothing is invoked), "native" = a host function (counted by
// the interpreter's limiter only, see the known finding call-depth-counts-argument-nesting).
type bdSeqForm struct{ name, kind, decls, setup, call string }

const bdSeqT = "access(all) struct T { access(all) fun m(_ x: Int): Int { return x + 1 } }\n"
const bdSeqR = "access(all) resource R { access(all) let v: Int\n init(_ v: Int) { self.v = v }\n access(all) fun m(_ x: Int): Int { return x + 1 } }\n"

var bdSeqForms = []bdSeqForm{
	{"fun", "cadence", "access(all) fun g(_ x: Int): Int { return x + 1 }\n", "", "acc = g(acc)"},
	{"method", "cadence", bdSeqT, "let t = T()", "acc = t.m(acc)"},
	{"optsome", "opt", bdSeqT, "let o: T? = T()", "acc = o?.m(acc) ?? 0"},
	{"optnil", "nil", bdSeqT, "let o: T? = nil", "acc = (o?.m(acc) ?? acc) + 1"},
	{"ref", "cadence", bdSeqT, "let t = T(); let r = &t as &T", "acc = r.m(acc)"},
	{"optref", "opt", bdSeqT, "let t = T(); let r: &T? = &t as &T", "acc = r?.m(acc) ?? 0"},
	{"optres", "opt", bdSeqR, "let o: @R? <- create R(1)", "acc = o?.m(acc) ?? 0"},
	{"optvoid", "opt", "access(all) struct V { access(all) fun m(_ x: Int) { } }\n", "let o: V? = V()", "o?.m(acc); acc = acc + 1"},
	{"closure", "cadence", "", "let c = fun (_ x: Int): Int { return x + 1 }", "acc = c(acc)"},
	{"boundptr", "cadence", bdSeqT, "let t = T(); let b = t.m", "acc = b(acc)"},
	{"funptr", "cadence", "access(all) fun g(_ x: Int): Int { return x + 1 }\n", "let p = g", "acc = p(acc)"},
	{"cond", "cadence", "access(all) fun g(_ x: Int): Int { pre { x >= 0 } post { result > x } return x + 1 }\n", "", "acc = g(acc)"},
	{"iface", "cadence", "access(all) struct interface I { access(all) fun m(_ x: Int): Int { pre { x >= 0 } } }\naccess(all) struct T: I { access(all) fun m(_ x: Int): Int { return x + 1 } }\n", "let t: {I} = T()", "acc = t.m(acc)"},
	{"ctor", "cadence", "access(all) struct S { access(all) let v: Int\n init(_ v: Int) { self.v = v } }\n", "", "let s = S(acc + 1); acc = s.v"},
	{"rctor", "cadence", bdSeqR, "", "let r <- create R(acc + 1); acc = r.v; destroy r"},
	{"rctorev", "cadence", "access(all) resource R { access(all) event ResourceDestroyed(v: Int = self.v)\n access(all) let v: Int\n init(_ v: Int) { self.v = v } }\n", "", "let r <- create R(acc + 1); acc = r.v; destroy r"},
	{"log", "native", "", "", "log(acc); acc = acc + 1"},
	{"tostring", "native", "", "", "let s = acc.toString(); acc = acc + 1"},
	{"append", "native", "", "let xs: [Int] = []", "xs.append(acc); acc = acc + 1"},
	{"conv", "native", "", "", "let u = UInt64(acc); acc = acc + 1"},
}

// bdSeqProgram: the loop runs in the entry point (base 0) or inside `base` nested invocations of `nest`.
func bdSeqProgram(k int, form string, base int) (meterx.Prog, bool) {
	for _, f := range bdSeqForms {
		if f.name != form {
			continue
		}
		tail := ""
		if f.name == "optres" {
			tail = "destroy o; "
		}
		loop := fmt.Sprintf("%s; var acc = 0; var i = 0; while i < %d { %s; i = i + 1 }; %sreturn acc", f.setup, k, f.call, tail)
		if f.setup == "" {
			loop = loop[2:]
		}
		if base == 0 {
			return meterx.Prog{Kind: "script", Src: f.decls + "access(all) fun main(): Int { " + loop + " }"}, true
		}
		return meterx.Prog{Kind: "script", Src: f.decls + "access(all) fun nest(_ n: Int): Int { if n > 0 { return nest(n - 1) }; " + loop + " }\n" +
			fmt.Sprintf("access(all) fun main(): Int { return nest(%d) }", base-1)}, true
	}
	return meterx.Prog{}, false
}

func bdChild() {
	// address-space limit: a run that escapes the memory gauge dies here instead of taking the machine down
	_ = syscall.Setrlimit(syscall.RLIMIT_AS, &syscall.Rlimit{Cur: 12 << 30, Max: 12 << 30})
	in := bufio.NewReaderSize(os.Stdin, 1<<22)
	line, _ := in.ReadString('\n')
	op := strings.Split(strings.TrimRight(line, "\n"), "\t")
	switch op[0] {
	case "run":
		if len(op) != 8 {
			fmt.Println("bad-request")
			return
		}
		useVM := op[1] == "vm"
		comp, _ := strconv.ParseUint(op[2], 10, 64)
		mem, _ := strconv.ParseUint(op[3], 10, 64)
		w := meterx.Setup(useVM)
		rec := meterx.NewRec(comp, mem, false)
		out := meterx.Exec(w, meterx.ProgFromFields(op[5:8]), rec, meterx.Options{UseVM: useVM, Seq: 7})
		fmt.Printf("%s ;; comp=%d mem=%d loops=%d calls=%d\n", out.Short(), rec.CompUsed, rec.MemUsed, rec.LoopN, rec.CallN)
	case "depth":
		lim, _ := strconv.ParseUint(op[1], 10, 64)
		d, _ := strconv.Atoi(op[2])
		var res []string
		for _, useVM := range []bool{false, true} {
			w := meterx.Setup(useVM)
			rec := meterx.NewRec(10_000_000, 0, false)
			shape := "fun"
			if len(op) > 3 {
				shape = op[3]
			}
			out := meterx.Exec(w, bdDepthProgram(d, shape), rec, meterx.Options{UseVM: useVM, Seq: 7, StackDepthLimit: lim})
			name := "interp"
			if useVM {
				name = "vm"
			}
			res = append(res, name+"="+out.Short())
		}
		fmt.Println(strings.Join(res, " "))
	case "seq":
		if len(op) != 5 {
			fmt.Println("bad-request")
			return
		}
		lim, _ := strconv.ParseUint(op[1], 10, 64)
		k, _ := strconv.Atoi(op[2])
		base, _ := strconv.Atoi(op[4])
		p, ok := bdSeqProgram(k, op[3], base)
		if !ok {
			fmt.Println("bad-request")
			return
		}
		var res []string
		for _, useVM := range []bool{false, true} {
			w := meterx.Setup(useVM)
			rec := meterx.NewRec(10_000_000, 0, false)
			out := meterx.Exec(w, p, rec, meterx.Options{UseVM: useVM, Seq: 7, StackDepthLimit: lim})
			name := "interp"
			if useVM {
				name = "vm"
			}
			res = append(res, name+"="+out.Short())
		}
		fmt.Println(strings.Join(res, " "))
	default:
		fmt.Println("bad-request")
	}
}

// bdSolo: every child runs under the read lock; the re-confirmation of a hang verdict takes the write
// lock, i.e. it waits until the children of the other workers have ended and then runs alone.
var bdSolo sync.RWMutex

// bdExec runs one operation in a child process.  A `hang` verdict (the wall-clock bound was exceeded) is
// never reported from a run that shared the machine with the stream's other children: the operation is
// run again ALONE with a generous bound (3x the calibrated bound, at least 900 s), and `hang` is reported
// only when that run does not end either; otherwise the observation of the second run is reported
// (tagged `retried`).  A child killed from outside (`signal: killed`, e.g. the kernel's OOM killer under
// memory pressure of other processes) is re-run alone in the same way; Go fatal errors, stack overflows
// and panics of the child are reported as they are.
func bdExec(op []string) string {
	if len(op) < 3 {
		return "bad-op"
	}
	var comp uint64 = 10_000_000 // depth operations run under this limit
	if op[0] == "run" {
		comp, _ = strconv.ParseUint(op[2], 10, 64)
	}
	bound := bdBound(comp)
	bdSolo.RLock()
	res := bdRunChild(op, bound)
	bdSolo.RUnlock()
	if res == "hang" || strings.HasPrefix(res, "crash:signal: killed") {
		generous := 3 * bound
		if generous < 900*time.Second {
			generous = 900 * time.Second
		}
		bdSolo.Lock()
		res2 := bdRunChild(op, generous)
		bdSolo.Unlock()
		if os.Getenv("VERIF_DEBUG") != "" {
			fmt.Fprintf(os.Stderr, "bounded: %q after %v; alone with bound %v: %q\n", res, bound, generous, res2)
		}
		if res2 == "hang" || strings.HasPrefix(res2, "crash:") {
			return res2
		}
		return res2 + " retried"
	}
	return res
}

func bdRunChild(op []string, bound time.Duration) string {
	exe, err := os.Executable()
	if err != nil {
		return "child-failed " + err.Error()
	}
	ctx, cancel := context.WithTimeout(context.Background(), bound)
	defer cancel()
	cmd := exec.CommandContext(ctx, exe)
	cmd.Env = append(os.Environ(), "VERIF_BOUNDED_CHILD=1", "GOMAXPROCS=4")
	fields := make([]string, len(op))
	for i := range op {
		fields[i] = hx.Clean(op[i])
	}
	cmd.Stdin = strings.NewReader(strings.Join(fields, "\t") + "\n")
	var stderr bytes.Buffer
	cmd.Stderr = &stderr
	t0 := time.Now()
	out, err := cmd.Output()
	if ctx.Err() == context.DeadlineExceeded {
		return "hang"
	}
	if err != nil {
		first := ""
		for _, l := range strings.Split(stderr.String(), "\n") {
			if strings.HasPrefix(l, "fatal error:") || strings.HasPrefix(l, "runtime:") || strings.HasPrefix(l, "panic:") {
				first = l
				break
			}
		}
		if first == "" {
			first = strings.SplitN(strings.TrimSpace(stderr.String()), "\n", 2)[0]
		}
		if first == "" {
			first = err.Error() // e.g. "signal: killed"
		}
		if len(first) > 160 {
			first = first[:160]
		}
		return "crash:" + hx.Clean(first)
	}
	slow := ""
	if time.Since(t0) > bound/3 {
		slow = " slow"
	}
	return strings.TrimRight(string(out), "\n") + slow
}
