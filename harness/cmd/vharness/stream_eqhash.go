package main

// Stream `eqhash` (property C18): equality, ordering and hash input of equatable / hashable values,
// through the real `Equal` / `Less`… / `HashInput` methods of interpreter values (direct) and as
// dictionary keys in scripts (both engines).
//
// Value syntax (one field, S-expression, atoms separated by blanks):
//   B0 B1 | S:<rawhex>:<nfchex> | C:<rawhex>:<nfchex> | A:<hex8> | P:<domain>:<identhex>
//   N:<Kind>:<int> | E:<typeidhex>:<Kind>:<int> | T:_ | (T <type>) | nil | (some v)
//   (arr <type> v…) | (dict <type> k v k v …)
// Type syntax: p:<idhex> c:<idhex> i:<idhex> (opt t) (va t) (ca n t) (d k v) (x idhex…)
//   (r <auth> t) cap (cap t) (rng t);  auth: u | (conj idhex…) | (disj idhex…) | (m idhex)
// The nfc hex of strings is computed here with golang.org/x/text (the library the interpreter uses);
// the Go values are built from the *raw* text, so the interpreter normalises by itself.

import (
	"fmt"
	"math/big"
	"os"
	"strconv"
	"strings"

	"golang.org/x/text/unicode/norm"

	"github.com/onflow/cadence"
	"github.com/onflow/cadence/common"
	"github.com/onflow/cadence/interpreter"
	"github.com/onflow/cadence/sema"

	"verif/harness/internal/cdc"
	"verif/harness/internal/hx"
	"verif/harness/internal/numv"
)

func init() {
	hx.Register(&hx.Stream{Name: "eqhash", Gen: genEqhash, Exec: execEqhash, Parallel: true})
}

// ---------------------------------------------------------------------------------------------
// S-expressions

type sx struct {
	atom string
	list []*sx
	isL  bool
}

func (s *sx) String() string {
	if !s.isL {
		return s.atom
	}
	parts := make([]string, len(s.list))
	for i, x := range s.list {
		parts[i] = x.String()
	}
	return "(" + strings.Join(parts, " ") + ")"
}

func sxAtom(a string) *sx        { return &sx{atom: a} }
func sxList(xs ...*sx) *sx       { return &sx{list: xs, isL: true} }
func sxHead(h string, xs ...*sx) *sx { return &sx{list: append([]*sx{sxAtom(h)}, xs...), isL: true} }

func sxParse(s string) *sx {
	toks := strings.Fields(strings.ReplaceAll(strings.ReplaceAll(s, "(", " ( "), ")", " ) "))
	pos := 0
	var rec func() *sx
	rec = func() *sx {
		if pos >= len(toks) {
			panic("sx: unexpected end")
		}
		t := toks[pos]
		pos++
		if t == "(" {
			l := &sx{isL: true}
			for pos < len(toks) && toks[pos] != ")" {
				l.list = append(l.list, rec())
			}
			if pos >= len(toks) {
				panic("sx: missing )")
			}
			pos++
			return l
		}
		if t == ")" {
			panic("sx: unexpected )")
		}
		return sxAtom(t)
	}
	r := rec()
	if pos != len(toks) {
		panic("sx: trailing tokens")
	}
	return r
}

// ---------------------------------------------------------------------------------------------
// from syntax to the real values

var eqhLocation = common.StringLocation("test")

func eqhID(qualified string) string {
	return string(common.NewTypeIDFromQualifiedName(nil, eqhLocation, qualified))
}

func eqhIDs(xs []*sx) []string {
	out := make([]string, len(xs))
	for i, x := range xs {
		out[i] = string(hx.UnHex(x.atom))
	}
	return out
}

func eqhAuth(s *sx) interpreter.Authorization {
	if !s.isL {
		if s.atom == "u" {
			return interpreter.UnauthorizedAccess
		}
		panic("bad auth " + s.atom)
	}
	switch s.list[0].atom {
	case "conj", "disj":
		ids := eqhIDs(s.list[1:])
		kind := sema.Conjunction
		if s.list[0].atom == "disj" {
			kind = sema.Disjunction
		}
		return interpreter.NewEntitlementSetAuthorization(nil, func() []common.TypeID {
			out := make([]common.TypeID, len(ids))
			for i, id := range ids {
				out[i] = common.TypeID(id)
			}
			return out
		}, len(ids), kind)
	case "m":
		return interpreter.NewEntitlementMapAuthorization(nil, common.TypeID(hx.UnHex(s.list[1].atom)))
	}
	panic("bad auth")
}

func eqhType(s *sx) interpreter.StaticType {
	if !s.isL {
		a := s.atom
		if a == "cap" {
			return interpreter.NewCapabilityStaticType(nil, nil)
		}
		id := string(hx.UnHex(a[2:]))
		switch a[:2] {
		case "p:":
			p := interpreter.PrimitiveStaticTypeFromTypeID(common.TypeID(id))
			if p == interpreter.PrimitiveStaticTypeUnknown {
				panic("unknown primitive " + id)
			}
			return p
		case "c:", "i:":
			loc, qual, err := common.DecodeTypeID(nil, id)
			if err != nil {
				panic(err)
			}
			if a[:2] == "c:" {
				return interpreter.NewCompositeStaticTypeComputeTypeID(nil, loc, qual)
			}
			return interpreter.NewInterfaceStaticTypeComputeTypeID(nil, loc, qual)
		}
		panic("bad type atom " + a)
	}
	switch s.list[0].atom {
	case "opt":
		return interpreter.NewOptionalStaticType(nil, eqhType(s.list[1]))
	case "va":
		return interpreter.NewVariableSizedStaticType(nil, eqhType(s.list[1]))
	case "ca":
		n, _ := strconv.ParseInt(s.list[1].atom, 10, 64)
		return interpreter.NewConstantSizedStaticType(nil, eqhType(s.list[2]), n)
	case "d":
		return interpreter.NewDictionaryStaticType(nil, eqhType(s.list[1]), eqhType(s.list[2]))
	case "x":
		var ts []*interpreter.InterfaceStaticType
		for _, id := range eqhIDs(s.list[1:]) {
			loc, qual, err := common.DecodeTypeID(nil, id)
			if err != nil {
				panic(err)
			}
			ts = append(ts, interpreter.NewInterfaceStaticTypeComputeTypeID(nil, loc, qual))
		}
		return interpreter.NewIntersectionStaticType(nil, ts)
	case "r":
		return interpreter.NewReferenceStaticType(nil, eqhAuth(s.list[1]), eqhType(s.list[2]))
	case "cap":
		return interpreter.NewCapabilityStaticType(nil, eqhType(s.list[1]))
	case "rng":
		return interpreter.NewInclusiveRangeStaticType(nil, eqhType(s.list[1]))
	}
	panic("bad type " + s.String())
}

func eqhValue(inter *interpreter.Interpreter, s *sx) interpreter.Value {
	if !s.isL {
		a := s.atom
		switch {
		case a == "B0":
			return interpreter.FalseValue
		case a == "B1":
			return interpreter.TrueValue
		case a == "nil":
			return interpreter.Nil
		case a == "T:_":
			return interpreter.NewUnmeteredTypeValue(nil)
		}
		f := strings.Split(a, ":")
		switch f[0] {
		case "S":
			return interpreter.NewUnmeteredStringValue(string(hx.UnHex(f[1])))
		case "C":
			return interpreter.NewUnmeteredCharacterValue(string(hx.UnHex(f[1])))
		case "A":
			return interpreter.NewUnmeteredAddressValueFromBytes(hx.UnHex(f[1]))
		case "P":
			d, _ := strconv.Atoi(f[1])
			return interpreter.NewUnmeteredPathValue(common.PathDomain(d), string(hx.UnHex(f[2])))
		case "N":
			n, _ := new(big.Int).SetString(f[2], 10)
			return numv.Make(f[1], n)
		case "E":
			loc, qual, err := common.DecodeTypeID(nil, string(hx.UnHex(f[1])))
			if err != nil {
				panic(err)
			}
			n, _ := new(big.Int).SetString(f[3], 10)
			return interpreter.NewCompositeValue(inter, loc, qual, common.CompositeKindEnum,
				[]interpreter.CompositeField{{Name: sema.EnumRawValueFieldName, Value: numv.Make(f[2], n)}},
				common.ZeroAddress)
		}
		panic("bad value atom " + a)
	}
	switch s.list[0].atom {
	case "T":
		return interpreter.NewUnmeteredTypeValue(eqhType(s.list[1]))
	case "some":
		return interpreter.NewSomeValueNonCopying(nil, eqhValue(inter, s.list[1]))
	case "arr":
		ty := eqhType(s.list[1]).(interpreter.ArrayStaticType)
		vs := make([]interpreter.Value, 0, len(s.list)-2)
		for _, x := range s.list[2:] {
			vs = append(vs, eqhValue(inter, x))
		}
		return interpreter.NewArrayValue(inter, ty, common.ZeroAddress, vs...)
	case "dict":
		ty := eqhType(s.list[1]).(*interpreter.DictionaryStaticType)
		vs := make([]interpreter.Value, 0, len(s.list)-2)
		for _, x := range s.list[2:] {
			vs = append(vs, eqhValue(inter, x))
		}
		return interpreter.NewDictionaryValue(inter, ty, vs...)
	}
	panic("bad value " + s.String())
}

func eqhInterpreter() *interpreter.Interpreter {
	inter, err := interpreter.NewInterpreter(nil, eqhLocation, &interpreter.Config{
		Storage: interpreter.NewInMemoryStorage(nil, nil),
	})
	if err != nil {
		panic(err)
	}
	return inter
}

func bit(b bool) string {
	if b {
		return "1"
	}
	return "0"
}

func eqhEqual(inter *interpreter.Interpreter, a, b interpreter.Value) bool {
	return a.(interpreter.EquatableValue).Equal(inter, b)
}

func eqhHash(v interpreter.Value) string {
	h, ok := v.(interpreter.HashableValue)
	if !ok {
		return "x"
	}
	if c, isC := v.(*interpreter.CompositeValue); isC && c.Kind != common.CompositeKindEnum {
		return "x"
	}
	if t, isT := v.(interpreter.TypeValue); isT && t.Type == nil {
		return "x" // TypeValue{nil}.HashInput dereferences nil: not a hashable value
	}
	scratch := make([]byte, 32)
	return hx.Hex(h.HashInput(nil, scratch))
}

// the four comparison methods a?b, or "-" when the pair is not comparable (different Go types)
func eqhCmp(inter *interpreter.Interpreter, a, b interpreter.Value) string {
	ca, ok1 := a.(interpreter.ComparableValue)
	cb, ok2 := b.(interpreter.ComparableValue)
	if !ok1 || !ok2 || fmt.Sprintf("%T", a) != fmt.Sprintf("%T", b) {
		return "-"
	}
	return bit(bool(ca.Less(inter, cb))) + bit(bool(ca.LessEqual(inter, cb))) +
		bit(bool(ca.Greater(inter, cb))) + bit(bool(ca.GreaterEqual(inter, cb)))
}

// ---------------------------------------------------------------------------------------------
// Cadence expressions for the script ops (hashable values only)

const eqhDecls = `
access(all) struct interface I {}
access(all) struct interface J {}
access(all) struct interface K {}
access(all) entitlement E1
access(all) entitlement E2
access(all) entitlement E3
access(all) struct S {}
access(all) enum En1: UInt8 { access(all) case a; access(all) case b; access(all) case c }
access(all) enum En2: UInt8 { access(all) case a; access(all) case b; access(all) case c }
access(all) enum En3: Int16 { access(all) case a; access(all) case b; access(all) case c }
access(all) fun ch(_ c: Character): Character { return c }
`

func eqhShort(idhex string) string {
	id := string(hx.UnHex(idhex))
	return id[strings.LastIndex(id, ".")+1:]
}

func eqhTypeExpr(s *sx) string {
	if !s.isL {
		if s.atom == "cap" {
			return "Capability"
		}
		return eqhShort(s.atom[2:])
	}
	switch s.list[0].atom {
	case "opt":
		return "((" + eqhTypeExpr(s.list[1]) + ")?)"
	case "va":
		return "[" + eqhTypeExpr(s.list[1]) + "]"
	case "ca":
		return "[" + eqhTypeExpr(s.list[2]) + "; " + s.list[1].atom + "]"
	case "d":
		return "{" + eqhTypeExpr(s.list[1]) + ": " + eqhTypeExpr(s.list[2]) + "}"
	case "x":
		var ns []string
		for _, x := range s.list[1:] {
			ns = append(ns, eqhShort(x.atom))
		}
		return "{" + strings.Join(ns, ", ") + "}"
	case "r":
		au := s.list[1]
		pre := ""
		if au.isL {
			var ns []string
			for _, x := range au.list[1:] {
				ns = append(ns, eqhShort(x.atom))
			}
			sep := ", "
			if au.list[0].atom == "disj" {
				sep = " | "
			}
			pre = "auth(" + strings.Join(ns, sep) + ") "
		}
		return pre + "&" + eqhTypeExpr(s.list[2])
	case "cap":
		return "Capability<" + eqhTypeExpr(s.list[1]) + ">"
	case "rng":
		return "InclusiveRange<" + eqhTypeExpr(s.list[1]) + ">"
	}
	panic("type expr")
}

func eqhStrLit(raw []byte) string {
	var sb strings.Builder
	sb.WriteString("\"")
	for _, r := range string(raw) {
		fmt.Fprintf(&sb, "\\u{%x}", r)
	}
	sb.WriteString("\"")
	return sb.String()
}

func eqhFixLit(info numv.Info, n *big.Int) string {
	neg := n.Sign() < 0
	abs := new(big.Int).Abs(n)
	scale := numv.Pow10(info.Scale)
	ip, fp := new(big.Int).QuoRem(abs, scale, new(big.Int))
	frac := fp.String()
	frac = strings.Repeat("0", info.Scale-len(frac)) + frac
	s := ip.String() + "." + frac
	if neg {
		s = "-" + s
	}
	return s
}

func eqhExpr(s *sx) string {
	if !s.isL {
		a := s.atom
		switch a {
		case "B0":
			return "false"
		case "B1":
			return "true"
		}
		f := strings.Split(a, ":")
		switch f[0] {
		case "S":
			return eqhStrLit(hx.UnHex(f[1]))
		case "C":
			return "ch(" + eqhStrLit(hx.UnHex(f[1])) + ")"
		case "A":
			return "Address(0x" + f[1] + ")"
		case "P":
			d, _ := strconv.Atoi(f[1])
			return "/" + common.PathDomain(d).Identifier() + "/" + string(hx.UnHex(f[2]))
		case "N":
			info := numv.Of(f[1])
			if info.Fixed {
				n, _ := new(big.Int).SetString(f[2], 10)
				return "(" + eqhFixLit(info, n) + " as " + f[1] + ")"
			}
			return "(" + f[2] + " as " + f[1] + ")"
		case "E":
			return eqhShort(f[1]) + "(rawValue: " + f[3] + ")!"
		}
		panic("expr atom " + a)
	}
	if s.list[0].atom == "T" {
		return "Type<" + eqhTypeExpr(s.list[1]) + ">()"
	}
	panic("expr")
}

// ---------------------------------------------------------------------------------------------
// Exec

func execEqhash(op []string) string {
	switch op[1] {
	case "pair":
		inter := eqhInterpreter()
		a, b := eqhValue(inter, sxParse(op[2])), eqhValue(inter, sxParse(op[3]))
		return "e:" + bit(eqhEqual(inter, a, b)) + bit(eqhEqual(inter, b, a)) + bit(eqhEqual(inter, a, a)) + bit(eqhEqual(inter, b, b)) +
			" h:" + eqhHash(a) + "," + eqhHash(b) +
			" c:" + eqhCmp(inter, a, b) + "," + eqhCmp(inter, b, a)
	case "triple":
		inter := eqhInterpreter()
		a, b, c := eqhValue(inter, sxParse(op[2])), eqhValue(inter, sxParse(op[3])), eqhValue(inter, sxParse(op[4]))
		return "e:" + bit(eqhEqual(inter, a, b)) + bit(eqhEqual(inter, b, c)) + bit(eqhEqual(inter, a, c)) +
			" c:" + eqhCmp(inter, a, b) + "," + eqhCmp(inter, b, c) + "," + eqhCmp(inter, a, c)
	case "key":
		inter := eqhInterpreter()
		sa, sb := sxParse(op[3]), sxParse(op[4])
		a, b := eqhValue(inter, sa), eqhValue(inter, sb)
		eq := eqhEqual(inter, a, b)
		src := eqhDecls + "access(all) fun main(): [Int] {\n" +
			"  let a: HashableStruct = " + eqhExpr(sa) + "\n" +
			"  let b: HashableStruct = " + eqhExpr(sb) + "\n" +
			"  let d: {HashableStruct: Int} = {}\n  d[a] = 1\n  d[b] = 2\n" +
			"  let e: {HashableStruct: Int} = {a: 7}\n" +
			"  return [d.length, d[a]!, d[b]!, e.containsKey(b) ? 1 : 0, d.keys.length]\n}\n"
		out := cdc.NewEnv().Script(src, nil, op[2] == "vm")
		if out.Class != "none" {
			if os.Getenv("VERIF_DEBUG") != "" {
				fmt.Fprintln(os.Stderr, src, cdc.ErrString(out.Err))
			}
			return "err-" + out.Class
		}
		arr := out.Value.(cadence.Array)
		parts := make([]string, len(arr.Values))
		for i, v := range arr.Values {
			parts[i] = v.String()
		}
		return "ok:" + bit(eq) + ":" + strings.Join(parts, ",")
	case "prims":
		// model assumption: a primitive static type is identified by its type ID
		var all []interpreter.PrimitiveStaticType
		for ty := interpreter.PrimitiveStaticTypeUnknown + 1; ty < interpreter.PrimitiveStaticType_Count; ty++ {
			if ty.IsDefined() {
				all = append(all, ty)
			}
		}
		for _, x := range all {
			for _, y := range all {
				if x.Equal(y) != (x.ID() == y.ID()) {
					return fmt.Sprintf("bad:%d,%d", x, y)
				}
			}
		}
		return "ok:" + strconv.Itoa(len(all))
	}
	return "bad-op"
}

// ---------------------------------------------------------------------------------------------
// Generator

var eqhCanon = [][]string{ // groups of canonically equivalent spellings
	{"é", "é"},
	{"Å", "Å", "Å"},
	{"ṩ", "ṩ", "ṩ", "ṩ", "ṩ"},
	{"가", "가"},
	{"각", "각", "각"},
	{"Ω", "Ω"},
	{"ñ", "ñ"},
	{"q̣̇", "q̣̇"},
	{"क़", "क़"},
	{"ế", "ế", "ế"},
}

var eqhClusters = []string{
	"a", "b", "Z", "0", " ", "~", "é", "é", "ß", "ı", "中", "\U0001F600",
	"\U0001F468‍\U0001F469‍\U0001F467", "\U0001F1E9\U0001F1EA", "가", "가", "\r\n", "\n",
	"Å", "Å", "ﬁ", "Ω", "\x00", "\x7f", "́",
}

func eqhRandString(r *hx.Rng) string {
	n := []int{0, 1, 1, 2, 2, 3, 5}[r.Intn(7)]
	var sb strings.Builder
	for i := 0; i < n; i++ {
		switch r.Intn(4) {
		case 0:
			g := eqhCanon[r.Intn(len(eqhCanon))]
			sb.WriteString(g[r.Intn(len(g))])
		default:
			sb.WriteString(eqhClusters[r.Intn(len(eqhClusters))])
		}
	}
	return sb.String()
}

// a canonically equivalent respelling of s (NFD, NFC, or itself)
func eqhRespell(r *hx.Rng, s string) string {
	switch r.Intn(3) {
	case 0:
		return norm.NFD.String(s)
	case 1:
		return norm.NFC.String(s)
	}
	return s
}

func eqhStr(tag string, raw string) *sx {
	return sxAtom(tag + ":" + hx.Hex([]byte(raw)) + ":" + hx.Hex([]byte(norm.NFC.String(raw))))
}

var eqhNumKinds = numv.Types

func eqhRandNum(r *hx.Rng, kind string) *big.Int {
	info := numv.Of(kind)
	mn, mx := info.Min(), info.Max()
	var x *big.Int
	switch r.Intn(6) {
	case 0:
		x = big.NewInt(int64(r.Intn(5)) - 2)
	case 1: // ±2^k + d
		k := []uint{7, 8, 15, 16, 31, 32, 63, 64, 127, 128, 255, 256}[r.Intn(12)]
		x = new(big.Int).Lsh(big.NewInt(1), k)
		x.Add(x, big.NewInt(int64(r.Intn(3))-1))
		if r.Bool() {
			x.Neg(x)
		}
	case 2:
		if mn != nil {
			x = new(big.Int).Add(mn, big.NewInt(int64(r.Intn(2))))
		} else {
			x = new(big.Int).Neg(new(big.Int).Lsh(big.NewInt(1), uint(64+r.Intn(200))))
		}
	case 3:
		if mx != nil {
			x = new(big.Int).Sub(mx, big.NewInt(int64(r.Intn(2))))
		} else {
			x = new(big.Int).Lsh(big.NewInt(1), uint(64+r.Intn(200)))
		}
	case 4: // byte-length boundaries 256^k, 256^k/2
		k := uint(8 * (1 + r.Intn(33)))
		x = new(big.Int).Lsh(big.NewInt(1), k-uint(r.Intn(2)))
		x.Sub(x, big.NewInt(int64(r.Intn(2))))
		if r.Bool() {
			x.Neg(x)
		}
	default:
		x = new(big.Int).SetBytes(r.Bytes(1 + r.Intn(33)))
		if r.Bool() {
			x.Neg(x)
		}
	}
	if !info.InRange(x) {
		// fold into range
		if mn != nil && mx != nil {
			span := new(big.Int).Sub(mx, mn)
			span.Add(span, big.NewInt(1))
			x.Mod(x, span)
			x.Add(x, mn)
		} else if mn != nil && x.Cmp(mn) < 0 {
			x.Neg(x)
		}
	}
	return x
}

func eqhNum(kind string, n *big.Int) *sx { return sxAtom("N:" + kind + ":" + n.String()) }

var eqhIfaces = []string{"I", "J", "K"}
var eqhEnts = []string{"E1", "E2", "E3"}
var eqhPrims = []string{"Int", "Int8", "UInt8", "String", "Bool", "AnyStruct", "Address", "Character", "UFix64", "Type", "HashableStruct", "Never", "Void"}

func eqhHexID(q string) string { return hx.Hex([]byte(eqhID(q))) }

func eqhShuffle(r *hx.Rng, xs []*sx) []*sx {
	out := append([]*sx{}, xs...)
	for i := len(out) - 1; i > 0; i-- {
		j := r.Intn(i + 1)
		out[i], out[j] = out[j], out[i]
	}
	return out
}

func eqhSubset(r *hx.Rng, names []string, allowEmpty bool) []*sx {
	for {
		var out []*sx
		for _, n := range names {
			if r.Bool() {
				out = append(out, sxAtom(eqhHexID(n)))
			}
		}
		if len(out) > 0 || allowEmpty {
			return eqhShuffle(r, out)
		}
	}
}

// target of a reference type: programs cannot write references to optionals or to references
func eqhRefTarget(r *hx.Rng, depth int, script bool) *sx {
	for {
		t := eqhRandType(r, depth, script)
		if !script || !t.isL || (t.list[0].atom != "opt" && t.list[0].atom != "r") {
			return t
		}
	}
}

// script: only types expressible in a script's Type<…>()
func eqhRandType(r *hx.Rng, depth int, script bool) *sx {
	if depth <= 0 || r.Chance(35) {
		switch r.Intn(6) {
		case 0:
			return sxAtom("c:" + eqhHexID("S"))
		case 1:
			if !script {
				return sxAtom("i:" + eqhHexID(eqhIfaces[r.Intn(3)]))
			}
		case 2:
			return sxHead("x", eqhSubset(r, eqhIfaces, !script)...)
		}
		return sxAtom("p:" + hx.Hex([]byte(eqhPrims[r.Intn(len(eqhPrims))])))
	}
	switch r.Intn(8) {
	case 0:
		return sxHead("opt", eqhRandType(r, depth-1, script))
	case 1:
		return sxHead("va", eqhRandType(r, depth-1, script))
	case 2:
		return sxHead("ca", sxAtom(strconv.Itoa(r.Intn(4))), eqhRandType(r, depth-1, script))
	case 3:
		keys := []string{"Int", "String", "Bool", "Address", "HashableStruct"}
		return sxHead("d", sxAtom("p:"+hx.Hex([]byte(keys[r.Intn(len(keys))]))), eqhRandType(r, depth-1, script))
	case 4:
		return sxHead("x", eqhSubset(r, eqhIfaces, !script)...)
	case 5, 6:
		var au *sx
		switch r.Intn(4) {
		case 0:
			au = sxAtom("u")
		case 1:
			au = sxHead("disj", eqhSubset(r, eqhEnts, false)...)
			if len(au.list) == 2 && script { // a one-element disjunction cannot be written
				au.list[0] = sxAtom("conj")
			}
		case 2:
			if !script {
				au = sxHead("m", sxAtom(eqhHexID("M")))
				break
			}
			fallthrough
		default:
			au = sxHead("conj", eqhSubset(r, eqhEnts, false)...)
		}
		return sxHead("r", au, eqhRefTarget(r, depth-1, script))
	default:
		if r.Bool() {
			inner := eqhRefTarget(r, depth-1, script)
			if script { // Capability<T> needs a reference type in programs
				inner = sxHead("r", sxAtom("u"), inner)
			}
			return sxHead("cap", inner)
		}
		if r.Bool() && !script {
			return sxAtom("cap")
		}
		ints := []string{"Int", "Int8", "UInt8", "UInt64", "Word16"}
		return sxHead("rng", sxAtom("p:"+hx.Hex([]byte(ints[r.Intn(len(ints))]))))
	}
}

// an equal-by-construction respelling of a type: members in another order
func eqhPermuteType(r *hx.Rng, t *sx) *sx {
	if !t.isL {
		return t
	}
	h := t.list[0].atom
	switch h {
	case "x":
		return sxHead("x", eqhShuffle(r, t.list[1:])...)
	case "conj", "disj":
		return sxHead(h, eqhShuffle(r, t.list[1:])...)
	case "ca":
		return sxHead("ca", t.list[1], eqhPermuteType(r, t.list[2]))
	}
	out := []*sx{t.list[0]}
	for _, x := range t.list[1:] {
		out = append(out, eqhPermuteType(r, x))
	}
	return sxList(out...)
}

func eqhRandHashable(r *hx.Rng, script bool) *sx {
	switch r.Intn(10) {
	case 0:
		return sxAtom("B" + strconv.Itoa(r.Intn(2)))
	case 1, 2:
		return eqhStr("S", eqhRandString(r))
	case 3:
		return eqhStr("C", eqhCharCluster(r))
	case 4:
		a := make([]byte, 8)
		switch r.Intn(3) {
		case 0:
			a[7] = byte(r.Intn(3))
		case 1:
			copy(a, r.Bytes(8))
		default:
			a[r.Intn(8)] = byte(1 + r.Intn(255))
		}
		return sxAtom("A:" + hx.Hex(a))
	case 5:
		dom := 1 + r.Intn(3)
		id := []string{"a", "b", "foo", "foo_1", "x"}[r.Intn(5)]
		return sxAtom("P:" + strconv.Itoa(dom) + ":" + hx.Hex([]byte(id)))
	case 6:
		e := r.Intn(3)
		kind := []string{"UInt8", "UInt8", "Int16"}[e]
		return sxAtom("E:" + eqhHexID("En"+strconv.Itoa(e+1)) + ":" + kind + ":" + strconv.Itoa(r.Intn(3)))
	case 7:
		return sxHead("T", eqhRandType(r, 3, script))
	default:
		k := eqhNumKinds[r.Intn(len(eqhNumKinds))]
		return eqhNum(k, eqhRandNum(r, k))
	}
}

func eqhCharCluster(r *hx.Rng) string {
	if r.Bool() {
		g := eqhCanon[r.Intn(len(eqhCanon))]
		return g[r.Intn(len(g))]
	}
	for {
		c := eqhClusters[r.Intn(len(eqhClusters))]
		if c != "́" {
			return c
		}
	}
}

// canonical text used to keep generated dictionary keys pairwise unequal
func eqhKeyCanon(k *sx) string {
	f := strings.Split(k.atom, ":")
	if f[0] == "S" || f[0] == "C" {
		return f[0] + ":" + f[2]
	}
	return k.atom
}

// element of a container: enum cases are left out (transferring a composite into a container needs
// the declaring program; enum cases are compared at top level and inside optionals)
func eqhRandElem(r *hx.Rng, depth int) *sx {
	for i := 0; i < 8; i++ {
		v := eqhRandValue(r, depth)
		if !strings.Contains(v.String(), "E:") {
			return v
		}
	}
	return sxAtom("nil")
}

func eqhRandValue(r *hx.Rng, depth int) *sx {
	if depth <= 0 || r.Chance(50) {
		if r.Chance(8) {
			return sxAtom("nil")
		}
		if r.Chance(2) {
			return sxAtom("T:_")
		}
		return eqhRandHashable(r, false)
	}
	anyT := sxAtom("p:" + hx.Hex([]byte("AnyStruct")))
	switch r.Intn(4) {
	case 0:
		return sxHead("some", eqhRandValue(r, depth-1))
	case 1, 2:
		n := r.Intn(4)
		var ty *sx
		switch r.Intn(4) {
		case 0:
			ty = sxHead("ca", sxAtom(strconv.Itoa(n)), anyT)
		case 1:
			ty = sxHead("va", sxAtom("p:"+hx.Hex([]byte("HashableStruct"))))
		default:
			ty = sxHead("va", anyT)
		}
		xs := []*sx{ty}
		for i := 0; i < n; i++ {
			xs = append(xs, eqhRandElem(r, depth-1))
		}
		return sxHead("arr", xs...)
	default:
		n := r.Intn(4)
		ty := sxHead("d", sxAtom("p:"+hx.Hex([]byte("HashableStruct"))), anyT)
		xs := []*sx{ty}
		seen := map[string]bool{}
		for i := 0; i < n; i++ {
			var k *sx
			switch r.Intn(3) {
			case 0:
				k = eqhStr("S", eqhRandString(r))
			case 1:
				k = sxAtom("B" + strconv.Itoa(r.Intn(2)))
			default:
				kind := eqhNumKinds[r.Intn(len(eqhNumKinds))]
				k = eqhNum(kind, big.NewInt(int64(r.Intn(3))))
			}
			if seen[eqhKeyCanon(k)] {
				continue
			}
			seen[eqhKeyCanon(k)] = true
			xs = append(xs, k, eqhRandElem(r, depth-1))
		}
		return sxHead("dict", xs...)
	}
}

// a value equal to v by construction, spelled differently where the kind allows it
func eqhRespellValue(r *hx.Rng, v *sx) *sx {
	if !v.isL {
		f := strings.Split(v.atom, ":")
		if f[0] == "S" || f[0] == "C" {
			return eqhStr(f[0], eqhRespell(r, string(hx.UnHex(f[1]))))
		}
		return v
	}
	switch v.list[0].atom {
	case "T":
		return sxHead("T", eqhPermuteType(r, v.list[1]))
	case "some":
		return sxHead("some", eqhRespellValue(r, v.list[1]))
	case "arr":
		out := []*sx{v.list[0], eqhPermuteType(r, v.list[1])}
		for _, x := range v.list[2:] {
			out = append(out, eqhRespellValue(r, x))
		}
		return sxList(out...)
	case "dict":
		// entries in another order, keys and values respelled
		n := (len(v.list) - 2) / 2
		idx := make([]*sx, n)
		for i := range idx {
			idx[i] = sxAtom(strconv.Itoa(i))
		}
		out := []*sx{v.list[0], v.list[1]}
		for _, ix := range eqhShuffle(r, idx) {
			i, _ := strconv.Atoi(ix.atom)
			out = append(out, eqhRespellValue(r, v.list[2+2*i]), eqhRespellValue(r, v.list[3+2*i]))
		}
		return sxList(out...)
	}
	return v
}

// a value of the same kind as v, close to it (not equal in general)
func eqhNear(r *hx.Rng, v *sx, script bool) *sx {
	if !v.isL {
		f := strings.Split(v.atom, ":")
		switch f[0] {
		case "N":
			n, _ := new(big.Int).SetString(f[2], 10)
			if r.Chance(40) { // same number, another kind
				k := eqhNumKinds[r.Intn(len(eqhNumKinds))]
				if numv.Of(k).InRange(n) {
					return eqhNum(k, n)
				}
			}
			m := new(big.Int).Add(n, big.NewInt(int64(r.Intn(3))-1))
			if numv.Of(f[1]).InRange(m) {
				return eqhNum(f[1], m)
			}
			return v
		case "S":
			raw := string(hx.UnHex(f[1]))
			switch r.Intn(3) {
			case 0:
				return eqhStr("S", raw+eqhClusters[r.Intn(len(eqhClusters))])
			case 1:
				if len([]rune(raw)) == 1 { // same text as a character
					return eqhStr("C", raw)
				}
			}
			return eqhStr("S", eqhRandString(r))
		case "C":
			if r.Bool() {
				return eqhStr("S", string(hx.UnHex(f[1])))
			}
			return eqhStr("C", eqhCharCluster(r))
		case "P":
			return sxAtom("P:" + strconv.Itoa(1+r.Intn(3)) + ":" + f[2])
		case "E":
			if r.Bool() {
				return sxAtom("E:" + eqhHexID("En"+strconv.Itoa(1+r.Intn(2))) + ":UInt8:" + f[3])
			}
			return sxAtom("E:" + f[1] + ":" + f[2] + ":" + strconv.Itoa(r.Intn(3)))
		}
		return eqhRandHashable(r, script)
	}
	switch v.list[0].atom {
	case "some":
		if r.Bool() {
			return v.list[1] // one level less
		}
		return sxHead("some", eqhNear(r, v.list[1], script))
	case "arr", "dict":
		if len(v.list) > 2 && r.Bool() {
			out := append([]*sx{}, v.list...)
			i := 2 + r.Intn(len(out)-2)
			if v.list[0].atom == "dict" && (i-2)%2 == 0 {
				i++ // change a value, not a key
			}
			out[i] = eqhNear(r, out[i], script)
			if strings.Contains(out[i].String(), "E:") {
				out[i] = sxAtom("nil")
			}
			return sxList(out...)
		}
		if v.list[0].atom == "arr" && r.Bool() { // same elements, another static type
			out := append([]*sx{}, v.list...)
			out[1] = sxHead("va", sxAtom("p:"+hx.Hex([]byte("Int"))))
			return sxList(out...)
		}
	case "T":
		return sxHead("T", eqhRandType(r, 2, script))
	}
	return eqhRandValue(r, 2)
}

func eqhIsScriptable(v *sx) bool {
	s := v.String()
	// unknown types, interface types as such, mappings, empty intersections and
	// `Capability` without argument are built through the Go API only
	return !strings.Contains(s, "T:_") && !strings.Contains(s, "i:") && !strings.Contains(s, "(m ") &&
		!strings.Contains(s, "(x)") && !strings.Contains(s, "\x00")
}

func genEqhash(c *hx.Ctx) {
	r := c.Rng
	c.Emit("eqhash", "prims")
	// every spelling pair of every canonical-equivalence group, as strings and as characters
	for _, g := range eqhCanon {
		for _, a := range g {
			for _, b := range g {
				c.Emit("eqhash", "pair", eqhStr("S", a).String(), eqhStr("S", b).String())
				c.Emit("eqhash", "pair", eqhStr("C", a).String(), eqhStr("C", b).String())
			}
		}
	}
	// every number kind at its bounds against every kind (same number): equality needs the same kind
	for _, k := range eqhNumKinds {
		for _, k2 := range eqhNumKinds {
			for _, n := range []int64{0, 1, 127, 128, 255} {
				if !numv.Of(k).InRange(big.NewInt(n)) || !numv.Of(k2).InRange(big.NewInt(n)) {
					continue
				}
				c.Emit("eqhash", "pair", eqhNum(k, big.NewInt(n)).String(), eqhNum(k2, big.NewInt(n)).String())
			}
		}
	}
	// every number kind: all ordered pairs over its boundary values of both signs (the total-order laws
	// for each comparable kind: <, <=, >, >= on operands of equal and of opposite sign, at min and max)
	for _, k := range eqhNumKinds {
		info := numv.Of(k)
		var vals []*big.Int
		add := func(x *big.Int) {
			if x != nil && info.InRange(x) {
				vals = append(vals, x)
			}
		}
		for _, n := range []int64{-2, -1, 0, 1, 2} {
			add(big.NewInt(n))
		}
		add(info.Min())
		add(info.Max())
		if mn := info.Min(); mn != nil {
			add(new(big.Int).Add(mn, big.NewInt(1)))
		}
		if mx := info.Max(); mx != nil {
			add(new(big.Int).Sub(mx, big.NewInt(1)))
		}
		add(new(big.Int).Lsh(big.NewInt(1), 63))
		add(new(big.Int).Neg(new(big.Int).Lsh(big.NewInt(1), 63)))
		add(new(big.Int).Lsh(big.NewInt(1), 64))
		for _, a := range vals {
			for _, b := range vals {
				c.Emit("eqhash", "pair", eqhNum(k, a).String(), eqhNum(k, b).String())
			}
		}
	}
	for i := 0; i < c.N; i++ {
		var a *sx
		script := r.Chance(12)
		if script {
			a = eqhRandHashable(r, true)
		} else {
			a = eqhRandValue(r, 3)
		}
		var b *sx
		switch r.Intn(10) {
		case 0, 1, 2, 3:
			b = eqhRespellValue(r, a)
		case 4, 5, 6:
			b = eqhNear(r, a, script)
		default:
			if script {
				b = eqhRandHashable(r, true)
			} else {
				b = eqhRandValue(r, 3)
			}
		}
		keyOK := func(v *sx) bool { return eqhIsScriptable(v) && (!v.isL || v.list[0].atom == "T") && v.atom != "nil" }
		if script && keyOK(a) && keyOK(b) {
			c.Emit("eqhash", "key", []string{"interp", "vm"}[r.Intn(2)], a.String(), b.String())
			continue
		}
		if r.Chance(25) {
			var d *sx
			switch r.Intn(3) {
			case 0:
				d = eqhRespellValue(r, b)
			case 1:
				d = eqhNear(r, b, script)
			default:
				d = eqhRespellValue(r, a)
			}
			c.Emit("eqhash", "triple", a.String(), b.String(), d.String())
			continue
		}
		c.Emit("eqhash", "pair", a.String(), b.String())
	}
}
