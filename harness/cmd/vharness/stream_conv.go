package main

// Stream `conv` (property C16): numeric conversions.  Operation
//   conv <mode> <srcType> <raw> <tgtType> <rounding|->
// mode d  = the Go converter (interpreter.ConverterDeclarations[tgt].Convert / ConvertWithRounding),
// mode si = a Cadence script `T(x)` / `T(x, rounding: RoundingRule.r)` in the interpreter, sv = in the VM.
// raw is the raw (scaled) integer of the source value.  Result: ok:<raw of result> | err:overflow |
// err:underflow | err-<class> | panic.

import (
	"fmt"
	"math/big"


	fix "github.com/onflow/fixed-point"

	"github.com/onflow/cadence/interpreter"

	"verif/harness/internal/cdc"
	"verif/harness/internal/hx"
	"verif/harness/internal/numv"
)

func init() {
	hx.Register(&hx.Stream{Name: "conv", Gen: genConv, Exec: execConv, Parallel: true})
}

var convRoundings = []string{"towardZero", "awayFromZero", "nearestHalfAway", "nearestHalfEven"}

func bi(x int64) *big.Int { return big.NewInt(x) }

// candidate raw values of a source type `src` that matter for target `tgt`:
// the images of tgt's bounds at src's scale (± a unit, ± half a target unit, ± an integer unit),
// src's own bounds, small values with negative / positive fractions, powers of two.
func convCandidates(src, tgt numv.Info, r *hx.Rng, random int) []*big.Int {
	var out []*big.Int
	add := func(x *big.Int) { out = append(out, x) }
	sf := numv.Pow10(src.Scale)
	tf := numv.Pow10(tgt.Scale)
	unit := bi(1)
	if src.Scale > tgt.Scale {
		unit = numv.Pow10(src.Scale - tgt.Scale) // one target unit at the source's scale
	}
	half := new(big.Int).Quo(unit, bi(2))
	around := func(c *big.Int) {
		for _, d := range []*big.Int{bi(0), bi(1), bi(-1), unit, new(big.Int).Neg(unit), half, new(big.Int).Neg(half),
			new(big.Int).Add(half, bi(1)), new(big.Int).Sub(half, bi(1)), new(big.Int).Neg(new(big.Int).Add(half, bi(1))),
			new(big.Int).Sub(unit, bi(1)), new(big.Int).Neg(new(big.Int).Sub(unit, bi(1))),
			new(big.Int).Add(unit, half), new(big.Int).Neg(new(big.Int).Add(unit, half)),
			sf, new(big.Int).Neg(sf), new(big.Int).Sub(sf, bi(1)), new(big.Int).Neg(new(big.Int).Sub(sf, bi(1)))} {
			add(new(big.Int).Add(c, d))
		}
	}
	for _, b := range []*big.Int{tgt.Min(), tgt.Max()} {
		if b == nil {
			continue
		}
		// b / tf * sf, both roundings
		num := new(big.Int).Mul(b, sf)
		q := new(big.Int).Quo(num, tf)
		around(q)
	}
	for _, b := range []*big.Int{src.Min(), src.Max()} {
		if b != nil {
			around(b)
		}
	}
	around(bi(0))
	// the integer-part limits used inside the Go code
	for _, k := range []uint{7, 8, 15, 16, 31, 32, 63, 64, 127, 128, 255, 256} {
		p := new(big.Int).Lsh(bi(1), k)
		for _, s := range []int64{1, -1} {
			c := new(big.Int).Mul(new(big.Int).Mul(p, bi(s)), sf)
			for _, d := range []*big.Int{bi(0), bi(1), bi(-1), sf, new(big.Int).Neg(sf)} {
				add(new(big.Int).Add(c, d))
			}
		}
	}
	// negative and positive fractional values
	if src.Fixed {
		for _, s := range []string{"15", "-15", "5", "-5", "19", "-19", "25", "-25", "35", "-35"} {
			x, _ := new(big.Int).SetString(s, 10)
			add(new(big.Int).Quo(new(big.Int).Mul(x, sf), bi(10)))
		}
		x := new(big.Int).Mul(bi(-2), sf)
		add(new(big.Int).Add(x, bi(1))) // -1.99…9
		add(new(big.Int).Add(x, unit))
	}
	for i := 0; i < random; i++ {
		add(convRandom(src, r))
	}
	// clip to the source's range, dedupe
	seen := map[string]bool{}
	var res []*big.Int
	for _, x := range out {
		if !src.InRange(x) || seen[x.String()] {
			continue
		}
		seen[x.String()] = true
		res = append(res, x)
	}
	return res
}

func convRandom(src numv.Info, r *hx.Rng) *big.Int {
	bits := src.Bits
	if bits == 0 {
		bits = []int{8, 64, 65, 130, 260, 300}[r.Intn(6)]
	}
	n := 1 + r.Intn(bits)
	x := new(big.Int).SetBytes(r.Bytes((n + 7) / 8))
	x.Rsh(x, uint((8-n%8)%8))
	if src.Signed && r.Bool() {
		x.Neg(x)
	}
	if !src.InRange(x) {
		return bi(int64(r.Intn(200)) - 100*int64(b2i(src.Signed)))
	}
	return x
}

func b2i(b bool) int {
	if b {
		return 1
	}
	return 0
}

func genConv(c *hx.Ctx) {
	// Fork: hx.NewRng(seed) of consecutive seeds yields the same SplitMix64 sequence shifted by one draw,
	// and the generators re-synchronise after a few draws; the forked generator starts from a mixed state.
	r := c.Rng.Fork()
	random := 2
	if c.Thorough() {
		random = 40
	}
	type opT struct{ src, raw, tgt, round string }
	var all []opT
	for _, tn := range numv.Types {
		tgt := numv.Of(tn)
		for _, sn := range numv.Types {
			src := numv.Of(sn)
			for _, x := range convCandidates(src, tgt, r, random) {
				all = append(all, opT{sn, x.String(), tn, "-"})
				if tn == "Fix64" || tn == "UFix64" {
					if src.Fixed && src.Bits == 128 {
						for _, rd := range convRoundings {
							all = append(all, opT{sn, x.String(), tn, rd})
						}
					} else if r.Chance(15) {
						all = append(all, opT{sn, x.String(), tn, r.Pick(convRoundings)})
					}
				}
			}
		}
	}
	for _, o := range all {
		c.Emit("conv", "d", o.src, o.raw, o.tgt, o.round)
	}
	// a sample through Cadence scripts in both engines
	for i := 0; i < c.N && len(all) > 0; i++ {
		o := all[r.Intn(len(all))]
		c.Emit("conv", []string{"si", "sv"}[i%2], o.src, o.raw, o.tgt, o.round)
	}
}

var convDecls = func() map[string]interpreter.ValueConverterDeclaration {
	m := map[string]interpreter.ValueConverterDeclaration{}
	for _, d := range interpreter.ConverterDeclarations {
		m[d.Name] = d
	}
	return m
}()

func convRoundingMode(s string) fix.RoundingMode {
	for i, n := range convRoundings {
		if n == s {
			return fix.RoundingMode(i)
		}
	}
	panic("bad rounding " + s)
}

func convRender(tgt string, v interpreter.Value) string {
	ty, raw := numv.Raw(v)
	if ty != tgt {
		return "ok-wrongtype:" + ty
	}
	return "ok:" + raw.String()
}

func execConv(op []string) (res string) {
	mode, src, rawS, tgt, round := op[1], op[2], op[3], op[4], op[5]
	raw, ok := new(big.Int).SetString(rawS, 10)
	if !ok || !numv.Of(src).InRange(raw) {
		return "bad-op"
	}
	switch mode {
	case "d":
		defer func() {
			if r := recover(); r != nil {
				switch r.(type) {
				case *interpreter.OverflowError, interpreter.OverflowError:
					res = "err:overflow"
				case *interpreter.UnderflowError, interpreter.UnderflowError:
					res = "err:underflow"
				default:
					res = "panic"
				}
			}
		}()
		d, ok := convDecls[tgt]
		if !ok {
			return "bad-op"
		}
		v := numv.Make(src, raw)
		if round != "-" {
			if d.ConvertWithRounding == nil {
				return "no-rounding"
			}
			return convRender(tgt, d.ConvertWithRounding(nil, v, convRoundingMode(round)))
		}
		return convRender(tgt, d.Convert(nil, v))
	case "si", "sv":
		call := tgt + "(x)"
		if round != "-" {
			call = tgt + "(x, rounding: RoundingRule." + round + ")"
		}
		code := fmt.Sprintf("access(all) fun main(): %s { let x: %s = %s; return %s }",
			tgt, src, numv.Literal(src, raw), call)
		env := cdc.NewEnv()
		out := env.Script(code, nil, mode == "sv")
		switch out.Class {
		case "none":
			if out.Value == nil || out.Value.Type() == nil || out.Value.Type().ID() != tgt {
				return "ok-wrongtype"
			}
			x, ok := numv.ParseLiteral(tgt, out.Value.String())
			if !ok {
				return "ok-unparsable:" + out.Value.String()
			}
			return "ok:" + x.String()
		case "user":
			switch out.Kind {
			case "interpreter.OverflowError":
				return "err:overflow"
			case "interpreter.UnderflowError":
				return "err:underflow"
			}
			return "err-user:" + out.Kind
		default:
			return "err-" + out.Class + ":" + out.Kind
		}
	}
	return "bad-op"
}


