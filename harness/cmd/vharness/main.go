// vharness: correspondence and failing-input-search harness.  Each stream lives in its own
// stream_*.go file and registers itself in init().
package main

import "verif/harness/internal/hx"

func main() { hx.Main() }
