package main

// Stream `conc` (property C36).
//
// op:  conc <engine> <procs> <order seed> { <kind> <signers> <src> }*        (2..16 programs)
//
// Every operation runs in a FRESH child process (this binary re-executed with VERIF_CONC_CHILD=1), so
// that all lazily initialised shared state — member resolvers and type IDs of sema's built-in types,
// entitlement-map images, the small-integer value cache, the lexer / activation / resources pools — is
// cold when the goroutines start.  In the child:
//  1. the shared contracts are deployed and loaded once into a program cache shared by all executions
//     (as a host shares checked programs between concurrent scripts);
//  2. CONCURRENT phase: one goroutine per program, released together from a barrier in a randomised
//     order with GOMAXPROCS = procs; each parses, checks and executes its program (own copy of the
//     ledger, own recording gauges), importing the shared checked contracts;
//  3. SEQUENTIAL phase: every program again, alone, from the same state.
// Compared per program: outcome (status, error class and kind, value), error message digest, logs,
// events, ledger digest, and the digest of the complete metering call sequence.
// obs: same|diff:<i> ;; threads=<n> procs=<p> ;; <outcomes> ;; <detail>
//      crash:<first line>   the child died (e.g. "fatal error: concurrent map writes")
//      race:<summary>       the child was built with -race and the detector reported a data race

import (
	"bufio"
	"bytes"
	"fmt"
	"os"
	"os/exec"
	goruntime "runtime"
	"sort"
	"strconv"
	"strings"
	"sync"
	"time"

	"github.com/onflow/cadence/common"
	"github.com/onflow/cadence/runtime"

	"verif/harness/internal/host"
	"verif/harness/internal/hx"
	"verif/harness/internal/meterx"
)

func init() {
	if os.Getenv("VERIF_CONC_CHILD") == "1" {
		concChild()
		os.Exit(0)
	}
	hx.Register(&hx.Stream{Name: "conc", Gen: concGen, Exec: host.Robust(concExec, 120*time.Second, 900*time.Second), Parallel: true, Timeout: host.RobustTimeout})
}

func concGen(c *hx.Ctx) {
	for i := 0; i < c.N; i++ {
		r := c.Rng.Fork()
		engine := []string{"interp", "vm"}[i%2]
		n := 2 + r.Intn(15)
		procs := []int{2, 4, 8, 16}[r.Intn(4)]
		op := []string{"conc", engine, strconv.Itoa(procs), strconv.FormatUint(r.U64()%1000000, 10)}
		distinct := 1 + r.Intn(n)
		var progs []meterx.Prog
		for k := 0; k < distinct; k++ {
			progs = append(progs, meterx.Program(r, 1+r.Intn(6), 10))
		}
		for k := 0; k < n; k++ {
			// several goroutines may run the same program
			op = append(op, progs[k%distinct].Fields()...)
		}
		c.Emit(op...)
	}
}

// sharedPrograms is a host-level program cache shared by concurrent executions.
type sharedPrograms struct {
	mu    sync.Mutex
	progs map[common.Location]*runtime.Program
}

type concHost struct {
	*host.Host
	shared *sharedPrograms
}

func (h *concHost) GetOrLoadProgram(location runtime.Location, load func() (*runtime.Program, error)) (*runtime.Program, error) {
	if _, isAddr := location.(common.AddressLocation); !isAddr {
		return h.Host.GetOrLoadProgram(location, load)
	}
	h.shared.mu.Lock()
	p, ok := h.shared.progs[location]
	h.shared.mu.Unlock()
	if ok {
		return p, nil
	}
	p, err := load()
	if err == nil && p != nil {
		h.shared.mu.Lock()
		if q, ok := h.shared.progs[location]; ok {
			p = q
		} else {
			h.shared.progs[location] = p
		}
		h.shared.mu.Unlock()
	}
	return p, err
}

func concRun(w *host.World, p meterx.Prog, useVM bool, shared *sharedPrograms, seq int) (string, *meterx.Rec) {
	rec := meterx.NewRec(300_000, 0, true)
	out := meterx.Exec(w, p, rec, meterx.Options{UseVM: useVM, Seq: uint64(seq), Wrap: func(h *host.Host) runtime.Interface {
		return &concHost{Host: h, shared: shared}
	}})
	msg := ""
	if out.Res.Err != nil {
		msg = host.Digest([]byte(out.Res.Err.Error()))
	}
	if out.Res.Escaped {
		msg = fmt.Sprint(out.Res.PanicVal)
		if len(msg) > 120 {
			msg = msg[:120]
		}
	}
	return out.String() + " msg=" + msg, rec
}

func concChild() {
	in := bufio.NewReaderSize(os.Stdin, 1<<22)
	line, _ := in.ReadString('\n')
	op := strings.Split(strings.TrimRight(line, "\n"), "\t")
	if len(op) < 7 || (len(op)-4)%3 != 0 {
		fmt.Println("bad-request")
		return
	}
	useVM := op[1] == "vm"
	procs, _ := strconv.Atoi(op[2])
	seed, _ := strconv.ParseUint(op[3], 10, 64)
	var progs []meterx.Prog
	for i := 4; i+2 < len(op); i += 3 {
		progs = append(progs, meterx.ProgFromFields(op[i:i+3]))
	}
	base := meterx.Setup(useVM)
	shared := &sharedPrograms{progs: map[common.Location]*runtime.Program{}}
	// load the shared contracts into the shared cache (one small script importing both)
	warm, _ := concRun(base.Clone(), meterx.Prog{Kind: "script", Src: "import K0 from 0x1\nimport K1 from 0x1\naccess(all) fun main() {}"}, useVM, shared, 5)
	if !strings.HasPrefix(warm, "ok:") || len(shared.progs) < 2 {
		fmt.Println("warmup-failed " + hx.Clean(warm))
		return
	}
	n := len(progs)
	worlds := make([]*host.World, n)
	for i := range worlds {
		worlds[i] = base.Clone()
	}
	old := goruntime.GOMAXPROCS(procs)
	defer goruntime.GOMAXPROCS(old)
	conc := make([]string, n)
	concRec := make([]*meterx.Rec, n)
	rng := hx.NewRng(seed)
	order := make([]int, n)
	for i := range order {
		order[i] = i
	}
	for i := n - 1; i > 0; i-- {
		j := rng.Intn(i + 1)
		order[i], order[j] = order[j], order[i]
	}
	start := make(chan struct{})
	var wg sync.WaitGroup
	for _, i := range order {
		wg.Add(1)
		spin := rng.Intn(2000)
		go func(i, spin int) {
			defer wg.Done()
			<-start
			x := 0
			for k := 0; k < spin; k++ {
				x += k
			}
			_ = x
			conc[i], concRec[i] = concRun(worlds[i], progs[i], useVM, shared, 10+i)
		}(i, spin)
	}
	close(start)
	wg.Wait()
	goruntime.GOMAXPROCS(old)
	verdict, detail := "same", ""
	var shorts []string
	for i := 0; i < n; i++ {
		seq, seqRec := concRun(base.Clone(), progs[i], useVM, shared, 10+i)
		shorts = append(shorts, strings.SplitN(seq, " ", 2)[0])
		if verdict != "same" {
			continue
		}
		if seq != conc[i] {
			verdict = "diff:" + strconv.Itoa(i)
			detail = "alone=" + seq + " concurrent=" + conc[i]
		} else if seqRec.SeqString() != concRec[i].SeqString() {
			verdict = "meterdiff:" + strconv.Itoa(i)
			detail = concMeterDiff(seqRec, concRec[i])
		}
	}
	for i := range shorts {
		if len(shorts[i]) > 60 {
			shorts[i] = shorts[i][:60]
		}
	}
	fmt.Printf("%s ;; threads=%d procs=%d ;; %s ;; %s\n", verdict, n, procs, hx.Clean(strings.Join(shorts, " ")), hx.Clean(detail))
}

// concMeterDiff describes the multiset difference of two gauge call sequences: `only=<kind names>` lists the
// kinds of the calls present in one run and not in the other.
func concMeterDiff(alone, conc *meterx.Rec) string {
	count := map[meterx.Entry]int{}
	for _, e := range conc.Seq {
		count[e]++
	}
	for _, e := range alone.Seq {
		count[e]--
	}
	kinds := map[string]bool{}
	extra, missing := 0, 0
	for e, c := range count {
		if c != 0 {
			name := e.Name()
			kinds[name[:strings.Index(name, ",")]+")"] = true
			if c > 0 {
				extra += c
			} else {
				missing -= c
			}
		}
	}
	var ks []string
	for k := range kinds {
		ks = append(ks, k)
	}
	sort.Strings(ks)
	if len(ks) == 0 {
		return fmt.Sprintf("order-only calls=%d/%d", len(alone.Seq), len(conc.Seq))
	}
	return fmt.Sprintf("only=%s extra-concurrent=%d extra-alone=%d calls=%d/%d", strings.Join(ks, "+"), extra, missing, len(alone.Seq), len(conc.Seq))
}

func concExec(op []string) string {
	if len(op) < 7 || op[0] != "conc" || (len(op)-4)%3 != 0 {
		return "bad-op"
	}
	exe, err := os.Executable()
	if err != nil {
		return "child-failed " + err.Error()
	}
	cmd := exec.Command(exe)
	cmd.Env = append(os.Environ(), "VERIF_CONC_CHILD=1", "GORACE=halt_on_error=1 exitcode=66")
	fields := make([]string, len(op))
	for i := range op {
		fields[i] = hx.Clean(op[i])
	}
	cmd.Stdin = strings.NewReader(strings.Join(fields, "\t") + "\n")
	var stderr bytes.Buffer
	cmd.Stderr = &stderr
	out, err := cmd.Output()
	if err != nil {
		se := stderr.String()
		if strings.Contains(se, "WARNING: DATA RACE") {
			return "race:" + concRaceSummary(se)
		}
		first := strings.SplitN(strings.TrimSpace(se), "\n", 2)[0]
		if len(first) > 200 {
			first = first[:200]
		}
		return "crash:" + hx.Clean(first) + " (" + err.Error() + ")"
	}
	res := strings.TrimRight(string(out), "\n")
	if strings.Contains(stderr.String(), "WARNING: DATA RACE") {
		return "race:" + concRaceSummary(stderr.String())
	}
	return res
}

// concRaceSummary: the two conflicting accesses (function names in /repo), no addresses.
func concRaceSummary(report string) string {
	var fns []string
	lines := strings.Split(report, "\n")
	for i, l := range lines {
		t := strings.TrimSpace(l)
		if strings.HasPrefix(t, "Write at") || strings.HasPrefix(t, "Read at") || strings.HasPrefix(t, "Previous write at") || strings.HasPrefix(t, "Previous read at") {
			kind := strings.Fields(t)
			what := kind[0]
			if what == "Previous" {
				what = "prev-" + kind[1]
			}
			// first frame inside the cadence module
			for j := i + 1; j < len(lines) && j < i+40; j++ {
				f := strings.TrimSpace(lines[j])
				if f == "" {
					break
				}
				if strings.HasPrefix(f, "github.com/onflow/cadence/") {
					f = strings.TrimPrefix(f, "github.com/onflow/cadence/")
					if k := strings.Index(f, "("); k > 0 && strings.HasSuffix(f, ")") && !strings.Contains(f[:k], ".") {
						f = f[:k]
					}
					fns = append(fns, strings.ToLower(what)+"="+f)
					break
				}
			}
		}
		if len(fns) >= 2 {
			break
		}
	}
	if len(fns) == 0 {
		return "unattributed"
	}
	return hx.Clean(strings.Join(fns, " "))
}
