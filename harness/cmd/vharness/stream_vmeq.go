package main

// Stream `vmeq` (property C34); generator, Exec and the line format are in stream_lang.go.

import "verif/harness/internal/hx"

func init() {
	hx.Register(&hx.Stream{Name: "vmeq", Gen: func(c *hx.Ctx) { genLang(c, "vmeq", "values") }, Exec: execLang, Parallel: true})
}
