package main

// Grammar-based source generator for streams `pp` (C38) and `fmt` (C39): expressions (sub-expressions
// parenthesised at random so that every tree shape is reachable, whatever the precedences), types,
// statements, declarations and whole programs.  Every random choice comes from the stream's Rng.

import (
	"strconv"
	"strings"

	"verif/harness/internal/hx"
)

type c38G struct {
	r *hx.Rng
	// parenProb: probability (percent) of wrapping a compound sub-expression in parentheses
	parenProb int
	// noFun: do not generate function expressions / create / attach (expression-only ops keep to the
	// sub-language shared with the Lean port more often)
	core bool
	// wild: also produce the shapes whose printed form is known to be re-parsed differently at the
	// statement level (expression statements / conditions that start with a prefix operator, a path,
	// a parenthesis, ...; `transaction()`; `else {}`) -- ops of kind `progx`
	wild   bool
	inProg bool
}

var c38Idents = []string{"a", "b", "c", "x", "y", "z", "foo", "bar", "self", "result", "n", "i", "acct", "v1", "_t"}
var c38TypeNames = []string{"Int", "String", "Bool", "T", "U", "R", "Vault", "AnyStruct", "Address", "UInt8"}
var c38Ents = []string{"E", "F", "G", "Withdraw"}

var c38BinOps = []string{"||", "&&", "==", "!=", "<", "<=", ">", ">=", "??", "|", "^", "&", "<<", ">>", "+", "-", "*", "/", "%"}

func (g *c38G) ident() string { return g.r.Pick(c38Idents) }

func (g *c38G) nominal() string {
	s := g.r.Pick(c38TypeNames)
	if g.r.Chance(15) {
		s = "Foo." + s
		if g.r.Chance(20) {
			s = "Pkg." + s
		}
	}
	return s
}

func (g *c38G) auth() string {
	switch g.r.Intn(5) {
	case 0:
		return "auth(" + g.r.Pick(c38Ents) + ") "
	case 1:
		return "auth(" + g.r.Pick(c38Ents) + ", " + g.r.Pick(c38Ents) + ") "
	case 2:
		return "auth(" + g.r.Pick(c38Ents) + " | " + g.r.Pick(c38Ents) + ") "
	case 3:
		return "auth(mapping " + g.r.Pick([]string{"M", "Identity", "Foo.M"}) + ") "
	}
	return ""
}

// typ: a type; compound component types are parenthesised at random.
func (g *c38G) typ(d int) string {
	if d <= 0 || g.r.Chance(35) {
		return g.nominal()
	}
	sub := func() string {
		t := g.typ(d - 1)
		if g.r.Chance(g.parenProb / 2) {
			return "(" + t + ")"
		}
		return t
	}
	switch g.r.Intn(12) {
	case 0, 1:
		return sub() + "?"
	case 2:
		return "&" + g.noAmp(sub())
	case 3:
		return g.auth() + "&" + g.noAmp(sub())
	case 4:
		n := 1 + g.r.Intn(2)
		args := make([]string, n)
		for i := range args {
			args[i] = g.tyAnn(d - 1)
		}
		base := g.nominal()
		if g.r.Chance(20) {
			base = "(" + g.typ(d-1) + ")"
		}
		return base + "<" + strings.Join(args, ", ") + ">"
	case 5:
		n := g.r.Intn(3)
		ps := make([]string, n)
		for i := range ps {
			ps[i] = g.tyAnn(d - 1)
		}
		pre := ""
		if g.r.Chance(25) {
			pre = "view "
		}
		return pre + "fun(" + strings.Join(ps, ", ") + "): " + g.tyAnn(d-1)
	case 6:
		return "[" + g.typ(d-1) + "]"
	case 7:
		return "[" + g.typ(d-1) + "; " + strconv.Itoa(g.r.Intn(5)) + "]"
	case 8:
		return "{" + g.typ(d-1) + ": " + g.typ(d-1) + "}"
	case 9:
		n := g.r.Intn(3)
		ps := make([]string, n)
		for i := range ps {
			ps[i] = g.nominal()
		}
		return "{" + strings.Join(ps, ", ") + "}"
	case 10:
		return sub() + "??"
	}
	return g.nominal()
}

func (g *c38G) noAmp(t string) string {
	if strings.HasPrefix(t, "&") {
		return "(" + t + ")"
	}
	return t
}

func (g *c38G) declName() string {
	return g.r.Pick([]string{"a", "b", "c", "x", "y", "foo", "bar", "n", "total", "v1"})
}

func (g *c38G) tyAnn(d int) string {
	if g.r.Chance(12) {
		return "@" + g.typ(d)
	}
	return g.typ(d)
}

func (g *c38G) intLit() string {
	return g.r.Pick([]string{"0", "1", "2", "42", "1_000", "0x1F", "0b101", "0o17", "007", "123456789012345678901234567890", "0xdead_beef", "9"})
}

func (g *c38G) fixLit() string {
	return g.r.Pick([]string{"1.0", "0.5", "12.340", "0.00000001", "3.14", "1_0.0_1"})
}

var c38StrPieces = []string{"abc", "", "x", "hello", `\n`, `\t`, `\"`, `\\`, `\0`, `\r`, `\'`, `\u{1F600}`, `\u{41}`, "é", "日本", "a-b", "{}", "'", "/*", "//", ";", "(", ")", "?"}

func (g *c38G) strBody() string {
	n := g.r.Intn(4)
	var sb strings.Builder
	for i := 0; i < n; i++ {
		sb.WriteString(g.r.Pick(c38StrPieces))
	}
	return sb.String()
}

func (g *c38G) strLit(d int) string {
	if d > 0 && g.r.Chance(25) {
		// string template
		var sb strings.Builder
		sb.WriteString(`"`)
		sb.WriteString(g.strBody())
		k := 1 + g.r.Intn(2)
		for i := 0; i < k; i++ {
			sb.WriteString(`\(`)
			// nested templates are not supported by the parser: no strings inside
			old := g.core
			sb.WriteString(g.exprNoStr(d - 1))
			g.core = old
			sb.WriteString(`)`)
			sb.WriteString(g.strBody())
		}
		sb.WriteString(`"`)
		return sb.String()
	}
	return `"` + g.strBody() + `"`
}

// exprNoStr: expression without string literals (used inside string templates)
func (g *c38G) exprNoStr(d int) string {
	for i := 0; i < 20; i++ {
		e := g.expr(d)
		if !strings.Contains(e, `"`) {
			return e
		}
	}
	return g.ident()
}

func (g *c38G) atom(d int) string {
	switch g.r.Intn(16) {
	case 0, 1, 2, 3:
		return g.ident()
	case 4, 5:
		return g.intLit()
	case 6:
		return g.fixLit()
	case 7:
		return g.r.Pick([]string{"true", "false"})
	case 8:
		return "nil"
	case 9:
		return g.strLit(d)
	case 10:
		return "/" + g.r.Pick([]string{"storage", "public", "private"}) + "/" + g.ident()
	case 11:
		if g.inProg && !g.wild {
			// a statement ending in `()` makes the next line a parse error (void literal end position)
			return "nil"
		}
		return "()"
	case 12:
		return "-" + g.intLit()
	case 13:
		return "-" + g.fixLit()
	case 14:
		return "[]"
	}
	return "{}"
}

func (g *c38G) args(d int) string {
	n := g.r.Intn(4)
	as := make([]string, n)
	for i := range as {
		as[i] = ""
		if g.r.Chance(35) {
			as[i] = g.ident() + ": "
		}
		as[i] += g.expr(d)
	}
	return "(" + strings.Join(as, ", ") + ")"
}

// portExpr: an expression of the fragment covered by the Lean ports (Print.lean / Pratt.lean)
func (g *c38G) portExpr(d int) string {
	atom := func() string {
		switch g.r.Intn(9) {
		case 0, 1, 2:
			return g.ident()
		case 3:
			return g.intLit()
		case 4:
			return g.fixLit()
		case 5:
			return g.r.Pick([]string{"true", "false", "nil", "()"})
		case 6:
			return "-" + g.intLit()
		case 7:
			return "-" + g.fixLit()
		}
		return g.ident()
	}
	if d <= 0 || g.r.Chance(15) {
		return atom()
	}
	sub := func() string {
		e := g.portExpr(d - 1)
		if g.r.Chance(g.parenProb) {
			return "(" + e + ")"
		}
		return e
	}
	ty := func() string {
		t := g.r.Pick(c38TypeNames)
		if g.r.Chance(20) {
			t = "Foo." + t
		}
		for i := 0; i < g.r.Intn(3); i++ {
			switch g.r.Intn(4) {
			case 0, 1:
				t += "?"
			case 2:
				if strings.HasPrefix(t, "&") {
					t = "&(" + t + ")"
				} else {
					t = "&" + t
				}
			case 3:
				t = "(" + t + ")?"
			}
		}
		if g.r.Chance(10) {
			t = "@" + t
		}
		return t
	}
	switch g.r.Intn(20) {
	case 0, 1, 2, 3, 4, 5, 6:
		return sub() + " " + g.r.Pick(c38BinOps) + " " + sub()
	case 7, 8:
		return g.r.Pick([]string{"-", "!", "*", "<- ", "<-"}) + sub()
	case 9:
		s := sub()
		if strings.HasPrefix(s, "&") {
			s = "(" + s + ")"
		}
		return "&" + s
	case 10, 11:
		return sub() + "!"
	case 12, 13:
		return sub() + " " + g.r.Pick([]string{"as", "as?", "as!"}) + " " + ty()
	case 14, 15:
		return sub() + " ? " + sub() + " : " + sub()
	case 16, 17:
		return sub() + g.r.Pick([]string{".", ".", "?."}) + g.ident()
	case 18:
		return sub() + "[" + g.portExpr(d-1) + "]"
	}
	return "(" + g.portExpr(d-1) + ")"
}

// expr: a random expression.  Compound sub-expressions are wrapped in parentheses with probability
// parenProb, so that the tree shape is forced independently of the precedences.
func (g *c38G) expr(d int) string {
	if d <= 0 || g.r.Chance(18) {
		return g.atom(d)
	}
	sub := func() string {
		e := g.expr(d - 1)
		if g.r.Chance(g.parenProb) {
			return "(" + e + ")"
		}
		return e
	}
	top := 30
	if g.core {
		top = 24
	}
	switch g.r.Intn(top) {
	case 0, 1, 2, 3, 4, 5:
		return sub() + " " + g.r.Pick(c38BinOps) + " " + sub()
	case 6:
		return g.r.Pick([]string{"-", "!", "*", "<- ", "<-"}) + sub()
	case 7:
		return "&" + sub()
	case 8:
		return sub() + "!"
	case 9, 10:
		return sub() + " " + g.r.Pick([]string{"as", "as?", "as!"}) + " " + g.tyAnn(2)
	case 11:
		return sub() + " ? " + sub() + " : " + sub()
	case 12, 13:
		return sub() + g.r.Pick([]string{".", ".", "?."}) + g.ident()
	case 14:
		return sub() + "[" + g.expr(d-1) + "]"
	case 15, 16:
		return sub() + g.args(d-1)
	case 17:
		n := 1 + g.r.Intn(2)
		ts := make([]string, n)
		for i := range ts {
			ts[i] = g.tyAnn(1)
		}
		return sub() + "<" + strings.Join(ts, ", ") + ">" + g.args(d-1)
	case 18:
		n := g.r.Intn(4)
		es := make([]string, n)
		for i := range es {
			es[i] = g.expr(d - 1)
		}
		return "[" + strings.Join(es, ", ") + "]"
	case 19:
		n := g.r.Intn(3)
		es := make([]string, n)
		for i := range es {
			es[i] = g.expr(d-1) + ": " + g.expr(d-1)
		}
		return "{" + strings.Join(es, ", ") + "}"
	case 20:
		return g.atom(d)
	case 21:
		return "(" + g.expr(d-1) + ")"
	case 22:
		return g.strLit(d)
	case 23:
		return "destroy " + sub()
	case 24:
		return "create " + g.nominal() + g.args(d-1)
	case 25:
		return "attach " + g.nominal() + g.args(d-1) + " to " + sub()
	case 26, 27:
		return g.funExpr(d - 1)
	}
	return g.atom(d)
}

func (g *c38G) params(d int) string {
	n := g.r.Intn(3)
	ps := make([]string, n)
	for i := range ps {
		label := ""
		switch g.r.Intn(4) {
		case 0:
			label = "_ "
		case 1:
			label = g.r.Pick([]string{"from", "to", "with"}) + " "
		}
		ps[i] = label + g.r.Pick([]string{"p", "q", "amount"}) + strconv.Itoa(i) + ": " + g.tyAnn(d)
	}
	return "(" + strings.Join(ps, ", ") + ")"
}

func (g *c38G) funExpr(d int) string {
	pre := ""
	if g.r.Chance(20) {
		pre = "view "
	}
	ret := ""
	if g.r.Chance(60) {
		ret = ": " + g.tyAnn(1)
	}
	// statements inside the body: never the `wild` statement shapes (see c38G.wild)
	oldWild, oldProg := g.wild, g.inProg
	g.wild, g.inProg = false, true
	body := g.block(d, "", false)
	g.wild, g.inProg = oldWild, oldProg
	return pre + "fun " + g.params(1) + ret + " " + body
}

// --- statements ---

func (g *c38G) block(d int, ind string, conditions bool) string {
	var sb strings.Builder
	sb.WriteString("{\n")
	in := ind + "    "
	if conditions && g.r.Chance(40) {
		sb.WriteString(in + "pre {\n")
		for i := 0; i < 1+g.r.Intn(2); i++ {
			sb.WriteString(in + "    " + g.condition(d) + "\n")
		}
		sb.WriteString(in + "}\n")
	}
	if conditions && g.r.Chance(30) {
		sb.WriteString(in + "post {\n")
		for i := 0; i < 1+g.r.Intn(2); i++ {
			sb.WriteString(in + "    " + g.condition(d) + "\n")
		}
		sb.WriteString(in + "}\n")
	}
	n := g.r.Intn(4)
	if d <= 0 {
		n = g.r.Intn(2)
	}
	for i := 0; i < n; i++ {
		sb.WriteString(in + g.stmt(d-1, in))
		if g.r.Chance(10) {
			sb.WriteString(";")
		}
		sb.WriteString("\n")
	}
	sb.WriteString(ind + "}")
	return sb.String()
}

// stmtExpr: an expression used as a statement or condition.  Unless wild, it starts with an
// identifier and so cannot be taken for the continuation of the previous line.
func (g *c38G) stmtExpr(d int) string {
	if g.wild {
		return g.expr(d)
	}
	e := g.r.Pick([]string{"a", "b", "c", "x", "y", "foo", "bar", "n", "acct"})
	for i := 0; i <= g.r.Intn(3); i++ {
		switch g.r.Intn(6) {
		case 0:
			e += "." + g.ident()
		case 1:
			e += "[" + g.expr(d-1) + "]"
		case 2, 3:
			e += g.args(d - 1)
		case 4:
			e += "!"
		case 5:
			e += "?." + g.ident()
		}
	}
	switch g.r.Intn(5) {
	case 0:
		e += " " + g.r.Pick(c38BinOps) + " (" + g.expr(d-1) + ")"
	case 1:
		e += " as? " + g.tyAnn(1)
	case 2:
		e += " ? " + g.atom(0) + " : (" + g.expr(d-1) + ")"
	}
	return e
}

func (g *c38G) condition(d int) string {
	if g.r.Chance(15) {
		return "emit " + g.nominal() + g.args(1)
	}
	c := g.stmtExpr(min(d, 2))
	if g.r.Chance(40) {
		c += ": " + g.r.Pick([]string{`"msg"`, `"a".concat("b")`, `"x \(a)"`})
	}
	return c
}

func (g *c38G) transfer() string {
	return g.r.Pick([]string{"=", "=", "=", "<-", "<-!"})
}

func (g *c38G) varDecl(d int) string {
	s := g.r.Pick([]string{"let ", "var "}) + g.declName()
	if g.r.Chance(40) {
		s += ": " + g.tyAnn(2)
	}
	s += " " + g.transfer() + " " + g.expr(d)
	if g.r.Chance(10) {
		s += " " + g.r.Pick([]string{"<-", "<-!", "="}) + " " + g.expr(d)
	}
	return s
}

func (g *c38G) target(d int) string {
	t := g.ident()
	for i := 0; i < g.r.Intn(3); i++ {
		if g.r.Bool() {
			t += "." + g.ident()
		} else {
			t += "[" + g.expr(min(d, 1)) + "]"
		}
	}
	return t
}

func (g *c38G) stmt(d int, ind string) string {
	ed := min(max(d, 1), 3)
	if d <= 0 {
		switch g.r.Intn(5) {
		case 0:
			return "return " + g.expr(ed)
		case 1:
			return g.varDecl(ed)
		case 2:
			return g.target(ed) + " " + g.transfer() + " " + g.expr(ed)
		default:
			return g.ident() + g.args(1)
		}
	}
	switch g.r.Intn(18) {
	case 0:
		return "return " + g.expr(ed)
	case 1:
		return "return"
	case 2, 3:
		return g.varDecl(ed)
	case 4, 5:
		return g.target(ed) + " " + g.transfer() + " " + g.expr(ed)
	case 6:
		return g.target(ed) + " <-> " + g.target(ed)
	case 7:
		s := "if " + g.ifTest(ed) + " " + g.block(d-1, ind, false)
		for g.r.Chance(30) {
			s += " else if " + g.ifTest(ed) + " " + g.block(d-1, ind, false)
		}
		if g.r.Chance(50) {
			b := g.block(d-1, ind, false)
			if !g.wild && strings.Count(b, "\n") < 2 {
				b = "{\n" + ind + "    foo()\n" + ind + "}"
			}
			if g.r.Chance(35) {
				// an else block whose FIRST statement is an if and which has further statements
				// (must not be printed with the `else if` shorthand)
				inner := ind + "    "
				b = "{\n" + inner + "if " + g.ifTest(ed) + " " + g.block(d-1, inner, false) + "\n" + inner + "foo()\n" + ind + "}"
			}
			s += " else " + b
		}
		return s
	case 8:
		return "while " + g.expr(ed) + " " + g.block(d-1, ind, false)
	case 9:
		idx := ""
		if g.r.Chance(30) {
			idx = "i, "
		}
		return "for " + idx + g.declName() + " in " + g.expr(ed) + " " + g.block(d-1, ind, false)
	case 10:
		return g.r.Pick([]string{"break", "continue"})
	case 11:
		return "emit " + g.nominal() + g.args(ed-1)
	case 12:
		var sb strings.Builder
		sb.WriteString("switch " + g.expr(ed) + " {\n")
		for i := 0; i < g.r.Intn(3); i++ {
			sb.WriteString(ind + "    case " + g.expr(1) + ":\n")
			for j := 0; j < g.r.Intn(3); j++ {
				sb.WriteString(ind + "        " + g.stmt(0, ind+"        ") + "\n")
			}
		}
		if g.r.Chance(50) {
			sb.WriteString(ind + "    default:\n" + ind + "        " + g.stmt(0, ind+"        ") + "\n")
		}
		sb.WriteString(ind + "}")
		return sb.String()
	case 13:
		return "remove " + g.nominal() + " from " + g.expr(ed)
	case 14:
		return "destroy " + g.expr(ed)
	case 15:
		return g.stmtExpr(ed)
	case 16:
		return g.funDecl(d-1, ind, false, false)
	}
	return g.ident() + g.args(ed)
}

func (g *c38G) ifTest(d int) string {
	if g.r.Chance(25) {
		return g.r.Pick([]string{"let ", "var "}) + g.declName() + " " + g.r.Pick([]string{"=", "<-"}) + " " + g.expr(d)
	}
	return g.expr(d)
}

// --- declarations ---

func (g *c38G) access() string {
	switch g.r.Intn(12) {
	case 0, 1, 2, 3:
		return "access(all) "
	case 4:
		return "access(self) "
	case 5:
		return "access(contract) "
	case 6:
		return "access(account) "
	case 7:
		return "access(" + g.r.Pick(c38Ents) + ") "
	case 8:
		return "access(" + g.r.Pick(c38Ents) + ", " + g.r.Pick(c38Ents) + ") "
	case 9:
		return "access(" + g.r.Pick(c38Ents) + " | " + g.r.Pick(c38Ents) + ") "
	case 10:
		return "access(mapping " + g.r.Pick([]string{"M", "Identity"}) + ") "
	}
	return ""
}

func (g *c38G) funDecl(d int, ind string, withAccess, noBody bool) string {
	s := ""
	if withAccess {
		s += g.access()
	}
	if g.r.Chance(15) {
		s += "view "
	}
	s += "fun " + g.r.Pick([]string{"f", "g", "deposit", "withdraw", "main"})
	s += g.params(2)
	if g.r.Chance(60) {
		s += ": " + g.tyAnn(2)
	}
	if noBody && g.r.Chance(50) {
		return s
	}
	return s + " " + g.block(d, ind, true)
}

func (g *c38G) conformances() string {
	if g.r.Chance(35) {
		n := 1 + g.r.Intn(2)
		cs := make([]string, n)
		for i := range cs {
			cs[i] = g.nominal()
		}
		return ": " + strings.Join(cs, ", ")
	}
	return ""
}

func (g *c38G) members(d int, ind string, kind string, iface bool) string {
	var sb strings.Builder
	in := ind + "    "
	n := g.r.Intn(5)
	for i := 0; i < n; i++ {
		switch g.r.Intn(10) {
		case 0, 1, 2:
			sb.WriteString(in + g.access() + g.r.Pick([]string{"let ", "var "}) + g.declName() + ": " + g.tyAnn(2) + "\n")
		case 3, 4:
			sb.WriteString(in + g.funDecl(d-1, in, true, iface) + "\n")
		case 5:
			s := "init" + g.params(2)
			if g.r.Chance(15) {
				s = "view " + s
			}
			if iface && g.r.Chance(50) {
				sb.WriteString(in + s + "\n")
			} else {
				sb.WriteString(in + s + " " + g.block(d-1, in, true) + "\n")
			}
		case 6:
			if d > 0 && (kind == "contract" || g.r.Chance(20)) {
				sb.WriteString(in + g.composite(d-1, in) + "\n")
			}
		case 7:
			if kind == "contract" {
				sb.WriteString(in + g.access() + "event " + g.r.Pick([]string{"Ev", "Deposited"}) + g.params(1) + "\n")
			}
		case 8:
			if kind == "contract" && d > 0 {
				sb.WriteString(in + g.iface(d-1, in) + "\n")
			}
		case 9:
			if kind == "contract" {
				sb.WriteString(in + g.entitlement(in) + "\n")
			}
		}
	}
	return sb.String()
}

func (g *c38G) composite(d int, ind string) string {
	kind := g.r.Pick([]string{"struct", "resource", "contract", "struct", "resource"})
	if g.r.Chance(10) {
		// enum
		var sb strings.Builder
		sb.WriteString(g.access() + "enum " + g.r.Pick([]string{"Color", "Kind"}) + ": " + g.r.Pick([]string{"UInt8", "Int"}) + " {\n")
		for i := 0; i < g.r.Intn(4); i++ {
			sb.WriteString(ind + "    " + g.access() + "case " + g.r.Pick([]string{"red", "green", "blue", "x"}) + "\n")
		}
		sb.WriteString(ind + "}")
		return sb.String()
	}
	if g.r.Chance(10) {
		// attachment
		s := g.access() + "attachment " + g.r.Pick([]string{"A", "Att"}) + " for " + g.nominal() + g.conformances() + " {\n"
		s += g.members(d, ind, "attachment", false)
		return s + ind + "}"
	}
	s := g.access() + kind + " " + g.r.Pick([]string{"S", "R", "C", "Vault", "Token"}) + g.conformances() + " {\n"
	s += g.members(d, ind, kind, false)
	return s + ind + "}"
}

func (g *c38G) iface(d int, ind string) string {
	kind := g.r.Pick([]string{"struct", "resource", "contract"})
	s := g.access() + kind + " interface " + g.r.Pick([]string{"I", "Provider", "Receiver"}) + g.conformances() + " {\n"
	s += g.members(d, ind, kind, true)
	return s + ind + "}"
}

func (g *c38G) entitlement(ind string) string {
	if g.r.Chance(60) {
		return g.access() + "entitlement " + g.r.Pick(c38Ents)
	}
	var sb strings.Builder
	sb.WriteString(g.access() + "entitlement mapping " + g.r.Pick([]string{"M", "N"}) + " {\n")
	for i := 0; i < g.r.Intn(4); i++ {
		if g.r.Chance(20) {
			sb.WriteString(ind + "    include " + g.r.Pick([]string{"Identity", "N"}) + "\n")
		} else {
			sb.WriteString(ind + "    " + g.r.Pick(c38Ents) + " -> " + g.r.Pick(c38Ents) + "\n")
		}
	}
	sb.WriteString(ind + "}")
	return sb.String()
}

func (g *c38G) transaction(d int) string {
	var sb strings.Builder
	sb.WriteString("transaction")
	if g.r.Chance(50) {
		ps := g.params(1)
		if g.wild || ps != "()" {
			sb.WriteString(ps)
		}
	}
	sb.WriteString(" {\n")
	for i := 0; i < g.r.Intn(3); i++ {
		sb.WriteString("    " + g.r.Pick([]string{"let ", "var "}) + g.declName() + ": " + g.tyAnn(2) + "\n")
	}
	if g.r.Chance(70) {
		sb.WriteString("    prepare" + g.params(1) + " " + g.block(d, "    ", false) + "\n")
	}
	if g.r.Chance(30) {
		sb.WriteString("    pre {\n        " + g.condition(1) + "\n    }\n")
	}
	if g.r.Chance(60) {
		sb.WriteString("    execute " + g.block(d, "    ", false) + "\n")
	}
	if g.r.Chance(30) {
		sb.WriteString("    post {\n        " + g.condition(1) + "\n    }\n")
	}
	sb.WriteString("}")
	return sb.String()
}

func (g *c38G) importDecl() string {
	switch g.r.Intn(6) {
	case 0:
		return "import Foo from 0x1"
	case 1:
		return `import Bar from "bar.cdc"`
	case 2:
		return "import Crypto"
	case 3:
		return "import A, B from 0x02"
	case 4:
		return `import "Baz"`
	}
	return "import Foo as F, Bar from 0x1"
}

func (g *c38G) decl(d int) string {
	switch g.r.Intn(14) {
	case 0, 1, 2:
		return g.funDecl(d, "", true, false)
	case 3, 4:
		return g.composite(d, "")
	case 5:
		return g.iface(d, "")
	case 6:
		return g.entitlement("")
	case 7:
		return g.transaction(d)
	case 8:
		return g.importDecl()
	case 9:
		return g.access() + g.varDecl(2)
	case 10:
		return "#" + g.r.Pick([]string{"pragma", "allowAccountLinking", `version("1.0")`, "foo(bar)"})
	case 11:
		return g.access() + "event " + g.r.Pick([]string{"Ev", "Deposited"}) + g.params(1)
	}
	return g.funDecl(d, "", true, false)
}

func c38Program(r *hx.Rng, wild bool) string {
	g := &c38G{r: r, parenProb: []int{0, 30, 60, 90}[r.Intn(4)], wild: wild, inProg: true}
	var sb strings.Builder
	n := 1 + r.Intn(4)
	for i := 0; i < n; i++ {
		sb.WriteString(g.decl(2 + r.Intn(2)))
		sb.WriteString("\n")
		if r.Chance(50) {
			sb.WriteString("\n")
		}
	}
	return sb.String()
}

func c38Expr(r *hx.Rng, core bool) string {
	g := &c38G{r: r, parenProb: []int{40, 70, 90, 100}[r.Intn(4)], core: core}
	return g.expr(2 + r.Intn(3))
}

func c38PortExpr(r *hx.Rng) string {
	g := &c38G{r: r, parenProb: []int{30, 60, 90, 100}[r.Intn(4)]}
	return g.portExpr(2 + r.Intn(4))
}

func c38Type(r *hx.Rng) string {
	g := &c38G{r: r, parenProb: []int{40, 70, 90}[r.Intn(3)]}
	return g.tyAnn(2 + r.Intn(3))
}
