package main

// Stream `fix` (properties C15, C13): + - * / % and the saturating members of the four fixed-point
// value types, called directly on interpreter values and, for a sample, through Cadence scripts in both
// engines.  Values travel as raw scaled integers (value * 10^8 for Fix64 / UFix64, * 10^24 for Fix128 /
// UFix128).  Uses numCall / numErrKind / numCtxPool / numOpSyntax of stream_num.go (harness_files).
//
// Line:  fix <Type> <Method> <rawA> <rawB> [interp|vm]  =>  ok:<raw> | err:<kind> | nil | panic
//        fix <Type> MulDiv <rule> <rawA> <rawB> <rawC> [interp|vm]  =>  same
//          a.multiplyDivide(b, c, rounding: RoundingRule.<rule>); rule = towardZero | awayFromZero |
//          nearestHalfAway | nearestHalfEven | default (scripts only: the argument is omitted).  Direct calls
//          hand the library's rounding mode of that name to the value's MultiplyDivide method.  Triples are
//          biased to inexact quotients, divisors of exactly +-1.0, ties at exactly half a unit (and one off),
//          quotients that only the rounding pushes out of the range, zero divisors, both signs.
// Operands are boundary-biased: 0, ±1 unit, ±1.0, min, max, values whose products / quotients straddle
// the range (around sqrt(max·scale), max/k, scale²/k), sub-unit products, random.

import (
	"fmt"
	"math/big"
	"strings"

	"github.com/onflow/cadence/fixedpoint"
	"github.com/onflow/cadence/interpreter"
	fix "github.com/onflow/fixed-point"

	"verif/harness/internal/cdc"
	"verif/harness/internal/hx"
)

func init() {
	hx.Register(&hx.Stream{Name: "fix", Gen: genFix, Exec: fixExec, Parallel: true})
}

type fixType struct {
	name   string
	signed bool
	bits   int
	digits int // decimal places
	mk     func(raw *big.Int) interpreter.NumberValue
}

var fixTypeTable = []fixType{
	{"Fix64", true, 64, 8, func(x *big.Int) interpreter.NumberValue { return interpreter.NewUnmeteredFix64Value(x.Int64()) }},
	{"UFix64", false, 64, 8, func(x *big.Int) interpreter.NumberValue { return interpreter.NewUnmeteredUFix64Value(x.Uint64()) }},
	{"Fix128", true, 128, 24, func(x *big.Int) interpreter.NumberValue {
		return interpreter.NewUnmeteredFix128Value(fixedpoint.Fix128FromBigInt(x))
	}},
	{"UFix128", false, 128, 24, func(x *big.Int) interpreter.NumberValue {
		return interpreter.NewUnmeteredUFix128Value(fixedpoint.UFix128FromBigInt(x))
	}},
}

func (t fixType) lo() *big.Int {
	if !t.signed {
		return big.NewInt(0)
	}
	return new(big.Int).Neg(new(big.Int).Lsh(big.NewInt(1), uint(t.bits-1)))
}
func (t fixType) hi() *big.Int {
	n := t.bits
	if t.signed {
		n--
	}
	return new(big.Int).Sub(new(big.Int).Lsh(big.NewInt(1), uint(n)), big.NewInt(1))
}
func (t fixType) scale() *big.Int { return new(big.Int).Exp(big.NewInt(10), big.NewInt(int64(t.digits)), nil) }
func (t fixType) inRange(x *big.Int) bool {
	return x.Cmp(t.lo()) >= 0 && x.Cmp(t.hi()) <= 0
}

func fixTypeByName(n string) (fixType, bool) {
	for _, t := range fixTypeTable {
		if t.name == n {
			return t, true
		}
	}
	return fixType{}, false
}

var fixOps = []string{"Plus", "Minus", "Mul", "Div", "Mod", "SaturatingPlus", "SaturatingMinus", "SaturatingMul", "SaturatingDiv"}

func fixBoundary(r *hx.Rng, t fixType) *big.Int {
	s, h, l := t.scale(), t.hi(), t.lo()
	d := big.NewInt(int64(r.Intn(5)) - 2)
	var x *big.Int
	switch r.Intn(12) {
	case 0:
		x = big.NewInt(int64(r.Intn(5)) - 2) // 0, ±1, ±2 units
	case 1:
		x = new(big.Int).Add(s, d) // 1.0 ± units
	case 2:
		x = new(big.Int).Sub(h, big.NewInt(int64(r.Intn(3))))
	case 3:
		x = new(big.Int).Add(l, big.NewInt(int64(r.Intn(3))))
	case 4: // sqrt(max * scale): squares straddle the range
		x = new(big.Int).Sqrt(new(big.Int).Mul(h, s))
		x.Add(x, d)
	case 5: // max / k
		x = new(big.Int).Quo(h, big.NewInt(int64(2+r.Intn(9))))
		x.Add(x, d)
	case 6: // sub-unit factors: products below one unit
		x = big.NewInt(int64(r.Intn(20000)))
	case 7: // around sqrt(scale): product around one unit
		x = new(big.Int).Sqrt(s)
		x.Add(x, d)
	case 8: // k.0
		x = new(big.Int).Mul(s, big.NewInt(int64(r.Intn(21))-10))
	case 9: // scale^2 / k: quotients near the range when dividing small by tiny
		x = new(big.Int).Quo(new(big.Int).Mul(s, s), big.NewInt(int64(1+r.Intn(1000))))
	default:
		n := 1 + r.Intn(t.bits)
		x = new(big.Int).SetBytes(r.Bytes((n + 7) / 8))
		x.Rsh(x, uint((8-n%8)%8))
	}
	if r.Chance(40) {
		x = new(big.Int).Neg(x)
	}
	if !t.signed && x.Sign() < 0 {
		x.Neg(x)
	}
	if x.Cmp(h) > 0 {
		x = new(big.Int).Set(h)
	}
	if x.Cmp(l) < 0 {
		x = new(big.Int).Set(l)
	}
	return x
}

// a partner putting a*b/scale or a*scale/b near a bound
func fixPartner(r *hx.Rng, t fixType, a *big.Int) *big.Int {
	if a.Sign() == 0 {
		return fixBoundary(r, t)
	}
	s, h, l := t.scale(), t.hi(), t.lo()
	bound := h
	if r.Bool() && t.signed {
		bound = l
	}
	var x *big.Int
	if r.Bool() { // a * x / s ~ bound  =>  x ~ bound * s / a
		x = new(big.Int).Quo(new(big.Int).Mul(bound, s), a)
	} else { // a * s / x ~ bound  =>  x ~ a * s / bound
		x = new(big.Int).Quo(new(big.Int).Mul(a, s), bound)
	}
	x.Add(x, big.NewInt(int64(r.Intn(5))-2))
	if !t.inRange(x) {
		return fixBoundary(r, t)
	}
	return x
}

func genFix(c *hx.Ctx) {
	r := c.Rng
	for _, t := range fixTypeTable {
		// corners
		corner := []*big.Int{t.lo(), t.hi(), big.NewInt(0), big.NewInt(1), t.scale()}
		if t.signed {
			corner = append(corner, big.NewInt(-1), new(big.Int).Neg(t.scale()))
		}
		for _, a := range corner {
			for _, b := range corner {
				for _, op := range fixOps {
					c.Emit("fix", t.name, op, a.String(), b.String())
				}
			}
		}
		for i := 0; i < c.N; i++ {
			a := fixBoundary(r, t)
			var b *big.Int
			if r.Chance(50) {
				b = fixPartner(r, t, a)
			} else {
				b = fixBoundary(r, t)
			}
			for _, op := range fixOps {
				c.Emit("fix", t.name, op, a.String(), b.String())
			}
		}
	}
	// multiplyDivide: every rounding rule on every triple
	for _, t := range fixTypeTable {
		for _, tr := range fixMulDivCorners(t) {
			for _, rule := range fixRules {
				c.Emit("fix", t.name, "MulDiv", rule, tr[0].String(), tr[1].String(), tr[2].String())
			}
		}
		for i := 0; i < c.N; i++ {
			tr := fixMulDivTriple(r, t)
			for _, rule := range fixRules {
				c.Emit("fix", t.name, "MulDiv", rule, tr[0].String(), tr[1].String(), tr[2].String())
			}
		}
	}
	nMD := c.N / 3
	if nMD > 300 {
		nMD = 300
	}
	for i := 0; i < nMD; i++ {
		t := fixTypeTable[r.Intn(len(fixTypeTable))]
		tr := fixMulDivTriple(r, t)
		rule := append(fixRules, "default")[r.Intn(5)]
		c.Emit("fix", t.name, "MulDiv", rule, tr[0].String(), tr[1].String(), tr[2].String(), []string{"interp", "vm"}[i%2])
	}
	nScripts := c.N / 2
	if nScripts > 500 {
		nScripts = 500
	}
	for i := 0; i < nScripts; i++ {
		t := fixTypeTable[r.Intn(len(fixTypeTable))]
		a := fixBoundary(r, t)
		b := fixPartner(r, t, a)
		c.Emit("fix", t.name, fixOps[r.Intn(len(fixOps))], a.String(), b.String(), []string{"interp", "vm"}[i%2])
	}
}

// ---- multiplyDivide

var fixRules = []string{"towardZero", "awayFromZero", "nearestHalfAway", "nearestHalfEven"}

// the library's rounding mode with the name of the Cadence rule
var fixRuleMode = map[string]fix.RoundingMode{
	"towardZero": fix.RoundTowardZero, "awayFromZero": fix.RoundAwayFromZero,
	"nearestHalfAway": fix.RoundNearestHalfAway, "nearestHalfEven": fix.RoundNearestHalfEven,
}

func fixClampTo(t fixType, x *big.Int) *big.Int {
	if x.Cmp(t.hi()) > 0 {
		return t.hi()
	}
	if x.Cmp(t.lo()) < 0 {
		return t.lo()
	}
	return x
}

// random signs (only for the signed types)
func fixSigns(r *hx.Rng, t fixType, tr [3]*big.Int) [3]*big.Int {
	if !t.signed {
		return tr
	}
	for i := range tr {
		if r.Chance(35) {
			tr[i] = fixClampTo(t, new(big.Int).Neg(tr[i]))
		}
	}
	return tr
}

func fixMulDivCorners(t fixType) [][3]*big.Int {
	s, h, l := t.scale(), t.hi(), t.lo()
	half := new(big.Int).Quo(s, big.NewInt(2))
	vals := []*big.Int{big.NewInt(0), big.NewInt(1), big.NewInt(2), big.NewInt(3), half, s, new(big.Int).Add(s, half), h, l}
	if t.signed {
		vals = append(vals, big.NewInt(-1), big.NewInt(-3), new(big.Int).Neg(half), new(big.Int).Neg(s), new(big.Int).Neg(new(big.Int).Add(s, half)))
	}
	var out [][3]*big.Int
	for _, a := range vals {
		for _, b := range vals {
			for _, c := range vals {
				out = append(out, [3]*big.Int{a, b, c})
			}
		}
	}
	return out
}

func fixMulDivTriple(r *hx.Rng, t fixType) [3]*big.Int {
	s, h := t.scale(), t.hi()
	small := func(n int) *big.Int { return big.NewInt(int64(1 + r.Intn(n))) }
	one := func() *big.Int { // exactly 1.0 (or -1.0)
		return new(big.Int).Set(s)
	}
	pos := func(x *big.Int) *big.Int { // a positive value of the type
		x = new(big.Int).Abs(x)
		if x.Sign() == 0 {
			x = big.NewInt(1)
		}
		return fixClampTo(t, x)
	}
	var tr [3]*big.Int
	switch r.Intn(10) {
	case 0: // divisor exactly 1.0, product below / around one unit: a*b not a multiple of the scale
		tr = [3]*big.Int{pos(fixBoundary(r, t)), small(20000), one()}
		if r.Bool() {
			tr[0] = new(big.Int).Add(new(big.Int).Mul(s, small(3)), new(big.Int).Quo(s, small(9))) // k.xxx
		}
	case 1: // divisor exactly 1.0, a tie: (2m+1) units times 0.5, 1.5, 2.5 ..
		odd := new(big.Int).Add(new(big.Int).Mul(small(1000), big.NewInt(2)), big.NewInt(1))
		f := new(big.Int).Quo(s, big.NewInt(2))
		f.Mul(f, new(big.Int).Add(new(big.Int).Mul(big.NewInt(int64(r.Intn(4))), big.NewInt(2)), big.NewInt(1)))
		tr = [3]*big.Int{odd, f, one()}
		if r.Bool() {
			tr[0], tr[1] = tr[1], tr[0]
		}
	case 2: // a tie with a general even divisor c = 2k:  a*b = k * odd
		k := pos(fixBoundary(r, t))
		k = new(big.Int).Quo(k, big.NewInt(2))
		if k.Sign() == 0 {
			k = big.NewInt(1)
		}
		odd := new(big.Int).Add(new(big.Int).Mul(small(1000), big.NewInt(2)), big.NewInt(1))
		tr = [3]*big.Int{k, odd, new(big.Int).Mul(k, big.NewInt(2))}
	case 3: // one off a tie: a*b = c*q + c/2 +- 1 with b = 1 unit .. small, c even
		c := new(big.Int).Mul(small(1<<20), big.NewInt(2))
		q := small(1 << 20)
		ab := new(big.Int).Add(new(big.Int).Mul(c, q), new(big.Int).Quo(c, big.NewInt(2)))
		ab.Add(ab, big.NewInt(int64(r.Intn(3))-1))
		tr = [3]*big.Int{pos(ab), big.NewInt(1), c}
	case 4: // only the rounding leaves the range: max < a*b/c < max + 1 unit (resp. below min)
		H := h
		if t.signed && r.Bool() {
			H = new(big.Int).Neg(t.lo())
		}
		c := pos(fixBoundary(r, t))
		if c.Cmp(h) >= 0 {
			c = new(big.Int).Sub(h, big.NewInt(1))
		}
		b := new(big.Int).Add(c, big.NewInt(1))
		a := new(big.Int).Sub(H, new(big.Int).Quo(H, b))
		if r.Chance(30) {
			a.Sub(a, big.NewInt(1)) // just inside
		}
		if H.Cmp(h) != 0 {
			a.Neg(a)
		}
		return [3]*big.Int{fixClampTo(t, a), b, c}
	case 5: // zero divisor / zero operands
		tr = [3]*big.Int{fixBoundary(r, t), fixBoundary(r, t), big.NewInt(0)}
		if r.Chance(30) {
			tr[r.Intn(2)] = big.NewInt(0)
		}
		if r.Chance(25) {
			tr[2] = pos(fixBoundary(r, t))
			tr[r.Intn(2)] = big.NewInt(0)
		}
		return tr
	case 6: // quotient near a bound: c ~ a*b / bound
		a, b := pos(fixBoundary(r, t)), pos(fixBoundary(r, t))
		c := new(big.Int).Quo(new(big.Int).Mul(a, b), h)
		c.Add(c, big.NewInt(int64(r.Intn(5))-2))
		tr = [3]*big.Int{a, b, pos(c)}
	case 7: // divisor 1.0 with boundary operands (products that need more than 128 / 256 bits)
		tr = [3]*big.Int{pos(fixBoundary(r, t)), pos(fixPartner(r, t, pos(fixBoundary(r, t)))), one()}
	case 8: // large operands, large divisor: the intermediate product does not fit the type
		a, b := pos(fixBoundary(r, t)), pos(fixBoundary(r, t))
		c := a
		if r.Bool() {
			c = b
		}
		c = new(big.Int).Add(c, big.NewInt(int64(r.Intn(7))-3))
		tr = [3]*big.Int{a, b, pos(c)}
	default:
		tr = [3]*big.Int{fixBoundary(r, t), fixBoundary(r, t), fixBoundary(r, t)}
		return tr
	}
	return fixSigns(r, t, tr)
}

func fixMulDivExec(t fixType, op []string) (out string) {
	if len(op) < 7 {
		return "bad-op"
	}
	var v [3]*big.Int
	for i := range v {
		x, ok := new(big.Int).SetString(op[4+i], 10)
		if !ok || !t.inRange(x) {
			return "bad-op"
		}
		v[i] = x
	}
	if len(op) >= 8 {
		return fixMulDivScript(t, op[3], v, op[7] == "vm")
	}
	mode, ok := fixRuleMode[op[3]]
	if !ok {
		return "bad-op"
	}
	ctx := numCtxPool.Get().(*interpreter.Interpreter)
	defer numCtxPool.Put(ctx)
	defer func() {
		if r := recover(); r != nil {
			out = numErrKind(r)
		}
	}()
	recv, ok1 := t.mk(v[0]).(interpreter.FixedPointValue)
	f, ok2 := t.mk(v[1]).(interpreter.FixedPointValue)
	d, ok3 := t.mk(v[2]).(interpreter.FixedPointValue)
	if !ok1 || !ok2 || !ok3 {
		return "bad-op"
	}
	res := recv.MultiplyDivide(ctx, f, d, mode)
	if res == nil {
		return "nil"
	}
	raw, ok := fixRawOf(res)
	if !ok {
		return "bad-op"
	}
	return "ok:" + raw
}

func fixMulDivScript(t fixType, rule string, v [3]*big.Int, vm bool) string {
	call := "a.multiplyDivide(b, c, rounding: RoundingRule." + rule + ")"
	if rule == "default" {
		call = "a.multiplyDivide(b, c)"
	} else if _, ok := fixRuleMode[rule]; !ok {
		return "bad-op"
	}
	src := fmt.Sprintf("access(all) fun main(a: %[1]s, b: %[1]s, c: %[1]s): %[1]s { return %[2]s }", t.name, call)
	arg := func(x *big.Int) []byte {
		return []byte(fmt.Sprintf(`{"type":"%s","value":"%s"}`, t.name, fixDecimal(x, t.digits)))
	}
	env := cdc.NewEnv()
	return fixScriptResult(t, env.Script(src, [][]byte{arg(v[0]), arg(v[1]), arg(v[2])}, vm))
}

func fixRawOf(v interpreter.Value) (string, bool) {
	switch x := v.(type) {
	case interpreter.Fix64Value:
		return fmt.Sprint(int64(x)), true
	case interpreter.UFix64Value:
		return fmt.Sprint(uint64(x.UFix64Value)), true
	case interpreter.Fix128Value:
		return x.ToBigInt().String(), true
	case interpreter.UFix128Value:
		return x.ToBigInt().String(), true
	}
	return "", false
}

// decimal rendering of a raw value with `digits` decimal places
func fixDecimal(raw *big.Int, digits int) string {
	neg := raw.Sign() < 0
	s := new(big.Int).Abs(raw).String()
	for len(s) <= digits {
		s = "0" + s
	}
	out := s[:len(s)-digits] + "." + s[len(s)-digits:]
	if neg {
		out = "-" + out
	}
	return out
}

func fixExec(op []string) (out string) {
	if len(op) < 5 {
		return "bad-op"
	}
	t, ok := fixTypeByName(op[1])
	if !ok {
		return "bad-op"
	}
	if op[2] == "MulDiv" {
		return fixMulDivExec(t, op)
	}
	a, okA := new(big.Int).SetString(op[3], 10)
	b, okB := new(big.Int).SetString(op[4], 10)
	if !okA || !okB || !t.inRange(a) || !t.inRange(b) {
		return "bad-op"
	}
	if len(op) >= 6 {
		return fixScript(t, op[2], a, b, op[5] == "vm")
	}
	ctx := numCtxPool.Get().(*interpreter.Interpreter)
	defer numCtxPool.Put(ctx)
	defer func() {
		if r := recover(); r != nil {
			out = numErrKind(r)
		}
	}()
	res, ok := numCall(ctx, op[2], t.mk(a), t.mk(b))
	if !ok {
		return "bad-op"
	}
	if res == nil {
		return "nil"
	}
	raw, ok := fixRawOf(res)
	if !ok {
		return "bad-op"
	}
	return "ok:" + raw
}

func fixScript(t fixType, op string, a, b *big.Int, vm bool) string {
	expr, ok := numOpSyntax[op]
	if !ok {
		return "bad-op"
	}
	src := fmt.Sprintf("access(all) fun main(a: %s, b: %s): %s { return %s }", t.name, t.name, t.name, expr)
	arg := func(x *big.Int) []byte {
		return []byte(fmt.Sprintf(`{"type":"%s","value":"%s"}`, t.name, fixDecimal(x, t.digits)))
	}
	env := cdc.NewEnv()
	return fixScriptResult(t, env.Script(src, [][]byte{arg(a), arg(b)}, vm))
}

func fixScriptResult(t fixType, o *cdc.Outcome) string {
	switch o.Class {
	case "none":
		s := o.Value.String()
		neg := strings.HasPrefix(s, "-")
		s = strings.TrimPrefix(s, "-")
		parts := strings.SplitN(s, ".", 2)
		frac := ""
		if len(parts) == 2 {
			frac = parts[1]
		}
		for len(frac) < t.digits {
			frac += "0"
		}
		raw, ok := new(big.Int).SetString(parts[0]+frac, 10)
		if !ok {
			return "bad-value:" + o.Value.String()
		}
		if neg {
			raw.Neg(raw)
		}
		return "ok:" + raw.String()
	case "user":
		switch {
		case strings.Contains(o.Kind, "Overflow"):
			return "err:overflow"
		case strings.Contains(o.Kind, "Underflow"):
			return "err:underflow"
		case strings.Contains(o.Kind, "DivisionByZero"):
			return "err:divzero"
		}
		return "err:user-" + o.Kind
	}
	return "err-" + o.Class
}
