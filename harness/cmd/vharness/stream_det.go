package main

// Stream `det` (property C33, supporting exploration): every generated history (same generator as
// stream `exec`, plus multi-signer transactions that create several account storage maps in one
// commit) is executed three times from scratch — fresh runtime, fresh ledger, GOMAXPROCS 1 / 2 / all —
// and the complete host-visible observation (every trace event incl. SetValue keys, value digests and
// order; events; logs; result / error kind; final ledger digest) is compared byte for byte.
//
// The compared observation of a step also contains the COMPLETE message text of the error of a failing
// execution (`err.Error()`: every reported sub-error, in order), not only its kind.
//
// Contract-update family (`<engine>:<reps>`, see c33UpdateGen): a contract with several nested
// declarations of different kinds (struct, resource, event, enum, struct / resource interface,
// attachment; names chosen so that kind order and name order disagree) is deployed, then invalid
// updates remove / change several of them at once (contracts.update and contracts.tryUpdate).  Such a
// history is executed <reps> (20) times from scratch within one op: the validator collects the
// removed declarations out of Go maps, Go randomises every map range, so an error list that leaks the
// map order shows up as two different message texts among the repetitions.
//
// op:  det <engine>[:<reps>] { <kind> <nsigners> <limit> <source> }*
// obs: same|diff:<step>:<component>:<detail>  runs=<reps>  <trace of step 1> | <trace of step 2> | ...   (of the first run)

import (
	"fmt"
	"os"
	goruntime "runtime"
	"sort"
	"strconv"
	"strings"
	"time"

	"github.com/onflow/cadence/common"

	"verif/harness/internal/host"
	"verif/harness/internal/hx"
)

func init() {
	hx.Register(&hx.Stream{Name: "det", Gen: c33Gen, Exec: host.Robust(c33Exec, 120*time.Second, 900*time.Second), Parallel: false, Timeout: host.RobustTimeout})
}

func c33Multi(r *hx.Rng) (int, string) {
	ns := 2 + r.Intn(4)
	names := []string{"a", "b", "c", "d", "e"}
	var params, body []string
	for i := 0; i < ns; i++ {
		params = append(params, names[i]+": "+c24AcctAuth)
	}
	order := r.Intn(2)
	for i := 0; i < ns; i++ {
		j := i
		if order == 1 {
			j = ns - 1 - i
		}
		body = append(body, fmt.Sprintf("%s.storage.save(%d, to: /storage/m%d)", names[j], r.Intn(100), r.Intn(3)))
		if r.Chance(40) {
			body = append(body, fmt.Sprintf("%s.storage.save([%d, %d] as [Int], to: /storage/n%d)", names[j], r.Intn(9), r.Intn(9), r.Intn(3)))
		}
	}
	return ns, "transaction { prepare(" + strings.Join(params, ", ") + ") { " + strings.Join(body, "; ") + " } }"
}

// ---- contract-update family

// kinds in the order of common.DeclarationKind (struct < resource < event < struct interface <
// resource interface < enum < attachment)
var c33Kinds = []string{"struct", "resource", "event", "struct interface", "resource interface", "enum", "attachment"}

type c33Decl struct {
	kind    int
	name    string
	variant int // 0 = as deployed; 1, 2 = changed member(s)
}

func (d c33Decl) src() string {
	n := d.name
	switch c33Kinds[d.kind] {
	case "struct", "resource":
		switch d.variant {
		case 1: // field type changed
			return fmt.Sprintf(`access(all) %s %s { access(all) let x: String  init() { self.x = "" } }`, c33Kinds[d.kind], n)
		case 2: // field added
			return fmt.Sprintf(`access(all) %s %s { access(all) let x: Int  access(all) let y: Int  init() { self.x = 1; self.y = 2 } }`, c33Kinds[d.kind], n)
		}
		return fmt.Sprintf(`access(all) %s %s { access(all) let x: Int  init() { self.x = 1 } }`, c33Kinds[d.kind], n)
	case "event":
		if d.variant != 0 {
			return fmt.Sprintf(`access(all) event %s(x: String)`, n)
		}
		return fmt.Sprintf(`access(all) event %s(x: Int)`, n)
	case "struct interface", "resource interface":
		if d.variant != 0 {
			return fmt.Sprintf(`access(all) %s %s { access(all) let x: Int }`, c33Kinds[d.kind], n)
		}
		return fmt.Sprintf(`access(all) %s %s { access(all) fun f(): Int }`, c33Kinds[d.kind], n)
	case "enum":
		switch d.variant {
		case 1: // case removed
			return fmt.Sprintf(`access(all) enum %s: UInt8 { access(all) case a }`, n)
		case 2: // cases swapped
			return fmt.Sprintf(`access(all) enum %s: UInt8 { access(all) case b  access(all) case a }`, n)
		}
		return fmt.Sprintf(`access(all) enum %s: UInt8 { access(all) case a  access(all) case b }`, n)
	default: // attachment
		if d.variant != 0 {
			return fmt.Sprintf(`access(all) attachment %s for AnyStruct { access(all) let x: Int  init() { self.x = 1 } }`, n)
		}
		return fmt.Sprintf(`access(all) attachment %s for AnyStruct { }`, n)
	}
}

func c33Contract(decls []c33Decl, pragmas []string, answer int) string {
	parts := []string{"access(all) contract T {"}
	for _, p := range pragmas {
		parts = append(parts, "#removedType("+p+")")
	}
	for _, d := range decls {
		parts = append(parts, d.src())
	}
	parts = append(parts, fmt.Sprintf("access(all) fun answer(): Int { return %d } }", answer))
	return strings.Join(parts, "  ")
}

// c33Mutate derives the declarations of an update from the deployed ones: each is kept, removed
// (at least `minRemoved` of them), changed in kind or changed in its members; new ones may be added.
func c33Mutate(r *hx.Rng, old []c33Decl, minRemoved int) (decls []c33Decl, pragmas []string) {
	remove := map[int]bool{}
	for _, i := range c33Perm(r, len(old))[:minRemoved] {
		remove[i] = true
	}
	for i, d := range old {
		switch c := r.Intn(100); {
		case remove[i] || c < 25:
			if r.Chance(10) {
				pragmas = append(pragmas, d.name)
			}
			continue
		case c < 35:
			d.kind = (d.kind + 1 + r.Intn(len(c33Kinds)-1)) % len(c33Kinds)
		case c < 50:
			d.variant = 1 + r.Intn(2)
		}
		decls = append(decls, d)
	}
	if r.Chance(30) {
		decls = append(decls, c33Decl{kind: r.Intn(len(c33Kinds)), name: "New" + strconv.Itoa(r.Intn(9))})
	}
	if r.Chance(50) {
		p := c33Perm(r, len(decls))
		shuffled := make([]c33Decl, len(decls))
		for i, j := range p {
			shuffled[i] = decls[j]
		}
		decls = shuffled
	}
	return decls, pragmas
}

func c33Perm(r *hx.Rng, n int) []int {
	p := make([]int, n)
	for i := range p {
		p[i] = i
	}
	for i := n - 1; i > 0; i-- {
		j := r.Intn(i + 1)
		p[i], p[j] = p[j], p[i]
	}
	return p
}

const c33UpdateReps = 20

func c33UpdateTx(fn, code string) string {
	call := `a.contracts.` + fn + `(name: "T", code: ` + c24Quote(code) + `.utf8)`
	if fn == "tryUpdate" {
		call = "let r = " + call + "; log(r.deployedContract == nil)"
	}
	return "transaction { prepare(a: " + c24AcctAuth + ") { " + call + " } }"
}

// c33UpdateHistory: deploy T with the given nested declarations, then `attempts` updates.
func c33UpdateHistory(r *hx.Rng, engine string, deployed []c33Decl, attempts int, minRemoved int) []string {
	op := []string{"det", engine + ":" + strconv.Itoa(c33UpdateReps)}
	op = append(op, "tx", "1", "100000", c33UpdateTx("add", c33Contract(deployed, nil, 42)))
	for k := 0; k < attempts; k++ {
		decls, pragmas := c33Mutate(r, deployed, minRemoved)
		fn := "update"
		if r.Chance(25) {
			fn = "tryUpdate"
		}
		op = append(op, "tx", "1", "100000", c33UpdateTx(fn, c33Contract(decls, pragmas, 43+k)))
	}
	op = append(op, "script", "0", "100000", "import T from 0x1  access(all) fun main(): Int { return T.answer() }")
	return op
}

// c33UpdateGen emits the contract-update family: first directed histories (every pair of different
// kinds, the name order opposite to the kind order, both removed by the update), then random ones.
func c33UpdateGen(c *hx.Ctx, n int) {
	r := c.Rng.Fork()
	engines := []string{"interp", "vm"}
	emitted := 0
	// directed: pairs (k1 < k2) named so that the name order is the reverse of the kind order
	var pairs [][2]int
	for k1 := 0; k1 < len(c33Kinds); k1++ {
		for k2 := k1 + 1; k2 < len(c33Kinds); k2++ {
			pairs = append(pairs, [2]int{k1, k2})
		}
	}
	for _, pi := range c33Perm(r, len(pairs)) {
		if emitted >= n/3 {
			break
		}
		p := pairs[pi]
		deployed := []c33Decl{{kind: p[1], name: "R"}, {kind: p[0], name: "S"}}
		if r.Bool() {
			deployed[0], deployed[1] = deployed[1], deployed[0]
		}
		// the update removes both (minRemoved = all)
		op := []string{"det", engines[emitted%2] + ":" + strconv.Itoa(c33UpdateReps)}
		op = append(op, "tx", "1", "100000", c33UpdateTx("add", c33Contract(deployed, nil, 42)))
		op = append(op, "tx", "1", "100000", c33UpdateTx("update", c33Contract(nil, nil, 42)))
		c.Emit(op...)
		emitted++
	}
	names := []string{"A", "B", "D", "E", "G", "K", "M", "P", "R", "S", "V", "Z"}
	for ; emitted < n; emitted++ {
		k := 3 + r.Intn(6)
		perm := c33Perm(r, len(names))
		var deployed []c33Decl
		for i := 0; i < k; i++ {
			deployed = append(deployed, c33Decl{kind: r.Intn(len(c33Kinds)), name: names[perm[i]]})
		}
		if r.Chance(40) {
			// names descending in kind order: every pair of different kinds disagrees
			sort.SliceStable(deployed, func(i, j int) bool { return deployed[i].kind < deployed[j].kind })
			ns := make([]string, k)
			for i := range ns {
				ns[i] = names[perm[i]]
			}
			sort.Sort(sort.Reverse(sort.StringSlice(ns)))
			for i := range deployed {
				deployed[i].name = ns[i]
			}
			if r.Bool() {
				p := c33Perm(r, k)
				sh := make([]c33Decl, k)
				for i, j := range p {
					sh[i] = deployed[j]
				}
				deployed = sh
			}
		}
		c.Emit(c33UpdateHistory(r, engines[emitted%2], deployed, 1+r.Intn(3), 2+r.Intn(k-1))...)
	}
}

func c33Gen(c *hx.Ctx) {
	nUpd := 24
	if c.Thorough() {
		nUpd = c.N / 10
	}
	c33UpdateGen(c, nUpd)
	for i := 0; i < c.N; i++ {
		g := &c24Gen{r: c.Rng.Fork()}
		engine := []string{"interp", "vm"}[i%2]
		op := []string{"det", engine}
		steps := 2 + g.r.Intn(4)
		for s := 0; s < steps; s++ {
			fail := g.r.Chance(25)
			switch {
			case s == 0 && g.r.Chance(50):
				op = append(op, "tx", "1", "100000", "transaction { prepare(a: "+c24AcctAuth+") { a.contracts.add(name: \"C\", code: @C1@.utf8) } }")
				g.deployed = true
			case g.r.Chance(35):
				ns, src := c33Multi(g.r)
				op = append(op, "tx", strconv.Itoa(ns), "100000", src)
			case g.r.Chance(20):
				op = append(op, "script", "0", g.limit(), g.script(fail))
			default:
				ns, src := g.tx(fail)
				op = append(op, "tx", strconv.Itoa(ns), g.limit(), src)
			}
		}
		c.Emit(op...)
	}
}

// components of the compared observation of one step
var c33Components = []string{"trace", "logs", "events", "result", "error-text", "ledger"}

const c33Sep = " ## "

func c33RunOnce(op []string) []string {
	useVM := strings.HasPrefix(op[1], "vm")
	w := host.NewWorld()
	var out []string
	for i := 2; i+3 < len(op); i += 4 {
		kind, src := op[i], op[i+3]
		src = strings.ReplaceAll(src, "@C1@", c24Quote(c24ContractC))
		src = strings.ReplaceAll(src, "@C2@", c24Quote(c24ContractC2))
		ns, _ := strconv.Atoi(op[i+1])
		limit, _ := strconv.ParseUint(op[i+2], 10, 64)
		if limit == 0 {
			limit = 100000
		}
		w.Signers = nil
		for j := 0; j < ns; j++ {
			w.Signers = append(w.Signers, common.Address{0, 0, 0, 0, 0, 0, 0, byte(j + 1)})
		}
		h := host.New(w)
		h.Limit = limit
		res := host.Run(h, kind, src, nil, useVM, uint64(i))
		cl, k := host.ErrClass(res.Err)
		val := ""
		if res.Value != nil {
			val = res.Value.String()
		}
		// the complete message of the error (all reported sub-errors, in order)
		errText := ""
		if res.Err != nil {
			errText = strings.ReplaceAll(res.Err.Error(), c33Sep, " # # ")
		}
		// the full observation of this step (not printed; compared between runs)
		full := strings.Join([]string{
			strings.Join(h.Trace, " "),
			strings.Join(h.Logs, "\x1f"),
			strings.Join(h.Events, "\x1f"),
			cl + ":" + k + ":" + val,
			errText,
			w.Snapshot(),
		}, c33Sep)
		out = append(out, full)
	}
	return out
}

// c33Differ names the first component in which two observations of a step differ, with the first
// differing line of each.
func c33Differ(a, b string) string {
	pa, pb := strings.Split(a, c33Sep), strings.Split(b, c33Sep)
	for i := 0; i < len(pa) && i < len(pb) && i < len(c33Components); i++ {
		if pa[i] != pb[i] {
			la, lb := strings.Split(pa[i], "\n"), strings.Split(pb[i], "\n")
			for j := 0; j < len(la) && j < len(lb); j++ {
				if la[j] != lb[j] {
					x, y := la[j], lb[j]
					if len(x) > 120 {
						x = x[:120]
					}
					if len(y) > 120 {
						y = y[:120]
					}
					return c33Components[i] + ":" + strings.ReplaceAll(hx.Clean(fmt.Sprintf("line %d %q vs %q", j, x, y)), " ;; ", " ; ")
				}
			}
			return c33Components[i] + ":length"
		}
	}
	return "shape"
}

func c33Exec(op []string) string {
	if len(op) < 2 || op[0] != "det" || (len(op)-2)%4 != 0 {
		return "bad-op"
	}
	reps := 3
	if i := strings.IndexByte(op[1], ':'); i >= 0 {
		n, err := strconv.Atoi(op[1][i+1:])
		if err != nil || n < 2 || n > 64 {
			return "bad-op"
		}
		reps = n
	}
	old := goruntime.GOMAXPROCS(0)
	defer goruntime.GOMAXPROCS(old)
	procs := []int{1, 2, old}
	var runs [][]string
	for r := 0; r < reps; r++ {
		goruntime.GOMAXPROCS(procs[r%len(procs)])
		runs = append(runs, c33RunOnce(op))
	}
	verdict := "same"
	for r := 1; r < len(runs) && verdict == "same"; r++ {
		for s := range runs[0] {
			if s >= len(runs[r]) {
				verdict = "diff:" + strconv.Itoa(s) + ":shape"
				break
			}
			if runs[r][s] != runs[0][s] {
				verdict = "diff:" + strconv.Itoa(s) + ":" + c33Differ(runs[0][s], runs[r][s])
				break
			}
		}
	}
	var traces []string
	for s, full := range runs[0] {
		parts := strings.SplitN(full, c33Sep, len(c33Components))
		traces = append(traces, parts[0])
		if os.Getenv("VERIF_DEBUG") != "" && len(parts) == len(c33Components) {
			fmt.Fprintf(os.Stderr, "det step %d: logs=%q result=%s\n%s\n", s, parts[1], parts[3], parts[4])
		}
	}
	return verdict + " ;; runs=" + strconv.Itoa(reps) + " ;; " + strings.Join(traces, " | ")
}
