package main

// Stream `det` (property C33, supporting exploration): every generated history (same generator as
// stream `exec`, plus multi-signer transactions that create several account storage maps in one
// commit) is executed three times from scratch — fresh runtime, fresh ledger, GOMAXPROCS 1 / 2 / all —
// and the complete host-visible observation (every trace event incl. SetValue keys, value digests and
// order; events; logs; result / error kind; final ledger digest) is compared byte for byte.
//
// op:  det <engine> { <kind> <nsigners> <limit> <source> }*
// obs: same|diff:<step>  runs=3  <trace of step 1> | <trace of step 2> | ...   (of the first run)

import (
	"fmt"
	goruntime "runtime"
	"strconv"
	"strings"
	"time"

	"github.com/onflow/cadence/common"

	"verif/harness/internal/host"
	"verif/harness/internal/hx"
)

func init() {
	hx.Register(&hx.Stream{Name: "det", Gen: c33Gen, Exec: host.Robust(c33Exec, 120*time.Second, 900*time.Second), Parallel: false, Timeout: host.RobustTimeout})
}

func c33Multi(r *hx.Rng) (int, string) {
	ns := 2 + r.Intn(4)
	names := []string{"a", "b", "c", "d", "e"}
	var params, body []string
	for i := 0; i < ns; i++ {
		params = append(params, names[i]+": "+c24AcctAuth)
	}
	order := r.Intn(2)
	for i := 0; i < ns; i++ {
		j := i
		if order == 1 {
			j = ns - 1 - i
		}
		body = append(body, fmt.Sprintf("%s.storage.save(%d, to: /storage/m%d)", names[j], r.Intn(100), r.Intn(3)))
		if r.Chance(40) {
			body = append(body, fmt.Sprintf("%s.storage.save([%d, %d] as [Int], to: /storage/n%d)", names[j], r.Intn(9), r.Intn(9), r.Intn(3)))
		}
	}
	return ns, "transaction { prepare(" + strings.Join(params, ", ") + ") { " + strings.Join(body, "; ") + " } }"
}

func c33Gen(c *hx.Ctx) {
	for i := 0; i < c.N; i++ {
		g := &c24Gen{r: c.Rng.Fork()}
		engine := []string{"interp", "vm"}[i%2]
		op := []string{"det", engine}
		steps := 2 + g.r.Intn(4)
		for s := 0; s < steps; s++ {
			fail := g.r.Chance(25)
			switch {
			case s == 0 && g.r.Chance(50):
				op = append(op, "tx", "1", "100000", "transaction { prepare(a: "+c24AcctAuth+") { a.contracts.add(name: \"C\", code: @C1@.utf8) } }")
				g.deployed = true
			case g.r.Chance(35):
				ns, src := c33Multi(g.r)
				op = append(op, "tx", strconv.Itoa(ns), "100000", src)
			case g.r.Chance(20):
				op = append(op, "script", "0", g.limit(), g.script(fail))
			default:
				ns, src := g.tx(fail)
				op = append(op, "tx", strconv.Itoa(ns), g.limit(), src)
			}
		}
		c.Emit(op...)
	}
}

func c33RunOnce(op []string) []string {
	useVM := op[1] == "vm"
	w := host.NewWorld()
	var out []string
	for i := 2; i+3 < len(op); i += 4 {
		kind, src := op[i], op[i+3]
		src = strings.ReplaceAll(src, "@C1@", c24Quote(c24ContractC))
		src = strings.ReplaceAll(src, "@C2@", c24Quote(c24ContractC2))
		ns, _ := strconv.Atoi(op[i+1])
		limit, _ := strconv.ParseUint(op[i+2], 10, 64)
		if limit == 0 {
			limit = 100000
		}
		w.Signers = nil
		for j := 0; j < ns; j++ {
			w.Signers = append(w.Signers, common.Address{0, 0, 0, 0, 0, 0, 0, byte(j + 1)})
		}
		h := host.New(w)
		h.Limit = limit
		res := host.Run(h, kind, src, nil, useVM, uint64(i))
		cl, k := host.ErrClass(res.Err)
		val := ""
		if res.Value != nil {
			val = res.Value.String()
		}
		// the full observation of this step (not printed; compared between runs)
		full := strings.Join(h.Trace, " ") + " ## " + strings.Join(h.Logs, "\x1f") + " ## " + strings.Join(h.Events, "\x1f") +
			" ## " + cl + ":" + k + ":" + val + " ## " + w.Snapshot()
		out = append(out, full)
	}
	return out
}

func c33Exec(op []string) string {
	if len(op) < 2 || op[0] != "det" || (len(op)-2)%4 != 0 {
		return "bad-op"
	}
	old := goruntime.GOMAXPROCS(0)
	defer goruntime.GOMAXPROCS(old)
	var runs [][]string
	for _, procs := range []int{1, 2, old} {
		goruntime.GOMAXPROCS(procs)
		runs = append(runs, c33RunOnce(op))
	}
	verdict := "same"
	for r := 1; r < len(runs) && verdict == "same"; r++ {
		for s := range runs[0] {
			if s >= len(runs[r]) || runs[r][s] != runs[0][s] {
				verdict = "diff:" + strconv.Itoa(s)
				break
			}
		}
	}
	var traces []string
	for _, full := range runs[0] {
		traces = append(traces, strings.SplitN(full, " ## ", 2)[0])
	}
	return verdict + " ;; runs=3 ;; " + strings.Join(traces, " | ")
}
