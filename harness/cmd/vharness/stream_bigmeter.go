package main

// Stream `bigmeter` (property C32): every metered operation of the arbitrary-precision types Int and
// UInt (the only callers of common.New…BigIntMemoryUsage) is run on the real value methods with a
// recording memory gauge; the observation is the amount metered for the big-int result
// (MemoryKindBigInt) and the size of the result actually produced, len(result.Bits()) * 8.
// Uses numCall / numErrKind of stream_num.go: list stream_num.go in PROP["harness_files"].
//
// Line:  bigmeter <Int|UInt> <Method> <a> <b>  =>  m:<metered bytes>,s:<result bytes> | err:<kind> | panic
// Operands: word lengths 0..200 (values at word boundaries 2^(64k) - 1, 2^(64k), 2^(64k) + 1, random
// fill, both signs for Int), divisors straddling the 100-word threshold of the division formula,
// shift amounts up to several thousand bits.

import (
	"fmt"
	"math/big"

	"github.com/onflow/cadence/common"
	"github.com/onflow/cadence/interpreter"

	"verif/harness/internal/hx"
)

func init() {
	hx.Register(&hx.Stream{Name: "bigmeter", Gen: genBigMeter, Exec: bigMeterExec, Parallel: true})
}

var bigMeterOps = []string{"Plus", "Minus", "Mul", "Div", "Mod", "BitwiseOr", "BitwiseXor", "BitwiseAnd", "Negate"}
var bigMeterShifts = []string{"BitwiseLeftShift", "BitwiseRightShift"}

// a number of exactly `words` 64-bit words (0 for words == 0), boundary-biased
func bigMeterValue(r *hx.Rng, words int, signed bool) *big.Int {
	if words == 0 {
		return big.NewInt(0)
	}
	lo := new(big.Int).Lsh(big.NewInt(1), uint(64*(words-1))) // least value with `words` words
	hi := new(big.Int).Sub(new(big.Int).Lsh(big.NewInt(1), uint(64*words)), big.NewInt(1))
	var x *big.Int
	switch r.Intn(6) {
	case 0:
		x = lo
	case 1:
		x = hi
	case 2:
		x = new(big.Int).Add(lo, big.NewInt(int64(r.Intn(3))))
	case 3:
		x = new(big.Int).Sub(hi, big.NewInt(int64(r.Intn(3))))
	default:
		x = new(big.Int).SetBytes(r.Bytes(8 * words))
		x.SetBit(x, 64*(words-1)+r.Intn(64), 1)
	}
	if x.Cmp(lo) < 0 {
		x = lo
	}
	x = new(big.Int).Set(x)
	if signed && r.Chance(40) {
		x.Neg(x)
	}
	return x
}

func bigMeterWords(r *hx.Rng) int {
	switch r.Intn(8) {
	case 0:
		return r.Intn(3)
	case 1:
		return 38 + r.Intn(6) // Karatsuba threshold of the multiplication formula (40)
	case 2:
		return 97 + r.Intn(6) // threshold of the division formula (100)
	case 3:
		return 150 + r.Intn(51)
	default:
		return r.Intn(201)
	}
}

func genBigMeter(c *hx.Ctx) {
	r := c.Rng
	for _, tn := range []string{"Int", "UInt"} {
		signed := tn == "Int"
		// every pair of small word lengths once (0..6 x 0..6), every operation
		for wa := 0; wa <= 6; wa++ {
			for wb := 0; wb <= 6; wb++ {
				a, b := bigMeterValue(r, wa, signed), bigMeterValue(r, wb, signed)
				for _, op := range bigMeterOps {
					c.Emit("bigmeter", tn, op, a.String(), b.String())
				}
			}
		}
		for i := 0; i < c.N; i++ {
			wa, wb := bigMeterWords(r), bigMeterWords(r)
			if r.Chance(30) { // close lengths: quotients of few words, remainders of many
				wb = wa - r.Intn(3)
				if wb < 0 {
					wb = 0
				}
			}
			a, b := bigMeterValue(r, wa, signed), bigMeterValue(r, wb, signed)
			if r.Chance(10) && wa > 0 { // a = 2b - 1 and friends: remainder as long as the divisor
				a = new(big.Int).Add(new(big.Int).Lsh(b, 1), big.NewInt(int64(r.Intn(3))-1))
			}
			for _, op := range bigMeterOps {
				c.Emit("bigmeter", tn, op, a.String(), b.String())
			}
		}
		for i := 0; i < c.N; i++ {
			a := bigMeterValue(r, bigMeterWords(r), signed)
			var k int
			switch r.Intn(5) {
			case 0:
				k = r.Intn(70)
			case 1:
				k = 64 * r.Intn(40)
			case 2:
				k = 64*r.Intn(40) + r.Intn(3) - 1
			default:
				k = r.Intn(6000)
			}
			if k < 0 {
				k = 0
			}
			for _, op := range bigMeterShifts {
				c.Emit("bigmeter", tn, op, a.String(), fmt.Sprint(k))
			}
		}
	}
}

type bigMeterRecorder struct{ amount uint64 }

func (g *bigMeterRecorder) MeterMemory(u common.MemoryUsage) error {
	if u.Kind == common.MemoryKindBigInt {
		g.amount += u.Amount
	}
	return nil
}

func bigMeterExec(op []string) (out string) {
	if len(op) < 5 {
		return "bad-op"
	}
	t, ok := numTypeByName(op[1])
	if !ok || t.bits != 0 {
		return "bad-op"
	}
	a, okA := new(big.Int).SetString(op[3], 10)
	b, okB := new(big.Int).SetString(op[4], 10)
	if !okA || !okB || !t.inRange(a) || !t.inRange(b) {
		return "bad-op"
	}
	rec := &bigMeterRecorder{}
	inter, err := interpreter.NewInterpreter(nil, common.ScriptLocation{}, &interpreter.Config{
		Storage:     interpreter.NewInMemoryStorage(nil, nil),
		MemoryGauge: rec,
	})
	if err != nil {
		return "bad-op"
	}
	defer func() {
		if r := recover(); r != nil {
			out = numErrKind(r)
		}
	}()
	va, vb := t.mk(a), t.mk(b) // unmetered constructors
	rec.amount = 0
	res, ok := numCall(inter, op[2], va, vb)
	if !ok {
		return "bad-op"
	}
	if res == nil {
		return "nil"
	}
	var bi *big.Int
	switch v := res.(type) {
	case interpreter.IntValue:
		bi = v.BigInt
	case interpreter.UIntValue:
		bi = v.BigInt
	default:
		return "bad-op"
	}
	return fmt.Sprintf("m:%d,s:%d", rec.amount, len(bi.Bits())*8)
}
