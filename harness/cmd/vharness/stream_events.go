package main

// Stream `events` (property C48).
//
//   events  prog  <label>  forms=<..>  <sx>  <source>
//      => `<obs interp> @@ <obs vm> @@ <obs vmopt>` | `reject:<first checker error>`
//         obs = <outcome>|<logs>|<events>; every event is the recording host's EmitEvent payload:
//         short type id, field names in payload order, exported values (internal/l3run)

import (
	"strconv"
	"strings"

	"verif/harness/internal/hx"
	"verif/harness/internal/l3run"
	"verif/harness/internal/l3sx"
	"verif/harness/internal/lang"
)

func init() {
	hx.Register(&hx.Stream{Name: "events", Gen: genEvents, Exec: execEvents, Parallel: true})
}

func genEvents(c *hx.Ctx) {
	for i := 0; i < c.N; i++ {
		p := l3sx.GenEvents(c.Rng.Fork())
		c.Emit("events", "prog", "g"+strconv.Itoa(i), "forms="+strings.Join(p.FormList(), ","), p.SX(),
			strings.ReplaceAll(p.Src(), "\n", "\\n"))
	}
}

func execEvents(op []string) string {
	src := strings.ReplaceAll(op[len(op)-1], "\\n", "\n")
	if _, err := lang.Check(src); err != nil {
		return "reject:" + l3run.FirstKind(err)
	}
	return l3run.RunAll(src)
}
