package main

// Stream `view` (property C07).
//
//   view  prog  <label>  forms=<..>  <sx>  <source>
//      => `purity-errors=<n> other-errors=<k> [<first other error>]`           when the checker rejects
//       | `accepted <obs interp> @@ <obs vm> @@ <obs vmopt>`                   otherwise; the script returns
//         [dump before, dump after] of every value that existed before the call of the view method

import (
	"errors"
	"fmt"
	"strconv"
	"strings"

	"github.com/onflow/cadence/sema"

	"verif/harness/internal/hx"
	"verif/harness/internal/l3run"
	"verif/harness/internal/l3sx"
	"verif/harness/internal/lang"
)

func init() {
	hx.Register(&hx.Stream{Name: "view", Gen: genView, Exec: execView, Parallel: true})
}

func genView(c *hx.Ctx) {
	for i := 0; i < c.N; i++ {
		p := l3sx.GenView(c.Rng.Fork())
		c.Emit("view", "prog", "g"+strconv.Itoa(i), "forms="+strings.Join(p.Forms, ","), p.SXs,
			strings.ReplaceAll(p.Src, "\n", "\\n"))
	}
}

func execView(op []string) string {
	src := strings.ReplaceAll(op[len(op)-1], "\\n", "\n")
	if _, err := lang.Check(src); err != nil {
		var ce *sema.CheckerError
		if !errors.As(err, &ce) {
			return "purity-errors=0 other-errors=1 " + l3run.FirstKind(err)
		}
		nPur, nOther, first := 0, 0, ""
		for _, e := range ce.Errors {
			var pe *sema.PurityError
			if errors.As(e, &pe) {
				nPur++
			} else {
				nOther++
				if first == "" {
					first = strings.ReplaceAll(fmt.Sprintf("%T", e), " ", "_")
				}
			}
		}
		return fmt.Sprintf("purity-errors=%d other-errors=%d %s", nPur, nOther, first)
	}
	return "accepted " + l3run.RunAll(src)
}
