package main

// Stream `cast` (property C09): `as?`, `as!`, `isInstance`, `getType().isSubtype(of:)` on values × target
// types, through scripts on the real runtime, in both engines.
//
// op:  cast ENGINE VALUE TYPE   (VALUE: `at T` | `nil` | `sm V` | `rf AUTH V`; T and TYPE in the Polish
//                                notation of stream `types`, nominal facts written out)
//   -> c=0|1 i=0|1 g=0|1 rty=<run-time type of the cast result, location prefix removed | ->  f=ok|fail
//      c: `v as? T` is non-nil; i: `v.isInstance(Type<T>())`; g: `v.getType().isSubtype(of: Type<T>())`;
//      f: a second script evaluating `v as! T` finished (ok) or raised ForceCastTypeMismatchError (fail)
//
// op:  cast both VALUE DECLARED-TYPE TYPE   (resource values: the cast moves them)
//   -> <interp observation> || <vm observation>, each
//      c=0|1 i=0|1 g=0|1 vty=<v.getType().identifier> rty=<type of the `as?` result|-> ri=<probe bits|->
//      f=ok|fail frty=<type of the `as!` result|-> fri=<probe bits|->
//      script 1 creates the resource, asks isInstance / getType, casts it with `as?` (moving it), asks the
//      result for its run-time type and for `isInstance` of the probe types (rcastProbes) and destroys it;
//      script 2 does the same with `as!`.

import (
	"fmt"
	"os"
	"regexp"
	"strings"

	"github.com/onflow/cadence"

	"verif/harness/internal/cdc"
	"verif/harness/internal/hx"
)

func init() {
	hx.Register(&hx.Stream{Name: "cast", Gen: genCast, Exec: execCast, Parallel: true})
}

const castDecls = `
access(all) entitlement E
access(all) entitlement F
access(all) entitlement G
access(all) struct interface SI {}
access(all) struct interface SK {}
access(all) struct S: SI {}
access(all) struct S2 {}
access(all) enum En: UInt8 { access(all) case a }
access(all) resource interface RI {}
access(all) resource interface RK {}
access(all) resource R: RI {}
access(all) resource R2 {}
`

type castValue struct {
	enc   string // model encoding
	setup string // statements before the declaration of `v`
	typ   string // declared type of `v`
	expr  string
}

const (
	castS  = "comp S struct SI 0"
	castS2 = "comp S2 struct - 0"
	castEn = "comp En enum - 0"
	castSI = "if SI struct -"
	castSK = "if SK struct -"
)

var castValues = []castValue{
	{"at p Int8", "", "Int8", "1"},
	{"at p Int", "", "Int", "1"},
	{"at p UInt64", "", "UInt64", "1"},
	{"at p Word8", "", "Word8", "1"},
	{"at p UFix64", "", "UFix64", "1.0"},
	{"at p Fix64", "", "Fix64", "-1.0"},
	{"at p String", "", "String", `"a"`},
	{"at p Bool", "", "Bool", "true"},
	{"at p Address", "", "Address", "0x1"},
	{"at p Character", "", "Character", `"a"`},
	{"at p StoragePath", "", "StoragePath", "/storage/a"},
	{"at p PublicPath", "", "PublicPath", "/public/a"},
	{"at p MetaType", "", "Type", "Type<Int>()"},
	{"at va p Int", "", "[Int]", "[1, 2]"},
	{"at va p Integer", "", "[Integer]", "[1]"},
	{"at va p AnyStruct", "", "[AnyStruct]", "[]"},
	{"at va va p Int", "", "[[Int]]", "[[1]]"},
	{"at ca 2 p Int", "", "[Int; 2]", "[1, 2]"},
	{"at d p String p Int", "", "{String: Int}", `{"a": 1}`},
	{"at " + castS, "", "S", "S()"},
	{"at " + castS2, "", "S2", "S2()"},
	{"at " + castEn, "", "En", "En.a"},
	{"at f impure 1 p Int p Int", "", "fun(Int): Int", "fun (x: Int): Int { return x }"},
	{"at cap r u p Int", "", "Capability<&Int>", "getAccount(0x1).capabilities.get<&Int>(/public/x)"},
	// optionals
	{"sm at p Int8", "", "Int8?", "1"},
	{"sm sm at p Int8", "", "Int8??", "1"},
	{"nil", "", "Int8?", "nil"},
	{"nil", "let n: Int8? = nil", "Int8??", "n"}, // a nested nil is the plain nil value
	{"sm at " + castS, "", "S?", "S()"},
	{"sm at va p Int", "", "[Int]?", "[1]"},
	{"sm sm sm at p Int8", "", "Int8???", "1"},
	{"sm sm at " + castS, "", "S??", "S()"},
	{"sm sm at va p Int", "", "[Int]??", "[1]"},
	{"sm sm at p Int8", "let w: Int8?? = 1", "AnyStruct", "w"}, // the static value type is not the run-time type
	{"sm sm at " + castS, "let w: S?? = S()", "AnyStruct?", "w"},
	// ephemeral references
	{"rf u at " + castS, "let s = S()", "&S", "&s"},
	{"rf c:E at " + castS, "let s = S()", "auth(E) &S", "&s"},
	{"rf c:E,F at " + castS, "let s = S()", "auth(E, F) &S", "&s"},
	{"rf d:E,F at " + castS, "let s = S()", "auth(E | F) &S", "&s"},
	{"rf u at " + castS, "let s = S()", "&{SI}", "&s"},
	{"rf c:E at " + castS, "let s = S()", "auth(E) &AnyStruct", "&s"},
	{"rf u at p Int", "let n = 1", "&Int", "&n"},
	{"rf c:E at p Int", "let n = 1", "auth(E) &Int", "&n"},
	{"rf u at va p Int", "let arr = [1]", "&[Int]", "&arr"},
	{"rf c:E at va p Int", "let arr = [1]", "auth(E) &[Int]", "&arr"},
	{"sm rf u at " + castS, "let s = S()", "(&S)?", "&s"},
	// containers of references (casting to AnyStruct strips the entitlements from the static type)
	{"at va r c:E p Int", "let n = 1", "[auth(E) &Int]", "[&n]"},
	{"at va r u p Int", "let n = 1", "[&Int]", "[&n]"},
	// references authorized by two-entitlement sets (conjunctions / disjunctions that overlap with the
	// target types' sets), top-level and nested in arrays / dictionaries / optionals
	{"rf c:E,F at p Int", "let n = 1", "auth(E, F) &Int", "&n"},
	{"rf d:E,F at p Int", "let n = 1", "auth(E | F) &Int", "&n"},
	{"sm rf c:E,F at p Int", "let n = 1", "(auth(E, F) &Int)?", "&n"},
	{"at va r c:E,F p Int", "let n = 1", "[auth(E, F) &Int]", "[&n]"},
	{"at va r d:E,F p Int", "let n = 1", "[auth(E | F) &Int]", "[&n]"},
	{"at va r c:F,G p Int", "let n = 1", "[auth(F, G) &Int]", "[&n]"},
	{"at ca 1 r c:E,F p Int", "let n = 1", "[auth(E, F) &Int; 1]", "[&n]"},
	{"at va o r c:E,F p Int", "let n = 1", "[(auth(E, F) &Int)?]", "[&n]"},
	{"at va va r d:E,F p Int", "let n = 1", "[[auth(E | F) &Int]]", "[[&n]]"},
	{"at d p String r c:E,F p Int", "let n = 1", "{String: auth(E, F) &Int}", `{"a": &n}`},
	{"at d p String r d:E,F p Int", "let n = 1", "{String: auth(E | F) &Int}", `{"a": &n}`},
	{"sm at va r c:E,F p Int", "let n = 1", "[auth(E, F) &Int]?", "[&n]"},
	{"sm at d p String r d:E,F p Int", "let n = 1", "{String: auth(E | F) &Int}?", `{"a": &n}`},
}

type castType struct{ enc, src string }

var castTypes = []castType{
	{"p AnyStruct", "AnyStruct"}, {"o p AnyStruct", "AnyStruct?"}, {"o o p AnyStruct", "AnyStruct??"},
	{"p HashableStruct", "HashableStruct"}, {"p Number", "Number"}, {"p SignedNumber", "SignedNumber"},
	{"p Integer", "Integer"}, {"p SignedInteger", "SignedInteger"}, {"p FixedSizeUnsignedInteger", "FixedSizeUnsignedInteger"},
	{"p FixedPoint", "FixedPoint"}, {"p SignedFixedPoint", "SignedFixedPoint"},
	{"p Int", "Int"}, {"p Int8", "Int8"}, {"p UInt64", "UInt64"}, {"p Word8", "Word8"}, {"p UFix64", "UFix64"}, {"p Fix64", "Fix64"},
	{"p String", "String"}, {"p Bool", "Bool"}, {"p Address", "Address"}, {"p Character", "Character"},
	{"p Path", "Path"}, {"p StoragePath", "StoragePath"}, {"p CapabilityPath", "CapabilityPath"}, {"p PublicPath", "PublicPath"},
	{"p MetaType", "Type"}, {"p Never", "Never"}, {"p Void", "Void"}, {"p AnyStructAttachment", "AnyStructAttachment"},
	{"o p Int8", "Int8?"}, {"o o p Int8", "Int8??"}, {"o p Integer", "Integer?"}, {"o p Never", "Never?"}, {"o p String", "String?"},
	{"va p Int", "[Int]"}, {"va p Integer", "[Integer]"}, {"va p AnyStruct", "[AnyStruct]"}, {"va va p Int", "[[Int]]"},
	{"ca 2 p Int", "[Int; 2]"}, {"ca 3 p Int", "[Int; 3]"}, {"ca 2 p Integer", "[Integer; 2]"}, {"o va p Int", "[Int]?"},
	{"va r u p Int", "[&Int]"}, {"va r c:E p Int", "[auth(E) &Int]"},
	{"d p String p Int", "{String: Int}"}, {"d p String p AnyStruct", "{String: AnyStruct}"}, {"d p HashableStruct p Int", "{HashableStruct: Int}"},
	{castS, "S"}, {castS2, "S2"}, {castEn, "En"}, {"in 1 " + castSI, "{SI}"}, {"in 1 " + castSK, "{SK}"}, {"o " + castS, "S?"},
	{"r u " + castS, "&S"}, {"r c:E " + castS, "auth(E) &S"}, {"r c:F " + castS, "auth(F) &S"}, {"r c:E,F " + castS, "auth(E, F) &S"},
	{"r d:E,F " + castS, "auth(E | F) &S"}, {"r u in 1 " + castSI, "&{SI}"}, {"r u in 1 " + castSK, "&{SK}"},
	{"r u p AnyStruct", "&AnyStruct"}, {"r c:E p AnyStruct", "auth(E) &AnyStruct"}, {"r u " + castS2, "&S2"},
	{"r u p Int", "&Int"}, {"r c:E p Int", "auth(E) &Int"}, {"r u p Integer", "&Integer"},
	{"r u va p Int", "&[Int]"}, {"r c:E va p Int", "auth(E) &[Int]"}, {"r u va p AnyStruct", "&[AnyStruct]"},
	{"o r u " + castS, "(&S)?"},
	// two-entitlement sets overlapping with those of the values (E,F / E,G / F,G / E|F / E|G)
	{"r c:E,F p Int", "auth(E, F) &Int"}, {"r c:E,G p Int", "auth(E, G) &Int"}, {"r c:F,G p Int", "auth(F, G) &Int"},
	{"r d:E,F p Int", "auth(E | F) &Int"}, {"r d:E,G p Int", "auth(E | G) &Int"}, {"o r c:E,G p Int", "(auth(E, G) &Int)?"},
	{"va r c:E,F p Int", "[auth(E, F) &Int]"}, {"va r c:E,G p Int", "[auth(E, G) &Int]"}, {"va r c:F,G p Int", "[auth(F, G) &Int]"},
	{"va r d:E,F p Int", "[auth(E | F) &Int]"}, {"va r d:E,G p Int", "[auth(E | G) &Int]"}, {"va r d:F,G p Int", "[auth(F | G) &Int]"},
	{"va r c:E,F,G p Int", "[auth(E, F, G) &Int]"}, {"va r d:E,F,G p Int", "[auth(E | F | G) &Int]"},
	{"ca 1 r c:E,G p Int", "[auth(E, G) &Int; 1]"}, {"va o r c:E,G p Int", "[(auth(E, G) &Int)?]"}, {"va va r d:E,G p Int", "[[auth(E | G) &Int]]"},
	{"d p String r c:E,F p Int", "{String: auth(E, F) &Int}"}, {"d p String r c:E,G p Int", "{String: auth(E, G) &Int}"},
	{"d p String r d:E,G p Int", "{String: auth(E | G) &Int}"},
	{"o va r c:E,G p Int", "[auth(E, G) &Int]?"}, {"o d p String r d:E,G p Int", "{String: auth(E | G) &Int}?"},
	{"capany", "Capability"}, {"cap r u p Int", "Capability<&Int>"}, {"cap r u p AnyStruct", "Capability<&AnyStruct>"},
	{"f impure 1 p Int p Int", "fun(Int): Int"}, {"f impure 1 p Int8 p Integer", "fun(Int8): Integer"}, {"f view 1 p Int p Int", "view fun(Int): Int"},
}

func castFind(enc string) *castValue {
	for i := range castValues {
		if castValues[i].enc+"|"+castValues[i].typ == enc {
			return &castValues[i]
		}
	}
	return nil
}

var castLocRe = regexp.MustCompile(`s\.[0-9a-f]{64}\.`)

func castRun(src string, useVM bool) (*cdc.Outcome, []string) {
	env := cdc.NewEnv()
	out := env.Script(src, nil, useVM)
	if out.Err != nil {
		if os.Getenv("VERIF_DEBUG") != "" {
			fmt.Fprintf(os.Stderr, "script error: %v\n%s\n", out.Err, src)
		}
		return out, nil
	}
	arr, ok := out.Value.(cadence.Array)
	if !ok {
		return out, nil
	}
	var res []string
	for _, v := range arr.Values {
		switch v := v.(type) {
		case cadence.String:
			res = append(res, string(v))
		case cadence.Bool:
			if v {
				res = append(res, "1")
			} else {
				res = append(res, "0")
			}
		default:
			res = append(res, "?")
		}
	}
	return out, res
}

func execCast(op []string) string {
	if op[1] == "both" {
		return execRcast(op)
	}
	// op: cast ENGINE VALUE-ENC DECLARED-TYPE TYPE-ENC
	val := castFind(op[2] + "|" + op[3])
	if val == nil {
		panic("unknown value " + op[2])
	}
	var ty *castType
	for i := range castTypes {
		if castTypes[i].enc == op[4] {
			ty = &castTypes[i]
		}
	}
	if ty == nil {
		panic("unknown type " + op[4])
	}
	useVM := op[1] == "vm"
	rty := `r.getType().identifier`
	// `if let` tests whether the cast produced a value (comparing `v as? T?` with nil does not: a
	// successful cast of nil is `Some(nil)`, which equals nil)
	src := castDecls + `
access(all) fun main(): [AnyStruct] {
  ` + val.setup + `
  let v: ` + val.typ + ` = ` + val.expr + `
  var c = false
  var rty = "-"
  if let r = v as? ` + ty.src + ` {
    c = true
    rty = ` + rty + `
  }
  return [c, v.isInstance(Type<` + ty.src + `>()), v.getType().isSubtype(of: Type<` + ty.src + `>()), rty]
}`
	out, res := castRun(src, useVM)
	if res == nil {
		return "err:" + out.Class
	}
	src2 := castDecls + `
access(all) fun main(): [AnyStruct] {
  ` + val.setup + `
  let v: ` + val.typ + ` = ` + val.expr + `
  let r = v as! ` + ty.src + `
  return [true]
}`
	f := "ok"
	out2, res2 := castRun(src2, useVM)
	if res2 == nil {
		if strings.Contains(out2.Kind, "ForceCastTypeMismatchError") {
			f = "fail"
		} else {
			f = "err:" + out2.Class + ":" + out2.Kind
		}
	}
	return "c=" + res[0] + " i=" + res[1] + " g=" + res[2] + " rty=" + castLocRe.ReplaceAllString(res[3], "") + " f=" + f
}

// ---- resources ----

const (
	castR  = "comp R resource RI 0"
	castR2 = "comp R2 resource - 0"
	castRI = "if RI resource -"
	castRK = "if RK resource -"
)

// resource values: `let v: @typ <- expr` after `setup`
var rcastValues = []castValue{
	{"at " + castR, "", "@R", "create R()"},
	{"sm at " + castR, "", "@R?", "create R()"},
	{"sm sm at " + castR, "", "@R??", "create R()"},
	{"sm sm sm at " + castR, "", "@R???", "create R()"},
	{"nil", "", "@R?", "nil"},
	{"nil", "", "@R??", "nil"},
	{"at " + castR2, "", "@R2", "create R2()"},
	{"sm sm at " + castR2, "", "@R2??", "create R2()"},
	// statically typed as an interface / AnyResource (the static value type is not the run-time type)
	{"at " + castR, "", "@{RI}", "create R()"},
	{"at " + castR, "", "@AnyResource", "create R()"},
	{"sm at " + castR, "", "@AnyResource?", "create R()"},
	{"sm sm at " + castR, "let w: @R?? <- create R()", "@AnyResource", "w"},
	{"sm sm at " + castR, "let w: @R?? <- create R()", "@AnyResource?", "w"},
	{"sm sm at " + castR, "let w: @{RI}?? <- create R()", "@AnyResource??", "w"},
	// containers
	{"at va " + castR, "", "@[R]", "[<-create R()]"},
	{"at va o " + castR, "", "@[R?]", "[<-create R()]"},
	{"at va o o " + castR, "", "@[R??]", "[<-create R()]"},
	{"at va p AnyResource", "", "@[AnyResource]", "[<-create R()]"},
	{"at va in 1 " + castRI, "", "@[{RI}]", "[<-create R()]"},
	{"at ca 1 " + castR, "", "@[R; 1]", "[<-create R()]"},
	{"sm at va " + castR, "", "@[R]?", "[<-create R()]"},
	{"sm sm at va o " + castR, "", "@[R?]??", "[<-create R()]"},
	{"at va va " + castR, "", "@[[R]]", "[<-[<-create R()]]"},
	{"at d p String " + castR, "", "@{String: R}", `{"a": <-create R()}`},
	{"at d p String o " + castR, "", "@{String: R?}", `{"a": <-create R()}`},
	{"sm sm at d p String " + castR, "", "@{String: R}??", `{"a": <-create R()}`},
}

var rcastTypes = []castType{
	{"p AnyResource", "@AnyResource"}, {"o p AnyResource", "@AnyResource?"}, {"o o p AnyResource", "@AnyResource??"},
	{"o o o p AnyResource", "@AnyResource???"},
	{castR, "@R"}, {"o " + castR, "@R?"}, {"o o " + castR, "@R??"}, {"o o o " + castR, "@R???"},
	{castR2, "@R2"}, {"o " + castR2, "@R2?"},
	{"in 1 " + castRI, "@{RI}"}, {"o in 1 " + castRI, "@{RI}?"}, {"o o in 1 " + castRI, "@{RI}??"}, {"in 1 " + castRK, "@{RK}"},
	{"va " + castR, "@[R]"}, {"va o " + castR, "@[R?]"}, {"va o o " + castR, "@[R??]"},
	{"va p AnyResource", "@[AnyResource]"}, {"va o p AnyResource", "@[AnyResource?]"},
	{"va in 1 " + castRI, "@[{RI}]"}, {"va " + castR2, "@[R2]"}, {"ca 1 " + castR, "@[R; 1]"}, {"ca 2 " + castR, "@[R; 2]"},
	{"o va " + castR, "@[R]?"}, {"o o va p AnyResource", "@[AnyResource]??"}, {"va va " + castR, "@[[R]]"},
	{"d p String " + castR, "@{String: R}"}, {"d p String o " + castR, "@{String: R?}"},
	{"d p String p AnyResource", "@{String: AnyResource}"}, {"o d p String " + castR, "@{String: R}?"},
}

// the types the cast result is asked `isInstance` of
var rcastProbes = []string{"@R", "@R?", "@R??", "@{RI}", "@AnyResource", "@[R]", "@[R?]", "@[AnyResource]", "@{String: R}"}

func rcastProbeExpr(v string) string {
	parts := make([]string, len(rcastProbes))
	for i, p := range rcastProbes {
		parts[i] = `(` + v + `.isInstance(Type<` + p + `>()) ? "1" : "0")`
	}
	return parts[0] + `.concat(` + strings.Join(parts[1:], `).concat(`) + `)`
}

func rcastOne(val *castValue, ty *castType, useVM bool) string {
	src := castDecls + `
access(all) fun main(): [AnyStruct] {
  ` + val.setup + `
  let v: ` + val.typ + ` <- ` + val.expr + `
  let i = v.isInstance(Type<` + ty.src + `>())
  let g = v.getType().isSubtype(of: Type<` + ty.src + `>())
  let vty = v.getType().identifier
  var c = false
  var rty = "-"
  var ri = "-"
  if let r <- v as? ` + ty.src + ` {
    c = true
    rty = r.getType().identifier
    ri = ` + rcastProbeExpr("r") + `
    destroy r
  } else {
    destroy v
  }
  return [c, i, g, vty, rty, ri]
}`
	out, res := castRun(src, useVM)
	if res == nil {
		return "err:" + out.Class + ":" + out.Kind
	}
	src2 := castDecls + `
access(all) fun main(): [AnyStruct] {
  ` + val.setup + `
  let v: ` + val.typ + ` <- ` + val.expr + `
  let r <- v as! ` + ty.src + `
  let frty = r.getType().identifier
  let fri = ` + rcastProbeExpr("r") + `
  destroy r
  return [frty, fri]
}`
	f, frty, fri := "ok", "-", "-"
	out2, res2 := castRun(src2, useVM)
	if res2 == nil {
		if strings.Contains(out2.Kind, "ForceCastTypeMismatchError") {
			f = "fail"
		} else {
			f = "err:" + out2.Class + ":" + out2.Kind
		}
	} else {
		frty, fri = castLocRe.ReplaceAllString(res2[0], ""), res2[1]
	}
	return "c=" + res[0] + " i=" + res[1] + " g=" + res[2] + " vty=" + castLocRe.ReplaceAllString(res[3], "") +
		" rty=" + castLocRe.ReplaceAllString(res[4], "") + " ri=" + res[5] + " f=" + f + " frty=" + frty + " fri=" + fri
}

func execRcast(op []string) string {
	// op: cast both VALUE-ENC DECLARED-TYPE TYPE-ENC
	var val *castValue
	for i := range rcastValues {
		if rcastValues[i].enc == op[2] && rcastValues[i].typ == op[3] {
			val = &rcastValues[i]
		}
	}
	if val == nil {
		panic("unknown value " + op[2])
	}
	var ty *castType
	for i := range rcastTypes {
		if rcastTypes[i].enc == op[4] {
			ty = &rcastTypes[i]
		}
	}
	if ty == nil {
		panic("unknown type " + op[4])
	}
	return rcastOne(val, ty, false) + " || " + rcastOne(val, ty, true)
}

func genCast(c *hx.Ctx) {
	// resources: every value × every target type, both engines in one operation
	for i := range rcastValues {
		for j := range rcastTypes {
			c.Emit("cast", "both", rcastValues[i].enc, rcastValues[i].typ, rcastTypes[j].enc)
		}
	}
	// the full cross product values × target types × engines runs in a few seconds: exhaustive in both tiers
	for i := range castValues {
		for j := range castTypes {
			for _, e := range []string{"interp", "vm"} {
				c.Emit("cast", e, castValues[i].enc, castValues[i].typ, castTypes[j].enc)
			}
		}
	}
}
