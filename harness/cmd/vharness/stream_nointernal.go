package main

// Stream `nointernal` (property C01): the direct oracle "a checker-accepted program never ends with an
// internal / unexpected error, an escaped panic or a timeout, in either engine" over
//   * the typed generators of layers L0–L2 (lang.Generate order / values, lang2 copysem / resown / refinv /
//     casts), where the model evaluator also has to reproduce the observation, and
//   * the "wild" generator: mutated Cadence snippets harvested from the repository's own *_test.go
//     sources (internal/lang2/gen_wild.go), where only the direct oracle applies.
// Exec and line format: stream_lang2.go.

import (
	"strconv"
	"strings"

	"verif/harness/internal/hx"
	"verif/harness/internal/lang"
	"verif/harness/internal/lang2"
)

func init() {
	hx.Register(&hx.Stream{Name: "nointernal", Parallel: true, Exec: execLang2, Gen: func(c *hx.Ctx) {
		wild := lang2.WildCount()
		base := c.Rng.Intn(wild + 1)
		if c.Thorough() {
			// exhaustive part: every harvested snippet once, unmutated
			for j := 0; j < wild; j++ {
				src, forms := lang2.GenerateWild(c.Rng.Fork(), j, 0)
				c.Emit("nointernal", "w"+strconv.Itoa(j), "gen=wild", "forms="+strings.Join(forms, ","), l2Src(src))
			}
		}
		for i := 0; i < c.N; i++ {
			r := c.Rng.Fork()
			var src, gen string
			var forms []string
			switch i % 10 {
			case 0:
				p := lang.Generate(r, "order")
				src, gen, forms = p.Src, "l1-order", p.Forms
			case 1:
				p := lang.Generate(r, "values")
				src, gen, forms = p.Src, "l1-values", p.Forms
			case 2:
				p := lang2.GenerateCopy(r)
				src, gen, forms = p.Src, "l2-copy", p.Forms
			case 3:
				p := lang2.GenerateRes(r)
				src, gen, forms = p.Src, "l2-res", p.Forms
			case 4:
				p := lang2.GenerateRef(r)
				src, gen, forms = p.Src, "l2-ref", p.Forms
			case 5:
				src, forms = lang2.GenerateCasts(r)
				gen = "casts"
			default:
				k := r.Intn(4)
				src, forms = lang2.GenerateWild(r, base+i, k)
				gen = "wild"
			}
			c.Emit("nointernal", "g"+strconv.Itoa(i), "gen="+gen, "forms="+strings.Join(forms, ","), l2Src(src))
		}
	}})
}
