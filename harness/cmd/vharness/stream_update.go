package main

// Stream `update` (property C27).  Two kinds of lines:
//
//	update v <account names> <old S-expr> <new S-expr> <old source> <new source>  =>  ok | err:<sorted error kinds>
//
// The generator builds a contract (declaration tree), mutates it (field add/remove/retype/reorder,
// nested declaration add/remove/rename/kind change, conformance add/remove/reorder, enum case
// add/remove/reorder, #removedType pragmas, imports, root changes), renders both versions as Cadence
// source, parses them with the real parser and serialises what was parsed (internal/declsx).  Exec
// re-parses the sources, checks that the S-expressions on the line are what the parser produces now, and
// runs the real stdlib.ContractUpdateValidator.Validate; the observation is `ok` or the sorted multiset
// of error kinds (Go type names; a FieldMismatchError carries the kind of its inner error).
//
//	update e2e <engine> <scenario> <old S-expr> <new S-expr> <old source> <new source>  =>
//	     rejected:<kinds> | notchecked:<kind> | accepted pre[...] post[...] | accepted pre[...] posterr:<class>:<kind>
//
// full path: deploy old, store values, inspect, update through `contracts.update`, inspect again with
// the new code (see update_e2e below).

import (
	"fmt"
	"os"
	"sort"
	"strings"
	"time"

	"github.com/onflow/cadence/ast"
	"github.com/onflow/cadence/common"
	"github.com/onflow/cadence/parser"
	"github.com/onflow/cadence/stdlib"

	"verif/harness/internal/declsx"
	"verif/harness/internal/hx"
)

func init() {
	hx.Register(&hx.Stream{Name: "update", Gen: genUpdate, Exec: execUpdate, Parallel: true, Timeout: 120 * time.Second})
}

// ---------------------------------------------------------------------------------------------
// declaration trees

type uField struct {
	Name, Type string
	Let        bool
}

type uDecl struct {
	Keyword string // contract | contract interface | struct | struct interface | resource | resource interface | enum | event | attachment
	Name    string
	Confs   []string
	Base    string
	Fields  []uField
	Cases   []string
	Pragmas []string
	Nested  []*uDecl
}

type uProg struct {
	Imports []string
	Root    *uDecl
	Extra   string // extra top-level text (makes the program root-less)
}

func (d *uDecl) clone() *uDecl {
	c := *d
	c.Confs = append([]string{}, d.Confs...)
	c.Fields = append([]uField{}, d.Fields...)
	c.Cases = append([]string{}, d.Cases...)
	c.Pragmas = append([]string{}, d.Pragmas...)
	c.Nested = make([]*uDecl, len(d.Nested))
	for i, n := range d.Nested {
		c.Nested[i] = n.clone()
	}
	return &c
}

func (p *uProg) clone() *uProg {
	c := *p
	c.Imports = append([]string{}, p.Imports...)
	c.Root = p.Root.clone()
	return &c
}

func (d *uDecl) all(out *[]*uDecl) {
	*out = append(*out, d)
	for _, n := range d.Nested {
		n.all(out)
	}
}

func (d *uDecl) render(b *strings.Builder, top bool) {
	b.WriteString("access(all) ")
	b.WriteString(d.Keyword)
	b.WriteString(" ")
	b.WriteString(d.Name)
	if d.Keyword == "event" {
		b.WriteString("(")
		for i, f := range d.Fields {
			if i > 0 {
				b.WriteString(", ")
			}
			b.WriteString(f.Name + ": " + f.Type)
		}
		b.WriteString(") ")
		return
	}
	if d.Keyword == "attachment" {
		b.WriteString(" for " + d.Base)
	}
	if len(d.Confs) > 0 {
		b.WriteString(": " + strings.Join(d.Confs, ", "))
	}
	b.WriteString(" { ")
	for _, p := range d.Pragmas {
		b.WriteString(p + " ")
	}
	for _, f := range d.Fields {
		kw := "var"
		if f.Let {
			kw = "let"
		}
		b.WriteString("access(all) " + kw + " " + f.Name + ": " + f.Type + " ")
	}
	for _, c := range d.Cases {
		b.WriteString("access(all) case " + c + " ")
	}
	for _, n := range d.Nested {
		n.render(b, false)
	}
	b.WriteString("} ")
}

func (p *uProg) source() string {
	var b strings.Builder
	for _, i := range p.Imports {
		b.WriteString(i + " ")
	}
	if top := p.Root; top != nil {
		top.render(&b, true)
	}
	b.WriteString(p.Extra)
	return strings.TrimSpace(b.String())
}

// ---------------------------------------------------------------------------------------------
// generator

type uGen struct {
	r       *hx.Rng
	structs []string
	ress    []string
	sifs    []string
	rifs    []string
	enums   []string
	root    string
	counter int
}

func (g *uGen) fresh(prefix string) string {
	g.counter++
	return fmt.Sprintf("%s%d", prefix, g.counter)
}

func (g *uGen) qual(n string) string {
	if g.r.Chance(30) {
		return g.root + "." + n
	}
	return n
}

func (g *uGen) auth() string {
	switch g.r.Intn(7) {
	case 0:
		return "auth(E) "
	case 1:
		return "auth(E, F) "
	case 2:
		return "auth(F, E) "
	case 3:
		return "auth(E | F) "
	case 4:
		return "auth(mapping M) "
	case 5:
		return "auth(" + g.root + ".E) "
	}
	return ""
}

func (g *uGen) ty(depth int) string {
	r := g.r
	prim := []string{"Int", "String", "Bool", "UFix64", "Address", "UInt8", "AnyStruct"}
	pickOr := func(xs []string, def string) string {
		if len(xs) == 0 {
			return def
		}
		return r.Pick(xs)
	}
	if depth <= 0 {
		if r.Chance(60) {
			return r.Pick(prim)
		}
		return g.qual(pickOr(g.structs, "Int"))
	}
	switch r.Intn(16) {
	case 0, 1:
		return r.Pick(prim)
	case 2, 3:
		return g.qual(pickOr(g.structs, "Int"))
	case 4:
		return g.qual(pickOr(g.enums, "Int"))
	case 5:
		return g.ty(depth-1) + "?"
	case 6:
		return "[" + g.ty(depth-1) + "]"
	case 7:
		return "[" + g.ty(depth-1) + "; " + r.Pick([]string{"2", "3", "0x2", "0b10"}) + "]"
	case 8:
		return "{" + r.Pick([]string{"String", "Int", "Address"}) + ": " + g.ty(depth-1) + "}"
	case 9:
		if len(g.sifs) > 0 {
			n := 1 + r.Intn(2)
			xs := make([]string, n)
			for i := range xs {
				xs[i] = g.qual(r.Pick(g.sifs))
			}
			return "{" + strings.Join(xs, ", ") + "}"
		}
		return "AnyStruct"
	case 10:
		return g.auth() + "&" + g.qual(pickOr(g.structs, "Int"))
	case 11:
		inner := g.auth() + "&" + g.qual(pickOr(append(append([]string{}, g.structs...), g.ress...), "Int"))
		return "Capability<" + inner + ">"
	case 12:
		return r.Pick([]string{"fun(Int): String", "view fun(Int): String", "fun(): Int", "fun(Int, Int): String", "fun(String): String"})
	case 13:
		return r.Pick([]string{"X.Foo", "X.Foo.Bar", "Y.Foo", "Z.Q", "Foo"})
	case 14:
		return g.qual(pickOr(g.ress, "AnyResource"))
	default:
		return r.Pick([]string{"Capability", "Type", "InclusiveRange<Int>", "InclusiveRange<UInt8>", "{" + pickOr(g.rifs, "RI0") + "}"})
	}
}

func (g *uGen) fields(n int) []uField {
	fs := make([]uField, n)
	for i := range fs {
		fs[i] = uField{Name: fmt.Sprintf("f%d", i), Type: g.ty(2), Let: g.r.Bool()}
	}
	return fs
}

func (g *uGen) confsOf(pool []string) []string {
	var out []string
	for _, p := range pool {
		if g.r.Chance(45) {
			out = append(out, g.qual(p))
		}
	}
	return out
}

func (g *uGen) program() *uProg {
	r := g.r
	g.root = "C"
	p := &uProg{}
	if r.Chance(50) {
		p.Imports = append(p.Imports, r.Pick([]string{"import X from 0x2", "import X, Y from 0x2", "import 0x2", "import X as Z from 0x2", "import Crypto", "import Foo from 0x3"}))
	}
	if r.Chance(15) {
		p.Imports = append(p.Imports, r.Pick([]string{"import Y from 0x3", "import 0x3", "import X from 0x3"}))
	}
	root := &uDecl{Keyword: "contract", Name: "C"}
	if r.Chance(12) {
		root.Keyword = "contract interface"
	}
	for i, n := 0, r.Intn(3); i < n; i++ {
		g.sifs = append(g.sifs, fmt.Sprintf("I%d", i))
	}
	for i, n := 0, r.Intn(2); i < n; i++ {
		g.rifs = append(g.rifs, fmt.Sprintf("RI%d", i))
	}
	for i, n := 0, r.Intn(4); i < n; i++ {
		g.structs = append(g.structs, fmt.Sprintf("S%d", i))
	}
	for i, n := 0, r.Intn(3); i < n; i++ {
		g.ress = append(g.ress, fmt.Sprintf("R%d", i))
	}
	for i, n := 0, r.Intn(3); i < n; i++ {
		g.enums = append(g.enums, fmt.Sprintf("E%d", i))
	}
	for i, n := range g.sifs {
		d := &uDecl{Keyword: "struct interface", Name: n, Fields: g.fields(r.Intn(2))}
		if i > 0 && r.Chance(40) {
			d.Confs = []string{g.qual(g.sifs[i-1])}
		}
		root.Nested = append(root.Nested, d)
	}
	for _, n := range g.rifs {
		root.Nested = append(root.Nested, &uDecl{Keyword: "resource interface", Name: n})
	}
	for _, n := range g.structs {
		d := &uDecl{Keyword: "struct", Name: n, Fields: g.fields(r.Intn(5)), Confs: g.confsOf(g.sifs)}
		if r.Chance(8) {
			d.Nested = append(d.Nested, &uDecl{Keyword: "struct", Name: "Inner", Fields: g.fields(r.Intn(3))})
		}
		root.Nested = append(root.Nested, d)
	}
	for _, n := range g.ress {
		root.Nested = append(root.Nested, &uDecl{Keyword: "resource", Name: n, Fields: g.fields(r.Intn(4)), Confs: g.confsOf(g.rifs)})
	}
	for _, n := range g.enums {
		d := &uDecl{Keyword: "enum", Name: n, Confs: []string{"UInt8"}}
		for i, k := 0, r.Intn(5); i < k; i++ {
			d.Cases = append(d.Cases, fmt.Sprintf("c%d", i))
		}
		root.Nested = append(root.Nested, d)
	}
	if r.Chance(30) {
		root.Nested = append(root.Nested, &uDecl{Keyword: "event", Name: "Ev", Fields: g.fields(r.Intn(3))})
	}
	if r.Chance(35) {
		base := "AnyStruct"
		if len(g.structs) > 0 && r.Bool() {
			base = g.qual(g.structs[0])
		}
		root.Nested = append(root.Nested, &uDecl{Keyword: "attachment", Name: "A0", Base: base, Fields: g.fields(r.Intn(2))})
	}
	root.Fields = g.fields(r.Intn(4))
	if r.Chance(20) {
		root.Pragmas = append(root.Pragmas, r.Pick([]string{"#removedType(Gone)", "#removedType(S9)", "#foo(bar)", "#removedType(Gone) #removedType(Gone2)"}))
	}
	// shuffle nested order a little
	if r.Chance(30) && len(root.Nested) > 1 {
		i, j := r.Intn(len(root.Nested)), r.Intn(len(root.Nested))
		root.Nested[i], root.Nested[j] = root.Nested[j], root.Nested[i]
	}
	p.Root = root
	return p
}

var uKeywords = []string{"struct", "resource", "struct interface", "resource interface", "enum", "attachment", "contract", "contract interface", "event"}

func (g *uGen) retype(t string) string {
	r := g.r
	switch r.Intn(12) {
	case 0:
		if strings.HasSuffix(t, "?") {
			return strings.TrimSuffix(t, "?")
		}
		return t + "?"
	case 1: // toggle qualification of the first plain local name
		for _, pool := range [][]string{g.structs, g.ress, g.sifs, g.rifs, g.enums} {
			for _, n := range pool {
				if strings.Contains(t, g.root+"."+n) {
					return strings.Replace(t, g.root+"."+n, n, 1)
				}
				if strings.Contains(t, n) {
					return strings.Replace(t, n, g.root+"."+n, 1)
				}
			}
		}
		return g.ty(2)
	case 2:
		if strings.Contains(t, "; 2]") {
			return strings.Replace(t, "; 2]", r.Pick([]string{"; 3]", "; 0x2]", "; 0b10]"}), 1)
		}
		if strings.Contains(t, "; 0x2]") {
			return strings.Replace(t, "; 0x2]", "; 2]", 1)
		}
		return "[" + t + "]"
	case 3:
		if strings.Contains(t, "auth(") {
			i := strings.Index(t, "auth(")
			j := strings.Index(t[i:], ") ")
			return t[:i] + g.auth() + t[i+j+2:]
		}
		if strings.Contains(t, "&") {
			return strings.Replace(t, "&", "auth(E) &", 1)
		}
		return g.ty(2)
	case 4:
		if strings.HasPrefix(t, "{") && strings.Contains(t, ", ") && !strings.Contains(t, ":") {
			xs := strings.Split(strings.Trim(t, "{}"), ", ")
			xs[0], xs[len(xs)-1] = xs[len(xs)-1], xs[0]
			return "{" + strings.Join(xs, ", ") + "}"
		}
		return g.ty(2)
	case 5:
		if strings.Contains(t, "X.") {
			return strings.Replace(t, "X.", r.Pick([]string{"Y.", "Z.", g.root + "."}), 1)
		}
		if strings.HasPrefix(t, "view fun") {
			return strings.TrimPrefix(t, "view ")
		}
		if strings.HasPrefix(t, "fun") {
			return "view " + t
		}
		return g.ty(1)
	case 6:
		return t // unchanged
	default:
		return g.ty(2)
	}
}

// one mutation; returns a short label
func (g *uGen) mutate(p *uProg) string {
	r := g.r
	var all []*uDecl
	p.Root.all(&all)
	d := all[r.Intn(len(all))]
	withFields := func() *uDecl {
		var c []*uDecl
		for _, x := range all {
			if len(x.Fields) > 0 {
				c = append(c, x)
			}
		}
		if len(c) == 0 {
			return nil
		}
		return c[r.Intn(len(c))]
	}
	withKw := func(kws ...string) *uDecl {
		var c []*uDecl
		for _, x := range all {
			for _, k := range kws {
				if x.Keyword == k {
					c = append(c, x)
				}
			}
		}
		if len(c) == 0 {
			return nil
		}
		return c[r.Intn(len(c))]
	}
	switch r.Intn(30) {
	case 0:
		d.Fields = append(d.Fields, uField{Name: g.fresh("g"), Type: g.ty(2)})
		return "field-add"
	case 1:
		if x := withFields(); x != nil {
			i := r.Intn(len(x.Fields))
			x.Fields = append(x.Fields[:i:i], x.Fields[i+1:]...)
			return "field-remove"
		}
	case 2, 3, 4:
		if x := withFields(); x != nil {
			i := r.Intn(len(x.Fields))
			x.Fields[i].Type = g.retype(x.Fields[i].Type)
			return "field-retype"
		}
	case 5:
		if x := withFields(); x != nil && len(x.Fields) > 1 {
			i, j := r.Intn(len(x.Fields)), r.Intn(len(x.Fields))
			x.Fields[i], x.Fields[j] = x.Fields[j], x.Fields[i]
			return "field-reorder"
		}
	case 6:
		if x := withFields(); x != nil {
			i := r.Intn(len(x.Fields))
			if r.Bool() {
				x.Fields[i].Name = g.fresh("h")
				return "field-rename"
			}
			x.Fields[i].Let = !x.Fields[i].Let
			return "field-letvar"
		}
	case 7:
		if x := withFields(); x != nil {
			f := x.Fields[r.Intn(len(x.Fields))]
			if r.Bool() {
				f.Type = g.ty(1)
			}
			x.Fields = append(x.Fields, f)
			return "field-dup"
		}
	case 8:
		kw := r.Pick(uKeywords[:6])
		n := &uDecl{Keyword: kw, Name: g.fresh("N"), Fields: g.fields(r.Intn(2))}
		if kw == "enum" {
			n.Fields = nil
			n.Confs = []string{"UInt8"}
			n.Cases = []string{"a"}
		}
		if kw == "attachment" {
			n.Base = "AnyStruct"
		}
		if r.Chance(20) && len(p.Root.Pragmas) > 0 { // re-declare a removed type
			n.Name = r.Pick([]string{"Gone", "S9", "Gone2"})
		}
		d.Nested = append(d.Nested, n)
		return "decl-add"
	case 9, 10, 11:
		if len(d.Nested) == 0 {
			d = p.Root
		}
		if len(d.Nested) > 0 {
			i := r.Intn(len(d.Nested))
			name := d.Nested[i].Name
			d.Nested = append(d.Nested[:i:i], d.Nested[i+1:]...)
			switch r.Intn(4) {
			case 0:
				return "decl-remove"
			case 1:
				d.Pragmas = append(d.Pragmas, "#removedType("+name+")")
				return "decl-remove-pragma"
			case 2:
				p.Root.Pragmas = append(p.Root.Pragmas, "#removedType("+name+")")
				return "decl-remove-pragma-root"
			default:
				d.Pragmas = append([]string{"#removedType(" + name + ")"}, d.Pragmas...)
				return "decl-remove-pragma-first"
			}
		}
	case 12:
		if len(d.Nested) > 0 {
			d.Nested[r.Intn(len(d.Nested))].Name = g.fresh("M")
			return "decl-rename"
		}
	case 13:
		if len(d.Nested) > 1 {
			i, j := r.Intn(len(d.Nested)), r.Intn(len(d.Nested))
			d.Nested[i], d.Nested[j] = d.Nested[j], d.Nested[i]
			return "decl-reorder"
		}
	case 14, 15:
		if len(d.Nested) == 0 {
			d = p.Root
		}
		if len(d.Nested) > 0 {
			x := d.Nested[r.Intn(len(d.Nested))]
			x.Keyword = r.Pick(uKeywords)
			if x.Keyword == "attachment" && x.Base == "" {
				x.Base = "AnyStruct"
			}
			return "decl-kind"
		}
	case 16:
		if len(d.Nested) > 0 {
			x := d.Nested[r.Intn(len(d.Nested))].clone()
			if r.Bool() {
				x.Keyword = r.Pick(uKeywords[:6])
				if x.Keyword == "attachment" && x.Base == "" {
					x.Base = "AnyStruct"
				}
			}
			d.Nested = append(d.Nested, x)
			return "decl-dup"
		}
	case 17:
		if x := withKw("struct", "resource", "struct interface", "contract"); x != nil {
			pool := g.sifs
			if x.Keyword == "resource" {
				pool = g.rifs
			}
			c := "I9"
			if len(pool) > 0 {
				c = g.qual(r.Pick(pool))
			}
			if r.Bool() {
				x.Confs = append(x.Confs, c)
			} else {
				x.Confs = append([]string{c}, x.Confs...)
			}
			return "conf-add"
		}
	case 18, 19:
		if x := withKw("struct", "resource", "struct interface", "enum"); x != nil && len(x.Confs) > 0 {
			i := r.Intn(len(x.Confs))
			x.Confs = append(x.Confs[:i:i], x.Confs[i+1:]...)
			return "conf-remove"
		}
	case 20:
		if x := withKw("struct", "resource"); x != nil && len(x.Confs) > 0 {
			i, j := r.Intn(len(x.Confs)), r.Intn(len(x.Confs))
			x.Confs[i], x.Confs[j] = x.Confs[j], x.Confs[i]
			if r.Bool() {
				c := x.Confs[i]
				if strings.HasPrefix(c, g.root+".") {
					x.Confs[i] = strings.TrimPrefix(c, g.root+".")
				} else {
					x.Confs[i] = g.root + "." + c
				}
				return "conf-requalify"
			}
			return "conf-reorder"
		}
	case 21:
		if x := withKw("enum"); x != nil {
			c := g.fresh("k")
			switch r.Intn(3) {
			case 0:
				x.Cases = append(x.Cases, c)
				return "case-add-end"
			case 1:
				x.Cases = append([]string{c}, x.Cases...)
				return "case-add-front"
			default:
				i := 0
				if len(x.Cases) > 0 {
					i = r.Intn(len(x.Cases))
				}
				x.Cases = append(x.Cases[:i:i], append([]string{c}, x.Cases[i:]...)...)
				return "case-add-mid"
			}
		}
	case 22:
		if x := withKw("enum"); x != nil && len(x.Cases) > 0 {
			i := r.Intn(len(x.Cases))
			if r.Chance(30) {
				i = len(x.Cases) - 1
			}
			x.Cases = append(x.Cases[:i:i], x.Cases[i+1:]...)
			return "case-remove"
		}
	case 23:
		if x := withKw("enum"); x != nil && len(x.Cases) > 1 {
			i, j := r.Intn(len(x.Cases)), r.Intn(len(x.Cases))
			x.Cases[i], x.Cases[j] = x.Cases[j], x.Cases[i]
			return "case-swap"
		}
	case 24:
		if x := withKw("enum"); x != nil && len(x.Cases) > 0 {
			x.Cases[r.Intn(len(x.Cases))] = g.fresh("q")
			return "case-rename"
		}
	case 25:
		names := []string{"Gone", "S0", "I0", "E0", "R0", "A0", "Nope"}
		d.Pragmas = append(d.Pragmas, r.Pick([]string{
			"#removedType(" + r.Pick(names) + ")", "#removedType()", "#removedType(a, b)", "#removedType(3)",
			"#removedType(X.Y)", "#foo(bar)", "#foo", "#removedType", "#removedType(\"S0\")"}))
		return "pragma-add"
	case 26:
		if x := p.Root; len(x.Pragmas) > 0 {
			i := r.Intn(len(x.Pragmas))
			x.Pragmas = append(x.Pragmas[:i:i], x.Pragmas[i+1:]...)
			return "pragma-remove"
		}
	case 27:
		switch r.Intn(4) {
		case 0:
			p.Imports = nil
			return "import-drop"
		case 1:
			p.Imports = append(p.Imports, r.Pick([]string{"import X from 0x4", "import Y from 0x2", "import Foo from 0x2", "import 0x4"}))
			return "import-add"
		default:
			if len(p.Imports) > 0 {
				i := r.Intn(len(p.Imports))
				s := p.Imports[i]
				if strings.Contains(s, "0x2") {
					p.Imports[i] = strings.Replace(s, "0x2", "0x3", 1)
				} else {
					p.Imports[i] = r.Pick([]string{"import X from 0x2", "import Q as X from 0x2", "import X as Y from 0x2"})
				}
				return "import-change"
			}
		}
	case 28:
		switch r.Intn(4) {
		case 0:
			p.Root.Name = "D"
			return "root-rename"
		case 1:
			if p.Root.Keyword == "contract" {
				p.Root.Keyword = "contract interface"
			} else {
				p.Root.Keyword = "contract"
			}
			return "root-kind"
		case 2:
			p.Extra = r.Pick([]string{" access(all) fun f() {}", " access(all) contract Other {}", " access(all) struct interface Top {}"})
			return "root-less"
		default:
			p.Root.Keyword = r.Pick([]string{"struct", "resource"})
			return "root-notcontract"
		}
	case 29:
		if x := withKw("attachment"); x != nil {
			x.Base = r.Pick([]string{"AnyStruct", "AnyResource", "S0", g.root + ".S0", "X.Foo"})
			return "attachment-base"
		}
	}
	return "none"
}

func uParse(src string, old bool) (*ast.Program, error) {
	return parser.ParseProgram(nil, []byte(src), parser.Config{IgnoreLeadingIdentifierEnabled: old})
}

func uSX(src string, old bool) string {
	p, err := uParse(src, old)
	if err != nil || p == nil {
		return "-"
	}
	return safeSX(p)
}

func safeSX(p *ast.Program) (s string) {
	defer func() {
		if r := recover(); r != nil {
			s = "-"
		}
	}()
	return declsx.Program(p)
}

var uAccountNames = map[string][]string{"0000000000000002": {"X", "Y"}, "0000000000000003": {"X", "W"}, "0000000000000004": {"Foo"}}

func uNamesField() string {
	var keys []string
	for k := range uAccountNames {
		keys = append(keys, k)
	}
	sort.Strings(keys)
	parts := make([]string, len(keys))
	for i, k := range keys {
		parts[i] = k + "=" + strings.Join(uAccountNames[k], ",")
	}
	return strings.Join(parts, ";")
}

type uNamesProvider map[string][]string

func (p uNamesProvider) GetAccountContractNames(address common.Address) ([]string, error) {
	return p[address.Hex()], nil
}

func parseNamesField(s string) uNamesProvider {
	out := uNamesProvider{}
	if s == "-" {
		return out
	}
	for _, part := range strings.Split(s, ";") {
		kv := strings.SplitN(part, "=", 2)
		if len(kv) != 2 {
			continue
		}
		if kv[1] == "" {
			out[kv[0]] = nil
		} else {
			out[kv[0]] = strings.Split(kv[1], ",")
		}
	}
	return out
}

func genUpdate(c *hx.Ctx) {
	r := c.Rng
	names := uNamesField()
	emitPair := func(label string, oldSrc, newSrc string) {
		c.Emit("update", "v", names, uSX(oldSrc, true), uSX(newSrc, false), oldSrc, newSrc)
		_ = label
	}
	// fixed witnesses: every rule once
	for _, w := range uFixedPairs {
		emitPair("fixed", w[0], w[1])
	}
	for i := 0; i < c.N; i++ {
		g := &uGen{r: r}
		oldP := g.program()
		newP := oldP.clone()
		k := 1 + r.Intn(3)
		if r.Chance(5) {
			k = 0
		}
		if r.Chance(10) {
			k = 4 + r.Intn(4)
		}
		for j := 0; j < k; j++ {
			g.mutate(newP)
		}
		if r.Chance(5) { // occasionally mutate the old side too (old-side pragmas, malformed old code)
			g.mutate(oldP)
		}
		emitPair("gen", oldP.source(), newP.source())
	}
	genUpdateE2E(c)
}

var uFixedPairs = [][2]string{
	{"access(all) contract C { access(all) var a: Int }", "access(all) contract C { access(all) var a: Int }"},
	{"access(all) contract C { access(all) var a: Int }", "access(all) contract C { access(all) var a: String }"},
	{"access(all) contract C { access(all) var a: Int }", "access(all) contract C { access(all) var a: Int access(all) var b: Int }"},
	{"access(all) contract C { access(all) enum E: UInt8 { access(all) case a access(all) case b } }", "access(all) contract C { access(all) enum E: UInt8 { access(all) case b access(all) case a } }"},
	{"access(all) contract C { access(all) enum E: UInt8 { access(all) case a access(all) case b } }", "access(all) contract C { access(all) enum E: UInt8 { access(all) case a } }"},
	{"access(all) contract C { access(all) struct interface I {} access(all) struct S: I {} }", "access(all) contract C { access(all) struct interface I {} access(all) struct S {} }"},
	{"access(all) contract C { access(all) struct S {} }", "access(all) contract C { }"},
	{"access(all) contract C { access(all) struct S {} }", "access(all) contract C { #removedType(S) }"},
	{"access(all) contract C { access(all) struct interface S {} }", "access(all) contract C { #removedType(S) }"},
	{"access(all) contract C { access(all) struct S {} }", "access(all) contract C { access(all) resource S {} }"},
	{"access(all) contract C { #removedType(S) }", "access(all) contract C { }"},
	{"access(all) contract C { #removedType(S) }", "access(all) contract C { #removedType(S) access(all) struct S {} }"},
	{"access(all) contract C { access(all) struct S {} access(all) var s: S }", "access(all) contract C { access(all) struct S {} access(all) var s: C.S }"},
	{"import X from 0x2 access(all) contract C { access(all) var s: X.Foo }", "import X from 0x3 access(all) contract C { access(all) var s: X.Foo }"},
	{"access(all) contract C { access(all) attachment A for AnyStruct {} }", "access(all) contract C { access(all) attachment A for AnyResource {} }"},
	{"access(all) contract C { }", "access(all) contract D { }"},
	{"access(all) contract C { }", "access(all) contract interface C { }"},
	{"access(all) contract C { }", "access(all) fun f() {}"},
	{"access(all) fun f() {}", "access(all) contract C { }"},
	{"access(all) contract C { access(all) var r: auth(E) &Int }", "access(all) contract C { access(all) var r: &Int }"},
	{"access(all) contract C { access(all) var r: auth(E) &Int }", "access(all) contract C { access(all) var r: auth(E | F) &Int }"},
	{"access(all) contract C { access(all) var r: [Int; 2] }", "access(all) contract C { access(all) var r: [Int; 0x2] }"},
	{"access(all) contract C { access(all) struct interface I {} access(all) struct interface J: I {} }", "access(all) contract C { access(all) struct interface I {} access(all) struct interface J {} }"},
}

func uErrKinds(err error) string {
	if err == nil {
		return "ok"
	}
	cue, ok := err.(*stdlib.ContractUpdateError)
	if !ok {
		return "err-other:" + fmt.Sprintf("%T", err)
	}
	var kinds []string
	for _, e := range cue.Errors {
		k := strings.TrimPrefix(fmt.Sprintf("%T", e), "*stdlib.")
		if fm, ok := e.(*stdlib.FieldMismatchError); ok {
			k += "(" + strings.TrimPrefix(fmt.Sprintf("%T", fm.Err), "*stdlib.") + ")"
		}
		kinds = append(kinds, k)
	}
	sort.Strings(kinds)
	return "err:" + strings.Join(kinds, ",")
}

func execUpdate(op []string) string {
	if len(op) < 2 {
		return "bad-op"
	}
	switch op[1] {
	case "v":
		if len(op) != 7 {
			return "bad-op"
		}
		oldP, err1 := uParse(op[5], true)
		newP, err2 := uParse(op[6], false)
		if err1 != nil || err2 != nil || oldP == nil || newP == nil {
			return "parse-error"
		}
		if safeSX(oldP) != op[3] || safeSX(newP) != op[4] {
			return "sx-mismatch"
		}
		v := stdlib.NewContractUpdateValidator(
			common.AddressLocation{Address: common.MustBytesToAddress([]byte{1}), Name: "C"},
			"C", parseNamesField(op[2]), oldP, newP)
		return uErrKinds(v.Validate())
	case "e2e":
		return execUpdateE2E(op)
	}
	return "bad-op"
}

func debugUpdate() bool { return os.Getenv("VERIF_DEBUG") != "" }
