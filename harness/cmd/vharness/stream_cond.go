package main

// Stream `cond` (property C10).
//
//   cond  conf  <graph>                   graph = `I0:|I1:0|I2:1,0|S:2,1` (explicit conformances in order)
//      => `I0=|I1=0/0|I2=1/1,0/1|S=2/2,1/2,0/2`  EffectiveInterfaceConformances() of every type as
//         iface/chainRoot pairs, computed by the real checker on a program declaring those types
//   cond  prog  <label>  forms=<..>  <sx>  <source>
//      => `<obs interp> @@ <obs vm> @@ <obs vmopt>` | `reject:<first checker error>`
//         obs = <outcome>|<logs>|<events>  (internal/l3run)

import (
	"fmt"
	"strconv"
	"strings"

	"github.com/onflow/cadence/ast"
	"github.com/onflow/cadence/sema"

	"verif/harness/internal/hx"
	"verif/harness/internal/l3run"
	"verif/harness/internal/l3sx"
	"verif/harness/internal/lang"
)

func init() {
	hx.Register(&hx.Stream{Name: "cond", Gen: genCond, Exec: execCond, Parallel: true})
}

func condGraph(r *hx.Rng) string {
	n := 1 + r.Intn(7)
	parts := []string{}
	for i := 0; i < n; i++ {
		var cs []string
		for j := 0; j < i; j++ {
			if r.Chance(40) {
				cs = append(cs, strconv.Itoa(j))
			}
		}
		r2 := r.Intn(3)
		if r2 == 0 { // reverse
			for a, b := 0, len(cs)-1; a < b; a, b = a+1, b-1 {
				cs[a], cs[b] = cs[b], cs[a]
			}
		} else if r2 == 1 && len(cs) > 2 {
			k := r.Intn(len(cs))
			cs[0], cs[k] = cs[k], cs[0]
		}
		parts = append(parts, fmt.Sprintf("I%d:%s", i, strings.Join(cs, ",")))
	}
	var cs []string
	for j := n - 1; j >= 0; j-- {
		if r.Chance(45) {
			cs = append(cs, strconv.Itoa(j))
		}
	}
	if r.Bool() {
		for a, b := 0, len(cs)-1; a < b; a, b = a+1, b-1 {
			cs[a], cs[b] = cs[b], cs[a]
		}
	}
	parts = append(parts, "S:"+strings.Join(cs, ","))
	return strings.Join(parts, "|")
}

// all ordered subsets of xs
func orderedSubsets(xs []string) [][]string {
	res := [][]string{{}}
	var rec func(cur []string, used []bool)
	rec = func(cur []string, used []bool) {
		for i, x := range xs {
			if used[i] {
				continue
			}
			used[i] = true
			next := append(append([]string{}, cur...), x)
			res = append(res, next)
			rec(next, used)
			used[i] = false
		}
	}
	rec(nil, make([]bool, len(xs)))
	return res
}

// exhaustive part: every conformance graph over three interfaces (each conforming to an ordered subset
// of the earlier ones) with every ordered subset as the composite's explicit conformances: 2 * 5 * 16 graphs
func condAllSmallGraphs(c *hx.Ctx) {
	for _, c1 := range orderedSubsets([]string{"0"}) {
		for _, c2 := range orderedSubsets([]string{"0", "1"}) {
			for _, cs := range orderedSubsets([]string{"0", "1", "2"}) {
				c.Emit("cond", "conf", "I0:|I1:"+strings.Join(c1, ",")+"|I2:"+strings.Join(c2, ",")+"|S:"+strings.Join(cs, ","))
			}
		}
	}
}

func genCond(c *hx.Ctx) {
	condAllSmallGraphs(c)
	nConf := c.N / 4
	for i := 0; i < nConf; i++ {
		c.Emit("cond", "conf", condGraph(c.Rng.Fork()))
	}
	for i := 0; i < c.N-nConf; i++ {
		p := l3sx.GenCond(c.Rng.Fork())
		c.Emit("cond", "prog", "g"+strconv.Itoa(i), "forms="+strings.Join(p.FormList(), ","), p.SX(),
			strings.ReplaceAll(p.Src(), "\n", "\\n"))
	}
}

func execCond(op []string) string {
	if len(op) >= 3 && op[1] == "conf" {
		return execCondConf(op[2])
	}
	src := strings.ReplaceAll(op[len(op)-1], "\\n", "\n")
	if _, err := lang.Check(src); err != nil {
		return "reject:" + l3run.FirstKind(err)
	}
	return l3run.RunAll(src)
}

func execCondConf(graph string) string {
	var b strings.Builder
	names := []string{}
	for _, part := range strings.Split(graph, "|") {
		nc := strings.SplitN(part, ":", 2)
		names = append(names, nc[0])
		conf := ""
		if nc[1] != "" {
			cs := strings.Split(nc[1], ",")
			for i := range cs {
				cs[i] = "I" + cs[i]
			}
			conf = ": " + strings.Join(cs, ", ")
		}
		if nc[0] == "S" {
			b.WriteString("access(all) struct S" + conf + " {}\n")
		} else {
			b.WriteString("access(all) struct interface " + nc[0] + conf + " {}\n")
		}
	}
	b.WriteString("access(all) fun main() {}\n")
	prog, err := lang.Check(b.String())
	if err != nil {
		return "reject:" + l3run.FirstKind(err)
	}
	render := func(cs []sema.Conformance) string {
		ps := make([]string, len(cs))
		for i, c := range cs {
			ps[i] = strings.TrimPrefix(c.InterfaceType.Identifier, "I") + "/" + strings.TrimPrefix(c.ConformanceChainRoot.Identifier, "I")
		}
		return strings.Join(ps, ",")
	}
	res := map[string]string{}
	for _, d := range prog.Program.Declarations() {
		switch d := d.(type) {
		case *ast.InterfaceDeclaration:
			t := prog.Elaboration.InterfaceDeclarationType(d)
			res[t.Identifier] = render(t.EffectiveInterfaceConformances())
		case *ast.CompositeDeclaration:
			t := prog.Elaboration.CompositeDeclarationType(d)
			res[t.Identifier] = render(t.EffectiveInterfaceConformances())
		}
	}
	out := make([]string, len(names))
	for i, n := range names {
		out[i] = n + "=" + res[n]
	}
	return strings.Join(out, "|")
}
