package main

// Stream `cond` (property C10).
//
//   cond  conf  <graph>                   graph = `I0:|I1:0|I2:1,0|S:2,1` (explicit conformances in order)
//      => `I0=|I1=0/0|I2=1/1,0/1|S=2/2,1/2,0/2`  EffectiveInterfaceConformances() of every type as
//         iface/chainRoot pairs, computed by the real checker on a program declaring those types
//   cond  prog  <label>  forms=<..>  <sx>  <source>
//      => `<obs interp> @@ <obs vm> @@ <obs vmopt>` | `reject:<first checker error>`
//         obs = <outcome>|<logs>|<events>  (internal/l3run)
//   cond  mprog <label>  forms=<..>  <sx>  <same|diff>:<split>  <source CA>  <source CB>  <script>
//      the same calculus program rendered as two deployed contracts and a script: the interfaces
//      I0..I(split-1) in contract CA at 0x1, the other interfaces and the composite S in contract CB
//      (which imports CA) at 0x1 (`same`) or 0x2 (`diff`).  Result as for `prog`
//      (`reject:<..>` when a deployment is refused).

import (
	"fmt"
	"strconv"
	"strings"

	"github.com/onflow/cadence"
	"github.com/onflow/cadence/ast"
	"github.com/onflow/cadence/common"
	"github.com/onflow/cadence/runtime"
	"github.com/onflow/cadence/sema"
	. "github.com/onflow/cadence/test_utils/runtime_utils"

	"verif/harness/internal/cdc"

	"verif/harness/internal/hx"
	"verif/harness/internal/l3run"
	"verif/harness/internal/l3sx"
	"verif/harness/internal/lang"
)

func init() {
	hx.Register(&hx.Stream{Name: "cond", Gen: genCond, Exec: execCond, Parallel: true})
}

func condGraph(r *hx.Rng) string {
	n := 1 + r.Intn(7)
	parts := []string{}
	for i := 0; i < n; i++ {
		var cs []string
		for j := 0; j < i; j++ {
			if r.Chance(40) {
				cs = append(cs, strconv.Itoa(j))
			}
		}
		r2 := r.Intn(3)
		if r2 == 0 { // reverse
			for a, b := 0, len(cs)-1; a < b; a, b = a+1, b-1 {
				cs[a], cs[b] = cs[b], cs[a]
			}
		} else if r2 == 1 && len(cs) > 2 {
			k := r.Intn(len(cs))
			cs[0], cs[k] = cs[k], cs[0]
		}
		parts = append(parts, fmt.Sprintf("I%d:%s", i, strings.Join(cs, ",")))
	}
	var cs []string
	for j := n - 1; j >= 0; j-- {
		if r.Chance(45) {
			cs = append(cs, strconv.Itoa(j))
		}
	}
	if r.Bool() {
		for a, b := 0, len(cs)-1; a < b; a, b = a+1, b-1 {
			cs[a], cs[b] = cs[b], cs[a]
		}
	}
	parts = append(parts, "S:"+strings.Join(cs, ","))
	return strings.Join(parts, "|")
}

// all ordered subsets of xs
func orderedSubsets(xs []string) [][]string {
	res := [][]string{{}}
	var rec func(cur []string, used []bool)
	rec = func(cur []string, used []bool) {
		for i, x := range xs {
			if used[i] {
				continue
			}
			used[i] = true
			next := append(append([]string{}, cur...), x)
			res = append(res, next)
			rec(next, used)
			used[i] = false
		}
	}
	rec(nil, make([]bool, len(xs)))
	return res
}

// exhaustive part: every conformance graph over three interfaces (each conforming to an ordered subset
// of the earlier ones) with every ordered subset as the composite's explicit conformances: 2 * 5 * 16 graphs
func condAllSmallGraphs(c *hx.Ctx) {
	for _, c1 := range orderedSubsets([]string{"0"}) {
		for _, c2 := range orderedSubsets([]string{"0", "1"}) {
			for _, cs := range orderedSubsets([]string{"0", "1", "2"}) {
				c.Emit("cond", "conf", "I0:|I1:"+strings.Join(c1, ",")+"|I2:"+strings.Join(c2, ",")+"|S:"+strings.Join(cs, ","))
			}
		}
	}
}

func genCond(c *hx.Ctx) {
	condAllSmallGraphs(c)
	nConf := c.N / 4
	for i := 0; i < nConf; i++ {
		c.Emit("cond", "conf", condGraph(c.Rng.Fork()))
	}
	esc := func(s string) string { return strings.ReplaceAll(s, "\n", "\\n") }
	emitMulti := func(label string, p *l3sx.CProgram, r *hx.Rng) {
		layout, addrB := "same", "0x1"
		if r.Chance(30) {
			layout, addrB = "diff", "0x2"
		}
		split := len(p.Ifaces)
		if split > 1 && r.Chance(35) {
			split = 1 + r.Intn(split)
		}
		a, b, m := p.SrcMulti(split, "0x1", addrB)
		c.Emit("cond", "mprog", label, "forms="+strings.Join(append(p.FormList(), "multi-"+layout), ","), p.SX(),
			layout+":"+strconv.Itoa(split), esc(a), esc(b), esc(m))
	}
	for i := 0; i < c.N-nConf; i++ {
		r := c.Rng.Fork()
		single := func(label string, p *l3sx.CProgram) {
			c.Emit("cond", "prog", label+strconv.Itoa(i), "forms="+strings.Join(p.FormList(), ","), p.SX(), esc(p.Src()))
		}
		switch i % 12 {
		case 1, 7: // a random program, rendered as two contracts and a script
			emitMulti("m"+strconv.Itoa(i), l3sx.GenCond(r), r)
		case 3, 9: // own and inherited post-conditions both capture before values; two contracts
			emitMulti("b"+strconv.Itoa(i), l3sx.GenCondBefore(r), r)
		case 5: // the same family as one program
			single("s", l3sx.GenCondBefore(r))
		case 2, 8, 10: // conditions built from the forms the before-extractor rewrites (`? :`, unary, call, cast, force, index)
			single("x", l3sx.GenCondSugar(r))
		case 11:
			emitMulti("y"+strconv.Itoa(i), l3sx.GenCondSugar(r), r)
		default:
			single("g", l3sx.GenCond(r))
		}
	}
}

// ---- multi-program runs ----

func condMultiRunOne(srcA, srcB, script, addrB string, mode lang.Mode) (res string) {
	out := &cdc.Outcome{}
	defer func() {
		if r := recover(); r != nil {
			res = "crash:escaped-panic||"
		}
	}()
	codes := map[common.Location][]byte{}
	var signers []common.Address
	iface := &TestRuntimeInterface{
		Storage:           NewTestLedger(nil, nil),
		OnResolveLocation: MultipleIdentifierLocationResolver,
		OnGetCode:         func(l runtime.Location) ([]byte, error) { return codes[l], nil },
		OnGetAccountContractCode: func(l common.AddressLocation) ([]byte, error) {
			return codes[l], nil
		},
		OnUpdateAccountContractCode: func(l common.AddressLocation, code []byte) error {
			codes[l] = code
			return nil
		},
		OnGetSigningAccounts: func() ([]runtime.Address, error) { return signers, nil },
		OnProgramLog:         func(s string) { out.Logs = append(out.Logs, s) },
		OnEmitEvent: func(ev cadence.Event) error {
			out.Events = append(out.Events, ev)
			return nil
		},
	}
	nextTx := NewTransactionLocationGenerator()
	deploy := func(addr byte, name, code string) error {
		signers = []common.Address{common.MustBytesToAddress([]byte{addr})}
		rt := NewTestRuntime()
		tx := fmt.Sprintf(`transaction { prepare(signer: auth(Contracts) &Account) { signer.contracts.add(name: "%s", code: "%x".decodeHex()) } }`, name, code)
		return rt.ExecuteTransaction(
			runtime.Script{Source: []byte(tx)},
			runtime.Context{Interface: iface, Location: nextTx(), ComputationGauge: &cdc.Gauge{Limit: 100000}},
		)
	}
	if err := deploy(1, "CA", srcA); err != nil {
		return "reject:CA:" + l3run.FirstKind(err)
	}
	ab := byte(1)
	if addrB == "diff" {
		ab = 2
	}
	if err := deploy(ab, "CB", srcB); err != nil {
		return "reject:CB:" + l3run.FirstKind(err)
	}
	signers = nil
	out.Logs, out.Events = nil, nil
	rt := NewTestRuntimeWithConfig(DefaultTestInterpreterConfig)
	ctx := runtime.Context{
		Interface:        iface,
		Location:         common.ScriptLocation{1},
		UseVM:            mode != lang.Interp,
		ComputationGauge: &cdc.Gauge{Limit: lang.Limit},
	}
	if mode != lang.Interp {
		env := runtime.NewScriptVMEnvironment(rt.Config())
		if !runtime.VerifSetPeepholeOptimizations(env, mode == lang.VMPeephole) {
			panic("not a VM environment")
		}
		ctx.Environment = env
	}
	v, err := rt.ExecuteScript(runtime.Script{Source: []byte(script)}, ctx)
	out.Value, out.Err = v, err
	out.Class, out.Kind = cdc.Classify(err)
	// each contract declares its own event E
	return strings.NewReplacer("CA.E(", "E(", "CB.E(", "E(").Replace(l3run.Obs(out))
}

func execCondMulti(op []string) string {
	if len(op) != 9 {
		return "bad-op"
	}
	un := func(s string) string { return strings.ReplaceAll(s, "\\n", "\n") }
	layout := strings.SplitN(op[5], ":", 2)[0]
	parts := []string{}
	for _, m := range []lang.Mode{lang.Interp, lang.VM, lang.VMPeephole} {
		r := condMultiRunOne(un(op[6]), un(op[7]), un(op[8]), layout, m)
		if strings.HasPrefix(r, "reject:") {
			return r
		}
		parts = append(parts, r)
	}
	return strings.Join(parts, " @@ ")
}

func execCond(op []string) string {
	if len(op) >= 3 && op[1] == "conf" {
		return execCondConf(op[2])
	}
	if len(op) >= 2 && op[1] == "mprog" {
		return execCondMulti(op)
	}
	src := strings.ReplaceAll(op[len(op)-1], "\\n", "\n")
	if _, err := lang.Check(src); err != nil {
		return "reject:" + l3run.FirstKind(err)
	}
	return l3run.RunAll(src)
}

func execCondConf(graph string) string {
	var b strings.Builder
	names := []string{}
	for _, part := range strings.Split(graph, "|") {
		nc := strings.SplitN(part, ":", 2)
		names = append(names, nc[0])
		conf := ""
		if nc[1] != "" {
			cs := strings.Split(nc[1], ",")
			for i := range cs {
				cs[i] = "I" + cs[i]
			}
			conf = ": " + strings.Join(cs, ", ")
		}
		if nc[0] == "S" {
			b.WriteString("access(all) struct S" + conf + " {}\n")
		} else {
			b.WriteString("access(all) struct interface " + nc[0] + conf + " {}\n")
		}
	}
	b.WriteString("access(all) fun main() {}\n")
	prog, err := lang.Check(b.String())
	if err != nil {
		return "reject:" + l3run.FirstKind(err)
	}
	render := func(cs []sema.Conformance) string {
		ps := make([]string, len(cs))
		for i, c := range cs {
			ps[i] = strings.TrimPrefix(c.InterfaceType.Identifier, "I") + "/" + strings.TrimPrefix(c.ConformanceChainRoot.Identifier, "I")
		}
		return strings.Join(ps, ",")
	}
	res := map[string]string{}
	for _, d := range prog.Program.Declarations() {
		switch d := d.(type) {
		case *ast.InterfaceDeclaration:
			t := prog.Elaboration.InterfaceDeclarationType(d)
			res[t.Identifier] = render(t.EffectiveInterfaceConformances())
		case *ast.CompositeDeclaration:
			t := prog.Elaboration.CompositeDeclarationType(d)
			res[t.Identifier] = render(t.EffectiveInterfaceConformances())
		}
	}
	out := make([]string, len(names))
	for i, n := range names {
		out[i] = n + "=" + res[n]
	}
	return strings.Join(out, "|")
}
