package main

// Input generators for the front-end streams `lex` and `parsecheck` (property C37): random bytes,
// mutated Cadence snippets, grammar-generated programs, deep nesting, string templates, nested
// comments, huge literals, invalid UTF-8.

import (
	"strconv"
	"strings"

	"verif/harness/internal/hx"
)

// witnesses and boundary shapes that always run
var c37Fixed = []string{
	"\"日本\\(x)\"",            // token ending in a multi-byte rune, then a template
	"/* 日本*/ x",              // block comment content ending in a multi-byte rune
	"// 日本\nx",               // line comment ending in a multi-byte rune
	"\"日本\" x",               // string: ends in an ASCII quote
	"\"\\(x)\\(y)\"",         // empty string token between two templates
	"\"\\(x)\n",              // empty string token before a newline
	"\"\\(x)",                // empty string token at the end of the input
	"0a", "0z", "0z+3", "0a.", "0a.5", "0b", "0o", "0x", "0", "00", "0_", "0.", "0.5", "1.", "1._", "1.5.6",
	"\"\\(\\", "\"\\(\\a+", "\"\\(\\\n", "\"\\(a\\", // backslash in template mode
	"\\", "\\(", "$", "\x80", "\xff", "a\xffb", "\xe6\x97", "日", "\xf4\x90\x80\x80", "\xed\xa0\x80", "\xc0\x80",
	"/*", "/* a", "/* /* */", "/* /* */ */ x", "/**/", "/*/", "/* * / */", "*/", "/* a /* b */ c */ d",
	"//", "// a", "// a\n", "//\n//\n",
	"\"", "\"a", "\"a\n\"", "\"\\", "\"\\\n", "\"\\\"\"", "\"\\\\\"", "\"a\\nb\"", "\"\\(", "\"\\()", "\"\\(\"\\(x)\")\"",
	"\"\\((1))\"", "\"\\(f(a, (b)))c\"", "\"\\(x))\"", "\"a\\(\"b\")c\"",
	"as", "as?", "as!", "as ?", "bas?", "as_", "_as!", "a.as?", "x as? T", "as\xff",
	"<-", "<-!", "<->", "<<", "<=", "<", "<-<", ">=", ">>", "->", "-", "??", "?.", "?", "!=", "!", "==", "=", "&&", "&", "||", "|",
	" ", "\n", " \n ", "\r\n", "\t\t", "a\nb\n", "\n\n\n", "a \n\n b",
	"let x = 1\nlet y = \"é\\(x)\" // 注\nlet z = 2",
	"access(all) fun main(): Int {\n    return 1 + 2 * 3\n}\n",
}

// bytes that select distinct lexer branches
var c37Alphabet = []byte(" \n\t\r\"\\()/*-+<>=!?.&|_0179abosxzAZ{}[],;:@#^%$~") // extended below in init

func init() {
	c37Alphabet = append(c37Alphabet, 0x00, 0x7f, 0x80, 0xbf, 0xc2, 0xc3, 0xa9, 0xe6, 0x97, 0xa5, 0xed, 0xa0, 0xf0, 0x9f, 0xf4, 0x90, 0xff)
}

var c37Snippets = []string{
	"access(all) fun main(): Int {\n    let x = 1 + 2 * 3\n    return x\n}\n",
	"access(all) contract C {\n    access(all) var n: Int\n    init() { self.n = 0 }\n    access(all) fun inc() { self.n = self.n + 1 }\n}\n",
	"access(all) resource R {\n    access(all) let id: UInt64\n    init(id: UInt64) { self.id = id }\n}\naccess(all) fun f(): @R { return <- create R(id: 0x2a) }\n",
	"access(all) fun g(a: [Int], d: {String: Int}): Int? {\n    if a.length > 0 && d[\"k\"] != nil { return a[0] }\n    return nil\n}\n",
	"/* block /* nested */ comment */\n// line comment\naccess(all) let s = \"hello \\(1 + 2) world \\(\"in\\(3)ner\")\"\n",
	"access(all) fun h(x: Int): Int {\n    var i = 0\n    while i < x { i = i + 1; if i == 0b101 { break } }\n    for e in [1, 2, 3] { i = i + e }\n    return i << 2 >> 1\n}\n",
	"transaction(a: Address) {\n    prepare(acct: auth(Storage) &Account) {\n        let r <- acct.storage.load<@AnyResource>(from: /storage/r)\n        destroy r\n    }\n    execute { log(1.50 + 2.25) }\n}\n",
	"access(all) struct interface I { access(all) fun f(): Int { pre { true: \"msg\" } } }\naccess(all) struct S: I { access(all) fun f(): Int { return 0o17 } }\n",
	"access(all) entitlement E\naccess(all) entitlement mapping M { E -> E }\naccess(all) fun r(x: auth(E) &Int): &Int { return x as &Int }\n",
	"access(all) fun k(): String {\n    let a: Int? = nil\n    let b = a ?? 5\n    let c = a as? Int ?? b\n    let d = (c as! Int)\n    return \"é日本\\(d)語\" // 注釈\n}\n",
	"import Foo from 0x01\nimport \"Bar\"\naccess(all) enum Color: UInt8 { access(all) case red; access(all) case green }\n",
	"access(all) fun sw(x: Int): Int {\n    switch x {\n    case 1: return 10\n    default: return -x\n    }\n}\n",
	"access(all) attachment A for R { access(all) fun foo(): Int { return base.id > 1 ? 1 : 0 } }\n",
	"access(all) view fun v(_ a: Int, b c: Int): Int { return a <-> c }\n#pragma\naccess(all) event Ev(x: Int)\n",
}

var c37Tokens = []string{
	"(", ")", "{", "}", "[", "]", "<", ">", "<-", "<-!", "<->", "->", "?", "??", "?.", "!", "!=", "=", "==", "&", "&&", "|", "||",
	"+", "-", "*", "/", "%", "^", ".", ",", ";", ":", "@", "#", "\"", "\\(", "\\", "/*", "*/", "//", "\n", " ", "\t", "\r\n",
	"as", "as?", "as!", "let", "var", "fun", "if", "else", "while", "return", "access(all)", "x", "_", "self", "nil", "true",
	"0", "1", "0x", "0b1", "0o7", "0z1", "1.5", "1.", "1_000", "0xFF", "Int", "String", "é", "日", "本", "\xff", "\x80", "\xe6\x97", "\x00", "$", "`", "'",
}

func c37RandBytes(r *hx.Rng, n int) []byte {
	b := make([]byte, n)
	for i := range b {
		switch r.Intn(4) {
		case 0:
			b[i] = r.Byte()
		default:
			b[i] = c37Alphabet[r.Intn(len(c37Alphabet))]
		}
	}
	return b
}

func c37Mutate(r *hx.Rng, src []byte) []byte {
	b := append([]byte{}, src...)
	k := 1 + r.Intn(4)
	for ; k > 0; k-- {
		switch r.Intn(9) {
		case 0: // truncate
			if len(b) > 0 {
				b = b[:r.Intn(len(b)+1)]
			}
		case 1: // insert a token
			p := r.Intn(len(b) + 1)
			t := c37Tokens[r.Intn(len(c37Tokens))]
			b = append(b[:p], append([]byte(t), b[p:]...)...)
		case 2: // delete a range
			if len(b) > 0 {
				p := r.Intn(len(b))
				q := p + 1 + r.Intn(4)
				if q > len(b) {
					q = len(b)
				}
				b = append(b[:p], b[q:]...)
			}
		case 3: // overwrite a byte (often invalid UTF-8)
			if len(b) > 0 {
				b[r.Intn(len(b))] = []byte{0xff, 0x80, 0xc3, 0xe6, 0xf0, 0x00, '"', '\\', '\n', '('}[r.Intn(10)]
			}
		case 4: // duplicate a range
			if len(b) > 0 {
				p := r.Intn(len(b))
				q := p + 1 + r.Intn(12)
				if q > len(b) {
					q = len(b)
				}
				seg := append([]byte{}, b[p:q]...)
				b = append(b[:q], append(seg, b[q:]...)...)
			}
		case 5: // drop the start
			if len(b) > 0 {
				b = b[r.Intn(len(b)):]
			}
		case 6: // splice two snippets
			o := c37Snippets[r.Intn(len(c37Snippets))]
			p := r.Intn(len(b) + 1)
			q := r.Intn(len(o) + 1)
			b = append(b[:p], []byte(o[q:])...)
		case 7: // replace spaces by multi-byte / newline
			for i := range b {
				if b[i] == ' ' && r.Chance(10) {
					b[i] = '\n'
				}
			}
		case 8: // wrap in a template or comment
			switch r.Intn(3) {
			case 0:
				b = append(append([]byte("\"a\\("), b...), []byte(")b\"")...)
			case 1:
				b = append(append([]byte("/* "), b...), []byte(" */")...)
			case 2:
				b = append(append([]byte("let s = \"日本\\("), b...), []byte(")本\" + 1")...)
			}
		}
	}
	return b
}

// ---- grammar-generated valid programs -------------------------------------------------------

type c37G struct {
	r  *hx.Rng
	sb strings.Builder
}

func (g *c37G) ident() string {
	return []string{"a", "b", "x", "y", "foo", "bar_1", "_t", "asd", "as_", "Z9"}[g.r.Intn(10)]
}

func (g *c37G) typ(d int) string {
	if d <= 0 || g.r.Chance(50) {
		return []string{"Int", "String", "Bool", "UInt8", "Address", "AnyStruct", "UFix64"}[g.r.Intn(7)]
	}
	switch g.r.Intn(6) {
	case 0:
		return "[" + g.typ(d-1) + "]"
	case 1:
		return "{String: " + g.typ(d-1) + "}"
	case 2:
		return g.typ(d-1) + "?"
	case 3:
		return "&" + g.typ(d-1)
	case 4:
		return "fun(" + g.typ(d-1) + "): " + g.typ(d-1)
	default:
		return "[" + g.typ(d-1) + "; 3]"
	}
}

func (g *c37G) expr(d int) string {
	if d <= 0 || g.r.Chance(35) {
		switch g.r.Intn(12) {
		case 0:
			return strconv.Itoa(g.r.Intn(1000))
		case 1:
			return "0x" + strconv.FormatInt(int64(g.r.Intn(65536)), 16)
		case 2:
			return "0b1011"
		case 3:
			return "0o17"
		case 4:
			return "1_000.250"
		case 5:
			return "\"s" + []string{"", "é", "日本", "\\n", "\\\"", "\\u{1F600}"}[g.r.Intn(6)] + "\""
		case 6:
			return "true"
		case 7:
			return "nil"
		case 8:
			return "\"a\\(" + g.ident() + ")b\""
		default:
			return g.ident()
		}
	}
	switch g.r.Intn(12) {
	case 0:
		return g.expr(d-1) + " " + []string{"+", "-", "*", "/", "%", "&&", "||", "==", "!=", "<", "<=", ">", ">=", "??", "&", "|", "^", "<<", ">>"}[g.r.Intn(19)] + " " + g.expr(d-1)
	case 1:
		return "(" + g.expr(d-1) + ")"
	case 2:
		return g.ident() + "(" + g.expr(d-1) + ", " + g.ident() + ": " + g.expr(d-1) + ")"
	case 3:
		return "[" + g.expr(d-1) + ", " + g.expr(d-1) + "]"
	case 4:
		return "{" + g.expr(d-1) + ": " + g.expr(d-1) + "}"
	case 5:
		return g.expr(d-1) + " ? " + g.expr(d-1) + " : " + g.expr(d-1)
	case 6:
		return "-" + g.expr(d-1)
	case 7:
		return "!" + g.expr(d-1)
	case 8:
		return g.expr(d-1) + " " + []string{"as", "as?", "as!"}[g.r.Intn(3)] + " " + g.typ(1)
	case 9:
		return g.ident() + "." + g.ident() + "[" + g.expr(d-1) + "]"
	case 10:
		return "\"t\\(" + g.expr(d-1) + ") u\\(" + g.expr(d-1) + ")\""
	default:
		return g.ident() + "?." + g.ident()
	}
}

func (g *c37G) stmt(d int, ind string) string {
	if d <= 0 {
		return ind + "let " + g.ident() + " = " + g.expr(2) + "\n"
	}
	switch g.r.Intn(9) {
	case 0:
		return ind + "let " + g.ident() + ": " + g.typ(2) + " = " + g.expr(3) + "\n"
	case 1:
		return ind + "var " + g.ident() + " = " + g.expr(3) + " // c\n"
	case 2:
		return ind + g.ident() + " = " + g.expr(3) + "\n"
	case 3:
		return ind + "if " + g.expr(2) + " {\n" + g.stmt(d-1, ind+"    ") + ind + "} else {\n" + g.stmt(d-1, ind+"    ") + ind + "}\n"
	case 4:
		return ind + "while " + g.expr(2) + " {\n" + g.stmt(d-1, ind+"    ") + ind + "}\n"
	case 5:
		return ind + "return " + g.expr(3) + "\n"
	case 6:
		return ind + "/* c /* n */ */ " + g.ident() + "(" + g.expr(2) + ")\n"
	case 7:
		return ind + "for " + g.ident() + " in " + g.expr(2) + " {\n" + g.stmt(d-1, ind+"    ") + ind + "}\n"
	default:
		return ind + g.stmt(d-1, "") + ind + g.stmt(d-1, "")
	}
}

func c37Program(r *hx.Rng) []byte {
	g := &c37G{r: r}
	var sb strings.Builder
	n := 1 + r.Intn(4)
	for i := 0; i < n; i++ {
		switch r.Intn(4) {
		case 0:
			sb.WriteString("access(all) let " + g.ident() + ": " + g.typ(2) + " = " + g.expr(3) + "\n")
		case 1:
			sb.WriteString("access(all) fun " + g.ident() + "(" + g.ident() + ": " + g.typ(2) + "): " + g.typ(2) + " {\n")
			k := 1 + r.Intn(4)
			for j := 0; j < k; j++ {
				sb.WriteString(g.stmt(2, "    "))
			}
			sb.WriteString("}\n")
		case 2:
			kind := []string{"struct", "resource", "contract"}[r.Intn(3)]
			sb.WriteString("access(all) " + kind + " " + strings.ToUpper(g.ident()) + " {\n    access(all) var " + g.ident() + ": " + g.typ(2) +
				"\n    init() {\n" + "        self." + g.ident() + " = " + g.expr(2) + "\n    }\n}\n")
		default:
			sb.WriteString("// " + g.ident() + " 日本\n/* " + g.ident() + " */\n")
		}
	}
	return []byte(sb.String())
}

func c37Special(r *hx.Rng, thorough bool) []byte {
	depth := []int{1, 2, 15, 16, 17, 18, 40, 200}[r.Intn(8)]
	if thorough && r.Chance(10) {
		depth = 5000
	}
	rep := strings.Repeat
	switch r.Intn(12) {
	case 0:
		return []byte("let x = " + rep("(", depth) + "1" + rep(")", depth))
	case 1:
		return []byte("let x: " + rep("[", depth) + "Int" + rep("]", depth) + " = 1")
	case 2:
		return []byte("let x = " + rep("[", depth) + rep("]", depth))
	case 3:
		return []byte("let x = " + rep("-", depth) + "1")
	case 4:
		return []byte("let x = " + rep("f(", depth) + rep(")", depth))
	case 5:
		return []byte(rep("/*", depth) + " c " + rep("*/", depth-r.Intn(2)) + " let x = 1")
	case 6:
		return []byte("let x = \"" + rep("\\(\"", depth) + "1" + rep("\")", depth) + "\"")
	case 7:
		return []byte("let x = " + rep("9", 1+r.Intn(2000)) + []string{"", ".5", ".", "_"}[r.Intn(4)])
	case 8:
		return []byte("let x = 0x" + rep("F", 1+r.Intn(2000)))
	case 9:
		return []byte("let s = \"" + rep("日", r.Intn(500)) + "\\(1)\" " + rep("é", r.Intn(5)))
	case 10:
		return []byte("fun f() {" + rep("if true {", depth) + rep("}", depth) + "}")
	default:
		return []byte("let x: " + rep("{String: ", depth) + "Int" + rep("}", depth) + "? = nil")
	}
}

// c37Input is one generated input of the mixture.
func c37Input(r *hx.Rng, thorough bool) []byte {
	switch v := r.Intn(100); {
	case v < 15:
		return c37RandBytes(r, r.Intn(24))
	case v < 22:
		return c37RandBytes(r, 24+r.Intn(200))
	case v < 27:
		return r.Bytes(r.Intn(40))
	case v < 62:
		return c37Mutate(r, []byte(c37Snippets[r.Intn(len(c37Snippets))]))
	case v < 70:
		return c37Mutate(r, c37Program(r))
	case v < 85:
		return c37Program(r)
	case v < 88:
		return []byte(c37Snippets[r.Intn(len(c37Snippets))])
	case v < 92:
		return c37Mutate(r, []byte(c37Fixed[r.Intn(len(c37Fixed))]))
	default:
		return c37Special(r, thorough)
	}
}
