package main

// Stream `leb` (property C35): bbq/leb128 Append*/Read* on all integers at byte-length boundaries,
// random integers, arbitrary (non-canonical, truncated, over-long) byte strings, and the
// fixed-length variant.

import (
	"math"
	"strconv"

	"github.com/onflow/cadence/bbq/leb128"

	"verif/harness/internal/hx"
)

func init() {
	hx.Register(&hx.Stream{Name: "leb", Gen: genLeb, Exec: execLeb, Parallel: true})
}

func genLeb(c *hx.Ctx) {
	r := c.Rng
	trails := []string{"-", "00", "80", "ff", "7f8001"}
	prefixes := []string{"-", "-", "-", "00", "ff80"}
	rt := func(kind string, v string) {
		c.Emit("leb", "rt", kind, v, prefixes[r.Intn(len(prefixes))], trails[r.Intn(len(trails))])
	}
	// every byte-length boundary: 2^(7k) - 1, 2^(7k), 2^(7k) + 1 (unsigned); ±2^(7k-1) and neighbours (signed)
	for _, kw := range []struct {
		kind string
		w    uint
	}{{"u32", 32}, {"u64", 64}} {
		maxV := uint64(math.MaxUint64)
		if kw.w == 32 {
			maxV = math.MaxUint32
		}
		seen := map[uint64]bool{}
		add := func(v uint64) {
			if v <= maxV && !seen[v] {
				seen[v] = true
				rt(kw.kind, strconv.FormatUint(v, 10))
			}
		}
		for k := uint(0); k <= kw.w; k++ {
			var p uint64
			if k < 64 {
				p = uint64(1) << k
			}
			for d := uint64(0); d < 3; d++ {
				add(p + d)
				add(p - d) // wraps to MaxUint64 for k = 64 / p = 0
				add(p - 1 - d)
			}
		}
		add(0)
		add(maxV)
		add(maxV - 1)
	}
	for _, kw := range []struct {
		kind string
		w    uint
	}{{"i32", 32}, {"i64", 64}} {
		minV, maxV := int64(math.MinInt64), int64(math.MaxInt64)
		if kw.w == 32 {
			minV, maxV = math.MinInt32, math.MaxInt32
		}
		seen := map[int64]bool{}
		add := func(v int64) {
			if v >= minV && v <= maxV && !seen[v] {
				seen[v] = true
				rt(kw.kind, strconv.FormatInt(v, 10))
			}
		}
		for k := uint(0); k < kw.w; k++ {
			p := int64(1) << k // k = 63: MinInt64
			for d := int64(-2); d <= 2; d++ {
				add(p + d)
				add(-p + d)
			}
		}
		add(0)
		add(-1)
		add(minV)
		add(minV + 1)
		add(maxV)
		add(maxV - 1)
	}
	// exhaustive small ranges
	for v := 0; v < 600; v++ {
		c.Emit("leb", "rt", "u32", strconv.Itoa(v), "-", "-")
		c.Emit("leb", "rt", "i32", strconv.Itoa(v-300), "-", "-")
		c.Emit("leb", "rt", "i64", strconv.Itoa(v-300), "-", "-")
	}
	// exhaustive short byte strings for the readers (all of length <= 2; quick: every 3rd second byte)
	kinds := []string{"u32", "u64", "i32", "i64"}
	for _, k := range kinds {
		c.Emit("leb", "read", k, "-")
		for a := 0; a < 256; a++ {
			c.Emit("leb", "read", k, hx.Hex([]byte{byte(a)}))
		}
	}
	step := 3
	if c.Thorough() {
		step = 1
	}
	for a := 0; a < 256; a++ {
		for b := a % step; b < 256; b += step {
			c.Emit("leb", "read", kinds[(a+b)%4], hx.Hex([]byte{byte(a), byte(b)}))
		}
	}
	// fixed length: every (length, boundary value)
	for l := -1; l <= 7; l++ {
		for k := uint(0); k <= 32; k += 1 {
			for d := int64(-1); d <= 1; d++ {
				v := (int64(1) << k) + d
				if v >= 0 && v <= math.MaxUint32 {
					c.Emit("leb", "fix", strconv.FormatInt(v, 10), strconv.Itoa(l), trails[r.Intn(len(trails))])
				}
			}
		}
	}
	// random
	for i := 0; i < c.N; i++ {
		switch r.Intn(10) {
		case 0, 1:
			bits := uint(r.Intn(33))
			rt("u32", strconv.FormatUint(r.U64()&(1<<bits-1), 10))
		case 2, 3:
			bits := uint(r.Intn(65))
			m := uint64(math.MaxUint64)
			if bits < 64 {
				m = 1<<bits - 1
			}
			rt("u64", strconv.FormatUint(r.U64()&m, 10))
		case 4:
			bits := uint(r.Intn(32))
			v := int64(r.U64() & (1<<bits - 1))
			if r.Bool() {
				v = -v - 1
			}
			rt("i32", strconv.FormatInt(v, 10))
		case 5, 6:
			bits := uint(r.Intn(64))
			v := int64(r.U64() & (1<<bits - 1))
			if r.Bool() {
				v = -v - 1
			}
			rt("i64", strconv.FormatInt(v, 10))
		case 7, 8:
			// arbitrary bytes: mostly continuation bytes so that the byte limits are reached
			n := r.Intn(13)
			b := r.Bytes(n)
			for j := range b {
				if r.Chance(75) {
					b[j] |= 0x80
				}
				if r.Chance(10) {
					b[j] = []byte{0x80, 0xff, 0x7f, 0x00, 0x40, 0xc0}[r.Intn(6)]
				}
			}
			c.Emit("leb", "read", kinds[r.Intn(4)], hx.Hex(b))
		case 9:
			bits := uint(r.Intn(33))
			c.Emit("leb", "fix", strconv.FormatUint(r.U64()&(1<<bits-1), 10), strconv.Itoa(r.Intn(8)), trails[r.Intn(len(trails))])
		}
	}
}

func execLeb(op []string) string {
	if len(op) < 2 || op[0] != "leb" {
		return "not-this-stream"
	}
	readAny := func(kind string, data []byte) string {
		switch kind {
		case "u32":
			v, n, err := leb128.ReadUint32(data)
			if err != nil {
				return "err"
			}
			return strconv.FormatUint(uint64(v), 10) + ":" + strconv.Itoa(n)
		case "u64":
			v, n, err := leb128.ReadUint64(data)
			if err != nil {
				return "err"
			}
			return strconv.FormatUint(v, 10) + ":" + strconv.Itoa(n)
		case "i32":
			v, n, err := leb128.ReadInt32(data)
			if err != nil {
				return "err"
			}
			return strconv.FormatInt(int64(v), 10) + ":" + strconv.Itoa(n)
		case "i64":
			v, n, err := leb128.ReadInt64(data)
			if err != nil {
				return "err"
			}
			return strconv.FormatInt(v, 10) + ":" + strconv.Itoa(n)
		}
		return "bad-kind"
	}
	switch op[1] {
	case "rt":
		kind := op[2]
		pre := hx.UnHex(op[4])
		trail := hx.UnHex(op[5])
		// spare capacity so that an append that clobbers earlier bytes would be visible
		data := make([]byte, len(pre), len(pre)+16)
		copy(data, pre)
		switch kind {
		case "u32":
			v, err := strconv.ParseUint(op[3], 10, 32)
			if err != nil {
				return "bad-op"
			}
			data = leb128.AppendUint32(data, uint32(v))
		case "u64":
			v, err := strconv.ParseUint(op[3], 10, 64)
			if err != nil {
				return "bad-op"
			}
			data = leb128.AppendUint64(data, v)
		case "i32":
			v, err := strconv.ParseInt(op[3], 10, 32)
			if err != nil {
				return "bad-op"
			}
			data = leb128.AppendInt32(data, int32(v))
		case "i64":
			v, err := strconv.ParseInt(op[3], 10, 64)
			if err != nil {
				return "bad-op"
			}
			data = leb128.AppendInt64(data, v)
		default:
			return "bad-kind"
		}
		if len(data) < len(pre) || string(data[:len(pre)]) != string(pre) {
			return "prefix-clobbered"
		}
		enc := append([]byte{}, data[len(pre):]...)
		return hx.Hex(enc) + ":" + readAny(kind, append(append([]byte{}, enc...), trail...))
	case "read":
		return readAny(op[2], hx.UnHex(op[3]))
	case "fix":
		v, err := strconv.ParseUint(op[2], 10, 32)
		if err != nil {
			return "bad-op"
		}
		l, err := strconv.Atoi(op[3])
		if err != nil {
			return "bad-op"
		}
		enc, err := leb128.AppendUint32FixedLength(nil, uint32(v), l)
		if err != nil {
			return "err"
		}
		return hx.Hex(enc) + ":" + readAny("u32", append(append([]byte{}, enc...), hx.UnHex(op[4])...))
	}
	return "bad-op"
}
