package main

// Streams `instr` and `compiledet` (property C35).
//
// instr:      every opcode of the running bbq/opcode package with random operands (built by
//             reflection over the real Instruction structs), instruction sequences of compiled
//             generated programs, arbitrary byte strings for the decoder.
//               instr rt <instruction> <prefixLen> <trailHex>   Encode, then DecodeInstruction at ip = prefixLen
//               instr seq <i1>|<i2>|…                           Encode all, then DecodeInstructions
//               instr dec <hex> <ip>                            DecodeInstruction on arbitrary bytes
//             An instruction is rendered `<opcode> kind=value kind=value …` (kinds from the Go field types).
// compiledet: generated Cadence programs, each compiled repeatedly (instruction compiler and
//             bytecode compiler; same process and one fresh process); the printed programs, function
//             order, constants and types must be identical.

import (
	"fmt"
	"reflect"
	"strconv"
	"strings"

	"github.com/onflow/cadence/bbq/opcode"
	"github.com/onflow/cadence/common"

	"verif/harness/internal/hx"
)

func init() {
	hx.Register(&hx.Stream{Name: "instr", Gen: genInstr, Exec: execInstr, Parallel: true})
}

// ---------------------------------------------------------------------------------------------
// reflection over the real instruction structs

var (
	tU16      = reflect.TypeOf(uint16(0))
	tBool     = reflect.TypeOf(false)
	tU16s     = reflect.TypeOf([]uint16(nil))
	tPD       = reflect.TypeOf(common.PathDomain(0))
	tCK       = reflect.TypeOf(common.CompositeKind(0))
	tUpvalues = reflect.TypeOf([]opcode.Upvalue(nil))
)

// instrType returns the struct type of the instruction with this opcode (nil when the byte is not an opcode).
func instrType(op byte) (t reflect.Type) {
	defer func() {
		if recover() != nil {
			t = nil
		}
	}()
	code := make([]byte, 16) // zero operands: arrays decode as empty
	code[0] = op
	var ip uint16
	ins := opcode.DecodeInstruction(&ip, code)
	if ins == nil {
		return nil
	}
	return reflect.TypeOf(ins)
}

func renderInstr(ins opcode.Instruction) string {
	v := reflect.ValueOf(ins)
	var sb strings.Builder
	sb.WriteString(strconv.Itoa(int(ins.Opcode())))
	for i := 0; i < v.NumField(); i++ {
		f := v.Field(i)
		sb.WriteByte(' ')
		switch f.Type() {
		case tU16:
			sb.WriteString("u16=" + strconv.FormatUint(f.Uint(), 10))
		case tBool:
			if f.Bool() {
				sb.WriteString("bool=1")
			} else {
				sb.WriteString("bool=0")
			}
		case tU16s:
			parts := make([]string, f.Len())
			for j := range parts {
				parts[j] = strconv.FormatUint(f.Index(j).Uint(), 10)
			}
			sb.WriteString("u16s=" + strings.Join(parts, ","))
		case tPD:
			sb.WriteString("pd=" + strconv.FormatUint(f.Uint(), 10))
		case tCK:
			sb.WriteString("ck=" + strconv.FormatUint(f.Uint(), 10))
		case tUpvalues:
			parts := make([]string, f.Len())
			for j := range parts {
				u := f.Index(j).Interface().(opcode.Upvalue)
				l := "0"
				if u.IsLocal {
					l = "1"
				}
				parts[j] = strconv.Itoa(int(u.TargetIndex)) + "/" + l
			}
			sb.WriteString("up=" + strings.Join(parts, ","))
		default:
			sb.WriteString("unknown-field-type=" + f.Type().String())
		}
	}
	return sb.String()
}

func parseInstr(s string) (opcode.Instruction, error) {
	fields := strings.Split(s, " ")
	op, err := strconv.Atoi(fields[0])
	if err != nil || op < 0 || op > 255 {
		return nil, fmt.Errorf("bad opcode")
	}
	t := instrType(byte(op))
	if t == nil {
		return nil, fmt.Errorf("no instruction for opcode %d", op)
	}
	v := reflect.New(t).Elem()
	if v.NumField() != len(fields)-1 {
		return nil, fmt.Errorf("operand count")
	}
	for i := 0; i < v.NumField(); i++ {
		kv := strings.SplitN(fields[i+1], "=", 2)
		if len(kv) != 2 {
			return nil, fmt.Errorf("bad operand")
		}
		f := v.Field(i)
		list := []string{}
		if kv[1] != "" {
			list = strings.Split(kv[1], ",")
		}
		switch {
		case kv[0] == "u16" && f.Type() == tU16, kv[0] == "pd" && f.Type() == tPD:
			n, err := strconv.ParseUint(kv[1], 10, f.Type().Bits())
			if err != nil {
				return nil, err
			}
			f.SetUint(n)
		case kv[0] == "ck" && f.Type() == tCK:
			n, err := strconv.ParseUint(kv[1], 10, 64)
			if err != nil {
				return nil, err
			}
			f.SetUint(n)
		case kv[0] == "bool" && f.Type() == tBool:
			f.SetBool(kv[1] == "1")
		case kv[0] == "u16s" && f.Type() == tU16s:
			var xs []uint16
			for _, p := range list {
				n, err := strconv.ParseUint(p, 10, 16)
				if err != nil {
					return nil, err
				}
				xs = append(xs, uint16(n))
			}
			f.Set(reflect.ValueOf(xs))
		case kv[0] == "up" && f.Type() == tUpvalues:
			var us []opcode.Upvalue
			for _, p := range list {
				tl := strings.SplitN(p, "/", 2)
				if len(tl) != 2 {
					return nil, fmt.Errorf("bad upvalue")
				}
				n, err := strconv.ParseUint(tl[0], 10, 16)
				if err != nil {
					return nil, err
				}
				us = append(us, opcode.Upvalue{TargetIndex: uint16(n), IsLocal: tl[1] == "1"})
			}
			f.Set(reflect.ValueOf(us))
		default:
			return nil, fmt.Errorf("operand %d: kind %s does not fit field type %s", i, kv[0], f.Type())
		}
	}
	return v.Interface().(opcode.Instruction), nil
}

func randU16(r *hx.Rng) uint64 {
	switch r.Intn(6) {
	case 0:
		return []uint64{0, 1, 127, 128, 255, 256, 257, 0x7fff, 0x8000, 0xff00, 0xfffe, 0xffff}[r.Intn(12)]
	case 1:
		return uint64(r.Intn(256))
	default:
		return r.U64() & 0xffff
	}
}

func randInstr(r *hx.Rng, t reflect.Type, bigArrays bool) opcode.Instruction {
	v := reflect.New(t).Elem()
	arrLen := func() int {
		if bigArrays && r.Chance(3) {
			return []int{255, 256, 1000, 65535}[r.Intn(4)]
		}
		return []int{0, 0, 1, 1, 2, 3, 5, 17}[r.Intn(8)]
	}
	for i := 0; i < v.NumField(); i++ {
		f := v.Field(i)
		switch f.Type() {
		case tU16:
			f.SetUint(randU16(r))
		case tBool:
			f.SetBool(r.Bool())
		case tPD:
			f.SetUint(uint64(r.Intn(256)))
		case tCK:
			if r.Chance(10) {
				f.SetUint([]uint64{65535, 65536, 65537, 1 << 32}[r.Intn(4)]) // beyond uint16: truncated by the encoder
			} else if r.Chance(50) {
				f.SetUint(uint64(r.Intn(12)))
			} else {
				f.SetUint(randU16(r))
			}
		case tU16s:
			n := arrLen()
			xs := make([]uint16, n)
			for j := range xs {
				xs[j] = uint16(randU16(r))
			}
			if n == 0 && r.Bool() {
				xs = nil
			}
			f.Set(reflect.ValueOf(xs))
		case tUpvalues:
			n := arrLen()
			us := make([]opcode.Upvalue, n)
			for j := range us {
				us[j] = opcode.Upvalue{TargetIndex: uint16(randU16(r)), IsLocal: r.Bool()}
			}
			if n == 0 && r.Bool() {
				us = nil
			}
			f.Set(reflect.ValueOf(us))
		}
	}
	return v.Interface().(opcode.Instruction)
}

func genInstr(c *hx.Ctx) {
	r := c.Rng
	var types []reflect.Type
	for op := 0; op < 256; op++ {
		if t := instrType(byte(op)); t != nil {
			types = append(types, t)
		} else if op < int(opcode.OpcodeMax)+3 || op%37 == 0 {
			// bytes that are not opcodes: the decoder must panic (unreachable), never return something
			c.Emit("instr", "dec", hx.Hex([]byte{byte(op), 0, 0, 0, 0}), "0")
		}
	}
	trails := []string{"-", "00", "ff", "0001", "ffffffff"}
	// every opcode: zero operands, maximal operands, random operands
	for _, t := range types {
		zero := reflect.New(t).Elem().Interface().(opcode.Instruction)
		c.Emit("instr", "rt", renderInstr(zero), "0", "-")
		per := 6
		if c.Thorough() {
			per = 40
		}
		for k := 0; k < per; k++ {
			pre := []int{0, 0, 0, 1, 7, 300}[r.Intn(6)]
			c.Emit("instr", "rt", renderInstr(randInstr(r, t, c.Thorough())), strconv.Itoa(pre), trails[r.Intn(len(trails))])
		}
		// instruction pointer close to the uint16 limit (ends exactly at / beyond 65535)
		ins := randInstr(r, t, false)
		var code []byte
		ins.Encode(&code)
		for _, end := range []int{65534, 65535, 65536, 65537} {
			if end-len(code) >= 0 && (c.Thorough() || r.Chance(15)) {
				c.Emit("instr", "rt", renderInstr(ins), strconv.Itoa(end-len(code)), "-")
			}
		}
	}
	// array count limits (the encoders panic above 65535 elements)
	if c.Thorough() {
		for _, t := range types {
			for i := 0; i < t.NumField(); i++ {
				ft := t.Field(i).Type
				if ft != tU16s && ft != tUpvalues {
					continue
				}
				for _, n := range []int{65535, 65536} {
					v := reflect.New(t).Elem()
					v.Field(i).Set(reflect.MakeSlice(ft, n, n))
					c.Emit("instr", "rt", renderInstr(v.Interface().(opcode.Instruction)), "0", "-")
				}
			}
		}
	}
	// instruction sequences of compiled generated programs
	nprog := 6
	if c.Thorough() {
		nprog = 60
	}
	for p := 0; p < nprog; p++ {
		src := genCdcProgram(r.Fork())
		prog, _, err := compileCdc(src, false)
		if err != nil || prog == nil {
			continue
		}
		for _, fn := range prog.Functions {
			if len(fn.Code) == 0 {
				continue
			}
			parts := make([]string, len(fn.Code))
			for i, ins := range fn.Code {
				parts[i] = renderInstr(ins)
			}
			c.Emit("instr", "seq", strings.Join(parts, "|"))
		}
	}
	// random sequences and random bytes
	for i := 0; i < c.N; i++ {
		switch r.Intn(4) {
		case 0, 1:
			t := types[r.Intn(len(types))]
			c.Emit("instr", "rt", renderInstr(randInstr(r, t, false)), strconv.Itoa(r.Intn(4)), trails[r.Intn(len(trails))])
		case 2:
			n := 1 + r.Intn(12)
			parts := make([]string, n)
			for j := range parts {
				parts[j] = renderInstr(randInstr(r, types[r.Intn(len(types))], false))
			}
			c.Emit("instr", "seq", strings.Join(parts, "|"))
		case 3:
			// mostly a valid instruction that is truncated or followed by junk
			var code []byte
			randInstr(r, types[r.Intn(len(types))], false).Encode(&code)
			switch r.Intn(3) {
			case 0:
				code = code[:r.Intn(len(code)+1)]
			case 1:
				code = append(code, r.Bytes(r.Intn(4))...)
			case 2:
				code = r.Bytes(1 + r.Intn(8))
			}
			c.Emit("instr", "dec", hx.Hex(code), strconv.Itoa(r.Intn(len(code)+2)))
		}
	}
}

func guard(f func() string) (res string) {
	defer func() {
		if r := recover(); r != nil {
			res = "panic"
		}
	}()
	return f()
}

func execInstr(op []string) string {
	if len(op) < 3 || op[0] != "instr" {
		return "not-this-stream"
	}
	switch op[1] {
	case "rt":
		ins, err := parseInstr(op[2])
		if err != nil {
			return "bad-op:" + hx.Clean(err.Error())
		}
		pre, _ := strconv.Atoi(op[3])
		trail := hx.UnHex(op[4])
		var enc []byte
		if r := guard(func() string { ins.Encode(&enc); return "" }); r != "" {
			return "encode-panic"
		}
		code := make([]byte, pre, pre+len(enc)+len(trail))
		for i := range code {
			code[i] = 0xaa
		}
		code = append(append(code, enc...), trail...)
		return hx.Hex(enc) + ":" + guard(func() string {
			ip := uint16(pre)
			dec := opcode.DecodeInstruction(&ip, code)
			return renderInstr(dec) + ":" + strconv.Itoa(int(ip))
		})
	case "seq":
		var code []byte
		for _, s := range strings.Split(op[2], "|") {
			ins, err := parseInstr(s)
			if err != nil {
				return "bad-op:" + hx.Clean(err.Error())
			}
			if r := guard(func() string { ins.Encode(&code); return "" }); r != "" {
				return "encode-panic"
			}
		}
		return hx.Hex(code) + ":" + guard(func() string {
			decoded := opcode.DecodeInstructions(code)
			parts := make([]string, len(decoded))
			for i, d := range decoded {
				parts[i] = renderInstr(d)
			}
			return strings.Join(parts, "|")
		})
	case "dec":
		code := hx.UnHex(op[2])
		ipn, _ := strconv.Atoi(op[3])
		return guard(func() string {
			ip := uint16(ipn)
			dec := opcode.DecodeInstruction(&ip, code)
			return renderInstr(dec) + ":" + strconv.Itoa(int(ip))
		})
	}
	return "bad-op"
}

