package main

// Shared by the layer-L2 streams copysem (C05), resown (C02), refinv (C04), nointernal (C01); list this
// file in PROP["harness_files"].  Each generated program is a script run on the real runtime twice —
// interpreter and VM — from fresh identical ledgers.
//
// op line:   <stream> \t <label> \t <key=value>* \t forms=<f,...> \t <source>
// go result: <sx> @@ <obs interp> @@ <obs vm>
//   sx  = S-expression of the checked program the runtime parsed (internal/sx2), or `oof:<reason>` when
//         a node lies outside the model's fragment, or `reject:<kind>` when parse/check failed
//   obs = <outcome>|<log;log;…>|<event;event;…>   (internal/lang2.Observation)

import (
	"strings"

	"verif/harness/internal/lang2"
	"verif/harness/internal/sx2"
)

func execLang2(op []string) string {
	src := strings.ReplaceAll(op[len(op)-1], "\\n", "\n")
	var sxs string
	prog, err := lang2.Check(src)
	if err != nil {
		sxs = "reject:" + l2FirstKind(err)
	} else if s, err := sx2.Program(prog); err != nil {
		sxs = "oof:" + strings.TrimPrefix(err.Error(), "out-of-fragment:")
	} else {
		sxs = s
	}
	parts := []string{sxs}
	if strings.HasPrefix(sxs, "reject:") {
		parts = append(parts, "rejected||", "rejected||")
	} else {
		for _, vm := range []bool{false, true} {
			parts = append(parts, lang2.Observation(lang2.Run(src, vm)))
		}
	}
	return strings.Join(parts, " @@ ")
}

func l2FirstKind(err error) string {
	s := err.Error()
	if len(s) > 200 {
		s = s[:200]
	}
	return strings.NewReplacer(" ", "_", "\n", "_", "\t", "_").Replace(s)
}

func l2Src(s string) string { return strings.ReplaceAll(s, "\n", "\\n") }
