package main

// Stream `range` (property C21): InclusiveRange<T> construction, iteration through `for` and
// `contains`, as scripts in either engine.
//   range iter <T> <start> <end> <step|-> <engine>          => ok:<n>:<elements> | cerr | err:<kind>
//   range contains <T> <start> <end> <step|-> <x> <engine>  => ok:true|false | cerr | err:<kind>

import (
	"math/big"
	"strconv"
	"strings"

	"github.com/onflow/cadence"
	"github.com/onflow/cadence/sema"

	"verif/harness/internal/cdc"
	"verif/harness/internal/hx"
)

func init() {
	hx.Register(&hx.Stream{Name: "range", Gen: genRange, Exec: execRange, Parallel: true})
}

var rangeTypes = []string{"Int", "UInt",
	"Int8", "Int16", "Int32", "Int64", "Int128", "Int256",
	"UInt8", "UInt16", "UInt32", "UInt64", "UInt128", "UInt256",
	"Word8", "Word16", "Word32", "Word64", "Word128", "Word256"}

const rangeMaxElems = 400

func rangeBounds(ty string) (min, max *big.Int) {
	for _, t := range sema.AllIntegerTypes {
		if t.String() == ty {
			rt := t.(sema.IntegerRangedType)
			return rt.MinInt(), rt.MaxInt()
		}
	}
	panic("unknown type " + ty)
}

func rangeErr(out *cdc.Outcome) string {
	switch out.Kind {
	case "interpreter.InclusiveRangeConstructionError":
		return "cerr"
	case "interpreter.OverflowError":
		return "err:overflow"
	case "interpreter.UnderflowError":
		return "err:underflow"
	case "cdc.LimitExceeded":
		return "err:limit"
	}
	return "err:" + out.Class + ":" + out.Kind
}

func execRange(op []string) string {
	ty := op[2]
	ctor := "InclusiveRange<" + ty + ">(" + op[3] + ", " + op[4]
	if op[5] != "-" {
		ctor += ", step: " + op[5]
	}
	ctor += ")"
	env := cdc.NewEnv()
	env.Limit = 5000000
	switch op[1] {
	case "iter":
		src := "access(all) fun main(): [" + ty + "] {\n let r = " + ctor + "\n var out: [" + ty + "] = []\n" +
			" for i in r {\n  out.append(i)\n  if out.length > " + strconv.Itoa(rangeMaxElems+50) + " { break }\n }\n return out\n}"
		out := env.Script(src, nil, op[6] == "vm")
		if out.Class != "none" {
			return rangeErr(out)
		}
		arr := out.Value.(cadence.Array)
		parts := make([]string, len(arr.Values))
		for i, v := range arr.Values {
			parts[i] = v.String()
		}
		return "ok:" + strconv.Itoa(len(parts)) + ":" + strings.Join(parts, ",")
	case "contains":
		src := "access(all) fun main(): Bool {\n let r = " + ctor + "\n return r.contains(" + op[6] + ")\n}"
		out := env.Script(src, nil, op[7] == "vm")
		if out.Class != "none" {
			return rangeErr(out)
		}
		return "ok:" + out.Value.String()
	}
	return "bad-op"
}

func rangeValue(r *hx.Rng, min, max *big.Int) *big.Int {
	lo, hi := min, max
	if lo == nil {
		lo = new(big.Int).Neg(new(big.Int).Lsh(big.NewInt(1), 300))
	}
	if hi == nil {
		hi = new(big.Int).Lsh(big.NewInt(1), 300)
	}
	var v *big.Int
	switch r.Intn(10) {
	case 0, 1:
		v = new(big.Int).Add(lo, big.NewInt(int64(r.Intn(4))))
	case 2, 3:
		v = new(big.Int).Sub(hi, big.NewInt(int64(r.Intn(4))))
	case 4:
		v = big.NewInt(int64(r.Intn(3) - 1))
	case 5:
		v = big.NewInt(int64(r.Intn(201) - 100))
	default:
		span := new(big.Int).Sub(hi, lo)
		v = new(big.Int).SetBytes(r.Bytes(len(span.Bytes()) + 1))
		v.Mod(v, new(big.Int).Add(span, big.NewInt(1)))
		v.Add(v, lo)
	}
	if v.Cmp(lo) < 0 {
		v.Set(lo)
	}
	if v.Cmp(hi) > 0 {
		v.Set(hi)
	}
	return v
}

func genRange(c *hx.Ctx) {
	r := c.Rng
	eng := func() string { return []string{"interp", "vm"}[r.Intn(2)] }
	// fixed: ranges ending at the bounds of every type (the former overflow / non-termination cases)
	for _, ty := range rangeTypes {
		min, max := rangeBounds(ty)
		if max != nil {
			s := new(big.Int).Sub(max, big.NewInt(5)).String()
			c.Emit("range", "iter", ty, s, max.String(), "-", eng())
			c.Emit("range", "iter", ty, s, max.String(), "2", eng())
			c.Emit("range", "contains", ty, s, max.String(), "2", max.String(), eng())
		}
		if min != nil && min.Sign() < 0 {
			s := new(big.Int).Add(min, big.NewInt(5)).String()
			c.Emit("range", "iter", ty, s, min.String(), "-", eng())
			c.Emit("range", "iter", ty, s, min.String(), "-3", eng())
			c.Emit("range", "contains", ty, min.String(), max.String(), "-", "100", eng())
			c.Emit("range", "contains", ty, max.String(), min.String(), "-7", "-100", eng())
			c.Emit("range", "iter", ty, max.String(), min.String(), min.String(), eng())
			c.Emit("range", "iter", ty, min.String(), max.String(), max.String(), eng())
		}
		c.Emit("range", "iter", ty, "0", "10", "3", eng())
		c.Emit("range", "contains", ty, "0", "10", "3", "10", eng())
		c.Emit("range", "contains", ty, "0", "10", "3", "9", eng())
		c.Emit("range", "iter", ty, "5", "5", "0", eng())
		c.Emit("range", "iter", ty, "5", "3", "-", eng())
		c.Emit("range", "iter", ty, "3", "5", "1", eng())
	}
	for i := 0; i < c.N; i++ {
		ty := rangeTypes[r.Intn(len(rangeTypes))]
		min, max := rangeBounds(ty)
		start := rangeValue(r, min, max)
		end := rangeValue(r, min, max)
		if r.Chance(15) { // short distance
			end = new(big.Int).Add(start, big.NewInt(int64(r.Intn(41)-20)))
			if (min != nil && end.Cmp(min) < 0) || (max != nil && end.Cmp(max) > 0) {
				end = new(big.Int).Set(start)
			}
		}
		dist := new(big.Int).Sub(end, start)
		isContains := r.Chance(45)
		var step *big.Int
		switch r.Intn(10) {
		case 0: // default step
			step = nil
		case 1: // boundary steps
			step = rangeValue(r, min, max)
		case 2: // small steps (only when that keeps the iteration short, or for contains)
			step = big.NewInt(int64(1 + r.Intn(9)))
			if dist.Sign() < 0 {
				step.Neg(step)
			}
		case 3: // wrong direction / zero
			step = big.NewInt(int64(r.Intn(3) - 1))
			if dist.Sign() > 0 && r.Bool() {
				step.SetInt64(-1)
			}
		default: // about distance / k, k elements
			k := big.NewInt(int64(1 + r.Intn(rangeMaxElems-1)))
			step = new(big.Int).Quo(dist, k)
			step.Add(step, big.NewInt(int64(r.Intn(3)-1)))
			if step.Sign() == 0 {
				step.SetInt64(1)
				if dist.Sign() < 0 {
					step.SetInt64(-1)
				}
			}
		}
		if step != nil && ((min != nil && step.Cmp(min) < 0) || (max != nil && step.Cmp(max) > 0)) {
			step = nil
		}
		// number of elements must stay small for iteration
		if !isContains {
			var n *big.Int
			if step == nil {
				n = new(big.Int).Abs(dist)
			} else if step.Sign() != 0 {
				n = new(big.Int).Abs(new(big.Int).Quo(dist, step))
			} else {
				n = big.NewInt(0)
			}
			if n.Cmp(big.NewInt(rangeMaxElems)) > 0 {
				isContains = true
			}
		}
		ss := "-"
		if step != nil {
			ss = step.String()
		}
		if !isContains {
			c.Emit("range", "iter", ty, start.String(), end.String(), ss, eng())
			continue
		}
		// needle: a member, a near-member, the bounds, or random
		var x *big.Int
		st := step
		if st == nil || st.Sign() == 0 {
			st = big.NewInt(1)
			if dist.Sign() < 0 {
				st.SetInt64(-1)
			}
		}
		switch r.Intn(8) {
		case 0:
			x = new(big.Int).Set(start)
		case 1:
			x = new(big.Int).Set(end)
		case 2, 3, 4: // start + k*step (+ small offset)
			q := new(big.Int).Quo(dist, st)
			k := new(big.Int)
			if q.Sign() > 0 {
				k.SetBytes(r.Bytes(len(q.Bytes()) + 1))
				k.Mod(k, new(big.Int).Add(q, big.NewInt(2)))
			}
			x = new(big.Int).Add(start, new(big.Int).Mul(k, st))
			if r.Chance(30) {
				x.Add(x, big.NewInt(int64(r.Intn(3)-1)))
			}
		case 5: // just beyond the end
			x = new(big.Int).Add(end, big.NewInt(int64(r.Intn(5)-2)))
		default:
			x = rangeValue(r, min, max)
		}
		if (min != nil && x.Cmp(min) < 0) || (max != nil && x.Cmp(max) > 0) {
			x = rangeValue(r, min, max)
		}
		c.Emit("range", "contains", ty, start.String(), end.String(), ss, x.String(), eng())
	}
}
