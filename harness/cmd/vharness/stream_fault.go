package main

// Stream `fault` (property C28): a corpus of scripts / transactions covering the host callback kinds;
// for every (callback, call index) reached in a clean run, the recording host makes that call fail by
// returning an error and by panicking; plus pairs of failures around the documented exception frames.
//
// op:  fault <engine> <prog> <kind> <nsigners> <args> <source> { <method> <index> <mode> }+
// obs: fired=<list of fired faults with their frame> esc=<0|1> res=<ok|err> ext=<0|1> sent=<which fault's sentinel is in the chain|-> class=<...> dep=<nil|some|-> value=<0|1>

import (
	"errors"
	"fmt"
	"os"
	"strconv"
	"strings"
	"time"

	"github.com/onflow/cadence/common"
	"github.com/onflow/cadence/interpreter"

	"verif/harness/internal/host"
	"verif/harness/internal/hx"
)

func init() {
	hx.Register(&hx.Stream{Name: "fault", Gen: c28Gen, Exec: host.Robust(c28Exec, 120*time.Second, 900*time.Second), Parallel: true, Timeout: host.RobustTimeout})
}

const c28Contract = `access(all) contract D { ` +
	`access(all) var n: Int  access(all) event E(x: Int) ` +
	`access(all) resource R { access(all) var v: Int  init(v: Int) { self.v = v } } ` +
	`access(all) fun mk(_ v: Int): @R { return <- create R(v: v) } ` +
	`access(all) fun inc() { self.n = self.n + 1; emit E(x: self.n) } ` +
	`init() { self.n = 0 } }`

const c28ContractV2 = `access(all) contract U { access(all) fun f(): Int { return 2 } init() {} }`
const c28ContractV1 = `access(all) contract U { access(all) fun f(): Int { return 1 } init() {} }`

const c28PK = `PublicKey(publicKey: "0102".decodeHex(), signatureAlgorithm: SignatureAlgorithm.ECDSA_P256)`
const c28BLSPK = `PublicKey(publicKey: "0102".decodeHex(), signatureAlgorithm: SignatureAlgorithm.BLS_BLS12_381)`

type c28Prog struct {
	name, kind string
	signers    int
	args       string // JSON-CDC arguments separated by `;;`
	src        string
}

var c28AuthAll = "auth(Storage, Contracts, Keys, Inbox, Capabilities) &Account"

func c28Corpus() []c28Prog {
	return []c28Prog{
		{"storage", "tx", 1, "", `import D from 0x1  transaction { prepare(a: ` + c28AuthAll + `) { a.storage.save([1, 2, 3], to: /storage/s1); let v = a.storage.load<Int>(from: /storage/seed); a.storage.save(<- D.mk(3), to: /storage/r1); D.inc(); log(v) } execute { log("x") } }`},
		{"queries", "script", 0, "", `access(all) fun main(): UInt64 { let a = getAccount(0x1); let b = a.balance; let c = a.availableBalance; let u = a.storage.used; let k = a.storage.capacity; let h = getCurrentBlock().height; let bl = getBlock(at: 3); let r = revertibleRandom<UInt64>(); log(a.contracts.names); return u + k + h }`},
		{"keys", "tx", 1, "", `transaction { prepare(a: ` + c28AuthAll + `) { let k = a.keys.add(publicKey: ` + c28PK + `, hashAlgorithm: HashAlgorithm.SHA3_256, weight: 100.0); let g = a.keys.get(keyIndex: 0); let n = a.keys.count; let r = a.keys.revoke(keyIndex: 0); log(n) } }`},
		{"crypto", "script", 0, "", `access(all) fun main(): Bool { let pk = ` + c28PK + `; let ok = pk.verify(signature: [1], signedData: [2], domainSeparationTag: "t", hashAlgorithm: HashAlgorithm.SHA3_256); let h = HashAlgorithm.SHA3_256.hash([1, 2]); let h2 = HashAlgorithm.SHA2_256.hashWithTag([1], tag: "x"); let b = ` + c28BLSPK + `; let p = b.verifyPoP([1]); let s = BLS.aggregateSignatures([[1, 2], [3]]); let q = BLS.aggregatePublicKeys([b]); return ok }`},
		{"contracts", "tx", 1, "", `transaction { prepare(a: ` + c28AuthAll + `) { let c = a.contracts.add(name: "U", code: @U1@.utf8); let d = a.contracts.update(name: "U", code: @U2@.utf8); log(a.contracts.names); let g = a.contracts.get(name: "U"); let r = a.contracts.remove(name: "T") } }`},
		{"tryupdate", "tx", 1, "", `transaction { prepare(a: ` + c28AuthAll + `) { log("in"); let res = a.contracts.tryUpdate(name: "T", code: @T2@.utf8); log("out"); log(res.deployedContract == nil) } }`},
		{"args", "tx", 1, `{"type":"Int","value":"5"};;{"type":"String","value":"s"}`, `transaction(x: Int, y: String) { prepare(a: ` + c28AuthAll + `) { log(x); log(y) } }`},
		{"create", "tx", 1, "", `transaction { prepare(a: auth(Storage, BorrowValue) &Account) { let b = Account(payer: a); log(b.address) } }`},
		{"caps", "tx", 1, "", `transaction { prepare(a: ` + c28AuthAll + `) { let c = a.capabilities.storage.issue<&Int>(/storage/seed); a.capabilities.publish(c, at: /public/seedcap); let g = a.capabilities.get<&Int>(/public/seedcap); let v = g.borrow(); let ac = a.capabilities.account.issue<&Account>(); log(v) } }`},
		{"pubkey", "script", 0, "", `access(all) fun main(): Int { let pk = ` + c28PK + `; return pk.publicKey.length }`},
		{"move", "tx", 2, "", `import D from 0x1  transaction { prepare(a: ` + c28AuthAll + `, b: ` + c28AuthAll + `) { a.storage.save(<- D.mk(1), to: /storage/m1); let r <- a.storage.load<@D.R>(from: /storage/m1)!; b.storage.save(<- r, to: /storage/m1) } }`},
		{"import-script", "script", 0, "", `import D from 0x1  access(all) fun main(): Int { return D.n }`},
		// first storage of two / three accounts in one execution: AccountStorage.commit writes several account
		// storage map registers (its multi-account path); every register write of the commit is a crash point
		{"multi-account", "tx", 3, "", `transaction { prepare(a: ` + c28AuthAll + `, b: ` + c28AuthAll + `, c: ` + c28AuthAll + `) { b.storage.save(1, to: /storage/x); c.storage.save([2, 3], to: /storage/x); a.storage.save(3, to: /storage/x3) } }`},
		{"multi-account-4", "tx", 4, "", `transaction { prepare(a: ` + c28AuthAll + `, b: ` + c28AuthAll + `, c: ` + c28AuthAll + `, d: ` + c28AuthAll + `) { d.storage.save("z", to: /storage/x); b.storage.save(1, to: /storage/x); c.storage.save([2, 3], to: /storage/x) } }`},
	}
}

func c28Expand(src string) string {
	q := func(s string) string { return `"` + strings.ReplaceAll(s, `"`, `\"`) + `"` }
	src = strings.ReplaceAll(src, "@U1@", q(c28ContractV1))
	src = strings.ReplaceAll(src, "@U2@", q(c28ContractV2))
	src = strings.ReplaceAll(src, "@T2@", q(strings.ReplaceAll(c28ContractV2, "contract U", "contract T")))
	return src
}

// the standard world: D and T deployed at 0x1, /storage/seed = 7
func c28World(useVM bool) *host.World {
	w := host.NewWorld()
	w.Signers = []common.Address{{0, 0, 0, 0, 0, 0, 0, 1}}
	q := func(s string) string { return `"` + strings.ReplaceAll(s, `"`, `\"`) + `"` }
	setup := `transaction { prepare(a: ` + c28AuthAll + `) { a.contracts.add(name: "D", code: ` + q(c28Contract) + `.utf8); a.contracts.add(name: "T", code: ` +
		q(strings.ReplaceAll(c28ContractV1, "contract U", "contract T")) + `.utf8); a.storage.save(7, to: /storage/seed) } }`
	h := host.New(w)
	res := host.Run(h, "tx", setup, nil, useVM, 1)
	if !res.OK() {
		panic(fmt.Sprintf("fault stream: setup failed: %v", res.Err))
	}
	return w
}

func c28Args(s string) [][]byte {
	if s == "" || s == "-" {
		return nil
	}
	var out [][]byte
	for _, a := range strings.Split(s, ";;") {
		out = append(out, []byte(a))
	}
	return out
}

func c28Signers(w *host.World, n int) {
	w.Signers = nil
	for j := 0; j < n; j++ {
		w.Signers = append(w.Signers, common.Address{0, 0, 0, 0, 0, 0, 0, byte(j + 1)})
	}
}

func c28Gen(c *hx.Ctx) {
	canErr := map[string]bool{}
	for _, m := range host.AllMethods {
		canErr[m.Name] = m.CanErr
	}
	for _, engine := range []string{"interp", "vm"} {
		base := c28World(engine == "vm")
		for _, p := range c28Corpus() {
			// clean run: which callbacks are reached, how often
			w := base.Clone()
			c28Signers(w, p.signers)
			h := host.New(w)
			res := host.Run(h, p.kind, c28Expand(p.src), c28Args(p.args), engine == "vm", 2)
			if !res.OK() {
				fmt.Fprintf(os.Stderr, "fault stream: clean run of %s (%s) failed: %v\n", p.name, engine, res.Err)
				continue
			}
			args := p.args
			if args == "" {
				args = "-"
			}
			head := []string{"fault", engine, p.name, p.kind, strconv.Itoa(p.signers), args, p.src}
			c.Emit(append(append([]string{}, head...), "none", "0", "err")...)
			type pt struct {
				m string
				i int
			}
			var points []pt
			for _, m := range host.AllMethods {
				n := h.Counts[m.Name]
				// every call index for rare callbacks; first, second, middle and last for frequent ones (all in thorough)
				idx := map[int]bool{}
				if n <= 6 || c.Thorough() || (m.Name == "SetValue" && strings.HasPrefix(p.name, "multi-account")) {
					for i := 0; i < n && i < 40; i++ {
						idx[i] = true
					}
				} else {
					for _, i := range []int{0, 1, n / 2, n - 2, n - 1} {
						idx[i] = true
					}
				}
				for i := 0; i < n; i++ {
					if !idx[i] {
						continue
					}
					points = append(points, pt{m.Name, i})
					for _, mode := range []string{"err", "panic"} {
						if mode == "err" && !m.CanErr {
							continue
						}
						c.Emit(append(append([]string{}, head...), m.Name, strconv.Itoa(i), mode)...)
					}
				}
			}
			// pairs of failures (sampled; all pairs for the exception-frame programs)
			k := 12
			if p.name == "tryupdate" || p.name == "pubkey" || p.name == "keys" {
				k = 60
			}
			if c.Thorough() {
				k *= 4
			}
			for j := 0; j < k && len(points) > 1; j++ {
				a, b := points[c.Rng.Intn(len(points))], points[c.Rng.Intn(len(points))]
				ma, mb := c.Rng.Pick([]string{"err", "panic"}), c.Rng.Pick([]string{"err", "panic"})
				if !canErr[a.m] {
					ma = "panic"
				}
				if !canErr[b.m] {
					mb = "panic"
				}
				if a == b {
					continue
				}
				c.Emit(append(append([]string{}, head...), a.m, strconv.Itoa(a.i), ma, b.m, strconv.Itoa(b.i), mb)...)
			}
		}
	}
}

var c28Worlds = map[bool]*host.World{}

func c28Exec(op []string) string {
	if len(op) < 10 || op[0] != "fault" || (len(op)-7)%3 != 0 {
		return "bad-op"
	}
	useVM := op[1] == "vm"
	ns, _ := strconv.Atoi(op[4])
	w := c28World(useVM)
	c28Signers(w, ns)
	h := host.New(w)
	var faults []*host.Fault
	for i := 7; i+2 < len(op); i += 3 {
		if op[i] == "none" {
			continue
		}
		idx, _ := strconv.Atoi(op[i+1])
		faults = append(faults, host.NewFault(op[i], idx, op[i+2]))
	}
	h.Faults = faults
	res := host.Run(h, op[3], c28Expand(op[6]), c28Args(op[5]), useVM, 2)

	// which faults fired, in order, and under which documented exception frame
	var fired []string
	inTry := false
	for _, ev := range h.Trace {
		switch {
		case strings.HasPrefix(ev, "l:"):
			if ev == "l:"+host.Digest([]byte(`"in"`)) {
				inTry = true
			} else if ev == "l:"+host.Digest([]byte(`"out"`)) {
				inTry = false
			}
		case strings.HasPrefix(ev, "!"):
			frame := "none"
			if inTry && strings.HasPrefix(ev, "!ProgramLog#") {
				// the failing call is the log("out") after tryUpdate returned
				inTry = false
			}
			if inTry {
				frame = "try"
			} else if strings.HasPrefix(ev, "!ValidatePublicKey#") && strings.HasSuffix(ev, ":err") {
				frame = "pk"
			}
			fired = append(fired, ev[1:]+"@"+frame)
		}
	}
	firedS := "-"
	if len(fired) > 0 {
		firedS = strings.Join(fired, ",")
	}
	esc, ext := "0", "0"
	if res.Escaped {
		esc = "1"
	}
	if host.HasExternal(res.Err) {
		ext = "1"
	}
	sent := "-"
	for _, f := range faults {
		if host.CarriesSentinel(res.Err, f) {
			sent = fmt.Sprintf("%s#%d:%s", f.Method, f.Index, f.Mode)
			break
		}
	}
	if res.Escaped {
		for _, f := range faults {
			if e, ok := res.PanicVal.(error); ok && host.CarriesSentinel(e, f) {
				sent = fmt.Sprintf("%s#%d:%s", f.Method, f.Index, f.Mode)
			}
		}
	}
	class, _ := host.ErrClass(res.Err)
	dep := "-"
	for i, l := range h.Logs {
		if l == `"out"` && i+1 < len(h.Logs) {
			if h.Logs[i+1] == "true" {
				dep = "nil"
			} else {
				dep = "some"
			}
		}
	}
	ipk := "0"
	var ipkErr *interpreter.InvalidPublicKeyError
	if errors.As(res.Err, &ipkErr) {
		ipk = "1"
	}
	val := "0"
	if res.Value != nil {
		val = "1"
	}
	if os.Getenv("VERIF_DEBUG") != "" && res.Err != nil {
		fmt.Fprintln(os.Stderr, op[2], op[7:], "ERR:", strings.SplitN(res.Err.Error(), "\n", 3)[:2])
	}
	return fmt.Sprintf("fired=%s esc=%s res=%s ext=%s sent=%s class=%s dep=%s value=%s ipk=%s", firedS, esc, res.Status(), ext, sent, class, dep, val, ipk)
}
