package main

// Stream `pp` (property C38): printing a parsed program / expression / type and re-parsing it.
//
//   pp  expr  <source>     parser.ParseExpression -> String() (ast.Prettier, width 80) -> re-parse
//   pp  type  <source>     parser.ParseType       -> String() -> re-parse
//   pp  prog  <source>     parser.ParseProgram    -> String() -> re-parse
//   pp  str   <hex>        ast.QuoteString(s) parsed as an expression
//
// Observations (fields separated by " \x1f "):
//   expr/type: reject | <rt-ok|rt-diff|rt-err> <ast sexpr> <source tokens> <printed tokens> <re-parsed sexpr|->
//   prog:      reject | rt-ok | <rt-diff|rt-err> <sexpr of the smallest sub-expression that fails alone|->
//   str:       <rt-ok|rt-diff|rt-err> <hex of the quoted literal>
// ASTs are compared as JSON (the AST's own MarshalJSON) with all position information removed.

import (
	"bytes"
	"encoding/hex"
	"encoding/json"
	"fmt"
	"sort"
	"strings"

	"github.com/onflow/cadence/ast"
	"github.com/onflow/cadence/parser"
	"github.com/onflow/cadence/parser/lexer"

	"verif/harness/internal/hx"
)

func init() {
	hx.Register(&hx.Stream{Name: "pp", Gen: genPP, Exec: execPP, Parallel: true})
}

const c38Sep = " \x1f "

// ---------- position-free JSON ----------

func c38IsPosObject(m map[string]any) bool {
	if len(m) != 3 {
		return false
	}
	_, a := m["Offset"]
	_, b := m["Line"]
	_, c := m["Column"]
	return a && b && c
}

func c38Strip(v any) any {
	switch x := v.(type) {
	case map[string]any:
		out := map[string]any{}
		for k, val := range x {
			if k == "StartPos" || k == "EndPos" || k == "DocString" || k == "Comments" {
				continue
			}
			if strings.HasSuffix(k, "Pos") {
				continue
			}
			if m, ok := val.(map[string]any); ok && c38IsPosObject(m) {
				continue
			}
			out[k] = c38Strip(val)
		}
		return out
	case []any:
		out := make([]any, len(x))
		for i := range x {
			out[i] = c38Strip(x[i])
		}
		return out
	}
	return v
}

func c38CanonJSON(v any) (string, error) {
	raw, err := json.Marshal(v)
	if err != nil {
		return "", err
	}
	var generic any
	dec := json.NewDecoder(bytes.NewReader(raw))
	dec.UseNumber()
	if err := dec.Decode(&generic); err != nil {
		return "", err
	}
	out, err := json.Marshal(c38Strip(generic)) // map keys are sorted by encoding/json
	return string(out), err
}

func c38Generic(v any) any {
	raw, err := json.Marshal(v)
	if err != nil {
		return nil
	}
	var generic any
	dec := json.NewDecoder(bytes.NewReader(raw))
	dec.UseNumber()
	if err := dec.Decode(&generic); err != nil {
		return nil
	}
	return c38Strip(generic)
}

func c38Kind(v any) string {
	switch x := v.(type) {
	case nil:
		return "null"
	case map[string]any:
		if t, ok := x["Type"].(string); ok {
			return t
		}
		keys := make([]string, 0, len(x))
		for k := range x {
			keys = append(keys, k)
		}
		sort.Strings(keys)
		return "{" + strings.Join(keys, ",") + "}"
	case []any:
		return fmt.Sprintf("list%d", len(x))
	case string:
		return "string"
	}
	return "scalar"
}

// c38EmptyBlock: a block / parameter list without elements
func c38IsEmptyContainer(v any) bool {
	m, ok := v.(map[string]any)
	if !ok {
		return false
	}
	for k, val := range m {
		if k == "Type" {
			continue
		}
		switch x := val.(type) {
		case nil:
		case []any:
			if len(x) != 0 {
				return false
			}
		default:
			return false
		}
	}
	return true
}

// c38FirstDiff: JSON path (field names only, indices dropped) of the first difference between two
// position-free ASTs and a short description of the two sides.
func c38FirstDiff(a, b any, path string) string {
	switch x := a.(type) {
	case map[string]any:
		y, ok := b.(map[string]any)
		if !ok {
			break
		}
		keys := make([]string, 0, len(x))
		for k := range x {
			keys = append(keys, k)
		}
		for k := range y {
			if _, ok := x[k]; !ok {
				keys = append(keys, k)
			}
		}
		sort.Strings(keys)
		for _, k := range keys {
			if d := c38FirstDiff(x[k], y[k], path+"."+k); d != "" {
				return d
			}
		}
		return ""
	case []any:
		y, ok := b.([]any)
		if !ok || len(x) != len(y) {
			break
		}
		for i := range x {
			if d := c38FirstDiff(x[i], y[i], path); d != "" {
				return d
			}
		}
		return ""
	default:
		if fmt.Sprint(a) == fmt.Sprint(b) && c38Kind(a) == c38Kind(b) {
			return ""
		}
	}
	ka, kb := c38Kind(a), c38Kind(b)
	if c38IsEmptyContainer(a) {
		ka = "empty-" + ka
	}
	if c38IsEmptyContainer(b) {
		kb = "empty-" + kb
	}
	i := strings.LastIndex(path, ".")
	return path[i+1:] + ":" + ka + "/" + kb
}

// ---------- S-expressions of expressions and types ----------

func c38Hex(s string) string {
	if s == "" {
		return "-"
	}
	return hex.EncodeToString([]byte(s))
}

func c38SxNominal(t *ast.NominalType) string {
	if t == nil {
		return "(oof nil-nominal)"
	}
	parts := []string{t.Identifier.Identifier}
	for _, n := range t.NestedIdentifiers {
		parts = append(parts, n.Identifier)
	}
	return "(nom " + strings.Join(parts, " ") + ")"
}

func c38SxAnn(t *ast.TypeAnnotation) string {
	if t == nil {
		return "(oof nil-annotation)"
	}
	r := "N"
	if t.IsResource {
		r = "R"
	}
	return "(ann " + r + " " + c38SxType(t.Type) + ")"
}

func c38SxType(t ast.Type) string {
	switch t := t.(type) {
	case nil:
		return "(oof nil-type)"
	case *ast.NominalType:
		return c38SxNominal(t)
	case *ast.OptionalType:
		return "(opt " + c38SxType(t.Type) + ")"
	case *ast.ReferenceType:
		auth := "(noauth)"
		switch a := t.Authorization.(type) {
		case nil:
		case *ast.ConjunctiveEntitlementSet:
			ps := []string{}
			for _, e := range a.Elements {
				ps = append(ps, c38SxNominal(e))
			}
			auth = "(conj " + strings.Join(ps, " ") + ")"
		case *ast.DisjunctiveEntitlementSet:
			ps := []string{}
			for _, e := range a.Elements {
				ps = append(ps, c38SxNominal(e))
			}
			auth = "(disj " + strings.Join(ps, " ") + ")"
		case *ast.MappedAccess:
			auth = "(map " + c38SxNominal(a.EntitlementMap) + ")"
		default:
			auth = fmt.Sprintf("(oof auth-%T)", a)
		}
		if t.LegacyAuthorized {
			auth = "(oof legacy-auth)"
		}
		return "(ref " + auth + " " + c38SxType(t.Type) + ")"
	case *ast.InstantiationType:
		ps := []string{}
		for _, a := range t.TypeArguments {
			ps = append(ps, c38SxAnn(a))
		}
		return strings.TrimSpace("(inst "+c38SxType(t.Type)+" "+strings.Join(ps, " ")) + ")"
	case *ast.FunctionType:
		ps := []string{}
		for _, a := range t.ParameterTypeAnnotations {
			ps = append(ps, c38SxAnn(a))
		}
		p := "impure"
		if t.PurityAnnotation == ast.FunctionPurityView {
			p = "view"
		}
		return "(funT " + p + " (" + strings.Join(ps, " ") + ") " + c38SxAnn(t.ReturnTypeAnnotation) + ")"
	case *ast.VariableSizedType:
		return "(varr " + c38SxType(t.Type) + ")"
	case *ast.ConstantSizedType:
		if t.Size == nil || t.Size.Value.Sign() < 0 {
			return "(oof const-size)"
		}
		return "(carr " + c38SxType(t.Type) + " " + string(t.Size.PositiveLiteral) + ")"
	case *ast.DictionaryType:
		return "(dictT " + c38SxType(t.KeyType) + " " + c38SxType(t.ValueType) + ")"
	case *ast.IntersectionType:
		if t.LegacyRestrictedType != nil {
			return "(oof legacy-restricted)"
		}
		ps := []string{}
		for _, e := range t.Types {
			ps = append(ps, c38SxNominal(e))
		}
		return strings.TrimSpace("(isect "+strings.Join(ps, " ")) + ")"
	}
	return fmt.Sprintf("(oof %T)", t)
}

func c38SxInvocation(e *ast.InvocationExpression) string {
	if e == nil {
		return "(oof nil-invocation)"
	}
	tas := []string{}
	for _, a := range e.TypeArguments {
		tas = append(tas, c38SxAnn(a))
	}
	as := []string{}
	for _, a := range e.Arguments {
		if a.Label != "" {
			as = append(as, "(larg "+a.Label+" "+c38SxExpr(a.Expression)+")")
		} else {
			as = append(as, "(arg "+c38SxExpr(a.Expression)+")")
		}
	}
	return "(inv " + c38SxExpr(e.InvokedExpression) + " (" + strings.Join(tas, " ") + ") (" + strings.Join(as, " ") + "))"
}

func c38SxExpr(e ast.Expression) string {
	switch e := e.(type) {
	case nil:
		return "(oof nil-expr)"
	case *ast.IdentifierExpression:
		return "(id " + e.Identifier.Identifier + ")"
	case *ast.IntegerExpression:
		sign := "+"
		if e.Value.Sign() < 0 {
			sign = "-"
		}
		return "(int " + sign + " " + string(e.PositiveLiteral) + ")"
	case *ast.FixedPointExpression:
		sign := "+"
		if e.Negative {
			sign = "-"
		}
		if e.PositiveLiteral == nil {
			return "(oof fixed-without-literal)"
		}
		return "(fix " + sign + " " + string(e.PositiveLiteral) + ")"
	case *ast.BoolExpression:
		if e.Value {
			return "(bool true)"
		}
		return "(bool false)"
	case *ast.NilExpression:
		return "(nil)"
	case *ast.VoidExpression:
		return "(void)"
	case *ast.StringExpression:
		return "(str " + c38Hex(e.Value) + ")"
	case *ast.StringTemplateExpression:
		var sb strings.Builder
		sb.WriteString("(tmpl")
		for i, v := range e.Values {
			sb.WriteString(" " + c38Hex(v))
			if i < len(e.Expressions) {
				sb.WriteString(" " + c38SxExpr(e.Expressions[i]))
			}
		}
		sb.WriteString(")")
		return sb.String()
	case *ast.ArrayExpression:
		ps := []string{}
		for _, v := range e.Values {
			ps = append(ps, c38SxExpr(v))
		}
		return strings.TrimSpace("(arr "+strings.Join(ps, " ")) + ")"
	case *ast.DictionaryExpression:
		ps := []string{}
		for _, en := range e.Entries {
			ps = append(ps, c38SxExpr(en.Key), c38SxExpr(en.Value))
		}
		return strings.TrimSpace("(dict "+strings.Join(ps, " ")) + ")"
	case *ast.PathExpression:
		return "(path " + e.Domain.Identifier + " " + e.Identifier.Identifier + ")"
	case *ast.UnaryExpression:
		return "(un " + e.Operation.Symbol() + " " + c38SxExpr(e.Expression) + ")"
	case *ast.BinaryExpression:
		return "(bin " + e.Operation.Symbol() + " " + c38SxExpr(e.Left) + " " + c38SxExpr(e.Right) + ")"
	case *ast.CastingExpression:
		return "(cast " + e.Operation.Symbol() + " " + c38SxExpr(e.Expression) + " " + c38SxAnn(e.TypeAnnotation) + ")"
	case *ast.ConditionalExpression:
		return "(cond " + c38SxExpr(e.Test) + " " + c38SxExpr(e.Then) + " " + c38SxExpr(e.Else) + ")"
	case *ast.ForceExpression:
		return "(force " + c38SxExpr(e.Expression) + ")"
	case *ast.ReferenceExpression:
		return "(ref " + c38SxExpr(e.Expression) + ")"
	case *ast.DestroyExpression:
		return "(destroy " + c38SxExpr(e.Expression) + ")"
	case *ast.CreateExpression:
		return "(create " + c38SxInvocation(e.InvocationExpression) + ")"
	case *ast.AttachExpression:
		return "(attach " + c38SxInvocation(e.Attachment) + " " + c38SxExpr(e.Base) + ")"
	case *ast.InvocationExpression:
		return c38SxInvocation(e)
	case *ast.MemberExpression:
		if e.Identifier.Identifier == "" {
			return "(oof member-without-name)"
		}
		if e.Optional {
			return "(omem " + c38SxExpr(e.Expression) + " " + e.Identifier.Identifier + ")"
		}
		return "(mem " + c38SxExpr(e.Expression) + " " + e.Identifier.Identifier + ")"
	case *ast.IndexExpression:
		return "(idx " + c38SxExpr(e.TargetExpression) + " " + c38SxExpr(e.IndexingExpression) + ")"
	}
	return fmt.Sprintf("(oof %T)", e)
}

// ---------- tokens ----------

// c38Tokens: the source texts of the non-trivia tokens, joined by single spaces (a space inside a
// token is written as U+2420); a token preceded by white space or a comment is prefixed with `~`.
func c38Tokens(code []byte) string {
	ts, err := lexer.Lex(code, nil)
	if err != nil {
		return "lex-error"
	}
	defer ts.Reclaim()
	var out []string
	trivia := false
	for {
		t := ts.Next()
		if t.Type == lexer.TokenEOF {
			break
		}
		switch t.Type {
		case lexer.TokenSpace, lexer.TokenBlockCommentStart, lexer.TokenBlockCommentEnd, lexer.TokenBlockCommentContent, lexer.TokenLineComment:
			trivia = true
			continue
		}
		if t.Type == lexer.TokenError {
			return "lex-error"
		}
		txt := string(code[t.StartPos.Offset : t.EndPos.Offset+1])
		txt = strings.ReplaceAll(txt, " ", "␠")
		if trivia {
			txt = "~" + txt
		}
		trivia = false
		out = append(out, txt)
	}
	if len(out) == 0 {
		return "-"
	}
	return strings.Join(out, " ")
}

// ---------- round trips ----------

func c38ExprRT(e ast.Expression) (verdict, printed string, e2 ast.Expression) {
	j1, err := c38CanonJSON(e)
	if err != nil {
		return "rt-err", "", nil
	}
	printed = e.String()
	e2, errs := parser.ParseExpression(nil, []byte(printed), parser.Config{})
	if len(errs) > 0 || e2 == nil {
		return "rt-err", printed, nil
	}
	j2, err := c38CanonJSON(e2)
	if err != nil {
		return "rt-err", printed, e2
	}
	if j1 != j2 {
		return "rt-diff", printed, e2
	}
	return "rt-ok", printed, e2
}

func c38TypeRT(t ast.Type) (verdict, printed string, t2 ast.Type) {
	j1, err := c38CanonJSON(t)
	if err != nil {
		return "rt-err", "", nil
	}
	printed = t.String()
	t2, errs := parser.ParseType(nil, []byte(printed), parser.Config{})
	if len(errs) > 0 || t2 == nil {
		return "rt-err", printed, nil
	}
	j2, err := c38CanonJSON(t2)
	if err != nil {
		return "rt-err", printed, t2
	}
	if j1 != j2 {
		return "rt-diff", printed, t2
	}
	return "rt-ok", printed, t2
}

// c38SmallestFailing walks the program and returns the S-expression of the smallest expression (by
// printed length) whose own print/re-parse round trip fails, or "-".
func c38SmallestFailing(root ast.Element) string {
	type cand struct {
		n  int
		sx string
	}
	var cands []cand
	var walk func(el ast.Element)
	walk = func(el ast.Element) {
		if el == nil {
			return
		}
		defer func() { _ = recover() }()
		if e, ok := el.(ast.Expression); ok {
			func() {
				defer func() { _ = recover() }()
				v, printed, _ := c38ExprRT(e)
				if v != "rt-ok" {
					cands = append(cands, cand{len(printed), c38SxExpr(e)})
				}
			}()
		}
		el.Walk(walk)
	}
	walk(root)
	if len(cands) == 0 {
		return "-"
	}
	sort.SliceStable(cands, func(i, j int) bool { return cands[i].n < cands[j].n })
	return cands[0].sx
}

func execPP(op []string) string {
	if len(op) < 3 {
		return "bad-op"
	}
	src := []byte(c38Decode(op[2]))
	switch op[1] {
	case "expr":
		e, errs := parser.ParseExpression(nil, src, parser.Config{})
		if len(errs) > 0 || e == nil {
			return "reject"
		}
		v, printed, e2 := c38ExprRT(e)
		re := "-"
		if e2 != nil {
			re = c38SxExpr(e2)
		}
		return strings.Join([]string{v, c38SxExpr(e), c38Tokens(src), c38Tokens([]byte(printed)), re}, c38Sep)
	case "type":
		t, errs := parser.ParseType(nil, src, parser.Config{})
		if len(errs) > 0 || t == nil {
			return "reject"
		}
		v, printed, t2 := c38TypeRT(t)
		re := "-"
		if t2 != nil {
			re = c38SxType(t2)
		}
		return strings.Join([]string{v, c38SxType(t), c38Tokens(src), c38Tokens([]byte(printed)), re}, c38Sep)
	case "prog", "progx":
		p, err := parser.ParseProgram(nil, src, parser.Config{})
		if err != nil || p == nil {
			return "reject"
		}
		j1, err := c38CanonJSON(p)
		if err != nil {
			return "rt-err" + c38Sep + "-"
		}
		printed := p.String()
		p2, err := parser.ParseProgram(nil, []byte(printed), parser.Config{})
		if err != nil || p2 == nil {
			return "rt-err" + c38Sep + c38SmallestFailing(p)
		}
		j2, err := c38CanonJSON(p2)
		if err != nil || j1 != j2 {
			sub := c38SmallestFailing(p)
			if sub == "-" {
				return "rt-diff" + c38Sep + "-" + c38Sep + c38FirstDiff(c38Generic(p), c38Generic(p2), "")
			}
			return "rt-diff" + c38Sep + sub
		}
		// the printed form must also be a fixed point of print . parse
		if p2.String() != printed {
			return "rt-diff" + c38Sep + "-"
		}
		return "rt-ok"
	case "str":
		s := string(hx.UnHex(op[2]))
		q := ast.QuoteString(s)
		e, errs := parser.ParseExpression(nil, []byte(q), parser.Config{})
		se, ok := e.(*ast.StringExpression)
		v := "rt-ok"
		if len(errs) > 0 || !ok {
			v = "rt-err"
		} else if se.Value != s {
			v = "rt-diff"
		}
		return v + c38Sep + hx.Hex([]byte(q))
	}
	return "bad-op"
}

// Operation fields must not contain tabs or newlines (the frame rewrites them): sources are written
// with U+23CE for a newline and U+21E5 for a tab.
func c38Encode(s string) string {
	return strings.ReplaceAll(strings.ReplaceAll(s, "\n", "⏎"), "\t", "⇥")
}
func c38Decode(s string) string {
	return strings.ReplaceAll(strings.ReplaceAll(s, "⏎", "\n"), "⇥", "\t")
}

// ---------- generator ----------

var c38StrAlphabet = []rune{0, '\n', '\r', '\t', '\\', '"', '\'', ' ', 'a', 'Z', '~', 0x7f, 0x80, 0xe9, 0x2028, 0xfffd, 0xffff, 0x10000, 0x1F600, 0x10FFFF, '(', ')', '{', '}', 'u', 'n', '0', 0x1f, 0xd7ff, 0xe000}

func genPP(c *hx.Ctx) {
	r := c.Rng
	// strings: all single scalars of the alphabet, all pairs, then random
	for _, a := range c38StrAlphabet {
		c.Emit("pp", "str", hx.Hex([]byte(string(a))))
	}
	for _, a := range c38StrAlphabet[:12] {
		for _, b := range c38StrAlphabet[:12] {
			c.Emit("pp", "str", hx.Hex([]byte(string([]rune{a, b}))))
		}
	}
	for i := 0; i < c.N; i++ {
		switch k := r.Intn(20); {
		case k < 6:
			c.Emit("pp", "expr", c38Encode(c38PortExpr(r)))
		case k < 9:
			c.Emit("pp", "expr", c38Encode(c38Expr(r, k < 7)))
		case k < 12:
			c.Emit("pp", "type", (&c38G{r: r, parenProb: []int{40, 70, 90}[r.Intn(3)]}).typ(2+r.Intn(3)))
		case k < 18:
			c.Emit("pp", "prog", c38Encode(c38Program(r, false)))
		case k < 19:
			c.Emit("pp", "progx", c38Encode(c38Program(r, true)))
		default:
			n := r.Intn(6)
			rs := make([]rune, n)
			for j := range rs {
				if r.Chance(70) {
					rs[j] = c38StrAlphabet[r.Intn(len(c38StrAlphabet))]
				} else {
					rs[j] = rune(r.Intn(0x11000))
					if rs[j] >= 0xd800 && rs[j] < 0xe000 {
						rs[j] = 'x'
					}
				}
			}
			c.Emit("pp", "str", hx.Hex([]byte(string(rs))))
		}
	}
}
