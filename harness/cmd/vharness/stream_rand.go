package main

// Stream `rand` (property C47): revertibleRandom<T>(modulo: m) with the host's ReadRandom scripted
// from a byte string.  `one`: a single call (directly through stdlib.RevertibleRandom, or as a
// script in either engine); `hist`: the histogram of results over *all* sources of a given length.

import (
	"errors"
	"fmt"
	"math/big"
	"strconv"

	cerrors "github.com/onflow/cadence/errors"
	"github.com/onflow/cadence/interpreter"
	"github.com/onflow/cadence/sema"
	"github.com/onflow/cadence/stdlib"

	"verif/harness/internal/cdc"
	"verif/harness/internal/hx"
)

func init() {
	hx.Register(&hx.Stream{Name: "rand", Gen: genRand, Exec: execRand, Parallel: true})
}

var randTypes = []string{"UInt8", "UInt16", "UInt32", "UInt64", "UInt128", "UInt256",
	"Word8", "Word16", "Word32", "Word64", "Word128", "Word256"}

func randBits(ty string) int {
	switch ty {
	case "UInt8", "Word8":
		return 8
	case "UInt16", "Word16":
		return 16
	case "UInt32", "Word32":
		return 32
	case "UInt64", "Word64":
		return 64
	case "UInt128", "Word128":
		return 128
	}
	return 256
}

func randSema(ty string) sema.Type {
	switch ty {
	case "UInt8":
		return sema.UInt8Type
	case "UInt16":
		return sema.UInt16Type
	case "UInt32":
		return sema.UInt32Type
	case "UInt64":
		return sema.UInt64Type
	case "UInt128":
		return sema.UInt128Type
	case "UInt256":
		return sema.UInt256Type
	case "Word8":
		return sema.Word8Type
	case "Word16":
		return sema.Word16Type
	case "Word32":
		return sema.Word32Type
	case "Word64":
		return sema.Word64Type
	case "Word128":
		return sema.Word128Type
	case "Word256":
		return sema.Word256Type
	}
	panic("bad type " + ty)
}

func randValue(ty string, m *big.Int) interpreter.Value {
	switch ty {
	case "UInt8":
		return interpreter.UInt8Value(m.Uint64())
	case "UInt16":
		return interpreter.UInt16Value(m.Uint64())
	case "UInt32":
		return interpreter.UInt32Value(m.Uint64())
	case "UInt64":
		return interpreter.UInt64Value(m.Uint64())
	case "UInt128":
		return interpreter.NewUnmeteredUInt128ValueFromBigInt(m)
	case "UInt256":
		return interpreter.NewUnmeteredUInt256ValueFromBigInt(m)
	case "Word8":
		return interpreter.Word8Value(m.Uint64())
	case "Word16":
		return interpreter.Word16Value(m.Uint64())
	case "Word32":
		return interpreter.Word32Value(m.Uint64())
	case "Word64":
		return interpreter.Word64Value(m.Uint64())
	case "Word128":
		return interpreter.NewUnmeteredWord128ValueFromBigInt(m)
	case "Word256":
		return interpreter.NewUnmeteredWord256ValueFromBigInt(m)
	}
	panic("bad type " + ty)
}

var errRandExhausted = errors.New("random source exhausted")

// scripted host generator
type randSource struct {
	src   []byte
	pos   int
	calls int
	size  int // size of the last call's buffer
	mixed bool
}

// a call that keeps asking for random bytes without consuming any (zero-size reads) is cut off
var errRandSpin = errors.New("random source: too many reads")

const randMaxCalls = 1 << 12

func (s *randSource) ReadRandom(buf []byte) error {
	if s.calls >= randMaxCalls {
		return errRandSpin
	}
	if len(buf) > len(s.src)-s.pos {
		return errRandExhausted
	}
	if s.calls > 0 && s.size != len(buf) {
		s.mixed = true
	}
	copy(buf, s.src[s.pos:s.pos+len(buf)])
	s.pos += len(buf)
	s.calls++
	s.size = len(buf)
	return nil
}

func (s *randSource) okString(v string) string {
	if s.mixed {
		return "ok:" + v + ":" + strconv.Itoa(s.calls) + ":mixed"
	}
	return "ok:" + v + ":" + strconv.Itoa(s.calls) + ":" + strconv.Itoa(s.size)
}

// one direct call; the canonical observation
func randDirect(ty string, modulo *big.Int, src []byte) (res string) {
	gen := &randSource{src: src}
	defer func() {
		if r := recover(); r != nil {
			if e, ok := r.(error); ok {
				if errors.Is(e, errRandExhausted) {
					res = "exhausted:" + strconv.Itoa(gen.calls)
					return
				}
				if errors.Is(e, errRandSpin) {
					res = "spin"
					return
				}
				if _, isUser := e.(cerrors.DefaultUserError); isUser {
					res = "zero"
					return
				}
			}
			res = "panic"
		}
	}()
	var mv interpreter.Value
	if modulo != nil {
		mv = randValue(ty, modulo)
	}
	v := stdlib.RevertibleRandom(gen, nil, randSema(ty), mv)
	return gen.okString(fmt.Sprint(v))
}

func randScript(ty string, modulo *big.Int, src []byte, useVM bool) string {
	gen := &randSource{src: src}
	arg := ""
	if modulo != nil {
		arg = "modulo: " + modulo.String()
	}
	code := "access(all) fun main(): " + ty + " { return revertibleRandom<" + ty + ">(" + arg + ") }"
	env := cdc.NewEnv()
	env.Random = gen.ReadRandom
	out := env.Script(code, nil, useVM)
	switch out.Class {
	case "none":
		return gen.okString(out.Value.String())
	case "user":
		if out.Kind == "errors.DefaultUserError" {
			return "zero"
		}
		return "err-user-" + out.Kind
	case "external":
		if errors.Is(out.Err, errRandExhausted) {
			return "exhausted:" + strconv.Itoa(gen.calls)
		}
		if errors.Is(out.Err, errRandSpin) {
			return "spin"
		}
		return "err-external"
	default:
		return "err-" + out.Class
	}
}

func execRand(op []string) string {
	switch op[1] {
	case "one":
		ty := op[2]
		var modulo *big.Int
		if op[3] != "-" {
			modulo, _ = new(big.Int).SetString(op[3], 10)
		}
		src := hx.UnHex(op[4])
		switch op[5] {
		case "direct":
			return randDirect(ty, modulo, src)
		case "interp":
			return randScript(ty, modulo, src, false)
		case "vm":
			return randScript(ty, modulo, src, true)
		}
	case "hist":
		ty := op[2]
		modulo, _ := new(big.Int).SetString(op[3], 10)
		L, _ := strconv.Atoi(op[4])
		if L > 2 || modulo.Sign() == 0 || modulo.BitLen() > 16 {
			return "bad-op"
		}
		m := int(modulo.Int64())
		counts := make([]int, m)
		bad, exh := 0, 0
		total := 1 << (8 * L)
		src := make([]byte, L)
		for x := 0; x < total; x++ {
			for i := 0; i < L; i++ {
				src[i] = byte(x >> (8 * (L - 1 - i)))
			}
			gen := &randSource{src: src}
			func() {
				defer func() {
					if r := recover(); r != nil {
						if e, ok := r.(error); ok && (errors.Is(e, errRandExhausted) || errors.Is(e, errRandSpin)) {
							exh++
						} else {
							bad++
						}
					}
				}()
				v := stdlib.RevertibleRandom(gen, nil, randSema(ty), randValue(ty, modulo))
				n, err := strconv.Atoi(fmt.Sprint(v))
				if err != nil || n < 0 || n >= m {
					bad++
				} else {
					counts[n]++
				}
			}()
		}
		vals, mn, mx := 0, 0, 0
		for _, c := range counts {
			if c == 0 {
				continue
			}
			if vals == 0 || c < mn {
				mn = c
			}
			if c > mx {
				mx = c
			}
			vals++
		}
		return fmt.Sprintf("hist:vals=%d:min=%d:max=%d:bad=%d:exh=%d", vals, mn, mx, bad, exh)
	}
	return "bad-op"
}

// boundary-biased modulus below 2^bits (may be 0)
func randModulus(r *hx.Rng, bits int) *big.Int {
	one := big.NewInt(1)
	lim := new(big.Int).Lsh(one, uint(bits))
	var m *big.Int
	switch r.Intn(8) {
	case 0: // small
		m = big.NewInt(int64(r.Intn(20)))
	case 1, 2, 3: // 2^k - 1, 2^k, 2^k + 1, 2^k + small
		k := r.Intn(bits + 1)
		m = new(big.Int).Lsh(one, uint(k))
		m.Add(m, big.NewInt(int64(r.Intn(5)-2)))
	case 4: // max and neighbours
		m = new(big.Int).Sub(lim, big.NewInt(int64(1+r.Intn(3))))
	default: // random with random bit length
		k := 1 + r.Intn(bits)
		m = new(big.Int).SetBytes(r.Bytes((k + 7) / 8))
		m.Rsh(m, uint((8-k%8)%8))
	}
	if m.Sign() < 0 {
		m.SetInt64(0)
	}
	if m.Cmp(lim) >= 0 {
		m.Sub(lim, one)
	}
	return m
}

func genRand(c *hx.Ctx) {
	r := c.Rng
	// 1. UInt8: every modulus, every first source byte (exhaustive first draw), direct
	for m := 0; m < 256; m++ {
		for b := 0; b < 256; b++ {
			src := append([]byte{byte(b)}, r.Bytes(r.Intn(5))...)
			c.Emit("rand", "one", "UInt8", strconv.Itoa(m), hx.Hex(src), "direct")
		}
	}
	// Word8: every modulus, a sample of sources (all of them in the thorough tier)
	for m := 0; m < 256; m++ {
		step := 16
		if c.Thorough() {
			step = 1
		}
		for b := r.Intn(step); b < 256; b += step {
			src := append([]byte{byte(b)}, r.Bytes(r.Intn(5))...)
			c.Emit("rand", "one", "Word8", strconv.Itoa(m), hx.Hex(src), "direct")
		}
	}
	// 2. exact histograms: all 8-bit moduli over all 1-byte sources, a sample over all 2-byte sources;
	//    16-bit types over all 2-byte sources
	for m := 1; m < 256; m++ {
		c.Emit("rand", "hist", "UInt8", strconv.Itoa(m), "1")
		c.Emit("rand", "hist", "Word8", strconv.Itoa(m), "1")
	}
	hist16 := []int{1, 2, 3, 5, 127, 128, 129, 255, 256, 257, 258, 511, 512, 513, 1000, 4097, 32767, 32768, 32769, 40000, 65534, 65535}
	extra := 8
	if c.Thorough() {
		extra = 300
	}
	for i := 0; i < extra; i++ {
		hist16 = append(hist16, 1+r.Intn(65535))
	}
	for _, m := range hist16 {
		ty := []string{"UInt16", "Word16"}[r.Intn(2)]
		c.Emit("rand", "hist", ty, strconv.Itoa(m), "2")
		if m < 256 {
			c.Emit("rand", "hist", []string{"UInt8", "Word8"}[r.Intn(2)], strconv.Itoa(m), "2")
		}
	}
	// 3. every type: zero modulo, modulo one, no modulo, in every engine
	for _, ty := range randTypes {
		for _, eng := range []string{"direct", "interp", "vm"} {
			c.Emit("rand", "one", ty, "0", hx.Hex(r.Bytes(4)), eng)
			c.Emit("rand", "one", ty, "1", "-", eng)
			c.Emit("rand", "one", ty, "-", hx.Hex(r.Bytes(randBits(ty)/8+r.Intn(3))), eng)
			c.Emit("rand", "one", ty, "-", hx.Hex(r.Bytes(r.Intn(randBits(ty)/8))), eng)
		}
	}
	// 4. boundary and random moduli, random and adversarial sources
	for i := 0; i < c.N; i++ {
		ty := randTypes[r.Intn(len(randTypes))]
		bits := randBits(ty)
		m := randModulus(r, bits)
		ms := m.String()
		if r.Chance(4) {
			ms = "-"
		}
		byteSize := 0
		if m.Sign() > 0 {
			byteSize = (new(big.Int).Sub(m, big.NewInt(1)).BitLen() + 7) / 8
		}
		var src []byte
		switch r.Intn(6) {
		case 0, 1: // random, several draws worth
			src = r.Bytes(byteSize * (1 + r.Intn(4)))
		case 2: // adversarial: k draws of 0xff, then an acceptable draw (m - 1 or 0 or random below m)
			k := r.Intn(5)
			for j := 0; j < k*byteSize; j++ {
				src = append(src, 0xff)
			}
			var v *big.Int
			switch r.Intn(3) {
			case 0:
				v = new(big.Int).Sub(m, big.NewInt(1))
			case 1:
				v = big.NewInt(0)
			default:
				v = new(big.Int).SetBytes(r.Bytes(byteSize + 1))
				if m.Sign() > 0 {
					v.Mod(v, m)
				}
			}
			if v.Sign() < 0 {
				v.SetInt64(0)
			}
			vb := v.Bytes()
			for len(vb) < byteSize {
				vb = append([]byte{0}, vb...)
			}
			src = append(src, vb...)
			// set masked-out high bits at random: the mask must remove them
			if byteSize > 0 && r.Bool() {
				hi := len(src) - byteSize
				top := uint(new(big.Int).Sub(m, big.NewInt(1)).BitLen() % 8)
				if top != 0 && m.Sign() > 0 {
					src[hi] |= byte(r.Intn(256)) &^ byte((1<<top)-1)
				}
			}
		case 3: // candidate exactly m (just above max), then m - 1
			vb := m.Bytes()
			for len(vb) < byteSize {
				vb = append([]byte{0}, vb...)
			}
			if len(vb) > byteSize {
				vb = vb[len(vb)-byteSize:]
			}
			src = append(src, vb...)
			src = append(src, r.Bytes(byteSize*2)...)
		case 4: // too short: all rejected or a partial draw
			src = r.Bytes(r.Intn(byteSize + 1))
			if r.Bool() {
				for j := range src {
					src[j] = 0xff
				}
			}
		default: // odd lengths
			src = r.Bytes(r.Intn(3*byteSize + 2))
		}
		eng := "direct"
		if r.Chance(12) {
			eng = []string{"interp", "vm"}[r.Intn(2)]
		}
		c.Emit("rand", "one", ty, ms, hx.Hex(src), eng)
	}
}
