package main

// Stream `typeid` (property C45): type IDs in the three representations, conversions, the type-ID
// decoder and the run-time type constructors of /repo.
//
// Types are written in Polish notation (space separated tokens, one field):
//   p Name | o T | va T | ca N T | d K V | r AUTH T | comp NOM | if NOM | in N NOM.. |
//   f view|impure N T.. R | capany | cap T | rng T
//   AUTH = u | c:NOM,NOM | d:NOM,NOM | m:NOM        NOM = LOC#qualified.identifier
//   LOC  = nil | A:<hex8>:<name> | S:<name> | I:<name> | t:<hex32> | s:<hex32> | REPL
// Nominal types are looked up in a universe declared through the real checker at every location kind.
//
// ops:  ty T          -> s=<sema ID>  d=<static ID>  x=<external ID>  i=<ID of ImportType(ExportType)|->  rt=1|0|E
//                        (items separated by two spaces; rt: ConvertStaticToSemaType through a real
//                        interpreter's lookups, then Equal with the original)
//       perm T1 T2    -> s=.. d=.. x=.. (ID equality bits) eq=<sema Equal><static Equal><external Equal>
//       loc KIND ID NAME QID -> tid=<type ID>  dec=KIND|ID|NAME|QID   (or dec=err); "-" is the empty string
//       dec STRING    -> dec=KIND|ID|NAME|QID or dec=err
//       ctor ENGINE T -> c=<identifier of the run-time constructed type | nil>  t=<identifier of Type<T>()>  eq=0|1
//       imp ENGINE NAME -> ok | err   (a program importing an entitlement from string location NAME and using it)

import (
	"encoding/hex"
	"fmt"
	"os"
	"sort"
	"strconv"
	"strings"
	"sync"

	"github.com/onflow/cadence"
	"github.com/onflow/cadence/common"
	"github.com/onflow/cadence/interpreter"
	"github.com/onflow/cadence/parser"
	"github.com/onflow/cadence/runtime"
	"github.com/onflow/cadence/sema"

	. "github.com/onflow/cadence/test_utils/runtime_utils"

	"verif/harness/internal/cdc"
	"verif/harness/internal/hx"
)

func init() {
	hx.Register(&hx.Stream{Name: "typeid", Gen: genTypeid, Exec: execTypeid, Parallel: false})
}

const typeidDecls = `
access(all) entitlement E1
access(all) entitlement E2
access(all) entitlement E3
access(all) entitlement mapping M { E1 -> E2 }
access(all) struct interface SI {}
access(all) struct interface SJ: SI {}
access(all) struct interface SK {}
access(all) resource interface RI {}
access(all) resource interface RK {}
access(all) struct S: SJ {}
access(all) struct S2 {}
access(all) resource R: RI {}
`

var typeidNames = []string{"E1", "E2", "E3", "M", "SI", "SJ", "SK", "RI", "RK", "S", "S2", "R"}

type typeidLoc struct {
	tok      string // LOC token
	loc      common.Location
	contract bool // declarations nested in `contract C`
}

type typeidUniverse struct {
	locs     []typeidLoc
	checkers map[common.Location]*sema.Checker
	noms     map[string]sema.Type // NOM -> type
	ents     []string             // NOMs of entitlements
	maps     []string
	sifs     []string // struct interfaces
	rifs     []string
	comps    []string
	prims    map[string]sema.Type
	primIDs  []string
	inter    *interpreter.Interpreter
}

var (
	typeidOnce sync.Once
	typeidU    *typeidUniverse
)

func typeidHex(n int, b byte) string {
	bs := make([]byte, n)
	for i := range bs {
		bs[i] = b + byte(i)
	}
	return hex.EncodeToString(bs)
}

func typeidGetUniverse() *typeidUniverse {
	typeidOnce.Do(func() {
		u := &typeidUniverse{checkers: map[common.Location]*sema.Checker{}, noms: map[string]sema.Type{}, prims: map[string]sema.Type{}}
		var scr common.ScriptLocation
		var tx common.TransactionLocation
		for i := range scr {
			scr[i] = byte(0x10 + i)
			tx[i] = byte(0xe0 - i)
		}
		addr := common.MustBytesToAddress([]byte{0, 0, 0, 0, 0, 0, 0, 1})
		u.locs = []typeidLoc{
			{"S:types", common.StringLocation("types"), false},
			{"S:a.b", common.StringLocation("a.b"), false},
			{"S:./lib.cdc", common.StringLocation("./lib.cdc"), false},
			{"I:Lib", common.IdentifierLocation("Lib"), false},
			{"I:x.y", common.IdentifierLocation("x.y"), false},
			{"s:" + hex.EncodeToString(scr[:]), scr, false},
			{"t:" + hex.EncodeToString(tx[:]), tx, false},
			{"REPL", common.REPLLocation{}, false},
			{"A:" + hex.EncodeToString(addr[:]) + ":C", common.AddressLocation{Address: addr, Name: "C"}, true},
		}
		for _, l := range u.locs {
			src := typeidDecls
			if l.contract {
				src = "access(all) contract C {\n" + typeidDecls + "\n}"
			}
			program, err := parser.ParseProgram(nil, []byte(src), parser.Config{})
			if err != nil {
				panic(err)
			}
			checker, err := sema.NewChecker(program, l.loc, nil, &sema.Config{AccessCheckMode: sema.AccessCheckModeStrict})
			if err != nil {
				panic(err)
			}
			if err := checker.Check(); err != nil {
				panic(err)
			}
			u.checkers[l.loc] = checker
			scope := checker.Elaboration
			var nested *sema.StringTypeOrderedMap
			if l.contract {
				v, _ := scope.GetGlobalType("C")
				nested = v.Type.(*sema.CompositeType).GetNestedTypes()
			}
			for _, name := range typeidNames {
				var t sema.Type
				qid := name
				if l.contract {
					t, _ = nested.Get(name)
					qid = "C." + name
				} else {
					v, ok := scope.GetGlobalType(name)
					if ok {
						t = v.Type
					}
				}
				if t == nil {
					panic("missing " + name)
				}
				nom := l.tok + "#" + qid
				u.noms[nom] = t
				switch tt := t.(type) {
				case *sema.EntitlementType:
					u.ents = append(u.ents, nom)
				case *sema.EntitlementMapType:
					u.maps = append(u.maps, nom)
				case *sema.InterfaceType:
					if tt.CompositeKind == common.CompositeKindResource {
						u.rifs = append(u.rifs, nom)
					} else {
						u.sifs = append(u.sifs, nom)
					}
				case *sema.CompositeType:
					u.comps = append(u.comps, nom)
				}
			}
		}
		// built-in entitlements (nil location)
		for _, n := range []string{"Mutate", "Insert", "Remove"} {
			t := sema.BuiltinEntitlements[n]
			if t == nil {
				panic("missing builtin entitlement " + n)
			}
			nom := "nil#" + n
			u.noms[nom] = t
			u.ents = append(u.ents, nom)
		}
		for _, t := range []sema.Type{
			sema.AnyStructType, sema.AnyResourceType, sema.HashableStructType, sema.NeverType, sema.VoidType, sema.BoolType,
			sema.StringType, sema.CharacterType, sema.MetaType, sema.TheAddressType, sema.PathType, sema.StoragePathType,
			sema.CapabilityPathType, sema.PublicPathType, sema.PrivatePathType, sema.NumberType, sema.SignedNumberType,
			sema.IntegerType, sema.SignedIntegerType, sema.FixedSizeUnsignedIntegerType, sema.FixedPointType, sema.SignedFixedPointType,
			sema.IntType, sema.Int8Type, sema.Int16Type, sema.Int32Type, sema.Int64Type, sema.Int128Type, sema.Int256Type,
			sema.UIntType, sema.UInt8Type, sema.UInt16Type, sema.UInt32Type, sema.UInt64Type, sema.UInt128Type, sema.UInt256Type,
			sema.Word8Type, sema.Word16Type, sema.Word32Type, sema.Word64Type, sema.Word128Type, sema.Word256Type,
			sema.Fix64Type, sema.Fix128Type, sema.UFix64Type, sema.UFix128Type, sema.AnyStructAttachmentType, sema.AnyResourceAttachmentType,
		} {
			id := string(t.ID())
			u.prims[id] = t
			u.primIDs = append(u.primIDs, id)
		}
		sort.Strings(u.primIDs)

		// a real interpreter whose imports resolve to the universe's programs
		main := u.locs[0]
		inter, err := interpreter.NewInterpreter(
			interpreter.ProgramFromChecker(u.checkers[main.loc]),
			main.loc,
			&interpreter.Config{
				ImportLocationHandler: func(inter *interpreter.Interpreter, location common.Location) interpreter.Import {
					checker, ok := u.checkers[location]
					if !ok {
						panic(fmt.Sprintf("no program at location %s", location))
					}
					sub, err := inter.NewSubInterpreter(interpreter.ProgramFromChecker(checker), location)
					if err != nil {
						panic(err)
					}
					return interpreter.InterpreterImport{Interpreter: sub}
				},
				ContractValueHandler: func(inter *interpreter.Interpreter, compositeType *sema.CompositeType,
					constructorGenerator func(common.Address) *interpreter.HostFunctionValue) interpreter.ContractValue {
					return nil
				},
			},
		)
		if err != nil {
			panic(err)
		}
		if err := inter.Interpret(); err != nil {
			panic(err)
		}
		u.inter = inter
		typeidU = u
	})
	return typeidU
}

// ---- parser: tokens -> sema.Type

type typeidParser struct {
	toks []string
	pos  int
	u    *typeidUniverse
}

func (p *typeidParser) next() string {
	if p.pos >= len(p.toks) {
		panic("type encoding ends early")
	}
	t := p.toks[p.pos]
	p.pos++
	return t
}

func (p *typeidParser) nom(n string) sema.Type {
	t, ok := p.u.noms[n]
	if !ok {
		panic("unknown nominal " + n)
	}
	return t
}

func (p *typeidParser) auth() sema.Access {
	a := p.next()
	if a == "u" {
		return sema.UnauthorizedAccess
	}
	if a[0] == 'm' {
		return sema.NewEntitlementMapAccess(p.nom(a[2:]).(*sema.EntitlementMapType))
	}
	kind := sema.Conjunction
	if a[0] == 'd' {
		kind = sema.Disjunction
	}
	var es []*sema.EntitlementType
	for _, n := range strings.Split(a[2:], ",") {
		es = append(es, p.nom(n).(*sema.EntitlementType))
	}
	return sema.NewEntitlementSetAccess(es, kind)
}

func (p *typeidParser) ty() sema.Type {
	switch tok := p.next(); tok {
	case "p":
		n := p.next()
		t, ok := p.u.prims[n]
		if !ok {
			panic("unknown simple type " + n)
		}
		return t
	case "o":
		return sema.NewOptionalType(nil, p.ty())
	case "va":
		return sema.NewVariableSizedType(nil, p.ty())
	case "ca":
		n, _ := strconv.Atoi(p.next())
		return sema.NewConstantSizedType(nil, p.ty(), int64(n))
	case "d":
		k := p.ty()
		v := p.ty()
		return sema.NewDictionaryType(nil, k, v)
	case "r":
		a := p.auth()
		return sema.NewReferenceType(nil, a, p.ty())
	case "comp":
		return p.nom(p.next()).(*sema.CompositeType)
	case "if":
		return p.nom(p.next()).(*sema.InterfaceType)
	case "in":
		n, _ := strconv.Atoi(p.next())
		var is []*sema.InterfaceType
		for i := 0; i < n; i++ {
			is = append(is, p.nom(p.next()).(*sema.InterfaceType))
		}
		return sema.NewIntersectionType(nil, nil, is)
	case "f":
		purity := sema.FunctionPurityImpure
		if p.next() == "view" {
			purity = sema.FunctionPurityView
		}
		n, _ := strconv.Atoi(p.next())
		var params []sema.Parameter
		for i := 0; i < n; i++ {
			params = append(params, sema.Parameter{
				Label: sema.ArgumentLabelNotRequired, Identifier: "a" + strconv.Itoa(i),
				TypeAnnotation: sema.NewTypeAnnotation(p.ty()),
			})
		}
		ret := p.ty()
		return sema.NewSimpleFunctionType(purity, params, sema.NewTypeAnnotation(ret))
	case "capany":
		return &sema.CapabilityType{}
	case "cap":
		return sema.NewCapabilityType(nil, p.ty())
	case "rng":
		return sema.NewInclusiveRangeType(nil, p.ty())
	default:
		panic("bad type token " + tok)
	}
}

func typeidParse(s string) sema.Type {
	p := &typeidParser{toks: strings.Fields(s), u: typeidGetUniverse()}
	t := p.ty()
	if p.pos != len(p.toks) {
		panic("trailing tokens in type encoding")
	}
	return t
}

func typeidTry(f func() string) (res string) {
	defer func() {
		if r := recover(); r != nil {
			res = "E"
			if os.Getenv("VERIF_DEBUG") != "" {
				fmt.Fprintf(os.Stderr, "panic: %v\n", r)
			}
		}
	}()
	return f()
}

func typeidBit(b bool) string {
	if b {
		return "1"
	}
	return "0"
}

func typeidField(s string) string {
	if s == "" {
		return "-"
	}
	return s
}

func typeidUnfield(s string) string {
	if s == "-" {
		return ""
	}
	return s
}

func typeidLocString(l common.Location) string {
	switch l := l.(type) {
	case nil:
		return "nil|-|-"
	case common.AddressLocation:
		return "A|" + hex.EncodeToString(l.Address[:]) + "|" + typeidField(l.Name)
	case common.StringLocation:
		return "S|" + typeidField(string(l)) + "|-"
	case common.IdentifierLocation:
		return "I|" + typeidField(string(l)) + "|-"
	case common.TransactionLocation:
		return "t|" + hex.EncodeToString(l[:]) + "|-"
	case common.ScriptLocation:
		return "s|" + hex.EncodeToString(l[:]) + "|-"
	case common.REPLLocation:
		return "REPL|-|-"
	}
	return "?|-|-"
}

func typeidMakeLoc(kind, id, name string) common.Location {
	id, name = typeidUnfield(id), typeidUnfield(name)
	switch kind {
	case "nil":
		return nil
	case "A":
		b, err := hex.DecodeString(id)
		if err != nil {
			panic(err)
		}
		return common.AddressLocation{Address: common.MustBytesToAddress(b), Name: name}
	case "S":
		return common.StringLocation(id)
	case "I":
		return common.IdentifierLocation(id)
	case "t":
		b, err := hex.DecodeString(id)
		if err != nil {
			panic(err)
		}
		return common.NewTransactionLocation(nil, b)
	case "s":
		b, err := hex.DecodeString(id)
		if err != nil {
			panic(err)
		}
		return common.NewScriptLocation(nil, b)
	case "REPL":
		return common.REPLLocation{}
	}
	panic("bad location kind " + kind)
}

func typeidDecode(s string) string {
	loc, qid, err := common.DecodeTypeID(nil, s)
	if err != nil {
		return "dec=err"
	}
	return "dec=" + typeidLocString(loc) + "|" + typeidField(qid)
}

// ---- scripts (run-time constructors, imports)

// own runtime interface: cdc.Env's location resolver accepts address locations only
type typeidHost struct {
	ledger  TestLedger
	codes   map[common.Location][]byte
	signers []common.Address
	nextScr func() common.ScriptLocation
	nextTx  func() common.TransactionLocation
	uuid    uint64
}

var (
	typeidEnvOnce sync.Once
	typeidEnv     *typeidHost
	typeidEnvMu   sync.Mutex
)

func (h *typeidHost) iface() *TestRuntimeInterface {
	return &TestRuntimeInterface{
		Storage:   h.ledger,
		OnGetCode: func(l runtime.Location) ([]byte, error) { return h.codes[l], nil },
		OnResolveLocation: func(identifiers []runtime.Identifier, location runtime.Location) ([]runtime.ResolvedLocation, error) {
			if _, ok := location.(common.AddressLocation); ok {
				return MultipleIdentifierLocationResolver(identifiers, location)
			}
			return []runtime.ResolvedLocation{{Location: location, Identifiers: identifiers}}, nil
		},
		OnGetAccountContractCode: func(l common.AddressLocation) ([]byte, error) { return h.codes[l], nil },
		OnUpdateAccountContractCode: func(l common.AddressLocation, code []byte) error {
			h.codes[l] = code
			return nil
		},
		OnGetSigningAccounts: func() ([]runtime.Address, error) { return h.signers, nil },
		OnProgramLog:         func(string) {},
		OnEmitEvent:          func(cadence.Event) error { return nil },
		OnGenerateUUID:       func() (uint64, error) { h.uuid++; return h.uuid, nil },
	}
}

func (h *typeidHost) script(src string, useVM bool) (v cadence.Value, err error) {
	defer func() {
		if r := recover(); r != nil {
			err = fmt.Errorf("escaped panic: %v", r)
		}
	}()
	return NewTestRuntime().ExecuteScript(
		runtime.Script{Source: []byte(src)},
		runtime.Context{Interface: h.iface(), Location: h.nextScr(), UseVM: useVM, ComputationGauge: &cdc.Gauge{Limit: 100000}},
	)
}

func typeidGetEnv() *typeidHost {
	typeidEnvOnce.Do(func() {
		h := &typeidHost{
			ledger: NewTestLedger(nil, nil), codes: map[common.Location][]byte{},
			nextScr: NewScriptLocationGenerator(), nextTx: NewTransactionLocationGenerator(),
		}
		addr := common.MustBytesToAddress([]byte{0, 0, 0, 0, 0, 0, 0, 1})
		h.signers = []common.Address{addr}
		src := "access(all) contract C {\n" + typeidDecls + "\n}"
		tx := fmt.Sprintf(`transaction { prepare(s: auth(AddContract) &Account) { s.contracts.add(name: "C", code: "%s".decodeHex().toVariableSized()) } }`,
			hex.EncodeToString([]byte(src)))
		_ = tx
		tx = fmt.Sprintf(`transaction { prepare(s: auth(AddContract) &Account) { s.contracts.add(name: "C", code: "%s".decodeHex()) } }`,
			hex.EncodeToString([]byte(src)))
		err := NewTestRuntime().ExecuteTransaction(
			runtime.Script{Source: []byte(tx)},
			runtime.Context{Interface: h.iface(), Location: h.nextTx(), ComputationGauge: &cdc.Gauge{Limit: 1000000}},
		)
		if err != nil {
			panic(fmt.Sprintf("deploy failed: %v", err))
		}
		h.signers = nil
		for _, n := range []string{"types", "a.b", "./lib.cdc", "ab", "lib"} {
			h.codes[common.StringLocation(n)] = []byte(typeidDecls)
		}
		typeidEnv = h
	})
	return typeidEnv
}

// Cadence source of a type (nominals from `S:types` are imported by name, from the contract as C.X)
// source with the resource annotation where the type is resource-kinded
func (p *typeidParser) annotated() string {
	q := &typeidParser{toks: p.toks, pos: p.pos, u: p.u}
	t := q.ty()
	s := p.src()
	if t.IsResourceType() {
		return "@" + s
	}
	return s
}

func (p *typeidParser) src() string {
	nomSrc := func(n string) string {
		i := strings.Index(n, "#")
		return n[i+1:]
	}
	switch tok := p.next(); tok {
	case "p":
		return p.next()
	case "o":
		return "(" + p.src() + ")?"
	case "va":
		return "[" + p.src() + "]"
	case "ca":
		n := p.next()
		return "[" + p.src() + "; " + n + "]"
	case "d":
		k := p.src()
		v := p.src()
		return "{" + k + ": " + v + "}"
	case "r":
		a := p.next()
		inner := p.src()
		if a == "u" {
			return "&(" + inner + ")"
		}
		sep := ", "
		if a[0] == 'd' {
			sep = " | "
		}
		var es []string
		for _, n := range strings.Split(a[2:], ",") {
			es = append(es, nomSrc(n))
		}
		return "auth(" + strings.Join(es, sep) + ") &(" + inner + ")"
	case "comp", "if":
		return nomSrc(p.next())
	case "in":
		n, _ := strconv.Atoi(p.next())
		var is []string
		for i := 0; i < n; i++ {
			is = append(is, nomSrc(p.next()))
		}
		return "{" + strings.Join(is, ", ") + "}"
	case "f":
		purity := p.next()
		n, _ := strconv.Atoi(p.next())
		var ps []string
		for i := 0; i < n; i++ {
			ps = append(ps, p.annotated())
		}
		ret := p.annotated()
		s := "fun(" + strings.Join(ps, ", ") + "): " + ret
		if purity == "view" {
			s = "view " + s
		}
		return "(" + s + ")"
	case "capany":
		return "Capability"
	case "cap":
		return "Capability<" + p.src() + ">"
	case "rng":
		return "InclusiveRange<" + p.src() + ">"
	default:
		panic("bad type token " + tok)
	}
}

func typeidSrc(toks []string) (string, int) {
	p := &typeidParser{toks: toks, u: typeidGetUniverse()}
	s := p.annotated()
	return s, p.pos
}

// the run-time constructor expression for the head constructor of the encoded type
func typeidCtorExpr(enc string) string {
	u := typeidGetUniverse()
	toks := strings.Fields(enc)
	child := func(i int) (string, int) {
		s, n := typeidSrc(toks[i:])
		return "Type<" + s + ">()", i + n
	}
	idOf := func(nom string) string { return `"` + string(u.noms[nom].ID()) + `"` }
	switch toks[0] {
	case "o":
		c, _ := child(1)
		return "OptionalType(" + c + ")"
	case "va":
		c, _ := child(1)
		return "VariableSizedArrayType(" + c + ")"
	case "ca":
		c, _ := child(2)
		return "ConstantSizedArrayType(type: " + c + ", size: " + toks[1] + ")"
	case "d":
		k, j := child(1)
		v, _ := child(j)
		return "DictionaryType(key: " + k + ", value: " + v + ")"
	case "r":
		c, _ := child(2)
		var ids []string
		if toks[1] != "u" {
			for _, n := range strings.Split(toks[1][2:], ",") {
				ids = append(ids, idOf(n))
			}
		}
		return "ReferenceType(entitlements: [" + strings.Join(ids, ", ") + "], type: " + c + ")"
	case "comp":
		return "CompositeType(" + idOf(toks[1]) + ")"
	case "in":
		var ids []string
		for _, n := range toks[2:] {
			ids = append(ids, idOf(n))
		}
		return "IntersectionType(types: [" + strings.Join(ids, ", ") + "])"
	case "f":
		n, _ := strconv.Atoi(toks[2])
		i := 3
		var ps []string
		for k := 0; k < n; k++ {
			var c string
			c, i = child(i)
			ps = append(ps, c)
		}
		r, _ := child(i)
		return "FunctionType(parameters: [" + strings.Join(ps, ", ") + "], return: " + r + ")"
	case "cap":
		c, _ := child(1)
		return "CapabilityType(" + c + ")"
	case "rng":
		c, _ := child(1)
		return "InclusiveRangeType(" + c + ")"
	}
	panic("no run-time constructor for " + toks[0])
}

func typeidScriptStrings(src string, useVM bool) ([]string, string) {
	typeidEnvMu.Lock()
	defer typeidEnvMu.Unlock()
	v, err := typeidGetEnv().script(src, useVM)
	if err != nil {
		if os.Getenv("VERIF_DEBUG") != "" {
			fmt.Fprintf(os.Stderr, "script error: %v\n%s\n", err, src)
		}
		class, _ := cdc.Classify(err)
		return nil, "err:" + class
	}
	arr, ok := v.(cadence.Array)
	if !ok {
		return nil, "err:shape"
	}
	var res []string
	for _, v := range arr.Values {
		switch v := v.(type) {
		case cadence.String:
			res = append(res, string(v))
		case cadence.Bool:
			res = append(res, typeidBit(bool(v)))
		case cadence.Optional:
			if v.Value == nil {
				res = append(res, "nil")
			} else if s, ok := v.Value.(cadence.String); ok {
				res = append(res, string(s))
			} else {
				res = append(res, "?")
			}
		default:
			res = append(res, "?")
		}
	}
	return res, ""
}

func execTypeid(op []string) string {
	u := typeidGetUniverse()
	switch op[1] {
	case "ty":
		t := typeidParse(op[2])
		st := interpreter.ConvertSemaToStaticType(nil, t)
		s := typeidTry(func() string { return string(t.ID()) })
		d := typeidTry(func() string { return string(st.ID()) })
		var xt cadence.Type
		x := typeidTry(func() string {
			xt = runtime.ExportType(t, map[sema.TypeID]cadence.Type{})
			return xt.ID()
		})
		i := "-"
		if xt != nil {
			i = typeidTry(func() string { return string(runtime.ImportType(nil, xt).ID()) })
			if i == "E" {
				i = "-"
			}
		}
		rt := typeidTry(func() string {
			back, err := interpreter.ConvertStaticToSemaType(u.inter, st)
			if err != nil {
				return "E"
			}
			return typeidBit(back.Equal(t) && t.Equal(back))
		})
		return "s=" + s + "  d=" + d + "  x=" + x + "  i=" + i + "  rt=" + rt
	case "perm":
		a, b := typeidParse(op[2]), typeidParse(op[3])
		sa, sb := interpreter.ConvertSemaToStaticType(nil, a), interpreter.ConvertSemaToStaticType(nil, b)
		xa := runtime.ExportType(a, map[sema.TypeID]cadence.Type{})
		xb := runtime.ExportType(b, map[sema.TypeID]cadence.Type{})
		return "s=" + typeidBit(a.ID() == b.ID()) + " d=" + typeidBit(sa.ID() == sb.ID()) + " x=" + typeidBit(xa.ID() == xb.ID()) +
			" eq=" + typeidBit(a.Equal(b)) + typeidBit(sa.Equal(sb)) + typeidBit(xa.Equal(xb))
	case "loc":
		loc := typeidMakeLoc(op[2], op[3], op[4])
		tid := string(common.NewTypeIDFromQualifiedName(nil, loc, typeidUnfield(op[5])))
		return "tid=" + typeidField(tid) + "  " + typeidDecode(tid)
	case "dec":
		return typeidDecode(typeidUnfield(op[2]))
	case "ctor":
		tsrc, _ := typeidSrc(strings.Fields(op[3]))
		src := `import C from 0x1
import E1, E2, E3, SI, SJ, SK, RI, RK, S, S2, R from "types"
access(all) fun main(): [AnyStruct] {
  let c: Type? = ` + typeidCtorExpr(op[3]) + `
  let t = Type<` + tsrc + `>()
  return [c?.identifier, t.identifier, c != nil && c! == t]
}`
		res, e := typeidScriptStrings(src, op[2] == "vm")
		if e != "" {
			return e
		}
		return "c=" + res[0] + "  t=" + res[1] + "  eq=" + res[2]
	case "imp":
		src := `import E1, S from "` + op[3] + `"
access(all) fun main(): [AnyStruct] {
  let r = &1 as auth(E1) &Int
  let a: AnyStruct = r
  let ok = (a as? auth(E1) &Int) != nil
  let c = CompositeType(Type<S>().identifier)
  return [ok, c != nil && c! == Type<S>()]
}`
		res, e := typeidScriptStrings(src, op[2] == "vm")
		if e != "" {
			return e
		}
		return "ok cast=" + res[0] + " ctor=" + res[1]
	}
	panic("unknown op")
}

// ---- generator

type typeidGen struct {
	r *hx.Rng
	u *typeidUniverse
	// restrict nominal types to these location tokens (nil = all)
	locs []string
}

func (g *typeidGen) pickNom(all []string) string {
	if g.locs == nil {
		return all[g.r.Intn(len(all))]
	}
	var c []string
	for _, n := range all {
		for _, l := range g.locs {
			if strings.HasPrefix(n, l+"#") {
				c = append(c, n)
			}
		}
	}
	return c[g.r.Intn(len(c))]
}

func (g *typeidGen) shuffle(xs []string) []string {
	out := append([]string{}, xs...)
	for i := len(out) - 1; i > 0; i-- {
		j := g.r.Intn(i + 1)
		out[i], out[j] = out[j], out[i]
	}
	return out
}

func (g *typeidGen) distinct(all []string, n int) []string {
	seen := map[string]bool{}
	var out []string
	for len(out) < n {
		x := g.pickNom(all)
		if !seen[x] {
			seen[x] = true
			out = append(out, x)
		} else if len(seen) >= len(all) || g.r.Chance(20) {
			break
		}
	}
	return out
}

func (g *typeidGen) auth(allowMap bool) string {
	switch {
	case g.r.Chance(25):
		return "u"
	case allowMap && g.r.Chance(8):
		return "m:" + g.pickNom(g.u.maps)
	}
	es := g.distinct(g.u.ents, 1+g.r.Intn(4))
	k := "c:"
	if len(es) >= 2 && g.r.Chance(35) {
		k = "d:"
	}
	return k + strings.Join(es, ",")
}

func (g *typeidGen) inter() string {
	pool := g.u.sifs
	if g.r.Bool() {
		pool = g.u.rifs
	}
	is := g.distinct(pool, 1+g.r.Intn(4))
	return "in " + strconv.Itoa(len(is)) + " " + strings.Join(is, " ")
}

func (g *typeidGen) prim() string { return "p " + g.u.primIDs[g.r.Intn(len(g.u.primIDs))] }

func (g *typeidGen) ty(depth int, allowMap bool) string {
	if depth <= 0 || g.r.Chance(25) {
		switch g.r.Intn(8) {
		case 0, 1:
			return "comp " + g.pickNom(g.u.comps)
		case 2:
			return "if " + g.pickNom(append(append([]string{}, g.u.sifs...), g.u.rifs...))
		case 3:
			return g.inter()
		case 4:
			if g.r.Chance(40) {
				return "capany"
			}
			return g.prim()
		default:
			return g.prim()
		}
	}
	switch g.r.Intn(13) {
	case 0, 1:
		return "o " + g.ty(depth-1, allowMap)
	case 2:
		return "va " + g.ty(depth-1, allowMap)
	case 3:
		return "ca " + strconv.Itoa(g.r.Intn(4)) + " " + g.ty(depth-1, allowMap)
	case 4:
		return "d p " + []string{"String", "Int", "Address", "Bool", "UInt8", "Path", "HashableStruct", "Character"}[g.r.Intn(8)] + " " + g.ty(depth-1, allowMap)
	case 5, 6, 7, 8:
		return "r " + g.auth(allowMap) + " " + g.ty(depth-1, allowMap)
	case 9:
		n := g.r.Intn(3)
		out := "f " + []string{"view", "impure"}[g.r.Intn(2)] + " " + strconv.Itoa(n)
		for i := 0; i < n; i++ {
			out += " " + g.ty(depth-1, allowMap)
		}
		return out + " " + g.ty(depth-1, allowMap)
	case 10:
		return "cap r " + g.auth(allowMap) + " " + g.ty(depth-1, allowMap)
	case 11:
		return g.inter()
	default:
		return "rng p " + []string{"Int", "UInt8", "Integer", "Int8", "Word64", "SignedInteger", "UInt256"}[g.r.Intn(7)]
	}
}

// a copy of the encoding with the members of every entitlement set and intersection permuted
func (g *typeidGen) permute(enc string) string {
	toks := strings.Fields(enc)
	for i := 0; i < len(toks); i++ {
		switch toks[i] {
		case "r":
			a := toks[i+1]
			if a[0] == 'c' || a[0] == 'd' {
				toks[i+1] = a[:2] + strings.Join(g.shuffle(strings.Split(a[2:], ",")), ",")
			}
			i++
		case "in":
			n, _ := strconv.Atoi(toks[i+1])
			copy(toks[i+2:i+2+n], g.shuffle(toks[i+2:i+2+n]))
			i += 1 + n
		case "p", "comp", "if":
			i++
		}
	}
	return strings.Join(toks, " ")
}

var typeidAlphabet = []rune("abcXYZ019_./é日ASIts")

func (g *typeidGen) ident(dots bool) string {
	if g.r.Chance(6) {
		return ""
	}
	n := 1 + g.r.Intn(6)
	var sb strings.Builder
	for i := 0; i < n; i++ {
		c := typeidAlphabet[g.r.Intn(len(typeidAlphabet))]
		if c == '.' && !dots {
			c = 'q'
		}
		sb.WriteRune(c)
	}
	return sb.String()
}

func (g *typeidGen) qid() string {
	n := 1 + g.r.Intn(3)
	var parts []string
	for i := 0; i < n; i++ {
		parts = append(parts, g.ident(false))
	}
	if g.r.Chance(8) {
		return g.r.Pick([]string{"A", "S", "I", "t", "s", "REPL", "A.x", "S.a.b"})
	}
	return strings.Join(parts, ".")
}

// types the checker accepts inside `Type<…>()` and that have a run-time constructor
func typeidScriptable(enc string) bool {
	toks := strings.Fields(enc)
	if toks[0] == "p" || toks[0] == "capany" {
		return false
	}
	for i, t := range toks {
		switch t {
		case "if": // a bare interface is not a type
			return false
		case "rng":
			if toks[i+2] == "Integer" || toks[i+2] == "SignedInteger" {
				return false
			}
		case "r": // no references to optionals
			if i+2 < len(toks) && toks[i+2] == "o" {
				return false
			}
		}
	}
	return true
}

func genTypeid(c *hx.Ctx) {
	g := &typeidGen{r: c.Rng, u: typeidGetUniverse()}
	// the known witnesses
	c.Emit("typeid", "loc", "S", "a.b", "-", "C.D")
	c.Emit("typeid", "loc", "I", "a.b", "-", "C.D")
	c.Emit("typeid", "ty", "r c:S:a.b#E1 p Int")
	for _, e := range []string{"interp", "vm"} {
		for _, n := range []string{"ab", "a.b", "./lib.cdc", "lib"} {
			c.Emit("typeid", "imp", e, n)
		}
	}
	// every nominal type and every simple type, each location kind
	var noms []string
	for n := range g.u.noms {
		noms = append(noms, n)
	}
	sort.Strings(noms)
	for _, n := range noms {
		switch g.u.noms[n].(type) {
		case *sema.CompositeType:
			c.Emit("typeid", "ty", "comp "+n)
		case *sema.InterfaceType:
			c.Emit("typeid", "ty", "if "+n)
			c.Emit("typeid", "ty", "in 1 "+n)
		case *sema.EntitlementType:
			c.Emit("typeid", "ty", "r c:"+n+" p Int")
		case *sema.EntitlementMapType:
			c.Emit("typeid", "ty", "r m:"+n+" p Int")
		}
	}
	for _, p := range g.u.primIDs {
		c.Emit("typeid", "ty", "p "+p)
	}
	c.Emit("typeid", "ty", "capany")
	// every order of three entitlements / three interfaces
	perm3 := [][3]int{{0, 1, 2}, {0, 2, 1}, {1, 0, 2}, {1, 2, 0}, {2, 0, 1}, {2, 1, 0}}
	for _, l := range g.u.locs {
		q := func(n string) string {
			if l.contract {
				return l.tok + "#C." + n
			}
			return l.tok + "#" + n
		}
		es := []string{q("E1"), q("E2"), q("E3")}
		is := []string{q("SI"), q("SJ"), q("SK")}
		for _, p := range perm3 {
			for _, k := range []string{"c:", "d:"} {
				enc := "r " + k + es[p[0]] + "," + es[p[1]] + "," + es[p[2]] + " p Int"
				c.Emit("typeid", "ty", enc)
				c.Emit("typeid", "perm", "r "+k+es[0]+","+es[1]+","+es[2]+" p Int", enc)
			}
			enc := "in 3 " + is[p[0]] + " " + is[p[1]] + " " + is[p[2]]
			c.Emit("typeid", "ty", enc)
			c.Emit("typeid", "perm", "in 3 "+is[0]+" "+is[1]+" "+is[2], enc)
		}
	}
	// locations
	hexs := func(n int) string { return hex.EncodeToString(g.r.Bytes(n)) }
	for i := 0; i < c.N; i++ {
		// random types over all locations
		t := g.ty(3, true)
		c.Emit("typeid", "ty", t)
		if g.r.Chance(40) {
			c.Emit("typeid", "perm", t, g.permute(t))
		}
		// location kinds with random identifiers and addresses
		q := g.qid()
		switch g.r.Intn(8) {
		case 0:
			c.Emit("typeid", "loc", "nil", "-", "-", typeidField(q))
		case 1:
			name := g.ident(false)
			if g.r.Chance(70) { // the checker's shape: the location name is the first component
				name = strings.SplitN(q, ".", 2)[0]
			}
			c.Emit("typeid", "loc", "A", hexs(8), typeidField(name), typeidField(q))
		case 2, 3:
			c.Emit("typeid", "loc", "S", typeidField(g.ident(g.r.Chance(30))), "-", typeidField(q))
		case 4:
			c.Emit("typeid", "loc", "I", typeidField(g.ident(g.r.Chance(30))), "-", typeidField(q))
		case 5:
			c.Emit("typeid", "loc", "t", hexs(32), "-", typeidField(q))
		case 6:
			c.Emit("typeid", "loc", "s", hexs(32), "-", typeidField(q))
		default:
			c.Emit("typeid", "loc", "REPL", "-", "-", typeidField(q))
		}
		// malformed / arbitrary IDs to the decoder
		if g.r.Chance(50) {
			pre := g.r.Pick([]string{"A", "S", "I", "t", "s", "REPL", "", "X", "A.", "t."})
			var rest []string
			for k := g.r.Intn(5); k > 0; k-- {
				switch g.r.Intn(4) {
				case 0:
					rest = append(rest, hexs(g.r.Intn(10)))
				case 1:
					rest = append(rest, hexs(8))
				default:
					rest = append(rest, g.ident(false))
				}
			}
			s := strings.Join(append([]string{pre}, rest...), ".")
			if g.r.Chance(10) {
				rs := []rune(s)
				s = string(rs[:g.r.Intn(len(rs)+1)])
			}
			c.Emit("typeid", "dec", typeidField(s))
		}
	}
	// run-time constructors through scripts, both engines (nominal types from the contract, the string
	// location `types` and the built-in entitlements)
	gs := &typeidGen{r: c.Rng, u: g.u, locs: []string{"S:types", g.u.locs[len(g.u.locs)-1].tok, "nil"}}
	nScripts := c.N / 12
	if nScripts < 40 {
		nScripts = 40
	}
	for i := 0; i < nScripts; i++ {
		var t string
		for {
			t = gs.ty(2, false)
			if typeidScriptable(t) {
				break
			}
		}
		c.Emit("typeid", "ctor", "interp", t)
		c.Emit("typeid", "ctor", "vm", t)
	}
}
