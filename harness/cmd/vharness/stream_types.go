package main

// Stream `types` (property C08): the subtype relations of /repo on generated types.
//
// Types are written in Polish notation (space separated tokens, one field):
//   p Name | o T | va T | ca N T | d K V | r AUTH T | comp Name kind confs base | if Name kind confs
//   in N IF.. | f view|impure N T.. R | capany | cap T | rng T
//   AUTH = u | c:E1,E2 | d:E1,E2    confs = - | I1,I2 (sorted)   kind = struct|resource|enum|attachment|contract
// Nominal types carry the facts the rules read (kind, effective conformance set, attachment base
// kind); the generator prints them from the real sema types produced by the real checker for a fixed
// declaration universe, the executor looks the type up by name.
//
// ops:  sub A B   -> eq is chk gen iis iof igen   (bits; see execTypes)
//       refl A    -> bits of the IsSubType variants on (A, A)
//       bounds A  -> never<:A (3 variants) , A<:Any (3 variants)
//       trans A B C [D] -> ab bc ac  (sema.IsSubType); D = the declared interfaces `N IF..` (the facts the
//                   transitivity theorem's coherence hypothesis is about; ignored by the executor)
//       decls D     -> ok   (the driver checks that the declarations are coherent: unique names, effective
//                   conformance sets transitively closed within one kind)

import (
	"fmt"
	"os"
	"runtime/debug"
	"sort"
	"strconv"
	"strings"
	"sync"

	"github.com/onflow/cadence/ast"
	"github.com/onflow/cadence/common"
	"github.com/onflow/cadence/interpreter"
	"github.com/onflow/cadence/parser"
	"github.com/onflow/cadence/sema"

	"verif/harness/internal/hx"
)

func init() {
	hx.Register(&hx.Stream{Name: "types", Gen: genTypes, Exec: execTypes, Parallel: true})
}

const typesUniverseSrc = `
access(all) entitlement E1
access(all) entitlement E2
access(all) entitlement E3
access(all) entitlement E4
access(all) struct interface SI {}
access(all) struct interface SJ: SI {}
access(all) struct interface SK {}
access(all) resource interface RI {}
access(all) resource interface RJ: RI {}
access(all) resource interface RK {}
access(all) struct S: SJ {}
access(all) struct S2: SK, SI {}
access(all) struct S3 {}
access(all) resource R: RJ {}
access(all) resource R2: RI, RK {}
access(all) resource R3 {}
access(all) enum En: UInt8 { access(all) case a }
access(all) attachment AS for S {}
access(all) attachment AR for R {}
access(all) contract interface CI {}
access(all) contract C: CI {}
`

var typesPrimTable = map[string]sema.Type{
	"Any": sema.AnyType, "AnyStruct": sema.AnyStructType, "AnyResource": sema.AnyResourceType,
	"AnyStructAttachment": sema.AnyStructAttachmentType, "AnyResourceAttachment": sema.AnyResourceAttachmentType,
	"HashableStruct": sema.HashableStructType, "Never": sema.NeverType, "Void": sema.VoidType, "Bool": sema.BoolType,
	"String": sema.StringType, "Character": sema.CharacterType, "MetaType": sema.MetaType, "Address": sema.TheAddressType,
	"Path": sema.PathType, "StoragePath": sema.StoragePathType, "CapabilityPath": sema.CapabilityPathType,
	"PublicPath": sema.PublicPathType, "PrivatePath": sema.PrivatePathType,
	"Number": sema.NumberType, "SignedNumber": sema.SignedNumberType, "Integer": sema.IntegerType,
	"SignedInteger": sema.SignedIntegerType, "FixedSizeUnsignedInteger": sema.FixedSizeUnsignedIntegerType,
	"FixedPoint": sema.FixedPointType, "SignedFixedPoint": sema.SignedFixedPointType,
	"Int": sema.IntType, "Int8": sema.Int8Type, "Int16": sema.Int16Type, "Int32": sema.Int32Type, "Int64": sema.Int64Type,
	"Int128": sema.Int128Type, "Int256": sema.Int256Type,
	"UInt": sema.UIntType, "UInt8": sema.UInt8Type, "UInt16": sema.UInt16Type, "UInt32": sema.UInt32Type, "UInt64": sema.UInt64Type,
	"UInt128": sema.UInt128Type, "UInt256": sema.UInt256Type,
	"Word8": sema.Word8Type, "Word16": sema.Word16Type, "Word32": sema.Word32Type, "Word64": sema.Word64Type,
	"Word128": sema.Word128Type, "Word256": sema.Word256Type,
	"Fix64": sema.Fix64Type, "Fix128": sema.Fix128Type, "UFix64": sema.UFix64Type, "UFix128": sema.UFix128Type,
}

type typesUniverse struct {
	composites map[string]*sema.CompositeType
	interfaces map[string]*sema.InterfaceType
	ents       map[string]*sema.EntitlementType
	byID       map[common.TypeID]sema.Type
	primNames  []string
	compNames  []string
	ifNames    []string
}

var (
	typesUniOnce sync.Once
	typesUni     *typesUniverse
)

func typesGetUniverse() *typesUniverse {
	typesUniOnce.Do(func() {
		program, err := parser.ParseProgram(nil, []byte(typesUniverseSrc), parser.Config{})
		if err != nil {
			panic(err)
		}
		checker, err := sema.NewChecker(program, common.StringLocation("types"), nil,
			&sema.Config{AccessCheckMode: sema.AccessCheckModeStrict})
		if err != nil {
			panic(err)
		}
		if err := checker.Check(); err != nil {
			panic(err)
		}
		u := &typesUniverse{
			composites: map[string]*sema.CompositeType{}, interfaces: map[string]*sema.InterfaceType{},
			ents: map[string]*sema.EntitlementType{}, byID: map[common.TypeID]sema.Type{},
		}
		for _, d := range program.Declarations() {
			name := d.DeclarationIdentifier().Identifier
			v, ok := checker.Elaboration.GetGlobalType(name)
			if !ok {
				continue
			}
			switch t := v.Type.(type) {
			case *sema.CompositeType:
				u.composites[name] = t
				u.compNames = append(u.compNames, name)
			case *sema.InterfaceType:
				u.interfaces[name] = t
				u.ifNames = append(u.ifNames, name)
			case *sema.EntitlementType:
				u.ents[name] = t
			}
			u.byID[v.Type.ID()] = v.Type
		}
		for n := range typesPrimTable {
			u.primNames = append(u.primNames, n)
		}
		sort.Strings(u.primNames)
		sort.Strings(u.compNames)
		sort.Strings(u.ifNames)
		typesUni = u
	})
	return typesUni
}

func typesKindName(k common.CompositeKind) string {
	switch k {
	case common.CompositeKindStructure:
		return "struct"
	case common.CompositeKindResource:
		return "resource"
	case common.CompositeKindEnum:
		return "enum"
	case common.CompositeKindAttachment:
		return "attachment"
	case common.CompositeKindContract:
		return "contract"
	case common.CompositeKindEvent:
		return "event"
	}
	return "?"
}

func typesConfs(set *sema.InterfaceSet) string {
	var names []string
	set.ForEach(func(i *sema.InterfaceType) {
		names = append(names, i.Identifier)
	})
	if len(names) == 0 {
		return "-"
	}
	sort.Strings(names)
	return strings.Join(names, ",")
}

// encodings of nominal types, facts taken from the real sema types
func (u *typesUniverse) encComp(name string) string {
	t := u.composites[name]
	base := "0"
	if t.Kind == common.CompositeKindAttachment && t.GetBaseType() != nil && t.GetBaseType().IsResourceType() {
		base = "1"
	}
	return "comp " + name + " " + typesKindName(t.Kind) + " " + typesConfs(t.EffectiveInterfaceConformanceSet()) + " " + base
}
func (u *typesUniverse) encIface(name string) string {
	t := u.interfaces[name]
	return "if " + name + " " + typesKindName(t.CompositeKind) + " " + typesConfs(t.EffectiveInterfaceConformanceSet())
}

// the declared interfaces, facts from the real sema types: `N IF..`
func (u *typesUniverse) encDecls() string {
	out := strconv.Itoa(len(u.ifNames))
	for _, n := range u.ifNames {
		out += " " + u.encIface(n)
	}
	return out
}

// ---- parser: tokens -> sema.Type

type typesParser struct {
	toks []string
	pos  int
	u    *typesUniverse
}

func (p *typesParser) next() string {
	if p.pos >= len(p.toks) {
		panic("type encoding ends early")
	}
	t := p.toks[p.pos]
	p.pos++
	return t
}

func (p *typesParser) auth() sema.Access {
	a := p.next()
	if a == "u" {
		return sema.UnauthorizedAccess
	}
	kind := sema.Conjunction
	if a[0] == 'd' {
		kind = sema.Disjunction
	}
	var es []*sema.EntitlementType
	for _, n := range strings.Split(a[2:], ",") {
		e, ok := p.u.ents[n]
		if !ok {
			panic("unknown entitlement " + n)
		}
		es = append(es, e)
	}
	return sema.NewEntitlementSetAccess(es, kind)
}

func (p *typesParser) ty() sema.Type {
	switch tok := p.next(); tok {
	case "p":
		n := p.next()
		t, ok := typesPrimTable[n]
		if !ok {
			panic("unknown simple type " + n)
		}
		return t
	case "o":
		return sema.NewOptionalType(nil, p.ty())
	case "va":
		return sema.NewVariableSizedType(nil, p.ty())
	case "ca":
		n, _ := strconv.Atoi(p.next())
		return sema.NewConstantSizedType(nil, p.ty(), int64(n))
	case "d":
		k := p.ty()
		v := p.ty()
		return sema.NewDictionaryType(nil, k, v)
	case "r":
		a := p.auth()
		return sema.NewReferenceType(nil, a, p.ty())
	case "comp":
		name := p.next()
		p.next()
		p.next()
		p.next()
		return p.u.composites[name]
	case "if":
		name := p.next()
		p.next()
		p.next()
		return p.u.interfaces[name]
	case "in":
		n, _ := strconv.Atoi(p.next())
		var is []*sema.InterfaceType
		for i := 0; i < n; i++ {
			is = append(is, p.ty().(*sema.InterfaceType))
		}
		return sema.NewIntersectionType(nil, nil, is)
	case "f":
		purity := sema.FunctionPurityImpure
		if p.next() == "view" {
			purity = sema.FunctionPurityView
		}
		n, _ := strconv.Atoi(p.next())
		var params []sema.Parameter
		for i := 0; i < n; i++ {
			params = append(params, sema.Parameter{
				Label: sema.ArgumentLabelNotRequired, Identifier: "a" + strconv.Itoa(i),
				TypeAnnotation: sema.NewTypeAnnotation(p.ty()),
			})
		}
		ret := p.ty()
		return sema.NewSimpleFunctionType(purity, params, sema.NewTypeAnnotation(ret))
	case "capany":
		return &sema.CapabilityType{}
	case "cap":
		return sema.NewCapabilityType(nil, p.ty())
	case "rng":
		return sema.NewInclusiveRangeType(nil, p.ty())
	default:
		panic("bad type token " + tok)
	}
}

func typesParse(s string) sema.Type {
	p := &typesParser{toks: strings.Fields(s), u: typesGetUniverse()}
	t := p.ty()
	if p.pos != len(p.toks) {
		panic("trailing tokens in type encoding")
	}
	return t
}

// ---- TypeConverter over the universe

type typesConverter struct{ u *typesUniverse }

func (typesConverter) MeterMemory(common.MemoryUsage) error { return nil }
func (c typesConverter) GetEntitlementType(id interpreter.TypeID) (*sema.EntitlementType, error) {
	if t, ok := c.u.byID[id].(*sema.EntitlementType); ok {
		return t, nil
	}
	return nil, fmt.Errorf("unknown entitlement %s", id)
}
func (c typesConverter) GetEntitlementMapType(id interpreter.TypeID) (*sema.EntitlementMapType, error) {
	return nil, fmt.Errorf("unknown entitlement map %s", id)
}
func (c typesConverter) GetInterfaceType(_ common.Location, _ string, id interpreter.TypeID) (*sema.InterfaceType, error) {
	if t, ok := c.u.byID[id].(*sema.InterfaceType); ok {
		return t, nil
	}
	return nil, fmt.Errorf("unknown interface %s", id)
}
func (c typesConverter) GetCompositeType(_ common.Location, _ string, id interpreter.TypeID) (*sema.CompositeType, error) {
	if t, ok := c.u.byID[id].(*sema.CompositeType); ok {
		return t, nil
	}
	return nil, fmt.Errorf("unknown composite %s", id)
}
func (c typesConverter) SemaTypeFromStaticType(t interpreter.StaticType) sema.Type {
	r, err := interpreter.ConvertStaticToSemaType(c, t)
	if err != nil {
		panic(err)
	}
	return r
}
func (c typesConverter) SemaAccessFromStaticAuthorization(a interpreter.Authorization) (sema.Access, error) {
	return interpreter.ConvertStaticAuthorizationToSemaAccess(a, c)
}

func typesBit(f func() bool) (res string) {
	defer func() {
		if r := recover(); r != nil {
			res = "P"
			if os.Getenv("VERIF_DEBUG") != "" {
				fmt.Fprintf(os.Stderr, "panic: %v\n%s\n", r, debug.Stack())
			}
		}
	}()
	if f() {
		return "1"
	}
	return "0"
}

func execTypes(op []string) string {
	conv := typesConverter{u: typesGetUniverse()}
	static := func(t sema.Type) interpreter.StaticType { return interpreter.ConvertSemaToStaticType(nil, t) }
	variants := func(a, b sema.Type) string {
		sa, sb := static(a), static(b)
		return typesBit(func() bool { return sema.IsSubType(a, b) }) +
			typesBit(func() bool { return interpreter.IsSubType(conv, sa, sb) }) +
			typesBit(func() bool { return interpreter.IsSubTypeOfSemaType(conv, sa, b) })
	}
	switch op[1] {
	case "sub":
		a, b := typesParse(op[2]), typesParse(op[3])
		sa, sb := static(a), static(b)
		// round trip sema -> static -> sema must give an equal type
		rt := typesBit(func() bool { return conv.SemaTypeFromStaticType(sa).Equal(a) && conv.SemaTypeFromStaticType(sb).Equal(b) })
		return "eq=" + typesBit(func() bool { return a.Equal(b) }) +
			" seq=" + typesBit(func() bool { return sa.Equal(sb) }) +
			" rt=" + rt +
			" is=" + variants(a, b) +
			" chk=" + typesBit(func() bool { return sema.CheckSubTypeWithoutEquality(a, b) }) +
			typesBit(func() bool { return sema.CheckSubTypeWithoutEquality_gen(a, b) }) +
			typesBit(func() bool { return interpreter.CheckSubTypeWithoutEquality_gen(conv, sa, sb) })
	case "refl":
		a := typesParse(op[2])
		return variants(a, a)
	case "bounds":
		a := typesParse(op[2])
		return variants(sema.NeverType, a) + " " + variants(a, sema.AnyType)
	case "decls":
		return "ok"
	case "trans":
		a, b, c := typesParse(op[2]), typesParse(op[3]), typesParse(op[4])
		return typesBit(func() bool { return sema.IsSubType(a, b) }) +
			typesBit(func() bool { return sema.IsSubType(b, c) }) +
			typesBit(func() bool { return sema.IsSubType(a, c) })
	}
	panic("unknown op")
}

// ---- generator

type typesGen struct {
	r *hx.Rng
	u *typesUniverse
}

var typesCommonPrims = []string{"Never", "Any", "AnyStruct", "AnyResource", "Int", "Int8", "UInt8", "Word64", "UFix64", "Fix64",
	"String", "Bool", "Address", "Integer", "SignedInteger", "Number", "FixedPoint", "HashableStruct", "Void", "Path", "StoragePath",
	"PublicPath", "CapabilityPath", "AnyStructAttachment", "AnyResourceAttachment", "Character", "MetaType"}

func (g *typesGen) prim() string {
	if g.r.Chance(70) {
		return "p " + typesCommonPrims[g.r.Intn(len(typesCommonPrims))]
	}
	return "p " + g.u.primNames[g.r.Intn(len(g.u.primNames))]
}

func (g *typesGen) auth() string {
	if g.r.Chance(40) {
		return "u"
	}
	ents := []string{"E1", "E2", "E3"}
	var s []string
	for _, e := range ents {
		if g.r.Chance(50) {
			s = append(s, e)
		}
	}
	if len(s) == 0 {
		s = []string{ents[g.r.Intn(3)]}
	}
	if len(s) >= 2 && g.r.Chance(40) {
		return "d:" + strings.Join(s, ",")
	}
	return "c:" + strings.Join(s, ",")
}

func (g *typesGen) inter() string {
	kind := "struct"
	if g.r.Bool() {
		kind = "resource"
	}
	var cands []string
	for _, n := range g.u.ifNames {
		if typesKindName(g.u.interfaces[n].CompositeKind) == kind {
			cands = append(cands, n)
		}
	}
	var pick []string
	for _, n := range cands {
		if g.r.Chance(45) {
			pick = append(pick, n)
		}
	}
	if len(pick) == 0 {
		pick = []string{cands[g.r.Intn(len(cands))]}
	}
	out := "in " + strconv.Itoa(len(pick))
	for _, n := range pick {
		out += " " + g.u.encIface(n)
	}
	return out
}

func (g *typesGen) keyType() string {
	return "p " + []string{"String", "Int", "Address", "Bool", "UInt8", "Path", "HashableStruct", "Never", "Integer", "Character"}[g.r.Intn(10)]
}

func (g *typesGen) ty(depth int) string {
	if depth <= 0 || g.r.Chance(30) {
		switch g.r.Intn(10) {
		case 0, 1:
			return g.u.encComp(g.u.compNames[g.r.Intn(len(g.u.compNames))])
		case 2:
			return g.u.encIface(g.u.ifNames[g.r.Intn(len(g.u.ifNames))])
		case 3:
			return g.inter()
		case 4:
			if g.r.Chance(30) {
				return "capany"
			}
			return g.prim()
		default:
			return g.prim()
		}
	}
	switch g.r.Intn(12) {
	case 0, 1:
		return "o " + g.ty(depth-1)
	case 2, 3:
		return "va " + g.ty(depth-1)
	case 4:
		return "ca " + strconv.Itoa(1+g.r.Intn(2)) + " " + g.ty(depth-1)
	case 5:
		return "d " + g.keyType() + " " + g.ty(depth-1)
	case 6, 7, 8:
		return "r " + g.auth() + " " + g.ty(depth-1)
	case 9:
		n := g.r.Intn(3)
		out := "f " + []string{"view", "impure"}[g.r.Intn(2)] + " " + strconv.Itoa(n)
		for i := 0; i < n; i++ {
			out += " " + g.ty(depth-1)
		}
		return out + " " + g.ty(depth-1)
	case 10:
		return "cap " + g.ty(depth-1)
	default:
		return "rng p " + []string{"Int", "UInt8", "Integer", "Int8", "Word64", "SignedInteger"}[g.r.Intn(6)]
	}
}

var typesPrimParent = map[string][]string{
	"Int": {"SignedInteger"}, "Int8": {"SignedInteger"}, "Int16": {"SignedInteger"}, "Int256": {"SignedInteger"},
	"UInt8": {"FixedSizeUnsignedInteger"}, "Word64": {"FixedSizeUnsignedInteger"}, "UInt": {"Integer"},
	"SignedInteger": {"Integer", "SignedNumber"}, "FixedSizeUnsignedInteger": {"Integer"}, "Integer": {"Number"},
	"Fix64": {"SignedFixedPoint"}, "UFix64": {"FixedPoint"}, "SignedFixedPoint": {"FixedPoint", "SignedNumber"},
	"FixedPoint": {"Number"}, "SignedNumber": {"Number"}, "Number": {"HashableStruct", "AnyStruct"},
	"StoragePath": {"Path"}, "PublicPath": {"CapabilityPath"}, "PrivatePath": {"CapabilityPath"}, "CapabilityPath": {"Path"},
	"Path": {"HashableStruct"}, "HashableStruct": {"AnyStruct"}, "AnyStruct": {"Any"}, "AnyResource": {"Any"},
	"String": {"HashableStruct", "AnyStruct"}, "Bool": {"HashableStruct"}, "Address": {"HashableStruct"},
	"AnyStructAttachment": {"AnyStruct"}, "AnyResourceAttachment": {"AnyResource"},
}

// a (likely) supertype of the encoded type
func (g *typesGen) superOf(enc string, depth int) string {
	toks := strings.Fields(enc)
	if g.r.Chance(12) {
		return "o " + enc
	}
	if g.r.Chance(12) {
		return "p " + []string{"AnyStruct", "AnyResource", "Any"}[g.r.Intn(3)]
	}
	sub := func(i int) (string, int) { // the sub-encoding starting at token i, and the index after it
		p := &typesParser{toks: toks, pos: i, u: g.u}
		p.ty()
		return strings.Join(toks[i:p.pos], " "), p.pos
	}
	switch toks[0] {
	case "p":
		if toks[1] == "Never" {
			return g.ty(depth)
		}
		if ps, ok := typesPrimParent[toks[1]]; ok {
			return "p " + ps[g.r.Intn(len(ps))]
		}
		return "p AnyStruct"
	case "o":
		inner, _ := sub(1)
		return "o " + g.superOf(inner, depth-1)
	case "va":
		inner, _ := sub(1)
		return "va " + g.superOf(inner, depth-1)
	case "ca":
		inner, _ := sub(2)
		return "ca " + toks[1] + " " + g.superOf(inner, depth-1)
	case "d":
		k, j := sub(1)
		v, _ := sub(j)
		return "d " + k + " " + g.superOf(v, depth-1)
	case "r":
		inner, _ := sub(2)
		a := toks[1]
		switch {
		case g.r.Chance(30):
			a = "u"
		case strings.HasPrefix(a, "c:") && g.r.Chance(50):
			es := strings.Split(a[2:], ",")
			if g.r.Bool() {
				a = "c:" + es[g.r.Intn(len(es))]
			} else {
				set := map[string]bool{es[g.r.Intn(len(es))]: true, []string{"E1", "E2", "E3"}[g.r.Intn(3)]: true}
				var l []string
				for e := range set {
					l = append(l, e)
				}
				sort.Strings(l)
				if len(l) == 1 {
					a = "c:" + l[0]
				} else {
					a = "d:" + strings.Join(l, ",")
				}
			}
		}
		if g.r.Chance(50) {
			return "r " + a + " " + inner
		}
		return "r " + a + " " + g.superOf(inner, depth-1)
	case "comp":
		name := toks[1]
		t := g.u.composites[name]
		var confs []string
		t.EffectiveInterfaceConformanceSet().ForEach(func(i *sema.InterfaceType) { confs = append(confs, i.Identifier) })
		sort.Strings(confs)
		if len(confs) > 0 && g.r.Chance(70) {
			c := confs[g.r.Intn(len(confs))]
			if g.r.Bool() {
				return g.u.encIface(c)
			}
			return "in 1 " + g.u.encIface(c)
		}
		if t.IsResourceType() {
			return "p AnyResource"
		}
		return "p AnyStruct"
	case "if":
		t := g.u.interfaces[toks[1]]
		var confs []string
		t.EffectiveInterfaceConformanceSet().ForEach(func(i *sema.InterfaceType) { confs = append(confs, i.Identifier) })
		sort.Strings(confs)
		if len(confs) > 0 && g.r.Chance(70) {
			return g.u.encIface(confs[g.r.Intn(len(confs))])
		}
		if t.IsResourceType() {
			return "p AnyResource"
		}
		return "p AnyStruct"
	case "in":
		// drop a member or go to the Any of the kind
		n, _ := strconv.Atoi(toks[1])
		if n > 1 {
			first, j := sub(2)
			_ = j
			return "in 1 " + first
		}
		if strings.Contains(enc, " resource ") {
			return "p AnyResource"
		}
		return "p AnyStruct"
	case "cap":
		inner, _ := sub(1)
		if g.r.Chance(30) {
			return "capany"
		}
		return "cap " + g.superOf(inner, depth-1)
	case "rng":
		inner, _ := sub(1)
		return "rng " + g.superOf(inner, depth-1)
	case "f":
		// function types: a view function is below an impure one, parameters are contravariant (a
		// parameter of the super type is a *sub* type of the original one: itself, `Never`, or the same
		// container of `Never`), the return type is covariant
		purity := toks[1]
		if purity == "view" && g.r.Chance(40) {
			purity = "impure"
		}
		n, _ := strconv.Atoi(toks[2])
		out := "f " + purity + " " + toks[2]
		i := 3
		for k := 0; k < n; k++ {
			param, j := sub(i)
			i = j
			ptoks := strings.Fields(param)
			switch {
			case g.r.Chance(55):
				out += " " + param
			case g.r.Chance(40):
				out += " p Never"
			case ptoks[0] == "va" || ptoks[0] == "o":
				out += " " + ptoks[0] + " p Never"
			case ptoks[0] == "r" && len(ptoks) > 2 && (ptoks[2] == "va" || ptoks[2] == "o"):
				out += " r " + ptoks[1] + " " + ptoks[2] + " p Never"
			default:
				out += " " + param
			}
		}
		ret, _ := sub(i)
		if g.r.Chance(50) {
			return out + " " + ret
		}
		return out + " " + g.superOf(ret, depth-1)
	}
	return "p AnyStruct"
}

// `Any` cannot be written in a program (it is only the top of the lattice): keep it at top level only
func typesFixAny(enc string) string {
	if enc == "p Any" {
		return enc
	}
	toks := strings.Fields(enc)
	for i := 0; i+1 < len(toks); i++ {
		if toks[i] == "p" && toks[i+1] == "Any" {
			toks[i+1] = "AnyStruct"
		}
	}
	return strings.Join(toks, " ")
}

func genTypes(c *hx.Ctx) {
	g := &typesGen{r: c.Rng, u: typesGetUniverse()}
	// exhaustive: all pairs of simple types; reflexivity and bounds on every simple and nominal type
	var leaves []string
	for _, n := range g.u.primNames {
		leaves = append(leaves, "p "+n)
	}
	for _, n := range g.u.compNames {
		leaves = append(leaves, g.u.encComp(n))
	}
	for _, n := range g.u.ifNames {
		leaves = append(leaves, g.u.encIface(n))
	}
	leaves = append(leaves, "capany")
	decls := g.u.encDecls()
	c.Emit("types", "decls", decls)
	for _, a := range leaves {
		c.Emit("types", "refl", a)
		c.Emit("types", "bounds", a)
		for _, b := range leaves {
			c.Emit("types", "sub", a, b)
		}
	}
	// the known transitivity failure (container of Never)
	c.Emit("types", "trans", "r u va p Never", "r u va p AnyResource", "r u p AnyResource")
	// the same failure in contravariant position (function parameter of the super-most type)
	c.Emit("types", "trans", "f impure 1 r u p AnyResource p Void", "f impure 1 r u va p AnyResource p Void", "f impure 1 r u va p Never p Void")
	// authorizations that overlap without being equal (same kind, same size, different members), at top
	// level and below every covariant / contravariant constructor
	g.authFamily(c)
	// random pairs, related pairs, chain-biased triples
	for i := 0; i < c.N; i++ {
		a := typesFixAny(g.ty(3))
		c.Emit("types", "refl", a)
		c.Emit("types", "bounds", a)
		switch g.r.Intn(4) {
		case 0:
			c.Emit("types", "sub", a, typesFixAny(g.ty(3)))
		default:
			b := typesFixAny(g.superOf(a, 3))
			c.Emit("types", "sub", a, b)
			c.Emit("types", "sub", b, a)
			cc := typesFixAny(g.superOf(b, 3))
			c.Emit("types", "trans", a, b, cc, decls)
			if g.r.Chance(30) {
				c.Emit("types", "sub", a, cc)
			}
		}
	}
	// random types in which one or all entitlement sets are replaced by an overlapping set of the same
	// kind and size
	for i := 0; i < c.N/6; i++ {
		a, b := g.authSiblings(typesFixAny(g.ty(3)))
		c.Emit("types", "sub", a, b)
		c.Emit("types", "sub", b, a)
		if g.r.Chance(40) {
			c.Emit("types", "trans", a, b, typesFixAny(g.superOf(b, 3)), decls)
		}
		if g.r.Chance(20) {
			c.Emit("types", "trans", a, b, a, decls)
		}
	}
	_ = ast.AccessAll
}

// ---- overlapping entitlement sets

var typesEnts4 = []string{"E1", "E2", "E3", "E4"}

// every entitlement-set authorization over E1..E4 in canonical (sorted) form: all conjunctions, all
// disjunctions of two or more
func typesAuthSets() []string {
	var out []string
	for m := 1; m < 16; m++ {
		var s []string
		for i, e := range typesEnts4 {
			if m>>i&1 == 1 {
				s = append(s, e)
			}
		}
		out = append(out, "c:"+strings.Join(s, ","))
		if len(s) >= 2 {
			out = append(out, "d:"+strings.Join(s, ","))
		}
	}
	return out
}

func typesAuthSize(a string) int {
	if a == "u" {
		return 0
	}
	return strings.Count(a, ",") + 1
}

// same kind, same number of entitlements, different sets
func typesAuthSameShape(a, b string) bool {
	return a != b && a != "u" && b != "u" && a[0] == b[0] && typesAuthSize(a) == typesAuthSize(b)
}

var typesAuthWrappers = []func(r string) string{
	func(r string) string { return "o " + r },
	func(r string) string { return "va " + r },
	func(r string) string { return "ca 2 " + r },
	func(r string) string { return "d p String " + r },
	func(r string) string { return "cap " + r },
	func(r string) string { return "r u va " + r },
	func(r string) string { return "o va cap " + r },
	func(r string) string { return "f impure 1 " + r + " p Void" },
	func(r string) string { return "f view 0 " + r },
}

func (g *typesGen) authFamily(c *hx.Ctx) {
	auths := append([]string{"u"}, typesAuthSets()...)
	targets := []string{g.u.encComp("S"), g.u.encComp("R"), "p Int", "in 1 " + g.u.encIface("SI")}
	// top level: every pair of authorizations
	for i, a := range auths {
		for j, b := range auths {
			t := targets[(i+j)%len(targets)]
			c.Emit("types", "sub", "r "+a+" "+t, "r "+b+" "+t)
		}
	}
	// nested: the pairs of the same kind and size
	for wi, w := range typesAuthWrappers {
		for i, a := range auths {
			for j, b := range auths {
				if !typesAuthSameShape(a, b) {
					continue
				}
				t := targets[(wi+i+j)%len(targets)]
				c.Emit("types", "sub", w("r "+a+" "+t), w("r "+b+" "+t))
			}
		}
	}
}

// a random entitlement set of the given kind and size over E1..E4 (sorted)
func (g *typesGen) authOf(kind byte, size int) string {
	idx := []int{0, 1, 2, 3}
	for i := 3; i > 0; i-- {
		j := g.r.Intn(i + 1)
		idx[i], idx[j] = idx[j], idx[i]
	}
	pick := idx[:size]
	sort.Ints(pick)
	var s []string
	for _, i := range pick {
		s = append(s, typesEnts4[i])
	}
	return string(kind) + ":" + strings.Join(s, ",")
}

// a different set of the same kind and size that shares at least one entitlement with `a` (size >= 2, <= 3)
func (g *typesGen) authSibling(a string) string {
	for {
		b := g.authOf(a[0], typesAuthSize(a))
		if b == a {
			continue
		}
		for _, e := range strings.Split(b[2:], ",") {
			if strings.Contains(a, e) {
				return b
			}
		}
	}
}

// the type with its authorizations widened to sets of two or three entitlements, and the same type with
// one or all of these sets replaced by an overlapping sibling
func (g *typesGen) authSiblings(enc string) (string, string) {
	toks := strings.Fields(enc)
	var at []int
	for i := 0; i+1 < len(toks); i++ {
		if toks[i] == "r" && (toks[i+1] == "u" || strings.HasPrefix(toks[i+1], "c:") || strings.HasPrefix(toks[i+1], "d:")) {
			at = append(at, i+1)
		}
	}
	if len(at) == 0 {
		w := typesAuthWrappers[g.r.Intn(len(typesAuthWrappers))]
		return g.authSiblings(w("r u " + enc))
	}
	a := append([]string{}, toks...)
	for _, i := range at {
		if n := typesAuthSize(a[i]); n < 2 || n > 3 {
			a[i] = g.authOf("cd"[g.r.Intn(2)], 2+g.r.Intn(2))
		}
	}
	b := append([]string{}, a...)
	if g.r.Chance(30) {
		for _, i := range at {
			b[i] = g.authSibling(a[i])
		}
	} else {
		i := at[g.r.Intn(len(at))]
		b[i] = g.authSibling(a[i])
	}
	return strings.Join(a, " "), strings.Join(b, " ")
}
