package main

// Stream `sat` (property C13): saturatingAdd / Subtract / Multiply / Divide of the integer value types,
// called directly on interpreter values (all 20 types, also the methods no Cadence type declares) and
// through Cadence scripts in both engines (where an undeclared member must be rejected by the checker).
// Uses the helpers of stream_num.go: list stream_num.go in PROP["harness_files"].
//
// Line:  sat <Type> <Method> <a> <b|*> [interp|vm]  =>  ok:<n> | err:<kind> | nil | panic
// Exhaustive for Int8 / UInt8 (all operand pairs x 4 methods); boundary-biased pairs (operands whose
// sums / differences / products / quotients straddle the bounds, min / -1, x / 0) for the others.

import (
	"fmt"
	"math/big"

	"verif/harness/internal/hx"
)

func init() {
	hx.Register(&hx.Stream{Name: "sat", Gen: genSat, Exec: numExec, Parallel: true})
}

var satOps = []string{"SaturatingPlus", "SaturatingMinus", "SaturatingMul", "SaturatingDiv"}

func genSat(c *hx.Ctx) {
	r := c.Rng
	for _, tn := range []string{"Int8", "UInt8"} {
		t, _ := numTypeByName(tn)
		lo, hi := int(t.lo().Int64()), int(t.hi().Int64())
		for a := lo; a <= hi; a++ {
			for _, op := range satOps {
				c.Emit("sat", tn, op, fmt.Sprint(a), "*")
			}
		}
	}
	for _, t := range numTypeTable {
		// the corner cases of every type
		if l, h := t.lo(), t.hi(); l != nil && h != nil {
			for _, a := range []*big.Int{l, h, big.NewInt(0), big.NewInt(1)} {
				for _, b := range []*big.Int{l, h, big.NewInt(0), big.NewInt(1), big.NewInt(-1)} {
					if !t.inRange(b) {
						continue
					}
					for _, op := range satOps {
						c.Emit("sat", t.name, op, a.String(), b.String())
					}
				}
			}
		}
		for i := 0; i < c.N; i++ {
			a := numBoundary(r, t)
			var b *big.Int
			if r.Chance(55) {
				b = numPartner(r, t, a)
			} else {
				b = numBoundary(r, t)
			}
			if r.Chance(8) {
				b = big.NewInt(0)
			}
			for _, op := range satOps {
				c.Emit("sat", t.name, op, a.String(), b.String())
			}
		}
	}
	// scripts, both engines: every (type, method) at least once (declared or not), then a random sample
	k := 0
	for _, t := range numTypeTable {
		for _, op := range satOps {
			a := numBoundary(r, t)
			b := numPartner(r, t, a)
			if op == "SaturatingDiv" && k%3 == 0 {
				b = big.NewInt(0)
			}
			c.Emit("sat", t.name, op, a.String(), b.String(), []string{"interp", "vm"}[k%2])
			k++
		}
	}
	nScripts := c.N / 2
	if nScripts > 600 {
		nScripts = 600
	}
	for i := 0; i < nScripts; i++ {
		t := numTypeTable[r.Intn(len(numTypeTable))]
		a := numBoundary(r, t)
		b := numPartner(r, t, a)
		if r.Chance(10) {
			b = big.NewInt(0)
		}
		c.Emit("sat", t.name, satOps[r.Intn(4)], a.String(), b.String(), []string{"interp", "vm"}[i%2])
	}
}
